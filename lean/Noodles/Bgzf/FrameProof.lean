import Noodles.Bgzf.Frame
/-! Helper lemmas for the C01 theorems (frames written by `frame` are read back by `readFrame`). -/
namespace Noodles.Bgzf
open Noodles.Codec

/-! ## constants -/

theorem MAX_BUF_eq : MAX_BUF = 65495 := by decide
theorem MAX_COMPRESSED_eq : MAX_COMPRESSED = 65510 := by decide
theorem MIN_FRAME_eq : MIN_FRAME = 26 := by decide
theorem HEADER_SIZE_eq : HEADER_SIZE = 18 := rfl
theorem TRAILER_SIZE_eq : TRAILER_SIZE = 8 := rfl
theorem MAX_ISIZE_eq : MAX_ISIZE = 65536 := rfl
theorem headerPrefix_length : headerPrefix.length = 16 := rfl

/-- the bytes of one BGZF member, exactly as `frame` lays them out -/
def mkFrame (cdata : Bytes) (crc isize : Nat) : Bytes :=
  headerPrefix ++ le 2 (HEADER_SIZE + cdata.length + TRAILER_SIZE - 1) ++ cdata ++ le 4 crc ++ le 4 isize

theorem mkFrame_length (cdata : Bytes) (crc isize : Nat) :
    (mkFrame cdata crc isize).length = 26 + cdata.length := by
  simp [mkFrame, le_length, headerPrefix_length]; omega

theorem mkFrame_assoc (cdata : Bytes) (crc isize : Nat) (rest : Bytes) :
    mkFrame cdata crc isize ++ rest =
      headerPrefix ++ (le 2 (25 + cdata.length) ++ (cdata ++ (le 4 crc ++ (le 4 isize ++ rest)))) := by
  have h : HEADER_SIZE + cdata.length + TRAILER_SIZE - 1 = 25 + cdata.length := by
    simp only [HEADER_SIZE_eq, TRAILER_SIZE_eq]; omega
  simp only [mkFrame, h, List.append_assoc]

theorem frame_ok (cdata : Bytes) (crc isize : Nat) (hc : cdata.length ≤ MAX_COMPRESSED)
    (hi : isize < 2^32) : frame cdata crc isize = .ok (mkFrame cdata crc isize) := by
  rw [MAX_COMPRESSED_eq] at hc
  have h1 : HEADER_SIZE + cdata.length + TRAILER_SIZE - 1 < 65536 := by
    simp only [HEADER_SIZE_eq, TRAILER_SIZE_eq]; omega
  simp only [frame, h1, hi, if_true, mkFrame]

/-- `readFrame` reads back what `frame` wrote. -/
theorem readFrame_mkFrame (D : Deflater) (cdata data rest : Bytes) (crc isize : Nat)
    (hc : cdata.length ≤ 65510) (hcrc : crc < 2^32) (hi : isize ≤ 65536)
    (hinf : D.inflate cdata isize = some data) (hcrcEq : D.crc data = crc) :
    readFrame D (mkFrame cdata crc isize ++ rest) = .ok (some (26 + cdata.length, data, rest)) := by
  have hlen : (mkFrame cdata crc isize ++ rest).length = 26 + cdata.length + rest.length := by
    rw [List.length_append, mkFrame_length]
  unfold readFrame
  rw [hlen]
  rw [mkFrame_assoc]
  rw [List.take_left' headerPrefix_length, List.drop_left' headerPrefix_length]
  rw [unle_le 2 _ (by omega)]
  simp only [HEADER_SIZE_eq, MIN_FRAME_eq, MAX_ISIZE_eq]
  rw [if_neg (by omega), if_neg (by omega), if_neg (by omega), if_neg (by simp)]
  have e1 : 25 + cdata.length + 1 - 26 = cdata.length := by omega
  rw [e1, List.take_left' rfl, List.drop_left' rfl]
  rw [unle_le 4 _ (by omega)]
  simp only
  rw [unle_le 4 _ (by omega)]
  simp only
  rw [if_neg (by omega), hinf]
  simp only [hcrcEq, if_true]
  congr 3
  omega


theorem EOF_MARKER_eq : EOF_MARKER = mkFrame [0x03, 0x00] 0 0 := by decide

theorem EOF_MARKER_length : EOF_MARKER.length = 28 := rfl

theorem readFrame_eof_marker (D : Deflater) (hD : D.Lawful) (rest : Bytes) :
    readFrame D (EOF_MARKER ++ rest) = .ok (some (28, [], rest)) := by
  rw [EOF_MARKER_eq]
  exact readFrame_mkFrame D [0x03, 0x00] [] rest 0 0 (by simp) (by omega) (by omega)
    hD.eof_block hD.crc_nil

theorem readFrame_nil (D : Deflater) : readFrame D [] = .ok none := by
  simp [readFrame, HEADER_SIZE_eq]

/-! ## the frame list written so far -/

/-- a member: (cdata, data) -/
def Good (D : Deflater) (p : Bytes × Bytes) : Prop :=
  p.1.length ≤ 65510 ∧ p.2.length ≤ 65536 ∧ D.inflate p.1 p.2.length = some p.2

def encFrame (D : Deflater) (p : Bytes × Bytes) : Bytes := mkFrame p.1 (D.crc p.2) p.2.length

def enc (D : Deflater) (frs : List (Bytes × Bytes)) : Bytes := (frs.map (encFrame D)).flatten

def datas (frs : List (Bytes × Bytes)) : Bytes := (frs.map (·.2)).flatten

theorem enc_nil (D : Deflater) : enc D [] = [] := rfl
theorem datas_nil : datas [] = [] := rfl
theorem enc_cons (D : Deflater) (p) (frs) : enc D (p :: frs) = encFrame D p ++ enc D frs := rfl
theorem datas_cons (p : Bytes × Bytes) (frs) : datas (p :: frs) = p.2 ++ datas frs := rfl
theorem enc_snoc (D : Deflater) (p) (frs) : enc D (frs ++ [p]) = enc D frs ++ encFrame D p := by
  simp [enc]
theorem datas_snoc (p : Bytes × Bytes) (frs) : datas (frs ++ [p]) = datas frs ++ p.2 := by
  simp [datas]

theorem enc_length_ge (D : Deflater) (frs) : frs.length ≤ (enc D frs).length := by
  induction frs with
  | nil => simp
  | cons p frs ih =>
    rw [enc_cons, List.length_append, encFrame, mkFrame_length, List.length_cons]; omega

/-! ## reader over a frame list -/

theorem readAll_frames (D : Deflater) (hD : D.Lawful) (frs : List (Bytes × Bytes))
    (hg : ∀ p ∈ frs, Good D p) (fuel : Nat) (tail : Bytes) :
    readAll D (frs.length + fuel) (enc D frs ++ tail) =
      (match readAll D fuel tail with
       | .error e => .error e
       | .ok m => .ok (datas frs ++ m)) := by
  induction frs with
  | nil =>
    simp only [List.length_nil, Nat.zero_add, enc_nil, List.nil_append, datas_nil]
    cases readAll D fuel tail <;> rfl
  | cons p frs ih =>
    have hp := hg p (by simp)
    obtain ⟨h1, h2, h3⟩ := hp
    have hfuel : (p :: frs).length + fuel = (frs.length + fuel) + 1 := by simp; omega
    rw [hfuel, readAll, enc_cons, List.append_assoc, encFrame,
      readFrame_mkFrame D p.1 p.2 _ _ _ h1 (hD.crc_lt _) h2 h3 rfl]
    simp only
    rw [ih (fun q hq => hg q (List.mem_cons_of_mem _ hq))]
    cases readAll D fuel tail <;> simp [datas_cons]

theorem readAll_eof (D : Deflater) (hD : D.Lawful) (k : Nat) :
    readAll D (k + 2) EOF_MARKER = .ok [] := by
  have h := readFrame_eof_marker D hD []
  rw [List.append_nil] at h
  simp [readAll, h, readFrame_nil]

theorem readToEnd_frames (D : Deflater) (hD : D.Lawful) (frs : List (Bytes × Bytes))
    (hg : ∀ p ∈ frs, Good D p) :
    readToEnd D (enc D frs ++ EOF_MARKER) = .ok (datas frs) := by
  unfold readToEnd
  have hl := enc_length_ge D frs
  have hf : (enc D frs ++ EOF_MARKER).length + 1 =
      frs.length + (((enc D frs).length - frs.length + 27) + 2) := by
    rw [List.length_append, EOF_MARKER_length]; omega
  rw [hf, readAll_frames D hD frs hg, readAll_eof D hD]
  simp

/-! ## writer -/

theorem encodeBlock_ok (D : Deflater) (hD : D.Lawful) (lvl : Nat) (x : Bytes)
    (hx : x.length ≤ MAX_BUF) :
    ∃ c, encodeBlock D lvl x = .ok c ∧ c.length ≤ MAX_COMPRESSED ∧ D.inflate c x.length = some x := by
  unfold encodeBlock
  by_cases h : (D.deflate lvl x).length ≤ MAX_COMPRESSED
  · exact ⟨_, by rw [if_pos h], h, hD.roundtrip _ _⟩
  · have h0 := hD.level0 x hx
    exact ⟨_, by rw [if_neg h, if_pos h0], h0, hD.roundtrip _ _⟩

/-- what has been emitted: the sink is a list of good frames whose data, followed by the staged
bytes, is the payload so far -/
def Core (D : Deflater) (w : Writer) (pay : Bytes) : Prop :=
  w.position = w.sink.length ∧
    ∃ frs : List (Bytes × Bytes), (∀ p ∈ frs, Good D p) ∧ w.sink = enc D frs ∧
      datas frs ++ w.staging = pay

theorem Core_init (D : Deflater) : Core D Writer.init [] :=
  ⟨rfl, [], by simp, rfl, rfl⟩

theorem flushBlock_ok (D : Deflater) (hD : D.Lawful) (lvl : Nat) (w : Writer) (pay : Bytes)
    (hc : Core D w pay) (hs : w.staging.length ≤ MAX_BUF) :
    ∃ w', flushBlock D lvl w = .ok w' ∧ Core D w' pay ∧ w'.staging = [] := by
  obtain ⟨c, hc1, hc2, hc3⟩ := encodeBlock_ok D hD lvl w.staging hs
  obtain ⟨hpos, frs, hg, hsink, hpay⟩ := hc
  have hi : w.staging.length < 2^32 := by rw [MAX_BUF_eq] at hs; omega
  unfold flushBlock
  rw [hc1]
  simp only
  rw [frame_ok c _ _ hc2 hi]
  simp only
  refine ⟨_, rfl, ⟨?_, frs ++ [(c, w.staging)], ?_, ?_, ?_⟩, rfl⟩
  · simp [hpos]
  · intro p hp
    rcases List.mem_append.1 hp with hp | hp
    · exact hg p hp
    · have : p = (c, w.staging) := by simpa using hp
      subst this
      refine ⟨?_, ?_, hc3⟩
      · rw [MAX_COMPRESSED_eq] at hc2; exact hc2
      · rw [MAX_BUF_eq] at hs; simp only; omega
  · simp only [enc_snoc, encFrame, hsink]
  · simp only [datas_snoc, List.append_nil]; exact hpay

theorem flush_ok (D : Deflater) (hD : D.Lawful) (lvl : Nat) (w : Writer) (pay : Bytes)
    (hc : Core D w pay) (hs : w.staging.length ≤ MAX_BUF) :
    ∃ w', flush D lvl w = .ok w' ∧ Core D w' pay ∧ w'.staging = [] := by
  unfold flush
  by_cases h : w.staging.isEmpty
  · rw [if_pos h]
    exact ⟨w, rfl, hc, by simpa using h⟩
  · rw [if_neg h]
    exact flushBlock_ok D hD lvl w pay hc hs

theorem write1_ok (D : Deflater) (hD : D.Lawful) (lvl : Nat) (w : Writer) (pay buf : Bytes)
    (hc : Core D w pay) (hs : w.staging.length < MAX_BUF) :
    ∃ w', write1 D lvl w buf = .ok (w', min (MAX_BUF - w.staging.length) buf.length) ∧
      Core D w' (pay ++ buf.take (min (MAX_BUF - w.staging.length) buf.length)) ∧
      w'.staging.length < MAX_BUF := by
  obtain ⟨hpos, frs, hg, hsink, hpay⟩ := hc
  have hc' : Core D { w with staging := w.staging ++ buf.take (min (MAX_BUF - w.staging.length) buf.length) }
      (pay ++ buf.take (min (MAX_BUF - w.staging.length) buf.length)) :=
    ⟨hpos, frs, hg, hsink, by simp only [← hpay, List.append_assoc]⟩
  unfold write1
  simp only
  split
  · next hlt => exact ⟨_, rfl, hc', hlt⟩
  · next hge =>
    have hle : ({ w with staging := w.staging ++ buf.take (min (MAX_BUF - w.staging.length) buf.length) } :
        Writer).staging.length ≤ MAX_BUF := by
      simp only [List.length_append, List.length_take]; omega
    obtain ⟨w'', hf, hcore, hst⟩ := flush_ok D hD lvl _ _ hc' hle
    rw [hf]
    refine ⟨w'', rfl, hcore, ?_⟩
    rw [hst, MAX_BUF_eq]; simp

theorem writeAll_ok (D : Deflater) (hD : D.Lawful) (lvl : Nat) (fuel : Nat) (w : Writer)
    (pay buf : Bytes) (hc : Core D w pay) (hs : w.staging.length < MAX_BUF)
    (hf : buf.length < fuel) :
    ∃ w', writeAll D lvl fuel w buf = .ok w' ∧ Core D w' (pay ++ buf) ∧
      w'.staging.length < MAX_BUF := by
  induction fuel generalizing w pay buf with
  | zero => omega
  | succ fuel ih =>
    unfold writeAll
    by_cases hb : buf.isEmpty
    · rw [if_pos hb]
      have : buf = [] := by simpa using hb
      subst this
      exact ⟨w, rfl, by simpa using hc, hs⟩
    · rw [if_neg hb]
      have hne : buf ≠ [] := by simpa using hb
      have hlen : 0 < buf.length := List.length_pos_iff.2 hne
      obtain ⟨w', h1, hcore, hst⟩ := write1_ok D hD lvl w pay buf hc hs
      rw [h1]
      simp only
      have hamt : min (MAX_BUF - w.staging.length) buf.length ≠ 0 := by omega
      rw [if_neg hamt]
      obtain ⟨w'', h2, hcore2, hst2⟩ := ih w' _ (buf.drop (min (MAX_BUF - w.staging.length) buf.length))
        hcore hst (by simp only [List.length_drop]; omega)
      refine ⟨w'', h2, ?_, hst2⟩
      rw [List.append_assoc, List.take_append_drop] at hcore2
      exact hcore2

/-- the invariant between operations -/
def Inv (D : Deflater) (w : Writer) (pay : Bytes) : Prop :=
  Core D w pay ∧ w.staging.length < MAX_BUF

theorem Inv_init (D : Deflater) : Inv D Writer.init [] :=
  ⟨Core_init D, by rw [MAX_BUF_eq]; simp [Writer.init]⟩

theorem step_ok (D : Deflater) (hD : D.Lawful) (lvl : Nat) (w : Writer) (pay : Bytes) (op : Op)
    (hi : Inv D w pay) : ∃ w', step D lvl w op = .ok w' ∧ Inv D w' (pay ++ payload [op]) := by
  cases op with
  | write b =>
    obtain ⟨w', h1, h2, h3⟩ := writeAll_ok D hD lvl (b.length + 1) w pay b hi.1 hi.2 (by omega)
    exact ⟨w', h1, by simpa [payload] using h2, h3⟩
  | flush =>
    obtain ⟨w', h1, h2, h3⟩ := flush_ok D hD lvl w pay hi.1 (Nat.le_of_lt hi.2)
    refine ⟨w', h1, by simpa [payload] using h2, ?_⟩
    rw [h3, MAX_BUF_eq]; simp

theorem run_ok' (D : Deflater) (hD : D.Lawful) (lvl : Nat) (ops : List Op) (w : Writer) (pay : Bytes)
    (hi : Inv D w pay) : ∃ w', run D lvl w ops = .ok w' ∧ Inv D w' (pay ++ payload ops) := by
  induction ops generalizing w pay with
  | nil => exact ⟨w, rfl, by simpa [payload] using hi⟩
  | cons op ops ih =>
    obtain ⟨w1, h1, hi1⟩ := step_ok D hD lvl w pay op hi
    obtain ⟨w2, h2, hi2⟩ := ih w1 _ hi1
    refine ⟨w2, by simp only [run, h1, h2], ?_⟩
    have : payload (op :: ops) = payload [op] ++ payload ops := by
      cases op <;> simp [payload]
    rw [this, ← List.append_assoc]; exact hi2

theorem finish_ok (D : Deflater) (hD : D.Lawful) (lvl : Nat) (w : Writer) (pay : Bytes)
    (hi : Inv D w pay) :
    ∃ w' frs, finish D lvl w = .ok w' ∧ (∀ p ∈ frs, Good D p) ∧
      w'.sink = enc D frs ++ EOF_MARKER ∧ datas frs = pay := by
  obtain ⟨w', h1, ⟨_, frs, hg, hsink, hpay⟩, h3⟩ := flush_ok D hD lvl w pay hi.1 (Nat.le_of_lt hi.2)
  refine ⟨{ w' with sink := w'.sink ++ EOF_MARKER, position := w'.position + EOF_MARKER.length },
    frs, by simp only [finish, h1], hg, ?_, ?_⟩
  · simp only [hsink]
  · rw [h3, List.append_nil] at hpay; exact hpay

/-! ## `write_all` does not depend on how the bytes are split (no `Lawful` needed) -/

theorem flush_staging (D : Deflater) (lvl : Nat) (w w' : Writer) (h : flush D lvl w = .ok w') :
    w'.staging = [] := by
  unfold flush at h
  split at h
  · next he =>
    have : w' = w := by injection h with h; exact h.symm
    subst this; simpa using he
  · unfold flushBlock at h
    split at h
    · cases h
    · split at h
      · cases h
      · injection h with h; subst h; rfl

theorem write1_facts (D : Deflater) (lvl : Nat) (w w' : Writer) (buf : Bytes) (amt : Nat)
    (_hs : w.staging.length < MAX_BUF) (h : write1 D lvl w buf = .ok (w', amt)) :
    amt = min (MAX_BUF - w.staging.length) buf.length ∧ w'.staging.length < MAX_BUF := by
  unfold write1 at h
  simp only at h
  split at h
  · next hlt =>
    injection h with h
    injection h with h1 h2
    subst h1
    exact ⟨h2.symm, hlt⟩
  · split at h
    · cases h
    · next w'' hf =>
      injection h with h
      injection h with h1 h2
      subst h1
      refine ⟨h2.symm, ?_⟩
      rw [flush_staging D lvl _ _ hf, MAX_BUF_eq]; simp

theorem writeAll_nil (D : Deflater) (lvl fuel : Nat) (w : Writer) :
    writeAll D lvl fuel w [] = .ok w := by
  cases fuel <;> simp [writeAll]

theorem writeAll_fuel_irrelevant (D : Deflater) (lvl : Nat) (f1 f2 : Nat) (w : Writer) (buf : Bytes)
    (h1 : buf.length < f1) (h2 : buf.length < f2) (hs : w.staging.length < MAX_BUF) :
    writeAll D lvl f1 w buf = writeAll D lvl f2 w buf := by
  induction f1 generalizing f2 w buf with
  | zero => omega
  | succ f1 ih =>
    cases f2 with
    | zero => omega
    | succ f2 =>
      unfold writeAll
      by_cases hb : buf.isEmpty
      · rw [if_pos hb, if_pos hb]
      · rw [if_neg hb, if_neg hb]
        have hne : buf ≠ [] := by simpa using hb
        have hlen : 0 < buf.length := List.length_pos_iff.2 hne
        cases hw : write1 D lvl w buf with
        | error e => rfl
        | ok r =>
          obtain ⟨w', amt⟩ := r
          obtain ⟨ha, hs'⟩ := write1_facts D lvl w w' buf amt hs hw
          simp only
          have hamt : amt ≠ 0 := by omega
          rw [if_neg hamt, if_neg hamt]
          exact ih f2 w' _ (by simp only [List.length_drop]; omega)
            (by simp only [List.length_drop]; omega) hs'

theorem write1_append_of_le (D : Deflater) (lvl : Nat) (w : Writer) (a b : Bytes)
    (h : MAX_BUF - w.staging.length ≤ a.length) :
    write1 D lvl w (a ++ b) = write1 D lvl w a := by
  have h1 : min (MAX_BUF - w.staging.length) (a ++ b).length = MAX_BUF - w.staging.length := by
    rw [List.length_append]; omega
  have h2 : min (MAX_BUF - w.staging.length) a.length = MAX_BUF - w.staging.length := by omega
  unfold write1
  simp only [h1, h2, List.take_append_of_le_length h]

theorem write1_of_lt (D : Deflater) (lvl : Nat) (w : Writer) (a : Bytes)
    (h : a.length < MAX_BUF - w.staging.length) :
    write1 D lvl w a = .ok ({ w with staging := w.staging ++ a }, a.length) := by
  have h2 : min (MAX_BUF - w.staging.length) a.length = a.length := by omega
  unfold write1
  simp only [h2, List.take_length]
  rw [if_pos (by rw [List.length_append]; omega)]

theorem write1_append_of_lt (D : Deflater) (lvl : Nat) (w : Writer) (a b : Bytes)
    (h : a.length < MAX_BUF - w.staging.length) :
    write1 D lvl w (a ++ b) =
      (match write1 D lvl { w with staging := w.staging ++ a } b with
       | .error e => .error e
       | .ok (w', amt) => .ok (w', a.length + amt)) := by
  have h1 : min (MAX_BUF - w.staging.length) (a ++ b).length =
      a.length + min (MAX_BUF - (w.staging ++ a).length) b.length := by
    simp only [List.length_append]; omega
  unfold write1
  simp only [h1, List.take_length_add_append, List.append_assoc]
  split
  · rfl
  · split <;> rename_i heq <;> rw [heq]

theorem writeAll_append (D : Deflater) (lvl : Nat) (n : Nat) (w : Writer) (a b : Bytes)
    (f f1 f2 : Nat) (hn : a.length ≤ n) (hs : w.staging.length < MAX_BUF)
    (hf : (a ++ b).length < f) (hf1 : a.length < f1) (hf2 : b.length < f2) :
    writeAll D lvl f w (a ++ b) =
      (match writeAll D lvl f1 w a with
       | .error e => .error e
       | .ok w' => writeAll D lvl f2 w' b) := by
  induction n generalizing w a f f1 with
  | zero =>
    have : a = [] := List.eq_nil_of_length_eq_zero (by omega)
    subst this
    rw [writeAll_nil]
    simp only [List.nil_append]
    exact writeAll_fuel_irrelevant D lvl f f2 w b (by simpa using hf) hf2 hs
  | succ n ih =>
    by_cases ha : a = []
    · subst ha
      rw [writeAll_nil]
      simp only [List.nil_append]
      exact writeAll_fuel_irrelevant D lvl f f2 w b (by simpa using hf) hf2 hs
    · have hlen : 0 < a.length := List.length_pos_iff.2 ha
      rw [List.length_append] at hf
      obtain ⟨f, rfl⟩ : ∃ f', f = f' + 1 := ⟨f - 1, by omega⟩
      obtain ⟨f1, rfl⟩ : ∃ f', f1 = f' + 1 := ⟨f1 - 1, by omega⟩
      have hab : (a ++ b).isEmpty = false := by simp [ha]
      have ha' : a.isEmpty = false := by simp [ha]
      rw [writeAll, writeAll.eq_2 D lvl w a f1]
      simp only [hab, ha', Bool.false_eq_true, if_false]
      by_cases hroom : MAX_BUF - w.staging.length ≤ a.length
      · rw [write1_append_of_le D lvl w a b hroom]
        cases hw : write1 D lvl w a with
        | error e => rfl
        | ok r =>
          obtain ⟨w', amt⟩ := r
          obtain ⟨hamt, hs'⟩ := write1_facts D lvl w w' a amt hs hw
          simp only
          have hamt0 : amt ≠ 0 := by omega
          rw [if_neg hamt0, if_neg hamt0, List.drop_append_of_le_length (by omega)]
          exact ih w' (a.drop amt) f f1 (by simp only [List.length_drop]; omega) hs'
            (by simp only [List.length_append, List.length_drop]; omega)
            (by simp only [List.length_drop]; omega)
      · have hroom' : a.length < MAX_BUF - w.staging.length := by omega
        rw [write1_of_lt D lvl w a hroom', write1_append_of_lt D lvl w a b hroom']
        simp only
        rw [if_neg (by omega), List.drop_length, writeAll_nil]
        simp only
        have hs1 : ({ w with staging := w.staging ++ a } : Writer).staging.length < MAX_BUF := by
          simp only [List.length_append]; omega
        by_cases hb : b = []
        · subst hb
          rw [write1_of_lt D lvl _ [] (by simp only [List.length_nil, List.length_append]; omega)]
          simp [writeAll_nil, ha]
        · have hblen : 0 < b.length := List.length_pos_iff.2 hb
          obtain ⟨f2, rfl⟩ : ∃ f', f2 = f' + 1 := ⟨f2 - 1, by omega⟩
          have hb' : b.isEmpty = false := by simp [hb]
          rw [writeAll.eq_2 D lvl _ b f2]
          simp only [hb', Bool.false_eq_true, if_false]
          cases hw : write1 D lvl { w with staging := w.staging ++ a } b with
          | error e => rfl
          | ok r =>
            obtain ⟨w', amt⟩ := r
            obtain ⟨hamt, hs'⟩ := write1_facts D lvl _ w' b amt hs1 hw
            simp only at hamt
            simp only
            have hamt0 : amt ≠ 0 := by rw [List.length_append] at hamt; omega
            rw [if_neg (by omega), if_neg hamt0, List.drop_length_add_append]
            exact writeAll_fuel_irrelevant D lvl f f2 w' _
              (by simp only [List.length_drop]; omega)
              (by simp only [List.length_drop]; omega) hs'

end Noodles.Bgzf
