import Noodles.Bgzf.Frame
/-!
# The BGZF reader as a state machine over ANY byte string (model for C13: seeking in a cut file)

Transcribed from noodles-bgzf `io/reader.rs` (`read_nonempty_block_with`, `read_block`,
`read_block_into_buf`, `seek`, `Read::read`, `BufRead::fill_buf`/`consume`, `virtual_position`),
`io/reader/frame.rs` (`read_frame_into`, `split_frame`, `parse_header`, `parse_trailer`,
`parse_frame`, `block_initialize`, `inflate`, `parse_block`) and `io/block.rs`
(`Block::virtual_position`).

Unlike `Noodles.Bgzf.RM` (C02: a reader over the member *layout* of a COMPLETE file) this reader
runs over the raw bytes `f` of the file, which may be cut anywhere or be garbage. The inner stream
is a `std::io::Cursor` over `f`: its position `ipos` is part of the state (`Cursor::read_exact`
places the cursor at the end of the data when it fails; `Cursor::seek(Start(c))` accepts any `c`).
DEFLATE and CRC32 are the parameter `Deflater` of `Noodles.Bgzf.Frame`.
-/
namespace Noodles.Bgzf.SC
open Noodles.Codec hiding Err Dec
open Noodles.Bgzf

/-- `io::Block`: position and size in the compressed stream, inflated data and its cursor -/
structure Blk where
  bpos : Nat
  bsize : Nat
  data : Bytes
  cur : Nat
  deriving Repr, DecidableEq

/-- `io::Reader<Cursor<_>>`: `ipos` = the cursor of `inner`, `position` = `self.position` -/
structure R where
  ipos : Nat
  position : Nat
  blk : Blk
  deriving Repr, DecidableEq

/-- `Reader::new`: `Block::default()` -/
def R.init : R := ⟨0, 0, ⟨0, 0, [], 0⟩⟩

/-- `read_frame_into` on a cursor at `ipos` over `f`: the new cursor position, and `Ok(None)`
(fewer than 18 bytes left: `read_exact` → `UnexpectedEof` → `None`; the cursor goes to the end of
the data), `InvalidData` (BSIZE + 1 < 26; 18 bytes consumed), `UnexpectedEof` (body short; cursor
at the end of the data), or the `block_size` bytes of the frame. -/
def readFrameInto (f : Bytes) (ipos : Nat) : Nat × Except Err (Option Bytes) :=
  let s := f.drop ipos
  if s.length < HEADER_SIZE then (f.length, .ok none) else
  match unle 2 (s.drop 16) with
  | .error _ => (f.length, .error .eof)      -- unreachable: two bytes are there
  | .ok (bsize, _) =>
    let blockSize := bsize + 1
    if blockSize < MIN_FRAME then (ipos + HEADER_SIZE, .error .invalidData) else
    if s.length < blockSize then (f.length, .error .eof) else
    (ipos + blockSize, .ok (some (s.take blockSize)))

/-- `is_valid_header`: ID1 ID2 CM FLG, then XLEN SI1 SI2 SLEN (MTIME, XFL, OS are not looked at) -/
def validHeader (buf : Bytes) : Bool :=
  buf.take 4 == headerPrefix.take 4 && (buf.take 16).drop 10 == headerPrefix.drop 10

/-- `Data::resize(n)`: the real `Data` is a fixed 64 KiB buffer whose `resize` only sets the length
(bytes beyond the old length are whatever earlier blocks left there; modelled as zeros — the
content is never observed, see `parseBlock`) -/
def resize (d : Bytes) (n : Nat) : Bytes := d.take n ++ List.replicate (n - d.length) 0

/-- `parse_block(src, block)`: `parse_frame` (`split_frame`, `parse_header`, `parse_trailer`) leaves
the block alone when it fails; then `block_initialize` (size := `src.len()`, cursor 0, data resized
to ISIZE) and `inflate` + CRC check. After a failed `inflate` the block keeps the new size and a
data buffer of ISIZE bytes whose CONTENT is whatever the library left there (modelled as the resized
old buffer when the library fails, as the inflated bytes on a CRC mismatch; no request observes the
content, only its length through `virtual_position`). `bpos` is not touched here.
`direct = true` is `parse_block_into_buf` (the data goes to the caller's buffer): the only
difference in the block is the cursor, which is placed at ISIZE before inflating. -/
def parseBlock (D : Deflater) (direct : Bool) (buf : Bytes) (b : Blk) : Blk × Option Err :=
  if buf.length < MIN_FRAME then (b, some .eof) else
  if !validHeader buf then (b, some .invalidData) else
  let cdata := (buf.drop HEADER_SIZE).take (buf.length - MIN_FRAME)
  match unle 4 (buf.drop (buf.length - 8)), unle 4 (buf.drop (buf.length - 4)) with
  | .ok (crc, _), .ok (isize, _) =>
    if isize > MAX_ISIZE then (b, some .invalidData) else
    let b1 : Blk :=
      { b with bsize := buf.length, cur := if direct then isize else 0, data := resize b.data isize }
    match D.inflate cdata isize with
    | none => (b1, some .invalidData)
    | some d =>
      if D.crc d = crc then ({ b1 with data := d }, none)
      else ({ b1 with data := d }, some .invalidData)
  | _, _ => (b, some .eof)                   -- unreachable: eight bytes are there

/-- `read_nonempty_block_with(parse_block)` (`direct = false`, `read_block`) or
`read_nonempty_block_with(parse_block_into_buf)` (`direct = true`): frames until a non-empty one. At `Ok(None)` the block
becomes an empty block at `self.position`. An error leaves `self.position` alone (the cursor has
moved, the block may have been re-initialised). `fuel`: every round consumes ≥ 26 bytes. -/
def readBlock (D : Deflater) (direct : Bool) (f : Bytes) : Nat → R → R × Option Err
  | 0, s => (s, some .unreachable)
  | fuel+1, s =>
    match readFrameInto f s.ipos with
    | (ip, .error e) => ({ s with ipos := ip }, some e)
    | (ip, .ok none) => (⟨ip, s.position, ⟨s.position, 0, [], 0⟩⟩, none)
    | (ip, .ok (some buf)) =>
      match parseBlock D direct buf s.blk with
      | (b, some e) => (⟨ip, s.position, b⟩, some e)
      | (b, none) =>
        let s' : R := ⟨ip, s.position + b.bsize, { b with bpos := s.position }⟩
        if b.data.length > 0 then (s', none) else readBlock D direct f fuel s'

/-- the fuel that always suffices: one round per 26 bytes of the file, plus the final `None` -/
def fuelOf (f : Bytes) : Nat := f.length + 1

def hasRemaining (s : R) : Bool := s.blk.cur < s.blk.data.length

/-- `BufRead::consume` → `Data::consume` (clamped) -/
def consume (n : Nat) (s : R) : R :=
  { s with blk := { s.blk with cur := min (s.blk.cur + n) s.blk.data.length } }

/-- `BufRead::fill_buf` -/
def fillBuf (D : Deflater) (f : Bytes) (s : R) : R × Except Err Bytes :=
  if hasRemaining s then (s, .ok (s.blk.data.drop s.blk.cur))
  else match readBlock D false f (fuelOf f) s with
    | (s', some e) => (s', .error e)
    | (s', none) => (s', .ok (s'.blk.data.drop s'.blk.cur))

/-- `Read::read` with a buffer of `n` bytes. The direct path (`read_block_into_buf`, taken when the
block is used up and `n ≥ 65536`) inflates into the caller's buffer and leaves the block cursor at
the end of the block. -/
def read (D : Deflater) (f : Bytes) (s : R) (n : Nat) : R × Except Err Bytes :=
  if !hasRemaining s && n ≥ MAX_ISIZE then
    match readBlock D true f (fuelOf f) s with
    | (s', some e) => (s', .error e)
    | (s', none) => (s', .ok s'.blk.data)
  else
    match fillBuf D f s with
    | (s', .error e) => (s', .error e)
    | (s', .ok src) => (consume (min n src.length) s', .ok (src.take n))

/-- A `BufRead` consumer's step: `fill_buf()`, use the first `min m len` bytes, `consume` them
(line readers, `read_until`, `BufRead`-based record readers). It is the block path of `read`. -/
def fillConsume (D : Deflater) (f : Bytes) (s : R) (m : Nat) : R × Except Err Bytes :=
  match fillBuf D f s with
  | (s', .error e) => (s', .error e)
  | (s', .ok src) => (consume (min m src.length) s', .ok (src.take m))

/-- `Block::virtual_position` as (compressed, uncompressed) -/
def tell (s : R) : Nat × Nat :=
  if hasRemaining s then (s.blk.bpos, s.blk.cur) else (s.blk.bpos + s.blk.bsize, 0)

/-- `Reader::seek(VirtualPosition(c, u))`: cursor and `self.position` to `c`, `read_block`, then
`u` is checked against the block that was read. The state changes even when the call fails. -/
def seek (D : Deflater) (f : Bytes) (s : R) (c u : Nat) : R × Option Err :=
  match readBlock D false f (fuelOf f) { s with ipos := c, position := c } with
  | (s', some e) => (s', some e)
  | (s', none) =>
    if u > s'.blk.data.length then (s', some .invalidInput)
    else ({ s' with blk := { s'.blk with cur := u } }, none)

/-- how a run of `read` calls stopped -/
inductive Stop
  | more            -- the list of buffer sizes was used up
  | eof             -- a `read` returned `Ok(0)`
  | err (e : Err)
  deriving Repr, DecidableEq

/-- A run of `read` calls with the given buffer sizes, up to the first `Ok(0)` or error: the bytes
delivered, how it stopped, and the reader afterwards. -/
def readRun (D : Deflater) (f : Bytes) : R → List Nat → Bytes × Stop × R
  | s, [] => ([], .more, s)
  | s, n :: ns =>
    match read D f s n with
    | (s', .error e) => ([], .err e, s')
    | (s', .ok got) =>
      if got.isEmpty then ([], .eof, s')
      else
        let r := readRun D f s' ns
        (got ++ r.1, r.2.1, r.2.2)

/-- The caller's loop `loop { match r.read(&mut buf) { Ok(0) => break, Ok(n) => …, Err(e) => break } }`
with a buffer of `n` bytes, at most `fuel` rounds (`pump_eq_readRun`: it is `readRun` with `fuel`
buffers of `n` bytes). -/
def pump (D : Deflater) (f : Bytes) (n : Nat) : Nat → R → Bytes × Stop × R
  | 0, s => ([], .more, s)
  | fuel+1, s =>
    match read D f s n with
    | (s', .error e) => ([], .err e, s')
    | (s', .ok got) =>
      if got.isEmpty then ([], .eof, s')
      else
        let r := pump D f n fuel s'
        (got ++ r.1, r.2.1, r.2.2)

/-- one call of a consumer: `(false, n)` = `read` with an `n`-byte buffer, `(true, m)` =
`fill_buf` + `consume` of at most `m` bytes -/
def stepOp (D : Deflater) (f : Bytes) (s : R) (op : Bool × Nat) : R × Except Err Bytes :=
  if op.1 then fillConsume D f s op.2 else read D f s op.2

/-- A run of consumer calls (any mix of `read` and `fill_buf`/`consume`), up to the first call that
delivers nothing or fails. -/
def opsRun (D : Deflater) (f : Bytes) : R → List (Bool × Nat) → Bytes × Stop × R
  | s, [] => ([], .more, s)
  | s, op :: ops =>
    match stepOp D f s op with
    | (s', .error e) => ([], .err e, s')
    | (s', .ok got) =>
      if got.isEmpty then ([], .eof, s')
      else
        let r := opsRun D f s' ops
        (got ++ r.1, r.2.1, r.2.2)

/-- the `BufRead` loop `loop { let b = r.fill_buf()?; if b.is_empty() { break }; take min(m, len);
r.consume(..) }`, at most `fuel` rounds -/
def pumpFill (D : Deflater) (f : Bytes) (m : Nat) : Nat → R → Bytes × Stop × R
  | 0, s => ([], .more, s)
  | fuel+1, s =>
    match fillConsume D f s m with
    | (s', .error e) => ([], .err e, s')
    | (s', .ok got) =>
      if got.isEmpty then ([], .eof, s')
      else
        let r := pumpFill D f m fuel s'
        (got ++ r.1, r.2.1, r.2.2)

/-- as `seekThenRead`, the data read through `fill_buf`/`consume` (`c13 seekcutf`) -/
def seekThenFill (D : Deflater) (f : Bytes) (warm c u m fuel : Nat) :
    Except (Err × R) (Bytes × Stop × R × R) :=
  let s0 := (read D f R.init warm).1
  match seek D f s0 c u with
  | (s1, some e) => .error (e, s1)
  | (s1, none) => let r := pumpFill D f m fuel s1; .ok (r.1, r.2.1, s1, r.2.2)

/-- `default_read_exact`: `read` into the rest of the buffer until it is full; `Ok(0)` before that is
`UnexpectedEof` (the bytes read so far are lost to the caller, the cursor has moved); an error of
`read` is passed on (`Interrupted` never arises here). `n` = bytes still missing. -/
def readExactLoop (D : Deflater) (f : Bytes) : Nat → R → Nat → Bytes → R × Except Err Bytes
  | 0, s, _, _ => (s, .error .unreachable)
  | fuel+1, s, n, acc =>
    if n = 0 then (s, .ok acc) else
    match read D f s n with
    | (s', .error e) => (s', .error e)
    | (s', .ok got) =>
      if got.isEmpty then (s', .error .eof)
      else readExactLoop D f fuel s' (n - got.length) (acc ++ got)

/-- `Read::read_exact` with the in-block fast path (`data.as_ref().get(..buf.len())`) -/
def readExact (D : Deflater) (f : Bytes) (s : R) (n : Nat) : R × Except Err Bytes :=
  if n ≤ (s.blk.data.drop s.blk.cur).length then
    (consume n s, .ok ((s.blk.data.drop s.blk.cur).take n))
  else readExactLoop D f (n + 1) s n []

/-- a record reader's loop `loop { r.read_exact(&mut buf)?; … }` with `n`-byte records: the whole
records delivered and the error that ended it (it always ends with an error; at most `fuel` records) -/
def pumpExact (D : Deflater) (f : Bytes) (n : Nat) : Nat → R → Bytes × Stop × R
  | 0, s => ([], .more, s)
  | fuel+1, s =>
    match readExact D f s n with
    | (s', .error e) => ([], .err e, s')
    | (s', .ok got) =>
      let r := pumpExact D f n fuel s'
      (got ++ r.1, r.2.1, r.2.2)

/-- as `seekThenRead`, the data read by `read_exact` in `n`-byte records (`c13 seekcutx`) -/
def seekThenExact (D : Deflater) (f : Bytes) (warm c u n fuel : Nat) :
    Except (Err × R) (Bytes × Stop × R × R) :=
  let s0 := (read D f R.init warm).1
  match seek D f s0 c u with
  | (s1, some e) => .error (e, s1)
  | (s1, none) => let r := pumpExact D f n fuel s1; .ok (r.1, r.2.1, s1, r.2.2)

/-- The indexed consumer of the C13 oracle (`seek_on_cut`): one warm-up `read` whose result is
ignored, `seek`, then `read` with a buffer of `n` bytes until `Ok(0)` or an error. -/
def seekThenRead (D : Deflater) (f : Bytes) (warm c u n fuel : Nat) :
    Except (Err × R) (Bytes × Stop × R × R) :=
  let s0 := (read D f R.init warm).1
  match seek D f s0 c u with
  | (s1, some e) => .error (e, s1)
  | (s1, none) => let r := pump D f n fuel s1; .ok (r.1, r.2.1, s1, r.2.2)

end Noodles.Bgzf.SC
