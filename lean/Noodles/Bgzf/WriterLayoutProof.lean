import Noodles.Bgzf.WriterLayout
import Noodles.Bgzf.FrameProof
import Noodles.Bgzf.ReaderProof
/-! Helper lemmas for `writer_tell_names_byte`. -/
namespace Noodles.Bgzf
open Noodles.Codec

/-! ## the layout of a frame list -/

/-- the layout block of a member (cdata, data) -/
def blkOf (p : Bytes × Bytes) : RM.Blk UInt8 := ⟨26 + p.1.length, p.2⟩

def blocks (frs : List (Bytes × Bytes)) : RM.Layout UInt8 := frs.map blkOf

theorem blocks_length (frs : List (Bytes × Bytes)) : (blocks frs).length = frs.length := by
  simp [blocks]

theorem layoutOfSink_frames (D : Deflater) (hD : D.Lawful) (frs : List (Bytes × Bytes))
    (hg : ∀ p ∈ frs, Good D p) (fuel : Nat) (tail : Bytes) :
    layoutOfSink D (frs.length + fuel) (enc D frs ++ tail) =
      (match layoutOfSink D fuel tail with
       | none => none
       | some L => some (blocks frs ++ L)) := by
  induction frs with
  | nil =>
    simp only [List.length_nil, Nat.zero_add, enc_nil, List.nil_append, blocks, List.map_nil]
    cases layoutOfSink D fuel tail <;> rfl
  | cons p frs ih =>
    obtain ⟨h1, h2, h3⟩ := hg p (by simp)
    have hfuel : (p :: frs).length + fuel = (frs.length + fuel) + 1 := by simp; omega
    rw [hfuel, layoutOfSink, enc_cons, List.append_assoc, encFrame,
      readFrame_mkFrame D p.1 p.2 _ _ _ h1 (hD.crc_lt _) h2 h3 rfl]
    simp only
    rw [ih (fun q hq => hg q (List.mem_cons_of_mem _ hq))]
    cases layoutOfSink D fuel tail <;> simp [blocks, blkOf]

theorem layoutOfSink_eof (D : Deflater) (hD : D.Lawful) (k : Nat) :
    layoutOfSink D (k + 2) EOF_MARKER = some [⟨28, []⟩] := by
  have h := readFrame_eof_marker D hD []
  rw [List.append_nil] at h
  simp [layoutOfSink, h, readFrame_nil]

/-- `layoutOfSink` of a finished file: the members, then the EOF block -/
theorem layoutOfSink_enc (D : Deflater) (hD : D.Lawful) (frs : List (Bytes × Bytes))
    (hg : ∀ p ∈ frs, Good D p) :
    layoutOfSink D ((enc D frs ++ EOF_MARKER).length + 1) (enc D frs ++ EOF_MARKER) =
      some (blocks frs ++ [⟨28, []⟩]) := by
  have hl := enc_length_ge D frs
  have hf : (enc D frs ++ EOF_MARKER).length + 1 =
      frs.length + (((enc D frs).length - frs.length + 27) + 2) := by
    rw [List.length_append, EOF_MARKER_length]; omega
  rw [hf, layoutOfSink_frames D hD frs hg, layoutOfSink_eof D hD]

theorem blocks_csize_sum (D : Deflater) (frs : List (Bytes × Bytes)) :
    ((blocks frs).map (·.csize)).sum = (enc D frs).length := by
  induction frs with
  | nil => simp [blocks, enc_nil]
  | cons p frs ih =>
    simp only [blocks, List.map_cons, List.sum_cons] at ih ⊢
    rw [ih, enc_cons, List.length_append, encFrame, mkFrame_length]
    rfl

theorem blocks_data_sum (frs : List (Bytes × Bytes)) :
    ((blocks frs).map (·.data.length)).sum = (datas frs).length := by
  induction frs with
  | nil => simp [blocks, datas_nil]
  | cons p frs ih =>
    simp only [blocks, List.map_cons, List.sum_cons] at ih ⊢
    rw [ih, datas_cons, List.length_append]
    rfl

theorem coff_blocks (D : Deflater) (frs : List (Bytes × Bytes)) (M : RM.Layout UInt8) :
    RM.coff (blocks frs ++ M) frs.length = (enc D frs).length := by
  unfold RM.coff
  rw [← blocks_length frs, List.take_left, blocks_csize_sum D]

theorem uoff_blocks (frs : List (Bytes × Bytes)) (M : RM.Layout UInt8) :
    RM.uoff (blocks frs ++ M) frs.length = (datas frs).length := by
  unfold RM.uoff
  rw [← blocks_length frs, List.take_left, blocks_data_sum]

theorem flat_blocks (frs : List (Bytes × Bytes)) :
    RM.flat (blocks frs ++ [⟨28, []⟩]) = datas frs := by
  simp [RM.flat, blocks, datas, blkOf, List.map_map, Function.comp_def]

theorem WF_blocks (D : Deflater) (frs : List (Bytes × Bytes)) (hg : ∀ p ∈ frs, Good D p) :
    RM.WF (blocks frs ++ [⟨28, []⟩]) := by
  intro b hb
  rcases List.mem_append.1 hb with hb | hb
  · obtain ⟨p, hp, rfl⟩ := List.mem_map.1 hb
    obtain ⟨_, h2, _⟩ := hg p hp
    exact ⟨by simp only [blkOf]; omega, by simpa [blkOf, RM.MAX_ISIZE] using h2⟩
  · have : b = ⟨28, []⟩ := by simpa using hb
    subst this
    exact ⟨by simp, by simp⟩

theorem payload_append (a b : List Op) : payload (a ++ b) = payload a ++ payload b := by
  induction a with
  | nil => rfl
  | cons op a ih => cases op <;> simp [payload, ih]

/-! ## the invariant relative to an earlier state: frames are only appended, and the bytes staged
at the earlier state are a prefix of the next member's data -/

/-- data of the first member after the earlier state (or the staged bytes if none yet) -/
def headData (more : List (Bytes × Bytes)) (cur : Bytes) : Bytes :=
  match more with
  | [] => cur
  | p :: _ => p.2

theorem headData_snoc (more : List (Bytes × Bytes)) (c st x : Bytes) :
    headData (more ++ [(c, st)]) x = headData more st := by
  cases more <;> rfl

theorem prefix_headData_append (s0 : Bytes) (more : List (Bytes × Bytes)) (st t : Bytes)
    (h : s0 <+: headData more st) : s0 <+: headData more (st ++ t) := by
  cases more with
  | nil => exact h.trans (List.prefix_append _ _)
  | cons p r => exact h

def Core2 (D : Deflater) (frs0 : List (Bytes × Bytes)) (s0 : Bytes) (w : Writer) (pay : Bytes) :
    Prop :=
  w.position = w.sink.length ∧
    ∃ more : List (Bytes × Bytes), (∀ p ∈ more, Good D p) ∧ w.sink = enc D (frs0 ++ more) ∧
      datas (frs0 ++ more) ++ w.staging = pay ∧ s0 <+: headData more w.staging

theorem flushBlock2_ok (D : Deflater) (hD : D.Lawful) (lvl : Nat) (frs0 : List (Bytes × Bytes))
    (s0 : Bytes) (w : Writer) (pay : Bytes)
    (hc : Core2 D frs0 s0 w pay) (hs : w.staging.length ≤ MAX_BUF) :
    ∃ w', flushBlock D lvl w = .ok w' ∧ Core2 D frs0 s0 w' pay ∧ w'.staging = [] := by
  obtain ⟨c, hc1, hc2, hc3⟩ := encodeBlock_ok D hD lvl w.staging hs
  obtain ⟨hpos, more, hg, hsink, hpay, hpre⟩ := hc
  have hi : w.staging.length < 2^32 := by rw [MAX_BUF_eq] at hs; omega
  unfold flushBlock
  rw [hc1]
  simp only
  rw [frame_ok c _ _ hc2 hi]
  simp only
  refine ⟨_, rfl, ⟨?_, more ++ [(c, w.staging)], ?_, ?_, ?_, ?_⟩, rfl⟩
  · simp [hpos]
  · intro p hp
    rcases List.mem_append.1 hp with hp | hp
    · exact hg p hp
    · have : p = (c, w.staging) := by simpa using hp
      subst this
      refine ⟨?_, ?_, hc3⟩
      · rw [MAX_COMPRESSED_eq] at hc2; exact hc2
      · rw [MAX_BUF_eq] at hs; simp only; omega
  · simp only [← List.append_assoc, enc_snoc, encFrame, hsink]
  · simp only [← List.append_assoc, datas_snoc, List.append_nil]; exact hpay
  · rw [headData_snoc]; exact hpre

theorem flush2_ok (D : Deflater) (hD : D.Lawful) (lvl : Nat) (frs0 : List (Bytes × Bytes))
    (s0 : Bytes) (w : Writer) (pay : Bytes)
    (hc : Core2 D frs0 s0 w pay) (hs : w.staging.length ≤ MAX_BUF) :
    ∃ w', flush D lvl w = .ok w' ∧ Core2 D frs0 s0 w' pay ∧ w'.staging = [] := by
  unfold flush
  by_cases h : w.staging.isEmpty
  · rw [if_pos h]
    exact ⟨w, rfl, hc, by simpa using h⟩
  · rw [if_neg h]
    exact flushBlock2_ok D hD lvl frs0 s0 w pay hc hs

theorem write12_ok (D : Deflater) (hD : D.Lawful) (lvl : Nat) (frs0 : List (Bytes × Bytes))
    (s0 : Bytes) (w : Writer) (pay buf : Bytes)
    (hc : Core2 D frs0 s0 w pay) (hs : w.staging.length < MAX_BUF) :
    ∃ w', write1 D lvl w buf = .ok (w', min (MAX_BUF - w.staging.length) buf.length) ∧
      Core2 D frs0 s0 w' (pay ++ buf.take (min (MAX_BUF - w.staging.length) buf.length)) ∧
      w'.staging.length < MAX_BUF := by
  obtain ⟨hpos, more, hg, hsink, hpay, hpre⟩ := hc
  have hc' : Core2 D frs0 s0
      { w with staging := w.staging ++ buf.take (min (MAX_BUF - w.staging.length) buf.length) }
      (pay ++ buf.take (min (MAX_BUF - w.staging.length) buf.length)) :=
    ⟨hpos, more, hg, hsink, by simp only [← hpay, List.append_assoc],
      prefix_headData_append s0 more _ _ hpre⟩
  unfold write1
  simp only
  split
  · next hlt => exact ⟨_, rfl, hc', hlt⟩
  · next hge =>
    have hle : ({ w with staging := w.staging ++ buf.take (min (MAX_BUF - w.staging.length) buf.length) } :
        Writer).staging.length ≤ MAX_BUF := by
      simp only [List.length_append, List.length_take]; omega
    obtain ⟨w'', hf, hcore, hst⟩ := flush2_ok D hD lvl frs0 s0 _ _ hc' hle
    rw [hf]
    refine ⟨w'', rfl, hcore, ?_⟩
    rw [hst, MAX_BUF_eq]; simp

theorem writeAll2_ok (D : Deflater) (hD : D.Lawful) (lvl : Nat) (frs0 : List (Bytes × Bytes))
    (s0 : Bytes) (fuel : Nat) (w : Writer)
    (pay buf : Bytes) (hc : Core2 D frs0 s0 w pay) (hs : w.staging.length < MAX_BUF)
    (hf : buf.length < fuel) :
    ∃ w', writeAll D lvl fuel w buf = .ok w' ∧ Core2 D frs0 s0 w' (pay ++ buf) ∧
      w'.staging.length < MAX_BUF := by
  induction fuel generalizing w pay buf with
  | zero => omega
  | succ fuel ih =>
    unfold writeAll
    by_cases hb : buf.isEmpty
    · rw [if_pos hb]
      have : buf = [] := by simpa using hb
      subst this
      exact ⟨w, rfl, by simpa using hc, hs⟩
    · rw [if_neg hb]
      have hne : buf ≠ [] := by simpa using hb
      have hlen : 0 < buf.length := List.length_pos_iff.2 hne
      obtain ⟨w', h1, hcore, hst⟩ := write12_ok D hD lvl frs0 s0 w pay buf hc hs
      rw [h1]
      simp only
      have hamt : min (MAX_BUF - w.staging.length) buf.length ≠ 0 := by omega
      rw [if_neg hamt]
      obtain ⟨w'', h2, hcore2, hst2⟩ := ih w' _ (buf.drop (min (MAX_BUF - w.staging.length) buf.length))
        hcore hst (by simp only [List.length_drop]; omega)
      refine ⟨w'', h2, ?_, hst2⟩
      rw [List.append_assoc, List.take_append_drop] at hcore2
      exact hcore2

def Inv2 (D : Deflater) (frs0 : List (Bytes × Bytes)) (s0 : Bytes) (w : Writer) (pay : Bytes) :
    Prop :=
  Core2 D frs0 s0 w pay ∧ w.staging.length < MAX_BUF

theorem step2_ok (D : Deflater) (hD : D.Lawful) (lvl : Nat) (frs0 : List (Bytes × Bytes))
    (s0 : Bytes) (w : Writer) (pay : Bytes) (op : Op)
    (hi : Inv2 D frs0 s0 w pay) :
    ∃ w', step D lvl w op = .ok w' ∧ Inv2 D frs0 s0 w' (pay ++ payload [op]) := by
  cases op with
  | write b =>
    obtain ⟨w', h1, h2, h3⟩ :=
      writeAll2_ok D hD lvl frs0 s0 (b.length + 1) w pay b hi.1 hi.2 (by omega)
    exact ⟨w', h1, by simpa [payload] using h2, h3⟩
  | flush =>
    obtain ⟨w', h1, h2, h3⟩ := flush2_ok D hD lvl frs0 s0 w pay hi.1 (Nat.le_of_lt hi.2)
    refine ⟨w', h1, by simpa [payload] using h2, ?_⟩
    rw [h3, MAX_BUF_eq]; simp

theorem run2_ok (D : Deflater) (hD : D.Lawful) (lvl : Nat) (frs0 : List (Bytes × Bytes))
    (s0 : Bytes) (ops : List Op) (w : Writer) (pay : Bytes)
    (hi : Inv2 D frs0 s0 w pay) :
    ∃ w', run D lvl w ops = .ok w' ∧ Inv2 D frs0 s0 w' (pay ++ payload ops) := by
  induction ops generalizing w pay with
  | nil => exact ⟨w, rfl, by simpa [payload] using hi⟩
  | cons op ops ih =>
    obtain ⟨w1, h1, hi1⟩ := step2_ok D hD lvl frs0 s0 w pay op hi
    obtain ⟨w2, h2, hi2⟩ := ih w1 _ hi1
    refine ⟨w2, by simp only [run, h1, h2], ?_⟩
    have : payload (op :: ops) = payload [op] ++ payload ops := by
      cases op <;> simp [payload]
    rw [this, ← List.append_assoc]; exact hi2

theorem finish2_ok (D : Deflater) (hD : D.Lawful) (lvl : Nat) (frs0 : List (Bytes × Bytes))
    (s0 : Bytes) (w : Writer) (pay : Bytes)
    (hi : Inv2 D frs0 s0 w pay) :
    ∃ w' more, finish D lvl w = .ok w' ∧ (∀ p ∈ more, Good D p) ∧
      w'.sink = enc D (frs0 ++ more) ++ EOF_MARKER ∧ datas (frs0 ++ more) = pay ∧
      s0 <+: headData more [] := by
  obtain ⟨w', h1, ⟨_, more, hg, hsink, hpay, hpre⟩, h3⟩ :=
    flush2_ok D hD lvl frs0 s0 w pay hi.1 (Nat.le_of_lt hi.2)
  refine ⟨{ w' with sink := w'.sink ++ EOF_MARKER, position := w'.position + EOF_MARKER.length },
    more, by simp only [finish, h1], hg, ?_, ?_, ?_⟩
  · simp only [hsink]
  · rw [h3, List.append_nil] at hpay; exact hpay
  · rw [h3] at hpre; exact hpre

/-! ## resolving the writer's virtual position in the final layout -/

theorem resolve_blocks (D : Deflater) (frs0 more : List (Bytes × Bytes)) (s0 : Bytes)
    (hg : ∀ p ∈ frs0 ++ more, Good D p) (hpre : s0 <+: headData more []) :
    RM.resolve (blocks (frs0 ++ more) ++ [⟨28, []⟩]) (enc D frs0).length s0.length =
      some ((datas frs0).length + s0.length) := by
  have hWF := WF_blocks D (frs0 ++ more) hg
  have hL : blocks (frs0 ++ more) ++ [⟨28, []⟩] =
      blocks frs0 ++ (blocks more ++ [⟨28, []⟩]) := by
    simp [blocks]
  have hc : RM.coff (blocks (frs0 ++ more) ++ [⟨28, []⟩]) frs0.length = (enc D frs0).length := by
    rw [hL]; exact coff_blocks D frs0 _
  have hu : RM.uoff (blocks (frs0 ++ more) ++ [⟨28, []⟩]) frs0.length = (datas frs0).length := by
    rw [hL]; exact uoff_blocks frs0 _
  have hlen : frs0.length ≤
      (blocks (frs0 ++ more) ++ [(⟨28, []⟩ : RM.Blk UInt8)]).length := by
    rw [List.length_append, blocks_length, List.length_append]; omega
  have hm := RM.memberAt_coff _ hWF frs0.length hlen
  rw [hc] at hm
  unfold RM.resolve
  rw [hm]
  simp only
  have hget : (blocks (frs0 ++ more) ++ [⟨28, []⟩])[frs0.length]? =
      (blocks more ++ [(⟨28, []⟩ : RM.Blk UInt8)])[0]? := by
    rw [hL, ← blocks_length frs0, List.getElem?_append_right (Nat.le_refl _), Nat.sub_self]
  rw [hget, hu]
  cases more with
  | nil =>
    have : s0 = [] := by simpa [headData] using hpre
    subst this
    simp [blocks]
  | cons p rest =>
    have hle : s0.length ≤ p.2.length := hpre.length_le
    simp [blocks, blkOf, hle]

end Noodles.Bgzf
