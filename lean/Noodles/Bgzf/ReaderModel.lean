/-!
# The BGZF reader as a state machine over a block layout (model for C02)

Transcribed from noodles-bgzf `io/reader.rs`, `io/block.rs`, `io/block/data.rs`, `gzi/index.rs`
(after the two `fix:` commits: the block is replaced by an empty block at end of stream, and
`seek` rejects an in-block offset beyond the block).

A *layout* is the list of BGZF members of the file: compressed size and inflated data. The
framing/inflate layer that turns bytes into a layout is `Noodles.Bgzf.Frame` (C01). The inner
stream position is represented by the index `next` of the next member to be read.
-/
namespace Noodles.Bgzf.RM

structure Blk (α : Type) where
  csize : Nat
  data : List α
  deriving Repr

abbrev Layout (α : Type) := List (Blk α)

variable {α : Type}

/-- compressed offset of member `k` -/
def coff (L : Layout α) (k : Nat) : Nat := ((L.take k).map (·.csize)).sum
/-- uncompressed offset of member `k` -/
def uoff (L : Layout α) (k : Nat) : Nat := ((L.take k).map (·.data.length)).sum
/-- the uncompressed stream -/
def flat (L : Layout α) : List α := (L.map (·.data)).flatten

/-- reader state: `next` = members consumed from the inner stream, `position` = inner offset,
current block = (`bpos`, `bsize`, `data`, cursor `cur`) -/
structure R (α : Type) where
  next : Nat
  position : Nat
  bpos : Nat
  bsize : Nat
  data : List α
  cur : Nat
  deriving Repr

def R.init : R α := ⟨0, 0, 0, 0, [], 0⟩

inductive Err | eof | invalidInput | invalidData | badSeek
  deriving Repr, DecidableEq

/-- `read_nonempty_block_with`: read members until a non-empty one; at end of stream install an
empty block at the current position. -/
def readBlock (L : Layout α) (s : R α) : R α :=
  match h : L[s.next]? with
  | none => { s with bpos := s.position, bsize := 0, data := [], cur := 0 }
  | some b =>
    let s' : R α := ⟨s.next + 1, s.position + b.csize, s.position, b.csize, b.data, 0⟩
    if b.data.length > 0 then s' else readBlock L s'
termination_by L.length - s.next
decreasing_by
  have := (List.getElem?_eq_some_iff.mp h).1
  omega

def hasRemaining (s : R α) : Bool := s.cur < s.data.length

/-- `BufRead::fill_buf` -/
def fillBuf (L : Layout α) (s : R α) : R α × List α :=
  if hasRemaining s then (s, s.data.drop s.cur)
  else let s' := readBlock L s; (s', s'.data.drop s'.cur)

/-- `BufRead::consume` (clamped) -/
def consume (n : Nat) (s : R α) : R α := { s with cur := min (s.cur + n) s.data.length }

/-- `Block::virtual_position` as (compressed, uncompressed) -/
def tell (s : R α) : Nat × Nat :=
  if hasRemaining s then (s.bpos, s.cur) else (s.bpos + s.bsize, 0)

def MAX_ISIZE : Nat := 65536

/-- `Read::read` with a buffer of `n` bytes -/
def read (L : Layout α) (s : R α) (n : Nat) : R α × List α :=
  if !hasRemaining s && n ≥ MAX_ISIZE then
    -- direct path: inflate into the caller's buffer, cursor at the end of the block
    let s' := readBlock L s
    ({ s' with cur := s'.data.length }, s'.data)
  else
    let (s', src) := fillBuf L s
    let amt := min n src.length
    (consume amt s', src.take amt)

/-- `default_read_exact`: loop over `read` until `n` bytes were delivered; `read` returning
nothing is `UnexpectedEof` (the bytes read so far are lost to the caller, the cursor has moved) -/
def readExactLoop (L : Layout α) : Nat → R α → Nat → List α → R α × Except Err (List α)
  | 0, s, _, _ => (s, .error .eof)
  | fuel+1, s, n, acc =>
    if n = 0 then (s, .ok acc) else
    let (s', got) := read L s n
    if got.isEmpty then (s', .error .eof)
    else readExactLoop L fuel s' (n - got.length) (acc ++ got)

/-- `Read::read_exact` with the in-block fast path -/
def readExact (L : Layout α) (s : R α) (n : Nat) : R α × Except Err (List α) :=
  if n ≤ (s.data.drop s.cur).length then (consume n s, .ok ((s.data.drop s.cur).take n))
  else readExactLoop L (n + 1) s n []

/-- index of the member that starts at compressed offset `c` (`L.length` = end of file) -/
def memberAt (L : Layout α) (c : Nat) : Option Nat :=
  (List.range (L.length + 1)).find? (fun k => coff L k = c)

/-- `Reader::seek`: the state changes even when the call fails -/
def seek (L : Layout α) (s : R α) (c u : Nat) : R α × Option Err :=
  match memberAt L c with
  | none => (s, some .badSeek)          -- not a member boundary: the real reader would parse garbage
  | some k =>
    let s' := readBlock L { s with next := k, position := c }
    if u > s'.data.length then (s', some .invalidInput)
    else ({ s' with cur := u }, none)

/-- a gzi index: (compressed offset, uncompressed offset) of every member but the first -/
abbrev Gzi := List (Nat × Nat)

def gziOf (L : Layout α) : Gzi :=
  (List.range L.length).tail.map fun k => (coff L k, uoff L k)

/-- `gzi::Index::query`: last entry whose uncompressed offset is ≤ pos (the list is sorted) -/
def gziQuery (g : Gzi) (pos : Nat) : Except Err (Nat × Nat) :=
  let i := (g.takeWhile fun r => r.2 ≤ pos).length       -- partition_point(r.1 <= pos)
  let (c, u) := if i = 0 then (0, 0) else g[i - 1]!
  if pos - u < 65536 then .ok (c, pos - u) else .error .invalidData

/-- `seek_by_uncompressed_position` -/
def seekU (L : Layout α) (g : Gzi) (s : R α) (pos : Nat) : R α × Option Err :=
  match gziQuery g pos with
  | .error e => (s, some e)
  | .ok (c, u) => seek L s c u

/-! ## the flat-array specification -/

/-- the flat offset a virtual position names, if it is a byte boundary of the layout -/
def resolve (L : Layout α) (c u : Nat) : Option Nat :=
  match memberAt L c with
  | none => none
  | some k =>
    match L[k]? with
    | none => if u = 0 then some (uoff L k) else none
    | some b => if u ≤ b.data.length then some (uoff L k + u) else none

inductive Op
  | read (n : Nat) | readExact (n : Nat) | fillBuf | consume (n : Nat)
  | seek (c u : Nat) | seekU (pos : Nat) | tell
  deriving Repr

inductive Out (α : Type)
  | bytes (b : List α) | unit | vpos (c u : Nat) | err (e : Err)
  deriving Repr

/-- one operation of the real reader (model) -/
def step (L : Layout α) (s : R α) : Op → R α × Out α
  | .read n => let (s', b) := read L s n; (s', .bytes b)
  | .readExact n => match readExact L s n with
    | (s', .ok b) => (s', .bytes b)
    | (s', .error e) => (s', .err e)
  | .fillBuf => let (s', b) := fillBuf L s; (s', .bytes b)
  | .consume n => (consume n s, .unit)
  | .seek c u => match seek L s c u with
    | (s', none) => (s', .unit)
    | (s', some e) => (s', .err e)
  | .seekU pos => match seekU L (gziOf L) s pos with
    | (s', none) => (s', .unit)
    | (s', some e) => (s', .err e)
  | .tell => (s, .vpos (tell s).1 (tell s).2)

/-- run a history from the initial state -/
def runOps (L : Layout α) (ops : List Op) : R α := ops.foldl (fun s op => (step L s op).1) R.init

/-- well-formed layout: members have positive compressed size, data within one BGZF block -/
def WF (L : Layout α) : Prop := ∀ b ∈ L, 0 < b.csize ∧ b.data.length ≤ MAX_ISIZE

/-- the flat offset named by the virtual position the reader reports -/
def cursor (L : Layout α) (s : R α) : Option Nat := resolve L (tell s).1 (tell s).2

end Noodles.Bgzf.RM
