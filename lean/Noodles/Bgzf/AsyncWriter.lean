import Noodles.Bgzf.Frame
import Noodles.Bgzf.AsyncReader
/-!
# The async BGZF writer as a `poll` state machine over a scripted async sink (model for C16)

Transcribed from noodles-bgzf `async/io/writer.rs` (`poll_write`, `poll_flush`, `poll_shutdown`),
`async/io/writer/deflater.rs` (`Deflater`: one in-progress `Deflate` future in front of a
`FramedWrite<W, BlockCodec>`), `async/io/writer/deflate.rs` (`spawn_blocking(deflate::encode)`),
`async/block_codec.rs` (`Encoder::encode` = header, CDATA, CRC32, ISIZE — the same frame as the sync
writer's `write_frame`), futures-util `sink::Buffer` (`try_empty_buffer`, `poll_ready`, `start_send`,
`poll_close`), tokio-util `FramedImpl::{start_send, poll_flush, poll_close}`, tokio `WriteAll`.

DEFLATE/CRC32 are the parameter `Deflater` of `Noodles.Bgzf.Frame` (C01); `encodeBlock` and `frame`
are the functions of that model: both writers call `deflate::encode` and write the same frame.

Nondeterminism is scripted (`WSched`): what every `poll_write` / `poll_flush` of the underlying
`AsyncWrite` does (`ready n`: accept at most `n ≥ 1` bytes; `pending`), and, for every poll of the
deflate future in the `Deflater` slot, whether the blocking task has finished.
ASSUMPTION (trusted base): `sink::Buffer` hands its items to the inner sink in submission order (it
is a `VecDeque`), and a `JoinHandle` polled after completion of its task yields the task's result.
-/
namespace Noodles.Bgzf.AW
open Noodles.Codec Noodles.Bgzf
open Noodles.Bgzf.Async (Poll1)

structure WSched where
  /-- decisions of the sink, one per `poll_write` (a leading `pending` also answers `poll_flush`) -/
  sink : List Poll1
  /-- one per poll of the deflate future in the slot: has the blocking task finished? -/
  defl : List Bool
  deriving Repr

def WSched.measure (sd : WSched) : Nat := sd.sink.length + sd.defl.length

structure AW where
  /-- `Writer.buf`: staged uncompressed bytes, at most `MAX_BUF` -/
  staging : Bytes
  /-- `Buffer.buf`: submitted blocks whose deflate tasks are running, oldest first -/
  queue : List Bytes
  /-- `Deflater.state`: the block whose result is awaited next -/
  slot : Option Bytes
  /-- `FramedWrite`'s buffer: encoded frames not yet accepted by the sink -/
  wbuf : Bytes
  /-- bytes accepted by the underlying `AsyncWrite` -/
  sink : Bytes
  /-- `Writer.eof_buf`: the part of the EOF marker not yet written -/
  eofLeft : Bytes
  deriving Repr

def AW.init : AW := ⟨[], [], none, [], [], EOF_MARKER⟩

inductive WP | pending | ready | err (e : Err)
  deriving Repr

/-- `FramedImpl::poll_flush`: write the buffer out (`poll_write_buf` until empty), then
`inner.poll_flush`.  Structural recursion on the sink script. -/
def fwFlush : List Poll1 → AW → AW × List Poll1 × WP
  | [], w => ({ w with sink := w.sink ++ w.wbuf, wbuf := [] }, [], .ready)
  | ev :: sc, w =>
    if w.wbuf.isEmpty then
      match ev with
      | .pending => (w, sc, .pending)
      | .ready _ => (w, ev :: sc, .ready)
    else
      match ev with
      | .pending => (w, sc, .pending)
      | .ready n =>
        fwFlush sc { w with sink := w.sink ++ w.wbuf.take (max n 1), wbuf := w.wbuf.drop (max n 1) }

/-- the deflate task has finished: its result (`deflate::encode`, which may fail) is framed into the
`FramedWrite` buffer (`BlockCodec::encode`, which may fail on BSIZE) -/
def dfDone (D : Deflater) (lvl : Nat) (w : AW) (sd : WSched) (x : Bytes) : AW × WSched × WP :=
  match encodeBlock D lvl x with
  | .error e => (w, sd, .err e)
  | .ok cdata =>
    match frame cdata (D.crc x) x.length with
    | .error e => ({ w with slot := none }, sd, .err e)
    | .ok fr => ({ w with slot := none, wbuf := w.wbuf ++ fr }, sd, .ready)

/-- `Deflater::poll` -/
def dfPoll (D : Deflater) (lvl : Nat) (w : AW) (sd : WSched) : AW × WSched × WP :=
  match w.slot with
  | none => (w, sd, .ready)
  | some x =>
    match sd.defl with
    | false :: d => (w, ⟨sd.sink, d⟩, .pending)
    | _ :: d => dfDone D lvl w ⟨sd.sink, d⟩ x
    | [] => dfDone D lvl w sd x

/-- `Deflater::poll_ready` = `poll_flush` (= `poll_close` up to the sink's `poll_shutdown`):
finish the block in the slot, then flush the framed sink -/
def dfReady (D : Deflater) (lvl : Nat) (w : AW) (sd : WSched) : AW × WSched × WP :=
  match dfPoll D lvl w sd with
  | (w1, sd1, .ready) =>
    match fwFlush sd1.sink w1 with
    | (w2, sc2, r) => (w2, ⟨sc2, sd1.defl⟩, r)
  | other => other

/-- the `while let Some(item) = buf.pop_front()` loop of `Buffer::try_empty_buffer` -/
def tebLoop (D : Deflater) (lvl : Nat) : List Bytes → AW → WSched → AW × WSched × WP
  | [], w, sd => (w, sd, .ready)
  | x :: q, w, sd =>
    if q.isEmpty then ({ w with slot := some x, queue := q }, sd, .ready)
    else match dfReady D lvl { w with slot := some x, queue := q } sd with
      | (w2, sd2, .ready) => tebLoop D lvl q w2 sd2
      | other => other

/-- `Buffer::try_empty_buffer` -/
def tryEmpty (D : Deflater) (lvl : Nat) (w : AW) (sd : WSched) : AW × WSched × WP :=
  match dfReady D lvl w sd with
  | (w1, sd1, .ready) => tebLoop D lvl w1.queue w1 sd1
  | other => other

/-- `Buffer::poll_ready` (capacity `cap ≥ 1` = worker count): try to empty the buffer, ignoring
`Pending`; ready iff there is room -/
def bufReady (D : Deflater) (lvl cap : Nat) (w : AW) (sd : WSched) : AW × WSched × WP :=
  match tryEmpty D lvl w sd with
  | (w1, sd1, .err e) => (w1, sd1, .err e)
  | (w1, sd1, _) => if cap ≤ w1.queue.length then (w1, sd1, .pending) else (w1, sd1, .ready)

/-- `Writer::poll_flush`: submit the staged bytes as one block (NOT a flush of the sink) -/
def wFlush (D : Deflater) (lvl cap : Nat) (w : AW) (sd : WSched) : AW × WSched × WP :=
  if w.staging.isEmpty then (w, sd, .ready)
  else match bufReady D lvl cap w sd with
    | (w1, sd1, .ready) => ({ w1 with queue := w1.queue ++ [w1.staging], staging := [] }, sd1, .ready)
    | other => other

inductive WPA | pending | ready (amt : Nat) | err (e : Err)
  deriving Repr

def accept (w : AW) (buf : Bytes) : AW × Nat :=
  let amt := min (MAX_BUF - w.staging.length) buf.length
  ({ w with staging := w.staging ++ buf.take amt }, amt)

/-- `Writer::poll_write`: a full staging buffer is submitted first; then as much of `buf` as fits is
staged -/
def wWrite (D : Deflater) (lvl cap : Nat) (w : AW) (sd : WSched) (buf : Bytes) : AW × WSched × WPA :=
  if w.staging.length < MAX_BUF then ((accept w buf).1, sd, .ready (accept w buf).2)
  else match wFlush D lvl cap w sd with
    | (w1, sd1, .ready) => ((accept w1 buf).1, sd1, .ready (accept w1 buf).2)
    | (w1, sd1, .pending) => (w1, sd1, .pending)
    | (w1, sd1, .err e) => (w1, sd1, .err e)

/-- the `while eof_buf.has_remaining()` loop of `poll_shutdown`, directly on the sink -/
def eofWrite : List Poll1 → AW → AW × List Poll1 × WP
  | [], w => ({ w with sink := w.sink ++ w.eofLeft, eofLeft := [] }, [], .ready)
  | ev :: sc, w =>
    if w.eofLeft.isEmpty then (w, ev :: sc, .ready)
    else match ev with
      | .pending => (w, sc, .pending)
      | .ready n =>
        eofWrite sc { w with sink := w.sink ++ w.eofLeft.take (max n 1), eofLeft := w.eofLeft.drop (max n 1) }

/-- `Writer::poll_shutdown`: submit the staged block, close the buffered sink (empty the buffer,
finish the last block, flush), then write the EOF marker -/
def wShutdown (D : Deflater) (lvl cap : Nat) (w : AW) (sd : WSched) : AW × WSched × WP :=
  match wFlush D lvl cap w sd with
  | (w1, sd1, .ready) =>
    match tryEmpty D lvl w1 sd1 with
    | (w2, sd2, .ready) =>
      match dfReady D lvl w2 sd2 with
      | (w3, sd3, .ready) =>
        match eofWrite sd3.sink w3 with
        | (w4, sc4, r) => (w4, ⟨sc4, sd3.defl⟩, r)
      | other => other
    | other => other
  | other => other

/-! ## futures: a task polls until `Ready` -/

inductive Res (β : Type) | ok (x : β) | err (e : Err) | starved
  deriving Repr

/-- `flush().await` -/
def driveFlush (D : Deflater) (lvl cap : Nat) : Nat → AW → WSched → Res (AW × WSched)
  | 0, _, _ => .starved
  | fuel+1, w, sd =>
    match wFlush D lvl cap w sd with
    | (w1, sd1, .pending) => driveFlush D lvl cap fuel w1 sd1
    | (w1, sd1, .ready) => .ok (w1, sd1)
    | (_, _, .err e) => .err e

/-- `shutdown().await` -/
def driveShutdown (D : Deflater) (lvl cap : Nat) : Nat → AW → WSched → Res (AW × WSched)
  | 0, _, _ => .starved
  | fuel+1, w, sd =>
    match wShutdown D lvl cap w sd with
    | (w1, sd1, .pending) => driveShutdown D lvl cap fuel w1 sd1
    | (w1, sd1, .ready) => .ok (w1, sd1)
    | (_, _, .err e) => .err e

/-- `write(buf).await`: one `poll_write` polled to completion -/
def driveWrite (D : Deflater) (lvl cap : Nat) (buf : Bytes) : Nat → AW → WSched → Res (AW × WSched × Nat)
  | 0, _, _ => .starved
  | fuel+1, w, sd =>
    match wWrite D lvl cap w sd buf with
    | (w1, sd1, .pending) => driveWrite D lvl cap buf fuel w1 sd1
    | (w1, sd1, .ready amt) => .ok (w1, sd1, amt)
    | (_, _, .err e) => .err e

/-- tokio `WriteAll`: `poll_write` the rest until nothing is left; `Ok(0)` is `WriteZero` -/
def writeAllA (D : Deflater) (lvl cap : Nat) : Nat → AW → WSched → Bytes → Res (AW × WSched)
  | 0, w, sd, buf => if buf.isEmpty then .ok (w, sd) else .err .writeZero
  | fuel+1, w, sd, buf =>
    if buf.isEmpty then .ok (w, sd) else
    match driveWrite D lvl cap buf (sd.measure + 1) w sd with
    | .ok (w1, sd1, amt) =>
      if amt = 0 then .err .writeZero else writeAllA D lvl cap fuel w1 sd1 (buf.drop amt)
    | .err e => .err e
    | .starved => .starved

/-- one call of the caller: `write_all(b).await` or `flush().await` -/
def stepAW (D : Deflater) (lvl cap : Nat) (w : AW) (sd : WSched) : Op → Res (AW × WSched)
  | .write b => writeAllA D lvl cap (b.length + 1) w sd b
  | .flush => driveFlush D lvl cap (sd.measure + 1) w sd

def runAW (D : Deflater) (lvl cap : Nat) : AW → WSched → List Op → Res (AW × WSched)
  | w, sd, [] => .ok (w, sd)
  | w, sd, op :: ops =>
    match stepAW D lvl cap w sd op with
    | .ok (w1, sd1) => runAW D lvl cap w1 sd1 ops
    | .err e => .err e
    | .starved => .starved

/-- `shutdown().await` -/
def shutdownAW (D : Deflater) (lvl cap : Nat) (w : AW) (sd : WSched) : Res (AW × WSched) :=
  driveShutdown D lvl cap (sd.measure + 1) w sd

end Noodles.Bgzf.AW
