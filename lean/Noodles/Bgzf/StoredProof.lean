import Noodles.Bgzf.Stored
import Noodles.Bgzf.FrameProof
/-! Helper lemmas for `Noodles/Props/C01Stored.lean`. -/
namespace Noodles.Bgzf
open Noodles.Codec

theorem take_append_len (a b : Bytes) : (a ++ b).take a.length = a := by
  induction a <;> simp_all

theorem drop_append_len (a b : Bytes) : (a ++ b).drop a.length = b := by
  induction a <;> simp_all

/-! ## stored deflater: sizes -/

theorem storedBlock_length (f : Bool) (x : Bytes) : (storedBlock f x).length = x.length + 5 := by
  simp [storedBlock, le_length]; omega

/-- number of stored blocks zlib emits for `n` input bytes -/
def nblocks (n : Nat) : Nat := if n = 0 then 1 else (n + 65534) / 65535

theorem storedDeflateAux_length (fuel : Nat) (x : Bytes) (h : x.length ≤ fuel) :
    (storedDeflateAux fuel x).length = x.length + 5 * nblocks x.length := by
  induction fuel generalizing x with
  | zero =>
    have : x.length = 0 := by omega
    simp [storedDeflateAux, storedBlock_length, nblocks, this]
  | succ fuel ih =>
    unfold storedDeflateAux
    by_cases hx : x.length ≤ MAX_STORED
    · rw [if_pos hx, storedBlock_length]
      simp only [MAX_STORED] at hx
      unfold nblocks
      split <;> omega
    · rw [if_neg hx]
      simp only [MAX_STORED] at hx ⊢
      have hd : (x.drop 65535).length = x.length - 65535 := by simp
      have ht : (x.take 65535).length = 65535 := by simp; omega
      rw [List.length_append, storedBlock_length, ih _ (by omega), hd, ht]
      unfold nblocks
      split <;> split <;> omega

theorem storedDeflate_single (x : Bytes) (h : x.length ≤ 65535) :
    storedDeflate x = storedBlock true x := by
  unfold storedDeflate
  cases hn : x.length with
  | zero => rfl
  | succ n => rw [storedDeflateAux, if_pos (by simp only [MAX_STORED]; omega)]

/-! ## inflater ∘ deflater -/

theorem unle_suffix (n : Nat) (r s r' : Bytes) (v : Nat) (h : unle n r = .ok (v, r')) :
    unle n (r ++ s) = .ok (v, r' ++ s) := by
  induction n generalizing r v r' with
  | zero => simp [unle] at h ⊢; obtain ⟨h1, h2⟩ := h; subst h1 h2; simp
  | succ n ih =>
    cases r with
    | nil => simp [unle] at h
    | cons b r =>
      simp only [unle, List.cons_append] at h ⊢
      cases hu : unle n r with
      | error e => rw [hu] at h; simp at h
      | ok p =>
        obtain ⟨v0, r0⟩ := p
        rw [hu] at h
        simp only [Except.ok.injEq, Prod.mk.injEq] at h
        obtain ⟨h1, h2⟩ := h
        rw [ih r r0 v0 hu]; subst h1 h2; rfl

theorem storedBody_block (x rest : Bytes) (h : x.length ≤ 65535) :
    storedBody (le 2 x.length ++ le 2 (65535 - x.length) ++ x ++ rest) = .ok (x, rest) := by
  unfold storedBody
  rw [List.append_assoc, List.append_assoc, unle_le 2 _ (by omega)]
  simp only
  rw [unle_le 2 _ (by omega)]
  simp only
  rw [if_neg (by omega), if_neg (by simp), take_append_len, drop_append_len]

theorem storedBody_suffix (r s d r' : Bytes) (h : storedBody r = .ok (d, r')) :
    storedBody (r ++ s) = .ok (d, r' ++ s) := by
  unfold storedBody at h ⊢
  cases h1 : unle 2 r with
  | error e => rw [h1] at h; simp at h
  | ok p1 =>
    obtain ⟨len, r1⟩ := p1
    rw [h1] at h; simp only at h
    rw [unle_suffix 2 r s r1 len h1]; simp only
    cases h2 : unle 2 r1 with
    | error e => rw [h2] at h; simp at h
    | ok p2 =>
      obtain ⟨nlen, r2⟩ := p2
      rw [h2] at h; simp only at h
      rw [unle_suffix 2 r1 s r2 nlen h2]; simp only
      by_cases hn : len + nlen ≠ 65535
      · rw [if_pos hn] at h; simp at h
      · rw [if_neg hn] at h ⊢
        by_cases hl : r2.length < len
        · rw [if_pos hl] at h; simp at h
        · rw [if_neg hl] at h
          rw [if_neg (by simp; omega)]
          simp only [Except.ok.injEq, Prod.mk.injEq] at h
          obtain ⟨ha, hb⟩ := h
          have hle : len ≤ r2.length := by omega
          rw [List.take_append_of_le_length hle, List.drop_append_of_le_length hle, ha, hb]

/-- more fuel and more bytes after the stream do not change the result -/
theorem inflateStored_suffix (f : Nat) (c d r : Bytes) (h : inflateStored f c = .ok (d, r))
    (f' : Nat) (hf : f ≤ f') (s : Bytes) : inflateStored f' (c ++ s) = .ok (d, r ++ s) := by
  induction f generalizing c d r f' with
  | zero => simp [inflateStored] at h
  | succ f ih =>
    obtain ⟨g, rfl⟩ : ∃ g, f' = g + 1 := ⟨f' - 1, by omega⟩
    cases c with
    | nil => simp [inflateStored] at h
    | cons b c =>
      simp only [inflateStored, List.cons_append] at h ⊢
      by_cases h0 : b.toNat / 2 % 4 = 0
      · rw [if_pos h0] at h ⊢
        cases hb : storedBody c with
        | error e => rw [hb] at h; simp at h
        | ok p =>
          obtain ⟨data, rest⟩ := p
          rw [hb] at h; simp only at h
          rw [storedBody_suffix c s data rest hb]; simp only
          by_cases hfin : b.toNat % 2 = 1
          · rw [if_pos hfin] at h ⊢
            simp only [Except.ok.injEq, Prod.mk.injEq] at h
            obtain ⟨ha, hb'⟩ := h
            rw [ha, hb']
          · rw [if_neg hfin] at h ⊢
            cases hi : inflateStored f rest with
            | error e => rw [hi] at h; simp at h
            | ok q =>
              obtain ⟨more, rest'⟩ := q
              rw [hi] at h; simp only [Except.ok.injEq, Prod.mk.injEq] at h
              obtain ⟨ha, hb'⟩ := h
              rw [ih rest more rest' hi g (by omega)]
              simp only [ha, hb']
      · rw [if_neg h0] at h ⊢
        by_cases h1 : b.toNat / 2 % 4 = 1
        · rw [if_pos h1] at h ⊢
          by_cases h3 : b.toNat = 3
          · rw [if_pos h3] at h ⊢
            cases c with
            | nil => simp at h
            | cons c0 c' =>
              simp only [List.cons_append] at h ⊢
              by_cases hc : c0.toNat % 4 = 0
              · rw [if_pos hc] at h ⊢
                simp only [Except.ok.injEq, Prod.mk.injEq] at h
                obtain ⟨ha, hb'⟩ := h
                rw [← ha, ← hb']
              · rw [if_neg hc] at h; simp at h
          · rw [if_neg h3] at h; simp at h
        · rw [if_neg h1] at h
          by_cases h2 : b.toNat / 2 % 4 = 2
          · rw [if_pos h2] at h; simp at h
          · rw [if_neg h2] at h; simp at h

theorem inflateStored_block_final (f : Nat) (x rest : Bytes) (h : x.length ≤ 65535) :
    inflateStored (f + 1) (storedBlock true x ++ rest) = .ok (x, rest) := by
  have hb := storedBody_block x rest h
  simp only [storedBlock, if_true, List.cons_append, inflateStored]
  rw [if_pos (by decide), hb]
  simp only
  rw [if_pos (by decide)]

theorem inflateStored_aux (fuel : Nat) (x rest : Bytes) (h : x.length ≤ fuel) (f : Nat)
    (hf : fuel + 1 ≤ f) : inflateStored f (storedDeflateAux fuel x ++ rest) = .ok (x, rest) := by
  induction fuel generalizing x f with
  | zero =>
    obtain ⟨g, rfl⟩ : ∃ g, f = g + 1 := ⟨f - 1, by omega⟩
    exact inflateStored_block_final g x rest (by omega)
  | succ fuel ih =>
    obtain ⟨g, rfl⟩ : ∃ g, f = g + 1 := ⟨f - 1, by omega⟩
    unfold storedDeflateAux
    by_cases hx : x.length ≤ MAX_STORED
    · rw [if_pos hx]; exact inflateStored_block_final g x rest (by simpa [MAX_STORED] using hx)
    · rw [if_neg hx]
      simp only [MAX_STORED] at hx ⊢
      have ht : (x.take 65535).length = 65535 := by simp; omega
      have hd : (x.drop 65535).length = x.length - 65535 := by simp
      have hb := storedBody_block (x.take 65535) (storedDeflateAux fuel (x.drop 65535) ++ rest) (by omega)
      simp only [storedBlock, Bool.false_eq_true, if_false, List.cons_append, List.append_assoc,
        inflateStored] at hb ⊢
      rw [if_pos (by decide), hb]
      simp only
      rw [if_neg (by decide), ih (x.drop 65535) (by omega) g (by omega)]
      simp only [List.take_append_drop]

theorem inflateStored_storedDeflate (x rest : Bytes) (f : Nat) (hf : x.length + 1 ≤ f) :
    inflateStored f (storedDeflate x ++ rest) = .ok (x, rest) :=
  inflateStored_aux x.length x rest (Nat.le_refl _) f hf

theorem storedDeflate_length_ge (x : Bytes) : x.length + 5 ≤ (storedDeflate x).length := by
  unfold storedDeflate
  rw [storedDeflateAux_length _ _ (Nat.le_refl _)]
  unfold nblocks
  split <;> omega

theorem inflateExact_storedDeflate (x : Bytes) : inflateExact (storedDeflate x) x.length = some x := by
  unfold inflateExact
  have h := inflateStored_storedDeflate x [] ((storedDeflate x).length + 1)
    (by have := storedDeflate_length_ge x; omega)
  rw [List.append_nil] at h
  rw [h]; simp

/-- what a successful `inflateExact` means for the independent inflater on a longer stream -/
theorem inflateExact_stream (c d : Bytes) (n : Nat) (h : inflateExact c n = some d) (s : Bytes)
    (f : Nat) (hf : c.length + 1 ≤ f) : inflateStored f (c ++ s) = .ok (d, s) ∧ d.length = n := by
  unfold inflateExact at h
  cases hi : inflateStored (c.length + 1) c with
  | error e => rw [hi] at h; simp at h
  | ok p =>
    obtain ⟨d', r⟩ := p
    rw [hi] at h
    cases r with
    | cons a r => simp at h
    | nil =>
      simp only at h
      by_cases hl : d'.length = n
      · rw [if_pos hl] at h
        injection h with h
        subst h
        have := inflateStored_suffix _ c d' [] hi f hf s
        rw [List.nil_append] at this
        exact ⟨this, hl⟩
      · rw [if_neg hl] at h; simp at h

/-! ## gzip reader over BGZF members -/

theorem crc32_lt (x : Bytes) : Crc32.crc32 x < 2^32 := by
  unfold Crc32.crc32
  exact UInt32.toNat_lt _

/-- the independent gzip reader reads one BGZF member written by `frame`, whatever follows -/
theorem gunzipMember_mkFrame (cdata data rest : Bytes)
    (hi : inflateExact cdata data.length = some data) (hd : data.length ≤ 65536)
    (hc : cdata.length ≤ 65510) :
    gunzipMember (mkFrame cdata (Crc32.crc32 data) data.length ++ rest) = .ok (data, rest) := by
  rw [mkFrame_assoc]
  have hle : le 2 (25 + cdata.length) =
      [UInt8.ofNat ((25 + cdata.length) % 256), UInt8.ofNat ((25 + cdata.length) / 256 % 256)] := rfl
  rw [hle]
  simp only [headerPrefix, List.cons_append, List.nil_append, gunzipMember]
  rw [if_neg (by decide), if_neg (by decide), if_neg (by decide)]
  have hopt : gzOptional (4 : UInt8).toNat
      (0x1f :: 0x8b :: 0x08 :: 0x04 :: 0 :: 0 :: 0 :: 0 :: 0x00 :: 0xff :: 0x06 :: 0x00 :: 0x42 :: 0x43
        :: 0x02 :: 0x00 :: UInt8.ofNat ((25 + cdata.length) % 256)
        :: UInt8.ofNat ((25 + cdata.length) / 256 % 256)
        :: (cdata ++ (le 4 (Crc32.crc32 data) ++ (le 4 data.length ++ rest))))
      (0x06 :: 0x00 :: 0x42 :: 0x43 :: 0x02 :: 0x00 :: UInt8.ofNat ((25 + cdata.length) % 256)
        :: UInt8.ofNat ((25 + cdata.length) / 256 % 256)
        :: (cdata ++ (le 4 (Crc32.crc32 data) ++ (le 4 data.length ++ rest))))
      = .ok (cdata ++ (le 4 (Crc32.crc32 data) ++ (le 4 data.length ++ rest))) := by
    unfold gzOptional
    have h4 : (4 : UInt8).toNat = 4 := rfl
    simp only [h4]
    have hu : unle 2 (0x06 :: 0x00 :: 0x42 :: 0x43 :: 0x02 :: 0x00
        :: UInt8.ofNat ((25 + cdata.length) % 256) :: UInt8.ofNat ((25 + cdata.length) / 256 % 256)
        :: (cdata ++ (le 4 (Crc32.crc32 data) ++ (le 4 data.length ++ rest))))
        = .ok (6, 0x42 :: 0x43 :: 0x02 :: 0x00
        :: UInt8.ofNat ((25 + cdata.length) % 256) :: UInt8.ofNat ((25 + cdata.length) / 256 % 256)
        :: (cdata ++ (le 4 (Crc32.crc32 data) ++ (le 4 data.length ++ rest)))) := by
      simp [unle]
    simp only [hu]
    simp
    rw [if_neg (by omega)]
  rw [hopt]
  simp only
  obtain ⟨hs, _⟩ := inflateExact_stream cdata data data.length hi
    (le 4 (Crc32.crc32 data) ++ (le 4 data.length ++ rest))
    ((cdata ++ (le 4 (Crc32.crc32 data) ++ (le 4 data.length ++ rest))).length + 1)
    (by simp only [List.length_append]; omega)
  rw [hs]
  simp only
  rw [unle_le 4 _ (crc32_lt data)]
  simp only
  rw [unle_le 4 _ (by omega)]
  simp only
  rw [if_neg (by simp), if_neg (by simp; omega)]

/-- a list of members all of which inflate under the independent inflater -/
theorem gunzipLoop_frames (frs : List (Bytes × Bytes)) (hg : ∀ p ∈ frs, Good storedDeflater p)
    (fuel : Nat) : gunzipLoop (frs.length + fuel + 1) (enc storedDeflater frs) = .ok (datas frs) := by
  induction frs with
  | nil => simp [gunzipLoop, enc_nil, datas_nil]
  | cons p frs ih =>
    obtain ⟨h1, h2, h3⟩ := hg p (by simp)
    have hfuel : (p :: frs).length + fuel + 1 = (frs.length + fuel + 1) + 1 := by simp; omega
    rw [hfuel, gunzipLoop, enc_cons, encFrame]
    have hne : (mkFrame p.1 (storedDeflater.crc p.2) p.2.length ++ enc storedDeflater frs).isEmpty = false := by
      simp [mkFrame, headerPrefix]
    rw [hne]
    simp only [Bool.false_eq_true, if_false]
    have := gunzipMember_mkFrame p.1 p.2 (enc storedDeflater frs) h3 h2 h1
    simp only [storedDeflater] at this ⊢
    rw [this]
    simp only
    have ih' := ih (fun q hq => hg q (List.mem_cons_of_mem _ hq))
    simp only [storedDeflater] at ih'
    rw [ih']
    simp [datas_cons]

/-! ## the level-0 writer block -/

theorem encodeBlock_stored (lvl : Nat) (x : Bytes) (hx : x.length ≤ 65495) :
    encodeBlock storedDeflater lvl x = .ok (storedBlock true x) := by
  have hs : storedDeflater.deflate lvl x = storedBlock true x := storedDeflate_single x (by omega)
  have hl := storedBlock_length true x
  unfold encodeBlock
  rw [hs, if_pos (by rw [hl, MAX_COMPRESSED_eq]; omega)]

theorem flushBlock_stored (lvl : Nat) (w : Writer) (hx : w.staging.length ≤ 65495) :
    flushBlock storedDeflater lvl w = .ok
      { staging := [],
        position := w.position +
          (mkFrame (storedBlock true w.staging) (Crc32.crc32 w.staging) w.staging.length).length,
        sink := w.sink ++ mkFrame (storedBlock true w.staging) (Crc32.crc32 w.staging) w.staging.length } := by
  have hl := storedBlock_length true w.staging
  have hfr := frame_ok (storedBlock true w.staging) (Crc32.crc32 w.staging) w.staging.length
    (by rw [hl, MAX_COMPRESSED_eq]; omega) (by omega)
  have hc : storedDeflater.crc w.staging = Crc32.crc32 w.staging := rfl
  simp only [flushBlock, encodeBlock_stored lvl _ hx, hc, hfr]

end Noodles.Bgzf
