import Noodles.Basic.Wire
import Noodles.Bgzf.Driver
import Noodles.Bgzf.MtTrunc
/-! Line-protocol handler for the multithreaded reader on damaged input (`c03 trunc …`).

`c03 trunc <nbuf> <file hex> <inflate table> <ops>`: the caller-visible transcript (`MtTrunc.Sim`)
of a `MultithreadedReader` with `nbuf = rayon threads + 2` buffers over the file: `r<n>` = read
until `n` bytes were delivered or a read returned `Ok(0)` / an error; `s<c>:<u>` =
`seek_to_virtual_position(c, u)`; `finish()` at the end.  The inflate table carries the real
library's answers (as for `c01 readall` / `c13 bgzf`); CRC32 is computed by the model. -/
namespace Noodles.MtTrunc
open Noodles.Wire hiding Bytes
open Noodles.Bgzf

def parseCOps (s : String) : Option (List COp) :=
  if s = "-" then some [] else
  (s.splitOn ",").mapM fun e =>
    match e.toList with
    | 'r' :: r => (String.ofList r).toNat?.map COp.read
    | 's' :: r =>
      match (String.ofList r).splitOn ":" with
      | [c, u] => do pure (COp.seek (← c.toNat?) (← u.toNat?))
      | _ => none
    | _ => none

def endStr : Trunc.End → String
  | .eof => "eof"
  | .err e => errStr e

def resStr : Res → String
  | .data b none => s!"d:{hex b}"
  | .data b (some e) => s!"d:{hex b},{endStr e}"
  | .unit => "ok"
  | .err e => errStr e
  | .hang => "hang"

def finStr : Option (Option Err) → String
  | none => "never"
  | some none => "fin:ok"
  | some (some e) => s!"fin:{errStr e}"

def handle? : List String → Option String
  | ["trunc", nbuf, file, table, ops] =>
    some <|
    match nbuf.toNat?, unhex file, parseInfTable table, parseCOps ops with
    | some nbuf, some f, some it, some ops =>
      let r := Sim.run (tableDeflater [] it) nbuf (Sim.init f) ops
      " ".intercalate (r.1.map resStr ++ [finStr r.2])
    | _, _, _, _ => "bad-op"
  | _ => none

end Noodles.MtTrunc
