import Noodles.Basic.Wire
import Noodles.Basic.Crc32
import Noodles.Bgzf.DriverC02
import Noodles.Bgzf.AsyncReader
import Noodles.Bgzf.AsyncWriter
import Noodles.Bgzf.Driver
import Noodles.Io.DriverC16Formats
import Noodles.Io.DriverC16More
import Noodles.Csi.DriverC16Query
/-! Line-protocol handler for the async BGZF reader / writer poll machines (`c16 …`). -/
namespace Noodles.Bgzf.Async
open Noodles.Wire Noodles.Bgzf.RM

def parseAOp (e : String) : Option AOp :=
  match e.toList with
  | 'r' :: r => (String.ofList r).toNat?.map AOp.read
  | 'x' :: r => (String.ofList r).toNat?.map AOp.readExact
  | 'f' :: r => (String.ofList r).toNat?.map AOp.fillConsume
  | 's' :: r => match (String.ofList r).splitOn "/" with
    | [c, u] => do pure (AOp.seek (← c.toNat?) (← u.toNat?))
    | _ => none
  | ['t'] => some AOp.tell
  | _ => none

/-- `p` = Pending, `<n>` = Ready(n) -/
def parseSrc (s : String) : Option (List Poll1) :=
  if s = "-" then some [] else
  (s.splitOn ",").mapM fun e => if e = "p" then some Poll1.pending else e.toNat?.map Poll1.ready

/-- a string of `0`/`1`: is the head inflate task finished at this poll? -/
def parseBits (s : String) : Option (List Bool) :=
  if s = "-" then some [] else
  s.toList.mapM fun c => if c = '0' then some false else if c = '1' then some true else none

def fmtAOut : AOut UInt8 → String
  | .out o => fmtOut o
  | .starved => "starved"

def runAllA (L : Layout UInt8) (w : Nat) : AR UInt8 → Sched → List AOp → List String → List String
  | _, _, [], acc => acc.reverse
  | a, sd, op :: ops, acc =>
    match stepA L w a sd op with
    | (a', sd', o) =>
      let t := tell a'.r
      runAllA L w a' sd' ops (s!"{fmtAOut o}@{t.1}/{t.2}#{a'.r.position}" :: acc)

end Noodles.Bgzf.Async

namespace Noodles.Bgzf.AW
open Noodles.Wire hiding Bytes
open Noodles.Codec Noodles.Bgzf

/-- ISIZE of every member of a BGZF byte string (BSIZE at offset 16, ISIZE in the last 4 bytes) -/
def memberSizes : Nat → Bytes → List Nat
  | 0, _ => []
  | fuel+1, s =>
    if s.length < 18 then [] else
    let total := (s.getD 16 0).toNat + 256 * (s.getD 17 0).toNat + 1
    let m := s.take total
    let b (i : Nat) := (m.getD (total - 4 + i) 0).toNat
    (b 0 + 256 * b 1 + 65536 * b 2 + 16777216 * b 3) :: memberSizes fuel (s.drop total)

/-- replay the calls; per-call canonical results, stop at the first error like the harness does -/
def replayW (D : Deflater) (lvl cap : Nat) : AW → WSched → List HOp → List String → Res (AW × WSched) × List String
  | w, sd, [], acc => (.ok (w, sd), acc.reverse)
  | w, sd, op :: ops, acc =>
    match op with
    | .all b =>
      match writeAllA D lvl cap (b.length + 1) w sd b with
      | .ok (w1, sd1) => replayW D lvl cap w1 sd1 ops ("ok" :: acc)
      | .err e => (.err e, (errStr e :: acc).reverse)
      | .starved => (.starved, ("starved" :: acc).reverse)
    | .one b =>
      match driveWrite D lvl cap b (sd.measure + 1) w sd with
      | .ok (w1, sd1, amt) => replayW D lvl cap w1 sd1 ops (s!"amt{amt}" :: acc)
      | .err e => (.err e, (errStr e :: acc).reverse)
      | .starved => (.starved, ("starved" :: acc).reverse)
    | .flush =>
      match driveFlush D lvl cap (sd.measure + 1) w sd with
      | .ok (w1, sd1) => replayW D lvl cap w1 sd1 ops ("ok" :: acc)
      | .err e => (.err e, (errStr e :: acc).reverse)
      | .starved => (.starved, ("starved" :: acc).reverse)

def handleWr (cap lvl : Nat) (ops : List HOp) (dt : List DefEntry) (sd : WSched) : String :=
  let D := tableDeflater dt []
  let (r, outs) := replayW D lvl cap AW.init sd ops []
  let per := if outs.isEmpty then "-" else ",".intercalate outs
  match r with
  | .ok (w, sd1) =>
    match shutdownAW D lvl cap w sd1 with
    | .ok (w', _) =>
      let ms := memberSizes (w'.sink.length + 1) w'.sink
      let left := w'.queue.length + w'.wbuf.length + w'.staging.length + w'.eofLeft.length +
        (match w'.slot with | some _ => 1 | none => 0)
      let tail := if left = 0 then "" else s!" left={left}"
      s!"{per} | end=ok sink={w'.sink.length}:{Crc32.crc32 w'.sink} members={",".intercalate (ms.map toString)}{tail}"
    | .err e => s!"{per} | end={errStr e}"
    | .starved => s!"{per} | end=starved"
  | .err _ => s!"{per} | end=aborted"
  | .starved => s!"{per} | end=starved"

end Noodles.Bgzf.AW

namespace Noodles.Bgzf.Async
open Noodles.Wire Noodles.Bgzf.RM

def handleC16 : List String → String
  | ["rd", w, layout, ops, src, inf] =>
    match w.toNat?, parseLayout layout, (if ops = "-" then some [] else (ops.splitOn ",").mapM parseAOp),
        parseSrc src, parseBits inf with
    | some w, some L, some ops, some src, some inf =>
      if w = 0 then "bad-op" else
      let r := runAllA L w AR.init ⟨src, inf⟩ ops []
      if r.isEmpty then "-" else " ".intercalate r
    | _, _, _, _, _ => "bad-op"
  | ["wr", cap, lvl, ops, table, snk, defl] =>
    match cap.toNat?, lvl.toNat?, Noodles.Bgzf.parseOps ops, Noodles.Bgzf.parseDefTable table,
        parseSrc snk, parseBits defl with
    | some cap, some lvl, some ops, some dt, some snk, some defl =>
      if cap = 0 then "bad-op" else AW.handleWr cap lvl ops dt ⟨snk, defl⟩
    | _, _, _, _, _, _ => "bad-op"
  | ws => (Noodles.IO.Async.handleC16Fmt ws <|> Noodles.IO.Async.handleC16More? ws <|> Noodles.Csi.QueryIo.handleC16Query? ws).getD "bad-op"

end Noodles.Bgzf.Async
