/-!
# Multithreaded BGZF writer and reader as labelled transition systems (model for C03)

Transcribed from noodles-bgzf `io/multithreaded_writer.rs` (+ `builder.rs`) and
`io/multithreaded_reader.rs`.  Blocks are identified by their submission / file index.
A *schedule* is any finite sequence of enabled steps; worker tasks may complete in ANY order.

Writer: the caller (`submit`, `close`) sends one-shot tickets through an ordered channel of
capacity `cap` (= `rayon::current_num_threads()`); each ticket's compress task completes at an
arbitrary time (`complete i`); the writer thread takes tickets in order (`take`), waits for the
ticket's result and writes the frame (`write`), or — if the sink fails on frame `failAt` — returns
the error and drops its receiver (`fail`); when the channel is closed and drained it writes the EOF
marker and returns (`exit`).  After the thread has died the caller's next `send` fails and it joins
the thread, obtaining the error (`observe`); `finish` (= `close` then join) obtains it too.
-/
namespace Noodles.MtModel

/-- what a sink entry is: the frame of block `i`, or the EOF marker -/
abbrev Entry := Option Nat

structure W where
  total : Nat              -- blocks the caller submits in this history
  cap : Nat                -- ticket channel capacity
  failAt : Option Nat      -- the sink rejects the write of this frame (none = healthy sink)
  nsub : Nat               -- tickets sent so far
  done : List Nat          -- compress tasks whose result is ready
  taken : Nat              -- tickets received by the writer thread
  written : Nat            -- frames written
  closed : Bool            -- caller dropped the sender (finish)
  exited : Bool            -- writer thread returned Ok (EOF marker written)
  dead : Bool              -- writer thread returned Err (receiver dropped)
  observed : Bool          -- the caller has received the thread's error from a call
  joined : Bool            -- finish() has returned (Ok or Err)
  sink : List Entry
  deriving Repr

def W.init (total cap : Nat) (failAt : Option Nat) : W :=
  ⟨total, cap, failAt, 0, [], 0, 0, false, false, false, false, false, []⟩

inductive WStep : W → W → Prop
  /-- `send()`: ticket into the ordered channel (blocks while the channel is full) + rayon::spawn -/
  | submit (s : W) (h1 : s.closed = false) (h2 : s.nsub < s.total) (h3 : s.nsub - s.taken < s.cap)
      (h4 : s.dead = false) :
      WStep s { s with nsub := s.nsub + 1 }
  /-- a compress task finishes (any order) -/
  | complete (s : W) (i : Nat) (h1 : i < s.nsub) (h2 : i ∉ s.done) :
      WStep s { s with done := i :: s.done }
  /-- writer thread: `write_rx.recv()` -/
  | take (s : W) (h1 : s.taken = s.written) (h2 : s.taken < s.nsub) (h3 : s.dead = false) (h4 : s.exited = false) :
      WStep s { s with taken := s.taken + 1 }
  /-- writer thread: result ready, `write_frame` succeeds -/
  | write (s : W) (h1 : s.taken = s.written + 1) (h2 : s.written ∈ s.done) (h3 : s.failAt ≠ some s.written)
      (h4 : s.dead = false) :
      WStep s { s with written := s.written + 1, sink := s.sink ++ [some s.written] }
  /-- writer thread: result ready, `write_frame` fails: `result?` returns the error -/
  | fail (s : W) (h1 : s.taken = s.written + 1) (h2 : s.written ∈ s.done) (h3 : s.failAt = some s.written)
      (h4 : s.dead = false) :
      WStep s { s with dead := true }
  /-- caller: `send()` finds the receiver gone → `finish_inner()` → join → the error is returned -/
  | observe (s : W) (h1 : s.dead = true) (h2 : s.closed = false) (h3 : s.nsub < s.total) :
      WStep s { s with observed := true, closed := true, joined := true }
  /-- caller: `finish()` drops the sender -/
  | close (s : W) (h1 : s.closed = false) (h2 : s.nsub = s.total) :
      WStep s { s with closed := true }
  /-- writer thread: channel closed and drained → EOF marker, return Ok(sink) -/
  | exit (s : W) (h1 : s.closed = true) (h2 : s.exited = false) (h3 : s.taken = s.written)
      (h4 : s.written = s.nsub) (h5 : s.dead = false) :
      WStep s { s with exited := true, sink := s.sink ++ [none] }
  /-- caller: `writer_handle.join()` returns (Ok after `exit`, Err after `fail`) -/
  | join (s : W) (h1 : s.closed = true) (h2 : s.joined = false) (h3 : s.exited = true ∨ s.dead = true) :
      WStep s { s with joined := true, observed := s.dead }

inductive WReach (total cap : Nat) (failAt : Option Nat) : W → Prop
  | init : WReach total cap failAt (W.init total cap failAt)
  | step {s t} : WReach total cap failAt s → WStep s t → WReach total cap failAt t

def frames (n : Nat) : List Entry := (List.range n).map some

/-- a path of `n` steps -/
inductive WPath : W → Nat → W → Prop
  | nil (s : W) : WPath s 0 s
  | cons {s t u n} : WStep s t → WPath t n u → WPath s (n+1) u

/-! ## reader -/

/-- `MultithreadedReader` between `resume` and end of stream.  `n` frames in the file; frame
`corrupt` (if any) fails `parse_block`.  Buffers circulate: `free` in the recycle channel,
one per in-flight/queued frame, one held by the consumer. -/
structure R where
  n : Nat                  -- frames in the file
  nbuf : Nat               -- buffer_count = workers + 2 (the recycle channel's initial content)
  corrupt : Option Nat
  free : Nat               -- buffers in the recycle channel
  issued : Nat             -- frames read by the reader thread (tickets sent, tasks spawned)
  done : List Nat          -- inflate tasks whose result is ready
  delivered : Nat          -- tickets consumed by `read_block`
  held : Nat               -- buffers held by the consumer (`self.buffer`; starts as an extra default buffer)
  eof : Bool               -- reader thread saw end of file and returned
  err : Bool               -- the consumer's read_block returned the block error
  out : List Nat           -- frames handed to the caller, in order
  deriving Repr

def R.init (n nbuf : Nat) (corrupt : Option Nat) : R := ⟨n, nbuf, corrupt, nbuf, 0, [], 0, 1, false, false, []⟩

inductive RStep : R → R → Prop
  /-- reader thread: take a recycled buffer, read the next frame, spawn its inflate task, queue the ticket -/
  | issue (s : R) (h1 : 0 < s.free) (h2 : s.issued < s.n) (h3 : s.eof = false) :
      RStep s { s with free := s.free - 1, issued := s.issued + 1 }
  /-- reader thread: take a recycled buffer, hit end of file, return -/
  | hitEof (s : R) (h1 : 0 < s.free) (h2 : s.issued = s.n) (h3 : s.eof = false) :
      RStep s { s with free := s.free - 1, eof := true }
  /-- an inflate task finishes (any order) -/
  | complete (s : R) (i : Nat) (h1 : i < s.issued) (h2 : i ∉ s.done) :
      RStep s { s with done := i :: s.done }
  /-- consumer: next ticket's result is ready and Ok: swap buffers, recycle the previous one -/
  | deliver (s : R) (h1 : s.delivered < s.issued) (h2 : s.delivered ∈ s.done)
      (h3 : s.corrupt ≠ some s.delivered) (h4 : s.err = false) :
      RStep s { s with delivered := s.delivered + 1, free := s.free + 1, out := s.out ++ [s.delivered] }
  /-- consumer: next ticket's result is ready and is the block error: `recv_buffer` returns Err -/
  | deliverErr (s : R) (h1 : s.delivered < s.issued) (h2 : s.delivered ∈ s.done)
      (h3 : s.corrupt = some s.delivered) (h4 : s.err = false) :
      RStep s { s with delivered := s.delivered + 1, err := true }

inductive RReach (n nbuf : Nat) (corrupt : Option Nat) : R → Prop
  | init : RReach n nbuf corrupt (R.init n nbuf corrupt)
  | step {s t} : RReach n nbuf corrupt s → RStep s t → RReach n nbuf corrupt t

end Noodles.MtModel
