import Noodles.Bgzf.SinkModel
import Noodles.Bgzf.FrameProof
/-! Helper lemmas for the C14 theorems (the BGZF writer over a scripted destination). -/
namespace Noodles.Bgzf.SM
open Noodles.Codec Noodles.Bgzf

/-! ## the destination -/

/-- the parameters of the destination never change -/
def Params (s t : Sink) : Prop := t.kind = s.kind ∧ t.failAt = s.failAt ∧ t.fallback = s.fallback

theorem Params.refl (s : Sink) : Params s s := ⟨rfl, rfl, rfl⟩
theorem Params.trans {s t u : Sink} (h1 : Params s t) (h2 : Params t u) : Params s u :=
  ⟨h2.1.trans h1.1, h2.2.1.trans h1.2.1, h2.2.2.trans h1.2.2⟩

/-- while no call has failed, every call so far had an index below the failure index -/
def CallsOK (s : Sink) : Prop := ∀ k, s.failAt = some k → s.failed = false → s.calls ≤ k

/-- the same destination without the scripted failure -/
def heal (s : Sink) : Sink := { s with failAt := none }

theorem heal_failsNow (s : Sink) : (heal s).failsNow = false := rfl

theorem write_cases (s : Sink) (buf : Bytes) (hb : buf ≠ []) (hnf : s.failed = false) :
    Params s (s.write buf).2 ∧ (s.write buf).2.calls = s.calls + 1 ∧
    (((s.write buf).1 = .fail ∧ (s.write buf).2.failed = true ∧ s.failsNow = true) ∨
     ((s.write buf).1 = .interrupted ∧ (s.write buf).2.failed = false ∧
        (s.write buf).2.accepted = s.accepted ∧ (s.write buf).2.script.length + 1 = s.script.length ∧
        s.failsNow = false) ∨
     (∃ n, (s.write buf).1 = .ok n ∧ 0 < n ∧ n ≤ buf.length ∧ (s.write buf).2.failed = false ∧
        (s.write buf).2.accepted = s.accepted ++ buf.take n ∧
        (s.write buf).2.script.length ≤ s.script.length ∧ s.failsNow = false)) := by
  have hlen : 0 < buf.length := List.length_pos_iff.2 hb
  have hbe : buf.isEmpty = false := by simp [hb]
  unfold Sink.write
  cases hfn : s.failsNow with
  | true => simp [Params]
  | false =>
    simp only [Bool.false_eq_true, if_false, hbe]
    cases hs : s.script with
    | nil =>
      refine ⟨⟨rfl, rfl, rfl⟩, rfl, Or.inr (Or.inr ⟨_, rfl, by omega, by omega, hnf, rfl, by simp, trivial⟩)⟩
    | cons st sc =>
      cases st with
      | interrupted =>
        refine ⟨⟨rfl, rfl, rfl⟩, rfl, Or.inr (Or.inl ⟨rfl, hnf, rfl, by simp, trivial⟩)⟩
      | accept n =>
        refine ⟨⟨rfl, rfl, rfl⟩, rfl, Or.inr (Or.inr ⟨_, rfl, by omega, by omega, hnf, rfl, by simp, trivial⟩)⟩

theorem failsNow_true (s : Sink) (h : s.failsNow = true) : ∃ k, s.failAt = some k ∧ k ≤ s.calls := by
  unfold Sink.failsNow at h
  cases hf : s.failAt with
  | none => rw [hf] at h; cases h
  | some k => rw [hf] at h; exact ⟨k, rfl, by simpa using h⟩

theorem failsNow_false (s : Sink) (h : s.failsNow = false) (k : Nat) (hk : s.failAt = some k) :
    s.calls < k := by
  unfold Sink.failsNow at h
  rw [hk] at h
  have : ¬ k ≤ s.calls := by simpa using h
  omega

/-- `heal` commutes with a call that did not fail -/
theorem write_heal (s : Sink) (buf : Bytes) (h : s.failsNow = false) :
    (heal s).write buf = ((s.write buf).1, heal (s.write buf).2) := by
  have h' : (heal s).failsNow = false := rfl
  unfold Sink.write
  rw [h', h]
  obtain ⟨a, sc, fb, c, fa, k, f⟩ := s
  simp only [heal, Bool.false_eq_true, if_false]
  by_cases hbe : buf.isEmpty
  · simp [hbe]
  · simp only [hbe]
    cases sc with
    | nil => rfl
    | cons st sc => cases st <;> rfl

/-- the full contract of `write_all` on the scripted destination -/
theorem writeAll_spec (fuel : Nat) (s : Sink) (buf : Bytes)
    (hf : buf.length + s.script.length < fuel) (hnf : s.failed = false) :
    Params s (Sink.writeAll fuel s buf).2 ∧
    (Sink.writeAll fuel s buf).2.script.length ≤ s.script.length ∧
    (CallsOK s → CallsOK (Sink.writeAll fuel s buf).2) ∧
    (((Sink.writeAll fuel s buf).1 = none ∧ (Sink.writeAll fuel s buf).2.failed = false ∧
        (Sink.writeAll fuel s buf).2.accepted = s.accepted ++ buf) ∨
     ((Sink.writeAll fuel s buf).1 = some (.sink s.kind) ∧ (Sink.writeAll fuel s buf).2.failed = true ∧
        s.failAt ≠ none)) := by
  induction fuel generalizing s buf with
  | zero => omega
  | succ fuel ih =>
    unfold Sink.writeAll
    by_cases hbe : buf.isEmpty
    · have : buf = [] := by simpa using hbe
      subst this
      simp only [List.isEmpty_nil, if_true]
      exact ⟨Params.refl s, Nat.le_refl _, id, Or.inl ⟨by first | rfl | trivial, hnf, by simp⟩⟩
    · have hb : buf ≠ [] := by simpa using hbe
      have hbe' : buf.isEmpty = false := by simpa using hb
      simp only [hbe', Bool.false_eq_true, if_false]
      obtain ⟨hp, hc, hcase⟩ := write_cases s buf hb hnf
      rcases hcase with ⟨h1, h2, h3⟩ | ⟨h1, h2, h3, h4, h5⟩ | ⟨n, h1, h2, h3, h4, h5, h6, h7⟩
      · -- the destination failed
        obtain ⟨k, hk, _⟩ := failsNow_true s h3
        have e : s.write buf = (.fail, (s.write buf).2) := by rw [← h1]
        rw [e]
        simp only
        refine ⟨hp, ?_, ?_, Or.inr ⟨by first | rfl | trivial, h2, by rw [hk]; simp⟩⟩
        · unfold Sink.write
          rw [h3]; simp
        · intro _ k' _ hf'; rw [h2] at hf'; cases hf'
      · -- interrupted: retry
        have e : s.write buf = (.interrupted, (s.write buf).2) := by rw [← h1]
        rw [e]
        simp only
        obtain ⟨i1, i2, i3, i4⟩ := ih (s.write buf).2 buf (by omega) h2
        refine ⟨hp.trans i1, by omega, ?_, ?_⟩
        · intro hc0
          apply i3
          intro k hk hfl
          rw [hp.2.1] at hk
          have := failsNow_false s h5 k hk
          omega
        · rw [h3, hp.1, hp.2.1] at i4; exact i4
      · -- accepted n ≥ 1 bytes
        have e : s.write buf = (.ok n, (s.write buf).2) := by rw [← h1]
        rw [e]
        simp only
        rw [if_neg (by omega)]
        obtain ⟨i1, i2, i3, i4⟩ := ih (s.write buf).2 (buf.drop n)
          (by simp only [List.length_drop]; omega) h4
        refine ⟨hp.trans i1, by omega, ?_, ?_⟩
        · intro hc0
          apply i3
          intro k hk hfl
          rw [hp.2.1] at hk
          have := failsNow_false s h7 k hk
          omega
        · rw [h5, hp.1, hp.2.1, List.append_assoc, List.take_append_drop] at i4; exact i4

theorem writeAll_heal (fuel : Nat) (s : Sink) (buf : Bytes) (hnf : s.failed = false)
    (hout : (Sink.writeAll fuel s buf).2.failed = false) :
    Sink.writeAll fuel (heal s) buf = ((Sink.writeAll fuel s buf).1, heal (Sink.writeAll fuel s buf).2) := by
  induction fuel generalizing s buf with
  | zero => unfold Sink.writeAll; by_cases hbe : buf.isEmpty <;> simp [hbe]
  | succ fuel ih =>
    unfold Sink.writeAll at hout ⊢
    by_cases hbe : buf.isEmpty
    · simp [hbe]
    · have hb : buf ≠ [] := by simpa using hbe
      have hbe' : buf.isEmpty = false := by simpa using hb
      simp only [hbe', Bool.false_eq_true, if_false] at hout ⊢
      obtain ⟨hp, hc, hcase⟩ := write_cases s buf hb hnf
      rcases hcase with ⟨h1, h2, h3⟩ | ⟨h1, h2, h3, h4, h5⟩ | ⟨n, h1, h2, h3, h4, h5, h6, h7⟩
      · have e : s.write buf = (.fail, (s.write buf).2) := by rw [← h1]
        rw [e] at hout
        simp only at hout
        rw [h2] at hout; cases hout
      · have e : s.write buf = (.interrupted, (s.write buf).2) := by rw [← h1]
        rw [write_heal s buf h5]
        rw [e] at hout ⊢
        simp only at hout ⊢
        exact ih _ _ h2 hout
      · have e : s.write buf = (.ok n, (s.write buf).2) := by rw [← h1]
        rw [write_heal s buf h7]
        rw [e] at hout ⊢
        have hn : n ≠ 0 := by omega
        simp only [hn, if_false] at hout ⊢
        exact ih _ _ h4 hout

/-- outcome contract of a computation that only appends to the destination: on success it has
appended exactly `out`; the only other outcome is the destination's own error, returned as such -/
structure Trans (s : Sink) (r : Option WErr) (s' : Sink) (out : Bytes) : Prop where
  params : Params s s'
  calls : CallsOK s → CallsOK s'
  res : (r = none ∧ s'.failed = false ∧ s'.accepted = s.accepted ++ out) ∨
        (r = some (.sink s.kind) ∧ s'.failed = true ∧ s.failAt ≠ none)

theorem writeAllF_trans (s : Sink) (buf : Bytes) (hnf : s.failed = false) :
    Trans s (s.writeAllF buf).1 (s.writeAllF buf).2 buf := by
  obtain ⟨h1, _, h3, h4⟩ := writeAll_spec (buf.length + s.script.length + 1) s buf (by omega) hnf
  exact ⟨h1, h3, h4⟩

theorem writeAllF_heal (s : Sink) (buf : Bytes) (hnf : s.failed = false)
    (hout : (s.writeAllF buf).2.failed = false) :
    (heal s).writeAllF buf = ((s.writeAllF buf).1, heal (s.writeAllF buf).2) :=
  writeAll_heal _ s buf hnf hout

theorem feed_trans (s : Sink) (cs : List Bytes) (hnf : s.failed = false) :
    Trans s (feed s cs).1 (feed s cs).2 cs.flatten := by
  induction cs generalizing s with
  | nil => exact ⟨Params.refl s, id, Or.inl ⟨rfl, hnf, by simp [feed]⟩⟩
  | cons c cs ih =>
    have t := writeAllF_trans s c hnf
    unfold feed
    rcases t.res with ⟨h1, h2, h3⟩ | ⟨h1, h2, h3⟩
    · have e : s.writeAllF c = (none, (s.writeAllF c).2) := by rw [← h1]
      rw [e]
      have t2 := ih (s.writeAllF c).2 h2
      refine ⟨t.params.trans t2.params, fun h => t2.calls (t.calls h), ?_⟩
      rcases t2.res with ⟨g1, g2, g3⟩ | ⟨g1, g2, g3⟩
      · exact Or.inl ⟨g1, g2, by rw [g3, h3]; simp⟩
      · rw [t.params.1] at g1
        rw [t.params.2.1] at g3
        exact Or.inr ⟨g1, g2, g3⟩
    · have e : s.writeAllF c = (some (.sink s.kind), (s.writeAllF c).2) := by rw [← h1]
      rw [e]
      exact ⟨t.params, t.calls, Or.inr ⟨rfl, h2, h3⟩⟩

theorem feed_heal (s : Sink) (cs : List Bytes) (hnf : s.failed = false)
    (hout : (feed s cs).2.failed = false) :
    feed (heal s) cs = ((feed s cs).1, heal (feed s cs).2) := by
  induction cs generalizing s with
  | nil => rfl
  | cons c cs ih =>
    have t := writeAllF_trans s c hnf
    unfold feed at hout ⊢
    rcases t.res with ⟨h1, h2, h3⟩ | ⟨h1, h2, h3⟩
    · have e : s.writeAllF c = (none, (s.writeAllF c).2) := by rw [← h1]
      rw [writeAllF_heal s c hnf h2]
      rw [e] at hout ⊢
      exact ih _ h2 hout
    · have e : s.writeAllF c = (some (.sink s.kind), (s.writeAllF c).2) := by rw [← h1]
      rw [e] at hout
      rw [h2] at hout; cases hout

/-! ## `write_frame` -/

theorem headerChunks_flatten : headerChunks.flatten = headerPrefix := by decide

/-- `write_frame` over the scripted destination: either the whole frame of `Frame.frame` was
appended (and `block_size` returned), or the destination's error is returned, or the writer's own
BSIZE/ISIZE check fails exactly when `Frame.frame` fails -/
theorem writeFrame_spec (s : Sink) (cdata : Bytes) (crc isize : Nat) (hnf : s.failed = false) :
    Params s (writeFrame s cdata crc isize).2 ∧
    (CallsOK s → CallsOK (writeFrame s cdata crc isize).2) ∧
    ((∃ fr, frame cdata crc isize = .ok fr ∧ (writeFrame s cdata crc isize).1 = .ok fr.length ∧
        (writeFrame s cdata crc isize).2.failed = false ∧
        (writeFrame s cdata crc isize).2.accepted = s.accepted ++ fr) ∨
     ((writeFrame s cdata crc isize).1 = .error (.sink s.kind) ∧
        (writeFrame s cdata crc isize).2.failed = true ∧ s.failAt ≠ none) ∨
     (∃ e, frame cdata crc isize = .error e ∧ (writeFrame s cdata crc isize).1 = .error (.enc e) ∧
        (writeFrame s cdata crc isize).2.failed = false)) := by
  have t1 := feed_trans s headerChunks hnf
  unfold writeFrame frame
  generalize feed s headerChunks = o1 at t1 ⊢
  obtain ⟨r1, s1⟩ := o1
  rcases t1.res with ⟨a1, a2, a3⟩ | ⟨a1, a2, a3⟩
  · simp only at a1 a2 a3
    subst a1
    simp only
    by_cases hb : HEADER_SIZE + cdata.length + TRAILER_SIZE - 1 < 65536
    · rw [if_pos hb, if_pos hb]
      have t2 := feed_trans s1 [le 2 (HEADER_SIZE + cdata.length + TRAILER_SIZE - 1), cdata, le 4 crc] a2
      generalize feed s1 [le 2 (HEADER_SIZE + cdata.length + TRAILER_SIZE - 1), cdata, le 4 crc] = o2
        at t2 ⊢
      obtain ⟨r2, s2⟩ := o2
      rcases t2.res with ⟨b1, b2, b3⟩ | ⟨b1, b2, b3⟩
      · simp only at b1 b2 b3
        subst b1
        simp only
        by_cases hi : isize < 2^32
        · rw [if_pos hi, if_pos hi]
          have t3 := feed_trans s2 [le 4 isize] b2
          generalize feed s2 [le 4 isize] = o3 at t3 ⊢
          obtain ⟨r3, s3⟩ := o3
          rcases t3.res with ⟨c1, c2, c3⟩ | ⟨c1, c2, c3⟩
          · simp only at c1 c2 c3
            subst c1
            simp only
            refine ⟨(t1.params.trans t2.params).trans t3.params,
              fun h => t3.calls (t2.calls (t1.calls h)), Or.inl ⟨_, rfl, ?_, c2, ?_⟩⟩
            · have := mkFrame_length cdata crc isize
              unfold mkFrame at this
              rw [this, HEADER_SIZE_eq, TRAILER_SIZE_eq]
              congr 1; omega
            · rw [c3, b3, a3, headerChunks_flatten]
              simp [List.append_assoc]
          · simp only at c1 c2 c3
            subst c1
            simp only
            refine ⟨(t1.params.trans t2.params).trans t3.params,
              fun h => t3.calls (t2.calls (t1.calls h)), Or.inr (Or.inl ⟨?_, c2, ?_⟩)⟩
            · rw [(t1.params.trans t2.params).1]
            · rw [(t1.params.trans t2.params).2.1] at c3; exact c3
        · rw [if_neg hi, if_neg hi]
          exact ⟨t1.params.trans t2.params, fun h => t2.calls (t1.calls h),
            Or.inr (Or.inr ⟨_, rfl, rfl, b2⟩)⟩
      · simp only at b1 b2 b3
        subst b1
        simp only
        refine ⟨t1.params.trans t2.params, fun h => t2.calls (t1.calls h),
          Or.inr (Or.inl ⟨?_, b2, ?_⟩)⟩
        · rw [t1.params.1]
        · rw [t1.params.2.1] at b3; exact b3
    · rw [if_neg hb, if_neg hb]
      exact ⟨t1.params, t1.calls, Or.inr (Or.inr ⟨_, rfl, rfl, a2⟩)⟩
  · simp only at a1 a2 a3
    subst a1
    simp only
    exact ⟨t1.params, t1.calls, Or.inr (Or.inl ⟨by first | rfl | trivial, a2, a3⟩)⟩

theorem writeFrame_heal (s : Sink) (cdata : Bytes) (crc isize : Nat) (hnf : s.failed = false)
    (hout : (writeFrame s cdata crc isize).2.failed = false) :
    writeFrame (heal s) cdata crc isize =
      ((writeFrame s cdata crc isize).1, heal (writeFrame s cdata crc isize).2) := by
  have t1 := feed_trans s headerChunks hnf
  have g1 := feed_heal s headerChunks hnf
  unfold writeFrame at hout ⊢
  generalize feed s headerChunks = o1 at t1 g1 hout ⊢
  obtain ⟨r1, s1⟩ := o1
  rcases t1.res with ⟨a1, a2, a3⟩ | ⟨a1, a2, a3⟩
  · simp only at a1 a2 a3 g1
    subst a1
    rw [g1 a2]
    simp only at hout ⊢
    by_cases hb : HEADER_SIZE + cdata.length + TRAILER_SIZE - 1 < 65536
    · simp only [hb, if_true] at hout ⊢
      have t2 := feed_trans s1 [le 2 (HEADER_SIZE + cdata.length + TRAILER_SIZE - 1), cdata, le 4 crc] a2
      have g2 := feed_heal s1 [le 2 (HEADER_SIZE + cdata.length + TRAILER_SIZE - 1), cdata, le 4 crc] a2
      generalize feed s1 [le 2 (HEADER_SIZE + cdata.length + TRAILER_SIZE - 1), cdata, le 4 crc] = o2
        at t2 g2 hout ⊢
      obtain ⟨r2, s2⟩ := o2
      rcases t2.res with ⟨b1, b2, b3⟩ | ⟨b1, b2, b3⟩
      · simp only at b1 b2 b3 g2
        subst b1
        rw [g2 b2]
        simp only at hout ⊢
        by_cases hi : isize < 2^32
        · simp only [hi, if_true] at hout ⊢
          have t3 := feed_trans s2 [le 4 isize] b2
          have g3 := feed_heal s2 [le 4 isize] b2
          generalize feed s2 [le 4 isize] = o3 at t3 g3 hout ⊢
          obtain ⟨r3, s3⟩ := o3
          rcases t3.res with ⟨c1, c2, c3⟩ | ⟨c1, c2, c3⟩
          · simp only at c1 c2 c3 g3
            subst c1
            rw [g3 c2]
          · simp only at c1 c2 c3 hout
            subst c1
            simp only at hout
            rw [c2] at hout; cases hout
        · simp only [hi, if_false] at hout ⊢
      · simp only at b1 b2 b3 hout
        subst b1
        simp only at hout
        rw [b2] at hout; cases hout
    · simp only [hb, if_false] at hout ⊢
  · simp only at a1 a2 a3 hout
    subst a1
    simp only at hout
    rw [a2] at hout; cases hout

/-! ## the writer, call by call, against `Frame.lean`'s perfect-sink writer -/

def healW (w : FW) : FW := { w with sink := heal w.sink }

theorem healW_staging (w : FW) : (healW w).staging = w.staging := rfl
theorem healW_position (w : FW) : (healW w).position = w.position := rfl
theorem healW_sink (w : FW) : (healW w).sink = heal w.sink := rfl
theorem pure_staging (w : FW) : w.pure.staging = w.staging := rfl
theorem pure_position (w : FW) : w.pure.position = w.position := rfl
theorem pure_sink (w : FW) : w.pure.sink = w.sink.accepted := rfl

/-- contract of a writer call `w ↦ (r, w')` against the perfect-sink function `p` of `Frame.lean`:
`Ok` means the perfect-sink writer makes the same step (same staged bytes, same `position`, the
destination holds what the perfect sink holds); the destination's error is returned as such, and
is the only way `failed` becomes true; any other error is the perfect-sink writer's own -/
def Spec (p : Writer → Except Err Writer) (w : FW) (r : Option WErr) (w' : FW) : Prop :=
  Params w.sink w'.sink ∧ (CallsOK w.sink → CallsOK w'.sink) ∧
  ((r = none ∧ w'.sink.failed = false ∧ p w.pure = .ok w'.pure) ∨
   (r = some (.sink w.sink.kind) ∧ w'.sink.failed = true ∧ w.sink.failAt ≠ none) ∨
   (∃ e, r = some (.enc e) ∧ w'.sink.failed = false ∧ p w.pure = .error e))

theorem flushBlock_spec (D : Deflater) (lvl : Nat) (w : FW) (hnf : w.sink.failed = false) :
    Spec (Bgzf.flushBlock D lvl) w (flushBlock D lvl w).1 (flushBlock D lvl w).2 := by
  unfold Spec flushBlock Bgzf.flushBlock
  simp only [pure_staging, pure_position, pure_sink]
  cases hE : encodeBlock D lvl w.staging with
  | error e =>
    exact ⟨Params.refl _, id, Or.inr (Or.inr ⟨e, rfl, hnf, rfl⟩)⟩
  | ok cdata =>
    simp only
    have t := writeFrame_spec w.sink cdata (D.crc w.staging) w.staging.length hnf
    generalize writeFrame w.sink cdata (D.crc w.staging) w.staging.length = o at t ⊢
    obtain ⟨r, s⟩ := o
    obtain ⟨tp, tc, tr⟩ := t
    rcases tr with ⟨fr, f1, f2, f3, f4⟩ | ⟨f1, f2, f3⟩ | ⟨e, f1, f2, f3⟩
    · simp only at f2 f3 f4 tp tc
      subst f2
      refine ⟨tp, tc, Or.inl ⟨rfl, f3, ?_⟩⟩
      rw [f1]
      simp only [FW.pure, f4]
    · simp only at f1 f2 tp tc
      subst f1
      exact ⟨tp, tc, Or.inr (Or.inl ⟨rfl, f2, f3⟩)⟩
    · simp only at f2 f3 tp tc
      subst f2
      refine ⟨tp, tc, Or.inr (Or.inr ⟨e, rfl, f3, ?_⟩)⟩
      rw [f1]

theorem flushBlock_err (D : Deflater) (lvl : Nat) (w : FW) (e : Err)
    (h : encodeBlock D lvl w.staging = .error e) : flushBlock D lvl w = (some (.enc e), w) := by
  unfold flushBlock; rw [h]

theorem flushBlock_wf_err (D : Deflater) (lvl : Nat) (w : FW) (cdata : Bytes) (e : WErr) (s : Sink)
    (h : encodeBlock D lvl w.staging = .ok cdata)
    (h2 : writeFrame w.sink cdata (D.crc w.staging) w.staging.length = (.error e, s)) :
    flushBlock D lvl w = (some e, { w with sink := s }) := by
  unfold flushBlock; rw [h]; simp only; rw [h2]

theorem flushBlock_wf_ok (D : Deflater) (lvl : Nat) (w : FW) (cdata : Bytes) (bs : Nat) (s : Sink)
    (h : encodeBlock D lvl w.staging = .ok cdata)
    (h2 : writeFrame w.sink cdata (D.crc w.staging) w.staging.length = (.ok bs, s)) :
    flushBlock D lvl w = (none, ⟨[], w.position + bs, s⟩) := by
  unfold flushBlock; rw [h]; simp only; rw [h2]

theorem flushBlock_heal (D : Deflater) (lvl : Nat) (w : FW) (hnf : w.sink.failed = false)
    (hout : (flushBlock D lvl w).2.sink.failed = false) :
    flushBlock D lvl (healW w) = ((flushBlock D lvl w).1, healW (flushBlock D lvl w).2) := by
  cases hE : encodeBlock D lvl w.staging with
  | error e =>
    rw [flushBlock_err D lvl w e hE, flushBlock_err D lvl (healW w) e hE]
  | ok cdata =>
    have g := writeFrame_heal w.sink cdata (D.crc w.staging) w.staging.length hnf
    cases hW : writeFrame w.sink cdata (D.crc w.staging) w.staging.length with
    | mk r s =>
      rw [hW] at g
      cases r with
      | error e =>
        rw [flushBlock_wf_err D lvl w cdata e s hE hW] at hout ⊢
        rw [flushBlock_wf_err D lvl (healW w) cdata e (heal s) hE (g hout)]
        rfl
      | ok bs =>
        rw [flushBlock_wf_ok D lvl w cdata bs s hE hW] at hout ⊢
        rw [flushBlock_wf_ok D lvl (healW w) cdata bs (heal s) hE (g hout)]
        rfl

theorem flush_spec (D : Deflater) (lvl : Nat) (w : FW) (hnf : w.sink.failed = false) :
    Spec (Bgzf.flush D lvl) w (flush D lvl w).1 (flush D lvl w).2 := by
  unfold flush
  by_cases h : w.staging.isEmpty
  · rw [if_pos h]
    refine ⟨Params.refl _, id, Or.inl ⟨rfl, hnf, ?_⟩⟩
    unfold Bgzf.flush
    rw [if_pos (by simpa [FW.pure] using h)]
  · rw [if_neg h]
    have hs := flushBlock_spec D lvl w hnf
    unfold Spec at hs ⊢
    unfold Bgzf.flush
    rw [if_neg (by simpa [FW.pure] using h)]
    exact hs

theorem flush_empty (D : Deflater) (lvl : Nat) (w : FW) (h : w.staging.isEmpty = true) :
    flush D lvl w = (none, w) := by unfold flush; rw [if_pos h]

theorem flush_nonempty (D : Deflater) (lvl : Nat) (w : FW) (h : w.staging.isEmpty = false) :
    flush D lvl w = flushBlock D lvl w := by unfold flush; rw [if_neg (by simp [h])]

theorem flush_heal (D : Deflater) (lvl : Nat) (w : FW) (hnf : w.sink.failed = false)
    (hout : (flush D lvl w).2.sink.failed = false) :
    flush D lvl (healW w) = ((flush D lvl w).1, healW (flush D lvl w).2) := by
  cases h : w.staging.isEmpty with
  | true => rw [flush_empty D lvl w h, flush_empty D lvl (healW w) h]
  | false =>
    rw [flush_nonempty D lvl w h] at hout ⊢
    rw [flush_nonempty D lvl (healW w) h]
    exact flushBlock_heal D lvl w hnf hout

/-! ### `write` -/

/-- the state after `staging_buf.extend(&buf[..amt])` -/
def stage (w : FW) (buf : Bytes) : FW :=
  { w with staging := w.staging ++ buf.take (min (MAX_BUF - w.staging.length) buf.length) }

def pstage (w : Writer) (buf : Bytes) : Writer :=
  { w with staging := w.staging ++ buf.take (min (MAX_BUF - w.staging.length) buf.length) }

theorem stage_pure (w : FW) (buf : Bytes) : (stage w buf).pure = pstage w.pure buf := rfl
theorem stage_sink (w : FW) (buf : Bytes) : (stage w buf).sink = w.sink := rfl
theorem stage_heal (w : FW) (buf : Bytes) : stage (healW w) buf = healW (stage w buf) := rfl

theorem write1_room (D : Deflater) (lvl : Nat) (w : FW) (buf : Bytes)
    (h : (stage w buf).staging.length < MAX_BUF) :
    write1 D lvl w buf = (.ok (min (MAX_BUF - w.staging.length) buf.length), stage w buf) := by
  unfold write1; exact if_pos h

theorem write1_full (D : Deflater) (lvl : Nat) (w : FW) (buf : Bytes)
    (h : ¬ (stage w buf).staging.length < MAX_BUF) :
    write1 D lvl w buf =
      (match flush D lvl (stage w buf) with
       | (some e, w'') => (.error e, w'')
       | (none, w'') => (.ok (min (MAX_BUF - w.staging.length) buf.length), w'')) := by
  unfold write1; exact if_neg h

theorem pwrite1_room (D : Deflater) (lvl : Nat) (w : Writer) (buf : Bytes)
    (h : (pstage w buf).staging.length < MAX_BUF) :
    Bgzf.write1 D lvl w buf = .ok (pstage w buf, min (MAX_BUF - w.staging.length) buf.length) := by
  unfold Bgzf.write1; exact if_pos h

theorem pwrite1_full (D : Deflater) (lvl : Nat) (w : Writer) (buf : Bytes)
    (h : ¬ (pstage w buf).staging.length < MAX_BUF) :
    Bgzf.write1 D lvl w buf =
      (match Bgzf.flush D lvl (pstage w buf) with
       | .error e => .error e
       | .ok w'' => .ok (w'', min (MAX_BUF - w.staging.length) buf.length)) := by
  unfold Bgzf.write1; exact if_neg h

def Spec1 (D : Deflater) (lvl : Nat) (buf : Bytes) (w : FW) (r : Except WErr Nat) (w' : FW) : Prop :=
  Params w.sink w'.sink ∧ (CallsOK w.sink → CallsOK w'.sink) ∧
  ((∃ amt, r = .ok amt ∧ w'.sink.failed = false ∧ Bgzf.write1 D lvl w.pure buf = .ok (w'.pure, amt)) ∨
   (r = .error (.sink w.sink.kind) ∧ w'.sink.failed = true ∧ w.sink.failAt ≠ none) ∨
   (∃ e, r = .error (.enc e) ∧ w'.sink.failed = false ∧ Bgzf.write1 D lvl w.pure buf = .error e))

theorem write1_spec (D : Deflater) (lvl : Nat) (w : FW) (buf : Bytes) (hnf : w.sink.failed = false) :
    Spec1 D lvl buf w (write1 D lvl w buf).1 (write1 D lvl w buf).2 := by
  by_cases h : (stage w buf).staging.length < MAX_BUF
  · rw [write1_room D lvl w buf h]
    refine ⟨Params.refl _, id, Or.inl ⟨_, rfl, hnf, ?_⟩⟩
    rw [pwrite1_room D lvl w.pure buf h]; rfl
  · rw [write1_full D lvl w buf h]
    have hs := flush_spec D lvl (stage w buf) hnf
    have hp := pwrite1_full D lvl w.pure buf h
    rw [← stage_pure] at hp
    generalize flush D lvl (stage w buf) = o at hs ⊢
    obtain ⟨r, w'⟩ := o
    obtain ⟨s1, s2, s3⟩ := hs
    rw [stage_sink] at s1 s2 s3
    rcases s3 with ⟨a1, a2, a3⟩ | ⟨a1, a2, a3⟩ | ⟨e, a1, a2, a3⟩
    · simp only at a1 a2 a3 s1 s2
      subst a1
      refine ⟨s1, s2, Or.inl ⟨_, rfl, a2, ?_⟩⟩
      rw [hp, a3]; rfl
    · simp only at a1 a2 a3 s1 s2
      subst a1
      exact ⟨s1, s2, Or.inr (Or.inl ⟨rfl, a2, a3⟩)⟩
    · simp only at a1 a2 a3 s1 s2
      subst a1
      refine ⟨s1, s2, Or.inr (Or.inr ⟨e, rfl, a2, ?_⟩)⟩
      rw [hp, a3]

theorem write1_heal (D : Deflater) (lvl : Nat) (w : FW) (buf : Bytes) (hnf : w.sink.failed = false)
    (hout : (write1 D lvl w buf).2.sink.failed = false) :
    write1 D lvl (healW w) buf = ((write1 D lvl w buf).1, healW (write1 D lvl w buf).2) := by
  by_cases h : (stage w buf).staging.length < MAX_BUF
  · rw [write1_room D lvl w buf h, write1_room D lvl (healW w) buf h]; rfl
  · rw [write1_full D lvl w buf h] at hout ⊢
    rw [write1_full D lvl (healW w) buf h, stage_heal]
    have g := flush_heal D lvl (stage w buf) hnf
    generalize flush D lvl (stage w buf) = o at g hout ⊢
    obtain ⟨r, w'⟩ := o
    cases r with
    | none => simp only at g hout ⊢; rw [g hout]; rfl
    | some e => simp only at g hout ⊢; rw [g hout]

/-! ### `write_all`, histories, `try_finish` -/

theorem Spec.lift {p q : Writer → Except Err Writer} {w w' w'' : FW} {r : Option WErr}
    (hp : Params w.sink w'.sink) (hc : CallsOK w.sink → CallsOK w'.sink)
    (heq : p w.pure = q w'.pure) (h : Spec q w' r w'') : Spec p w r w'' := by
  obtain ⟨s1, s2, s3⟩ := h
  refine ⟨hp.trans s1, fun x => s2 (hc x), ?_⟩
  rcases s3 with ⟨a1, a2, a3⟩ | ⟨a1, a2, a3⟩ | ⟨e, a1, a2, a3⟩
  · exact Or.inl ⟨a1, a2, by rw [heq, a3]⟩
  · rw [hp.1] at a1; rw [hp.2.1] at a3
    exact Or.inr (Or.inl ⟨a1, a2, a3⟩)
  · exact Or.inr (Or.inr ⟨e, a1, a2, by rw [heq, a3]⟩)

theorem writeAllW_nil (D : Deflater) (lvl fuel : Nat) (w : FW) : writeAll D lvl fuel w [] = (none, w) := by
  cases fuel <;> simp [writeAll]

theorem writeAllW_zero (D : Deflater) (lvl : Nat) (w : FW) (buf : Bytes) (hb : buf ≠ []) :
    writeAll D lvl 0 w buf = (some (.enc .writeZero), w) := by
  simp [writeAll, hb]

theorem writeAllW_succ (D : Deflater) (lvl fuel : Nat) (w : FW) (buf : Bytes) (hb : buf ≠ []) :
    writeAll D lvl (fuel+1) w buf =
      (match write1 D lvl w buf with
       | (.error e, w') => (some e, w')
       | (.ok amt, w') =>
         if amt = 0 then (some (.enc .writeZero), w') else writeAll D lvl fuel w' (buf.drop amt)) := by
  have : buf.isEmpty = false := by simp [hb]
  rw [writeAll]; simp only [this, Bool.false_eq_true, if_false]; rfl

theorem pwriteAll_zero (D : Deflater) (lvl : Nat) (w : Writer) (buf : Bytes) (hb : buf ≠ []) :
    Bgzf.writeAll D lvl 0 w buf = .error .writeZero := by
  simp [Bgzf.writeAll, hb]

theorem pwriteAll_succ (D : Deflater) (lvl fuel : Nat) (w : Writer) (buf : Bytes) (hb : buf ≠ []) :
    Bgzf.writeAll D lvl (fuel+1) w buf =
      (match Bgzf.write1 D lvl w buf with
       | .error e => .error e
       | .ok (w', amt) =>
         if amt = 0 then .error .writeZero else Bgzf.writeAll D lvl fuel w' (buf.drop amt)) := by
  have : buf.isEmpty = false := by simp [hb]
  rw [Bgzf.writeAll]; simp only [this, Bool.false_eq_true, if_false]; rfl

theorem writeAllW_spec (D : Deflater) (lvl fuel : Nat) (w : FW) (buf : Bytes)
    (hnf : w.sink.failed = false) :
    Spec (fun pw => Bgzf.writeAll D lvl fuel pw buf) w
      (writeAll D lvl fuel w buf).1 (writeAll D lvl fuel w buf).2 := by
  induction fuel generalizing w buf with
  | zero =>
    by_cases hb : buf = []
    · subst hb
      rw [writeAllW_nil]
      exact ⟨Params.refl _, id, Or.inl ⟨rfl, hnf, Bgzf.writeAll_nil D lvl 0 w.pure⟩⟩
    · rw [writeAllW_zero D lvl w buf hb]
      exact ⟨Params.refl _, id, Or.inr (Or.inr ⟨_, rfl, hnf, pwriteAll_zero D lvl w.pure buf hb⟩)⟩
  | succ fuel ih =>
    by_cases hb : buf = []
    · subst hb
      rw [writeAllW_nil]
      exact ⟨Params.refl _, id, Or.inl ⟨rfl, hnf, Bgzf.writeAll_nil D lvl _ w.pure⟩⟩
    · rw [writeAllW_succ D lvl fuel w buf hb]
      have hs := write1_spec D lvl w buf hnf
      have hp := pwriteAll_succ D lvl fuel w.pure buf hb
      generalize write1 D lvl w buf = o at hs ⊢
      obtain ⟨r, w'⟩ := o
      obtain ⟨s1, s2, s3⟩ := hs
      rcases s3 with ⟨amt, a1, a2, a3⟩ | ⟨a1, a2, a3⟩ | ⟨e, a1, a2, a3⟩
      · simp only at a1 a2 a3 s1 s2
        subst a1
        simp only
        rw [a3] at hp
        simp only at hp
        by_cases h0 : amt = 0
        · rw [if_pos h0] at hp ⊢
          exact ⟨s1, s2, Or.inr (Or.inr ⟨_, rfl, a2, hp⟩)⟩
        · rw [if_neg h0] at hp ⊢
          exact Spec.lift (q := fun pw => Bgzf.writeAll D lvl fuel pw (buf.drop amt)) s1 s2 hp
            (ih w' (buf.drop amt) a2)
      · simp only at a1 a2 a3 s1 s2
        subst a1
        exact ⟨s1, s2, Or.inr (Or.inl ⟨rfl, a2, a3⟩)⟩
      · simp only at a1 a2 a3 s1 s2
        subst a1
        rw [a3] at hp
        exact ⟨s1, s2, Or.inr (Or.inr ⟨e, rfl, a2, hp⟩)⟩

theorem writeAllW_heal (D : Deflater) (lvl fuel : Nat) (w : FW) (buf : Bytes)
    (hnf : w.sink.failed = false) (hout : (writeAll D lvl fuel w buf).2.sink.failed = false) :
    writeAll D lvl fuel (healW w) buf =
      ((writeAll D lvl fuel w buf).1, healW (writeAll D lvl fuel w buf).2) := by
  induction fuel generalizing w buf with
  | zero =>
    by_cases hb : buf = []
    · subst hb; rw [writeAllW_nil, writeAllW_nil]
    · rw [writeAllW_zero D lvl w buf hb, writeAllW_zero D lvl (healW w) buf hb]
  | succ fuel ih =>
    by_cases hb : buf = []
    · subst hb; rw [writeAllW_nil, writeAllW_nil]
    · rw [writeAllW_succ D lvl fuel w buf hb] at hout ⊢
      rw [writeAllW_succ D lvl fuel (healW w) buf hb]
      have hs := write1_spec D lvl w buf hnf
      have g := write1_heal D lvl w buf hnf
      generalize write1 D lvl w buf = o at hs g hout ⊢
      obtain ⟨r, w'⟩ := o
      obtain ⟨s1, s2, s3⟩ := hs
      cases r with
      | error e => simp only at g hout ⊢; rw [g hout]
      | ok amt =>
        simp only at g hout ⊢
        have hw' : w'.sink.failed = false := by
          rcases s3 with ⟨_, _, a2, _⟩ | ⟨a1, _, _⟩ | ⟨_, a1, _, _⟩
          · exact a2
          · cases a1
          · cases a1
        rw [g hw']
        simp only
        by_cases h0 : amt = 0
        · rw [if_pos h0]; rw [if_pos h0]
        · rw [if_neg h0] at hout ⊢; rw [if_neg h0]
          exact ih w' (buf.drop amt) hw' hout

theorem step_spec (D : Deflater) (lvl : Nat) (w : FW) (op : Op) (hnf : w.sink.failed = false) :
    Spec (fun pw => Bgzf.step D lvl pw op) w (step D lvl w op).1 (step D lvl w op).2 := by
  cases op with
  | write b => exact writeAllW_spec D lvl (b.length + 1) w b hnf
  | flush => exact flush_spec D lvl w hnf

theorem step_heal (D : Deflater) (lvl : Nat) (w : FW) (op : Op) (hnf : w.sink.failed = false)
    (hout : (step D lvl w op).2.sink.failed = false) :
    step D lvl (healW w) op = ((step D lvl w op).1, healW (step D lvl w op).2) := by
  cases op with
  | write b => exact writeAllW_heal D lvl (b.length + 1) w b hnf hout
  | flush => exact flush_heal D lvl w hnf hout

theorem run_cons (D : Deflater) (lvl : Nat) (w : FW) (op : Op) (ops : List Op) :
    run D lvl w (op :: ops) =
      (match step D lvl w op with
       | (some e, w') => (some e, w')
       | (none, w') => run D lvl w' ops) := rfl

theorem prun_cons (D : Deflater) (lvl : Nat) (w : Writer) (op : Op) (ops : List Op) :
    Bgzf.run D lvl w (op :: ops) =
      (match Bgzf.step D lvl w op with
       | .error e => .error e
       | .ok w' => Bgzf.run D lvl w' ops) := rfl

theorem run_spec (D : Deflater) (lvl : Nat) (w : FW) (ops : List Op) (hnf : w.sink.failed = false) :
    Spec (fun pw => Bgzf.run D lvl pw ops) w (run D lvl w ops).1 (run D lvl w ops).2 := by
  induction ops generalizing w with
  | nil => exact ⟨Params.refl _, id, Or.inl ⟨rfl, hnf, rfl⟩⟩
  | cons op ops ih =>
    rw [run_cons]
    have hs := step_spec D lvl w op hnf
    have hp := prun_cons D lvl w.pure op ops
    generalize step D lvl w op = o at hs ⊢
    obtain ⟨r, w'⟩ := o
    obtain ⟨s1, s2, s3⟩ := hs
    rcases s3 with ⟨a1, a2, a3⟩ | ⟨a1, a2, a3⟩ | ⟨e, a1, a2, a3⟩
    · simp only at a1 a2 a3 s1 s2
      subst a1
      rw [a3] at hp
      exact Spec.lift (q := fun pw => Bgzf.run D lvl pw ops) s1 s2 hp (ih w' a2)
    · simp only at a1 a2 a3 s1 s2
      subst a1
      exact ⟨s1, s2, Or.inr (Or.inl ⟨rfl, a2, a3⟩)⟩
    · simp only at a1 a2 a3 s1 s2
      subst a1
      rw [a3] at hp
      exact ⟨s1, s2, Or.inr (Or.inr ⟨e, rfl, a2, hp⟩)⟩

theorem run_heal (D : Deflater) (lvl : Nat) (w : FW) (ops : List Op) (hnf : w.sink.failed = false)
    (hout : (run D lvl w ops).2.sink.failed = false) :
    run D lvl (healW w) ops = ((run D lvl w ops).1, healW (run D lvl w ops).2) := by
  induction ops generalizing w with
  | nil => rfl
  | cons op ops ih =>
    rw [run_cons] at hout ⊢
    rw [run_cons]
    have hs := step_spec D lvl w op hnf
    have g := step_heal D lvl w op hnf
    generalize step D lvl w op = o at hs g hout ⊢
    obtain ⟨r, w'⟩ := o
    obtain ⟨s1, s2, s3⟩ := hs
    cases r with
    | some e => simp only at g hout ⊢; rw [g hout]
    | none =>
      simp only at g hout ⊢
      have hw' : w'.sink.failed = false := by
        rcases s3 with ⟨_, a2, _⟩ | ⟨a1, _, _⟩ | ⟨_, a1, _, _⟩
        · exact a2
        · cases a1
        · cases a1
      rw [g hw']
      exact ih w' hw' hout

theorem tryFinish_flush_err (D : Deflater) (lvl : Nat) (w w' : FW) (e : WErr)
    (h : flush D lvl w = (some e, w')) : tryFinish D lvl w = (some e, w') := by
  unfold tryFinish; rw [h]

theorem tryFinish_flush_ok (D : Deflater) (lvl : Nat) (w w' : FW) (h : flush D lvl w = (none, w')) :
    tryFinish D lvl w = ((w'.sink.writeAllF EOF_MARKER).1,
      { w' with sink := (w'.sink.writeAllF EOF_MARKER).2, position := w'.position + EOF_MARKER.length }) := by
  unfold tryFinish; rw [h]

theorem tryFinish_spec (D : Deflater) (lvl : Nat) (w : FW) (hnf : w.sink.failed = false) :
    Spec (Bgzf.finish D lvl) w (tryFinish D lvl w).1 (tryFinish D lvl w).2 := by
  have hs := flush_spec D lvl w hnf
  cases hF : flush D lvl w with
  | mk r w' =>
    rw [hF] at hs
    obtain ⟨s1, s2, s3⟩ := hs
    simp only at s1 s2 s3
    rcases s3 with ⟨a1, a2, a3⟩ | ⟨a1, a2, a3⟩ | ⟨e, a1, a2, a3⟩
    · subst a1
      rw [tryFinish_flush_ok D lvl w w' hF]
      have t := writeAllF_trans w'.sink EOF_MARKER a2
      refine ⟨s1.trans t.params, fun x => t.calls (s2 x), ?_⟩
      rcases t.res with ⟨b1, b2, b3⟩ | ⟨b1, b2, b3⟩
      · refine Or.inl ⟨b1, b2, ?_⟩
        unfold Bgzf.finish
        rw [a3]
        simp only [FW.pure, b3]
      · rw [s1.1] at b1; rw [s1.2.1] at b3
        exact Or.inr (Or.inl ⟨b1, b2, b3⟩)
    · subst a1
      rw [tryFinish_flush_err D lvl w w' _ hF]
      exact ⟨s1, s2, Or.inr (Or.inl ⟨rfl, a2, a3⟩)⟩
    · subst a1
      rw [tryFinish_flush_err D lvl w w' _ hF]
      refine ⟨s1, s2, Or.inr (Or.inr ⟨e, rfl, a2, ?_⟩)⟩
      unfold Bgzf.finish
      rw [a3]

theorem tryFinish_heal (D : Deflater) (lvl : Nat) (w : FW) (hnf : w.sink.failed = false)
    (hout : (tryFinish D lvl w).2.sink.failed = false) :
    tryFinish D lvl (healW w) = ((tryFinish D lvl w).1, healW (tryFinish D lvl w).2) := by
  have hs := flush_spec D lvl w hnf
  have g := flush_heal D lvl w hnf
  cases hF : flush D lvl w with
  | mk r w' =>
    rw [hF] at hs g
    obtain ⟨s1, s2, s3⟩ := hs
    simp only at s1 s2 s3 g
    cases r with
    | some e =>
      rw [tryFinish_flush_err D lvl w w' e hF] at hout ⊢
      rw [tryFinish_flush_err D lvl (healW w) (healW w') e (g hout)]
    | none =>
      have hw' : w'.sink.failed = false := by
        rcases s3 with ⟨_, a2, _⟩ | ⟨a1, _, _⟩ | ⟨_, a1, _, _⟩
        · exact a2
        · cases a1
        · cases a1
      rw [tryFinish_flush_ok D lvl w w' hF] at hout ⊢
      rw [tryFinish_flush_ok D lvl (healW w) (healW w') (g hw')]
      simp only at hout
      rw [healW_sink, writeAllF_heal w'.sink EOF_MARKER hw' hout]
      rfl

/-- the perfect-sink counterpart of `runFinish` -/
def prunFinish (D : Deflater) (lvl : Nat) (ops : List Op) (pw : Writer) : Except Err Writer :=
  match Bgzf.run D lvl pw ops with
  | .error e => .error e
  | .ok p' => Bgzf.finish D lvl p'

theorem runFinish_run_err (D : Deflater) (lvl : Nat) (w w' : FW) (ops : List Op) (e : WErr)
    (h : run D lvl w ops = (some e, w')) : runFinish D lvl w ops = (some e, w') := by
  unfold runFinish; rw [h]

theorem runFinish_run_ok (D : Deflater) (lvl : Nat) (w w' : FW) (ops : List Op)
    (h : run D lvl w ops = (none, w')) : runFinish D lvl w ops = tryFinish D lvl w' := by
  unfold runFinish; rw [h]

theorem runFinish_spec (D : Deflater) (lvl : Nat) (w : FW) (ops : List Op)
    (hnf : w.sink.failed = false) :
    Spec (prunFinish D lvl ops) w (runFinish D lvl w ops).1 (runFinish D lvl w ops).2 := by
  have hs := run_spec D lvl w ops hnf
  cases hR : run D lvl w ops with
  | mk r w' =>
    rw [hR] at hs
    obtain ⟨s1, s2, s3⟩ := hs
    simp only at s1 s2 s3
    rcases s3 with ⟨a1, a2, a3⟩ | ⟨a1, a2, a3⟩ | ⟨e, a1, a2, a3⟩
    · subst a1
      rw [runFinish_run_ok D lvl w w' ops hR]
      refine Spec.lift (q := Bgzf.finish D lvl) s1 s2 ?_ (tryFinish_spec D lvl w' a2)
      unfold prunFinish; rw [a3]
    · subst a1
      rw [runFinish_run_err D lvl w w' ops _ hR]
      exact ⟨s1, s2, Or.inr (Or.inl ⟨rfl, a2, a3⟩)⟩
    · subst a1
      rw [runFinish_run_err D lvl w w' ops _ hR]
      refine ⟨s1, s2, Or.inr (Or.inr ⟨e, rfl, a2, ?_⟩)⟩
      unfold prunFinish; rw [a3]

theorem runFinish_heal (D : Deflater) (lvl : Nat) (w : FW) (ops : List Op)
    (hnf : w.sink.failed = false) (hout : (runFinish D lvl w ops).2.sink.failed = false) :
    runFinish D lvl (healW w) ops = ((runFinish D lvl w ops).1, healW (runFinish D lvl w ops).2) := by
  have hs := run_spec D lvl w ops hnf
  have g := run_heal D lvl w ops hnf
  cases hR : run D lvl w ops with
  | mk r w' =>
    rw [hR] at hs g
    obtain ⟨s1, s2, s3⟩ := hs
    simp only at s1 s2 s3 g
    cases r with
    | some e =>
      rw [runFinish_run_err D lvl w w' ops e hR] at hout ⊢
      rw [runFinish_run_err D lvl (healW w) (healW w') ops e (g hout)]
    | none =>
      have hw' : w'.sink.failed = false := by
        rcases s3 with ⟨_, a2, _⟩ | ⟨a1, _, _⟩ | ⟨_, a1, _, _⟩
        · exact a2
        · cases a1
        · cases a1
      rw [runFinish_run_ok D lvl w w' ops hR] at hout ⊢
      rw [runFinish_run_ok D lvl (healW w) (healW w') ops (g hw')]
      exact tryFinish_heal D lvl w' hw' hout

/-- on a lawful DEFLATE library the perfect-sink session always succeeds and reads back (C01) -/
theorem prunFinish_ok (D : Deflater) (hD : D.Lawful) (lvl : Nat) (ops : List Op) :
    ∃ pw, prunFinish D lvl ops Writer.init = .ok pw ∧ readToEnd D pw.sink = .ok (payload ops) := by
  obtain ⟨w, h, hi⟩ := run_ok' D hD lvl ops Writer.init [] (Inv_init D)
  obtain ⟨w', frs, hf, hg, hsink, hpay⟩ := finish_ok D hD lvl w _ hi
  refine ⟨w', ?_, ?_⟩
  · unfold prunFinish; rw [h]; exact hf
  · rw [hsink, readToEnd_frames D hD frs hg, hpay, List.nil_append]

end Noodles.Bgzf.SM
