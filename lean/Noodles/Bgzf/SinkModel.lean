import Noodles.Bgzf.Frame
/-!
# The BGZF writer over a fallible, short-writing destination (model)

`Noodles/Bgzf/Frame.lean` models `bgzf::io::Writer` over a perfect in-memory sink. This file is the
same writer, transcribed again from noodles-bgzf `io/writer.rs` (`write`, `flush`, `flush_block`,
`try_finish`, `Drop`) and `io/writer/frame.rs` (`write_frame`, `write_header`, `write_trailer`),
but over a *scripted destination*: the `ScriptSink` of `harness/src/adversary.rs`, which accepts
only part of a buffer, returns `ErrorKind::Interrupted`, and fails (for good) from a chosen call
index on. Every emission goes through `std::io::Write::write_all`, modelled from its documented
contract (retry on `Interrupted`, `Ok(0)` is `WriteZero`, any other error is returned).

Unlike `Frame.lean`, every operation returns its result *and* the writer state after it, because
the state after a failed call is observable: the bytes already accepted by the destination,
`position()` (bumped by `try_finish` even when the EOF write failed), the staged block that `Drop`
tries to flush again.
-/
namespace Noodles.Bgzf.SM
open Noodles.Codec Noodles.Bgzf

/-! ## the destination -/

/-- scripted response to one `write` call (`adversary::SinkStep`): accept at most `n` bytes
(at least one), or fail once with `ErrorKind::Interrupted` -/
inductive Step | accept (n : Nat) | interrupted
  deriving Repr

/-- `adversary::ScriptSink`. `failAt = some k`: the `k`-th call (0-based) and all later ones fail
with the error kind `kind`, which is NOT `Interrupted` (a destination that answers `Interrupted`
forever makes `write_all` spin; that is an unfair destination, not a failing one). -/
structure Sink where
  accepted : Bytes
  script : List Step
  /-- bytes accepted per call once the script is exhausted -/
  fallback : Nat
  calls : Nat
  failAt : Option Nat
  kind : Nat
  failed : Bool
  deriving Repr

def Sink.fresh (script : List Step) (fallback : Nat) (failAt : Option Nat) (kind : Nat) : Sink :=
  ⟨[], script, fallback, 0, failAt, kind, false⟩

inductive WRes | ok (n : Nat) | interrupted | fail
  deriving Repr

def Sink.failsNow (s : Sink) : Bool :=
  match s.failAt with
  | some k => decide (k ≤ s.calls)
  | none => false

/-- `<ScriptSink as Write>::write` -/
def Sink.write (s : Sink) (buf : Bytes) : WRes × Sink :=
  if s.failsNow then (.fail, { s with calls := s.calls + 1, failed := true })
  else if buf.isEmpty then (.ok 0, { s with calls := s.calls + 1 })
  else match s.script with
    | .interrupted :: sc => (.interrupted, { s with calls := s.calls + 1, script := sc })
    | .accept n :: sc =>
      (.ok (min (max n 1) buf.length),
        { s with calls := s.calls + 1, script := sc,
                 accepted := s.accepted ++ buf.take (min (max n 1) buf.length) })
    | [] =>
      (.ok (min (max s.fallback 1) buf.length),
        { s with calls := s.calls + 1,
                 accepted := s.accepted ++ buf.take (min (max s.fallback 1) buf.length) })

/-- errors a writer call can return: the destination's own error (its kind), `WriteZero` produced
by `write_all` when the destination returns `Ok(0)`, or an error of the writer's own logic
(`Frame.lean`'s `Err`: DEFLATE / BSIZE / `unreachable!`) -/
inductive WErr | sink (kind : Nat) | sinkZero | enc (e : Err)
  deriving Repr, DecidableEq

/-- `std::io::Write::write_all` on the destination. `fuel` bounds the loop; every iteration
either consumes a byte of `buf` or an `interrupted` entry of the script, so
`buf.length + script.length + 1` always suffices (`writeAllF`). -/
def Sink.writeAll : Nat → Sink → Bytes → Option WErr × Sink
  | 0, s, buf => if buf.isEmpty then (none, s) else (some .sinkZero, s)
  | fuel+1, s, buf =>
    if buf.isEmpty then (none, s) else
    match s.write buf with
    | (.ok n, s') => if n = 0 then (some .sinkZero, s') else Sink.writeAll fuel s' (buf.drop n)
    | (.interrupted, s') => Sink.writeAll fuel s' buf
    | (.fail, s') => (some (.sink s.kind), s')

def Sink.writeAllF (s : Sink) (buf : Bytes) : Option WErr × Sink :=
  Sink.writeAll (buf.length + s.script.length + 1) s buf

/-- consecutive `write_all` calls, `?`-propagated -/
def feed : Sink → List Bytes → Option WErr × Sink
  | s, [] => (none, s)
  | s, c :: cs =>
    match s.writeAllF c with
    | (none, s') => feed s' cs
    | (some e, s') => (some e, s')

/-! ## `write_frame` -/

/-- the ten `write_all` calls of `write_header` that precede BSIZE:
magic, CM, FLG, MTIME, XFL, OS, XLEN, SI1, SI2, SLEN -/
def headerChunks : List Bytes :=
  [[0x1f, 0x8b], [0x08], [0x04], [0, 0, 0, 0], [0x00], [0xff], [0x06, 0x00], [0x42], [0x43], [0x02, 0x00]]

/-- `write_frame(writer, compressed_data, crc32, uncompressed_size)`: fourteen `write_all` calls;
the `u16::try_from(block_size - 1)` check sits between the tenth and the eleventh, the
`u32::try_from(uncompressed_size)` check between the thirteenth and the fourteenth. Returns
`block_size`. -/
def writeFrame (s : Sink) (cdata : Bytes) (crc isize : Nat) : Except WErr Nat × Sink :=
  match feed s headerChunks with
  | (some e, s1) => (.error e, s1)
  | (none, s1) =>
    if HEADER_SIZE + cdata.length + TRAILER_SIZE - 1 < 65536 then
      match feed s1 [le 2 (HEADER_SIZE + cdata.length + TRAILER_SIZE - 1), cdata, le 4 crc] with
      | (some e, s2) => (.error e, s2)
      | (none, s2) =>
        if isize < 2^32 then
          match feed s2 [le 4 isize] with
          | (some e, s3) => (.error e, s3)
          | (none, s3) => (.ok (HEADER_SIZE + cdata.length + TRAILER_SIZE), s3)
        else (.error (.enc .invalidInput), s2)
    else (.error (.enc .invalidInput), s1)

/-! ## the writer -/

structure FW where
  staging : Bytes
  position : Nat
  sink : Sink
  deriving Repr

def FW.init (s : Sink) : FW := ⟨[], 0, s⟩

/-- what `Frame.lean`'s perfect-sink writer sees of this state -/
def FW.pure (w : FW) : Writer := ⟨w.staging, w.position, w.sink.accepted⟩

/-- `flush_block`: on any error the staged bytes stay staged and `position` is not advanced -/
def flushBlock (D : Deflater) (lvl : Nat) (w : FW) : Option WErr × FW :=
  match encodeBlock D lvl w.staging with
  | .error e => (some (.enc e), w)
  | .ok cdata =>
    match writeFrame w.sink cdata (D.crc w.staging) w.staging.length with
    | (.error e, s) => (some e, { w with sink := s })
    | (.ok bs, s) => (none, { staging := [], position := w.position + bs, sink := s })

/-- `Write::flush` (does not call the destination's `flush`) -/
def flush (D : Deflater) (lvl : Nat) (w : FW) : Option WErr × FW :=
  if w.staging.isEmpty then (none, w) else flushBlock D lvl w

/-- one `Write::write` call: the bytes are staged *before* the flush, so a failed call has
nevertheless taken `amt` bytes -/
def write1 (D : Deflater) (lvl : Nat) (w : FW) (buf : Bytes) : Except WErr Nat × FW :=
  if (w.staging ++ buf.take (min (MAX_BUF - w.staging.length) buf.length)).length < MAX_BUF then
    (.ok (min (MAX_BUF - w.staging.length) buf.length),
      { w with staging := w.staging ++ buf.take (min (MAX_BUF - w.staging.length) buf.length) })
  else
    match flush D lvl
        { w with staging := w.staging ++ buf.take (min (MAX_BUF - w.staging.length) buf.length) } with
    | (some e, w'') => (.error e, w'')
    | (none, w'') => (.ok (min (MAX_BUF - w.staging.length) buf.length), w'')

/-- `write_all` on the BGZF writer (std default over `write1`) -/
def writeAll (D : Deflater) (lvl : Nat) : Nat → FW → Bytes → Option WErr × FW
  | 0, w, buf => if buf.isEmpty then (none, w) else (some (.enc .writeZero), w)
  | fuel+1, w, buf =>
    if buf.isEmpty then (none, w) else
    match write1 D lvl w buf with
    | (.error e, w') => (some e, w')
    | (.ok amt, w') =>
      if amt = 0 then (some (.enc .writeZero), w') else writeAll D lvl fuel w' (buf.drop amt)

def step (D : Deflater) (lvl : Nat) (w : FW) : Op → Option WErr × FW
  | .write b => writeAll D lvl (b.length + 1) w b
  | .flush => flush D lvl w

/-- a caller that stops at the first `Err` -/
def run (D : Deflater) (lvl : Nat) : FW → List Op → Option WErr × FW
  | w, [] => (none, w)
  | w, op :: ops =>
    match step D lvl w op with
    | (some e, w') => (some e, w')
    | (none, w') => run D lvl w' ops

/-- `try_finish`: `self.flush()?`, then `write_all(BGZF_EOF)`, then `position += 28` — the bump
happens whether or not the EOF write succeeded — then the result of the EOF write -/
def tryFinish (D : Deflater) (lvl : Nat) (w : FW) : Option WErr × FW :=
  match flush D lvl w with
  | (some e, w') => (some e, w')
  | (none, w') =>
    ((w'.sink.writeAllF EOF_MARKER).1,
      { w' with sink := (w'.sink.writeAllF EOF_MARKER).2, position := w'.position + EOF_MARKER.length })

/-- `Drop` (with `inner` still present): `let _ = self.try_finish()` -/
def drop (D : Deflater) (lvl : Nat) (w : FW) : FW := (tryFinish D lvl w).2

/-- the history, then `try_finish`, stopping at the first `Err` -/
def runFinish (D : Deflater) (lvl : Nat) (w : FW) (ops : List Op) : Option WErr × FW :=
  match run D lvl w ops with
  | (some e, w') => (some e, w')
  | (none, w') => tryFinish D lvl w'

/-- how a caller ends a session -/
inductive End
  /-- `finish(self)`: `try_finish()?`; on `Err` the writer is dropped with `inner` present -/
  | finish
  /-- `try_finish(&mut self)` then `into_inner()` (no `Drop` work) -/
  | tryFinish
  /-- the writer just goes out of scope -/
  | drop
  deriving Repr

/-- a whole session as the harness drives it: calls until the first `Err`; after an `Err` the
writer is dropped; otherwise it is ended as `e` says. Returns the first error (none for `.drop`,
which cannot report) and the final state. -/
def session (D : Deflater) (lvl : Nat) (w : FW) (ops : List Op) (e : End) : Option WErr × FW :=
  match run D lvl w ops with
  | (some err, w') => (some err, drop D lvl w')
  | (none, w') =>
    match e with
    | .drop => (none, drop D lvl w')
    | .tryFinish => tryFinish D lvl w'
    | .finish =>
      match tryFinish D lvl w' with
      | (some err, w'') => (some err, drop D lvl w'')
      | (none, w'') => (none, w'')

end Noodles.Bgzf.SM
