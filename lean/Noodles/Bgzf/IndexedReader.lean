import Noodles.Bgzf.ReaderModel
/-!
# `bgzf::io::IndexedReader`: random access by UNCOMPRESSED offset through a gzi index (C02)

Transcribed from noodles-bgzf
* `gzi/index.rs` `Index::query` (the implicit first entry `(0, 0)`, `partition_point`, the two
  `try_from` conversions that fail with `InvalidData`),
* `io/reader.rs` `Reader::seek_by_uncompressed_position` (query, then `Reader::seek`),
* `io/indexed_reader.rs` `impl Seek for IndexedReader` (`SeekFrom::Start` only; `Current` and `End`
  are `unimplemented!()`, i.e. a panic, and therefore so is the provided
  `Seek::stream_position`, which is `seek(SeekFrom::Current(0))`), `position()` (the INNER,
  compressed stream position), `virtual_position()`, and the `Read` / `BufRead` delegation,
* `io/indexed_reader/builder.rs` `Builder::build_from_reader` (`missing index` = `InvalidInput`).

The block reader underneath is the state machine `Noodles.Bgzf.RM` (ReaderModel.lean).

noodles has no function that BUILDS a gzi index from a BGZF file at this commit (neither the
writer nor a scan); the index OF a layout is `RM.gziOf` (one entry per member but the first), which
is what `bgzip -r` / htslib write and what the harness computes from the member boundaries.

`slice::partition_point` is modelled by its documented contract: on a slice that is partitioned by
the predicate it returns the length of the prefix on which the predicate holds. A gzi index is
sorted by uncompressed offset, so `r.1 <= pos` partitions it. (On an unsorted index the real result
depends on the probe order of std's binary search and is not modelled; the harness only builds
sorted indices.)
-/
namespace Noodles.Bgzf.IR
open Noodles.Bgzf.RM

variable {α : Type}

/-- `slice::partition_point(|r| r.1 <= pos)` on an index sorted by uncompressed offset -/
def partitionPoint (g : Gzi) (pos : Nat) : Nat := (g.takeWhile fun r => r.2 ≤ pos).length

/-- compressed offsets of a virtual position have 48 bits (`VirtualPosition::try_from((u64, u16))`) -/
def MAX_COMPRESSED : Nat := 2 ^ 48

/-- `gzi::Index::query`. `pos - u` is a `u64` subtraction; it cannot underflow because the chosen
entry satisfies the predicate (`u ≤ pos`) — `query_entry_le`. -/
def query (g : Gzi) (pos : Nat) : Except Err (Nat × Nat) :=
  let i := partitionPoint g pos
  let cu := if i = 0 then (0, 0) else g[i - 1]!
  if 65536 ≤ pos - cu.2 then .error .invalidData          -- u16::try_from(pos - uncompressed_pos)
  else if MAX_COMPRESSED ≤ cu.1 then .error .invalidData  -- VirtualPosition::try_from
  else .ok (cu.1, pos - cu.2)

/-- `Reader::seek_by_uncompressed_position`: a failed query leaves the reader untouched, a failed
`Reader::seek` does not (the block at the queried member has been loaded). -/
def seekU (L : Layout α) (g : Gzi) (s : R α) (pos : Nat) : R α × Option Err :=
  match query g pos with
  | .error e => (s, some e)
  | .ok (c, u) => seek L s c u

inductive SeekFrom
  | start (p : Nat) | current (d : Int) | «end» (d : Int)
  deriving Repr

/-- operations of an `IndexedReader` -/
inductive IOp
  | read (n : Nat) | readExact (n : Nat) | fillBuf | consume (n : Nat)
  | seek (f : SeekFrom)
  | streamPosition      -- `Seek::stream_position` (provided method: `seek(Current(0))`)
  | position            -- `IndexedReader::position`
  | vpos                -- `IndexedReader::virtual_position`
  deriving Repr

inductive IOut (α : Type)
  | bytes (b : List α) | unit | pos (p : Nat) | vpos (c u : Nat) | err (e : Err) | panic
  deriving Repr, DecidableEq

/-- `impl Seek for IndexedReader`: `Start(p)` returns `p` itself on success. -/
def seekFrom (L : Layout α) (g : Gzi) (s : R α) : SeekFrom → R α × IOut α
  | .start p => match seekU L g s p with
    | (s', none) => (s', .pos p)
    | (s', some e) => (s', .err e)
  | .current _ => (s, .panic)     -- `_ => unimplemented!()`
  | .end _ => (s, .panic)

/-- one operation of the real indexed reader (model) -/
def istep (L : Layout α) (g : Gzi) (s : R α) : IOp → R α × IOut α
  | .read n => let r := read L s n; (r.1, .bytes r.2)
  | .readExact n => match readExact L s n with
    | (s', .ok b) => (s', .bytes b)
    | (s', .error e) => (s', .err e)
  | .fillBuf => let r := fillBuf L s; (r.1, .bytes r.2)
  | .consume n => (consume n s, .unit)
  | .seek f => seekFrom L g s f
  | .streamPosition => seekFrom L g s (.current 0)
  | .position => (s, .pos s.position)
  | .vpos => (s, .vpos (tell s).1 (tell s).2)

/-- run a history from a state, collecting the outputs -/
def irun (L : Layout α) (g : Gzi) : R α → List IOp → R α × List (IOut α)
  | s, [] => (s, [])
  | s, op :: ops =>
    let r := istep L g s op
    let rest := irun L g r.1 ops
    (rest.1, r.2 :: rest.2)

/-- `Builder::build_from_reader`: the index is mandatory -/
def build (index : Option Gzi) : Except Err (Gzi × R α) :=
  match index with
  | none => .error .invalidInput      -- "missing index"
  | some g => .ok (g, R.init)

/-- the idiom `loop { let k = r.read(&mut buf[..n])?; if k == 0 { break }; out.extend(&buf[..k]) }`
(fuel = an upper bound on the number of iterations) -/
def readAll (L : Layout α) (n : Nat) : Nat → R α → List α → List α
  | 0, _, acc => acc
  | fuel + 1, s, acc =>
    let r := read L s n
    if r.2.isEmpty then acc else readAll L n fuel r.1 (acc ++ r.2)

/-- the compressed file is smaller than 2^48 bytes (every member offset fits a virtual position) -/
def Small (L : Layout α) : Prop := coff L L.length < MAX_COMPRESSED

/-- the last member (if any) holds fewer than 65536 bytes, so that the END of the stream has an
in-block offset that fits `u16` (always true for files written by noodles / htslib, whose blocks
hold at most 65280 bytes, and for any file that ends with the EOF marker) -/
def EndOk (L : Layout α) : Prop := ∀ b, L.getLast? = some b → b.data.length < 65536

/-! ## the reference: `std::io::Cursor` over the flat payload

`Read::read` may legally return fewer bytes than asked for and `fill_buf` any non-empty prefix, so
the reference for those two is a relation; `read_exact`, `consume` after `fill_buf`, `seek` and the
reported position are functions of the cursor. -/

/-- `accepts F endOk o op out o'`: a `Cursor` over `F` standing at `o` may answer `out` to `op` and
then stands at `o'`. `buffered` is the number of bytes the last `fill_buf` exposed (what `consume`
is clamped to). `endOk` says whether `seek(Start(F.length))` is served (see `seek_end_full_block`). -/
def accepts (F : List α) (endOk : Prop) (o buffered : Nat) : IOp → IOut α → Nat → Prop
  | .read n, .bytes b, o' =>
      b = (F.drop o).take b.length ∧ b.length ≤ n ∧ (b = [] → n = 0 ∨ o = F.length) ∧
      o' = o + b.length
  | .readExact n, .bytes b, o' => o + n ≤ F.length ∧ b = (F.drop o).take n ∧ o' = o + n
  | .readExact n, .err e, o' => F.length < o + n ∧ e = .eof ∧ o' = F.length
  | .fillBuf, .bytes b, o' =>
      b = (F.drop o).take b.length ∧ (b = [] ↔ o = F.length) ∧ o' = o
  | .consume n, .unit, o' => o' = o + min n buffered
  | .seek (.start p), .pos q, o' => p ≤ F.length ∧ q = p ∧ o' = p
  | .seek (.start p), .err e, o' =>
      ((F.length < p ∨ (p = F.length ∧ ¬ endOk)) ∧ (e = .invalidInput ∨ e = .invalidData)) ∧
      o' ≤ F.length
  | .seek (.current _), .panic, o' => o' = o
  | .seek (.end _), .panic, o' => o' = o
  | .streamPosition, .panic, o' => o' = o
  | .position, .pos _, o' => o' = o
  | .vpos, .vpos _ _, o' => o' = o
  | _, _, _ => False

/-- the whole transcript of `ops` from state `s` is one that a `Cursor` over `flat L` may produce:
before and after every operation the reported virtual position names a flat offset, and the answer
is accepted by the cursor standing there. -/
def Refines (L : Layout α) (g : Gzi) : R α → List IOp → Prop
  | _, [] => True
  | s, op :: ops =>
    (∃ o o', cursor L s = some o ∧ cursor L (istep L g s op).1 = some o' ∧
      accepts (flat L) (EndOk L) o (s.data.length - s.cur) op (istep L g s op).2 o') ∧
    Refines L g (istep L g s op).1 ops

/-- `std::io::Cursor<&[u8]>` as a FUNCTION, for the operations whose answer is determined:
`read_exact` (std: on failure the cursor moves to the end) and `seek(Start(p))` within the data. -/
def cursorStep (F : List α) (o : Nat) : IOp → Option (Nat × IOut α)
  | .readExact n =>
    if o + n ≤ F.length then some (o + n, .bytes ((F.drop o).take n)) else some (F.length, .err .eof)
  | .seek (.start p) => if p ≤ F.length then some (p, .pos p) else none
  | _ => none

def cursorRun (F : List α) : Nat → List IOp → Option (List (IOut α))
  | _, [] => some []
  | o, op :: ops =>
    match cursorStep F o op with
    | none => none
    | some (o', out) => (cursorRun F o' ops).map (out :: ·)

end Noodles.Bgzf.IR
