import Noodles.Bgzf.ChunkRead
import Noodles.Bgzf.ReaderProof
/-!
# Chunks observed by the indexing pass serve exactly their records (C04 on top of C02)

Proofs for `Noodles.Bgzf.ChunkRead`: strictness of the virtual-position order on resolvable
positions, canonical `tell` after a successful non-empty `readExact`, characterisation of the
indexing pass, and the main theorem `serveChunk_records`.
-/
namespace Noodles.Bgzf.ChunkRead
open Noodles.Bgzf.RM

variable {α : Type}

/-! ## order on virtual positions -/

theorem vlt_irrefl (a : VPos) : vlt a a = false := by
  unfold vlt; simp

/-- what a resolvable virtual position looks like -/
theorem resolve_some (L : Layout α) (c u o : Nat) (h : resolve L c u = some o) :
    ∃ k, k ≤ L.length ∧ coff L k = c ∧ o = uoff L k + u ∧ uoff L k + u ≤ uoff L (k+1) := by
  unfold resolve at h
  cases hm : memberAt L c with
  | none => rw [hm] at h; simp at h
  | some k =>
    rw [hm] at h; simp only at h
    obtain ⟨hk, hc⟩ := memberAt_some L c k hm
    refine ⟨k, hk, hc, ?_⟩
    cases hb : L[k]? with
    | none =>
      rw [hb] at h; simp only at h
      split at h
      · rename_i hu; subst hu; simp at h
        have := uoff_mono_succ L k; omega
      · cases h
    | some b =>
      rw [hb] at h; simp only at h
      split at h
      · rename_i hu; simp at h; rw [uoff_succ L k b hb]; omega
      · cases h

/-- STRICTNESS: on positions that name byte boundaries, the flat order implies the
`VirtualPosition` order (empty members anywhere do not break it). -/
theorem resolve_lt_vlt (L : Layout α) (hL : WF L) (a b : VPos) (x y : Nat)
    (ha : resolve L a.1 a.2 = some x) (hb : resolve L b.1 b.2 = some y) (hxy : x < y) :
    vlt a b = true := by
  obtain ⟨k1, hk1, hc1, hx, hx'⟩ := resolve_some L _ _ _ ha
  obtain ⟨k2, hk2, hc2, hy, hy'⟩ := resolve_some L _ _ _ hb
  unfold vlt
  rw [decide_eq_true_iff]
  rcases Nat.lt_trichotomy k1 k2 with h | h | h
  · left; rw [← hc1, ← hc2]; exact coff_strict L hL h hk2
  · subst h; right; exact ⟨by rw [← hc1, ← hc2], by omega⟩
  · exfalso
    have := uoff_mono L (show k2 + 1 ≤ k1 by omega)
    omega

/-! ## canonical tell -/

theorem inv_real_of_cur_pos (L : Layout α) (s : R α) (hi : Inv L s) (hc : 0 < s.cur) :
    ∃ k b, s.next = k+1 ∧ L[k]? = some b ∧ s.bpos = coff L k ∧ s.bsize = b.csize ∧
      s.data = b.data := by
  rcases hi.blk with h | h
  · exact h
  · have := hi.curLe; rw [h] at this; simp at this; omega

/-- CANONICAL TELL: two consistent states with a positive in-block cursor that name the same flat
offset report the same virtual position. -/
theorem tell_canonical (L : Layout α) (s1 s2 : R α) (h1 : Inv L s1) (h2 : Inv L s2)
    (c1 : 0 < s1.cur) (c2 : 0 < s2.cur) (ho : off L s1 = off L s2) : tell s1 = tell s2 := by
  obtain ⟨k1, b1, n1, e1, p1, z1, d1⟩ := inv_real_of_cur_pos L s1 h1 c1
  obtain ⟨k2, b2, n2, e2, p2, z2, d2⟩ := inv_real_of_cur_pos L s2 h2 c2
  rw [off_real L s1 k1 b1 n1 e1 d1 h1.curLe, off_real L s2 k2 b2 n2 e2 d2 h2.curLe] at ho
  have l1 := h1.curLe; rw [d1] at l1
  have l2 := h2.curLe; rw [d2] at l2
  have u1 := uoff_succ L k1 b1 e1
  have u2 := uoff_succ L k2 b2 e2
  have hk : k1 = k2 := by
    rcases Nat.lt_trichotomy k1 k2 with h | h | h
    · have := uoff_mono L (show k1+1 ≤ k2 by omega); omega
    · exact h
    · have := uoff_mono L (show k2+1 ≤ k1 by omega); omega
  subst hk
  rw [e1] at e2; cases e2
  have hc : s1.cur = s2.cur := by omega
  unfold tell hasRemaining
  rw [p1, p2, z1, z2, d1, d2, hc]

/-! ## a successful non-empty `readExact` leaves a positive in-block cursor -/

theorem read_cur_pos (L : Layout α) (s : R α) (n : Nat) (hi : Inv L s)
    (hg : (read L s n).2 ≠ []) : 0 < (read L s n).1.cur := by
  have e := read_eq L s n
  by_cases hc : (!hasRemaining s && decide (n ≥ MAX_ISIZE)) = true
  · rw [if_pos hc] at e
    rw [e] at hg ⊢
    simp only at hg ⊢
    exact List.length_pos_iff.mpr hg
  · rw [if_neg hc] at e
    rw [e] at hg ⊢
    simp only at hg ⊢
    obtain ⟨_, _, h3, _, _⟩ := fillBuf_spec L s hi
    have hlen : (fillBuf L s).2.length = (fillBuf L s).1.data.length - (fillBuf L s).1.cur := by
      rw [h3]; simp
    have hpos : 0 < min n (fillBuf L s).2.length := by
      rcases Nat.eq_zero_or_pos (min n (fillBuf L s).2.length) with h | h
      · rw [h] at hg; simp at hg
      · exact h
    simp only [consume]
    omega

theorem readExactLoop_cur_pos (L : Layout α) (hL : WF L) :
    ∀ (fuel : Nat) (s : R α) (n : Nat) (acc bytes : List α), Inv L s → (n = 0 → 0 < s.cur) →
    (readExactLoop L fuel s n acc).2 = .ok bytes →
    0 < (readExactLoop L fuel s n acc).1.cur := by
  intro fuel
  induction fuel with
  | zero => intro s n acc bytes _ _ h; simp [readExactLoop] at h
  | succ fuel ih =>
    intro s n acc bytes hi h0 h
    by_cases hn0 : n = 0
    · subst hn0
      have e : readExactLoop L (fuel+1) s 0 acc = (s, .ok acc) := by simp [readExactLoop]
      rw [e]; exact h0 rfl
    · by_cases hg : (read L s n).2 = []
      · have e : readExactLoop L (fuel+1) s n acc = ((read L s n).1, .error .eof) := by
          simp [readExactLoop, hn0, hg]
        rw [e] at h; cases h
      · have e : readExactLoop L (fuel+1) s n acc =
            readExactLoop L fuel (read L s n).1 (n - (read L s n).2.length)
              (acc ++ (read L s n).2) := by
          simp [readExactLoop, hn0, hg]
        rw [e] at h ⊢
        exact ih _ _ _ bytes (read_spec L hL s n hi).1 (fun _ => read_cur_pos L s n hi hg) h

/-- POSITIVE CURSOR -/
theorem readExact_cur_pos (L : Layout α) (hL : WF L) (s : R α) (n : Nat) (bytes : List α)
    (hi : Inv L s) (hn : 0 < n) (h : (readExact L s n).2 = .ok bytes) :
    0 < (readExact L s n).1.cur := by
  unfold readExact at h ⊢
  by_cases hc : n ≤ (s.data.drop s.cur).length
  · rw [if_pos hc]
    simp only [List.length_drop] at hc
    simp only [consume]
    omega
  · rw [if_neg hc] at h ⊢
    exact readExactLoop_cur_pos L hL _ _ _ _ bytes hi (by omega) h

/-! ## the indexing pass -/

/-- the reader state after the first `m` records were read -/
def stateAfter (L : Layout α) : R α → List Nat → Nat → R α
  | s, _, 0 => s
  | s, [], _+1 => s
  | s, len :: rest, m+1 => stateAfter L (readExact L s len).1 rest m

theorem scanTells_getD (L : Layout α) (s : R α) (lens : List Nat) (m : Nat) (d : VPos)
    (hm : m ≤ lens.length) : (scanTells L s lens).getD m d = tell (stateAfter L s lens m) := by
  induction lens generalizing s m with
  | nil =>
    have : m = 0 := by simpa using hm
    subst this; simp [scanTells, stateAfter]
  | cons len rest ih =>
    cases m with
    | zero => simp [scanTells, stateAfter]
    | succ m =>
      simp only [scanTells, stateAfter, List.getD_cons_succ]
      exact ih _ m (by simpa using hm)

theorem stateAfter_spec (L : Layout α) (hL : WF L) (s : R α) (lens : List Nat) (m : Nat)
    (hpos : ∀ n ∈ lens, 0 < n) (hi : Inv L s) (hfit : off L s + lens.sum ≤ (flat L).length)
    (hm : m ≤ lens.length) :
    Inv L (stateAfter L s lens m) ∧ off L (stateAfter L s lens m) = off L s + (lens.take m).sum ∧
    (0 < m → 0 < (stateAfter L s lens m).cur) := by
  induction lens generalizing s m with
  | nil =>
    have : m = 0 := by simpa using hm
    subst this
    exact ⟨hi, by simp [stateAfter], fun h => absurd h (Nat.lt_irrefl 0)⟩
  | cons len rest ih =>
    cases m with
    | zero => exact ⟨hi, by simp [stateAfter], fun h => absurd h (Nat.lt_irrefl 0)⟩
    | succ m =>
      simp only [stateAfter, List.take_succ_cons, List.sum_cons]
      simp only [List.sum_cons] at hfit
      obtain ⟨r1, _, r3, _⟩ := readExact_spec L hL s len hi
      obtain ⟨r3a, r3b⟩ := r3 (by omega)
      have hlen : 0 < len := hpos len (by simp)
      have hcur := readExact_cur_pos L hL s len _ hi hlen r3a
      obtain ⟨i1, i2, i3⟩ := ih (readExact L s len).1 m
        (fun n hn => hpos n (by simp [hn])) r1 (by omega) (by simpa using hm)
      refine ⟨i1, by rw [i2, r3b]; omega, fun _ => ?_⟩
      cases m with
      | zero => simpa [stateAfter] using hcur
      | succ m => exact i3 (by omega)

/-! ## the read loop -/

theorem readUntil_cons_ok (L : Layout α) (cend : VPos) (s : R α) (len : Nat) (rest : List Nat)
    (bytes : List α) (h1 : vlt (tell s) cend = true) (h2 : (readExact L s len).2 = .ok bytes) :
    readUntil L cend s (len :: rest) =
      ((readUntil L cend (readExact L s len).1 rest).1,
        bytes :: (readUntil L cend (readExact L s len).1 rest).2) := by
  generalize hr : readExact L s len = r at h2
  obtain ⟨s', res⟩ := r
  simp only at h2
  subst h2
  simp only [readUntil, h1, if_true, hr]

theorem readUntil_cons_stop (L : Layout α) (cend : VPos) (s : R α) (len : Nat) (rest : List Nat)
    (h1 : vlt (tell s) cend = false) : readUntil L cend s (len :: rest) = (s, []) := by
  simp [readUntil, h1]

/-- the loop reads exactly `c` records when the end position is the canonical tell of the flat
offset `c` records ahead -/
theorem readUntil_spec (L : Layout α) (hL : WF L) (sk : R α) (hik : Inv L sk) (hck : 0 < sk.cur)
    (lens : List Nat) (s : R α) (c : Nat)
    (hpos : ∀ n ∈ lens, 0 < n) (hi : Inv L s) (hc : c ≤ lens.length)
    (he : off L s + (lens.take c).sum = off L sk) (h0 : c = 0 → 0 < s.cur) :
    Inv L (readUntil L (tell sk) s lens).1 ∧
    (readUntil L (tell sk) s lens).2 = (List.range c).map fun i =>
      ((flat L).drop (off L s + (lens.take i).sum)).take (lens.getD i 0) := by
  induction lens generalizing s c with
  | nil =>
    have : c = 0 := by simpa using hc
    subst this
    simp [readUntil, hi]
  | cons len rest ih =>
    cases c with
    | zero =>
      have ht : tell s = tell sk := tell_canonical L s sk hi hik (h0 rfl) hck (by simpa using he)
      rw [readUntil_cons_stop L _ s len rest (by rw [ht]; exact vlt_irrefl _)]
      simp [hi]
    | succ c =>
      have hlen : 0 < len := hpos len (by simp)
      simp only [List.take_succ_cons, List.sum_cons] at he
      have hv : vlt (tell s) (tell sk) = true :=
        resolve_lt_vlt L hL _ _ (off L s) (off L sk) (cursor_of_inv L hL s hi)
          (cursor_of_inv L hL sk hik) (by omega)
      obtain ⟨r1, _, r3, _⟩ := readExact_spec L hL s len hi
      have hk := off_le L sk
      obtain ⟨r3a, r3b⟩ := r3 (by omega)
      have hcur := readExact_cur_pos L hL s len _ hi hlen r3a
      rw [readUntil_cons_ok L _ s len rest _ hv r3a]
      obtain ⟨i1, i2⟩ := ih (readExact L s len).1 c (fun n hn => hpos n (by simp [hn])) r1
        (by simpa using hc) (by rw [r3b]; omega) (fun _ => hcur)
      refine ⟨i1, ?_⟩
      simp only
      rw [i2, List.range_succ_eq_map, List.map_cons, List.map_map, r3b]
      simp [Function.comp_def, Nat.add_assoc]

/-! ## serving a chunk -/

theorem bnd_drop (hdr : Nat) (lens : List Nat) (j i : Nat) :
    bnd hdr lens j + ((lens.drop j).take i).sum = bnd hdr lens (j + i) := by
  unfold bnd; rw [List.take_add, List.sum_append]; omega

theorem getD_drop (lens : List Nat) (j i : Nat) :
    (lens.drop j).getD i 0 = lens.getD (j + i) 0 := by
  simp [List.getD_eq_getElem?_getD]

theorem serveChunk_of_seek (L : Layout α) (s : R α) (cs ce : VPos) (lens : List Nat)
    (h : (seek L s cs.1 cs.2).2 = none) :
    serveChunk L s cs ce lens =
      ((readUntil L ce (seek L s cs.1 cs.2).1 lens).1,
        some (readUntil L ce (seek L s cs.1 cs.2).1 lens).2) := by
  unfold serveChunk
  generalize seek L s cs.1 cs.2 = r at h
  obtain ⟨s', e⟩ := r
  simp only at h
  subst h
  rfl

/-- the observed positions name the record boundaries (for ANY consistent scan start state) -/
theorem scanTells_resolve_inv (L : Layout α) (hL : WF L) (lens : List Nat)
    (hpos : ∀ n ∈ lens, 0 < n) (s0 : R α) (hi0 : Inv L s0)
    (hfit : off L s0 + lens.sum ≤ (flat L).length) (m : Nat) (hm : m ≤ lens.length) :
    resolve L ((scanTells L s0 lens).getD m (0,0)).1 ((scanTells L s0 lens).getD m (0,0)).2
      = some (bnd (off L s0) lens m) := by
  rw [scanTells_getD L s0 lens m _ hm]
  obtain ⟨i1, i2, _⟩ := stateAfter_spec L hL s0 lens m hpos hi0 hfit hm
  have := cursor_of_inv L hL _ i1
  unfold cursor at this
  rw [this, i2]; rfl

/-- general form over arbitrary consistent states -/
theorem serveChunk_spec (L : Layout α) (hL : WF L) (lens : List Nat)
    (hpos : ∀ n ∈ lens, 0 < n) (s0 : R α) (hi0 : Inv L s0)
    (hfit : off L s0 + lens.sum ≤ (flat L).length) (s1 : R α)
    (j k : Nat) (hjk : j < k) (hk : k ≤ lens.length) :
    Inv L (serveChunk L s1 ((scanTells L s0 lens).getD j (0,0))
        ((scanTells L s0 lens).getD k (0,0)) (lens.drop j)).1 ∧
    (serveChunk L s1 ((scanTells L s0 lens).getD j (0,0))
        ((scanTells L s0 lens).getD k (0,0)) (lens.drop j)).2
      = some ((List.range (k - j)).map fun i => recBytes L (off L s0) lens (j + i)) := by
  have hres := scanTells_resolve_inv L hL lens hpos s0 hi0 hfit j (by omega)
  obtain ⟨q1, q2, q3⟩ := seek_resolve L s1 _ _ _ hres
  rw [serveChunk_of_seek L s1 _ _ _ q1]
  rw [scanTells_getD L s0 lens k _ hk]
  obtain ⟨k1, k2, k3⟩ := stateAfter_spec L hL s0 lens k hpos hi0 hfit hk
  obtain ⟨u1, u2⟩ := readUntil_spec L hL (stateAfter L s0 lens k) k1 (k3 (by omega))
    (lens.drop j) _ (k - j) (fun n hn => hpos n (List.mem_of_mem_drop hn)) q2
    (by simp; omega)
    (by rw [q3, bnd_drop, k2, show j + (k - j) = k by omega]; rfl) (by omega)
  refine ⟨u1, ?_⟩
  simp only
  rw [u2, q3]
  congr 1
  apply List.map_congr_left
  intro i _
  unfold recBytes
  rw [bnd_drop, getD_drop]

/-- a chunk `[o_j, o_k)` whose endpoints were observed by the indexing pass serves exactly records j..k-1 -/
theorem serveChunk_records (L : Layout α) (hL : WF L) (hdr : Nat) (lens : List Nat)
    (hpos : ∀ n ∈ lens, 0 < n) (hfit : hdr + lens.sum ≤ (flat L).length)
    (ops0 : List Op) (h0 : cursor L (runOps L ops0) = some hdr)
    (ops1 : List Op)
    (j k : Nat) (hjk : j < k) (hk : k ≤ lens.length) :
    (serveChunk L (runOps L ops1) ((scanTells L (runOps L ops0) lens).getD j (0,0))
        ((scanTells L (runOps L ops0) lens).getD k (0,0)) (lens.drop j)).2
      = some ((List.range (k - j)).map fun i => recBytes L hdr lens (j + i)) := by
  have hi0 := runOps_inv L hL ops0
  have ho := cursor_eq L hL _ hi0 hdr h0
  have := (serveChunk_spec L hL lens hpos _ hi0 (by rw [ho]; exact hfit) (runOps L ops1)
    j k hjk hk).2
  rw [ho] at this
  exact this

/-- the state after serving a chunk is again a consistent reader state (so the next chunk can be
served from it: `serveChunk_spec` applies to it) -/
theorem serveChunk_records_state (L : Layout α) (hL : WF L) (hdr : Nat) (lens : List Nat)
    (hpos : ∀ n ∈ lens, 0 < n) (hfit : hdr + lens.sum ≤ (flat L).length)
    (ops0 : List Op) (h0 : cursor L (runOps L ops0) = some hdr)
    (ops1 : List Op)
    (j k : Nat) (hjk : j < k) (hk : k ≤ lens.length) :
    Inv L (serveChunk L (runOps L ops1) ((scanTells L (runOps L ops0) lens).getD j (0,0))
        ((scanTells L (runOps L ops0) lens).getD k (0,0)) (lens.drop j)).1 := by
  have hi0 := runOps_inv L hL ops0
  have ho := cursor_eq L hL _ hi0 hdr h0
  exact (serveChunk_spec L hL lens hpos _ hi0 (by rw [ho]; exact hfit) (runOps L ops1)
    j k hjk hk).1

/-- the observed chunk endpoints name the record boundaries -/
theorem scanTells_resolve (L : Layout α) (hL : WF L) (hdr : Nat) (lens : List Nat)
    (hpos : ∀ n ∈ lens, 0 < n) (hfit : hdr + lens.sum ≤ (flat L).length)
    (ops0 : List Op) (h0 : cursor L (runOps L ops0) = some hdr)
    (m : Nat) (hm : m ≤ lens.length) :
    resolve L ((scanTells L (runOps L ops0) lens).getD m (0,0)).1
        ((scanTells L (runOps L ops0) lens).getD m (0,0)).2 = some (bnd hdr lens m) := by
  have hi0 := runOps_inv L hL ops0
  have ho := cursor_eq L hL _ hi0 hdr h0
  have := scanTells_resolve_inv L hL lens hpos _ hi0 (by rw [ho]; exact hfit) m hm
  rw [ho] at this
  exact this

/-! ## non-vacuity: a concrete layout with an EMPTY member in the middle

flat stream `10 11 12 13 14 | (empty) | 15 16 17 18`, one header byte, records of lengths
`[2,2,3,1]`: record 1 = `[13,14]` ends exactly at the end of member 0 (its end is observed as
`(35,0)`, the start of the EMPTY member, while a fresh seek to that byte stands at `(63,0)`),
record 2 = `[15,16,17]` lies behind the empty member. With lengths `[2,1,3,2]` record 2 =
`[14,15,16]` spans the member boundary and the empty member. The hypotheses of
`serveChunk_records` are discharged for this instance and its right-hand side is evaluated
(`readBlock` is defined by well-founded recursion, so the left-hand side is not evaluated by
`decide` directly but through the theorem). -/

def exLayout : Layout Nat := [⟨35, [10,11,12,13,14]⟩, ⟨28, []⟩, ⟨31, [15,16,17,18]⟩]

theorem exLayout_wf : WF exLayout := by
  intro b hb; simp [exLayout] at hb; rcases hb with rfl | rfl | rfl <;> simp [MAX_ISIZE]

/-- the indexing pass starts after a 1-byte header -/
theorem exLayout_start : cursor exLayout (runOps exLayout [.readExact 1]) = some 1 := by
  have hi : Inv exLayout (R.init : R Nat) := inv_init exLayout
  obtain ⟨r1, _, r3, _⟩ := readExact_spec exLayout exLayout_wf R.init 1 hi
  have e : runOps exLayout [.readExact 1] = (readExact exLayout R.init 1).1 := by
    simp only [runOps, List.foldl]; exact step_readExact_fst exLayout _ 1
  rw [e, cursor_of_inv exLayout exLayout_wf _ r1, (r3 (by rw [off_init]; decide)).2, off_init]

example :
    (serveChunk exLayout (runOps exLayout [.read 100, .seek 63 2])
        ((scanTells exLayout (runOps exLayout [.readExact 1]) [2,2,3,1]).getD 1 (0,0))
        ((scanTells exLayout (runOps exLayout [.readExact 1]) [2,2,3,1]).getD 3 (0,0))
        ([2,2,3,1].drop 1)).2
      = some [[13,14],[15,16,17]] := by
  rw [serveChunk_records exLayout exLayout_wf 1 [2,2,3,1] (by decide) (by decide) [.readExact 1]
    exLayout_start [.read 100, .seek 63 2] 1 3 (by decide) (by decide)]
  decide

example :
    (serveChunk exLayout (runOps exLayout [])
        ((scanTells exLayout (runOps exLayout [.readExact 1]) [2,1,3,2]).getD 1 (0,0))
        ((scanTells exLayout (runOps exLayout [.readExact 1]) [2,1,3,2]).getD 3 (0,0))
        ([2,1,3,2].drop 1)).2
      = some [[13],[14,15,16]] := by
  rw [serveChunk_records exLayout exLayout_wf 1 [2,1,3,2] (by decide) (by decide) [.readExact 1]
    exLayout_start [] 1 3 (by decide) (by decide)]
  decide

end Noodles.Bgzf.ChunkRead
