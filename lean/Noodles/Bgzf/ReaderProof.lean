import Noodles.Bgzf.ReaderModel
/-! Helper lemmas for the C02 theorems (invariant `Inv`, refinement of each operation). -/
namespace Noodles.Bgzf.RM

variable {α : Type}

/-! ## offsets -/

theorem coff_zero (L : Layout α) : coff L 0 = 0 := by simp [coff]
theorem uoff_zero (L : Layout α) : uoff L 0 = 0 := by simp [uoff]

theorem coff_succ (L : Layout α) (k : Nat) (b : Blk α) (h : L[k]? = some b) :
    coff L (k+1) = coff L k + b.csize := by
  unfold coff
  rw [List.take_add_one, h]; simp

theorem uoff_succ (L : Layout α) (k : Nat) (b : Blk α) (h : L[k]? = some b) :
    uoff L (k+1) = uoff L k + b.data.length := by
  unfold uoff
  rw [List.take_add_one, h]; simp

theorem getElem?_none_le (L : Layout α) (k : Nat) (h : L[k]? = none) : L.length ≤ k := by
  rcases Nat.lt_or_ge k L.length with h' | h'
  · have := List.getElem?_eq_getElem h'; rw [h] at this; cases this
  · exact h'

theorem getElem?_some_lt (L : Layout α) (k : Nat) (b : Blk α) (h : L[k]? = some b) :
    k < L.length := (List.getElem?_eq_some_iff.mp h).1

theorem getElem?_mem (L : Layout α) (k : Nat) (b : Blk α) (h : L[k]? = some b) : b ∈ L :=
  List.mem_of_getElem? h

theorem flat_drop_uoff (L : Layout α) (k : Nat) :
    (flat L).drop (uoff L k) = ((L.drop k).map (·.data)).flatten := by
  induction L generalizing k with
  | nil => simp [flat, uoff]
  | cons b L ih =>
    cases k with
    | zero => simp [flat, uoff]
    | succ k =>
      have : uoff (b :: L) (k+1) = b.data.length + uoff L k := by simp [uoff]
      rw [this]
      simp only [flat, List.map_cons, List.flatten_cons, List.drop_succ_cons]
      rw [← List.drop_drop, List.drop_left]
      exact ih k

theorem drop_eq_cons (L : Layout α) (k : Nat) (b : Blk α) (hb : L[k]? = some b) :
    L.drop k = b :: L.drop (k+1) := by
  have hk := (List.getElem?_eq_some_iff.mp hb)
  rw [List.drop_eq_getElem_cons hk.1, hk.2]

theorem flat_drop_at (L : Layout α) (k : Nat) (b : Blk α) (cur : Nat) (hb : L[k]? = some b)
    (h : cur ≤ b.data.length) :
    (flat L).drop (uoff L k + cur) = b.data.drop cur ++ ((L.drop (k+1)).map (·.data)).flatten := by
  rw [← List.drop_drop, flat_drop_uoff, drop_eq_cons L k b hb]
  simp only [List.map_cons, List.flatten_cons]
  rw [List.drop_append_of_le_length h]

theorem flat_length (L : Layout α) : (flat L).length = uoff L L.length := by
  induction L with
  | nil => simp [flat, uoff]
  | cons b L ih => simp [flat, uoff] at *; omega

theorem uoff_of_ge (L : Layout α) (k : Nat) (h : L.length ≤ k) : uoff L k = uoff L L.length := by
  unfold uoff; rw [List.take_of_length_le h, List.take_length]

theorem uoff_mono_succ (L : Layout α) (k : Nat) : uoff L k ≤ uoff L (k+1) := by
  cases h : L[k]? with
  | none =>
    have := getElem?_none_le L k h
    rw [uoff_of_ge L k this, uoff_of_ge L (k+1) (by omega)]; exact Nat.le_refl _
  | some b => rw [uoff_succ L k b h]; omega

theorem uoff_mono (L : Layout α) {j k : Nat} (h : j ≤ k) : uoff L j ≤ uoff L k := by
  induction k with
  | zero => have : j = 0 := by omega
            subst this; exact Nat.le_refl _
  | succ k ih =>
    rcases Nat.lt_or_ge j (k+1) with h' | h'
    · exact Nat.le_trans (ih (by omega)) (uoff_mono_succ L k)
    · have : j = k+1 := by omega
      subst this; exact Nat.le_refl _

theorem uoff_le_flat (L : Layout α) (k : Nat) : uoff L k ≤ (flat L).length := by
  rw [flat_length]
  rcases Nat.le_total k L.length with h | h
  · exact uoff_mono L h
  · rw [uoff_of_ge L k h]; exact Nat.le_refl _

theorem coff_lt_succ (L : Layout α) (hL : WF L) (k : Nat) (hk : k < L.length) :
    coff L k < coff L (k+1) := by
  have hb : L[k]? = some L[k] := List.getElem?_eq_getElem hk
  rw [coff_succ L k _ hb]
  have := (hL _ (getElem?_mem L k _ hb)).1
  omega

theorem coff_strict (L : Layout α) (hL : WF L) {j k : Nat} (h : j < k) (hk : k ≤ L.length) :
    coff L j < coff L k := by
  induction k with
  | zero => omega
  | succ k ih =>
    have h1 := coff_lt_succ L hL k (by omega)
    rcases Nat.lt_or_ge j k with h' | h'
    · exact Nat.lt_trans (ih h' (by omega)) h1
    · have : j = k := by omega
      subst this; exact h1

theorem coff_inj (L : Layout α) (hL : WF L) {j k : Nat} (hj : j ≤ L.length) (hk : k ≤ L.length)
    (h : coff L j = coff L k) : j = k := by
  rcases Nat.lt_trichotomy j k with h' | h' | h'
  · have := coff_strict L hL h' hk; omega
  · exact h'
  · have := coff_strict L hL h' hj; omega

/-! ## memberAt -/

theorem memberAt_some (L : Layout α) (c k : Nat) (h : memberAt L c = some k) :
    k ≤ L.length ∧ coff L k = c := by
  unfold memberAt at h
  have h1 := List.find?_some h
  have h2 := List.mem_of_find?_eq_some h
  simp at h1 h2
  exact ⟨by omega, h1⟩

theorem memberAt_coff (L : Layout α) (hL : WF L) (k : Nat) (hk : k ≤ L.length) :
    memberAt L (coff L k) = some k := by
  cases h : memberAt L (coff L k) with
  | none =>
    unfold memberAt at h
    rw [List.find?_eq_none] at h
    have := h k (by simp; omega)
    simp at this
  | some j =>
    obtain ⟨h1, h2⟩ := memberAt_some L _ j h
    rw [coff_inj L hL h1 hk h2]

/-! ## the invariant -/

structure Inv (L : Layout α) (s : R α) : Prop where
  pos : s.position = coff L s.next
  nextLe : s.next ≤ L.length
  curLe : s.cur ≤ s.data.length
  bend : s.bpos + s.bsize = s.position
  blk : (∃ k b, s.next = k+1 ∧ L[k]? = some b ∧ s.bpos = coff L k ∧ s.bsize = b.csize ∧
          s.data = b.data) ∨ s.data = []

/-- flat offset named by a state -/
def off (L : Layout α) (s : R α) : Nat := uoff L s.next - (s.data.length - s.cur)

theorem inv_init (L : Layout α) : Inv L (R.init : R α) := by
  refine ⟨by simp [R.init, coff], by simp [R.init], by simp [R.init], by simp [R.init], Or.inr ?_⟩
  simp [R.init]

theorem off_init (L : Layout α) : off L (R.init : R α) = 0 := by simp [off, R.init, uoff]

theorem off_le (L : Layout α) (s : R α) : off L s ≤ (flat L).length := by
  have := uoff_le_flat L s.next
  unfold off; omega

/-- in a real block, `off = uoff k + cur` -/
theorem off_real (L : Layout α) (s : R α) (k : Nat) (b : Blk α) (hn : s.next = k+1)
    (hb : L[k]? = some b) (hd : s.data = b.data) (hc : s.cur ≤ s.data.length) :
    off L s = uoff L k + s.cur := by
  unfold off; rw [hn, uoff_succ L k b hb, ← hd]; omega

theorem off_exhausted (L : Layout α) (s : R α) (hc : s.data.length ≤ s.cur) :
    off L s = uoff L s.next := by
  unfold off; omega

theorem inv_rest (L : Layout α) (s : R α) (hi : Inv L s) :
    (flat L).drop (off L s) = s.data.drop s.cur ++ ((L.drop s.next).map (·.data)).flatten := by
  rcases hi.blk with ⟨k, b, hn, hb, _, _, hd⟩ | hnil
  · rw [off_real L s k b hn hb hd hi.curLe, hn, hd]
    apply flat_drop_at L k b s.cur hb
    rw [← hd]; exact hi.curLe
  · rw [off_exhausted L s (by simp [hnil]), hnil, flat_drop_uoff]; simp

theorem inv_remaining_le (L : Layout α) (s : R α) (hi : Inv L s) :
    off L s + (s.data.length - s.cur) ≤ (flat L).length := by
  have h := congrArg List.length (inv_rest L s hi)
  simp at h
  have := off_le L s
  omega

theorem cursor_of_inv (L : Layout α) (hL : WF L) (s : R α) (hi : Inv L s) :
    cursor L s = some (off L s) := by
  unfold cursor tell hasRemaining
  by_cases hr : s.cur < s.data.length
  · simp only [hr, decide_true, if_true]
    rcases hi.blk with ⟨k, b, hn, hb, hbp, _, hd⟩ | hnil
    · have hk := getElem?_some_lt L k b hb
      unfold resolve
      rw [hbp, memberAt_coff L hL k (by omega)]
      simp only [hb]
      rw [off_real L s k b hn hb hd hi.curLe]
      rw [hd] at hr
      simp; omega
    · rw [hnil] at hr; simp at hr
  · simp only [hr, decide_false]
    have hex : off L s = uoff L s.next := off_exhausted L s (by omega)
    unfold resolve
    simp only [Bool.false_eq_true, if_false]
    rw [hi.bend, hi.pos, memberAt_coff L hL s.next hi.nextLe, hex]
    cases h : L[s.next]? with
    | none => simp [h]
    | some b => simp [h]

/-! ## readBlock -/

theorem readBlock_spec (L : Layout α) (s : R α) (hp : s.position = coff L s.next)
    (hn : s.next ≤ L.length) :
    Inv L (readBlock L s) ∧ (readBlock L s).cur = 0 ∧ off L (readBlock L s) = uoff L s.next ∧
    ((readBlock L s).data ≠ [] ∨ uoff L s.next = (flat L).length) ∧
    s.position ≤ (readBlock L s).bpos := by
  fun_induction readBlock L s with
  | case1 s hnone =>
    have hlen := getElem?_none_le L s.next hnone
    refine ⟨⟨hp, hn, by simp, by simp, Or.inr rfl⟩, rfl, ?_, Or.inr ?_, Nat.le_refl _⟩
    · simp [off]
    · rw [flat_length, uoff_of_ge L _ hlen]
  | case2 s b hb s' hpos =>
    have hcoff := coff_succ L s.next b hb
    have huoff := uoff_succ L s.next b hb
    have hlt := getElem?_some_lt L s.next b hb
    refine ⟨⟨?_, ?_, ?_, rfl, Or.inl ⟨s.next, b, rfl, hb, hp, rfl, rfl⟩⟩, rfl, ?_, Or.inl ?_,
      Nat.le_refl _⟩
    · simp only [s']; rw [hcoff, hp]
    · simp only [s']; omega
    · simp [s']
    · simp only [off, s']; rw [huoff]; omega
    · simp only [s']; intro h; rw [h] at hpos; simp at hpos
  | case3 s b hb s' hnpos ih =>
    have hcoff := coff_succ L s.next b hb
    have huoff := uoff_succ L s.next b hb
    have hlt := getElem?_some_lt L s.next b hb
    have hlen0 : b.data.length = 0 := by omega
    have hp' : s'.position = coff L s'.next := by simp only [s']; rw [hcoff, hp]
    have hn' : s'.next ≤ L.length := by simp only [s']; omega
    obtain ⟨h1, h2, h3, h4, h5⟩ := ih hp' hn'
    have e : uoff L s'.next = uoff L s.next := by simp only [s']; rw [huoff]; omega
    refine ⟨h1, h2, ?_, ?_, ?_⟩
    · rw [h3, e]
    · rw [← e]; exact h4
    · have : s'.position = s.position + b.csize := rfl
      omega

theorem readBlock_data_len (L : Layout α) (s : R α) (b : Blk α) (hb : L[s.next]? = some b)
    (u : Nat) (hu : u ≤ b.data.length) : u ≤ (readBlock L s).data.length := by
  fun_induction readBlock L s with
  | case1 s hnone => rw [hnone] at hb; cases hb
  | case2 s b' hb' s' hpos =>
    rw [hb'] at hb; cases hb
    exact hu
  | case3 s b' hb' s' hnpos ih =>
    rw [hb'] at hb; cases hb
    omega

/-! ## order on reported positions -/

def VLe (a b : Nat × Nat) : Prop := a.1 < b.1 ∨ (a.1 = b.1 ∧ a.2 ≤ b.2)

theorem VLe.refl (a : Nat × Nat) : VLe a a := Or.inr ⟨rfl, Nat.le_refl _⟩

theorem VLe.trans {a b c : Nat × Nat} (h1 : VLe a b) (h2 : VLe b c) : VLe a c := by
  unfold VLe at *; omega

/-! ## moving the cursor inside the block -/

theorem inv_data_le (L : Layout α) (s : R α) (hi : Inv L s) : s.data.length ≤ uoff L s.next := by
  rcases hi.blk with ⟨k, b, hn, hb, _, _, hd⟩ | hnil
  · rw [hn, uoff_succ L k b hb, hd]; omega
  · simp [hnil]

theorem inv_buf (L : Layout α) (s : R α) (hi : Inv L s) :
    s.data.drop s.cur = ((flat L).drop (off L s)).take (s.data.length - s.cur) := by
  rw [inv_rest L s hi, List.take_append_of_le_length (by simp), List.take_of_length_le (by simp)]

theorem setCur_inv (L : Layout α) (s : R α) (u : Nat) (hi : Inv L s) (hu : u ≤ s.data.length) :
    Inv L { s with cur := u } :=
  ⟨hi.pos, hi.nextLe, hu, hi.bend, hi.blk⟩

theorem setCur_off (L : Layout α) (s : R α) (u : Nat) (hi : Inv L s) (hu : u ≤ s.data.length)
    (hcu : s.cur ≤ u) : off L { s with cur := u } = off L s + (u - s.cur) := by
  have := inv_data_le L s hi
  simp only [off]; omega

theorem setCur_vle (L : Layout α) (hL : WF L) (s : R α) (u : Nat) (hi : Inv L s)
    (_hu : u ≤ s.data.length) (hcu : s.cur ≤ u) : VLe (tell s) (tell { s with cur := u }) := by
  unfold tell hasRemaining
  by_cases hr : s.cur < s.data.length
  · have hbs : 0 < s.bsize := by
      rcases hi.blk with ⟨k, b, hn, hb, _, hbs, hd⟩ | hnil
      · rw [hbs]; exact (hL b (getElem?_mem L k b hb)).1
      · rw [hnil] at hr; simp at hr
    by_cases hr' : u < s.data.length
    · simp only [hr, hr', decide_true, if_true]; exact Or.inr ⟨rfl, hcu⟩
    · simp only [hr, hr', decide_true, decide_false, if_true, Bool.false_eq_true, if_false]
      exact Or.inl (by simp; omega)
  · have hr' : ¬ u < s.data.length := by omega
    simp only [hr, hr', decide_false, Bool.false_eq_true, if_false]
    exact VLe.refl _

theorem consume_eq (n : Nat) (s : R α) :
    consume n s = { s with cur := min (s.cur + n) s.data.length } := rfl

theorem consume_inv (L : Layout α) (s : R α) (n : Nat) (hi : Inv L s) : Inv L (consume n s) :=
  setCur_inv L s _ hi (Nat.min_le_right _ _)

theorem consume_off (L : Layout α) (s : R α) (n : Nat) (hi : Inv L s) :
    off L (consume n s) = off L s + min n (s.data.length - s.cur) := by
  have hc := hi.curLe
  rw [consume_eq, setCur_off L s _ hi (Nat.min_le_right _ _) (by omega)]
  omega

theorem consume_vle (L : Layout α) (hL : WF L) (s : R α) (n : Nat) (hi : Inv L s) :
    VLe (tell s) (tell (consume n s)) := by
  have hc := hi.curLe
  exact setCur_vle L hL s _ hi (Nat.min_le_right _ _) (by omega)

/-! ## fillBuf -/

theorem tell_exhausted (L : Layout α) (s : R α) (hi : Inv L s) (hr : ¬ s.cur < s.data.length) :
    tell s = (s.position, 0) := by
  unfold tell hasRemaining
  simp only [hr, decide_false, Bool.false_eq_true, if_false]
  rw [hi.bend]

theorem tell_fst_ge (s : R α) : s.bpos ≤ (tell s).1 := by
  unfold tell hasRemaining
  split <;> simp

theorem readBlock_vle (L : Layout α) (s : R α) (hi : Inv L s) (hr : ¬ s.cur < s.data.length) :
    VLe (tell s) (tell (readBlock L s)) := by
  obtain ⟨h1, h2, _, _, h5⟩ := readBlock_spec L s hi.pos hi.nextLe
  rw [tell_exhausted L s hi hr]
  have := tell_fst_ge (readBlock L s)
  have hb := h1.bend
  have h0 : (tell (readBlock L s)).2 = 0 := by
    unfold tell; split <;> simp [h2]
  unfold VLe
  simp only
  omega

theorem fillBuf_spec (L : Layout α) (s : R α) (hi : Inv L s) :
    Inv L (fillBuf L s).1 ∧ off L (fillBuf L s).1 = off L s ∧
    (fillBuf L s).2 = (fillBuf L s).1.data.drop (fillBuf L s).1.cur ∧
    ((fillBuf L s).2 = [] → off L s = (flat L).length) ∧
    VLe (tell s) (tell (fillBuf L s).1) := by
  unfold fillBuf hasRemaining
  by_cases hr : s.cur < s.data.length
  · simp only [hr, decide_true, if_true]
    refine ⟨hi, trivial, trivial, ?_, VLe.refl _⟩
    intro h; simp at h; omega
  · simp only [hr, decide_false, Bool.false_eq_true, if_false]
    obtain ⟨h1, h2, h3, h4, h5⟩ := readBlock_spec L s hi.pos hi.nextLe
    have hex : off L s = uoff L s.next := off_exhausted L s (by omega)
    refine ⟨h1, by rw [h3, hex], trivial, ?_, readBlock_vle L s hi hr⟩
    intro h
    rw [h2] at h
    rcases h4 with h4 | h4
    · simp at h; exact absurd h h4
    · rw [hex, h4]

theorem prefix_of_buf (L : Layout α) (s : R α) (hi : Inv L s) :
    s.data.drop s.cur = ((flat L).drop (off L s)).take (s.data.drop s.cur).length := by
  have := inv_buf L s hi
  simpa using this

/-! ## read -/

theorem read_eq (L : Layout α) (s : R α) (n : Nat) :
    read L s n =
      if !hasRemaining s && n ≥ MAX_ISIZE then
        ({ readBlock L s with cur := (readBlock L s).data.length }, (readBlock L s).data)
      else
        (consume (min n (fillBuf L s).2.length) (fillBuf L s).1,
          (fillBuf L s).2.take (min n (fillBuf L s).2.length)) := rfl

theorem inv_data_le_max (L : Layout α) (hL : WF L) (s : R α) (hi : Inv L s) :
    s.data.length ≤ MAX_ISIZE := by
  rcases hi.blk with ⟨k, b, hn, hb, _, _, hd⟩ | hnil
  · rw [hd]; exact (hL b (getElem?_mem L k b hb)).2
  · simp [hnil]

theorem read_spec (L : Layout α) (hL : WF L) (s : R α) (n : Nat) (hi : Inv L s) :
    Inv L (read L s n).1 ∧
    (read L s n).2 = ((flat L).drop (off L s)).take (read L s n).2.length ∧
    (read L s n).2.length ≤ n ∧
    ((read L s n).2 = [] → n = 0 ∨ off L s = (flat L).length) ∧
    off L (read L s n).1 = off L s + (read L s n).2.length ∧
    VLe (tell s) (tell (read L s n).1) := by
  rw [read_eq]
  split
  · rename_i hc
    simp [hasRemaining] at hc
    obtain ⟨hc1, hc2⟩ := hc
    have hr : ¬ s.cur < s.data.length := by omega
    obtain ⟨h1, h2, h3, h4, h5⟩ := readBlock_spec L s hi.pos hi.nextLe
    have hex : off L s = uoff L s.next := off_exhausted L s (by omega)
    have hbuf := inv_buf L _ h1
    rw [h2, h3, ← hex] at hbuf
    simp only [List.drop_zero, Nat.sub_zero] at hbuf
    have hoff := setCur_off L _ _ h1 (Nat.le_refl (readBlock L s).data.length) (by omega)
    rw [h2, h3, ← hex] at hoff
    refine ⟨setCur_inv L _ _ h1 (Nat.le_refl _), hbuf, ?_, ?_, ?_, ?_⟩
    · have := inv_data_le_max L hL _ h1; simp only; omega
    · intro h; simp only at h
      rcases h4 with h4 | h4
      · exact absurd h h4
      · right; rw [hex, h4]
    · simpa using hoff
    · exact VLe.trans (readBlock_vle L s hi hr)
        (setCur_vle L hL _ _ h1 (Nat.le_refl _) (by omega))
  · obtain ⟨h1, h2, h3, h4, h5⟩ := fillBuf_spec L s hi
    have hc := h1.curLe
    have hbuf := prefix_of_buf L _ h1
    rw [← h3, h2] at hbuf
    have hlen : (fillBuf L s).2.length = (fillBuf L s).1.data.length - (fillBuf L s).1.cur := by
      rw [h3]; simp
    refine ⟨consume_inv L _ _ h1, ?_, ?_, ?_, ?_, ?_⟩
    · simp only [List.length_take]
      rw [hbuf, List.take_take]
      simp
    · simp only [List.length_take]; omega
    · intro h
      simp only [List.take_eq_nil_iff] at h
      rcases h with h | h
      · rcases Nat.eq_zero_or_pos n with hn | hn
        · exact Or.inl hn
        · right; apply h4; apply List.eq_nil_of_length_eq_zero; omega
      · exact Or.inr (h4 h)
    · rw [consume_off L _ _ h1, h2]
      simp only [List.length_take]
      omega
    · exact VLe.trans h5 (consume_vle L hL _ _ h1)

/-! ## readExact -/

theorem take_split (l : List α) (a n : Nat) (h : a ≤ n) :
    l.take a ++ (l.drop a).take (n - a) = l.take n := by
  have : n = a + (n - a) := by omega
  rw [this, List.take_add]
  simp

theorem readExactLoop_spec (L : Layout α) (hL : WF L) :
    ∀ (fuel : Nat) (s : R α) (n : Nat) (acc : List α), Inv L s → n < fuel →
    Inv L (readExactLoop L fuel s n acc).1 ∧
    VLe (tell s) (tell (readExactLoop L fuel s n acc).1) ∧
    (off L s + n ≤ (flat L).length →
      (readExactLoop L fuel s n acc).2 = .ok (acc ++ ((flat L).drop (off L s)).take n) ∧
      off L (readExactLoop L fuel s n acc).1 = off L s + n) ∧
    ((flat L).length < off L s + n →
      (readExactLoop L fuel s n acc).2 = .error .eof ∧
      off L (readExactLoop L fuel s n acc).1 = (flat L).length) := by
  intro fuel
  induction fuel with
  | zero => intro s n acc _ h; omega
  | succ fuel ih =>
    intro s n acc hi hn
    by_cases hn0 : n = 0
    · subst hn0
      have e : readExactLoop L (fuel+1) s 0 acc = (s, .ok acc) := by simp [readExactLoop]
      rw [e]
      refine ⟨hi, VLe.refl _, ?_, ?_⟩
      · intro _; simp
      · intro h; have := off_le L s; omega
    · obtain ⟨r1, r2, r3, r4, r5, r6⟩ := read_spec L hL s n hi
      by_cases hg : (read L s n).2 = []
      · have e : readExactLoop L (fuel+1) s n acc = ((read L s n).1, .error .eof) := by
          simp [readExactLoop, hn0, hg]
        rw [e]
        have hend : off L s = (flat L).length := by
          rcases r4 hg with h | h
          · exact absurd h hn0
          · exact h
        refine ⟨r1, r6, ?_, ?_⟩
        · intro h; omega
        · intro _; refine ⟨rfl, ?_⟩
          simp only; rw [r5, hg]; simpa using hend
      · have e : readExactLoop L (fuel+1) s n acc =
            readExactLoop L fuel (read L s n).1 (n - (read L s n).2.length)
              (acc ++ (read L s n).2) := by
          simp [readExactLoop, hn0, hg]
        rw [e]
        have hpos : 0 < (read L s n).2.length := List.length_pos_iff.mpr hg
        obtain ⟨i1, i2, i3, i4⟩ := ih (read L s n).1 (n - (read L s n).2.length)
          (acc ++ (read L s n).2) r1 (by omega)
        rw [r5] at i3 i4
        refine ⟨i1, VLe.trans r6 i2, ?_, ?_⟩
        · intro h
          obtain ⟨j1, j2⟩ := i3 (by omega)
          refine ⟨?_, by rw [j2]; omega⟩
          rw [j1, List.append_assoc]
          congr 2
          conv => lhs; lhs; rw [r2]
          rw [← List.drop_drop]
          exact take_split _ _ _ r3
        · intro h
          exact i4 (by omega)

theorem readExact_spec (L : Layout α) (hL : WF L) (s : R α) (n : Nat) (hi : Inv L s) :
    Inv L (readExact L s n).1 ∧
    VLe (tell s) (tell (readExact L s n).1) ∧
    (off L s + n ≤ (flat L).length →
      (readExact L s n).2 = .ok (((flat L).drop (off L s)).take n) ∧
      off L (readExact L s n).1 = off L s + n) ∧
    ((flat L).length < off L s + n →
      (readExact L s n).2 = .error .eof ∧
      off L (readExact L s n).1 = (flat L).length) := by
  unfold readExact
  split
  · rename_i h
    simp only [List.length_drop] at h
    have hrem := inv_remaining_le L s hi
    refine ⟨consume_inv L s n hi, consume_vle L hL s n hi, ?_, ?_⟩
    · intro _
      refine ⟨?_, ?_⟩
      · simp only; rw [inv_buf L s hi, List.take_take]
        congr 2; omega
      · simp only; rw [consume_off L s n hi]; omega
    · intro h'; omega
  · have := readExactLoop_spec L hL (n+1) s n [] hi (by omega)
    simpa using this

/-! ## seek -/

theorem seek_inv (L : Layout α) (s : R α) (c u : Nat) (hi : Inv L s) :
    Inv L (seek L s c u).1 := by
  unfold seek
  cases h : memberAt L c with
  | none => exact hi
  | some k =>
    obtain ⟨hk, hc⟩ := memberAt_some L c k h
    have hs := readBlock_spec L { s with next := k, position := c } hc.symm hk
    simp only
    split
    · exact hs.1
    · exact setCur_inv L _ _ hs.1 (by omega)

theorem seek_resolve (L : Layout α) (s : R α) (c u o : Nat) (hv : resolve L c u = some o) :
    (seek L s c u).2 = none ∧ Inv L (seek L s c u).1 ∧ off L (seek L s c u).1 = o := by
  unfold resolve at hv
  unfold seek
  cases h : memberAt L c with
  | none => rw [h] at hv; simp at hv
  | some k =>
    rw [h] at hv; simp only at hv
    obtain ⟨hk, hc⟩ := memberAt_some L c k h
    obtain ⟨h1, h2, h3, h4, h5⟩ := readBlock_spec L { s with next := k, position := c } hc.symm hk
    have hu : u ≤ (readBlock L { s with next := k, position := c }).data.length ∧
        o = uoff L k + u := by
      cases hb : L[k]? with
      | none =>
        rw [hb] at hv; simp only at hv
        split at hv
        · rename_i hu0; subst hu0; simp at hv; simp [hv]
        · cases hv
      | some b =>
        rw [hb] at hv; simp only at hv
        split at hv
        · rename_i hu0
          simp at hv
          exact ⟨readBlock_data_len L { s with next := k, position := c } b hb u hu0, hv.symm⟩
        · cases hv
    simp only
    rw [if_neg (by omega)]
    refine ⟨rfl, setCur_inv L _ _ h1 hu.1, ?_⟩
    simp only
    rw [setCur_off L _ _ h1 hu.1 (by omega), h3, h2, hu.2]
    simp

theorem seekU_inv (L : Layout α) (g : Gzi) (s : R α) (pos : Nat) (hi : Inv L s) :
    Inv L (seekU L g s pos).1 := by
  unfold seekU
  split
  · exact hi
  · exact seek_inv L s _ _ hi

/-! ## gzi -/

theorem takeWhile_last {β : Type} (p : β → Bool) (g : List β) (j : Nat)
    (hj : j < (g.takeWhile p).length) : ∃ x, g[j]? = some x ∧ p x = true := by
  induction g generalizing j with
  | nil => simp at hj
  | cons a g ih =>
    rw [List.takeWhile_cons] at hj
    by_cases hp : p a = true
    · simp only [hp, if_true, List.length_cons] at hj
      cases j with
      | zero => exact ⟨a, by simp, hp⟩
      | succ j =>
        obtain ⟨x, hx, hpx⟩ := ih j (by omega)
        exact ⟨x, by simpa using hx, hpx⟩
    · simp [hp] at hj

theorem takeWhile_stop {β : Type} (p : β → Bool) (g : List β) (x : β)
    (hx : g[(g.takeWhile p).length]? = some x) : p x = false := by
  induction g with
  | nil => simp at hx
  | cons a g ih =>
    rw [List.takeWhile_cons] at hx
    by_cases hp : p a = true
    · simp only [hp, if_true, List.length_cons, List.getElem?_cons_succ] at hx
      exact ih hx
    · simp [hp] at hx
      subst hx; simpa using hp

theorem gziOf_getElem? (L : Layout α) (j : Nat) (h : j + 1 < L.length) :
    (gziOf L)[j]? = some (coff L (j+1), uoff L (j+1)) := by
  unfold gziOf
  rw [List.getElem?_map, List.getElem?_tail, List.getElem?_range h]
  rfl

theorem gziOf_getElem?_some (L : Layout α) (j : Nat) (x : Nat × Nat) (h : (gziOf L)[j]? = some x) :
    j + 1 < L.length ∧ x = (coff L (j+1), uoff L (j+1)) := by
  have hl : j < (gziOf L).length := (List.getElem?_eq_some_iff.mp h).1
  have hl' : j + 1 < L.length := by
    unfold gziOf at hl; simp at hl; omega
  rw [gziOf_getElem? L j hl'] at h
  exact ⟨hl', by cases h; rfl⟩

theorem gziQuery_eq (g : Gzi) (pos : Nat) :
    gziQuery g pos =
      let i := (g.takeWhile fun r => decide (r.2 ≤ pos)).length
      let cu := if i = 0 then (0, 0) else g[i - 1]!
      if pos - cu.2 < 65536 then .ok (cu.1, pos - cu.2) else .error .invalidData := rfl

theorem gzi_member (L : Layout α) (pos : Nat) (hpos : pos < (flat L).length) :
    ∃ k, k < L.length ∧ uoff L k ≤ pos ∧ pos < uoff L (k+1) ∧
      (if ((gziOf L).takeWhile fun r => decide (r.2 ≤ pos)).length = 0 then (0, 0)
        else (gziOf L)[((gziOf L).takeWhile fun r => decide (r.2 ≤ pos)).length - 1]!) =
        (coff L k, uoff L k) := by
  have hstop := takeWhile_stop (fun r : Nat × Nat => decide (r.2 ≤ pos)) (gziOf L)
  have hlast := takeWhile_last (fun r : Nat × Nat => decide (r.2 ≤ pos)) (gziOf L)
  generalize ((gziOf L).takeWhile fun r => decide (r.2 ≤ pos)).length = i at hstop hlast
  have hlen : 0 < L.length := by
    rcases Nat.eq_zero_or_pos L.length with h | h
    · rw [flat_length, h, uoff_zero] at hpos; omega
    · exact h
  -- the member after `k` starts beyond `pos`
  have hnext : ∀ k, k = i → k < L.length → pos < uoff L (k+1) := by
    intro k hk hkl
    subst hk
    by_cases h1 : k + 1 < L.length
    · have := hstop _ (gziOf_getElem? L k h1)
      simp at this; omega
    · have : uoff L (k+1) = (flat L).length := by
        rw [flat_length, uoff_of_ge L (k+1) (by omega)]
      omega
  by_cases hi0 : i = 0
  · refine ⟨0, hlen, by rw [uoff_zero]; omega, hnext 0 hi0.symm hlen, ?_⟩
    rw [if_pos hi0, coff_zero, uoff_zero]
  · obtain ⟨x, hx, hpx⟩ := hlast (i - 1) (by omega)
    obtain ⟨hl, hxe⟩ := gziOf_getElem?_some L (i-1) x hx
    have hii : i - 1 + 1 = i := by omega
    rw [hii] at hl hxe
    refine ⟨i, hl, ?_, hnext i rfl hl, ?_⟩
    · rw [hxe] at hpx; simpa using hpx
    · rw [if_neg hi0]
      have : (gziOf L)[i - 1]! = x := by
        rw [getElem!_def, hx]
      rw [this, hxe]

theorem gziQuery_spec (L : Layout α) (hL : WF L) (pos : Nat) (hpos : pos < (flat L).length) :
    ∃ c u, gziQuery (gziOf L) pos = .ok (c, u) ∧ resolve L c u = some pos := by
  obtain ⟨k, hk, h1, h2, h3⟩ := gzi_member L pos hpos
  have hb : L[k]? = some L[k] := List.getElem?_eq_getElem hk
  have hsz := (hL _ (getElem?_mem L k _ hb)).2
  rw [uoff_succ L k _ hb] at h2
  refine ⟨coff L k, pos - uoff L k, ?_, ?_⟩
  · rw [gziQuery_eq]
    simp only [h3]
    rw [if_pos (by unfold MAX_ISIZE at hsz; omega)]
  · unfold resolve
    rw [memberAt_coff L hL k (by omega)]
    simp only [hb]
    rw [if_pos (by omega)]
    congr 1; omega

theorem seekU_spec (L : Layout α) (hL : WF L) (s : R α) (pos : Nat)
    (hpos : pos < (flat L).length) :
    (seekU L (gziOf L) s pos).2 = none ∧ Inv L (seekU L (gziOf L) s pos).1 ∧
    off L (seekU L (gziOf L) s pos).1 = pos := by
  obtain ⟨c, u, h1, h2⟩ := gziQuery_spec L hL pos hpos
  unfold seekU
  rw [h1]
  exact seek_resolve L s c u pos h2

/-! ## reachable states -/

theorem step_readExact_fst (L : Layout α) (s : R α) (n : Nat) :
    (step L s (.readExact n)).1 = (readExact L s n).1 := by
  simp only [step]; split <;> rename_i h <;> rw [h]

theorem step_seek_fst (L : Layout α) (s : R α) (c u : Nat) :
    (step L s (.seek c u)).1 = (seek L s c u).1 := by
  simp only [step]; split <;> rename_i h <;> rw [h]

theorem step_seekU_fst (L : Layout α) (s : R α) (pos : Nat) :
    (step L s (.seekU pos)).1 = (seekU L (gziOf L) s pos).1 := by
  simp only [step]; split <;> rename_i h <;> rw [h]

theorem step_inv (L : Layout α) (hL : WF L) (s : R α) (op : Op) (hi : Inv L s) :
    Inv L (step L s op).1 := by
  cases op with
  | read n => exact (read_spec L hL s n hi).1
  | readExact n =>
    rw [step_readExact_fst]; exact (readExact_spec L hL s n hi).1
  | fillBuf => exact (fillBuf_spec L s hi).1
  | consume n => exact consume_inv L s n hi
  | seek c u =>
    rw [step_seek_fst]; exact seek_inv L s c u hi
  | seekU pos =>
    rw [step_seekU_fst]; exact seekU_inv L (gziOf L) s pos hi
  | tell => exact hi

theorem foldl_inv (L : Layout α) (hL : WF L) (ops : List Op) (s : R α) (hi : Inv L s) :
    Inv L (ops.foldl (fun s op => (step L s op).1) s) := by
  induction ops generalizing s with
  | nil => exact hi
  | cons op ops ih => exact ih _ (step_inv L hL s op hi)

theorem runOps_inv (L : Layout α) (hL : WF L) (ops : List Op) : Inv L (runOps L ops) :=
  foldl_inv L hL ops _ (inv_init L)

theorem cursor_eq (L : Layout α) (hL : WF L) (s : R α) (hi : Inv L s) (o : Nat)
    (ho : cursor L s = some o) : off L s = o := by
  rw [cursor_of_inv L hL s hi] at ho; cases ho; rfl

theorem step_vle (L : Layout α) (hL : WF L) (s : R α) (op : Op) (hi : Inv L s)
    (hseq : match op with | .seek _ _ => False | .seekU _ => False | _ => True) :
    VLe (tell s) (tell (step L s op).1) := by
  cases op with
  | read n => exact (read_spec L hL s n hi).2.2.2.2.2
  | readExact n =>
    rw [step_readExact_fst]; exact (readExact_spec L hL s n hi).2.1
  | fillBuf => exact (fillBuf_spec L s hi).2.2.2.2
  | consume n => exact consume_vle L hL s n hi
  | seek c u => exact hseq.elim
  | seekU pos => exact hseq.elim
  | tell => exact VLe.refl _

end Noodles.Bgzf.RM
