import Noodles.Fasta.Model
import Noodles.Io.Loops
import Noodles.Bgzf.ReaderModel
/-!
# The FASTA sequence reader over an arbitrary `BufRead` (model for C11, bgzf + gzi and small buffers)

`Noodles/Fasta/Model.lean` runs the sequence reader over a whole in-memory buffer (`fill_buf` returns
everything that remains). Here the same code — noodles-fasta `io/reader/sequence.rs`
(`consume_empty_lines`, `Reader::fill_buf`, `read_sequence_limit`) and `io/reader.rs`
(`Reader::query`) — is transcribed over an ABSTRACT `R: BufRead`: a state type with `fill_buf`
(which returns some non-empty window of what remains, or fails with `ErrorKind::Interrupted`) and
`consume`. Every call of `fill_buf` the code makes is a call here, in the same order, so that a
window boundary anywhere (between the CR and the LF of a line ending, in the middle of a line, at a
`>`) and an interruption at any call are represented.

Two instances:

* `bufrOps` — `std::io::BufReader` of any capacity ≥ 1 over a source with an adversarial delivery
  schedule (layer IO of C12: `Noodles.IO.BufR`, `fillBuf`, `consume`); seek = `BufReader::seek`
  (buffer discarded, inner reader repositioned);
* `rmOps L` — the BGZF reader state machine of C02 over a block layout `L`
  (`Noodles.Bgzf.RM.fillBuf`, `consume`); seek = `bgzf::io::IndexedReader::seek(SeekFrom::Start)` =
  `seek_by_uncompressed_position` through the gzi index (`RM.seekU`).
-/
namespace Noodles.Fasta

open Noodles.IO (ReadRes)

/-- what the sequence reader uses of its `R: BufRead` -/
structure BufOps (σ : Type) where
  /-- `BufRead::fill_buf`: a window of the remaining bytes, or `ErrorKind::Interrupted` -/
  fill : σ → ReadRes UInt8 × σ
  /-- `BufRead::consume` -/
  consume : Nat → σ → σ

/-- errors inside the sequence reader: `Interrupted` (handed up by `?`), and the unreachable `fuel` -/
inductive SErr | interrupted | fuel
  deriving Repr, DecidableEq

variable {σ : Type}

/-- `consume_empty_lines`:
```
loop {
    let mut is_newline = false;
    if reader.fill_buf()?.starts_with(&[CARRIAGE_RETURN]) { is_newline = true; reader.consume(1); }
    if reader.fill_buf()?.starts_with(&[LINE_FEED]) { is_newline = true; reader.consume(1); }
    if !is_newline { break; }
}
``` -/
def consumeEmptyLines (B : BufOps σ) : Nat → σ → Except SErr Unit × σ
  | 0, s => (.error .fuel, s)
  | fuel + 1, s =>
    match B.fill s with
    | (.interrupted, s1) => (.error .interrupted, s1)
    | (.ok w1, s1) =>
      let isCr := w1.head? == some CR
      let s2 := if isCr then B.consume 1 s1 else s1
      match B.fill s2 with
      | (.interrupted, s3) => (.error .interrupted, s3)
      | (.ok w2, s3) =>
        let isLf := w2.head? == some LF
        let s4 := if isLf then B.consume 1 s3 else s3
        if isCr || isLf then consumeEmptyLines B fuel s4 else (.ok (), s4)

/-- `sequence::Reader::fill_buf`: `consume_empty_lines`, then one more `fill_buf` of the inner reader;
nothing at EOF or when the window starts with `>`; else the window up to its first LF (`memchr`) or
the whole window, without a trailing CR. Nothing is consumed beyond the empty lines. -/
def seqFill (B : BufOps σ) (fuel : Nat) (s : σ) : Except SErr Bytes × σ :=
  match consumeEmptyLines B fuel s with
  | (.error e, s1) => (.error e, s1)
  | (.ok _, s1) =>
    match B.fill s1 with
    | (.interrupted, s2) => (.error .interrupted, s2)
    | (.ok src, s2) =>
      if src.isEmpty || src.head? == some GT then (.ok [], s2)
      else (.ok (stripCR (src.takeWhile (· != LF))), s2)

/-- `read_sequence_limit`:
```
while buf.len() < max_bases {
    let src = match reader.fill_buf() { Ok(src) => src, Err(Interrupted) => continue, Err(e) => return Err(e) };
    if src.is_empty() { break; }
    let i = (max_bases - buf.len()).min(src.len());
    buf.extend(&src[..i]); reader.consume(i);
}
```
Returns the buffer and the reader's state. -/
def readSeqLimitG (B : BufOps σ) : Nat → σ → Nat → Bytes → Except SErr Bytes × σ
  | 0, s, _, _ => (.error .fuel, s)
  | fuel + 1, s, maxBases, buf =>
    if buf.length < maxBases then
      match seqFill B (fuel + 1) s with
      | (.error .interrupted, s1) => readSeqLimitG B fuel s1 maxBases buf
      | (.error e, s1) => (.error e, s1)
      | (.ok src, s1) =>
        if src.isEmpty then (.ok buf, s1)
        else
          let i := min (maxBases - buf.length) src.length
          readSeqLimitG B fuel (B.consume i s1) maxBases (buf ++ src.take i)
    else (.ok buf, s)

/-- `Reader::query` for the record found in the index, over a reader whose `seek(SeekFrom::Start(pos))`
is `seek`: `fai::Record::query` (start beyond the sequence length: `InvalidInput`), seek,
`end.checked_sub(start)` (`InvalidInput` for an inverted interval), `read_sequence_limit`.
`fuel` bounds the loops as a function of the state after the seek. Returns the answer and the
reader's state afterwards (`none`: the seek was not reached). -/
def queryG (B : BufOps σ) (seek : Nat → Except Err Unit × σ) (fuel : σ → Nat) (r : FaiRec)
    (start end_ : Option Nat) : Except Err Bytes × Option σ :=
  match recQuery r start with
  | .error e => (.error e, none)
  | .ok pos =>
    match seek pos with
    | (.error e, s) => (.error e, some s)
    | (.ok _, s) =>
      let st := start.getD 1
      let en := end_.getD usizeMax
      if en < st then (.error .invalidInput, some s)
      else match readSeqLimitG B (fuel s) s (en - st + 1) [] with
        | (.ok bases, s') => (.ok bases, some s')
        | (.error _, s') => (.error .fuel, some s')

/-! ## instance 1: `std::io::BufReader` (any capacity) over a scheduled source -/

/-- `BufReader<R>` as a `BufRead` -/
def bufrOps : BufOps (Noodles.IO.BufR UInt8) := ⟨Noodles.IO.fillBuf, Noodles.IO.consume⟩

/-- `BufReader::seek(SeekFrom::Start(pos))` over a `Cursor`-like inner reader holding the file `f`:
the buffer is discarded and the inner reader repositioned; its delivery schedule goes on. -/
def bufrSeek (f : Bytes) (b : Noodles.IO.BufR UInt8) (pos : Nat) : Noodles.IO.BufR UInt8 :=
  { b with buf := [], src := ⟨f.drop pos, b.src.sched⟩ }

/-- the seek of `queryG`: it cannot fail -/
def bufrSeekFn (f : Bytes) (b : Noodles.IO.BufR UInt8) (pos : Nat) :
    Except Err Unit × Noodles.IO.BufR UInt8 := (.ok (), bufrSeek f b pos)

/-- `fasta::io::Reader::new(BufReader::with_capacity(cap, inner)).query(index, region)` for the index
record `r`; `inner` delivers the file `f` according to `sched` -/
def queryBufR (f : Bytes) (sched : List Noodles.IO.Delivery) (cap : Nat) (r : FaiRec)
    (start end_ : Option Nat) : Except Err Bytes × Option (Noodles.IO.BufR UInt8) :=
  queryG bufrOps (bufrSeekFn f (Noodles.IO.BufR.ofSrc ⟨f, sched⟩ cap)) (fun b => b.fuel) r start end_

/-! ## instance 2: the BGZF reader over a block layout, seeking through the gzi index -/

open Noodles.Bgzf in
/-- `bgzf::io::Reader` as a `BufRead` (its `fill_buf` does not return `Interrupted` by itself) -/
def rmOps (L : RM.Layout UInt8) : BufOps (RM.R UInt8) :=
  ⟨fun s => (.ok (RM.fillBuf L s).2, (RM.fillBuf L s).1), RM.consume⟩

open Noodles.Bgzf in
/-- error classes of the BGZF reader seen through `io::Error` (`badSeek`: a gzi entry that is not a
member boundary — the real reader would parse garbage; not produced for `gziOf L`) -/
def ofRmErr : RM.Err → Err
  | .eof => .eof
  | .invalidInput => .invalidInput
  | .invalidData => .invalidData
  | .badSeek => .fuel

open Noodles.Bgzf in
/-- `bgzf::io::IndexedReader::seek(SeekFrom::Start(pos))` = `seek_by_uncompressed_position(gzi, pos)`;
the reader's state changes even when the call fails -/
def rmSeek (L : RM.Layout UInt8) (g : RM.Gzi) (s : RM.R UInt8) (pos : Nat) :
    Except Err Unit × RM.R UInt8 :=
  match RM.seekU L g s pos with
  | (s', none) => (.ok (), s')
  | (s', some e) => (.error (ofRmErr e), s')

open Noodles.Bgzf in
/-- `fasta::io::IndexedReader::new(bgzf::io::IndexedReader::new(inner, gzi), fai).query(region)` for
the index record `r`, from the reader state `s` (any earlier queries have been made):
`bgzf::io::IndexedReader::seek(SeekFrom::Start(pos))` is `seek_by_uncompressed_position(gzi, pos)`. -/
def queryBgzf (L : RM.Layout UInt8) (g : RM.Gzi) (s : RM.R UInt8) (r : FaiRec)
    (start end_ : Option Nat) : Except Err Bytes × Option (RM.R UInt8) :=
  queryG (rmOps L) (rmSeek L g s) (fun _ => (RM.flat L).length + 2) r start end_

end Noodles.Fasta
