import Noodles.Fasta.SeqReader
import Noodles.Fasta.Spec
import Noodles.Fasta.Proof
import Noodles.Io.LoopsProof
import Noodles.Bgzf.ReaderProof
/-!
# Proofs about the sequence reader over an arbitrary `BufRead` (helper lemmas for C11)

* `SeqShape src bases` — the structural fact behind `SeqAt` of `Noodles/Fasta/Proof.lean`: from
  `src` on, the stream consists of clean line pieces separated by CR / LF runs, up to EOF or a `>`
  at the start of a line, and the pieces concatenate to `bases`.
* `BufLaws` — what a `BufRead` implementation must satisfy (its windows are non-empty prefixes of
  what remains, `consume` drops, interruptions are finite).
* `readSeqLimitG_shape` — THE loop theorem: over any lawful `BufRead`, at a `SeqShape` stream,
  `read_sequence_limit` returns the first `max_bases` of `bases`, whatever the windows and
  interruptions.
* the two instances (`BufReader` over a scheduled source, from C12's `fillBuf_cases` /
  `consume_stream`; the BGZF reader over a layout, from C02's `fillBuf_spec` / `consume_off`).
* `indexAll_shape` — the indexer's acceptance gives `SeqShape` at every `fai` offset (the proof of
  `indexAll_spec` again, with `SeqShape` for `SeqAt`).
-/
namespace Noodles.Fasta

/-! ## the shape of a sequence region -/

inductive SeqShape : Bytes → Bytes → Prop
  | done {s : Bytes} : isLastSeqLine s = true → SeqShape s []
  | eol {t x bases : Bytes} : (∀ b ∈ t, b = CR ∨ b = LF) → SeqShape x bases → SeqShape (t ++ x) bases
  | line {c r bases : Bytes} : c ≠ [] → CleanL c → AtEol r → SeqShape r bases →
      SeqShape (c ++ r) (c ++ bases)

/-- the whole-buffer reader of `Model.lean` reads a `SeqShape` region as its bases (this is how
`SeqAt` was proved; not used below, it shows that `SeqShape` is the stronger notion) -/
theorem SeqShape.seqAt {src bases : Bytes} (h : SeqShape src bases) : SeqAt src bases := by
  induction h with
  | done h => exact SeqAt_done h
  | eol ht _ ih => exact SeqAt_eol ht ih
  | line hne hc hr _ ih => exact SeqAt_line hne hc hr ih

/-- normal form after the empty lines have been skipped -/
inductive SeqNF : Bytes → Bytes → Prop
  | done {y : Bytes} : isLastSeqLine y = true → SeqNF y []
  | line {c r bases : Bytes} : c ≠ [] → CleanL c → AtEol r → SeqShape r bases →
      SeqNF (c ++ r) (c ++ bases)

theorem skipEol_clean_cons {c r : Bytes} (hne : c ≠ []) (hc : CleanL c) :
    skipEol (c ++ r) = c ++ r := by
  cases c with
  | nil => exact absurd rfl hne
  | cons b c' =>
    obtain ⟨h1, h2, _⟩ := hc b (by simp)
    simp [skipEol, List.dropWhile, h1, h2]

theorem SeqShape.nf {xs bases : Bytes} (h : SeqShape xs bases) : SeqNF (skipEol xs) bases := by
  induction h with
  | done h => rw [skipEol_of_isLast h]; exact .done h
  | eol ht _ ih => rw [skipEol_append_eol _ _ ht]; exact ih
  | line hne hc hr hs _ => rw [skipEol_clean_cons hne hc]; exact .line hne hc hr hs

theorem mem_takeWhile_sat (p : UInt8 → Bool) (xs : Bytes) : ∀ b ∈ xs.takeWhile p, p b = true := by
  induction xs with
  | nil => intro b hb; simp at hb
  | cons x r ih =>
    intro b hb
    rw [List.takeWhile_cons] at hb
    split at hb
    · rcases List.mem_cons.mp hb with rfl | h
      · assumption
      · exact ih b h
    · simp at hb

theorem skipEol_decomp (xs : Bytes) :
    ∃ t, (∀ b ∈ t, b = CR ∨ b = LF) ∧ xs = t ++ skipEol xs := by
  refine ⟨xs.takeWhile (fun b => b == CR || b == LF), ?_, ?_⟩
  · intro b hb
    have := mem_takeWhile_sat _ _ _ hb
    simpa using this
  · unfold skipEol
    exact (List.takeWhile_append_dropWhile).symm

theorem SeqShape.of_nf {xs bases : Bytes} (h : SeqNF (skipEol xs) bases) : SeqShape xs bases := by
  obtain ⟨t, ht, hx⟩ := skipEol_decomp xs
  rw [hx]
  apply SeqShape.eol ht
  generalize skipEol xs = y at h
  cases h with
  | done h => exact .done h
  | line hne hc hr hs => exact .line hne hc hr hs

/-- the shape depends only on what follows the leading CR / LF run -/
theorem SeqShape.congr_skip {xs ys bases : Bytes} (h : SeqShape xs bases)
    (he : skipEol ys = skipEol xs) : SeqShape ys bases := by
  apply SeqShape.of_nf
  rw [he]
  exact h.nf

theorem SeqShape.line_drop {c r bases : Bytes} (hc : CleanL c) (hr : AtEol r)
    (hs : SeqShape r bases) (i : Nat) (hi : i ≤ c.length) :
    SeqShape ((c ++ r).drop i) ((c ++ bases).drop i) := by
  rw [List.drop_append_of_le_length hi, List.drop_append_of_le_length hi]
  by_cases he : i = c.length
  · rw [he]; simpa using hs
  · refine SeqShape.line ?_ (fun b hb => hc b (List.mem_of_mem_drop hb)) hr hs
    intro h0
    have := congrArg List.length h0
    simp at this; omega

/-! ## what a `BufRead` implementation has to satisfy -/

open Noodles.IO (ReadRes)

variable {σ : Type}

/-- `stream s`: the bytes still to come; `win s`: the part of them that is buffered (what the last
`fill_buf` returned, minus what was consumed); `mu`: a measure that bounds the remaining work
(bytes + interruptions still to come). -/
structure BufLaws (B : BufOps σ) where
  inv : σ → Prop
  stream : σ → Bytes
  win : σ → Bytes
  mu : σ → Nat
  fill_ok : ∀ s w s', inv s → B.fill s = (.ok w, s') →
    inv s' ∧ stream s' = stream s ∧ win s' = w ∧ w <+: stream s ∧ (w = [] → stream s = []) ∧
      mu s' ≤ mu s
  fill_intr : ∀ s s', inv s → B.fill s = (.interrupted, s') →
    inv s' ∧ stream s' = stream s ∧ mu s' < mu s
  consume_ok : ∀ s n, inv s → n ≤ (win s).length →
    inv (B.consume n s) ∧ stream (B.consume n s) = (stream s).drop n ∧ mu (B.consume n s) + n ≤ mu s

theorem window_head {w xs : Bytes} (hp : w <+: xs) (hnil : w = [] → xs = []) :
    w.head? = xs.head? := by
  obtain ⟨t, rfl⟩ := hp
  cases w with
  | nil => have h := hnil rfl; simp at h; simp [h]
  | cons b w' => rfl

theorem skipEol_cons_eol {b : UInt8} {xs : Bytes} (hb : b = CR ∨ b = LF) :
    skipEol (b :: xs) = skipEol xs := by
  rcases hb with rfl | rfl <;> simp [skipEol, List.dropWhile, CR, LF]

theorem skipEol_self {xs : Bytes} (h1 : xs.head? ≠ some CR) (h2 : xs.head? ≠ some LF) :
    skipEol xs = xs := by
  cases xs with
  | nil => rfl
  | cons b r =>
    have hb1 : b ≠ CR := fun h => h1 (by simp [h])
    have hb2 : b ≠ LF := fun h => h2 (by simp [h])
    have e : (b == CR || b == LF) = false := by simp [hb1, hb2]
    simp [skipEol, List.dropWhile, e]

/-- **`consume_empty_lines`** over any lawful `BufRead`: it either succeeds, having consumed exactly
the leading CR / LF run, or it reports an interruption having consumed a part of that run — and
then an interruption has been used up. -/
theorem cel_spec {B : BufOps σ} (Lw : BufLaws B) : ∀ (fuel : Nat) (s : σ), Lw.inv s → Lw.mu s < fuel →
    Lw.inv (consumeEmptyLines B fuel s).2 ∧
    skipEol (Lw.stream (consumeEmptyLines B fuel s).2) = skipEol (Lw.stream s) ∧
    (((consumeEmptyLines B fuel s).1 = .ok () ∧
        Lw.stream (consumeEmptyLines B fuel s).2 = skipEol (Lw.stream s) ∧
        Lw.mu (consumeEmptyLines B fuel s).2 ≤ Lw.mu s) ∨
     ((consumeEmptyLines B fuel s).1 = .error .interrupted ∧
        Lw.mu (consumeEmptyLines B fuel s).2 < Lw.mu s)) := by
  intro fuel
  induction fuel with
  | zero => intro s _ h; omega
  | succ n ih =>
    intro s hi hf
    rcases hf1 : B.fill s with ⟨r1, s1⟩
    cases r1 with
    | interrupted =>
      obtain ⟨a1, a2, a3⟩ := Lw.fill_intr s s1 hi hf1
      simp only [consumeEmptyLines, hf1]
      exact ⟨a1, by rw [a2], Or.inr ⟨trivial, a3⟩⟩
    | ok w1 =>
      obtain ⟨a1, a2, a3, a4, a5, a6⟩ := Lw.fill_ok s w1 s1 hi hf1
      have hh1 : w1.head? = (Lw.stream s).head? := window_head a4 a5
      -- the state after the CR check
      have hs2 : ∃ s2, s2 = (if (w1.head? == some CR) = true then B.consume 1 s1 else s1) ∧
          Lw.inv s2 ∧ skipEol (Lw.stream s2) = skipEol (Lw.stream s) ∧
          ((w1.head? == some CR) = true → Lw.mu s2 + 1 ≤ Lw.mu s) ∧
          ((w1.head? == some CR) = false → Lw.stream s2 = Lw.stream s ∧ Lw.mu s2 ≤ Lw.mu s) := by
        by_cases hcr : (w1.head? == some CR) = true
        · have hw : 1 ≤ (Lw.win s1).length := by
            rw [a3]; cases w1 with
            | nil => simp at hcr
            | cons b r => simp
          obtain ⟨c1, c2, c3⟩ := Lw.consume_ok s1 1 a1 hw
          refine ⟨_, rfl, by rw [if_pos hcr]; exact c1, ?_, ?_, ?_⟩
          · rw [if_pos hcr, c2, a2]
            have : (Lw.stream s).head? = some CR := by rw [← hh1]; simpa using hcr
            cases hx : Lw.stream s with
            | nil => rw [hx] at this; simp at this
            | cons b r =>
              rw [hx] at this; simp at this; subst this
              simp [skipEol_cons_eol (Or.inl rfl)]
          · intro _; rw [if_pos hcr]; omega
          · intro h; rw [hcr] at h; cases h
        · have hcr' : (w1.head? == some CR) = false := by simpa using hcr
          refine ⟨_, rfl, by rw [if_neg hcr]; exact a1, by rw [if_neg hcr, a2], ?_, ?_⟩
          · intro h; exact absurd h hcr
          · intro _; rw [if_neg hcr]; exact ⟨a2, a6⟩
      obtain ⟨s2, hs2e, b1, b2, b3, b4⟩ := hs2
      rcases hf2 : B.fill s2 with ⟨r2, s3⟩
      cases r2 with
      | interrupted =>
        obtain ⟨d1, d2, d3⟩ := Lw.fill_intr s2 s3 b1 hf2
        simp only [consumeEmptyLines, hf1, ← hs2e, hf2]
        refine ⟨d1, by rw [d2, b2], Or.inr ⟨trivial, ?_⟩⟩
        cases hcr : (w1.head? == some CR) with
        | true => have := b3 hcr; omega
        | false => have := (b4 hcr).2; omega
      | ok w2 =>
        obtain ⟨d1, d2, d3, d4, d5, d6⟩ := Lw.fill_ok s2 w2 s3 b1 hf2
        have hh2 : w2.head? = (Lw.stream s2).head? := window_head d4 d5
        simp only [consumeEmptyLines, hf1, ← hs2e, hf2]
        by_cases hlf : (w2.head? == some LF) = true
        · -- a line feed is consumed: go round again
          have hw : 1 ≤ (Lw.win s3).length := by
            rw [d3]; cases w2 with
            | nil => simp at hlf
            | cons b r => simp
          obtain ⟨c1, c2, c3⟩ := Lw.consume_ok s3 1 d1 hw
          simp only [hlf, Bool.or_true, if_true]
          have hsk : skipEol (Lw.stream (B.consume 1 s3)) = skipEol (Lw.stream s) := by
            rw [c2, d2, ← b2]
            have : (Lw.stream s2).head? = some LF := by rw [← hh2]; simpa using hlf
            cases hx : Lw.stream s2 with
            | nil => rw [hx] at this; simp at this
            | cons b r =>
              rw [hx] at this; simp at this; subst this
              simp [skipEol_cons_eol (Or.inr rfl)]
          have hmu : Lw.mu (B.consume 1 s3) + 1 ≤ Lw.mu s := by
            cases hcr : (w1.head? == some CR) with
            | true => have := b3 hcr; omega
            | false => have := (b4 hcr).2; omega
          obtain ⟨e1, e2, e3⟩ := ih (B.consume 1 s3) c1 (by omega)
          refine ⟨e1, by rw [e2, hsk], ?_⟩
          rcases e3 with ⟨f1, f2, f3⟩ | ⟨f1, f2⟩
          · exact Or.inl ⟨f1, by rw [f2, hsk], by omega⟩
          · exact Or.inr ⟨f1, by omega⟩
        · have hlf' : (w2.head? == some LF) = false := by simpa using hlf
          simp only [hlf', Bool.or_false, Bool.false_eq_true, if_false]
          by_cases hcr : (w1.head? == some CR) = true
          · -- a carriage return was consumed: go round again
            simp only [hcr, if_true]
            have hmu := b3 hcr
            obtain ⟨e1, e2, e3⟩ := ih s3 d1 (by omega)
            have hsk : skipEol (Lw.stream s3) = skipEol (Lw.stream s) := by rw [d2, b2]
            refine ⟨e1, by rw [e2, hsk], ?_⟩
            rcases e3 with ⟨f1, f2, f3⟩ | ⟨f1, f2⟩
            · exact Or.inl ⟨f1, by rw [f2, hsk], by omega⟩
            · exact Or.inr ⟨f1, by omega⟩
          · -- neither: the loop ends, nothing was consumed
            have hcr' : (w1.head? == some CR) = false := by simpa using hcr
            simp only [hcr', Bool.false_eq_true, if_false]
            obtain ⟨g1, g2⟩ := b4 hcr'
            have hst : Lw.stream s3 = Lw.stream s := by rw [d2, g1]
            have hn1 : (Lw.stream s).head? ≠ some CR := by
              rw [← hh1]; intro h; rw [h] at hcr'; simp at hcr'
            have hn2 : (Lw.stream s).head? ≠ some LF := by
              rw [← g1, ← hh2]; intro h; rw [h] at hlf'; simp at hlf'
            refine ⟨d1, by rw [hst], Or.inl ⟨trivial, ?_, by omega⟩⟩
            rw [hst, skipEol_self hn1 hn2]

/-- what `sequence::Reader::fill_buf` makes of the inner reader's window `w` -/
def lineOf (w : Bytes) : Bytes :=
  if w.isEmpty || w.head? == some GT then [] else stripCR (w.takeWhile (· != LF))

/-- **`sequence::Reader::fill_buf`** over any lawful `BufRead`: an interruption (one used up), or the
line piece of a window `w` of the stream behind the leading CR / LF run; nothing else is consumed. -/
theorem seqFill_spec {B : BufOps σ} (Lw : BufLaws B) (fuel : Nat) (s : σ) (hi : Lw.inv s)
    (hf : Lw.mu s < fuel) :
    Lw.inv (seqFill B fuel s).2 ∧
    skipEol (Lw.stream (seqFill B fuel s).2) = skipEol (Lw.stream s) ∧
    (((seqFill B fuel s).1 = .error .interrupted ∧ Lw.mu (seqFill B fuel s).2 < Lw.mu s) ∨
     (∃ w, (seqFill B fuel s).1 = .ok (lineOf w) ∧
        Lw.stream (seqFill B fuel s).2 = skipEol (Lw.stream s) ∧ Lw.win (seqFill B fuel s).2 = w ∧
        w <+: skipEol (Lw.stream s) ∧ (w = [] → skipEol (Lw.stream s) = []) ∧
        Lw.mu (seqFill B fuel s).2 ≤ Lw.mu s)) := by
  obtain ⟨a1, a2, a3⟩ := cel_spec Lw fuel s hi hf
  rcases hc : consumeEmptyLines B fuel s with ⟨r0, s1⟩
  rw [hc] at a1 a2 a3
  simp only at a1 a2 a3
  rcases a3 with ⟨b1, b2, b3⟩ | ⟨b1, b2⟩
  · subst b1
    rcases hf1 : B.fill s1 with ⟨r1, s2⟩
    cases r1 with
    | interrupted =>
      obtain ⟨c1, c2, c3⟩ := Lw.fill_intr s1 s2 a1 hf1
      simp only [seqFill, hc, hf1]
      exact ⟨c1, by rw [c2, a2], Or.inl ⟨trivial, by omega⟩⟩
    | ok w =>
      obtain ⟨c1, c2, c3, c4, c5, c6⟩ := Lw.fill_ok s1 w s2 a1 hf1
      have hfst : (seqFill B fuel s).1 = .ok (lineOf w) := by
        simp only [seqFill, hc, hf1, lineOf]
        split <;> rfl
      have hsnd : (seqFill B fuel s).2 = s2 := by
        simp only [seqFill, hc, hf1]
        split <;> rfl
      rw [hsnd]
      have hsk : skipEol (Lw.stream s2) = skipEol (Lw.stream s) := by rw [c2, a2]
      rw [b2] at c2 c4 c5
      exact ⟨c1, hsk, Or.inr ⟨w, hfst, c2, c3, c4, c5, by omega⟩⟩
  · subst b1
    simp only [seqFill, hc]
    exact ⟨a1, a2, Or.inl ⟨trivial, b2⟩⟩

theorem lineOf_done {y w : Bytes} (hl : isLastSeqLine y = true) (hp : w <+: y)
    (hnil : w = [] → y = []) : lineOf w = [] := by
  have hh := window_head hp hnil
  unfold lineOf
  cases y with
  | nil =>
    have hw : w = [] := List.prefix_nil.mp hp
    subst hw
    rfl
  | cons b r =>
    simp [isLastSeqLine] at hl
    subst hl
    rw [hh]; simp

theorem CleanL_take {c : Bytes} (hc : CleanL c) (k : Nat) : CleanL (c.take k) :=
  fun b hb => hc b (List.mem_of_mem_take hb)

theorem takeWhile_neLF_self {c : Bytes} (hc : CleanL c) : c.takeWhile (· != LF) = c := by
  have := takeWhile_neLF_clean c [] (fun b hb => (hc b hb).2.1)
  simpa using this

/-- the line piece of a non-empty window of `c ++ r` (clean bases `c`, then a line end): the window
itself if it ends inside `c`, else all of `c` — the CR of a CR LF is cut off even when the window
ends between the two -/
theorem lineOf_line {c r w : Bytes} (hne : c ≠ []) (hc : CleanL c) (hr : AtEol r)
    (hp : w <+: c ++ r) (hw : w ≠ []) : lineOf w = c.take w.length := by
  have hk : w = (c ++ r).take w.length := by
    obtain ⟨t, ht⟩ := hp
    rw [← ht]; simp
  have hkl : w.length ≤ (c ++ r).length := hp.length_le
  have hhead : w.head? = c.head? := by
    rw [hk, List.head?_take, if_neg (by
      have : 0 < w.length := List.length_pos_iff.mpr hw
      omega)]
    cases c with
    | nil => exact absurd rfl hne
    | cons b c' => rfl
  have hnotgt : (w.isEmpty || w.head? == some GT) = false := by
    cases c with
    | nil => exact absurd rfl hne
    | cons b c' =>
      have hb := (hc b (by simp)).2.2
      have hwe : w.isEmpty = false := by
        cases w with
        | nil => exact absurd rfl hw
        | cons _ _ => rfl
      rw [hhead, hwe]
      simp [hb]
  unfold lineOf
  rw [hnotgt]
  simp only [Bool.false_eq_true, if_false]
  by_cases hle : w.length ≤ c.length
  · have hwc : w = c.take w.length := by
      rw [hk, List.take_append_of_le_length hle]
      simp
    have hcw : CleanL w := by rw [hwc]; exact CleanL_take hc _
    rw [takeWhile_neLF_self hcw, stripCR_clean hcw]
    exact hwc
  · have hlt : c.length < w.length := by omega
    rw [List.take_of_length_le (by omega)]
    have hwr : w = c ++ r.take (w.length - c.length) := by
      conv => lhs; rw [hk]
      rw [List.take_append]
      rw [List.take_of_length_le (by omega)]
    have hj : 0 < w.length - c.length := by omega
    have hjr : w.length - c.length ≤ r.length := by simp at hkl; omega
    generalize w.length - c.length = j at hwr hj hjr
    rw [hwr, takeWhile_neLF_clean c _ (fun b hb => (hc b hb).2.1)]
    rcases hr with rfl | rfl | ⟨x, rfl⟩ | ⟨x, rfl⟩
    · simp at hjr; omega
    · have : List.take j [CR] = [CR] := by
        cases j with
        | zero => omega
        | succ k => simp
      rw [this]
      have : List.takeWhile (· != LF) [CR] = [CR] := by simp [List.takeWhile, CR, LF]
      rw [this, stripCR_concat]
    · have : List.take j (LF :: x) = LF :: x.take (j - 1) := by
        cases j with
        | zero => omega
        | succ k => simp
      rw [this]
      have : List.takeWhile (· != LF) (LF :: x.take (j - 1)) = [] := by simp [List.takeWhile]
      rw [this, List.append_nil, stripCR_clean hc]
    · cases j with
      | zero => omega
      | succ k =>
        cases k with
        | zero =>
          have : List.takeWhile (· != LF) (List.take 1 (CR :: LF :: x)) = [CR] := by
            simp [List.takeWhile, CR, LF]
          rw [this, stripCR_concat]
        | succ m =>
          have : List.takeWhile (· != LF) (List.take (m + 1 + 1) (CR :: LF :: x)) = [CR] := by
            simp [List.takeWhile, CR, LF]
          rw [this, stripCR_concat]

/-- **The loop theorem.** Over any lawful `BufRead` — whatever windows `fill_buf` hands out and
wherever it is interrupted — `read_sequence_limit` at a stream of shape `SeqShape _ bases` returns
exactly the first `max_bases - buf.len()` of `bases` appended to `buf`. -/
theorem readSeqLimitG_shape {B : BufOps σ} (Lw : BufLaws B) : ∀ (fuel : Nat) (s : σ) (bases : Bytes),
    Lw.inv s → SeqShape (Lw.stream s) bases → Lw.mu s < fuel → ∀ (maxBases : Nat) (buf : Bytes),
    (readSeqLimitG B fuel s maxBases buf).1 = .ok (buf ++ bases.take (maxBases - buf.length)) ∧
    Lw.inv (readSeqLimitG B fuel s maxBases buf).2 := by
  intro fuel
  induction fuel with
  | zero => intro s _ _ _ h; omega
  | succ n ih =>
    intro s bases hi hsh hf maxBases buf
    by_cases hlt : buf.length < maxBases
    · obtain ⟨a1, a2, a3⟩ := seqFill_spec Lw (n + 1) s hi hf
      rcases hsf : seqFill B (n + 1) s with ⟨r0, s1⟩
      rw [hsf] at a1 a2 a3
      simp only at a1 a2 a3
      rcases a3 with ⟨b1, b2⟩ | ⟨w, b1, b2, b3, b4, b5, b6⟩
      · subst b1
        simp only [readSeqLimitG, if_pos hlt, hsf]
        exact ih s1 bases a1 (hsh.congr_skip a2) (by omega) maxBases buf
      · subst b1
        have hnf := hsh.nf
        rw [← b2] at hnf b4 b5
        generalize hy : Lw.stream s1 = y at hnf b4 b5
        cases hnf with
        | done hl =>
          have hl0 := lineOf_done hl b4 b5
          simp only [readSeqLimitG, if_pos hlt, hsf, hl0]
          simp only [List.isEmpty_nil, if_true, List.take_nil, List.append_nil]
          exact ⟨trivial, a1⟩
        | @line c r bases' hne hc hr hs' =>
          have hwne : w ≠ [] := by
            intro h0
            have := b5 h0
            cases c with
            | nil => exact hne rfl
            | cons x c' => simp at this
          have hl0 := lineOf_line hne hc hr b4 hwne
          have hwpos : 0 < w.length := List.length_pos_iff.mpr hwne
          have hcpos : 0 < c.length := List.length_pos_iff.mpr hne
          have hplen : (c.take w.length).length = min w.length c.length := List.length_take
          have hp1 : 1 ≤ (c.take w.length).length := by
            rw [hplen]; exact Nat.le_min.mpr ⟨hwpos, hcpos⟩
          have hp2 : (c.take w.length).length ≤ w.length := by rw [hplen]; exact Nat.min_le_left _ _
          have hp3 : (c.take w.length).length ≤ c.length := by rw [hplen]; exact Nat.min_le_right _ _
          have hpne : (c.take w.length).isEmpty = false := by
            cases hct : c.take w.length with
            | nil => rw [hct] at hp1; simp at hp1
            | cons _ _ => rfl
          simp only [readSeqLimitG, if_pos hlt, hsf, hl0, hpne, Bool.false_eq_true, if_false]
          -- the number of bases taken from this window
          generalize hidef : min (maxBases - buf.length) (c.take w.length).length = i
          have hi1 : 1 ≤ i := by rw [← hidef]; exact Nat.le_min.mpr ⟨by omega, hp1⟩
          have hip : i ≤ (c.take w.length).length := by rw [← hidef]; exact Nat.min_le_right _ _
          have hiw : i ≤ w.length := by omega
          have hic : i ≤ c.length := by omega
          have him : i ≤ maxBases - buf.length := by rw [← hidef]; exact Nat.min_le_left _ _
          obtain ⟨c1, c2, c3⟩ := Lw.consume_ok s1 i a1 (by rw [b3]; exact hiw)
          have hshape : SeqShape (Lw.stream (B.consume i s1)) ((c ++ bases').drop i) := by
            rw [c2, hy]
            exact SeqShape.line_drop hc hr hs' i hic
          obtain ⟨d1, d2⟩ := ih (B.consume i s1) _ c1 hshape (by omega) maxBases
            (buf ++ (c.take w.length).take i)
          refine ⟨?_, d2⟩
          rw [d1]
          congr 1
          have ht : (c.take w.length).take i = c.take i := by
            rw [List.take_take]; congr 1; omega
          rw [ht]
          have hlen : (buf ++ c.take i).length = buf.length + i := by simp; omega
          rw [hlen, List.append_assoc]
          congr 1
          have hm : maxBases - buf.length = i + (maxBases - (buf.length + i)) := by omega
          conv => rhs; rw [hm, List.take_add]
          congr 1
          rw [List.take_append_of_le_length hic]
    · simp only [readSeqLimitG, if_neg hlt]
      have : maxBases - buf.length = 0 := by omega
      simp [this, hi]

/-! ## instance 1: `BufReader` of any capacity ≥ 1 over any delivery schedule (C12's layer IO) -/

/-- the laws, from C12's `fillBuf_cases` and `consume_stream` -/
def bufrLaws : BufLaws bufrOps where
  inv b := 0 < b.cap
  stream b := b.stream
  win b := b.buf
  mu b := Noodles.IO.mu b
  fill_ok := by
    intro b w b' hc hf
    rcases Noodles.IO.fillBuf_cases b hc with ⟨b1, h1, _⟩ | ⟨w1, b1, h1, h2, h3, h4, h5, h6⟩
    · have : bufrOps.fill b = Noodles.IO.fillBuf b := rfl
      rw [this, h1] at hf; cases hf
    · have : bufrOps.fill b = Noodles.IO.fillBuf b := rfl
      rw [this, h1] at hf
      simp only [Prod.mk.injEq, Noodles.IO.ReadRes.ok.injEq] at hf
      obtain ⟨rfl, rfl⟩ := hf
      refine ⟨by rw [h4]; exact hc, h3, h2, ?_, h6, ?_⟩
      · rw [← h3, Noodles.IO.BufR.stream, h2]; exact List.prefix_append _ _
      · simp only [Noodles.IO.mu, h3]; omega
  fill_intr := by
    intro b b' hc hf
    rcases Noodles.IO.fillBuf_cases b hc with ⟨b1, h1, h2, h3, h4⟩ | ⟨w1, b1, h1, _⟩
    · have : bufrOps.fill b = Noodles.IO.fillBuf b := rfl
      rw [this, h1] at hf
      simp only [Prod.mk.injEq, true_and] at hf
      subst hf
      exact ⟨by rw [h3]; exact hc, h2, h4⟩
    · have : bufrOps.fill b = Noodles.IO.fillBuf b := rfl
      rw [this, h1] at hf; cases hf
  consume_ok := by
    intro b n hc hn
    have hs := Noodles.IO.consume_stream b n hn
    refine ⟨hc, hs, ?_⟩
    show Noodles.IO.mu (Noodles.IO.consume n b) + n ≤ Noodles.IO.mu b
    have hsrc : (Noodles.IO.consume n b).src = b.src := rfl
    have hlen : n ≤ b.stream.length := by
      simp only [Noodles.IO.BufR.stream, List.length_append]; omega
    simp only [Noodles.IO.mu, hs, hsrc, List.length_drop]
    omega

/-! ## instance 2: the BGZF reader over a well-formed layout (C02's reader model) -/

open Noodles.Bgzf in
/-- the laws, from C02's `fillBuf_spec`, `prefix_of_buf`, `consume_inv`, `consume_off` -/
def rmLaws (L : RM.Layout UInt8) : BufLaws (rmOps L) where
  inv s := RM.Inv L s
  stream s := (RM.flat L).drop (RM.off L s)
  win s := s.data.drop s.cur
  mu s := (RM.flat L).length - RM.off L s
  fill_ok := by
    intro s w s' hi hf
    obtain ⟨r1, r2, r3, r4, _⟩ := RM.fillBuf_spec L s hi
    have hf' : (RM.fillBuf L s).2 = w ∧ (RM.fillBuf L s).1 = s' := by
      have : (rmOps L).fill s = (.ok (RM.fillBuf L s).2, (RM.fillBuf L s).1) := rfl
      rw [this] at hf
      simp only [Prod.mk.injEq, Noodles.IO.ReadRes.ok.injEq] at hf
      exact hf
    obtain ⟨hw, hs'⟩ := hf'
    rw [hs'] at r1 r2 r3
    rw [hw] at r3 r4
    have hpre := RM.prefix_of_buf L s' r1
    rw [← r3, r2] at hpre
    refine ⟨r1, by rw [r2], r3.symm, ?_, ?_, by rw [r2]; exact Nat.le_refl _⟩
    · rw [hpre]; exact List.take_prefix _ _
    · intro h0
      rw [r4 h0]; simp
  fill_intr := by
    intro s s' _ hf
    have : (rmOps L).fill s = (.ok (RM.fillBuf L s).2, (RM.fillBuf L s).1) := rfl
    rw [this] at hf; cases hf
  consume_ok := by
    intro s n hi hn
    have hoff := RM.consume_off L s n hi
    have hrem := RM.inv_remaining_le L s hi
    have hn' : n ≤ s.data.length - s.cur := by simpa using hn
    have hmin : min n (s.data.length - s.cur) = n := Nat.min_eq_left hn'
    rw [hmin] at hoff
    refine ⟨RM.consume_inv L s n hi, ?_, ?_⟩
    · show (RM.flat L).drop (RM.off L (RM.consume n s)) = ((RM.flat L).drop (RM.off L s)).drop n
      rw [hoff, List.drop_drop]
    · show (RM.flat L).length - RM.off L (RM.consume n s) + n ≤ (RM.flat L).length - RM.off L s
      rw [hoff]; omega

/-! ## the indexer's acceptance gives `SeqShape` at every `fai` offset

The next four statements are `seq_step`, `Accepted.seq`, `indexRecord_some` and `indexAll_spec` of
`Noodles/Fasta/Proof.lean` with the structural `SeqShape` in the place of the whole-buffer `SeqAt`
(their proofs only use the three introduction rules, which `SeqShape` has as constructors). -/

theorem shape_step {c t rest bases : Bytes} (hc : CleanL c) (ht : ∀ b ∈ t, b = CR ∨ b = LF)
    (he : AtEol (t ++ rest)) (h : SeqShape rest bases) :
    SeqShape (c ++ (t ++ rest)) (c ++ bases) ∧
    ∀ s, s < c.length → SeqShape ((c ++ (t ++ rest)).drop s) ((c ++ bases).drop s) := by
  have h' : SeqShape (t ++ rest) bases := SeqShape.eol ht h
  constructor
  · cases c with
    | nil => simpa using h'
    | cons b c' => exact SeqShape.line (by simp) hc he h'
  · intro s hs
    exact SeqShape.line_drop hc he h' s (by omega)

theorem Accepted.shape {W B : Nat} (hB : 0 < B) {r rest : Bytes} (h : Accepted W B r rest) :
    Clean (basesOf (bodyOf (splitLines r))) →
    SeqShape r (basesOf (bodyOf (splitLines r))) ∧
    ∀ s, s < (basesOf (bodyOf (splitLines r))).length →
      SeqShape (r.drop (faiOff B W s)) ((basesOf (bodyOf (splitLines r))).drop s) := by
  induction h with
  | stop hl =>
    intro _
    rw [body_isLast hl]
    exact ⟨SeqShape.done hl, fun s hs => by simp [basesOf] at hs⟩
  | @last r hl h1 hw hb =>
    intro hcl
    rw [body_cons hl, body_isLast h1, basesOf_cons] at hcl ⊢
    simp only [basesOf, List.map_nil, List.flatten_nil, List.append_nil] at hcl ⊢
    obtain ⟨t, e1, e2, e3, e4⟩ := line_decomp hcl
    have hr : r = stripEol (nextLine r).1 ++ (t ++ (nextLine r).2) := by
      rw [← List.append_assoc, ← e1, nextLine_append]
    have := shape_step e3 e2 e4 (SeqShape.done h1)
    simp only [List.append_nil] at this
    rw [← hr] at this
    refine ⟨this.1, fun s hs => ?_⟩
    rw [faiOff_lt (by unfold lineBases at hb; omega)]
    exact this.2 s hs
  | @more r rest hl hw hb _ ih =>
    intro hcl
    rw [body_cons hl, basesOf_cons] at hcl ⊢
    obtain ⟨hcl1, hcl2⟩ := Clean_append hcl
    obtain ⟨ih1, ih2⟩ := ih hcl2
    obtain ⟨t, e1, e2, e3, e4⟩ := line_decomp hcl1
    have hr : r = stripEol (nextLine r).1 ++ (t ++ (nextLine r).2) := by
      rw [← List.append_assoc, ← e1, nextLine_append]
    have := shape_step e3 e2 e4 ih1
    rw [← hr] at this
    refine ⟨this.1, fun s hs => ?_⟩
    have hbl : (stripEol (nextLine r).1).length = B := hb
    by_cases hsB : s < B
    · rw [faiOff_lt hsB]
      exact this.2 s (by omega)
    · rw [faiOff_ge hB (by omega)]
      have hdrop : r.drop (W + faiOff B W (s - B)) = (nextLine r).2.drop (faiOff B W (s - B)) := by
        conv => lhs; rw [← nextLine_append r]
        rw [← hw, List.drop_append]
        simp
      have hdb : List.drop s (stripEol (nextLine r).1 ++ basesOf (bodyOf (splitLines (nextLine r).2)))
          = List.drop (s - B) (basesOf (bodyOf (splitLines (nextLine r).2))) := by
        rw [List.drop_append, hbl, List.drop_eq_nil_of_le (by omega)]
        simp
      rw [hdrop, hdb]
      apply ih2
      simp only [List.length_append] at hs
      omega

/-- what the index says about one record, against the naive reading `g` of it — `RecOK` with the
stream shape at every base's `fai` offset -/
def RecShape (f : Bytes) (rec : FaiRec) (g : Bytes × List Bytes) : Prop :=
  RecOK f rec g ∧
  (Clean (basesOf g.2) → ∀ s, s < rec.length →
    SeqShape (f.drop (faiPos rec s)) ((basesOf g.2).drop s))

theorem indexRecord_shape {f src : Bytes} {off : Nat} (hsrc : f.drop off = src)
    {rec : FaiRec} {rest : Bytes} {off' : Nat}
    (h : indexRecord src off = .ok (some (rec, rest, off'))) :
    ∃ g, groupRaw (splitLines src) = g :: groupRaw (splitLines rest) ∧ RecShape f rec g ∧
      f.drop off' = rest ∧ rest.length < src.length := by
  obtain ⟨g0, k1, k2, k3, k4⟩ := indexRecord_some hsrc h
  unfold indexRecord at h
  simp only [] at h
  by_cases hn : (readLine src).2.1 = 0
  · rw [if_pos hn] at h; cases h
  · rw [if_neg hn] at h
    have hsne : src ≠ [] := by
      intro h0; subst h0; exact hn rfl
    cases hpd : parseDefinition (readLine src).1 with
    | error e => rw [hpd] at h; cases h
    | ok nd =>
      rw [hpd] at h
      cases hib : indexBody (readLine src).2.2 with
      | error e => rw [hib] at h; cases h
      | ok g =>
        rw [hib] at h
        simp only [Except.ok.injEq, Option.some.injEq, Prod.mk.injEq] at h
        obtain ⟨hrec, hrest, hoff⟩ := h
        rw [(readLine_snd src).2] at hib hoff
        rw [(readLine_snd src).1] at hrec hoff
        obtain ⟨b1, b2, b3, b4, b5⟩ := indexBody_accepted hib
        have hsrc' : src = (nextLine src).1 ++ (nextLine src).2 := (nextLine_append src).symm
        have hsl := splitLines_eq hsne
        -- the group found by `indexRecord_some` is (definition line, body of the rest)
        have hg0 : g0.2 = bodyOf (splitLines (nextLine src).2) := by
          rw [hsl] at k1
          unfold groupRaw at k1
          split at k1
          · simp only [List.cons.injEq] at k1
            rw [← k1.1]
          · -- the first line is not a definition line: impossible, `RecOK` names it
            rename_i hdef
            exfalso
            obtain ⟨d1, _⟩ := parseDefinition_ok (by rw [← Prod.eta nd] at hpd; exact hpd)
            obtain ⟨c, hcLF, hl0⟩ : ∃ c, LF ∉ c ∧ (nextLine src).1 = c ++ [LF] := by
              rcases nextLine_cases src with h1 | ⟨_, h2⟩
              · exact h1
              · exact absurd h2 b5
            have hbuf : (readLine src).1 = stripCR c := by
              simp [readLine, hl0]
            rw [hbuf] at d1
            have hne : stripCR c ≠ [] := by
              intro h0; rw [h0] at d1; simp at d1
            rw [stripCR_head hne] at d1
            apply hdef
            cases c with
            | nil => simp at d1
            | cons x y => simp at d1; simp [isDef, hl0, d1]
        refine ⟨g0, k1, ⟨k2, ?_⟩, k3, k4⟩
        intro hclean s hs
        rw [hg0] at hclean ⊢
        subst hrec
        have := (b2.shape b1 hclean).2 s (by simpa [b3] using hs)
        have hpos : f.drop (faiPos ⟨nd.1, g.2.2.1, off + (nextLine src).1.length, g.2.1, g.1⟩ s)
            = (nextLine src).2.drop (faiOff g.2.1 g.1 s) := by
          unfold faiPos faiOff
          simp only []
          rw [Nat.add_assoc, Nat.add_assoc, ← List.drop_drop, hsrc, ← List.drop_drop]
          have hd : src.drop (nextLine src).1.length = (nextLine src).2 :=
            calc src.drop (nextLine src).1.length
                = ((nextLine src).1 ++ (nextLine src).2).drop (nextLine src).1.length := by
                  rw [nextLine_append]
              _ = (nextLine src).2 := List.drop_left' rfl
          rw [hd]
        rw [hpos]
        exact this

theorem indexAll_shape (f : Bytes) : ∀ (fuel : Nat) (src : Bytes) (off : Nat) (recs : List FaiRec),
    f.drop off = src → indexAll fuel src off = .ok recs →
    Forall₂ (RecShape f) recs (groupRaw (splitLines src)) := by
  intro fuel
  induction fuel with
  | zero => intro src off recs _ h; simp [indexAll] at h
  | succ n ih =>
    intro src off recs hsrc h
    unfold indexAll at h
    cases hir : indexRecord src off with
    | error e => rw [hir] at h; cases h
    | ok o =>
      rw [hir] at h
      cases o with
      | none =>
        simp only [Except.ok.injEq] at h
        subst h
        rw [indexRecord_none hir]
        exact .nil
      | some t =>
        obtain ⟨rec, rest, off'⟩ := t
        simp only [] at h
        cases hia : indexAll n rest off' with
        | error e => rw [hia] at h; cases h
        | ok recs' =>
          rw [hia] at h
          simp only [Except.ok.injEq] at h
          subst h
          obtain ⟨g, g1, g2, g3, _⟩ := indexRecord_shape hsrc hir
          rw [g1]
          exact .cons g2 (ih _ _ _ g3 hia)

/-! ## `Reader::query` over a lawful `BufRead` -/

theorem SeqShape.ne_nil {xs bases : Bytes} (h : SeqShape xs bases) (hb : bases ≠ []) : xs ≠ [] := by
  induction h with
  | done _ => exact absurd rfl hb
  | eol _ _ ih =>
    intro h0
    exact ih hb (List.append_eq_nil_iff.mp h0).2
  | line hne _ _ _ _ =>
    intro h0
    exact hne (List.append_eq_nil_iff.mp h0).1

/-- record `i` of the index and record `i` of the naive parse describe the same raw lines -/
theorem recShape_at {f : Bytes} {ix : List FaiRec} (h : indexFile f = .ok ix)
    {i : Nat} {rec : FaiRec} {name bases : Bytes}
    (hrec : ix[i]? = some rec) (hnv : (naive f)[i]? = some (name, bases)) :
    ∃ g, g ∈ groupRaw (splitLines f) ∧ RecShape f rec g ∧ name = nameOf g.1 ∧ bases = basesOf g.2 := by
  have hall := indexAll_shape f _ f 0 ix rfl h
  unfold naive at hnv
  rw [List.getElem?_map] at hnv
  cases hg : (groupRaw (splitLines f))[i]? with
  | none => rw [hg] at hnv; cases hnv
  | some g =>
    rw [hg] at hnv
    simp only [Option.map_some, Option.some.injEq, Prod.mk.injEq] at hnv
    exact ⟨g, List.mem_of_getElem? hg, forall₂_get hall i rec g hrec hg, hnv.1.symm, hnv.2.symm⟩

/-- the stream from the `fai` offset of an in-range start on, and the offset lies inside the file -/
theorem shape_at_start {f : Bytes} {ix : List FaiRec} (h : indexFile f = .ok ix)
    {i : Nat} {rec : FaiRec} {name bases : Bytes}
    (hrec : ix[i]? = some rec) (hnv : (naive f)[i]? = some (name, bases)) (hclean : Clean bases)
    (start : Option Nat) (hs1 : 1 ≤ start.getD 1) (hs2 : start.getD 1 ≤ bases.length) :
    recQuery rec start = .ok (faiPos rec (start.getD 1 - 1)) ∧
    SeqShape (f.drop (faiPos rec (start.getD 1 - 1))) (bases.drop (start.getD 1 - 1)) ∧
    faiPos rec (start.getD 1 - 1) < f.length := by
  obtain ⟨g, _, ⟨⟨_, hlen, _, _, _⟩, hseq⟩, _, hb⟩ := recShape_at h hrec hnv
  subst hb
  have hq : recQuery rec start = .ok (faiPos rec (start.getD 1 - 1)) := by
    cases start with
    | none => rfl
    | some p =>
      simp only [Option.getD_some] at hs1 hs2 ⊢
      simp only [recQuery]
      rw [if_neg (by omega)]
  have hsh := hseq hclean (start.getD 1 - 1) (by omega)
  refine ⟨hq, hsh, ?_⟩
  have hne : (basesOf g.2).drop (start.getD 1 - 1) ≠ [] := by
    intro h0
    have := congrArg List.length h0
    simp at this; omega
  have := hsh.ne_nil hne
  by_cases hlt : faiPos rec (start.getD 1 - 1) < f.length
  · exact hlt
  · exact absurd (List.drop_eq_nil_of_le (by omega)) this

theorem extract_eq (bases : Bytes) (st en : Nat) (hs1 : 1 ≤ st) (hse : st ≤ en) :
    (bases.drop (st - 1)).take (en - st + 1) = bases.extract (st - 1) (min en bases.length) := by
  simp only [List.extract]
  by_cases he : en ≤ bases.length
  · rw [Nat.min_eq_left he]; congr 1; omega
  · rw [Nat.min_eq_right (by omega), List.take_of_length_le (by simp; omega),
      List.take_of_length_le (by simp)]

/-- `Reader::query` over a lawful `BufRead` whose seek lands on the `fai` offset: the answer is the
first `end - start + 1` bases of the shape at that offset -/
theorem queryG_shape {B : BufOps σ} (Lw : BufLaws B) (seek : Nat → Except Err Unit × σ)
    (fuel : σ → Nat) (rec : FaiRec) (start end_ : Option Nat) (pos : Nat) (s : σ) (tail : Bytes)
    (hq : recQuery rec start = .ok pos) (hseek : seek pos = (.ok (), s)) (hi : Lw.inv s)
    (hsh : SeqShape (Lw.stream s) tail) (hf : Lw.mu s < fuel s)
    (hse : start.getD 1 ≤ end_.getD usizeMax) :
    (queryG B seek fuel rec start end_).1 =
      .ok (tail.take (end_.getD usizeMax - start.getD 1 + 1)) ∧
    ∃ s', (queryG B seek fuel rec start end_).2 = some s' ∧ Lw.inv s' := by
  obtain ⟨a1, a2⟩ := readSeqLimitG_shape Lw (fuel s) s tail hi hsh hf
    (end_.getD usizeMax - start.getD 1 + 1) []
  simp only [List.nil_append, List.length_nil, Nat.sub_zero] at a1
  unfold queryG
  rw [hq]
  simp only [hseek]
  rw [if_neg (by omega)]
  rcases hr : readSeqLimitG B (fuel s) s (end_.getD usizeMax - start.getD 1 + 1) [] with ⟨r, s'⟩
  rw [hr] at a1 a2
  simp only at a1 a2
  subst a1
  exact ⟨rfl, s', rfl, a2⟩

/-- a start beyond the sequence length is rejected before anything is read, over any reader -/
theorem queryG_beyond {B : BufOps σ} (seek : Nat → Except Err Unit × σ) (fuel : σ → Nat)
    (rec : FaiRec) (p : Nat) (end_ : Option Nat) (hp : rec.length < p) :
    queryG B seek fuel rec (some p) end_ = (.error .invalidInput, none) := by
  unfold queryG recQuery
  simp only []
  rw [if_pos (by omega)]

end Noodles.Fasta
