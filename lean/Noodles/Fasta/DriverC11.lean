import Noodles.Basic.Wire
import Noodles.Fasta.Model
import Noodles.Fasta.DriverC11More
import Noodles.Fasta.DriverC11Indexer
/-! Line-protocol handler for the FASTA/FASTQ model (`c11 …`). -/
namespace Noodles.Fasta
open Noodles.Wire

def errStr : Err → String
  | .invalidData => "err:invalid-data"
  | .invalidInput => "err:invalid-input"
  | .eof => "err:eof"
  | .fuel => "err:fuel"

def fmtList (l : List String) : String := if l.isEmpty then "-" else ",".intercalate l

def fmtIndex (ix : List FaiRec) : String :=
  fmtList (ix.map fun r => s!"{hex r.name}:{r.length}:{r.position}:{r.lineBases}:{r.lineWidth}")

def optNat (s : String) : Option (Option Nat) :=
  if s = "-" then some none else s.toNat?.map some

/-- `namehex:start:end` with `-` for an unbounded side -/
def parseQuery (q : String) : Option (Bytes × Option Nat × Option Nat) :=
  match q.splitOn ":" with
  | [n, s, e] => do pure (← unhex n, ← optNat s, ← optNat e)
  | _ => none

def fmtRes : Except Err Bytes → String
  | .ok b => hex b
  | .error e => errStr e

/-- `namehex:deschex|~:seqhex` -/
def parseFaRec (s : String) : Option FaRec :=
  match s.splitOn ":" with
  | [n, d, q] => do
    let d ← if d = "~" then some none else (unhex d).map some
    pure ⟨← unhex n, d, ← unhex q⟩
  | _ => none

def fmtFaRec (r : FaRec) : String :=
  s!"{hex r.name}:{match r.description with | none => "~" | some d => hex d}:{hex r.sequence}"

def parseFqRec (s : String) : Option FqRec :=
  match s.splitOn ":" with
  | [n, d, q, u] => do pure ⟨← unhex n, ← unhex d, ← unhex q, ← unhex u⟩
  | _ => none

def fmtFqRec (r : FqRec) : String :=
  s!"{hex r.name}:{hex r.description}:{hex r.sequence}:{hex r.quality}"

def parseList {α : Type} (p : String → Option α) (s : String) : Option (List α) :=
  if s = "-" then some [] else (s.splitOn ",").mapM p

def handleC11 : List String → String
  | ["fai", file, queries] =>
    match unhex file, parseList parseQuery queries with
    | some f, some qs =>
      match indexFile f with
      | .error e => errStr e
      | .ok ix =>
        let answers := qs.map fun (n, s, e) => fmtRes (readerQuery f ix n s e)
        " ".intercalate (fmtIndex ix :: answers)
    | _, _ => "bad-op"
  | ["faread", file] =>
    match unhex file with
    | some f => match readFa f with
      | .ok rs => fmtList (rs.map fmtFaRec)
      | .error e => errStr e
    | none => "bad-op"
  | ["fawrite", lb, recs] =>
    match lb.toNat?, parseList parseFaRec recs with
    | some lb, some rs => hex (writeFa lb rs)
    | _, _ => "bad-op"
  | ["fqread", file] =>
    match unhex file with
    | some f => match readFq f with
      | .ok rs => fmtList (rs.map fmtFqRec)
      | .error e => errStr e
    | none => "bad-op"
  | ["fqwrite", sep, recs] =>
    match sep.toNat?, parseList parseFqRec recs with
    | some sep, some rs => hex (writeFq (UInt8.ofNat sep) rs)
    | _, _ => "bad-op"
  | ["fqindex", file] =>
    match unhex file with
    | some f => match fqIndexFile f with
      | .ok ix => fmtList (ix.map fun r =>
          s!"{hex r.name}:{r.length}:{r.sequenceOffset}:{r.lineBases}:{r.lineWidth}:{r.qualityOffset}")
      | .error e => errStr e
    | none => "bad-op"
  | ws => ((More.handleC11More ws) <|> (Idx.handleC11Indexer ws)).getD "bad-op"

end Noodles.Fasta
