import Noodles.Fasta.Model
/-!
# The naive whole-file reading of a FASTA file (specification side of C11)

Nothing here follows the noodles code: the file is cut into raw lines, lines that start with `>`
open a record, every other line belongs to the record opened last, terminators are stripped and
the rest concatenated.
-/
namespace Noodles.Fasta

/-- the raw lines of a file, each with its LF (the last one possibly without) -/
def splitLines : Bytes → List Bytes
  | [] => []
  | b :: r =>
    if b = LF then [b] :: splitLines r
    else match splitLines r with
      | [] => [[b]]
      | l :: ls => (b :: l) :: ls

/-- a raw line without its terminator (LF, CR LF, or a lone CR before EOF) -/
def stripEol (l : Bytes) : Bytes := stripCR (stripLF l)

/-- a definition line -/
def isDef (l : Bytes) : Bool := l.head? == some GT

/-- the sequence lines that follow a definition line: everything up to the next definition -/
def bodyOf (ls : List Bytes) : List Bytes := ls.takeWhile fun l => !isDef l

/-- (definition line, its sequence lines) for every definition line of the file -/
def groupRaw : List Bytes → List (Bytes × List Bytes)
  | [] => []
  | l :: ls => if isDef l then (l, bodyOf ls) :: groupRaw ls else groupRaw ls

/-- the name: what follows `>` up to the first whitespace -/
def nameOf (defLine : Bytes) : Bytes := ((stripEol defLine).drop 1).takeWhile fun b => !isWs b

/-- the bases of a record: its sequence lines without terminators, concatenated -/
def basesOf (body : List Bytes) : Bytes := (body.map stripEol).flatten

/-- the naive parse: (name, bases) of every record, in file order -/
def naive (f : Bytes) : List (Bytes × Bytes) :=
  (groupRaw (splitLines f)).map fun g => (nameOf g.1, basesOf g.2)

/-- number of bases on a raw line -/
def lineBases (l : Bytes) : Nat := (stripEol l).length

/-- every line but the last has width `W` and `B` bases; the last one has at most that -/
def UniformTail (W B : Nat) : List Bytes → Prop
  | [] => True
  | [l] => l.length ≤ W ∧ lineBases l ≤ B
  | l :: l' :: ls => (l.length = W ∧ lineBases l = B) ∧ UniformTail W B (l' :: ls)

/-- the sequence lines of one record are not ragged: there is a first line with at least one base,
every further line but the last has the same width and number of bases, the last has no more -/
def Uniform : List Bytes → Prop
  | [] => False
  | l :: ls => 0 < lineBases l ∧ UniformTail l.length (lineBases l) ls

/-- the alphabet hypothesis: no CR and no `>` among the bases (LF cannot occur) -/
def Clean (bases : Bytes) : Prop := ∀ b ∈ bases, b ≠ CR ∧ b ≠ GT

/-- bytes that can be written as bases: no CR, LF, `>` -/
def CleanL (c : Bytes) : Prop := ∀ b ∈ c, b ≠ CR ∧ b ≠ LF ∧ b ≠ GT

/-- a FASTA record that the text format can carry: a non-empty name without whitespace; a
description (if any) that is non-empty, has no LF and no whitespace at either end; bases without
CR / LF / `>` -/
structure ValidFa (r : FaRec) : Prop where
  name_ne : r.name ≠ []
  name_nows : ∀ b ∈ r.name, isWs b = false
  desc_ok : ∀ d, r.description = some d → d ≠ [] ∧ LF ∉ d ∧
    (∀ b, d.head? = some b → isWs b = false) ∧ (∀ b, d.getLast? = some b → isWs b = false)
  seq_clean : CleanL r.sequence

/-- a FASTQ record that the text format can carry: the name has no SP / TAB / LF (and does not end
with CR when there is no description); description, sequence and qualities have no LF and do not
end with CR. Qualities may contain `@` and `+` anywhere. -/
structure ValidFq (r : FqRec) : Prop where
  name_ok : ∀ b ∈ r.name, b ≠ SP ∧ b ≠ TAB ∧ b ≠ LF
  name_cr : r.description = [] → r.name.getLast? ≠ some CR
  desc_ok : LF ∉ r.description ∧ r.description.getLast? ≠ some CR
  seq_ok : LF ∉ r.sequence ∧ r.sequence.getLast? ≠ some CR
  qual_ok : LF ∉ r.quality ∧ r.quality.getLast? ≠ some CR

/-- `start / line_bases * line_width + start % line_bases` -/
def faiOff (B W s : Nat) : Nat := s / B * W + s % B

end Noodles.Fasta
