import Noodles.Fasta.Model
import Noodles.Fasta.Spec
/-!
# The FASTQ indexer, completely (model and naive specification for C11)

`Noodles/Fasta/Model.lean` has `fqIndexRecord` (noodles-fastq `io/indexer.rs::index_record`) without
the UTF-8 check of the name. Here:

* `utf8Valid` — `core::str::from_utf8(..).is_ok()` (the well-formed byte sequences of the Unicode
  standard, table 3-7; `std` is an external component: the harness compares this function with the
  real one through the indexer on every run);
* `fqIndexRecordU` / `fqIndexFileU` — `index_record` with `str::from_utf8(self.record.name())`
  (`InvalidData`), and the `while let Some(record) = indexer.index_record()?` loop of
  `fastq::fs::index`;
* the naive reading of a FASTQ file that the theorems compare it with: the raw lines of the file
  taken four at a time (`fqGroups`), nothing else.

There is no query API for a FASTQ index in noodles (`fai::Record` has accessors only), so what the
offsets mean is stated on the bytes of the file (`Props/C11More.lean`).
-/
namespace Noodles.Fasta

/-! ## `str::from_utf8` -/

def isCont (b : UInt8) : Bool := 0x80 ≤ b && b ≤ 0xBF

/-- second byte of a three-byte sequence: no overlong forms (E0), no surrogates (ED) -/
def second3 (b0 b1 : UInt8) : Bool :=
  if b0 = 0xE0 then 0xA0 ≤ b1 && b1 ≤ 0xBF
  else if b0 = 0xED then 0x80 ≤ b1 && b1 ≤ 0x9F
  else isCont b1

/-- second byte of a four-byte sequence: no overlong forms (F0), nothing above U+10FFFF (F4) -/
def second4 (b0 b1 : UInt8) : Bool :=
  if b0 = 0xF0 then 0x90 ≤ b1 && b1 ≤ 0xBF
  else if b0 = 0xF4 then 0x80 ≤ b1 && b1 ≤ 0x8F
  else isCont b1

/-- `core::str::from_utf8(s).is_ok()`; `fuel ≥ s.length` -/
def utf8ValidF : Nat → Bytes → Bool
  | _, [] => true
  | 0, _ :: _ => false
  | fuel + 1, b0 :: rest =>
    if b0 < 0x80 then utf8ValidF fuel rest
    else if 0xC2 ≤ b0 && b0 ≤ 0xDF then
      match rest with
      | b1 :: r => isCont b1 && utf8ValidF fuel r
      | _ => false
    else if 0xE0 ≤ b0 && b0 ≤ 0xEF then
      match rest with
      | b1 :: b2 :: r => second3 b0 b1 && isCont b2 && utf8ValidF fuel r
      | _ => false
    else if 0xF0 ≤ b0 && b0 ≤ 0xF4 then
      match rest with
      | b1 :: b2 :: b3 :: r => second4 b0 b1 && isCont b2 && isCont b3 && utf8ValidF fuel r
      | _ => false
    else false

def utf8Valid (s : Bytes) : Bool := utf8ValidF s.length s

/-! ## the indexer with the UTF-8 check -/

/-- fastq `Indexer::index_record`: `read_definition`, `str::from_utf8(name)` (`InvalidData`), then
three `read_until(b'\n')` — the sequence line, the plus line (not looked at), the quality line -/
def fqIndexRecordU (src : Bytes) (offset : Nat) : Except Err (Option (FqFaiRec × Bytes × Nat)) :=
  match fqIndexRecord src offset with
  | .error e => .error e
  | .ok none => .ok none
  | .ok (some (rec, rest, offset')) =>
    if utf8Valid rec.name then .ok (some (rec, rest, offset')) else .error .invalidData

def fqIndexAllU : Nat → Bytes → Nat → Except Err (List FqFaiRec)
  | 0, _, _ => .error .fuel
  | fuel + 1, src, offset =>
    match fqIndexRecordU src offset with
    | .error e => .error e
    | .ok none => .ok []
    | .ok (some (rec, rest, offset')) =>
      match fqIndexAllU fuel rest offset' with
      | .error e => .error e
      | .ok recs => .ok (rec :: recs)

/-- `fastq::fs::index` on the bytes of a file -/
def fqIndexFileU (f : Bytes) : Except Err (List FqFaiRec) := fqIndexAllU (f.length + 1) f 0

/-! ## the naive reading: raw lines, four at a time -/

/-- four consecutive raw lines (with their terminators) and the offset of the first; lines missing
at the end of the file are empty -/
structure FqRaw where
  off : Nat
  l0 : Bytes
  l1 : Bytes
  l2 : Bytes
  l3 : Bytes
  deriving Repr, DecidableEq

def fqGroups : Nat → List Bytes → List FqRaw
  | _, [] => []
  | off, [l0] => [⟨off, l0, [], [], []⟩]
  | off, [l0, l1] => [⟨off, l0, l1, [], []⟩]
  | off, [l0, l1, l2] => [⟨off, l0, l1, l2, []⟩]
  | off, l0 :: l1 :: l2 :: l3 :: rest =>
    ⟨off, l0, l1, l2, l3⟩ :: fqGroups (off + l0.length + l1.length + l2.length + l3.length) rest

/-- the name on a definition line: what follows the first byte up to the first SP / TAB, or up to
the line's LF — without the CR of a CR LF —, or everything when the line has neither -/
def fqNameOf (l0 : Bytes) : Bytes :=
  let body := l0.drop 1
  let pre := body.takeWhile fun b => !(b == SP || b == TAB || b == LF)
  if body.drop pre.length = [LF] then stripCR pre else pre

/-- a line without its trailing ASCII whitespace (LF, CR, but also SP / TAB / FF) -/
def rtrim (l : Bytes) : Bytes := (l.reverse.dropWhile isWs).reverse

/-- the index record the four lines stand for -/
def fqNaiveRec (g : FqRaw) : FqFaiRec :=
  ⟨fqNameOf g.l0, (rtrim g.l1).length, g.off + g.l0.length, (rtrim g.l1).length, g.l1.length,
    g.off + g.l0.length + g.l1.length + g.l2.length⟩

/-- what the indexer requires of a group: the first line starts with `@`, the name is UTF-8 -/
def fqGroupOk (g : FqRaw) : Bool := g.l0.head? == some AT && utf8Valid (fqNameOf g.l0)

/-- the naive index of a file: `none` when some group is not acceptable -/
def fqNaiveIndex (f : Bytes) : Option (List FqFaiRec) :=
  let gs := fqGroups 0 (splitLines f)
  if gs.all fqGroupOk then some (gs.map fqNaiveRec) else none

end Noodles.Fasta
