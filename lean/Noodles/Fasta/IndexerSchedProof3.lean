import Noodles.Fasta.IndexerSchedProof2
import Noodles.Fasta.WriteReadProof
/-! Helper lemmas for `Noodles/Props/C11Indexer.lean`, part 3: where the hypothesis `LinesClean`
holds (files of the FASTA writer) and what it gives (the alphabet hypothesis `Clean` of the query
theorems for every record of the naive parse). -/
namespace Noodles.Fasta

theorem mem_takeWhile_both {α : Type} (p : α → Bool) : ∀ (ls : List α) (l : α),
    l ∈ ls.takeWhile p → l ∈ ls ∧ p l = true := by
  intro ls
  induction ls with
  | nil => intro l h; simp at h
  | cons x xs ih =>
    intro l h
    rw [List.takeWhile_cons] at h
    split at h
    · rename_i hx
      rcases List.mem_cons.mp h with rfl | h
      · exact ⟨List.mem_cons_self .., hx⟩
      · exact ⟨List.mem_cons_of_mem _ (ih l h).1, (ih l h).2⟩
    · simp at h

theorem mem_bodyOf {ls : List Bytes} {l : Bytes} (h : l ∈ bodyOf ls) :
    l ∈ ls ∧ isDef l = false := by
  unfold bodyOf at h
  obtain ⟨h1, h2⟩ := mem_takeWhile_both _ ls l h
  exact ⟨h1, by simpa using h2⟩

theorem mem_groupRaw : ∀ (ls : List Bytes) (g : Bytes × List Bytes), g ∈ groupRaw ls →
    ∀ l ∈ g.2, l ∈ ls ∧ isDef l = false := by
  intro ls
  induction ls with
  | nil => intro g hg; simp [groupRaw] at hg
  | cons x xs ih =>
    intro g hg l hl
    unfold groupRaw at hg
    split at hg
    · rcases List.mem_cons.mp hg with rfl | hg
      · obtain ⟨h1, h2⟩ := mem_bodyOf hl
        exact ⟨List.mem_cons_of_mem _ h1, h2⟩
      · obtain ⟨h1, h2⟩ := ih g hg l hl
        exact ⟨List.mem_cons_of_mem _ h1, h2⟩
    · obtain ⟨h1, h2⟩ := ih g hg l hl
      exact ⟨List.mem_cons_of_mem _ h1, h2⟩

/-- under `LinesClean` the bases of every record of the naive parse are `Clean` -/
theorem naive_clean_of_linesClean (f : Bytes) (h : LinesClean f) (i : Nat) (name bases : Bytes)
    (hnv : (naive f)[i]? = some (name, bases)) : Clean bases := by
  have hm := List.mem_of_getElem? hnv
  unfold naive at hm
  obtain ⟨g, hg, he⟩ := List.mem_map.mp hm
  have hb : bases = basesOf g.2 := by
    have := congrArg Prod.snd he
    exact this.symm
  subst hb
  intro b hb
  unfold basesOf at hb
  obtain ⟨s, hs, hbs⟩ := List.mem_flatten.mp hb
  obtain ⟨l, hl, rfl⟩ := List.mem_map.mp hs
  obtain ⟨h1, h2⟩ := mem_groupRaw _ g hg l hl
  exact h l h1 h2 b hbs

theorem splitLines_line : ∀ (a b : Bytes), LF ∉ a →
    splitLines (a ++ LF :: b) = (a ++ [LF]) :: splitLines b := by
  intro a
  induction a with
  | nil => intro b _; simp [splitLines]
  | cons x a ih =>
    intro b h
    have hx : x ≠ LF := fun e => h (by simp [e])
    have ha : LF ∉ a := fun e => h (List.mem_cons_of_mem _ e)
    rw [List.cons_append, splitLines, if_neg hx, ih b ha]
    rfl

theorem linesClean_nil : LinesClean [] := by
  intro l hl; simp [splitLines] at hl

theorem linesClean_line {a b : Bytes} (ha : LF ∉ a)
    (h1 : isDef (a ++ [LF]) = false → Clean (stripEol (a ++ [LF]))) (h2 : LinesClean b) :
    LinesClean (a ++ LF :: b) := by
  intro l hl
  rw [splitLines_line a b ha] at hl
  rcases List.mem_cons.mp hl with rfl | hl
  · exact h1
  · exact h2 l hl

theorem cleanL_take {c : Bytes} (h : CleanL c) (n : Nat) : CleanL (c.take n) :=
  fun b hb => h b (List.mem_of_mem_take hb)

theorem cleanL_drop {c : Bytes} (h : CleanL c) (n : Nat) : CleanL (c.drop n) :=
  fun b hb => h b (List.mem_of_mem_drop hb)

theorem linesClean_writeSeqLines (lb : Nat) (rest : Bytes) (hr : LinesClean rest) :
    ∀ (fuel : Nat) (bases : Bytes), CleanL bases →
      LinesClean (writeSeqLines lb fuel bases ++ rest) := by
  intro fuel
  induction fuel with
  | zero => intro bases _; simpa [writeSeqLines] using hr
  | succ fuel ih =>
    intro bases hc
    unfold writeSeqLines
    split
    · simpa using hr
    · rw [List.append_assoc, List.cons_append]
      have hct := cleanL_take hc lb
      apply linesClean_line
      · intro e; exact (hct LF e).2.1 rfl
      · intro _
        unfold stripEol
        rw [stripLF_concat, stripCR_clean hct]
        intro b hb
        exact ⟨(hct b hb).1, (hct b hb).2.2⟩
      · exact ih _ (cleanL_drop hc lb)

theorem isWs_ne_LF {b : UInt8} (h : isWs b = false) : b ≠ LF := by
  intro e; subst e; revert h; decide

theorem linesClean_writeFaRecord (lb : Nat) (r : FaRec) (hv : ValidFa r) (rest : Bytes)
    (hr : LinesClean rest) : LinesClean (writeFaRecord lb r ++ rest) := by
  unfold writeFaRecord
  have key : ∀ (X W : Bytes), (X ++ LF :: W) ++ rest = X ++ LF :: (W ++ rest) := by
    intros; simp
  rw [key]
  apply linesClean_line
  · intro e
    rcases List.mem_append.mp e with e | e
    · rcases List.mem_cons.mp e with e | e
      · exact absurd e (by decide)
      · exact isWs_ne_LF (hv.name_nows _ e) rfl
    · cases hd : r.description with
      | none => rw [hd] at e; simp at e
      | some d =>
        rw [hd] at e
        rcases List.mem_cons.mp e with e | e
        · exact absurd e (by decide)
        · exact (hv.desc_ok d hd).2.1 e
  · intro hdef
    simp [isDef] at hdef
  · exact linesClean_writeSeqLines lb rest hr _ _ hv.seq_clean

/-- the files of the FASTA writer are `LinesClean`, at every line width -/
theorem linesClean_writeFa (lb : Nat) (hlb : 0 < lb) (rs : List FaRec) (hv : ∀ r ∈ rs, ValidFa r) :
    LinesClean (writeFa lb rs) := by
  have _ := hlb
  induction rs with
  | nil => exact linesClean_nil
  | cons r rs ih =>
    have : writeFa lb (r :: rs) = writeFaRecord lb r ++ writeFa lb rs := by
      simp [writeFa]
    rw [this]
    exact linesClean_writeFaRecord lb r (hv r (List.mem_cons_self ..)) _
      (ih (fun r' h' => hv r' (List.mem_cons_of_mem _ h')))

end Noodles.Fasta
