import Noodles.Fasta.FqIndex
import Noodles.Fasta.Proof
/-!
# Proofs about the FASTQ indexer (helper lemmas for C11)

`fqIndexRecord` and `fqReadRecord` are both positional: each consumes exactly four raw lines
(`nextLine` four times). `fqLines` names them; everything else follows from that.
-/
namespace Noodles.Fasta

/-! ## `read_definition` consumes exactly one raw line -/

def notNeedle (b : UInt8) : Bool := !(b == SP || b == TAB || b == LF)

theorem nextLine_append_noLF (c x : Bytes) (hc : LF ∉ c) :
    nextLine (c ++ x) = (c ++ (nextLine x).1, (nextLine x).2) := by
  induction c with
  | nil => rfl
  | cons b r ih =>
    have hb : b ≠ LF := fun h => hc (by simp [h])
    have hr : LF ∉ r := fun h => hc (List.mem_cons_of_mem _ h)
    simp [nextLine, hb, ih hr]

theorem takeWhile_notNeedle_noLF (r : Bytes) : LF ∉ r.takeWhile notNeedle := by
  induction r with
  | nil => simp
  | cons b r ih =>
    rw [List.takeWhile_cons]
    split
    · rename_i hb
      intro h
      rcases List.mem_cons.mp h with h | h
      · rw [← h] at hb; simp [notNeedle] at hb
      · exact ih h
    · simp

theorem takeWhile_append_stop (p : UInt8 → Bool) (c x : Bytes) (hc : ∀ b ∈ c, p b = true)
    (hx : ∀ b, x.head? = some b → p b = false) : (c ++ x).takeWhile p = c := by
  induction c with
  | nil =>
    cases x with
    | nil => rfl
    | cons b r => simp [List.takeWhile, hx b rfl]
  | cons b r ih =>
    simp [List.takeWhile, hc b (by simp), ih (fun y hy => hc y (List.mem_cons_of_mem _ hy))]

theorem all_takeWhile (p : UInt8 → Bool) (r : Bytes) : ∀ b ∈ r.takeWhile p, p b = true := by
  induction r with
  | nil => intro b hb; simp at hb
  | cons x r ih =>
    intro b hb
    rw [List.takeWhile_cons] at hb
    split at hb
    · rcases List.mem_cons.mp hb with rfl | h
      · assumption
      · exact ih b h
    · simp at hb

theorem drop_takeWhile_head (p : UInt8 → Bool) (r : Bytes) :
    ∀ b, (r.drop (r.takeWhile p).length).head? = some b → p b = false := by
  induction r with
  | nil => intro b hb; simp at hb
  | cons x r ih =>
    intro b hb
    rw [List.takeWhile_cons] at hb
    split at hb
    · simp only [List.length_cons, List.drop_succ_cons] at hb; exact ih b hb
    · rename_i hx
      simp only [List.length_nil, List.drop_zero, List.head?_cons, Option.some.injEq] at hb
      subst hb; simpa using hx

theorem drop_takeWhile_length (p : UInt8 → Bool) (r : Bytes) :
    r.drop (r.takeWhile p).length = r.dropWhile p := by
  induction r with
  | nil => rfl
  | cons x r ih =>
    cases hx : p x <;> simp [List.takeWhile_cons, List.dropWhile_cons, hx, ih]

/-- **`read_definition`** (after the `@`) consumes exactly the raw line, and the name it finds is the
naive one -/
theorem fqReadDefBody_line (r0 : Bytes) :
    (fqReadDefBody r0).1 = fqNameOf (AT :: (nextLine r0).1) ∧
    (fqReadDefBody r0).2.2.1 = (nextLine r0).1.length ∧
    (fqReadDefBody r0).2.2.2 = (nextLine r0).2 := by
  have hsplit : r0 = r0.takeWhile notNeedle ++ r0.drop (r0.takeWhile notNeedle).length := by
    rw [drop_takeWhile_length]; exact (List.takeWhile_append_dropWhile).symm
  have hnoLF := takeWhile_notNeedle_noLF r0
  have hall := all_takeWhile notNeedle r0
  have hstop := drop_takeWhile_head notNeedle r0
  have hpre' : (List.takeWhile (fun b => !(b == SP || b == TAB || b == LF)) r0) = r0.takeWhile notNeedle := rfl
  generalize hpre : r0.takeWhile notNeedle = pre at hsplit hnoLF hall hstop hpre'
  generalize hpost : r0.drop pre.length = post at hsplit hstop
  have hnl : nextLine r0 = (pre ++ (nextLine post).1, (nextLine post).2) := by
    conv => lhs; rw [hsplit]
    exact nextLine_append_noLF pre post hnoLF
  -- the naive name of the line
  have hname : fqNameOf (AT :: (nextLine r0).1) =
      if (nextLine post).1 = [LF] then stripCR pre else pre := by
    unfold fqNameOf
    simp only [List.drop_succ_cons, List.drop_zero]
    rw [hnl]
    simp only []
    have htw : (pre ++ (nextLine post).1).takeWhile (fun b => !(b == SP || b == TAB || b == LF)) = pre := by
      apply takeWhile_append_stop _ pre _ hall
      intro b hb
      rw [nextLine_fst_head] at hb
      exact hstop b hb
    rw [htw, List.drop_left]
  rw [hname, hnl]
  cases post with
  | nil =>
    have hfq : fqReadDefBody r0 = (pre, [], pre.length, []) := by
      unfold fqReadDefBody
      simp only [hpre', hpost]
    rw [hfq]
    simp [nextLine]
  | cons d rest =>
    by_cases hd : d = LF
    · subst hd
      have hfq : fqReadDefBody r0 = (stripCR pre, [], pre.length + 1, rest) := by
        unfold fqReadDefBody
        simp only [hpre', hpost, if_true]
      rw [hfq]
      simp [nextLine]
    · have hne : (nextLine (d :: rest)).1 ≠ [LF] := by
        simp [nextLine, hd]
      have hfq : fqReadDefBody r0 =
          (pre, (readLine rest).1, pre.length + 1 + (readLine rest).2.1, (readLine rest).2.2) := by
        unfold fqReadDefBody
        simp only [hpre', hpost, if_neg hd]
      rw [hfq]
      simp only [if_neg hne]
      refine ⟨trivial, ?_, ?_⟩
      · simp [nextLine, hd, (readLine_snd rest).1]; omega
      · simp [nextLine, hd, (readLine_snd rest).2]

/-! ## the four raw lines at a record start -/

/-- the four raw lines from `src` on and what follows them -/
structure Fq4 where
  l0 : Bytes
  l1 : Bytes
  l2 : Bytes
  l3 : Bytes
  rest : Bytes

def fqLines (src : Bytes) : Fq4 :=
  let r1 := (nextLine src).2
  let r2 := (nextLine r1).2
  let r3 := (nextLine r2).2
  ⟨(nextLine src).1, (nextLine r1).1, (nextLine r2).1, (nextLine r3).1, (nextLine r3).2⟩

theorem nextLine_nil : nextLine ([] : Bytes) = ([], []) := rfl

theorem fqLines_append (src : Bytes) :
    src = (fqLines src).l0 ++ ((fqLines src).l1 ++ ((fqLines src).l2 ++ ((fqLines src).l3 ++ (fqLines src).rest))) := by
  simp only [fqLines, nextLine_append]

theorem fqLines_rest_lt {src : Bytes} (h : src ≠ []) : (fqLines src).rest.length < src.length := by
  have h0 := nextLine_snd_length_lt h
  have h1 := nextLine_snd_length_le (nextLine src).2
  have h2 := nextLine_snd_length_le (nextLine (nextLine src).2).2
  have h3 := nextLine_snd_length_le (nextLine (nextLine (nextLine src).2).2).2
  simp only [fqLines]
  omega

theorem lenRightTrim_eq (l : Bytes) : lenRightTrim l = (rtrim l).length := by
  simp [lenRightTrim, rtrim]

/-- **`index_record`** on the four raw lines -/
theorem fqIndexRecord_lines (src : Bytes) (off : Nat) :
    fqIndexRecord src off =
      match src with
      | [] => .ok none
      | p :: _ =>
        if p ≠ AT then .error .invalidData
        else .ok (some (fqNaiveRec ⟨off, (fqLines src).l0, (fqLines src).l1, (fqLines src).l2, (fqLines src).l3⟩,
          (fqLines src).rest,
          off + (fqLines src).l0.length + (fqLines src).l1.length + (fqLines src).l2.length
            + (fqLines src).l3.length)) := by
  cases src with
  | nil => rfl
  | cons p r0 =>
    by_cases hp : p = AT
    · subst hp
      obtain ⟨h1, h2, h3⟩ := fqReadDefBody_line r0
      have hnl : nextLine (AT :: r0) = (AT :: (nextLine r0).1, (nextLine r0).2) := by
        simp [nextLine, AT, LF]
      simp only [fqIndexRecord, ne_eq, not_true_eq_false, if_false]
      rcases hd : fqReadDefBody r0 with ⟨name, desc, n0, r1⟩
      rw [hd] at h1 h2 h3
      simp only at h1 h2 h3
      subst h1 h2 h3
      simp only [fqLines, hnl, fqNaiveRec, lenRightTrim_eq, List.length_cons]
      have e : off + 1 + (nextLine r0).1.length = off + ((nextLine r0).1.length + 1) := by omega
      rw [e]
    · simp only [fqIndexRecord, ne_eq, hp, not_false_eq_true, if_true]

/-- the raw lines of a stream, four at a time -/
theorem fqGroups_splitLines {src : Bytes} (h : src ≠ []) (off : Nat) :
    fqGroups off (splitLines src) =
      ⟨off, (fqLines src).l0, (fqLines src).l1, (fqLines src).l2, (fqLines src).l3⟩ ::
        fqGroups (off + (fqLines src).l0.length + (fqLines src).l1.length + (fqLines src).l2.length
          + (fqLines src).l3.length) (splitLines (fqLines src).rest) := by
  rw [splitLines_eq h]
  simp only [fqLines]
  generalize (nextLine src).1 = l0
  generalize (nextLine src).2 = r1
  by_cases h1 : r1 = []
  · subst h1; simp [nextLine_nil, splitLines, fqGroups]
  · rw [splitLines_eq h1]
    generalize (nextLine r1).1 = l1
    generalize (nextLine r1).2 = r2
    by_cases h2 : r2 = []
    · subst h2; simp [nextLine_nil, splitLines, fqGroups]
    · rw [splitLines_eq h2]
      generalize (nextLine r2).1 = l2
      generalize (nextLine r2).2 = r3
      by_cases h3 : r3 = []
      · subst h3; simp [nextLine_nil, splitLines, fqGroups]
      · rw [splitLines_eq h3]
        simp [fqGroups]

/-- **The indexer is the naive four-line reading**, on every stream -/
theorem fqIndexAllU_naive : ∀ (fuel : Nat) (src : Bytes) (off : Nat), src.length < fuel →
    fqIndexAllU fuel src off =
      if (fqGroups off (splitLines src)).all fqGroupOk
      then .ok ((fqGroups off (splitLines src)).map fqNaiveRec) else .error .invalidData := by
  intro fuel
  induction fuel with
  | zero => intro src off h; omega
  | succ n ih =>
    intro src off hf
    cases src with
    | nil => simp [fqIndexAllU, fqIndexRecordU, fqIndexRecord, splitLines, fqGroups]
    | cons p r0 =>
      have hne : (p :: r0) ≠ [] := by simp
      have hrec := fqIndexRecord_lines (p :: r0) off
      have hgr := fqGroups_splitLines hne off
      have hlt := fqLines_rest_lt hne
      have hl0 : (fqLines (p :: r0)).l0.head? = some p := by
        simp only [fqLines]; rw [nextLine_fst_head]; rfl
      generalize fqLines (p :: r0) = q at hrec hgr hlt hl0
      rw [hgr]
      simp only [List.all_cons, List.map_cons]
      simp only at hrec
      by_cases hp : p = AT
      · subst hp
        rw [if_neg (by simp)] at hrec
        have hok : fqGroupOk ⟨off, q.l0, q.l1, q.l2, q.l3⟩ = utf8Valid (fqNameOf q.l0) := by
          simp [fqGroupOk, hl0]
        rw [hok]
        cases hu : utf8Valid (fqNameOf q.l0) with
        | false =>
          simp only [fqIndexAllU, fqIndexRecordU, hrec, fqNaiveRec, hu, Bool.false_and]
          rfl
        | true =>
          have hlt' : q.rest.length < n := by
            simp only [List.length_cons] at hf hlt; omega
          have := ih q.rest (off + q.l0.length + q.l1.length + q.l2.length + q.l3.length) hlt'
          simp only [fqIndexAllU, fqIndexRecordU, hrec, fqNaiveRec, hu, if_true, this, Bool.true_and]
          by_cases hall : (fqGroups (off + q.l0.length + q.l1.length + q.l2.length + q.l3.length)
              (splitLines q.rest)).all fqGroupOk = true
          · simp only [hall, if_true]
          · simp only [hall, Bool.false_eq_true, if_false]
      · rw [if_pos hp] at hrec
        have hok : fqGroupOk ⟨off, q.l0, q.l1, q.l2, q.l3⟩ = false := by
          simp [fqGroupOk, hl0, hp]
        rw [hok]
        simp only [fqIndexAllU, fqIndexRecordU, hrec, Bool.false_and]
        rfl

theorem fqIndexFileU_naive (f : Bytes) :
    fqIndexFileU f = match fqNaiveIndex f with
      | some ix => .ok ix
      | none => .error .invalidData := by
  unfold fqIndexFileU fqNaiveIndex
  rw [fqIndexAllU_naive _ f 0 (Nat.lt_succ_self _)]
  simp only []
  split <;> rfl

/-! ## the index against the FASTQ reader -/

/-- `read_line`'s strip: one LF, and then one CR -/
def rlStrip (l : Bytes) : Bytes := if l.getLast? = some LF then stripCR l.dropLast else l

theorem readLine_eq (src : Bytes) :
    readLine src = (rlStrip (nextLine src).1, (nextLine src).1.length, (nextLine src).2) := rfl

/-- a raw line is what `read_line` keeps of it, followed by nothing, LF or CR LF -/
theorem rlStrip_decomp (l : Bytes) :
    ∃ t, l = rlStrip l ++ t ∧ (t = [] ∨ t = [LF] ∨ t = [CR, LF]) := by
  unfold rlStrip
  split
  · rename_i h
    rcases List.eq_nil_or_concat l with rfl | ⟨l', b, rfl⟩
    · simp at h
    · simp at h
      subst h
      simp only [List.concat_eq_append, List.dropLast_concat]
      rcases stripCR_cases l' with h1 | h1
      · exact ⟨[LF], by rw [← h1], Or.inr (Or.inl rfl)⟩
      · refine ⟨[CR, LF], ?_, Or.inr (Or.inr rfl)⟩
        conv => lhs; rw [h1]
        simp
  · exact ⟨[], by simp, Or.inl rfl⟩

theorem dropWhile_append_all (p : UInt8 → Bool) (a b : Bytes) (ha : ∀ x ∈ a, p x = true) :
    (a ++ b).dropWhile p = b.dropWhile p := by
  induction a with
  | nil => rfl
  | cons x r ih =>
    simp [List.dropWhile, ha x (by simp), ih (fun y hy => ha y (List.mem_cons_of_mem _ hy))]

theorem rtrim_append_ws (s t : Bytes) (ht : ∀ x ∈ t, isWs x = true) : rtrim (s ++ t) = rtrim s := by
  unfold rtrim
  rw [List.reverse_append, dropWhile_append_all isWs _ _ (by simpa using ht)]

theorem rtrim_self (s : Bytes) (h : ∀ b, s.getLast? = some b → isWs b = false) : rtrim s = s := by
  unfold rtrim
  rcases List.eq_nil_or_concat s with rfl | ⟨l, b, rfl⟩
  · rfl
  · have hb := h b (by simp)
    simp [List.dropWhile, hb]

theorem rtrim_line (l : Bytes) (h : ∀ b, (rlStrip l).getLast? = some b → isWs b = false) :
    (rtrim l).length = (rlStrip l).length := by
  obtain ⟨t, ht, hc⟩ := rlStrip_decomp l
  have hws : ∀ x ∈ t, isWs x = true := by
    rcases hc with rfl | rfl | rfl <;> simp [isWs, LF, CR]
  conv => lhs; rw [ht]
  rw [rtrim_append_ws _ _ hws, rtrim_self _ h]

theorem rlStrip_take (l x : Bytes) : (l ++ x).take (rlStrip l).length = rlStrip l := by
  obtain ⟨t, ht, _⟩ := rlStrip_decomp l
  conv => lhs; arg 2; rw [ht]
  rw [List.append_assoc, List.take_left']
  rfl

theorem rlStrip_length (l : Bytes) : (rlStrip l).length ≤ l.length ∧ l.length ≤ (rlStrip l).length + 2 := by
  obtain ⟨t, ht, hc⟩ := rlStrip_decomp l
  have := congrArg List.length ht
  rcases hc with rfl | rfl | rfl <;> simp at this <;> omega

/-- **`read_record`** on the four raw lines: when it returns a record, that record is read off the
lines positionally, the third of which starts with `+` -/
theorem fqReadRecord_some {src : Bytes} {r : FqRec} {n : Nat} {rest : Bytes}
    (h : fqReadRecord src = .ok (some (r, n, rest))) :
    src.head? = some AT ∧ r.name = fqNameOf (fqLines src).l0 ∧ r.sequence = rlStrip (fqLines src).l1 ∧
    r.quality = rlStrip (fqLines src).l3 ∧ rest = (fqLines src).rest ∧
    (fqLines src).l2.head? = some PLUS := by
  cases src with
  | nil => simp [fqReadRecord] at h
  | cons p r0 =>
    by_cases hp : p = AT
    · subst hp
      obtain ⟨h1, h2, h3⟩ := fqReadDefBody_line r0
      have hnl : nextLine (AT :: r0) = (AT :: (nextLine r0).1, (nextLine r0).2) := by
        simp [nextLine, AT, LF]
      simp only [fqReadRecord, ne_eq, not_true_eq_false, if_false] at h
      rcases hd : fqReadDefBody r0 with ⟨name, desc, n0, r1⟩
      rw [hd] at h1 h2 h3 h
      simp only at h1 h2 h3 h
      subst h1 h2 h3
      rw [readLine_eq] at h
      simp only at h
      cases hr2 : (nextLine (nextLine r0).2).2 with
      | nil => rw [hr2] at h; simp at h
      | cons c r3 =>
        rw [hr2] at h
        simp only at h
        by_cases hc : c = PLUS
        · subst hc
          simp only [ne_eq, not_true_eq_false, if_false, readLine_eq, Except.ok.injEq,
            Option.some.injEq, Prod.mk.injEq] at h
          obtain ⟨hr, _, hrest⟩ := h
          have hnl2 : nextLine (PLUS :: r3) = (PLUS :: (nextLine r3).1, (nextLine r3).2) := by
            simp [nextLine, PLUS, LF]
          subst hr hrest
          simp [fqLines, hnl, hr2, hnl2]
        · simp [hc] at h
    · simp [fqReadRecord, hp] at h

/-- what an index record says about the record the reader returns for the same four lines -/
def FqAddr (f : Bytes) (r : FqRec) (x : FqFaiRec) : Prop :=
  x.name = r.name ∧
  (f.drop x.sequenceOffset).take r.sequence.length = r.sequence ∧
  (f.drop x.qualityOffset).take r.quality.length = r.quality ∧
  x.lineBases = x.length ∧
  ((∀ b, r.sequence.getLast? = some b → isWs b = false) → x.length = r.sequence.length) ∧
  r.sequence.length ≤ x.lineWidth ∧ x.lineWidth ≤ r.sequence.length + 2

theorem drop_add_append (f src a b : Bytes) (off : Nat) (hsrc : f.drop off = src) (h : src = a ++ b) :
    f.drop (off + a.length) = b := by
  rw [← List.drop_drop, hsrc, h, List.drop_left]

/-- **Every file the FASTQ reader accepts is accepted by the indexer** (given UTF-8 names), record
for record, and the offsets address the reader's sequence and quality strings in the file -/
theorem fq_reader_index (f : Bytes) : ∀ (fuel : Nat) (src : Bytes) (off : Nat) (rs : List FqRec),
    f.drop off = src → readFqAll fuel src = .ok rs → (∀ r ∈ rs, utf8Valid r.name = true) →
    ∃ ix, fqIndexAllU fuel src off = .ok ix ∧ Forall₂ (FqAddr f) rs ix := by
  intro fuel
  induction fuel with
  | zero => intro src off rs _ h; simp [readFqAll] at h
  | succ n ih =>
    intro src off rs hsrc h hutf
    unfold readFqAll at h
    cases hrr : fqReadRecord src with
    | error e => rw [hrr] at h; cases h
    | ok o =>
      rw [hrr] at h
      cases o with
      | none =>
        simp only [Except.ok.injEq] at h
        subst h
        cases src with
        | nil => exact ⟨[], by simp [fqIndexAllU, fqIndexRecordU, fqIndexRecord], .nil⟩
        | cons p r0 =>
          exfalso
          simp only [fqReadRecord] at hrr
          iterate 6 (all_goals (try (first | (cases hrr; done) | split at hrr)))
      | some t =>
        obtain ⟨r, cnt, rest⟩ := t
        simp only [] at h
        cases hra : readFqAll n rest with
        | error e => rw [hra] at h; cases h
        | ok rs' =>
          rw [hra] at h
          simp only [Except.ok.injEq] at h
          subst h
          obtain ⟨a1, a2, a3, a4, a5, _⟩ := fqReadRecord_some hrr
          have hrec := fqIndexRecord_lines src off
          have happ := fqLines_append src
          cases src with
          | nil => simp at a1
          | cons p r0 =>
            simp only [List.head?_cons, Option.some.injEq] at a1
            subst a1
            simp only [ne_eq, not_true_eq_false, if_false] at hrec
            generalize fqLines (AT :: r0) = q at *
            have hoff' : f.drop (off + q.l0.length + q.l1.length + q.l2.length + q.l3.length) = rest := by
              have e : off + q.l0.length + q.l1.length + q.l2.length + q.l3.length =
                  off + (q.l0 ++ (q.l1 ++ (q.l2 ++ q.l3))).length := by simp; omega
              rw [e, a5]
              exact drop_add_append f _ _ _ off hsrc (by rw [happ]; simp)
            obtain ⟨ix', i1, i2⟩ := ih rest _ rs' hoff' hra
              (fun r' hr' => hutf r' (List.mem_cons_of_mem _ hr'))
            have hu : utf8Valid (fqNameOf q.l0) = true := by
              rw [← a2]; exact hutf r (by simp)
            refine ⟨fqNaiveRec ⟨off, q.l0, q.l1, q.l2, q.l3⟩ :: ix', ?_, .cons ?_ i2⟩
            · simp only [fqIndexAllU, fqIndexRecordU, hrec, fqNaiveRec, hu, if_true, ← a5, i1]
            · have hs : f.drop (off + q.l0.length) = q.l1 ++ (q.l2 ++ (q.l3 ++ q.rest)) :=
                drop_add_append f _ _ _ off hsrc happ
              have hq : f.drop (off + q.l0.length + q.l1.length + q.l2.length) = q.l3 ++ q.rest := by
                have e : off + q.l0.length + q.l1.length + q.l2.length =
                    off + (q.l0 ++ (q.l1 ++ q.l2)).length := by simp; omega
                rw [e]
                exact drop_add_append f _ _ _ off hsrc (by rw [happ]; simp)
              have hl := rlStrip_length q.l1
              refine ⟨a2.symm, ?_, ?_, rfl, ?_, ?_, ?_⟩
              · simp only [fqNaiveRec]; rw [hs, a3]; exact rlStrip_take _ _
              · simp only [fqNaiveRec]; rw [hq, a4]; exact rlStrip_take _ _
              · intro hws
                simp only [fqNaiveRec]
                rw [a3] at hws ⊢
                exact rtrim_line _ hws
              · simp only [fqNaiveRec]; rw [a3]; exact hl.1
              · simp only [fqNaiveRec]; rw [a3]; exact hl.2

end Noodles.Fasta
