import Noodles.Fasta.Model
/-!
# The FASTA indexer and `Records` over a `BufRead` with an ARBITRARY window schedule (C11, indexer)

`Noodles/Fasta/Model.lean` runs the indexer over a whole in-memory buffer (`fill_buf` returns
everything that remains). Here the same code — noodles-fasta `io/indexer.rs` (`Indexer::index_record`,
`read_definition`, `Indexer::consume_sequence_line`, `consume_sequence_line`, `count_bases`,
`is_last_sequence_line`), `io/reader.rs` (`read_line`), std `BufRead::read_until`, and the loop
`while let Some(record) = indexer.index_record()?` of `fasta::fs::index` — is transcribed CALL BY CALL
over a reader whose `fill_buf` is driven by a schedule with one entry PER CALL of `fill_buf`:

* `Step.win k` — the call returns the first `k + 1` bytes of what remains (all of it if there is
  less; the empty slice exactly at the end of the stream);
* `Step.intr` — the call fails with `ErrorKind::Interrupted`;
* when the schedule is used up every call returns everything that remains (the whole-buffer reader
  of `Model.lean` is the empty schedule).

Every `BufRead` whose `fill_buf` returns a non-empty prefix of the unread bytes (and the empty slice
only at the end) is an instance: `std::io::BufReader` of any capacity over any inner reader (the part
of a window that was not consumed is returned again: that is another, shorter window),
`bgzf::io::Reader` (the rest of the current block), `&[u8]`. The harness wraps the real reader in a
recorder that writes down the length of every slice `fill_buf` returned (and every `Interrupted`);
the model is run with that schedule and must make exactly as many calls.

The error type keeps the payload of `IndexError` (`EmptySequence(offset)`,
`InvalidLineBases(actual, expected)`, `InvalidLineWidth(actual, expected)`): the harness reads it
off the `Display` text. `IdxErr.toErr` is `From<IndexError> for io::Error` (everything that is not
`Io` becomes `InvalidInput`), which is what `Model.lean` has.

`Reader::records` / `read_sequence` under small buffers is C12's model (`Noodles/Io/Lines.lean`,
over `BufR`); `Noodles/Fasta/RecordsSchedProof.lean` joins it with C11's naive parse.
-/
namespace Noodles.Fasta

/-- one call of `BufRead::fill_buf` -/
inductive Step | win (k : Nat) | intr
  deriving Repr, DecidableEq

/-- `loop { match reader.fill_buf() { Ok(src) => .., Err(Interrupted) => continue, .. } }`: the
window the caller finally sees (a prefix of the unread bytes `r`) and the schedule left over -/
def fillR (r : Bytes) : List Step → Bytes × List Step
  | [] => (r, [])
  | .intr :: t => fillR r t
  | .win k :: t => (r.take (k + 1), t)

/-- `IndexError` -/
inductive IdxErr
  | io (e : Err)
  | emptySequence (offset : Nat)
  | invalidLineBases (actual expected : Nat)
  | invalidLineWidth (actual expected : Nat)
  deriving Repr, DecidableEq

/-- `impl From<IndexError> for io::Error` -/
def IdxErr.toErr : IdxErr → Err
  | .io e => e
  | _ => .invalidInput

/-- std `BufRead::read_until(b'\n', buf)`:
```
loop {
    let (done, used) = {
        let available = match r.fill_buf() { Ok(n) => n, Err(Interrupted) => continue, .. };
        match memchr(delim, available) {
            Some(i) => { buf.extend_from_slice(&available[..=i]); (true, i + 1) }
            None => { buf.extend_from_slice(available); (false, available.len()) }
        }
    };
    r.consume(used); read += used;
    if done || used == 0 { return Ok(read); }
}
```
Returns (buf, unread bytes, schedule). `read` is the number of bytes appended. -/
def readUntilS : Nat → Bytes → Bytes → List Step → Bytes × Bytes × List Step
  | 0, buf, r, sc => (buf, r, sc)
  | fuel + 1, buf, r, sc =>
    let w := (fillR r sc).1
    let sc' := (fillR r sc).2
    if LF ∈ w then
      let l := (nextLine w).1                          -- available[..=i]
      (buf ++ l, r.drop l.length, sc')
    else if w = [] then (buf, r, sc')                  -- used == 0
    else readUntilS fuel (buf ++ w) (r.drop w.length) sc'

/-- `reader::read_line(reader, &mut Vec::new())`: (buf, n, unread, schedule) -/
def readLineS (r : Bytes) (sc : List Step) : Bytes × Nat × Bytes × List Step :=
  let u := readUntilS (r.length + 1) [] r sc
  (if u.1.getLast? = some LF then stripCR u.1.dropLast else u.1, u.1.length, u.2.1, u.2.2)

/-- the free function `consume_sequence_line`:
```
let mut bytes_read = 0; let mut base_count = 0; let mut is_eol = false;
loop {
    let src = match reader.fill_buf() { Ok(src) => src, Err(Interrupted) => continue, .. };
    if is_eol || src.is_empty() || src[0] == DEFINITION_PREFIX { break; }
    let (chunk_len, chunk_base_count) = match memchr(LINE_FEED, src) {
        Some(i) => { is_eol = true; (i + 1, count_bases(&src[..i])) }
        None => (src.len(), count_bases(src)),
    };
    reader.consume(chunk_len);
    bytes_read += chunk_len; base_count += chunk_base_count;
}
Ok((bytes_read, base_count))
```
`count_bases` looks at the END OF THE CHUNK, i.e. of the window, for a CR; and the `>` test is made
on every window, also in the middle of a line. -/
def cslS : Nat → Nat → Nat → Bool → Bytes → List Step → (Nat × Nat) × Bytes × List Step
  | 0, n, b, _, r, sc => ((n, b), r, sc)
  | fuel + 1, n, b, eol, r, sc =>
    let w := (fillR r sc).1
    let sc' := (fillR r sc).2
    if eol = true ∨ w = [] ∨ w.head? = some GT then ((n, b), r, sc')
    else if LF ∈ w then
      let l := (nextLine w).1                          -- src[..=i]
      cslS fuel (n + l.length) (b + countBases l.dropLast) true (r.drop l.length) sc'
    else cslS fuel (n + w.length) (b + countBases w) false (r.drop w.length) sc'

/-- `consume_sequence_line(&mut self.inner)` from the start of a line -/
def consumeSeqLineS (r : Bytes) (sc : List Step) : (Nat × Nat) × Bytes × List Step :=
  cslS (r.length + 2) 0 0 false r sc

/-- `is_last_sequence_line` (one successful `fill_buf`) -/
def isLastS (r : Bytes) (sc : List Step) : Bool × List Step :=
  let w := (fillR r sc).1
  (w.isEmpty || w.head? == some GT, (fillR r sc).2)

/-- the `loop` of `index_record`; `off` is `self.offset`. Returns (base count, unread, offset,
schedule). -/
def indexLoopS (W B : Nat) : Nat → Bytes → Nat → Nat → List Step →
    Except IdxErr (Nat × Bytes × Nat × List Step)
  | 0, _, _, _, _ => .error (.io .fuel)
  | fuel + 1, r, bc, off, sc =>
    let c := consumeSeqLineS r sc
    let w := c.1.1
    let b := c.1.2
    let l := isLastS c.2.1 c.2.2
    if l.1 = true ∧ w ≤ W ∧ b ≤ B then .ok (bc + b, c.2.1, off + w, l.2)
    else if b ≠ B then .error (.invalidLineBases b B)
    else if w ≠ W then .error (.invalidLineWidth w W)
    else indexLoopS W B fuel c.2.1 (bc + b) (off + w) l.2

/-- `Indexer::index_record` with the unread bytes `src`, `self.offset = offset`: `none` at the end
of the stream, else the record, the unread bytes, the new offset; and the schedule left over. -/
def indexRecordS (src : Bytes) (offset : Nat) (sc : List Step) :
    Except IdxErr (Option (FaiRec × Bytes × Nat) × List Step) :=
  let d := readLineS src sc
  let buf := d.1
  let n := d.2.1
  if n = 0 then .ok (none, d.2.2.2)
  else match parseDefinition buf with
    | .error e => .error (.io e)
    | .ok nd =>
      let off1 := offset + n                           -- self.offset += n
      let c := consumeSeqLineS d.2.2.1 d.2.2.2
      let W := c.1.1
      let B := c.1.2
      if B = 0 then .error (.emptySequence (off1 + W))
      else match indexLoopS W B (c.2.1.length + 1) c.2.1 B (off1 + W) c.2.2 with
        | .error e => .error e
        | .ok g => .ok (some (⟨nd.1, g.1, off1, B, W⟩, g.2.1, g.2.2.1), g.2.2.2)

/-- `while let Some(record) = indexer.index_record()? { records.push(record) }`: the records and
the schedule left over -/
def indexAllS : Nat → Bytes → Nat → List Step → Except IdxErr (List FaiRec × List Step)
  | 0, _, _, _ => .error (.io .fuel)
  | fuel + 1, src, offset, sc =>
    match indexRecordS src offset sc with
    | .error e => .error e
    | .ok (none, sc') => .ok ([], sc')
    | .ok (some (rec, rest, offset'), sc') =>
      match indexAllS fuel rest offset' sc' with
      | .error e => .error e
      | .ok (recs, sc'') => .ok (rec :: recs, sc'')

/-- the whole file through the indexer under the schedule `sc` -/
def indexFileS (f : Bytes) (sc : List Step) : Except IdxErr (List FaiRec × List Step) :=
  indexAllS (f.length + 1) f 0 sc

/-- the index alone -/
def indexFileSched (f : Bytes) (sc : List Step) : Except IdxErr (List FaiRec) :=
  (indexFileS f sc).map (·.1)

end Noodles.Fasta
