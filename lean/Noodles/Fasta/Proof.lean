import Noodles.Fasta.Model
import Noodles.Fasta.Spec
/-! Helper lemmas for `Noodles/Props/C11.lean`. -/
namespace Noodles.Fasta

/-! ### lines -/

theorem nextLine_append (s : Bytes) : (nextLine s).1 ++ (nextLine s).2 = s := by
  induction s with
  | nil => rfl
  | cons b r ih =>
    unfold nextLine
    split
    · simp
    · simp [ih]

theorem nextLine_fst_ne_nil {s : Bytes} (h : s ≠ []) : (nextLine s).1 ≠ [] := by
  cases s with
  | nil => exact absurd rfl h
  | cons b r => unfold nextLine; split <;> simp

theorem nextLine_fst_head {s : Bytes} : (nextLine s).1.head? = s.head? := by
  cases s with
  | nil => rfl
  | cons b r => unfold nextLine; split <;> simp

theorem nextLine_snd_length_le (s : Bytes) : (nextLine s).2.length ≤ s.length := by
  have := congrArg List.length (nextLine_append s)
  simp at this; omega

theorem nextLine_snd_length_lt {s : Bytes} (h : s ≠ []) : (nextLine s).2.length < s.length := by
  have := congrArg List.length (nextLine_append s)
  have h1 := List.length_pos_iff.mpr (nextLine_fst_ne_nil h)
  simp at this; omega

/-- the line is `c ++ [LF]` with no LF in `c`, or the whole (LF-free) rest of the stream -/
theorem nextLine_cases (s : Bytes) :
    (∃ c, LF ∉ c ∧ (nextLine s).1 = c ++ [LF]) ∨ (LF ∉ (nextLine s).1 ∧ (nextLine s).2 = []) := by
  induction s with
  | nil => right; simp [nextLine]
  | cons b r ih =>
    unfold nextLine
    split
    · left; exact ⟨[], by simp, by simp_all⟩
    · rename_i hb
      rcases ih with ⟨c, hc, he⟩ | ⟨h1, h2⟩
      · left; refine ⟨b :: c, ?_, by simp [he]⟩
        simp; exact ⟨fun h => hb h.symm, hc⟩
      · right; refine ⟨?_, h2⟩
        simp; exact ⟨fun h => hb h.symm, h1⟩

theorem nextLine_of_noLF (c rest : Bytes) (hc : LF ∉ c) :
    nextLine (c ++ LF :: rest) = (c ++ [LF], rest) := by
  induction c with
  | nil => simp [nextLine]
  | cons b r ih =>
    have hb : b ≠ LF := fun h => hc (by simp [h])
    have hr : LF ∉ r := fun h => hc (List.mem_cons_of_mem _ h)
    simp [nextLine, hb, ih hr]

theorem splitLines_eq {s : Bytes} (h : s ≠ []) :
    splitLines s = (nextLine s).1 :: splitLines (nextLine s).2 := by
  induction s with
  | nil => exact absurd rfl h
  | cons b r ih =>
    by_cases hb : b = LF
    · simp [splitLines, nextLine, hb]
    · cases r with
      | nil => simp [splitLines, nextLine, hb]
      | cons b' r' =>
        rw [splitLines, if_neg hb, ih (by simp)]
        simp [nextLine, hb]

/-! ### terminators -/

theorem stripLF_concat (c : Bytes) : stripLF (c ++ [LF]) = c := by
  simp [stripLF]

theorem stripLF_of_noLF {c : Bytes} (h : LF ∉ c) : stripLF c = c := by
  unfold stripLF
  split
  · rename_i hl
    exact absurd (List.mem_of_getLast? hl) h
  · rfl

theorem stripCR_concat (c : Bytes) : stripCR (c ++ [CR]) = c := by
  simp [stripCR]

theorem stripCR_of_last {c : Bytes} (h : c.getLast? ≠ some CR) : stripCR c = c := by
  simp [stripCR, h]

/-- a line without LF is its content, possibly followed by one CR -/
theorem stripCR_cases (c : Bytes) : c = stripCR c ∨ c = stripCR c ++ [CR] := by
  unfold stripCR
  split
  · rename_i h
    right
    rcases List.eq_nil_or_concat c with rfl | ⟨l, b, rfl⟩
    · simp at h
    · simp at h; simp [h]
  · left; rfl

theorem stripCR_length_le (c : Bytes) : (stripCR c).length ≤ c.length := by
  unfold stripCR; split <;> simp

theorem stripCR_sublist (c : Bytes) : ∀ b ∈ stripCR c, b ∈ c := by
  intro b hb
  unfold stripCR at hb
  split at hb
  · exact List.dropLast_subset _ hb
  · exact hb

theorem stripCR_head {c : Bytes} (h : (stripCR c) ≠ []) : (stripCR c).head? = c.head? := by
  rcases stripCR_cases c with h1 | h1
  · rw [← h1]
  · conv => rhs; rw [h1]
    cases hc : stripCR c with
    | nil => exact absurd hc h
    | cons x y => simp

/-! ### the sequence reader -/

/-- the stream right after the bases of a line: EOF, a lone CR, LF …, or CR LF … -/
def AtEol (r : Bytes) : Prop := r = [] ∨ r = [CR] ∨ (∃ x, r = LF :: x) ∨ (∃ x, r = CR :: LF :: x)

/-- reading a sequence at `src` yields `bases`, for every limit and every accumulated buffer -/
def SeqAt (src bases : Bytes) : Prop :=
  ∀ fuel, src.length < fuel → ∀ maxBases buf,
    (readSeqLimit fuel src maxBases buf).1 = buf ++ bases.take (maxBases - buf.length)

theorem skipEol_of_isLast {s : Bytes} (h : isLastSeqLine s = true) : skipEol s = s := by
  cases s with
  | nil => rfl
  | cons b r =>
    simp [isLastSeqLine] at h
    subst h
    simp [skipEol, List.dropWhile, GT, CR, LF]

theorem skipEol_append_eol (t x : Bytes) (ht : ∀ b ∈ t, b = CR ∨ b = LF) :
    skipEol (t ++ x) = skipEol x := by
  induction t with
  | nil => rfl
  | cons b r ih =>
    have hb := ht b (by simp)
    have hr : ∀ b ∈ r, b = CR ∨ b = LF := fun b hb => ht b (List.mem_cons_of_mem _ hb)
    have := ih hr
    unfold skipEol at *
    rcases hb with rfl | rfl <;> simp [List.dropWhile, this]

theorem seqFillBuf_done {s : Bytes} (h : isLastSeqLine s = true) : seqFillBuf s = ([], s) := by
  unfold seqFillBuf
  rw [skipEol_of_isLast h]
  cases s with
  | nil => rfl
  | cons b r =>
    simp [isLastSeqLine] at h
    simp [h]

theorem takeWhile_neLF_clean (c r : Bytes) (hc : ∀ b ∈ c, b ≠ LF) :
    (c ++ r).takeWhile (· != LF) = c ++ r.takeWhile (· != LF) := by
  induction c with
  | nil => rfl
  | cons b c' ih =>
    have hb := hc b (by simp)
    simp [List.takeWhile, hb, ih (fun b hb => hc b (List.mem_cons_of_mem _ hb))]

theorem stripCR_clean {c : Bytes} (hc : CleanL c) : stripCR c = c := by
  apply stripCR_of_last
  intro h
  exact (hc CR (List.mem_of_getLast? h)).1 rfl

theorem seqFillBuf_line {c r : Bytes} (hne : c ≠ []) (hc : CleanL c) (hr : AtEol r) :
    seqFillBuf (c ++ r) = (c, c ++ r) := by
  cases c with
  | nil => exact absurd rfl hne
  | cons b c' =>
    obtain ⟨h1, h2, h3⟩ := hc b (by simp)
    have hs : skipEol (b :: c' ++ r) = b :: c' ++ r := by
      simp [skipEol, List.dropWhile, h1, h2]
    unfold seqFillBuf
    rw [hs]
    simp only [List.cons_append, if_neg h3]
    have htw := takeWhile_neLF_clean (b :: c') r (fun x hx => (hc x hx).2.1)
    simp only [List.cons_append] at htw
    rw [htw]
    rcases hr with rfl | rfl | ⟨x, rfl⟩ | ⟨x, rfl⟩
    · simp; exact stripCR_clean hc
    · have : (b :: (c' ++ List.takeWhile (· != LF) [CR])) = (b :: c') ++ [CR] := by
        simp [List.takeWhile, CR, LF]
      rw [this, stripCR_concat]
    · have : (b :: (c' ++ List.takeWhile (· != LF) (LF :: x))) = (b :: c') := by
        simp [List.takeWhile]
      rw [this, stripCR_clean hc]
    · have : (b :: (c' ++ List.takeWhile (· != LF) (CR :: LF :: x))) = (b :: c') ++ [CR] := by
        simp [List.takeWhile, CR, LF]
      rw [this, stripCR_concat]

theorem readSeqLimit_fst_congr {a b : Bytes} (h : seqFillBuf a = seqFillBuf b)
    (fuel maxBases : Nat) (buf : Bytes) :
    (readSeqLimit fuel a maxBases buf).1 = (readSeqLimit fuel b maxBases buf).1 := by
  cases fuel with
  | zero => rfl
  | succ n =>
    simp only [readSeqLimit, h]
    split <;> rfl

theorem SeqAt_done {s : Bytes} (h : isLastSeqLine s = true) : SeqAt s [] := by
  intro fuel hf maxBases buf
  cases fuel with
  | zero => simp [readSeqLimit]
  | succ n =>
    simp only [readSeqLimit, seqFillBuf_done h]
    split <;> simp

theorem SeqAt_eol {t x bases : Bytes} (ht : ∀ b ∈ t, b = CR ∨ b = LF) (h : SeqAt x bases) :
    SeqAt (t ++ x) bases := by
  intro fuel hf maxBases buf
  have hfb : seqFillBuf (t ++ x) = seqFillBuf x := by
    unfold seqFillBuf; rw [skipEol_append_eol t x ht]
  rw [readSeqLimit_fst_congr hfb]
  apply h
  simp at hf; omega

theorem SeqAt_line {c r bases : Bytes} (hne : c ≠ []) (hc : CleanL c) (hr : AtEol r)
    (h : SeqAt r bases) : SeqAt (c ++ r) (c ++ bases) := by
  intro fuel hf maxBases buf
  cases fuel with
  | zero => omega
  | succ n =>
    simp only [readSeqLimit, seqFillBuf_line hne hc hr]
    have hcl : 0 < c.length := List.length_pos_iff.mpr hne
    split
    · rename_i hlt
      have hemp : c.isEmpty = false := by cases c <;> simp_all
      simp only [hemp, Bool.false_eq_true, if_false]
      by_cases hi : c.length ≤ maxBases - buf.length
      · rw [Nat.min_eq_right hi, List.drop_left, List.take_length]
        rw [h n (by simp at hf; omega)]
        simp only [List.length_append, List.append_assoc]
        congr 1
        rw [List.take_append]
        have : maxBases - buf.length - c.length = maxBases - (buf.length + c.length) := by omega
        rw [List.take_of_length_le hi, this]
      · have hi' : maxBases - buf.length < c.length := by omega
        rw [Nat.min_eq_left (by omega)]
        -- the buffer is full after this partial line
        have hfull : (buf ++ List.take (maxBases - buf.length) c).length = maxBases := by
          simp [List.length_take]; omega
        have hstop : ∀ m src, (readSeqLimit m src maxBases
            (buf ++ List.take (maxBases - buf.length) c)).1
            = buf ++ List.take (maxBases - buf.length) c := by
          intro m src
          cases m with
          | zero => rfl
          | succ k => simp only [readSeqLimit, hfull, Nat.lt_irrefl, if_false]
        rw [hstop]
        congr 1
        rw [List.take_append_of_le_length (by omega)]
    · rename_i hge
      have : maxBases - buf.length = 0 := by omega
      simp [this]

/-! ### what the indexer's loop accepts -/

/-- the shape `index_record`'s loop accepts from a line start `r`, stopping at `rest`: lines of
width `W` with `B` bases, then possibly one line with at most that, then EOF or a `>` -/
inductive Accepted (W B : Nat) : Bytes → Bytes → Prop
  | stop {r : Bytes} : isLastSeqLine r = true → Accepted W B r r
  | last {r : Bytes} : isLastSeqLine r = false → isLastSeqLine (nextLine r).2 = true →
      (nextLine r).1.length ≤ W → lineBases (nextLine r).1 ≤ B → Accepted W B r (nextLine r).2
  | more {r rest : Bytes} : isLastSeqLine r = false → (nextLine r).1.length = W →
      lineBases (nextLine r).1 = B → Accepted W B (nextLine r).2 rest → Accepted W B r rest

theorem isLast_false {r : Bytes} (h : isLastSeqLine r = false) : r ≠ [] ∧ r.head? ≠ some GT := by
  cases r with
  | nil => simp [isLastSeqLine] at h
  | cons b x => simp [isLastSeqLine] at h; simp [h]

theorem consumeSeqLine_isLast {r : Bytes} (h : isLastSeqLine r = true) :
    consumeSeqLine r = (0, 0, r) := by
  cases r with
  | nil => rfl
  | cons b x => simp [isLastSeqLine] at h; simp [consumeSeqLine, h]

theorem consumeSeqLine_line {r : Bytes} (h : isLastSeqLine r = false) :
    consumeSeqLine r = ((nextLine r).1.length, lineBases (nextLine r).1, (nextLine r).2) := by
  cases r with
  | nil => simp [isLastSeqLine] at h
  | cons b x =>
    simp [isLastSeqLine] at h
    simp [consumeSeqLine, h, lineBases, stripEol, countBases]

theorem isDef_nextLine {r : Bytes} (h : isLastSeqLine r = false) : isDef (nextLine r).1 = false := by
  have := (isLast_false h).2
  simp [isDef, nextLine_fst_head, this]

theorem body_isLast {r : Bytes} (h : isLastSeqLine r = true) : bodyOf (splitLines r) = [] := by
  cases r with
  | nil => rfl
  | cons b x =>
    simp [isLastSeqLine] at h
    rw [splitLines_eq (by simp)]
    have : isDef (nextLine (b :: x)).1 = true := by simp [isDef, nextLine_fst_head, h]
    simp [bodyOf, List.takeWhile, this]

theorem body_cons {r : Bytes} (h : isLastSeqLine r = false) :
    bodyOf (splitLines r) = (nextLine r).1 :: bodyOf (splitLines (nextLine r).2) := by
  rw [splitLines_eq (isLast_false h).1]
  simp [bodyOf, List.takeWhile, isDef_nextLine h]

theorem basesOf_cons (l : Bytes) (ls : List Bytes) : basesOf (l :: ls) = stripEol l ++ basesOf ls := by
  simp [basesOf]

theorem indexLoop_accepted (W B : Nat) : ∀ (fuel : Nat) (r : Bytes) (bc : Nat) (res : Nat × Bytes),
    indexLoop W B fuel r bc = .ok res →
    Accepted W B r res.2 ∧ res.1 = bc + (basesOf (bodyOf (splitLines r))).length := by
  intro fuel
  induction fuel with
  | zero => intro r bc res h; simp [indexLoop] at h
  | succ n ih =>
    intro r bc res h
    unfold indexLoop at h
    cases hl : isLastSeqLine r with
    | true =>
      rw [consumeSeqLine_isLast hl] at h
      simp [hl] at h
      subst h
      exact ⟨.stop hl, by simp [body_isLast hl, basesOf]⟩
    | false =>
      rw [consumeSeqLine_line hl] at h
      simp only [] at h
      split at h
      · rename_i hc
        obtain ⟨h1, h2, h3⟩ := hc
        cases h
        refine ⟨.last hl h1 h2 h3, ?_⟩
        simp [body_cons hl, body_isLast h1, basesOf_cons, basesOf, lineBases]
      · split at h
        · cases h
        · split at h
          · cases h
          · rename_i hb hw
            have hb' : lineBases (nextLine r).1 = B := by simpa using hb
            have hw' : (nextLine r).1.length = W := by simpa using hw
            obtain ⟨a1, a2⟩ := ih _ _ _ h
            refine ⟨.more hl hw' hb' a1, ?_⟩
            rw [a2, body_cons hl, basesOf_cons]
            simp [lineBases] at hb' ⊢
            omega

theorem Accepted.split {W B : Nat} {r rest : Bytes} (h : Accepted W B r rest) :
    splitLines r = bodyOf (splitLines r) ++ splitLines rest ∧ isLastSeqLine rest = true ∧
    ∃ pre, r = pre ++ rest := by
  induction h with
  | stop hl => exact ⟨by simp [body_isLast hl], hl, [], rfl⟩
  | @last r hl h1 _ _ =>
    refine ⟨?_, h1, (nextLine r).1, (nextLine_append r).symm⟩
    rw [body_cons hl, body_isLast h1, splitLines_eq (isLast_false hl).1]; simp
  | @more r rest hl _ _ _ ih =>
    obtain ⟨i1, i2, pre, i3⟩ := ih
    refine ⟨?_, i2, (nextLine r).1 ++ pre, ?_⟩
    · rw [body_cons hl, splitLines_eq (isLast_false hl).1]
      simp only [List.cons_append]; rw [← i1]
    · rw [List.append_assoc, ← i3, nextLine_append]

theorem UniformTail_cons {W B : Nat} {l : Bytes} {ls : List Bytes} (hw : l.length = W)
    (hb : lineBases l = B) (h : UniformTail W B ls) : UniformTail W B (l :: ls) := by
  cases ls with
  | nil => simp [UniformTail, hw, hb]
  | cons l' ls' => exact ⟨⟨hw, hb⟩, h⟩

theorem Accepted.uniform {W B : Nat} {r rest : Bytes} (h : Accepted W B r rest) :
    UniformTail W B (bodyOf (splitLines r)) := by
  induction h with
  | stop hl => simp [body_isLast hl, UniformTail]
  | last hl h1 hw hb => simp [body_cons hl, body_isLast h1, UniformTail, hw, hb]
  | more hl hw hb _ ih => rw [body_cons hl]; exact UniformTail_cons hw hb ih

/-! ### reading what was accepted -/

theorem faiOff_lt {B W s : Nat} (h : s < B) : faiOff B W s = s := by
  unfold faiOff; rw [Nat.div_eq_of_lt h, Nat.mod_eq_of_lt h]; simp

theorem faiOff_ge {B W s : Nat} (hB : 0 < B) (h : B ≤ s) :
    faiOff B W s = W + faiOff B W (s - B) := by
  have hdiv : s / B = (s - B) / B + 1 := by
    have := Nat.sub_add_cancel h
    conv => lhs; rw [← this]
    exact Nat.add_div_right _ hB
  have hmod : s % B = (s - B) % B := by
    have := Nat.sub_add_cancel h
    conv => lhs; rw [← this]
    exact Nat.add_mod_right _ _
  unfold faiOff; rw [hdiv, hmod, Nat.add_mul]; omega

theorem Clean_append {a b : Bytes} (h : Clean (a ++ b)) : Clean a ∧ Clean b :=
  ⟨fun x hx => h x (List.mem_append_left _ hx), fun x hx => h x (List.mem_append_right _ hx)⟩

/-- a sequence line is its bases followed by a terminator made of CR / LF -/
theorem line_decomp {r : Bytes} (hc : Clean (stripEol (nextLine r).1)) :
    ∃ t, (nextLine r).1 = stripEol (nextLine r).1 ++ t ∧ (∀ b ∈ t, b = CR ∨ b = LF) ∧
      CleanL (stripEol (nextLine r).1) ∧ AtEol (t ++ (nextLine r).2) := by
  rcases nextLine_cases r with ⟨c0, hc0, he⟩ | ⟨hno, hnil⟩
  · have hs : stripEol (nextLine r).1 = stripCR c0 := by
      simp [stripEol, he, stripLF_concat]
    rw [hs] at hc ⊢
    have hcl : CleanL (stripCR c0) := fun b hb =>
      ⟨(hc b hb).1, fun h => hc0 (h ▸ stripCR_sublist c0 b hb), (hc b hb).2⟩
    rcases stripCR_cases c0 with h1 | h1
    · refine ⟨[LF], by rw [he, ← h1], by simp, hcl, ?_⟩
      exact Or.inr (Or.inr (Or.inl ⟨_, rfl⟩))
    · have e : (nextLine r).1 = stripCR c0 ++ [CR, LF] := by
        rw [he]
        conv => lhs; rw [h1]
        simp
      exact ⟨[CR, LF], e, by simp, hcl, Or.inr (Or.inr (Or.inr ⟨_, rfl⟩))⟩
  · have hs : stripEol (nextLine r).1 = stripCR (nextLine r).1 := by
      simp [stripEol, stripLF_of_noLF hno]
    rw [hs] at hc ⊢
    have hcl : CleanL (stripCR (nextLine r).1) := fun b hb =>
      ⟨(hc b hb).1, fun h => hno (h ▸ stripCR_sublist _ b hb), (hc b hb).2⟩
    rw [hnil]
    rcases stripCR_cases (nextLine r).1 with h1 | h1
    · exact ⟨[], by simpa using h1, by simp, hcl, Or.inl rfl⟩
    · exact ⟨[CR], h1, by simp, hcl, Or.inr (Or.inl rfl)⟩

/-- one line `c ++ t` followed by `rest`: reading from any base of the line on -/
theorem seq_step {c t rest bases : Bytes} (hc : CleanL c) (ht : ∀ b ∈ t, b = CR ∨ b = LF)
    (he : AtEol (t ++ rest)) (h : SeqAt rest bases) :
    SeqAt (c ++ (t ++ rest)) (c ++ bases) ∧
    ∀ s, s < c.length → SeqAt ((c ++ (t ++ rest)).drop s) ((c ++ bases).drop s) := by
  have h' : SeqAt (t ++ rest) bases := SeqAt_eol ht h
  constructor
  · cases c with
    | nil => simpa using h'
    | cons b c' => exact SeqAt_line (by simp) hc he h'
  · intro s hs
    rw [List.drop_append_of_le_length (by omega), List.drop_append_of_le_length (by omega)]
    refine SeqAt_line ?_ (fun b hb => hc b (List.mem_of_mem_drop hb)) he h'
    intro h0
    have := congrArg List.length h0
    simp at this; omega

theorem Accepted.seq {W B : Nat} (hB : 0 < B) {r rest : Bytes} (h : Accepted W B r rest) :
    Clean (basesOf (bodyOf (splitLines r))) →
    SeqAt r (basesOf (bodyOf (splitLines r))) ∧
    ∀ s, s < (basesOf (bodyOf (splitLines r))).length →
      SeqAt (r.drop (faiOff B W s)) ((basesOf (bodyOf (splitLines r))).drop s) := by
  induction h with
  | stop hl =>
    intro _
    rw [body_isLast hl]
    exact ⟨SeqAt_done hl, fun s hs => by simp [basesOf] at hs⟩
  | @last r hl h1 hw hb =>
    intro hcl
    rw [body_cons hl, body_isLast h1, basesOf_cons] at hcl ⊢
    simp only [basesOf, List.map_nil, List.flatten_nil, List.append_nil] at hcl ⊢
    obtain ⟨t, e1, e2, e3, e4⟩ := line_decomp hcl
    have hr : r = stripEol (nextLine r).1 ++ (t ++ (nextLine r).2) := by
      rw [← List.append_assoc, ← e1, nextLine_append]
    have := seq_step e3 e2 e4 (SeqAt_done h1)
    simp only [List.append_nil] at this
    rw [← hr] at this
    refine ⟨this.1, fun s hs => ?_⟩
    rw [faiOff_lt (by unfold lineBases at hb; omega)]
    exact this.2 s hs
  | @more r rest hl hw hb _ ih =>
    intro hcl
    rw [body_cons hl, basesOf_cons] at hcl ⊢
    obtain ⟨hcl1, hcl2⟩ := Clean_append hcl
    obtain ⟨ih1, ih2⟩ := ih hcl2
    obtain ⟨t, e1, e2, e3, e4⟩ := line_decomp hcl1
    have hr : r = stripEol (nextLine r).1 ++ (t ++ (nextLine r).2) := by
      rw [← List.append_assoc, ← e1, nextLine_append]
    have := seq_step e3 e2 e4 ih1
    rw [← hr] at this
    refine ⟨this.1, fun s hs => ?_⟩
    have hbl : (stripEol (nextLine r).1).length = B := hb
    by_cases hsB : s < B
    · rw [faiOff_lt hsB]
      exact this.2 s (by omega)
    · rw [faiOff_ge hB (by omega)]
      have hdrop : r.drop (W + faiOff B W (s - B)) = (nextLine r).2.drop (faiOff B W (s - B)) := by
        conv => lhs; rw [← nextLine_append r]
        rw [← hw, List.drop_append]
        simp
      have hdb : List.drop s (stripEol (nextLine r).1 ++ basesOf (bodyOf (splitLines (nextLine r).2)))
          = List.drop (s - B) (basesOf (bodyOf (splitLines (nextLine r).2))) := by
        rw [List.drop_append, hbl, List.drop_eq_nil_of_le (by omega)]
        simp
      rw [hdrop, hdb]
      apply ih2
      simp only [List.length_append] at hs
      omega

/-! ### the whole file -/

theorem take_findIdx (p : UInt8 → Bool) (l : Bytes) :
    l.take (l.findIdx p) = l.takeWhile (fun b => !p b) := by
  induction l with
  | nil => rfl
  | cons b r ih =>
    rw [List.findIdx_cons]
    cases hp : p b <;> simp [List.takeWhile, hp, ih]

theorem parseDefinition_ok {buf name d : Bytes} (h : parseDefinition buf = .ok (name, d)) :
    buf.head? = some GT ∧ name = (buf.drop 1).takeWhile (fun b => !isWs b) := by
  cases buf with
  | nil => simp [parseDefinition] at h
  | cons b src =>
    simp only [parseDefinition] at h
    split at h
    · cases h
    · rename_i hb
      split at h
      · cases h
      · simp only [Except.ok.injEq, Prod.mk.injEq] at h
        refine ⟨by simp at hb; simp [hb], ?_⟩
        rw [← h.1, take_findIdx]; rfl

/-- what the index says about one record, against the naive reading `g` of it -/
def RecOK (f : Bytes) (rec : FaiRec) (g : Bytes × List Bytes) : Prop :=
  rec.name = nameOf g.1 ∧ rec.length = (basesOf g.2).length ∧ 0 < rec.lineBases ∧ Uniform g.2 ∧
  (Clean (basesOf g.2) → ∀ s, s < rec.length →
    SeqAt (f.drop (faiPos rec s)) ((basesOf g.2).drop s))

theorem uniform_pos {body : List Bytes} (h : Uniform body) : 0 < (basesOf body).length := by
  cases body with
  | nil => exact absurd h (by simp [Uniform])
  | cons l ls =>
    rw [basesOf_cons]
    have := h.1
    unfold lineBases at this
    simp; omega

theorem groupRaw_skip (pre x : List Bytes) (h : ∀ l ∈ pre, isDef l = false) :
    groupRaw (pre ++ x) = groupRaw x := by
  induction pre with
  | nil => rfl
  | cons l ls ih =>
    have := h l (by simp)
    simp [groupRaw, this, ih (fun l hl => h l (List.mem_cons_of_mem _ hl))]

theorem bodyOf_not_def (ls : List Bytes) : ∀ l ∈ bodyOf ls, isDef l = false := by
  intro l hl
  induction ls with
  | nil => simp [bodyOf] at hl
  | cons x xs ih =>
    unfold bodyOf at hl ih
    rw [List.takeWhile_cons] at hl
    split at hl
    · rename_i hx
      rcases List.mem_cons.mp hl with rfl | h
      · simpa using hx
      · exact ih h
    · simp at hl

theorem readLine_snd (src : Bytes) :
    (readLine src).2.1 = (nextLine src).1.length ∧ (readLine src).2.2 = (nextLine src).2 := ⟨rfl, rfl⟩

theorem indexRecord_none {src : Bytes} {off : Nat} (h : indexRecord src off = .ok none) :
    src = [] := by
  unfold indexRecord at h
  simp only [] at h
  by_cases hn : (readLine src).2.1 = 0
  · cases src with
    | nil => rfl
    | cons b r =>
      rw [(readLine_snd _).1] at hn
      exact absurd (List.length_eq_zero_iff.mp hn) (nextLine_fst_ne_nil (by simp))
  · rw [if_neg hn] at h
    cases hpd : parseDefinition (readLine src).1 with
    | error e => rw [hpd] at h; cases h
    | ok nd =>
      rw [hpd] at h
      cases hib : indexBody (readLine src).2.2 with
      | error e => rw [hib] at h; cases h
      | ok g => rw [hib] at h; cases h

/-- the first sequence line and the loop, together -/
theorem indexBody_accepted {r : Bytes} {g : Nat × Nat × Nat × Bytes} (h : indexBody r = .ok g) :
    0 < g.2.1 ∧ Accepted g.1 g.2.1 r g.2.2.2 ∧
    g.2.2.1 = (basesOf (bodyOf (splitLines r))).length ∧ Uniform (bodyOf (splitLines r)) ∧
    r ≠ [] := by
  unfold indexBody at h
  simp only [] at h
  by_cases hB : (consumeSeqLine r).2.1 = 0
  · rw [if_pos hB] at h; cases h
  · rw [if_neg hB] at h
    cases hlp : indexLoop (consumeSeqLine r).1 (consumeSeqLine r).2.1
        ((consumeSeqLine r).2.2.length + 1) (consumeSeqLine r).2.2 (consumeSeqLine r).2.1 with
    | error e => rw [hlp] at h; cases h
    | ok res =>
      rw [hlp] at h
      simp only [Except.ok.injEq] at h
      subst h
      have hl : isLastSeqLine r = false := by
        cases hl : isLastSeqLine r with
        | false => rfl
        | true => rw [consumeSeqLine_isLast hl] at hB; simp at hB
      rw [consumeSeqLine_line hl] at hlp hB ⊢
      simp only [] at hlp hB ⊢
      obtain ⟨a1, a2⟩ := indexLoop_accepted _ _ _ _ _ _ hlp
      refine ⟨by omega, .more hl rfl rfl a1, ?_, ?_, (isLast_false hl).1⟩
      · rw [a2, body_cons hl, basesOf_cons]; simp [lineBases]
      · rw [body_cons hl]
        exact ⟨by omega, a1.uniform⟩

theorem indexRecord_some {f src : Bytes} {off : Nat} (hsrc : f.drop off = src)
    {rec : FaiRec} {rest : Bytes} {off' : Nat}
    (h : indexRecord src off = .ok (some (rec, rest, off'))) :
    ∃ g, groupRaw (splitLines src) = g :: groupRaw (splitLines rest) ∧ RecOK f rec g ∧
      f.drop off' = rest ∧ rest.length < src.length := by
  unfold indexRecord at h
  simp only [] at h
  by_cases hn : (readLine src).2.1 = 0
  · rw [if_pos hn] at h; cases h
  · rw [if_neg hn] at h
    have hsne : src ≠ [] := by
      intro h0; subst h0; exact hn rfl
    cases hpd : parseDefinition (readLine src).1 with
    | error e => rw [hpd] at h; cases h
    | ok nd =>
      rw [hpd] at h
      cases hib : indexBody (readLine src).2.2 with
      | error e => rw [hib] at h; cases h
      | ok g =>
        rw [hib] at h
        simp only [Except.ok.injEq, Option.some.injEq, Prod.mk.injEq] at h
        obtain ⟨hrec, hrest, hoff⟩ := h
        rw [(readLine_snd src).2] at hib hoff
        rw [(readLine_snd src).1] at hrec hoff
        obtain ⟨b1, b2, b3, b4, b5⟩ := indexBody_accepted hib
        obtain ⟨c1, c2, pre, c3⟩ := b2.split
        obtain ⟨d1, d2⟩ := parseDefinition_ok (by rw [← Prod.eta nd] at hpd; exact hpd)
        -- the definition line ends with LF (there is a sequence line after it)
        obtain ⟨c, hcLF, hl0⟩ : ∃ c, LF ∉ c ∧ (nextLine src).1 = c ++ [LF] := by
          rcases nextLine_cases src with h1 | ⟨_, h2⟩
          · exact h1
          · exact absurd h2 b5
        have hbuf : (readLine src).1 = stripEol (nextLine src).1 := by
          simp [readLine, hl0, stripEol, stripLF_concat]
        rw [hbuf] at d1 d2
        have hdef : isDef (nextLine src).1 = true := by
          have hne : stripEol (nextLine src).1 ≠ [] := by
            intro h0; rw [h0] at d1; simp at d1
          have h1 : stripEol (nextLine src).1 = stripCR c := by
            simp [hl0, stripEol, stripLF_concat]
          rw [h1] at hne d1
          rw [stripCR_head hne] at d1
          have hcne : c ≠ [] := by intro h0; rw [h0] at d1; simp at d1
          cases c with
          | nil => exact absurd rfl hcne
          | cons x y => simp at d1; simp [isDef, hl0, d1]
        have hsrc' : src = (nextLine src).1 ++ (nextLine src).2 := (nextLine_append src).symm
        have hsl := splitLines_eq hsne
        have hlt := nextLine_snd_length_lt hsne
        clear hbuf hpd hn hib hl0 hcLF
        generalize (nextLine src).1 = l0 at *
        generalize (nextLine src).2 = r at *
        refine ⟨(l0, bodyOf (splitLines r)), ?_, ?_, ?_, ?_⟩
        · rw [hsl]
          simp only [groupRaw, hdef, if_true]
          congr 1
          rw [c1, groupRaw_skip _ _ (bodyOf_not_def _), ← hrest]
        · subst hrec
          refine ⟨d2, b3, b1, b4, ?_⟩
          intro hclean s hs
          have := (b2.seq b1 hclean).2 s (by simpa [b3] using hs)
          have hpos : f.drop (faiPos ⟨nd.1, g.2.2.1, off + l0.length, g.2.1, g.1⟩ s)
              = r.drop (faiOff g.2.1 g.1 s) := by
            unfold faiPos faiOff
            simp only []
            rw [Nat.add_assoc, Nat.add_assoc, ← List.drop_drop, hsrc, hsrc', ← List.drop_drop]
            simp
          rw [hpos]
          exact this
        · rw [← hoff, ← hrest]
          have hlen : r.length - g.2.2.2.length = pre.length := by
            have := congrArg List.length c3
            simp at this; omega
          rw [hlen, ← List.drop_drop, ← List.drop_drop, hsrc, hsrc']
          simp
          conv => lhs; rw [c3]
          simp
        · rw [← hrest]
          have := congrArg List.length c3
          simp at this; omega

/-- two lists of the same length whose elements are related pairwise -/
inductive Forall₂ {α β : Type} (R : α → β → Prop) : List α → List β → Prop
  | nil : Forall₂ R [] []
  | cons {a b l₁ l₂} : R a b → Forall₂ R l₁ l₂ → Forall₂ R (a :: l₁) (b :: l₂)

theorem indexAll_spec (f : Bytes) : ∀ (fuel : Nat) (src : Bytes) (off : Nat) (recs : List FaiRec),
    f.drop off = src → indexAll fuel src off = .ok recs →
    Forall₂ (RecOK f) recs (groupRaw (splitLines src)) := by
  intro fuel
  induction fuel with
  | zero => intro src off recs _ h; simp [indexAll] at h
  | succ n ih =>
    intro src off recs hsrc h
    unfold indexAll at h
    cases hir : indexRecord src off with
    | error e => rw [hir] at h; cases h
    | ok o =>
      rw [hir] at h
      cases o with
      | none =>
        simp only [Except.ok.injEq] at h
        subst h
        rw [indexRecord_none hir]
        exact .nil
      | some t =>
        obtain ⟨rec, rest, off'⟩ := t
        simp only [] at h
        cases hia : indexAll n rest off' with
        | error e => rw [hia] at h; cases h
        | ok recs' =>
          rw [hia] at h
          simp only [Except.ok.injEq] at h
          subst h
          obtain ⟨g, g1, g2, g3, _⟩ := indexRecord_some hsrc hir
          rw [g1]
          exact .cons g2 (ih _ _ _ g3 hia)

theorem forall₂_get {α β : Type} {R : α → β → Prop} {l₁ : List α} {l₂ : List β}
    (h : Forall₂ R l₁ l₂) : ∀ (i : Nat) (a : α) (b : β), l₁[i]? = some a → l₂[i]? = some b → R a b := by
  induction h with
  | nil => intro i a b h1; simp at h1
  | cons hab _ ih =>
    intro i a b h1 h2
    cases i with
    | zero => simp at h1 h2; subst h1 h2; exact hab
    | succ k => simp at h1 h2; exact ih k a b h1 h2

theorem forall₂_map {α β γ : Type} {R : α → β → Prop} {l₁ : List α} {l₂ : List β}
    (fa : α → γ) (fb : β → γ) (h : Forall₂ R l₁ l₂) (hR : ∀ a b, R a b → fa a = fb b) :
    l₁.map fa = l₂.map fb := by
  induction h with
  | nil => rfl
  | cons hab _ ih => simp [hR _ _ hab, ih]

theorem forall₂_right {α β : Type} {R : α → β → Prop} {P : β → Prop} {l₁ : List α} {l₂ : List β}
    (h : Forall₂ R l₁ l₂) (hR : ∀ a b, R a b → P b) : ∀ b ∈ l₂, P b := by
  induction h with
  | nil => intro b hb; simp at hb
  | cons hab _ ih =>
    intro b hb
    rcases List.mem_cons.mp hb with rfl | hb
    · exact hR _ _ hab
    · exact ih b hb

end Noodles.Fasta
