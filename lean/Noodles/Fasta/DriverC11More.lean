import Noodles.Basic.Wire
import Noodles.Fasta.Model
import Noodles.Fasta.SeqReader
import Noodles.Fasta.FqIndex
import Noodles.Io.DriverC12
/-! Line-protocol handler for the C11 extension (`c11 fabgz …`, `c11 fabuf …`, `c11 fqindexu …`).

* `c11 fabgz <file> <layout> <gzi> <queries>` — the FASTA text `file` (hex), cut into BGZF members
  `layout` = `csize:len,…` (the `len`s add up to the file length), read through
  `fasta::io::IndexedReader<bgzf::io::IndexedReader<_>>` with the gzi index `gzi` = `c:u,…` (`-` =
  empty); `queries` = `namehex:start:end,…` run one after the other on the same reader. Answer: the
  fai index of the text, then per query `<bases or error class>@<c>/<u>` — `c/u` is the BGZF
  reader's virtual position after the query.
* `c11 fabuf <file> <cap> <sched> <queries>` — each query on a fresh
  `fasta::io::Reader<BufReader<_>>` with capacity `cap` whose inner reader follows the delivery
  schedule `sched` (syntax of `c12`). Answer: the index, then per query `<bases or error>@<pos>` —
  `pos` is the reader's stream position after the query.
* `c11 fqindexu <file>` — `fastq::io::Indexer` over the file, names checked as UTF-8.
-/
namespace Noodles.Fasta.More
open Noodles.Wire Noodles.Fasta

def errStr : Err → String
  | .invalidData => "err:invalid-data"
  | .invalidInput => "err:invalid-input"
  | .eof => "err:eof"
  | .fuel => "err:fuel"

def fmtList (l : List String) : String := if l.isEmpty then "-" else ",".intercalate l

def fmtIndex (ix : List FaiRec) : String :=
  fmtList (ix.map fun r => s!"{hex r.name}:{r.length}:{r.position}:{r.lineBases}:{r.lineWidth}")

def optNat (s : String) : Option (Option Nat) :=
  if s = "-" then some none else s.toNat?.map some

def parseQuery (q : String) : Option (Bytes × Option Nat × Option Nat) :=
  match q.splitOn ":" with
  | [n, s, e] => do pure (← unhex n, ← optNat s, ← optNat e)
  | _ => none

def parseList {α : Type} (p : String → Option α) (s : String) : Option (List α) :=
  if s = "-" then some [] else (s.splitOn ",").mapM p

def fmtRes : Except Err Bytes → String
  | .ok b => hex b
  | .error e => errStr e

/-- `csize:len,…` over the flat file -/
def cutLayout : Bytes → List (Nat × Nat) → Noodles.Bgzf.RM.Layout UInt8
  | _, [] => []
  | f, (c, n) :: rest => ⟨c, f.take n⟩ :: cutLayout (f.drop n) rest

open Noodles.Bgzf in
/-- the queries of one session on a bgzipped indexed reader; `fai::Index::query` takes the first
record with the region's name (`InvalidInput` when there is none, before the reader is touched) -/
def sessionBgzf (L : RM.Layout UInt8) (g : RM.Gzi) (ix : List FaiRec) :
    RM.R UInt8 → List (Bytes × Option Nat × Option Nat) → List String
  | _, [] => []
  | s, (n, st, en) :: qs =>
    match ix.find? (fun r => r.name == n) with
    | none =>
      let t := RM.tell s
      s!"{errStr .invalidInput}@{t.1}/{t.2}" :: sessionBgzf L g ix s qs
    | some r =>
      let a := queryBgzf L g s r st en
      let s' := a.2.getD s
      let t := RM.tell s'
      s!"{fmtRes a.1}@{t.1}/{t.2}" :: sessionBgzf L g ix s' qs

def bufQuery (f : Bytes) (sched : List Noodles.IO.Delivery) (cap : Nat) (ix : List FaiRec)
    (q : Bytes × Option Nat × Option Nat) : String :=
  match ix.find? (fun r => r.name == q.1) with
  | none => s!"{errStr .invalidInput}@0"
  | some r =>
    let a := queryBufR f sched cap r q.2.1 q.2.2
    let pos := match a.2 with
      | none => 0
      | some b => f.length - b.stream.length
    s!"{fmtRes a.1}@{pos}"

def handleC11More : List String → Option String
  | ["fabgz", file, layout, gzi, queries] =>
    match unhex file, pairs layout, pairs gzi, parseList parseQuery queries with
    | some f, some cuts, some g, some qs =>
      match indexFile f with
      | .error e => some (errStr e)
      | .ok ix =>
        let L := cutLayout f cuts
        some (" ".intercalate (fmtIndex ix :: sessionBgzf L g ix Noodles.Bgzf.RM.R.init qs))
    | _, _, _, _ => some "bad-op"
  | ["fabuf", file, cap, sched, queries] =>
    match unhex file, cap.toNat?, Noodles.IO.parseSched sched, parseList parseQuery queries with
    | some f, some cap, some sc, some qs =>
      match indexFile f with
      | .error e => some (errStr e)
      | .ok ix => some (" ".intercalate (fmtIndex ix :: qs.map (bufQuery f sc cap ix)))
    | _, _, _, _ => some "bad-op"
  | ["fqindexu", file] =>
    match unhex file with
    | some f => match fqIndexFileU f with
      | .ok ix => some (fmtList (ix.map fun r =>
          s!"{hex r.name}:{r.length}:{r.sequenceOffset}:{r.lineBases}:{r.lineWidth}:{r.qualityOffset}"))
      | .error e => some (errStr e)
    | none => some "bad-op"
  | _ => none

end Noodles.Fasta.More
