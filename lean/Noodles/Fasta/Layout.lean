namespace Noodles.Fasta
variable {α : Type}

/-- bytes of a FASTA record body: full lines of `lb` bases, each followed by the terminator `term`
(`\n` or `\r\n`); the last (possibly short) line is followed by an arbitrary `tail`. -/
def layout (lb : Nat) (term tail : List α) (bases : List α) : List α :=
  if bases.length ≤ lb ∨ lb = 0 then bases ++ tail
  else bases.take lb ++ term ++ layout lb term tail (bases.drop lb)
termination_by bases.length
decreasing_by simp [List.length_drop]; omega

/-- `fai::Record::query`: offset of 0-based base `s` relative to the start of the body. -/
def faiOffset (lb lw s : Nat) : Nat := s / lb * lw + s % lb

/-- The byte the index points at is the requested base — for every line width, every terminator
length and every position. -/
theorem layout_at (lb : Nat) (hlb : 0 < lb) (term tail : List α) :
    ∀ (n : Nat) (bases : List α), bases.length = n → ∀ s, s < bases.length →
      (layout lb term tail bases)[faiOffset lb (lb + term.length) s]? = bases[s]? := by
  intro n
  induction n using Nat.strongRecOn with
  | _ n ih =>
    intro bases hn s hs
    unfold layout
    split
    · rename_i hshort
      have hle : bases.length ≤ lb := by rcases hshort with h | h; exact h; omega
      have hslt : s < lb := by omega
      have : faiOffset lb (lb + term.length) s = s := by
        unfold faiOffset; rw [Nat.div_eq_of_lt hslt, Nat.mod_eq_of_lt hslt]; simp
      rw [this, List.getElem?_append_left hs]
    · rename_i hlong
      have hgt : lb < bases.length := by omega
      by_cases hslt : s < lb
      · have : faiOffset lb (lb + term.length) s = s := by
          unfold faiOffset; rw [Nat.div_eq_of_lt hslt, Nat.mod_eq_of_lt hslt]; simp
        rw [this, List.append_assoc, List.getElem?_append_left (by simp; omega)]
        rw [List.getElem?_take_of_lt hslt]
      · have hge : lb ≤ s := by omega
        have hdiv : s / lb = (s - lb) / lb + 1 := by
          have := Nat.sub_add_cancel hge
          conv => lhs; rw [← this]
          exact Nat.add_div_right _ hlb
        have hmod : s % lb = (s - lb) % lb := by
          have := Nat.sub_add_cancel hge
          conv => lhs; rw [← this]
          exact Nat.add_mod_right _ _
        have hoff : faiOffset lb (lb + term.length) s
            = (lb + term.length) + faiOffset lb (lb + term.length) (s - lb) := by
          unfold faiOffset; rw [hdiv, hmod, Nat.add_mul]; omega
        rw [hoff]
        have hpre : (bases.take lb ++ term).length = lb + term.length := by
          simp [List.length_take]; omega
        rw [← hpre, List.getElem?_append_right (Nat.le_add_right _ _), Nat.add_sub_cancel_left]
        have := ih (bases.length - lb) (by omega) (bases.drop lb) (by simp) (s - lb)
          (by simp; omega)
        rw [hpre] at *
        rw [this, List.getElem?_drop]
        congr 1; omega

#print axioms layout_at
end Noodles.Fasta
