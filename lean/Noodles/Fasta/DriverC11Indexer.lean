import Noodles.Basic.Wire
import Noodles.Fasta.IndexerSched
/-! Line-protocol handler for the C11 indexer extension.

* `c11 idx <sched> <file>` — `fasta::io::Indexer` over a `BufRead` whose successive `fill_buf` calls
  returned slices of the lengths listed in `sched`: comma-separated `<len>` (a slice of `len`
  bytes; `0` only at the end of the stream), `i` (`ErrorKind::Interrupted`), `<len>x<count>` /
  `ix<count>` (repeated), `-` for the empty schedule (whole-buffer windows). Answer: the index
  `name:length:offset:line_bases:line_width,…` (or `-`) followed by ` left=<n>` — the number of
  schedule entries the model did not use (the harness appends 3 spare entries to the recorded ones, so
  a model that makes more or fewer `fill_buf` calls than the real code is caught) — or the error:
  `E:empty:<offset>`, `E:bases:<actual>:<expected>`, `E:width:<actual>:<expected>`, `err:<io class>`.
-/
namespace Noodles.Fasta.Idx
open Noodles.Wire Noodles.Fasta

def errStr : Err → String
  | .invalidData => "err:invalid-data"
  | .invalidInput => "err:invalid-input"
  | .eof => "err:eof"
  | .fuel => "err:fuel"

def idxErrStr : IdxErr → String
  | .io e => errStr e
  | .emptySequence o => s!"E:empty:{o}"
  | .invalidLineBases a e => s!"E:bases:{a}:{e}"
  | .invalidLineWidth a e => s!"E:width:{a}:{e}"

def fmtIndex (ix : List FaiRec) : String :=
  if ix.isEmpty then "-" else
  ",".intercalate (ix.map fun r => s!"{hex r.name}:{r.length}:{r.position}:{r.lineBases}:{r.lineWidth}")

def parseStep1 (s : String) : Option Step :=
  if s = "i" then some .intr else s.toNat?.map fun n => .win (n - 1)

def parseStep (s : String) : Option (List Step) :=
  match s.splitOn "x" with
  | [a] => (parseStep1 a).map fun st => [st]
  | [a, c] => do pure (List.replicate (← c.toNat?) (← parseStep1 a))
  | _ => none

def parseSched (s : String) : Option (List Step) :=
  if s = "-" then some [] else ((s.splitOn ",").mapM parseStep).map List.flatten

def handleC11Indexer : List String → Option String
  | ["idx", sched, file] =>
    match parseSched sched, unhex file with
    | some sc, some f =>
      match indexFileS f sc with
      | .ok (ix, left) => some s!"{fmtIndex ix} left={left.length}"
      | .error e => some (idxErrStr e)
    | _, _ => some "bad-op"
  | _ => none

end Noodles.Fasta.Idx
