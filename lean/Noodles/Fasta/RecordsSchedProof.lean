import Noodles.Io.FastaProof
import Noodles.Fasta.Spec
import Noodles.Fasta.Proof
/-! Helper lemmas for `Noodles/Props/C11Indexer.lean`, part 4: `Reader::records` / `read_sequence`
over a `BufReader` of any capacity, any delivery schedule and any `read` sizes (the model of C12,
`Noodles/Io/Lines.lean`, with its refinement theorem `fastaRecordsAll_spec`) returns, for every record,
the concatenation of its sequence lines as the naive parse of C11 (`Noodles/Fasta/Spec.lean`) defines
them. -/
namespace Noodles.Fasta

/-! ### the two line splitters agree -/

theorem specUntil_eq_nextLine (xs : Bytes) :
    Noodles.IO.specUntil (· == Noodles.IO.LF) xs = nextLine xs := by
  induction xs with
  | nil => rfl
  | cons b r ih =>
    unfold Noodles.IO.specUntil at ih ⊢
    unfold nextLine
    simp only [Noodles.IO.findSplit]
    by_cases hb : b = LF
    · have hb' : (b == Noodles.IO.LF) = true := by rw [hb]; rfl
      simp only [hb', if_true, if_pos hb, List.nil_append]
    · have hb' : (b == Noodles.IO.LF) = false := by
        apply Bool.eq_false_iff.mpr
        intro h; exact hb (eq_of_beq h)
      simp only [hb', Bool.false_eq_true, if_false, if_neg hb]
      cases hfs : Noodles.IO.findSplit (fun x => x == Noodles.IO.LF) r with
      | none => rw [hfs] at ih; simp only at ih ⊢; rw [← ih]
      | some t =>
        obtain ⟨pre, d, post⟩ := t
        rw [hfs] at ih; simp only at ih ⊢; rw [← ih]; rfl

/-! ### terminators -/

theorem stripLF_cons {c : UInt8} (hc : c ≠ LF) (l : Bytes) : stripLF (c :: l) = c :: stripLF l := by
  cases l with
  | nil => simp [stripLF, hc]
  | cons d t =>
    unfold stripLF
    rw [List.getLast?_cons_cons]
    split <;> simp

theorem stripCR_cons {c : UInt8} (hc : c ≠ CR) (l : Bytes) : stripCR (c :: l) = c :: stripCR l := by
  cases l with
  | nil => simp [stripCR, hc]
  | cons d t =>
    unfold stripCR
    rw [List.getLast?_cons_cons]
    split <;> simp

theorem stripEol_cons {c : UInt8} (h1 : c ≠ LF) (h2 : c ≠ CR) (l : Bytes) :
    stripEol (c :: l) = c :: stripEol l := by
  unfold stripEol
  rw [stripLF_cons h1, stripCR_cons h2]

theorem specSeq_snd_length (r : Bytes) : (Noodles.IO.specSeq r).2.length ≤ r.length := by
  induction r with
  | nil => simp [Noodles.IO.specSeq]
  | cons c r ih =>
    unfold Noodles.IO.specSeq
    split
    · simp; omega
    · split
      · simp
      · simp; omega

/-! ### one sequence line -/

theorem wfSeq_head_ne_GT {c : UInt8} (hc : c ≠ LF) {r : Bytes}
    (h : Noodles.IO.wfSeq c r = true) : r.head? ≠ some GT := by
  cases r with
  | nil => simp
  | cons d t =>
    intro hd
    have hd' : d = Noodles.IO.GT := by
      have : d = GT := by simpa using hd
      exact this
    subst hd'
    unfold Noodles.IO.wfSeq at h
    simp only [beq_self_eq_true, if_true] at h
    exact hc (eq_of_beq h)

theorem wfSeq_after_CR {r : Bytes} (h : Noodles.IO.wfSeq CR r = true) :
    r = [] ∨ ∃ t, r = LF :: t := by
  cases r with
  | nil => left; rfl
  | cons d t =>
    right
    refine ⟨t, ?_⟩
    unfold Noodles.IO.wfSeq at h
    split at h
    · exact absurd h (by decide)
    · have h1 := (Bool.and_eq_true _ _).mp h
      have h2 : (d == Noodles.IO.LF) = true := by
        have := h1.1
        simpa [CR, Noodles.IO.CR] using this
      rw [eq_of_beq h2]; rfl

theorem specSeq_line (r : Bytes) : ∀ prev, Noodles.IO.wfSeq prev r = true → r.head? ≠ some GT →
    Noodles.IO.specSeq r =
      (stripEol (nextLine r).1 ++ (Noodles.IO.specSeq (nextLine r).2).1,
        (Noodles.IO.specSeq (nextLine r).2).2)
    ∧ Noodles.IO.wfSeq Noodles.IO.LF (nextLine r).2 = true := by
  induction r with
  | nil => intro _ _ _; exact ⟨by simp [nextLine, Noodles.IO.specSeq, stripEol, stripLF, stripCR], rfl⟩
  | cons c r ih =>
    intro prev hw hh
    have hgt : c ≠ GT := by simpa using hh
    have hgt' : (c == Noodles.IO.GT) = false := by
      apply Bool.eq_false_iff.mpr
      intro h; exact hgt (eq_of_beq h)
    unfold Noodles.IO.wfSeq at hw
    simp only [hgt', Bool.false_eq_true, if_false] at hw
    have hw2 := ((Bool.and_eq_true _ _).mp hw).2
    by_cases hlf : c = LF
    · subst hlf
      have hn : nextLine (LF :: r) = ([LF], r) := by simp [nextLine]
      rw [hn]
      refine ⟨?_, hw2⟩
      have : Noodles.IO.specSeq (LF :: r) = Noodles.IO.specSeq r := by
        conv => lhs; unfold Noodles.IO.specSeq
        simp [LF, Noodles.IO.LF]
      rw [this]
      simp [stripEol, stripLF, stripCR, LF, CR]
    · have hn : nextLine (c :: r) = (c :: (nextLine r).1, (nextLine r).2) := by simp [nextLine, hlf]
      rw [hn]
      have hh' := wfSeq_head_ne_GT hlf hw2
      obtain ⟨i1, i2⟩ := ih c hw2 hh'
      refine ⟨?_, i2⟩
      by_cases hcr : c = CR
      · subst hcr
        have : Noodles.IO.specSeq (CR :: r) = Noodles.IO.specSeq r := by
          conv => lhs; unfold Noodles.IO.specSeq
          simp [CR, Noodles.IO.CR]
        rw [this]
        rcases wfSeq_after_CR hw2 with rfl | ⟨t, rfl⟩
        · simp [nextLine, Noodles.IO.specSeq, stripEol, stripLF, stripCR, LF, CR]
        · have hn2 : nextLine (LF :: t) = ([LF], t) := by simp [nextLine]
          rw [hn2] at i1 ⊢
          rw [i1]
          simp [stripEol, stripLF, stripCR, LF, CR]
      · rw [stripEol_cons hlf hcr]
        have hlf' : (c == Noodles.IO.LF) = false := by
          apply Bool.eq_false_iff.mpr
          intro h; exact hlf (eq_of_beq h)
        have hcr' : (c == Noodles.IO.CR) = false := by
          apply Bool.eq_false_iff.mpr
          intro h; exact hcr (eq_of_beq h)
        have : Noodles.IO.specSeq (c :: r) =
            (c :: (Noodles.IO.specSeq r).1, (Noodles.IO.specSeq r).2) := by
          conv => lhs; unfold Noodles.IO.specSeq
          simp [hlf', hcr', hgt']
        rw [this, i1]
        simp

/-! ### a sequence block -/

theorem specSeq_block : ∀ (n : Nat) (r : Bytes), r.length < n →
    Noodles.IO.wfSeq Noodles.IO.LF r = true →
    basesOf (bodyOf (splitLines r)) = (Noodles.IO.specSeq r).1 ∧
    groupRaw (splitLines r) = groupRaw (splitLines (Noodles.IO.specSeq r).2) := by
  intro n
  induction n with
  | zero => intro r h; omega
  | succ n ih =>
    intro r hl hw
    cases hlast : isLastSeqLine r with
    | true =>
      rw [body_isLast hlast]
      cases r with
      | nil => exact ⟨rfl, rfl⟩
      | cons b x =>
        have hb : b = Noodles.IO.GT := by
          have : b = GT := by simpa [isLastSeqLine] using hlast
          exact this
        subst hb
        rw [Noodles.IO.specSeq_gt]
        exact ⟨rfl, rfl⟩
    | false =>
      obtain ⟨hne, hh⟩ := isLast_false hlast
      obtain ⟨s1, s2⟩ := specSeq_line r Noodles.IO.LF hw hh
      have hlen := nextLine_snd_length_lt hne
      obtain ⟨j1, j2⟩ := ih (nextLine r).2 (by omega) s2
      rw [body_cons hlast, basesOf_cons, j1, s1]
      refine ⟨rfl, ?_⟩
      simp only
      rw [← j2, splitLines_eq hne]
      simp [groupRaw, isDef_nextLine hlast]

/-! ### the definition line -/

theorem stripEol_rel (L : Bytes) :
    Noodles.IO.stripEol L = stripEol L ∨ Noodles.IO.stripEol L = stripEol L ++ [CR] := by
  unfold Noodles.IO.stripEol stripEol stripLF
  by_cases h : L.getLast? = some LF
  · have h' : L.getLast? = some Noodles.IO.LF := h
    rw [if_pos h', if_pos h]
    left
    rfl
  · have h' : ¬ L.getLast? = some Noodles.IO.LF := h
    rw [if_neg h', if_neg h]
    exact stripCR_cases L

theorem head?_of_dropLast {l : Bytes} {a : UInt8} (h : l.dropLast.head? = some a) :
    l.head? = some a := by
  cases l with
  | nil => simp at h
  | cons x xs =>
    cases xs with
    | nil => simp at h
    | cons y ys => simpa using h

theorem IO_stripEol_head {L : Bytes} {a : UInt8} (h : (Noodles.IO.stripEol L).head? = some a) :
    L.head? = some a := by
  unfold Noodles.IO.stripEol at h
  split at h
  · simp only at h
    split at h
    · exact head?_of_dropLast (head?_of_dropLast h)
    · exact head?_of_dropLast h
  · exact h

theorem takeWhile_concat_false (p : UInt8 → Bool) (X : Bytes) (a : UInt8) (h : p a = false) :
    (X ++ [a]).takeWhile p = X.takeWhile p := by
  induction X with
  | nil => simp [List.takeWhile, h]
  | cons x X ih =>
    simp only [List.cons_append, List.takeWhile_cons]
    split
    · rw [ih]
    · rfl

theorem parseDefinition_naive {L name desc : Bytes}
    (h : Noodles.IO.parseDefinition (Noodles.IO.stripEol L) = .ok (name, desc)) :
    isDef L = true ∧ nameOf L = name := by
  cases hs : Noodles.IO.stripEol L with
  | nil => rw [hs] at h; simp [Noodles.IO.parseDefinition] at h
  | cons c r =>
    rw [hs] at h
    unfold Noodles.IO.parseDefinition at h
    simp only at h
    split at h
    · cases h
    · rename_i hc
      have hc' : c = GT := by
        have : c = Noodles.IO.GT := Classical.not_not.mp hc
        exact this
      split at h
      · cases h
      · have hname : name = r.takeWhile (fun x => !isWs x) := by
          injection h with h
          injection h with h1 h2
          exact h1.symm
        have hhead : L.head? = some c := IO_stripEol_head (by rw [hs]; rfl)
        refine ⟨by simp [isDef, hhead, hc'], ?_⟩
        unfold nameOf
        rcases stripEol_rel L with h1 | h1
        · rw [← h1, hs, hname]; rfl
        · rw [hs] at h1
          cases hX : stripEol L with
          | nil =>
            rw [hX] at h1
            simp at h1
            rw [hc'] at h1
            exact absurd h1.1 (by decide)
          | cons x X =>
            rw [hX] at h1
            simp only [List.cons_append, List.cons.injEq] at h1
            rw [hname, h1.2]
            simp only [List.drop_succ_cons, List.drop_zero]
            rw [takeWhile_concat_false _ _ _ (by decide)]

/-! ### the whole file -/

theorem naive_record {xs : Bytes} (hne : xs ≠ []) (hdef : isDef (nextLine xs).1 = true)
    (hw : Noodles.IO.wfSeq Noodles.IO.LF (nextLine xs).2 = true) :
    naive xs = (nameOf (nextLine xs).1, (Noodles.IO.specSeq (nextLine xs).2).1) ::
      naive (Noodles.IO.specSeq (nextLine xs).2).2 := by
  obtain ⟨a, b⟩ := specSeq_block _ _ (Nat.lt_succ_self _) hw
  unfold naive
  rw [splitLines_eq hne]
  simp only [groupRaw, hdef, if_true, List.map_cons]
  rw [a, b]

theorem specFasta_naive : ∀ (fuel : Nat) (xs : Bytes) (acc out : List Noodles.IO.FastaRec),
    Noodles.IO.wfFastaF fuel xs = true → xs.length < fuel →
    (Noodles.IO.specFasta fuel xs acc).1 = (out, none) →
    out.map (fun r => (r.name, r.sequence)) =
      acc.reverse.map (fun r => (r.name, r.sequence)) ++ naive xs := by
  intro fuel
  induction fuel with
  | zero => intro xs acc out _ hl; omega
  | succ fuel ih =>
    intro xs acc out hwf hl h
    unfold Noodles.IO.specFasta at h
    unfold Noodles.IO.wfFastaF at hwf
    rw [specUntil_eq_nextLine] at h hwf
    simp only [] at h hwf
    by_cases hz : (nextLine xs).1.length = 0
    · rw [if_pos hz] at h
      have hout : acc.reverse = out := by
        injection h
      have hxs : xs = [] := by
        apply Classical.byContradiction
        intro hne
        have := List.length_pos_iff.mpr (nextLine_fst_ne_nil hne)
        omega
      subst hxs
      subst hout
      simp [naive, splitLines, groupRaw]
    · rw [if_neg hz] at h hwf
      have hne : xs ≠ [] := by
        intro hxs; subst hxs; exact hz rfl
      obtain ⟨w1, w2⟩ := (Bool.and_eq_true _ _).mp hwf
      cases hp : Noodles.IO.parseDefinition (Noodles.IO.stripEol (nextLine xs).1) with
      | error e =>
        rw [hp] at h
        simp only at h
        injection h with h1 h2
        cases h2
      | ok nd =>
        obtain ⟨name, desc⟩ := nd
        rw [hp] at h
        simp only at h
        obtain ⟨d1, d2⟩ := parseDefinition_naive hp
        have hlen1 := specSeq_snd_length (nextLine xs).2
        have hlen2 := nextLine_snd_length_lt hne
        have := ih _ _ _ w2 (by omega) h
        rw [this, naive_record hne d1 w1, d2]
        simp

theorem records_any_buffer_concat (f : Bytes) (hwf : Noodles.IO.wfFasta f = true)
    (sizes : Nat → List Nat) (cap : Nat) (hcap : 0 < cap) (sched : List Noodles.IO.Delivery)
    (recs : List Noodles.IO.FastaRec)
    (h : (Noodles.IO.fastaRecordsAll sizes (Noodles.IO.BufR.ofSrc ⟨f, sched⟩ cap)).1 = .ok (recs, none)) :
    recs.map (fun r => (r.name, r.sequence)) = naive f := by
  have hs : (Noodles.IO.BufR.ofSrc (⟨f, sched⟩ : Noodles.IO.Src UInt8) cap).stream = f := by
    simp [Noodles.IO.BufR.ofSrc, Noodles.IO.BufR.stream]
  have hc : 0 < (Noodles.IO.BufR.ofSrc (⟨f, sched⟩ : Noodles.IO.Src UInt8) cap).cap := hcap
  have hspec := (Noodles.IO.fastaRecordsAll_spec sizes _ hc (by rw [hs]; exact hwf)).1
  rw [hs] at hspec
  rw [hspec] at h
  have h' : (Noodles.IO.specFasta (f.length + 1) f []).1 = (recs, none) := by
    injection h
  have := specFasta_naive (f.length + 1) f [] recs hwf (Nat.lt_succ_self _) h'
  simpa using this

end Noodles.Fasta
