import Noodles.Fasta.IndexerSchedProof
/-! Helper lemmas for `Noodles/Props/C11Indexer.lean`, part 2: `index_record` and the record loop
under an arbitrary schedule. -/
namespace Noodles.Fasta

/-! ### the schedule-free, fine-grained (payload-carrying) spec -/

/-- `indexLoopS` with the whole-buffer `consumeSeqLine` / `isLastSeqLine`: (base count, unread,
offset) -/
def specLoop (W B : Nat) : Nat → Bytes → Nat → Nat → Except IdxErr (Nat × Bytes × Nat)
  | 0, _, _, _ => .error (.io .fuel)
  | fuel + 1, r, bc, off =>
    let c := consumeSeqLine r
    let w := c.1
    let b := c.2.1
    if isLastSeqLine c.2.2 = true ∧ w ≤ W ∧ b ≤ B then .ok (bc + b, c.2.2, off + w)
    else if b ≠ B then .error (.invalidLineBases b B)
    else if w ≠ W then .error (.invalidLineWidth w W)
    else specLoop W B fuel c.2.2 (bc + b) (off + w)

def specRecord (src : Bytes) (offset : Nat) : Except IdxErr (Option (FaiRec × Bytes × Nat)) :=
  let buf := (readLine src).1
  let n := (readLine src).2.1
  if n = 0 then .ok none
  else match parseDefinition buf with
    | .error e => .error (.io e)
    | .ok nd =>
      let off1 := offset + n
      let c := consumeSeqLine (readLine src).2.2
      let W := c.1
      let B := c.2.1
      if B = 0 then .error (.emptySequence (off1 + W))
      else match specLoop W B (c.2.2.length + 1) c.2.2 B (off1 + W) with
        | .error e => .error e
        | .ok g => .ok (some (⟨nd.1, g.1, off1, B, W⟩, g.2.1, g.2.2))

def specAll : Nat → Bytes → Nat → Except IdxErr (List FaiRec)
  | 0, _, _ => .error (.io .fuel)
  | fuel + 1, src, offset =>
    match specRecord src offset with
    | .error e => .error e
    | .ok none => .ok []
    | .ok (some (rec, rest, offset')) =>
      match specAll fuel rest offset' with
      | .error e => .error e
      | .ok recs => .ok (rec :: recs)

theorem consumeSeqLine_clean {r : Bytes} (h : LinesClean r) : LinesClean (consumeSeqLine r).2.2 := by
  unfold consumeSeqLine
  split
  · exact h
  · split
    · exact h
    · exact h.next

theorem specLoop_clean (W B : Nat) : ∀ (fuel : Nat) (r : Bytes) (bc off : Nat)
    (g : Nat × Bytes × Nat), LinesClean r → specLoop W B fuel r bc off = .ok g → LinesClean g.2.1 := by
  intro fuel
  induction fuel with
  | zero => intro r bc off g _ h; simp [specLoop] at h
  | succ fuel ih =>
    intro r bc off g hc h
    unfold specLoop at h
    simp only at h
    split at h
    · cases h; exact consumeSeqLine_clean hc
    · split at h
      · cases h
      · split at h
        · cases h
        · exact ih _ _ _ _ (consumeSeqLine_clean hc) h

theorem indexLoopS_spec (W B : Nat) : ∀ (fuel : Nat) (r : Bytes) (bc off : Nat) (sc : List Step),
    (sc = [] ∨ LinesClean r) →
    ∃ sc', indexLoopS W B fuel r bc off sc =
        (specLoop W B fuel r bc off).map (fun g => (g.1, g.2.1, g.2.2, sc')) ∧
      (sc = [] → sc' = []) := by
  intro fuel
  induction fuel with
  | zero => intro r bc off sc _; exact ⟨[], rfl, fun _ => rfl⟩
  | succ fuel ih =>
    intro r bc off sc h
    have hc : sc = [] ∨ r.head? = some GT ∨ Clean (stripEol (nextLine r).1) :=
      h.imp id LinesClean.head
    obtain ⟨s1, h1, h1n⟩ := consumeSeqLineS_spec r sc hc
    have hl := isLastS_spec (consumeSeqLine r).2.2 s1
    have h' : (isLastS (consumeSeqLine r).2.2 s1).2 = [] ∨ LinesClean (consumeSeqLine r).2.2 := by
      rcases h with h | h
      · exact Or.inl (hl.2 (h1n h))
      · exact Or.inr (consumeSeqLine_clean h)
    obtain ⟨s2, h2, h2n⟩ := ih (consumeSeqLine r).2.2 (bc + (consumeSeqLine r).2.1)
      (off + (consumeSeqLine r).1) (isLastS (consumeSeqLine r).2.2 s1).2 h'
    unfold indexLoopS specLoop
    simp only [h1, hl.1]
    split
    · exact ⟨_, rfl, fun hs => hl.2 (h1n hs)⟩
    · split
      · exact ⟨[], rfl, fun _ => rfl⟩
      · split
        · exact ⟨[], rfl, fun _ => rfl⟩
        · exact ⟨s2, h2, fun hs => h2n (hl.2 (h1n hs))⟩

theorem indexRecordS_spec (src : Bytes) (offset : Nat) (sc : List Step)
    (h : sc = [] ∨ LinesClean src) :
    ∃ sc', indexRecordS src offset sc = (specRecord src offset).map (fun o => (o, sc')) ∧
      (sc = [] → sc' = []) := by
  obtain ⟨s1, h1, h1n⟩ := readLineS_spec src sc
  have hr : (readLine src).2.2 = (nextLine src).2 := rfl
  have hc1 : s1 = [] ∨ LinesClean (readLine src).2.2 := by
    rcases h with h | h
    · exact Or.inl (h1n h)
    · exact Or.inr (hr ▸ h.next)
  obtain ⟨s2, h2, h2n⟩ := consumeSeqLineS_spec (readLine src).2.2 s1 (hc1.imp id LinesClean.head)
  have hc2 : s2 = [] ∨ LinesClean (consumeSeqLine (readLine src).2.2).2.2 := by
    rcases hc1 with h | h
    · exact Or.inl (h2n h)
    · exact Or.inr (consumeSeqLine_clean h)
  unfold indexRecordS specRecord
  simp only [h1, h2]
  by_cases hn : (readLine src).2.1 = 0
  · simp only [hn, if_true]
    exact ⟨s1, rfl, h1n⟩
  · simp only [hn, if_false]
    cases hp : parseDefinition (readLine src).1 with
    | error e => exact ⟨[], rfl, fun _ => rfl⟩
    | ok nd =>
      dsimp only
      by_cases hB : (consumeSeqLine (readLine src).2.2).2.1 = 0
      · simp only [hB, if_true]
        exact ⟨[], rfl, fun _ => rfl⟩
      · simp only [hB, if_false]
        obtain ⟨s3, h3, h3n⟩ := indexLoopS_spec (consumeSeqLine (readLine src).2.2).1
          (consumeSeqLine (readLine src).2.2).2.1
          ((consumeSeqLine (readLine src).2.2).2.2.length + 1)
          (consumeSeqLine (readLine src).2.2).2.2 (consumeSeqLine (readLine src).2.2).2.1
          (offset + (readLine src).2.1 + (consumeSeqLine (readLine src).2.2).1) s2 hc2
        rw [h3]
        refine ⟨s3, ?_, fun hs => h3n (h2n (h1n hs))⟩
        cases specLoop _ _ _ _ _ _ <;> rfl

theorem specRecord_clean {src : Bytes} {offset : Nat} {rec : FaiRec} {rest : Bytes} {off' : Nat}
    (hc : LinesClean src) (h : specRecord src offset = .ok (some (rec, rest, off'))) :
    LinesClean rest := by
  have hr : (readLine src).2.2 = (nextLine src).2 := rfl
  have hc1 : LinesClean (readLine src).2.2 := hr ▸ hc.next
  unfold specRecord at h
  simp only at h
  split at h
  · cases h
  · split at h
    · cases h
    · split at h
      · cases h
      · split at h
        · cases h
        · rename_i g hg
          cases h
          exact specLoop_clean _ _ _ _ _ _ _ (consumeSeqLine_clean hc1) hg

theorem indexAllS_spec : ∀ (fuel : Nat) (src : Bytes) (offset : Nat) (sc : List Step),
    (sc = [] ∨ LinesClean src) →
    ∃ sc', indexAllS fuel src offset sc = (specAll fuel src offset).map (fun o => (o, sc')) ∧
      (sc = [] → sc' = []) := by
  intro fuel
  induction fuel with
  | zero => intro src offset sc _; exact ⟨[], rfl, fun _ => rfl⟩
  | succ fuel ih =>
    intro src offset sc h
    obtain ⟨s1, h1, h1n⟩ := indexRecordS_spec src offset sc h
    unfold indexAllS specAll
    rw [h1]
    cases hs : specRecord src offset with
    | error e => exact ⟨[], rfl, fun _ => rfl⟩
    | ok o =>
      cases o with
      | none => exact ⟨s1, rfl, h1n⟩
      | some t =>
        obtain ⟨rec, rest, off'⟩ := t
        have hc : s1 = [] ∨ LinesClean rest := by
          rcases h with h | h
          · exact Or.inl (h1n h)
          · exact Or.inr (specRecord_clean h hs)
        obtain ⟨s2, h2, h2n⟩ := ih rest off' s1 hc
        refine ⟨s2, ?_, fun hn => h2n (h1n hn)⟩
        simp only [Except.map]
        rw [h2]
        cases specAll fuel rest off' <;> rfl

theorem indexFileSched_spec (f : Bytes) (sc : List Step) (h : sc = [] ∨ LinesClean f) :
    indexFileSched f sc = specAll (f.length + 1) f 0 := by
  obtain ⟨s1, h1, _⟩ := indexAllS_spec (f.length + 1) f 0 sc h
  unfold indexFileSched indexFileS
  rw [h1]
  cases specAll (f.length + 1) f 0 <;> rfl

/-- **A.** the index (or the `IndexError`, with its payload) does not depend on the schedule -/
theorem indexFileSched_indep (f : Bytes) (sc : List Step) (h : LinesClean f) :
    indexFileSched f sc = indexFileSched f [] := by
  rw [indexFileSched_spec f sc (Or.inr h), indexFileSched_spec f [] (Or.inl rfl)]

/-! ### the spec against the model of `Model.lean` -/

theorem consumeSeqLine_len (r : Bytes) :
    (consumeSeqLine r).1 + (consumeSeqLine r).2.2.length = r.length := by
  cases r with
  | nil => rfl
  | cons b x =>
    have := congrArg List.length (nextLine_append (b :: x))
    simp only [List.length_append] at this
    simp only [consumeSeqLine]
    by_cases hb : b = GT
    · simp [hb]
    · simp only [hb, if_false]
      exact this

theorem indexLoop_rest_le (W B : Nat) : ∀ (fuel : Nat) (r : Bytes) (bc : Nat) (g : Nat × Bytes),
    indexLoop W B fuel r bc = .ok g → g.2.length ≤ r.length := by
  intro fuel
  induction fuel with
  | zero => intro r bc g h; simp [indexLoop] at h
  | succ fuel ih =>
    intro r bc g h
    have hl := consumeSeqLine_len r
    unfold indexLoop at h
    simp only at h
    split at h
    · cases h; simp only; omega
    · split at h
      · cases h
      · split at h
        · cases h
        · have := ih _ _ _ h; omega

theorem specLoop_model (W B : Nat) : ∀ (fuel : Nat) (r : Bytes) (bc off : Nat),
    (specLoop W B fuel r bc off).mapError IdxErr.toErr =
      (indexLoop W B fuel r bc).map (fun g => (g.1, g.2, off + (r.length - g.2.length))) := by
  intro fuel
  induction fuel with
  | zero => intro r bc off; rfl
  | succ fuel ih =>
    intro r bc off
    have hl := consumeSeqLine_len r
    unfold specLoop indexLoop
    simp only
    split
    · simp only [Except.mapError, Except.map]
      congr 3
      omega
    · split
      · rfl
      · split
        · rfl
        · rw [ih]
          cases hi : indexLoop W B fuel (consumeSeqLine r).2.2 (bc + (consumeSeqLine r).2.1) with
          | error e => rfl
          | ok g =>
            have := indexLoop_rest_le _ _ _ _ _ _ hi
            simp only [Except.map]
            congr 3
            omega

theorem specRecord_model (src : Bytes) (offset : Nat) :
    (specRecord src offset).mapError IdxErr.toErr = indexRecord src offset := by
  unfold specRecord indexRecord indexBody
  simp only
  by_cases hn : (readLine src).2.1 = 0
  · simp only [hn, if_true]; rfl
  · simp only [hn, if_false]
    cases hp : parseDefinition (readLine src).1 with
    | error e => rfl
    | ok nd =>
      dsimp only
      by_cases hB : (consumeSeqLine (readLine src).2.2).2.1 = 0
      · simp only [hB, if_true]; rfl
      · simp only [hB, if_false]
        have hl := consumeSeqLine_len (readLine src).2.2
        have hm := specLoop_model (consumeSeqLine (readLine src).2.2).1
          (consumeSeqLine (readLine src).2.2).2.1
          ((consumeSeqLine (readLine src).2.2).2.2.length + 1)
          (consumeSeqLine (readLine src).2.2).2.2 (consumeSeqLine (readLine src).2.2).2.1
          (offset + (readLine src).2.1 + (consumeSeqLine (readLine src).2.2).1)
        cases hi : indexLoop (consumeSeqLine (readLine src).2.2).1
          (consumeSeqLine (readLine src).2.2).2.1
          ((consumeSeqLine (readLine src).2.2).2.2.length + 1)
          (consumeSeqLine (readLine src).2.2).2.2 (consumeSeqLine (readLine src).2.2).2.1 with
        | error e =>
          rw [hi] at hm
          cases hs : specLoop (consumeSeqLine (readLine src).2.2).1
            (consumeSeqLine (readLine src).2.2).2.1
            ((consumeSeqLine (readLine src).2.2).2.2.length + 1)
            (consumeSeqLine (readLine src).2.2).2.2 (consumeSeqLine (readLine src).2.2).2.1
            (offset + (readLine src).2.1 + (consumeSeqLine (readLine src).2.2).1) with
          | error e' =>
            rw [hs] at hm
            simp only [Except.mapError, Except.map, Except.error.injEq] at hm ⊢
            exact hm
          | ok g' =>
            rw [hs] at hm
            simp [Except.mapError, Except.map] at hm
        | ok g =>
          have hle := indexLoop_rest_le _ _ _ _ _ _ hi
          rw [hi] at hm
          cases hs : specLoop (consumeSeqLine (readLine src).2.2).1
            (consumeSeqLine (readLine src).2.2).2.1
            ((consumeSeqLine (readLine src).2.2).2.2.length + 1)
            (consumeSeqLine (readLine src).2.2).2.2 (consumeSeqLine (readLine src).2.2).2.1
            (offset + (readLine src).2.1 + (consumeSeqLine (readLine src).2.2).1) with
          | error e' =>
            rw [hs] at hm
            simp [Except.mapError, Except.map] at hm
          | ok g' =>
            rw [hs] at hm
            simp only [Except.mapError, Except.map, Except.ok.injEq] at hm
            subst hm
            simp only [Except.mapError]
            congr 4
            omega

theorem specAll_model : ∀ (fuel : Nat) (src : Bytes) (offset : Nat),
    (specAll fuel src offset).mapError IdxErr.toErr = indexAll fuel src offset := by
  intro fuel
  induction fuel with
  | zero => intro src offset; rfl
  | succ fuel ih =>
    intro src offset
    have hr := specRecord_model src offset
    unfold specAll indexAll
    rw [← hr]
    cases hs : specRecord src offset with
    | error e => rfl
    | ok o =>
      cases o with
      | none => rfl
      | some t =>
        obtain ⟨rec, rest, off'⟩ := t
        simp only [Except.mapError]
        rw [← ih]
        cases specAll fuel rest off' <;> rfl

/-- **B.** with whole-buffer windows the call-by-call transcription is the model of `Model.lean`,
for every byte string -/
theorem indexFileSched_nil (f : Bytes) :
    (indexFileSched f []).mapError IdxErr.toErr = indexFile f := by
  rw [indexFileSched_spec f [] (Or.inl rfl)]
  exact specAll_model _ _ _

end Noodles.Fasta
