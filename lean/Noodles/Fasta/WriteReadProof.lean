import Noodles.Fasta.Model
import Noodles.Fasta.Spec
import Noodles.Fasta.Proof
/-! Helper lemmas for the write → read theorems of `Noodles/Props/C11.lean`. -/
namespace Noodles.Fasta

/-! ### FASTA write → read -/

/-- `read_sequence` at `src` yields `bases` and leaves the stream at `rest` -/
def SeqAll (src bases rest : Bytes) : Prop :=
  ∀ fuel, src.length < fuel → ∀ buf, readSequence fuel src buf = (buf ++ bases, rest)

theorem SeqAll_done {s : Bytes} (h : isLastSeqLine s = true) : SeqAll s [] s := by
  intro fuel hf buf
  cases fuel with
  | zero => omega
  | succ n => simp [readSequence, seqFillBuf_done h]

theorem SeqAll_eol {t x bases rest : Bytes} (ht : ∀ b ∈ t, b = CR ∨ b = LF)
    (h : SeqAll x bases rest) : SeqAll (t ++ x) bases rest := by
  intro fuel hf buf
  have hfb : seqFillBuf (t ++ x) = seqFillBuf x := by
    unfold seqFillBuf; rw [skipEol_append_eol t x ht]
  cases fuel with
  | zero => omega
  | succ n =>
    have := h (n + 1) (by simp at hf; omega) buf
    simp only [readSequence, hfb] at this ⊢
    exact this

theorem SeqAll_line {c r bases rest : Bytes} (hne : c ≠ []) (hc : CleanL c) (hr : AtEol r)
    (h : SeqAll r bases rest) : SeqAll (c ++ r) (c ++ bases) rest := by
  intro fuel hf buf
  cases fuel with
  | zero => omega
  | succ n =>
    have hemp : c.isEmpty = false := by cases c <;> simp_all
    simp only [readSequence, seqFillBuf_line hne hc hr, hemp, Bool.false_eq_true, if_false]
    rw [List.drop_left, h n (by simp at hf; have := List.length_pos_iff.mpr hne; omega)]
    simp

theorem writeSeqLines_seqAll {lb : Nat} (hlb : 0 < lb) : ∀ (fuel : Nat) (bases tail : Bytes),
    bases.length < fuel → CleanL bases → isLastSeqLine tail = true →
    SeqAll (writeSeqLines lb fuel bases ++ tail) bases tail := by
  intro fuel
  induction fuel with
  | zero => intro bases tail h; omega
  | succ n ih =>
    intro bases tail hf hc ht
    unfold writeSeqLines
    cases bases with
    | nil => simpa using SeqAll_done ht
    | cons b bs =>
      simp only [List.isEmpty_cons, Bool.false_eq_true, if_false]
      have hd : ((b :: bs).drop lb).length < n := by
        simp only [List.length_drop, List.length_cons] at hf ⊢; omega
      have h1 := ih ((b :: bs).drop lb) tail hd (fun x hx => hc x (List.mem_of_mem_drop hx)) ht
      have h2 : SeqAll ([LF] ++ (writeSeqLines lb n ((b :: bs).drop lb) ++ tail))
          ((b :: bs).drop lb) tail := SeqAll_eol (by simp) h1
      have hne : (b :: bs).take lb ≠ [] := by
        intro h0
        have := congrArg List.length h0
        simp [List.length_take] at this; omega
      have h3 := SeqAll_line hne (fun x hx => hc x (List.mem_of_mem_take hx))
        (Or.inr (Or.inr (Or.inl ⟨_, rfl⟩))) h2
      rw [List.take_append_drop] at h3
      simpa using h3

theorem getLast?_append_ne (a b : Bytes) (h : b ≠ []) : (a ++ b).getLast? = b.getLast? := by
  rw [List.getLast?_append]
  cases hb : b.getLast? with
  | none => simp at hb; exact absurd hb h
  | some x => simp

theorem readLine_line (c rest : Bytes) (hc : LF ∉ c) (hcr : c.getLast? ≠ some CR) :
    readLine (c ++ LF :: rest) = (c, c.length + 1, rest) := by
  simp [readLine, nextLine_of_noLF c rest hc, stripCR_of_last hcr]

theorem findIdx_append_ws (name rest : Bytes) (hn : ∀ b ∈ name, isWs b = false)
    (hr : rest = [] ∨ ∃ b x, rest = b :: x ∧ isWs b = true) :
    (name ++ rest).findIdx isWs = name.length := by
  induction name with
  | nil =>
    rcases hr with rfl | ⟨b, x, rfl, hb⟩
    · rfl
    · simp [List.findIdx_cons, hb]
  | cons b bs ih =>
    have hb := hn b (by simp)
    simp [List.findIdx_cons, hb, ih (fun x hx => hn x (List.mem_cons_of_mem _ hx))]

theorem trimAscii_sp (d : Bytes) : trimAscii (SP :: d) = trimAscii d := by
  simp [trimAscii, List.dropWhile, isWs, SP]

theorem trimAscii_self {d : Bytes} (h1 : ∀ b, d.head? = some b → isWs b = false)
    (h2 : ∀ b, d.getLast? = some b → isWs b = false) : trimAscii d = d := by
  have e1 : d.dropWhile isWs = d := by
    cases d with
    | nil => rfl
    | cons b x => simp [List.dropWhile, h1 b rfl]
  have e2 : d.reverse.dropWhile isWs = d.reverse := by
    cases hr : d.reverse with
    | nil => rfl
    | cons b x =>
      have : d.getLast? = some b := by
        rw [List.getLast?_eq_head?_reverse, hr]; rfl
      simp [List.dropWhile, h2 b this]
  simp [trimAscii, e1, e2]

def descPart (d : Option Bytes) : Bytes := match d with | none => [] | some d => SP :: d

theorem parseDefinition_written {r : FaRec} (hv : ValidFa r) :
    parseDefinition (GT :: r.name ++ descPart r.description) =
      .ok (r.name, (r.description.getD [])) := by
  have hidx : (r.name ++ descPart r.description).findIdx isWs = r.name.length := by
    apply findIdx_append_ws _ _ hv.name_nows
    cases r.description with
    | none => left; rfl
    | some d => right; exact ⟨SP, d, rfl, by simp [isWs, SP]⟩
  have hemp : (List.take r.name.length (r.name ++ descPart r.description)).isEmpty = false := by
    rw [List.take_left]
    cases hn : r.name with
    | nil => exact absurd hn hv.name_ne
    | cons _ _ => rfl
  simp only [parseDefinition, List.cons_append, ne_eq, not_true_eq_false, if_false, hidx, hemp,
    Bool.false_eq_true, List.take_left, List.drop_left]
  cases hd : r.description with
  | none => simp [descPart, trimAscii, hv.name_ne]
  | some d =>
    have := hv.desc_ok d hd
    simp [descPart, trimAscii_sp, trimAscii_self this.2.2.1 this.2.2.2, hv.name_ne]

theorem writeFaRecord_eq (lb : Nat) (r : FaRec) :
    writeFaRecord lb r = (GT :: r.name ++ descPart r.description) ++ LF ::
      writeSeqLines lb (r.sequence.length + 1) r.sequence := by
  unfold writeFaRecord descPart
  cases r.description <;> simp

theorem writtenDef_noLF {r : FaRec} (hv : ValidFa r) :
    LF ∉ (GT :: r.name ++ descPart r.description) := by
    intro h
    simp only [List.cons_append, List.mem_cons, List.mem_append] at h
    rcases h with h | h | h
    · simp [LF, GT] at h
    · have := hv.name_nows _ h; simp [isWs, LF] at this
    · unfold descPart at h
      cases hd : r.description with
      | none => rw [hd] at h; simp at h
      | some d =>
        rw [hd] at h
        simp only [List.mem_cons] at h
        rcases h with h | h
        · simp [LF, SP] at h
        · exact (hv.desc_ok d hd).2.1 h

theorem writtenDef_noCR {r : FaRec} (hv : ValidFa r) :
    (GT :: r.name ++ descPart r.description).getLast? ≠ some CR := by
    intro h
    have hws : ∀ b, (GT :: r.name ++ descPart r.description).getLast? = some b → isWs b = false := by
      intro b hb
      cases hd : r.description with
      | none =>
        rw [hd] at hb
        simp only [descPart, List.append_nil] at hb
        rw [List.getLast?_cons_of_ne_nil hv.name_ne] at hb
        exact hv.name_nows b (List.mem_of_getLast? hb)
      | some d =>
        rw [hd] at hb
        have hdv := hv.desc_ok d hd
        simp only [descPart] at hb
        rw [show GT :: r.name ++ SP :: d = (GT :: r.name ++ [SP]) ++ d by simp,
          getLast?_append_ne _ _ hdv.1] at hb
        exact hdv.2.2.2 b hb
    have := hws CR h
    simp [isWs, CR] at this

theorem readFaRecord_written {lb : Nat} (hlb : 0 < lb) {r : FaRec} (hv : ValidFa r) {rest : Bytes}
    (hrest : isLastSeqLine rest = true) :
    readFaRecord (writeFaRecord lb r ++ rest) = .ok (some (r, rest)) := by
  have hdl := writtenDef_noLF hv
  have hdcr := writtenDef_noCR hv
  rw [writeFaRecord_eq, List.append_assoc]
  simp only [List.cons_append]
  unfold readFaRecord
  have hrl := readLine_line _ (writeSeqLines lb (r.sequence.length + 1) r.sequence ++ rest) hdl hdcr
  simp only [List.cons_append] at hrl
  rw [hrl]
  simp only [Nat.add_eq_zero_iff, Nat.succ_ne_zero, and_false, if_false]
  have hpd := parseDefinition_written hv
  simp only [List.cons_append] at hpd
  rw [hpd]
  simp only []
  rw [writeSeqLines_seqAll hlb _ _ _ (Nat.lt_succ_self _) hv.seq_clean hrest _ (Nat.lt_succ_self _)]
  simp only [List.nil_append]
  congr 3
  cases r with
  | mk n d q =>
    cases d with
    | none => simp
    | some d => simp [(hv.desc_ok d rfl).1]

theorem writeFa_cons (lb : Nat) (r : FaRec) (rs : List FaRec) :
    writeFa lb (r :: rs) = writeFaRecord lb r ++ writeFa lb rs := by
  simp [writeFa]

theorem isLast_writeFa (lb : Nat) (rs : List FaRec) : isLastSeqLine (writeFa lb rs) = true := by
  cases rs with
  | nil => rfl
  | cons r rs => rw [writeFa_cons]; simp [writeFaRecord, isLastSeqLine]

theorem readFaAll_written {lb : Nat} (hlb : 0 < lb) : ∀ (rs : List FaRec), (∀ r ∈ rs, ValidFa r) →
    ∀ fuel, (writeFa lb rs).length < fuel → readFaAll fuel (writeFa lb rs) = .ok rs := by
  intro rs
  induction rs with
  | nil =>
    intro _ fuel hf
    cases fuel with
    | zero => omega
    | succ n => simp [readFaAll, writeFa, readFaRecord, readLine, nextLine]
  | cons r rs ih =>
    intro hv fuel hf
    cases fuel with
    | zero => omega
    | succ n =>
      rw [writeFa_cons] at hf ⊢
      unfold readFaAll
      rw [readFaRecord_written hlb (hv r (by simp)) (isLast_writeFa lb rs)]
      simp only []
      rw [ih (fun x hx => hv x (List.mem_cons_of_mem _ hx)) n ?_]
      have : 0 < (writeFaRecord lb r).length := by simp [writeFaRecord]
      simp at hf; omega

/-! ### FASTQ write → read -/

theorem takeWhile_stop (p : UInt8 → Bool) (name : Bytes) (d : UInt8) (x : Bytes)
    (hn : ∀ b ∈ name, p b = true) (hd : p d = false) : (name ++ d :: x).takeWhile p = name := by
  induction name with
  | nil => simp [List.takeWhile, hd]
  | cons b bs ih =>
    simp [List.takeWhile, hn b (by simp), ih (fun y hy => hn y (List.mem_cons_of_mem _ hy))]

def fqDescPart (sep : UInt8) (d : Bytes) : Bytes := if d.isEmpty then [] else sep :: d

theorem fqReadDefBody_written {sep : UInt8} (hsep : sep = SP ∨ sep = TAB) {r : FqRec} (hv : ValidFq r)
    (x : Bytes) :
    fqReadDefBody (r.name ++ fqDescPart sep r.description ++ LF :: x) =
      (r.name, r.description, (r.name ++ fqDescPart sep r.description).length + 1, x) := by
  have hp : ∀ b ∈ r.name, (!(b == SP || b == TAB || b == LF)) = true := by
    intro b hb
    obtain ⟨h1, h2, h3⟩ := hv.name_ok b hb
    simp [h1, h2, h3]
  unfold fqReadDefBody fqDescPart
  cases hd : r.description with
  | nil =>
    have htw : (r.name ++ LF :: x).takeWhile (fun b => !(b == SP || b == TAB || b == LF)) = r.name :=
      takeWhile_stop _ _ _ _ hp (by simp)
    simp only [List.isEmpty_nil, if_true, List.append_nil]
    rw [htw]
    simp only [List.drop_left, if_true]
    rw [stripCR_of_last (hv.name_cr hd)]
  | cons d0 ds =>
    have hsd : (!(sep == SP || sep == TAB || sep == LF)) = false := by
      rcases hsep with rfl | rfl <;> simp
    have htw : (r.name ++ sep :: ((d0 :: ds) ++ LF :: x)).takeWhile
        (fun b => !(b == SP || b == TAB || b == LF)) = r.name := takeWhile_stop _ _ _ _ hp hsd
    have hne : sep ≠ LF := by rcases hsep with rfl | rfl <;> simp [SP, TAB, LF]
    simp only [List.isEmpty_cons, Bool.false_eq_true, if_false]
    rw [show r.name ++ sep :: d0 :: ds ++ LF :: x = r.name ++ sep :: ((d0 :: ds) ++ LF :: x) by simp]
    rw [htw]
    simp only [List.drop_left, if_neg hne]
    have hdo := hv.desc_ok
    rw [hd] at hdo
    rw [readLine_line _ _ hdo.1 hdo.2]
    simp
    omega

theorem writeFqRecord_eq (sep : UInt8) (r : FqRec) :
    writeFqRecord sep r = AT :: (r.name ++ fqDescPart sep r.description ++ LF ::
      (r.sequence ++ LF :: PLUS :: LF :: (r.quality ++ [LF]))) := by
  unfold writeFqRecord fqDescPart
  split <;> simp

theorem fqReadRecord_written {sep : UInt8} (hsep : sep = SP ∨ sep = TAB) {r : FqRec} (hv : ValidFq r)
    (rest : Bytes) :
    ∃ n, fqReadRecord (writeFqRecord sep r ++ rest) = .ok (some (r, n, rest)) := by
  rw [writeFqRecord_eq]
  simp only [List.cons_append, List.append_assoc]
  unfold fqReadRecord
  simp only [ne_eq, not_true_eq_false, if_false]
  have h1 := fqReadDefBody_written hsep hv
    (r.sequence ++ LF :: PLUS :: LF :: (r.quality ++ LF :: rest))
  simp only [List.append_assoc] at h1
  simp only [List.cons_append, List.nil_append]
  rw [h1]
  simp only []
  rw [readLine_line _ _ hv.seq_ok.1 hv.seq_ok.2]
  simp only [ne_eq, not_true_eq_false, if_false]
  have hnl : nextLine (LF :: (r.quality ++ LF :: rest)) = ([LF], r.quality ++ LF :: rest) := by
    simp [nextLine]
  rw [hnl]
  simp only []
  rw [readLine_line _ _ hv.qual_ok.1 hv.qual_ok.2]
  exact ⟨_, rfl⟩

theorem writeFq_cons (sep : UInt8) (r : FqRec) (rs : List FqRec) :
    writeFq sep (r :: rs) = writeFqRecord sep r ++ writeFq sep rs := by
  simp [writeFq]

theorem readFqAll_written {sep : UInt8} (hsep : sep = SP ∨ sep = TAB) : ∀ (rs : List FqRec),
    (∀ r ∈ rs, ValidFq r) →
    ∀ fuel, (writeFq sep rs).length < fuel → readFqAll fuel (writeFq sep rs) = .ok rs := by
  intro rs
  induction rs with
  | nil =>
    intro _ fuel hf
    cases fuel with
    | zero => omega
    | succ n => simp [readFqAll, writeFq, fqReadRecord]
  | cons r rs ih =>
    intro hv fuel hf
    cases fuel with
    | zero => omega
    | succ n =>
      rw [writeFq_cons] at hf ⊢
      unfold readFqAll
      obtain ⟨k, hk⟩ := fqReadRecord_written hsep (hv r (by simp)) (writeFq sep rs)
      rw [hk]
      simp only []
      rw [ih (fun x hx => hv x (List.mem_cons_of_mem _ hx)) n ?_]
      have : 0 < (writeFqRecord sep r).length := by simp [writeFqRecord]
      simp at hf; omega

/-! ### the indexer accepts what the writer wrote -/

theorem consumeSeqLine_written {c x : Bytes} (hne : c ≠ []) (hc : CleanL c) :
    consumeSeqLine (c ++ LF :: x) = (c.length + 1, c.length, x) := by
  have hl : isLastSeqLine (c ++ LF :: x) = false := by
    cases c with
    | nil => exact absurd rfl hne
    | cons b bs =>
      have := (hc b (by simp)).2.2
      simp [isLastSeqLine, this]
  have hno : LF ∉ c := fun h => (hc LF h).2.1 rfl
  rw [consumeSeqLine_line hl, nextLine_of_noLF c x hno]
  simp [lineBases, stripEol, stripLF_concat, stripCR_clean hc]

theorem isLast_writeSeqLines_ne {lb n : Nat} {bases tail : Bytes} (hn : bases.length < n)
    (hlb : 0 < lb) (hne : bases ≠ []) (hc : CleanL bases) :
    isLastSeqLine (writeSeqLines lb n bases ++ tail) = false := by
  cases n with
  | zero => omega
  | succ k =>
    cases bases with
    | nil => exact absurd rfl hne
    | cons b bs =>
      have := (hc b (by simp)).2.2
      cases lb with
      | zero => omega
      | succ m => simp [writeSeqLines, isLastSeqLine, this]

theorem indexLoop_written {lb : Nat} (hlb : 0 < lb) : ∀ (n : Nat) (bases tail : Bytes) (bc fuel : Nat),
    bases.length < n → bases.length < fuel → CleanL bases → isLastSeqLine tail = true →
    indexLoop (lb + 1) lb fuel (writeSeqLines lb n bases ++ tail) bc = .ok (bc + bases.length, tail) := by
  intro n
  induction n with
  | zero => intro bases tail bc fuel h; omega
  | succ k ih =>
    intro bases tail bc fuel hn hf hc ht
    cases fuel with
    | zero => omega
    | succ m =>
      by_cases hb : bases = []
      · subst hb
        simp only [writeSeqLines, List.isEmpty_nil, if_true, List.nil_append, indexLoop,
          consumeSeqLine_isLast ht, ht]
        simp
      · have hemp : bases.isEmpty = false := by cases bases <;> simp_all
        have hpos : 0 < bases.length := List.length_pos_iff.mpr hb
        simp only [writeSeqLines, hemp, Bool.false_eq_true, if_false]
        have hne : bases.take lb ≠ [] := by
          intro h0
          have := congrArg List.length h0
          simp only [List.length_take, List.length_nil] at this; omega
        have hct : CleanL (bases.take lb) := fun x hx => hc x (List.mem_of_mem_take hx)
        rw [List.append_assoc]
        simp only [List.cons_append]
        unfold indexLoop
        rw [consumeSeqLine_written hne hct]
        simp only []
        by_cases hlong : lb < bases.length
        · -- a full line, more to come
          have hdne : bases.drop lb ≠ [] := by
            intro h0
            have := congrArg List.length h0
            simp only [List.length_drop, List.length_nil] at this; omega
          have hdl : (bases.drop lb).length < k := by
            simp only [List.length_drop]; omega
          have hnl := isLast_writeSeqLines_ne (tail := tail) hdl hlb hdne
            (fun x hx => hc x (List.mem_of_mem_drop hx))
          have htl : (bases.take lb).length = lb := by
            rw [List.length_take]; omega
          rw [if_neg (by simp [hnl]), htl]
          simp only [ne_eq, not_true_eq_false, if_false]
          rw [ih _ tail _ m hdl (by simp only [List.length_drop]; omega)
            (fun x hx => hc x (List.mem_of_mem_drop hx)) ht]
          simp only [List.length_drop]
          congr 2
          omega
        · -- the last line
          have hd : bases.drop lb = [] := List.drop_eq_nil_of_le (by omega)
          have htk : bases.take lb = bases := List.take_of_length_le (by omega)
          rw [hd, htk]
          have : writeSeqLines lb k [] = [] := by cases k <;> simp [writeSeqLines]
          rw [this, List.nil_append, if_pos ⟨ht, by omega, by omega⟩]

theorem writeSeqLines_length_ge {lb : Nat} (hlb : 0 < lb) : ∀ (n : Nat) (bases : Bytes),
    bases.length < n → bases.length ≤ (writeSeqLines lb n bases).length := by
  intro n
  induction n with
  | zero => intro bases h; omega
  | succ k ih =>
    intro bases hn
    by_cases hb : bases = []
    · subst hb; simp
    · have hemp : bases.isEmpty = false := by cases bases <;> simp_all
      have hpos : 0 < bases.length := List.length_pos_iff.mpr hb
      simp only [writeSeqLines, hemp, Bool.false_eq_true, if_false, List.length_append,
        List.length_cons, List.length_take]
      have := ih (bases.drop lb) (by simp only [List.length_drop]; omega)
      simp only [List.length_drop] at this
      omega

theorem indexBody_written {lb : Nat} (hlb : 0 < lb) {seq tail : Bytes} (hne : seq ≠ [])
    (hc : CleanL seq) (ht : isLastSeqLine tail = true) :
    indexBody (writeSeqLines lb (seq.length + 1) seq ++ tail) =
      .ok (min lb seq.length + 1, min lb seq.length, seq.length, tail) := by
  have hemp : seq.isEmpty = false := by cases seq <;> simp_all
  have hpos : 0 < seq.length := List.length_pos_iff.mpr hne
  have hne' : seq.take lb ≠ [] := by
    intro h0
    have := congrArg List.length h0
    simp only [List.length_take, List.length_nil] at this; omega
  have hct : CleanL (seq.take lb) := fun x hx => hc x (List.mem_of_mem_take hx)
  simp only [writeSeqLines, hemp, Bool.false_eq_true, if_false]
  rw [List.append_assoc]
  simp only [List.cons_append]
  unfold indexBody
  rw [consumeSeqLine_written hne' hct]
  simp only [List.length_take]
  rw [if_neg (by omega)]
  by_cases hlong : lb < seq.length
  · have hmin : min lb seq.length = lb := Nat.min_eq_left (by omega)
    have hdl : (seq.drop lb).length < seq.length := by simp only [List.length_drop]; omega
    have hge := writeSeqLines_length_ge hlb _ _ hdl
    rw [hmin, indexLoop_written hlb _ _ tail _ _ hdl
      (by simp only [List.length_append]; omega)
      (fun x hx => hc x (List.mem_of_mem_drop hx)) ht]
    simp only [List.length_drop]
    congr 4
    omega
  · have hmin : min lb seq.length = seq.length := Nat.min_eq_right (by omega)
    have hd : seq.drop lb = [] := List.drop_eq_nil_of_le (by omega)
    have hw : writeSeqLines lb seq.length [] = [] := by
      cases seq.length <;> simp [writeSeqLines]
    rw [hmin, hd, hw, List.nil_append]
    simp [indexLoop, consumeSeqLine_isLast ht, ht]

/-- every record has at least one base (the indexer reports `EmptySequence` otherwise) -/
def NonEmptySeqs (rs : List FaRec) : Prop := ∀ r ∈ rs, r.sequence ≠ []

theorem indexRecord_written {lb : Nat} (hlb : 0 < lb) {r : FaRec} (hv : ValidFa r)
    (hne : r.sequence ≠ []) {rest : Bytes} (hrest : isLastSeqLine rest = true) (off : Nat) :
    ∃ rec off', indexRecord (writeFaRecord lb r ++ rest) off = .ok (some (rec, rest, off')) := by
  have hdl := writtenDef_noLF hv
  have hdcr := writtenDef_noCR hv
  rw [writeFaRecord_eq, List.append_assoc]
  simp only [List.cons_append]
  unfold indexRecord
  have hrl := readLine_line _ (writeSeqLines lb (r.sequence.length + 1) r.sequence ++ rest) hdl hdcr
  simp only [List.cons_append] at hrl
  rw [hrl]
  simp only [Nat.add_eq_zero_iff, Nat.succ_ne_zero, and_false, if_false]
  have hpd := parseDefinition_written hv
  simp only [List.cons_append] at hpd
  rw [hpd]
  simp only []
  rw [indexBody_written hlb hne hv.seq_clean hrest]
  exact ⟨_, _, rfl⟩

theorem indexAll_written {lb : Nat} (hlb : 0 < lb) : ∀ (rs : List FaRec), (∀ r ∈ rs, ValidFa r) →
    NonEmptySeqs rs → ∀ fuel off, (writeFa lb rs).length < fuel →
    ∃ ix, indexAll fuel (writeFa lb rs) off = .ok ix := by
  intro rs
  induction rs with
  | nil =>
    intro _ _ fuel off hf
    cases fuel with
    | zero => omega
    | succ n => exact ⟨[], by simp [indexAll, writeFa, indexRecord, readLine, nextLine]⟩
  | cons r rs ih =>
    intro hv hne fuel off hf
    cases fuel with
    | zero => omega
    | succ n =>
      rw [writeFa_cons] at hf ⊢
      obtain ⟨rec, off', hir⟩ := indexRecord_written hlb (hv r (by simp)) (hne r (by simp))
        (isLast_writeFa lb rs) off
      have hlen : 0 < (writeFaRecord lb r).length := by simp [writeFaRecord]
      obtain ⟨ix, hix⟩ := ih (fun x hx => hv x (List.mem_cons_of_mem _ hx))
        (fun x hx => hne x (List.mem_cons_of_mem _ hx)) n off'
        (by simp only [List.length_append] at hf; omega)
      exact ⟨rec :: ix, by unfold indexAll; rw [hir]; simp only []; rw [hix]⟩

end Noodles.Fasta
