/-!
# FASTA / FASTQ indexing, random access and record I/O (model for C11)

Transcribed from

* noodles-fasta `io/indexer.rs` (`Indexer::index_record`, `read_definition`, `consume_sequence_line`,
  `is_last_sequence_line`), `io/reader.rs` (`read_line`, `Reader::query`),
  `io/reader/definition.rs` (`parse_definition`), `io/reader/sequence.rs` (`consume_empty_lines`,
  `Reader::fill_buf`, `read_sequence`, `read_sequence_limit`), `io/reader/records.rs`,
  `fai/record.rs` (`Record::query`), `fai/index.rs` (`Index::query`),
  `io/writer/record.rs` (+ `record/definition.rs`, `record/sequence.rs`);
* noodles-fastq `io/reader/record.rs`, `io/reader/record/definition.rs`, `io/writer/record.rs`,
  `io/indexer.rs`.

The underlying `BufRead` is a whole buffer (`&[u8]` / `Cursor`): `fill_buf` returns everything that
remains. Independence of the refill schedule is C12's subject, not modelled here.

`fai::Record::query` is modelled AFTER the `fix:` commit for finding F8: an explicit start position
beyond the sequence length is `InvalidInput`. The unfixed arithmetic (`recQueryUnchecked`) is kept
for the negation witness in `Props/C11.lean`.

Loops that are not structurally recursive take a fuel argument; the top-level functions pass
`length + 1`, which is never exhausted (every iteration consumes at least one byte).
-/
namespace Noodles.Fasta

abbrev Bytes := List UInt8

def LF : UInt8 := 10
def CR : UInt8 := 13
def GT : UInt8 := 62    -- '>'
def SP : UInt8 := 32
def TAB : UInt8 := 9
def AT : UInt8 := 64    -- '@'
def PLUS : UInt8 := 43  -- '+'

/-- `io::ErrorKind` classes that these code paths can produce (`fuel` is unreachable). -/
inductive Err | invalidData | invalidInput | eof | fuel
  deriving Repr, DecidableEq

deriving instance DecidableEq for Except

/-- `u8::is_ascii_whitespace`: SP, TAB, LF, FF, CR -/
def isWs (b : UInt8) : Bool := b == 32 || b == 9 || b == 10 || b == 12 || b == 13

/-! ## lines -/

/-- `BufRead::read_until(b'\n')` / `memchr(b'\n')`: the line through its LF (if any), and the rest -/
def nextLine : Bytes → Bytes × Bytes
  | [] => ([], [])
  | b :: bs => if b = LF then ([b], bs) else (b :: (nextLine bs).1, (nextLine bs).2)

/-- drop one trailing CR -/
def stripCR (l : Bytes) : Bytes := if l.getLast? = some CR then l.dropLast else l

/-- drop one trailing LF -/
def stripLF (l : Bytes) : Bytes := if l.getLast? = some LF then l.dropLast else l

/-- `reader::read_line` (fasta and fastq): pops LF, and CR only if LF was popped.
Returns (buf, bytes read, rest). -/
def readLine (src : Bytes) : Bytes × Nat × Bytes :=
  let l := (nextLine src).1
  (if l.getLast? = some LF then stripCR l.dropLast else l, l.length, (nextLine src).2)

/-! ## FASTA definition lines -/

/-- `<[u8]>::trim_ascii` -/
def trimAscii (s : Bytes) : Bytes :=
  ((s.dropWhile isWs).reverse.dropWhile isWs).reverse

/-- `parse_definition`: `>name[ws description]` → (name, trimmed description) -/
def parseDefinition (buf : Bytes) : Except Err (Bytes × Bytes) :=
  match buf with
  | [] => .error .invalidData                        -- "empty input"
  | b :: src =>
    if b ≠ GT then .error .invalidData               -- "invalid prefix"
    else
      let i := src.findIdx isWs                      -- position(is_ascii_whitespace) or len
      let name := src.take i
      if name.isEmpty then .error .invalidData       -- "missing name"
      else .ok (name, trimAscii (src.drop i))

/-! ## the indexer -/

structure FaiRec where
  name : Bytes
  length : Nat
  position : Nat
  lineBases : Nat
  lineWidth : Nat
  deriving Repr, DecidableEq

/-- `count_bases`: the chunk without a trailing CR -/
def countBases (chunk : Bytes) : Nat := (stripCR chunk).length

/-- `consume_sequence_line` on a whole buffer: (bytes read, bases, rest). Nothing is consumed at
EOF or at a `>`. -/
def consumeSeqLine (src : Bytes) : Nat × Nat × Bytes :=
  match src with
  | [] => (0, 0, src)
  | b :: _ =>
    if b = GT then (0, 0, src)
    else
      let l := (nextLine src).1
      (l.length, countBases (stripLF l), (nextLine src).2)

/-- `is_last_sequence_line` -/
def isLastSeqLine (src : Bytes) : Bool :=
  match src with
  | [] => true
  | b :: _ => b == GT

/-- the `loop` of `index_record`; `W`,`B` are the first line's width and bases. Returns
(base count, rest). `InvalidLineBases` / `InvalidLineWidth` become `InvalidInput` through
`From<IndexError> for io::Error`. -/
def indexLoop (W B : Nat) : Nat → Bytes → Nat → Except Err (Nat × Bytes)
  | 0, _, _ => .error .fuel
  | fuel + 1, src, baseCount =>
    let w := (consumeSeqLine src).1
    let b := (consumeSeqLine src).2.1
    let rest := (consumeSeqLine src).2.2
    if isLastSeqLine rest = true ∧ w ≤ W ∧ b ≤ B then .ok (baseCount + b, rest)
    else if b ≠ B then .error .invalidInput
    else if w ≠ W then .error .invalidInput
    else indexLoop W B fuel rest (baseCount + b)

/-- the sequence part of `index_record` at the first sequence line `r`: the first line fixes
width `W` and bases `B` (`EmptySequence` when `B = 0`), then the loop.
Returns (W, B, base count, rest). -/
def indexBody (r : Bytes) : Except Err (Nat × Nat × Nat × Bytes) :=
  let W := (consumeSeqLine r).1
  let B := (consumeSeqLine r).2.1
  let r1 := (consumeSeqLine r).2.2
  if B = 0 then .error .invalidInput                 -- EmptySequence
  else match indexLoop W B (r1.length + 1) r1 B with
    | .error e => .error e
    | .ok res => .ok (W, B, res.1, res.2)

/-- `Indexer::index_record` at stream `src`, running offset `offset`:
`none` at EOF, else the record, the rest of the stream and the new offset (the code adds up the
widths of the lines it consumed). The `NonZero` conversions cannot fail: `0 < B ≤ W`. -/
def indexRecord (src : Bytes) (offset : Nat) : Except Err (Option (FaiRec × Bytes × Nat)) :=
  let buf := (readLine src).1
  let n := (readLine src).2.1
  let r := (readLine src).2.2
  if n = 0 then .ok none
  else match parseDefinition buf with
    | .error e => .error e
    | .ok nd =>
      match indexBody r with
      | .error e => .error e
      | .ok g =>
        .ok (some (⟨nd.1, g.2.2.1, offset + n, g.2.1, g.1⟩, g.2.2.2,
          offset + n + (r.length - g.2.2.2.length)))

/-- `while let Some(record) = indexer.index_record()?` (`fasta::fs::index`) -/
def indexAll : Nat → Bytes → Nat → Except Err (List FaiRec)
  | 0, _, _ => .error .fuel
  | fuel + 1, src, offset =>
    match indexRecord src offset with
    | .error e => .error e
    | .ok none => .ok []
    | .ok (some (rec, rest, offset')) =>
      match indexAll fuel rest offset' with
      | .error e => .error e
      | .ok recs => .ok (rec :: recs)

def indexFile (f : Bytes) : Except Err (List FaiRec) := indexAll (f.length + 1) f 0

/-! ## random access -/

/-- `position + start / line_base_count * line_width + start % line_base_count` (0-based start) -/
def faiPos (r : FaiRec) (start0 : Nat) : Nat :=
  r.position + start0 / r.lineBases * r.lineWidth + start0 % r.lineBases

/-- `fai::Record::query` as in the unfixed code: no bound on the start (finding F8) -/
def recQueryUnchecked (r : FaiRec) (start : Option Nat) : Except Err Nat :=
  .ok (faiPos r ((start.getD 1) - 1))

/-- `fai::Record::query` (fixed): an explicit 1-based start must lie inside the sequence -/
def recQuery (r : FaiRec) (start : Option Nat) : Except Err Nat :=
  match start with
  | none => .ok (faiPos r 0)
  | some p => if r.length ≤ p - 1 then .error .invalidInput else .ok (faiPos r (p - 1))

/-- `consume_empty_lines`: every leading CR / LF is consumed -/
def skipEol (src : Bytes) : Bytes := src.dropWhile fun b => b == CR || b == LF

/-- `sequence::Reader::fill_buf`: (returned slice, inner stream after `consume_empty_lines`).
The slice is empty at EOF or at a `>`; otherwise the line up to LF without a trailing CR. -/
def seqFillBuf (src : Bytes) : Bytes × Bytes :=
  let s := skipEol src
  match s with
  | [] => ([], s)
  | b :: _ =>
    if b = GT then ([], s)
    else (stripCR (s.takeWhile (· != LF)), s)

/-- `read_sequence_limit`: (bases, rest of the inner stream) -/
def readSeqLimit : Nat → Bytes → Nat → Bytes → Bytes × Bytes
  | 0, src, _, buf => (buf, src)
  | fuel + 1, src, maxBases, buf =>
    if buf.length < maxBases then
      let line := (seqFillBuf src).1
      let s := (seqFillBuf src).2
      if line.isEmpty then (buf, s)
      else
        let i := min (maxBases - buf.length) line.length
        readSeqLimit fuel (s.drop i) maxBases (buf ++ line.take i)
    else (buf, src)

/-- `usize::MAX` on the 64-bit targets the harness runs on -/
def usizeMax : Nat := 2 ^ 64 - 1

/-- the seek + `read_sequence_limit` half of `Reader::query`, for the record found in the index;
`start`, `end_` are the optional 1-based bounds of the region's interval (`start ≤ end_`) -/
def queryRec (f : Bytes) (r : FaiRec) (start end_ : Option Nat) : Except Err Bytes :=
  match recQuery r start with
  | .error e => .error e
  | .ok pos =>
    let src := f.drop pos                                 -- Cursor::seek(SeekFrom::Start(pos))
    let len := end_.getD usizeMax - start.getD 1 + 1
    .ok (readSeqLimit (src.length + 1) src len []).1

/-- same with the unfixed `Record::query` -/
def queryRecUnchecked (f : Bytes) (r : FaiRec) (start end_ : Option Nat) : Except Err Bytes :=
  match recQueryUnchecked r start with
  | .error e => .error e
  | .ok pos =>
    let src := f.drop pos
    let len := end_.getD usizeMax - start.getD 1 + 1
    .ok (readSeqLimit (src.length + 1) src len []).1

/-- `Reader::query` / `IndexedReader::query`: `fai::Index::query` takes the first record with the
region's name (`InvalidInput` when there is none) -/
def readerQuery (f : Bytes) (ix : List FaiRec) (name : Bytes) (start end_ : Option Nat) :
    Except Err Bytes :=
  match ix.find? (fun r => r.name == name) with
  | none => .error .invalidInput
  | some r => queryRec f r start end_

/-! ## FASTA records: writer and sequential reader -/

structure FaRec where
  name : Bytes
  description : Option Bytes
  sequence : Bytes
  deriving Repr, DecidableEq

/-- `write_sequence`: `chunks(line_base_count)`, each followed by LF -/
def writeSeqLines (lb : Nat) : Nat → Bytes → Bytes
  | 0, _ => []
  | fuel + 1, bases =>
    if bases.isEmpty then []
    else bases.take lb ++ LF :: writeSeqLines lb fuel (bases.drop lb)

/-- `write_record` with `line_base_count = lb` (`NonZero`, so `lb ≥ 1`) -/
def writeFaRecord (lb : Nat) (r : FaRec) : Bytes :=
  GT :: r.name ++ (match r.description with | none => [] | some d => SP :: d) ++ LF ::
    writeSeqLines lb (r.sequence.length + 1) r.sequence

def writeFa (lb : Nat) (rs : List FaRec) : Bytes := (rs.map (writeFaRecord lb)).flatten

/-- `read_sequence` = `read_to_end` over the sequence reader (each `read` taking the whole slice
`fill_buf` returned): (bases, rest) -/
def readSequence : Nat → Bytes → Bytes → Bytes × Bytes
  | 0, src, buf => (buf, src)
  | fuel + 1, src, buf =>
    let line := (seqFillBuf src).1
    let s := (seqFillBuf src).2
    if line.isEmpty then (buf, s)
    else readSequence fuel (s.drop line.length) (buf ++ line)

/-- `Records::next`: `read_definition` then `read_sequence` -/
def readFaRecord (src : Bytes) : Except Err (Option (FaRec × Bytes)) :=
  let buf := (readLine src).1
  let n := (readLine src).2.1
  let r := (readLine src).2.2
  if n = 0 then .ok none
  else match parseDefinition buf with
    | .error e => .error e
    | .ok (name, desc) =>
      let sr := readSequence (r.length + 1) r []
      .ok (some (⟨name, if desc.isEmpty then none else some desc, sr.1⟩, sr.2))

def readFaAll : Nat → Bytes → Except Err (List FaRec)
  | 0, _ => .error .fuel
  | fuel + 1, src =>
    match readFaRecord src with
    | .error e => .error e
    | .ok none => .ok []
    | .ok (some (r, rest)) =>
      match readFaAll fuel rest with
      | .error e => .error e
      | .ok rs => .ok (r :: rs)

def readFa (f : Bytes) : Except Err (List FaRec) := readFaAll (f.length + 1) f

/-! ## FASTQ records: writer, reader, indexer -/

structure FqRec where
  name : Bytes
  description : Bytes
  sequence : Bytes
  quality : Bytes
  deriving Repr, DecidableEq

/-- fastq `write_record` with definition separator `sep` -/
def writeFqRecord (sep : UInt8) (r : FqRec) : Bytes :=
  AT :: r.name ++ (if r.description.isEmpty then [] else sep :: r.description) ++ LF ::
    r.sequence ++ LF :: PLUS :: LF :: r.quality ++ [LF]

def writeFq (sep : UInt8) (rs : List FqRec) : Bytes := (rs.map (writeFqRecord sep)).flatten

/-- fastq `read_definition` after the `@`: the name ends at the first SP / TAB / LF
(`memchr3`); at LF a trailing CR is dropped and there is no description; otherwise the
description is `read_line`. Returns (name, description, bytes read, rest). -/
def fqReadDefBody (src : Bytes) : Bytes × Bytes × Nat × Bytes :=
  let pre := src.takeWhile fun b => !(b == SP || b == TAB || b == LF)
  match src.drop pre.length with
  | [] => (pre, [], pre.length, [])                              -- no needle: name is everything
  | d :: rest =>
    if d = LF then (stripCR pre, [], pre.length + 1, rest)
    else
      let (desc, n, rest') := readLine rest
      (pre, desc, pre.length + 1 + n, rest')

/-- `read_record`: `none` at EOF; (record, bytes read, rest) -/
def fqReadRecord (src : Bytes) : Except Err (Option (FqRec × Nat × Bytes)) :=
  match src with
  | [] => .ok none                                               -- read_u8: UnexpectedEof → Ok(0)
  | p :: r0 =>
    if p ≠ AT then .error .invalidData                           -- "invalid name prefix"
    else
      let (name, desc, n0, r1) := fqReadDefBody r0
      let (seq, n1, r2) := readLine r1
      match r2 with
      | [] => .error .eof                                        -- consume_plus_line: read_u8
      | q :: r3 =>
        if q ≠ PLUS then .error .invalidData                     -- "invalid description prefix"
        else
          let n2 := (nextLine r3).1.length + 1                   -- consume_line
          let (qual, n3, r5) := readLine (nextLine r3).2
          .ok (some (⟨name, desc, seq, qual⟩, 1 + n0 + n1 + n2 + n3, r5))

def readFqAll : Nat → Bytes → Except Err (List FqRec)
  | 0, _ => .error .fuel
  | fuel + 1, src =>
    match fqReadRecord src with
    | .error e => .error e
    | .ok none => .ok []
    | .ok (some (r, _, rest)) =>
      match readFqAll fuel rest with
      | .error e => .error e
      | .ok rs => .ok (r :: rs)

def readFq (f : Bytes) : Except Err (List FqRec) := readFqAll (f.length + 1) f

structure FqFaiRec where
  name : Bytes
  length : Nat
  sequenceOffset : Nat
  lineBases : Nat
  lineWidth : Nat
  qualityOffset : Nat
  deriving Repr, DecidableEq

/-- `len_with_right_trim` -/
def lenRightTrim (l : Bytes) : Nat := (l.reverse.dropWhile isWs).length

/-- fastq `Indexer::index_record` (the name's UTF-8 check is not modelled; the plus line is not
checked by the indexer) -/
def fqIndexRecord (src : Bytes) (offset : Nat) : Except Err (Option (FqFaiRec × Bytes × Nat)) :=
  match src with
  | [] => .ok none
  | p :: r0 =>
    if p ≠ AT then .error .invalidData
    else
      let (name, _, n0, r1) := fqReadDefBody r0
      let seqOff := offset + 1 + n0
      let l1 := (nextLine r1).1
      let r2 := (nextLine r1).2
      let l2 := (nextLine r2).1
      let r3 := (nextLine r2).2
      let qualOff := seqOff + l1.length + l2.length
      let l3 := (nextLine r3).1
      .ok (some (⟨name, lenRightTrim l1, seqOff, lenRightTrim l1, l1.length, qualOff⟩,
        (nextLine r3).2, qualOff + l3.length))

def fqIndexAll : Nat → Bytes → Nat → Except Err (List FqFaiRec)
  | 0, _, _ => .error .fuel
  | fuel + 1, src, offset =>
    match fqIndexRecord src offset with
    | .error e => .error e
    | .ok none => .ok []
    | .ok (some (rec, rest, offset')) =>
      match fqIndexAll fuel rest offset' with
      | .error e => .error e
      | .ok recs => .ok (rec :: recs)

def fqIndexFile (f : Bytes) : Except Err (List FqFaiRec) := fqIndexAll (f.length + 1) f 0

end Noodles.Fasta
