import Noodles.Fasta.IndexerSched
import Noodles.Fasta.Spec
import Noodles.Fasta.Proof
/-! Helper lemmas for `Noodles/Props/C11Indexer.lean`, part 1: the window loops (`fill_buf` retry,
`read_until`, `read_line`, `consume_sequence_line`, `is_last_sequence_line`) under an arbitrary
schedule equal their whole-buffer counterparts of `Model.lean`. -/
namespace Noodles.Fasta

/-- the alphabet hypothesis for the indexer, on the raw lines of the file: a line that is not a
definition line has no CR and no `>` among its bases (`stripEol` takes off LF, CR LF, or a lone CR
before the end of the file) -/
def LinesClean (f : Bytes) : Prop := ∀ l ∈ splitLines f, isDef l = false → Clean (stripEol l)

theorem fillR_nil (r : Bytes) : fillR r [] = (r, []) := rfl

/-- the window is a non-empty prefix of what remains (empty only at the end of the stream) -/
theorem fillR_spec (r : Bytes) (sc : List Step) : ∃ j, 1 ≤ j ∧ (fillR r sc).1 = r.take j := by
  induction sc with
  | nil => exact ⟨r.length + 1, by omega, (List.take_of_length_le (l := r) (Nat.le_succ _)).symm⟩
  | cons s t ih =>
    cases s with
    | win k => exact ⟨k + 1, by omega, rfl⟩
    | intr => simpa [fillR] using ih

/-! ### window facts -/

theorem nextLine_take_mem : ∀ (r : Bytes) (j : Nat), LF ∈ r.take j →
    (nextLine (r.take j)).1 = (nextLine r).1 := by
  intro r
  induction r with
  | nil => intro j h; simp at h
  | cons b bs ih =>
    intro j h
    cases j with
    | zero => simp at h
    | succ j =>
      rw [List.take_succ_cons] at h ⊢
      by_cases hb : b = LF
      · simp [nextLine, hb]
      · have h' : LF ∈ bs.take j := by
          rcases List.mem_cons.mp h with h1 | h1
          · exact absurd h1.symm hb
          · exact h1
        simp [nextLine, hb, ih j h']

theorem nextLine_take_notMem : ∀ (r : Bytes) (j : Nat), LF ∉ r.take j →
    (nextLine r).1 = r.take j ++ (nextLine (r.drop j)).1 ∧
      (nextLine r).2 = (nextLine (r.drop j)).2 := by
  intro r
  induction r with
  | nil => intro j _; simp
  | cons b bs ih =>
    intro j h
    cases j with
    | zero => simp
    | succ j =>
      rw [List.take_succ_cons] at h
      have hb : b ≠ LF := fun e => h (by simp [e])
      have h' : LF ∉ bs.take j := fun e => h (List.mem_cons_of_mem _ e)
      obtain ⟨h1, h2⟩ := ih j h'
      simp [nextLine, hb, ← h1, ← h2]

theorem nextLine_fst_of_noLF {w : Bytes} (h : LF ∉ w) : (nextLine w).1 = w := by
  have := (nextLine_take_notMem w w.length (by simpa using h)).1
  simpa [nextLine] using this

theorem nextLine_fst_of_LF {w : Bytes} (h : LF ∈ w) : ∃ c, (nextLine w).1 = c ++ [LF] := by
  rcases nextLine_cases w with ⟨c, _, he⟩ | ⟨h1, h2⟩
  · exact ⟨c, he⟩
  · have := nextLine_append w
    rw [h2, List.append_nil] at this
    rw [this] at h1
    exact absurd h h1

theorem nextLine_drop (r : Bytes) : r.drop (nextLine r).1.length = (nextLine r).2 := by
  have := List.drop_left (l₁ := (nextLine r).1) (l₂ := (nextLine r).2)
  rwa [nextLine_append] at this

theorem drop_take_len (r : Bytes) (j : Nat) : r.drop (r.take j).length = r.drop j := by
  have := List.drop_left (l₁ := r.take j) (l₂ := r.drop j)
  rwa [List.take_append_drop] at this

theorem take_ne_nil_drop_lt {r : Bytes} {j : Nat} (h : r.take j ≠ []) :
    (r.drop j).length < r.length := by
  have h1 : j ≠ 0 := fun e => h (by simp [e])
  have h2 : r ≠ [] := fun e => h (by simp [e])
  have := List.length_pos_iff.mpr h2
  simp; omega

theorem fillR_sched_nil (r : Bytes) (sc : List Step) (h : sc = []) : (fillR r sc).2 = [] := by
  subst h; rfl

/-- std `read_until(b'\n')` is independent of the schedule -/
theorem readUntilS_spec : ∀ (fuel : Nat) (buf r : Bytes) (sc : List Step), r.length < fuel →
    ∃ sc', readUntilS fuel buf r sc = (buf ++ (nextLine r).1, (nextLine r).2, sc') ∧
      (sc = [] → sc' = []) := by
  intro fuel
  induction fuel with
  | zero => intro _ _ _ h; omega
  | succ fuel ih =>
    intro buf r sc hf
    obtain ⟨j, hj, hw⟩ := fillR_spec r sc
    have hsc := fillR_sched_nil r sc
    rw [readUntilS]
    simp only [hw]
    by_cases hLF : LF ∈ r.take j
    · rw [if_pos hLF]
      refine ⟨_, ?_, hsc⟩
      rw [nextLine_take_mem _ _ hLF, nextLine_drop]
    · rw [if_neg hLF]
      by_cases hnil : r.take j = []
      · rw [if_pos hnil]
        have hr : r = [] := by
          rcases List.take_eq_nil_iff.mp hnil with h | h
          · omega
          · exact h
        subst hr
        exact ⟨_, by simp [nextLine], hsc⟩
      · rw [if_neg hnil, drop_take_len]
        have hlt := take_ne_nil_drop_lt hnil
        obtain ⟨sc'', he, hs⟩ := ih (buf ++ r.take j) (r.drop j) (fillR r sc).2 (by omega)
        obtain ⟨h1, h2⟩ := nextLine_take_notMem r j hLF
        refine ⟨sc'', ?_, fun h => hs (hsc h)⟩
        rw [he, h1, h2, List.append_assoc]

theorem readLineS_spec (r : Bytes) (sc : List Step) :
    ∃ sc', readLineS r sc = ((readLine r).1, (readLine r).2.1, (readLine r).2.2, sc') ∧
      (sc = [] → sc' = []) := by
  obtain ⟨sc', he, hs⟩ := readUntilS_spec (r.length + 1) [] r sc (by omega)
  refine ⟨sc', ?_, hs⟩
  simp only [readLineS, readLine, he, List.nil_append]

/-! ### arithmetic of `count_bases` over chunks -/

theorem getLast?_append_of_ne_nil' (w : Bytes) {l : Bytes} (h : l ≠ []) :
    (w ++ l).getLast? = l.getLast? := by
  rcases List.eq_nil_or_concat l with rfl | ⟨ys, a, rfl⟩
  · exact absurd rfl h
  · rw [List.concat_eq_append, ← List.append_assoc, List.getLast?_concat, List.getLast?_concat]

theorem stripLF_append_of_ne_nil (w : Bytes) {l : Bytes} (h : l ≠ []) :
    stripLF (w ++ l) = w ++ stripLF l := by
  unfold stripLF
  rw [getLast?_append_of_ne_nil' w h]
  split
  · rw [List.dropLast_append_of_ne_nil h]
  · rfl

theorem stripCR_append_of_ne_nil (w : Bytes) {l : Bytes} (h : l ≠ []) :
    stripCR (w ++ l) = w ++ stripCR l := by
  unfold stripCR
  rw [getLast?_append_of_ne_nil' w h]
  split
  · rw [List.dropLast_append_of_ne_nil h]
  · rfl

theorem mem_dropLast_of_ne {c x : UInt8} {l : Bytes} (h : c ∈ l) (hc : c ≠ x)
    (hl : l.getLast? = some x) : c ∈ l.dropLast := by
  obtain ⟨ys, rfl⟩ := List.getLast?_eq_some_iff.mp hl
  rw [List.dropLast_concat]
  rcases List.mem_append.mp h with h1 | h1
  · exact h1
  · simp at h1; exact absurd h1 hc

theorem mem_stripLF {c : UInt8} {l : Bytes} (h : c ∈ l) (hc : c ≠ LF) : c ∈ stripLF l := by
  unfold stripLF
  split
  · rename_i hl; exact mem_dropLast_of_ne h hc hl
  · exact h

theorem mem_stripCR {c : UInt8} {l : Bytes} (h : c ∈ l) (hc : c ≠ CR) : c ∈ stripCR l := by
  unfold stripCR
  split
  · rename_i hl; exact mem_dropLast_of_ne h hc hl
  · exact h

theorem clean_head_ne_GT {l : Bytes} (h : Clean (stripEol l)) : l.head? ≠ some GT := by
  intro e
  have hm : GT ∈ l := List.mem_of_head? e
  exact (h GT (mem_stripCR (mem_stripLF hm (by decide)) (by decide))).2 rfl

theorem csl_clean_tail (w l : Bytes) (h : Clean (stripEol (w ++ l))) : Clean (stripEol l) := by
  by_cases hL : l = []
  · subst hL; intro b hb; simp [stripEol, stripLF, stripCR] at hb
  · unfold stripEol at h ⊢
    rw [stripLF_append_of_ne_nil w hL] at h
    by_cases hM : stripLF l = []
    · rw [hM]; intro b hb; simp [stripCR] at hb
    · rw [stripCR_append_of_ne_nil w hM] at h; exact (Clean_append h).2

theorem csl_arith (w l : Bytes) (hw : LF ∉ w) (h : l = [] ∨ Clean (stripEol (w ++ l))) :
    countBases w + countBases (stripLF l) = countBases (stripLF (w ++ l)) := by
  by_cases hL : l = []
  · subst hL
    rw [List.append_nil, stripLF_of_noLF hw]
    simp [countBases, stripLF, stripCR]
  · have hc : Clean (stripEol (w ++ l)) := h.resolve_left hL
    unfold stripEol at hc
    rw [stripLF_append_of_ne_nil w hL] at hc ⊢
    by_cases hM : stripLF l = []
    · rw [hM]; simp [countBases, stripCR]
    · unfold countBases
      rw [stripCR_append_of_ne_nil w hM] at hc ⊢
      have hcr : stripCR w = w := stripCR_of_last (fun e =>
        (hc CR (List.mem_append_left _ (List.mem_of_getLast? e))).1 rfl)
      rw [hcr, List.length_append]

/-- the loop of `consume_sequence_line` from anywhere inside a line whose bases are clean (or with
whole-buffer windows): it consumes the rest of the line and counts its bases -/
theorem cslS_spec : ∀ (fuel : Nat) (r : Bytes) (sc : List Step) (n b : Nat), r.length + 2 ≤ fuel →
    (sc = [] ∨ Clean (stripEol (nextLine r).1)) → r.head? ≠ some GT →
    ∃ sc', cslS fuel n b false r sc =
        ((n + (nextLine r).1.length, b + countBases (stripLF (nextLine r).1)), (nextLine r).2, sc') ∧
      (sc = [] → sc' = []) := by
  intro fuel
  induction fuel with
  | zero => intro _ _ _ _ h; omega
  | succ fuel ih =>
    intro r sc n b hf hcl hgt
    obtain ⟨j, hj, hw⟩ := fillR_spec r sc
    have hsc := fillR_sched_nil r sc
    rw [cslS]
    simp only [hw]
    by_cases hnil : r.take j = []
    · have hr : r = [] := by
        rcases List.take_eq_nil_iff.mp hnil with h | h
        · omega
        · exact h
      subst hr
      refine ⟨_, ?_, hsc⟩
      simp [nextLine, countBases, stripLF, stripCR]
    · have hhead : (r.take j).head? ≠ some GT := by
        rw [List.head?_take, if_neg (by omega)]; exact hgt
      rw [if_neg (by simp [hnil, hhead])]
      by_cases hLF : LF ∈ r.take j
      · rw [if_pos hLF, nextLine_take_mem _ _ hLF, nextLine_drop]
        obtain ⟨f, rfl⟩ : ∃ f, fuel = f + 1 := ⟨fuel - 1, by omega⟩
        rw [cslS]
        simp only [true_or, if_true]
        refine ⟨(fillR (nextLine r).2 (fillR r sc).2).2, ?_, fun h => fillR_sched_nil _ _ (hsc h)⟩
        obtain ⟨c, hc⟩ := nextLine_fst_of_LF (List.mem_of_mem_take hLF)
        rw [hc, stripLF_concat, List.dropLast_concat]
      · rw [if_neg hLF, drop_take_len]
        obtain ⟨h1, h2⟩ := nextLine_take_notMem r j hLF
        have hlt := take_ne_nil_drop_lt hnil
        have hdn : sc = [] → r.drop j = [] := by
          intro h
          subst h
          have hl := congrArg List.length hw
          simp [fillR] at hl
          exact List.drop_eq_nil_of_le (by omega)
        have hcl' : (fillR r sc).2 = [] ∨ Clean (stripEol (nextLine (r.drop j)).1) := by
          rcases hcl with h | h
          · exact Or.inl (hsc h)
          · right; rw [h1] at h; exact csl_clean_tail _ _ h
        have hgt' : (r.drop j).head? ≠ some GT := by
          rcases hcl with h | h
          · rw [hdn h]; simp
          · rw [← nextLine_fst_head]; apply clean_head_ne_GT
            rw [h1] at h; exact csl_clean_tail _ _ h
        have har := csl_arith (r.take j) (nextLine (r.drop j)).1 hLF (by
          rcases hcl with h | h
          · left; rw [hdn h]; rfl
          · right; rw [← h1]; exact h)
        obtain ⟨sc'', he, hs⟩ := ih (r.drop j) (fillR r sc).2 (n + (r.take j).length)
          (b + countBases (r.take j)) (by omega) hcl' hgt'
        refine ⟨sc'', ?_, fun h => hs (hsc h)⟩
        rw [he, h1, h2, ← har, List.length_append, Nat.add_assoc, Nat.add_assoc]

theorem cslS_stop (f n b : Nat) (r : Bytes) (sc : List Step)
    (h : (fillR r sc).1 = [] ∨ (fillR r sc).1.head? = some GT) :
    cslS (f + 1) n b false r sc = ((n, b), r, (fillR r sc).2) := by
  rw [cslS]
  exact if_pos (Or.inr h)

theorem consumeSeqLineS_spec (r : Bytes) (sc : List Step)
    (h : sc = [] ∨ r.head? = some GT ∨ Clean (stripEol (nextLine r).1)) :
    ∃ sc', consumeSeqLineS r sc =
        (((consumeSeqLine r).1, (consumeSeqLine r).2.1), (consumeSeqLine r).2.2, sc') ∧
      (sc = [] → sc' = []) := by
  unfold consumeSeqLineS
  obtain ⟨j, hj, hw⟩ := fillR_spec r sc
  cases r with
  | nil =>
    have he := cslS_stop ([] : Bytes).length.succ 0 0 [] sc (Or.inl (by rw [hw]; exact List.take_nil))
    exact ⟨_, he, fillR_sched_nil _ _⟩
  | cons c cs =>
    by_cases hc : c = GT
    · subst hc
      obtain ⟨k, rfl⟩ : ∃ k, j = k + 1 := ⟨j - 1, by omega⟩
      have he := cslS_stop (GT :: cs).length.succ 0 0 (GT :: cs) sc (Or.inr (by rw [hw]; rfl))
      refine ⟨(fillR (GT :: cs) sc).2, ?_, fillR_sched_nil _ _⟩
      rw [show (GT :: cs).length + 2 = (GT :: cs).length.succ + 1 from rfl, he]
      simp [consumeSeqLine]
    · have h' : sc = [] ∨ Clean (stripEol (nextLine (c :: cs)).1) := by
        rcases h with h | h | h
        · exact Or.inl h
        · simp at h; exact absurd h hc
        · exact Or.inr h
      obtain ⟨sc', he, hs⟩ := cslS_spec _ (c :: cs) sc 0 0 (Nat.le_refl _) h' (by simp [hc])
      refine ⟨sc', ?_, hs⟩
      rw [he]
      simp [consumeSeqLine, hc]

theorem isLastS_spec (r : Bytes) (sc : List Step) :
    (isLastS r sc).1 = isLastSeqLine r ∧ (sc = [] → (isLastS r sc).2 = []) := by
  obtain ⟨j, hj, hw⟩ := fillR_spec r sc
  refine ⟨?_, fun h => fillR_sched_nil r sc h⟩
  simp only [isLastS, hw]
  cases r with
  | nil => simp [isLastSeqLine]
  | cons b bs =>
    obtain ⟨k, rfl⟩ : ∃ k, j = k + 1 := ⟨j - 1, by omega⟩
    simp [isLastSeqLine]

/-- `LinesClean` at the start of a line gives the hypothesis of `consumeSeqLineS_spec` -/
theorem LinesClean.head {r : Bytes} (h : LinesClean r) :
    r.head? = some GT ∨ Clean (stripEol (nextLine r).1) := by
  cases r with
  | nil => right; intro b hb; simp [nextLine, stripEol, stripLF, stripCR] at hb
  | cons b bs =>
    by_cases hb : b = GT
    · left; simp [hb]
    · right
      apply h _ (by rw [splitLines_eq (by simp)]; exact List.mem_cons_self ..)
      simp [isDef, nextLine_fst_head, hb]

/-- `LinesClean` passes to the stream after its first line -/
theorem LinesClean.next {r : Bytes} (h : LinesClean r) : LinesClean (nextLine r).2 := by
  cases r with
  | nil => simpa [nextLine] using h
  | cons b bs =>
    intro l hl
    apply h
    rw [splitLines_eq (by simp)]
    exact List.mem_cons_of_mem _ hl

end Noodles.Fasta
