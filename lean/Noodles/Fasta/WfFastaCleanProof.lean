import Noodles.Fasta.RecordsSchedProof
import Noodles.Fasta.IndexerSchedProof
/-! Helper lemma for `Noodles/Props/C11Indexer.lean`, part 5: C12's well-formedness predicate
`wfFasta` (a `>` only at the start of a line, a CR only before LF or at the very end of a sequence
block) implies the indexer's hypothesis `LinesClean`, for a text that starts with a definition line. -/
namespace Noodles.Fasta

/-- the bases that `specSeq` collects contain no CR and no `>` -/
theorem specSeq_fst_clean (r : Bytes) : Clean (Noodles.IO.specSeq r).1 := by
  induction r with
  | nil => intro b hb; simp [Noodles.IO.specSeq] at hb
  | cons c r ih =>
    unfold Noodles.IO.specSeq
    split
    · exact ih
    · rename_i h1
      split
      · intro b hb; simp at hb
      · rename_i h2
        intro b hb
        simp only [List.mem_cons] at hb
        rcases hb with rfl | hb
        · refine ⟨?_, ?_⟩
          · intro e; apply h1; rw [e]; rfl
          · intro e; apply h2; rw [e]; rfl
        · exact ih b hb

/-- what `specSeq` leaves is empty or starts with `>` -/
theorem specSeq_snd_head (r : Bytes) :
    (Noodles.IO.specSeq r).2 = [] ∨ (Noodles.IO.specSeq r).2.head? = some GT := by
  induction r with
  | nil => left; rfl
  | cons c r ih =>
    unfold Noodles.IO.specSeq
    split
    · exact ih
    · split
      · rename_i h2
        right
        have : c = Noodles.IO.GT := eq_of_beq h2
        rw [this]; rfl
      · exact ih

theorem LinesClean.nil : LinesClean [] := by
  intro l hl; simp [splitLines] at hl

theorem LinesClean.cons {r : Bytes} (hne : r ≠ [])
    (h1 : isDef (nextLine r).1 = false → Clean (stripEol (nextLine r).1))
    (h2 : LinesClean (nextLine r).2) : LinesClean r := by
  intro l hl hd
  rw [splitLines_eq hne] at hl
  rcases List.mem_cons.mp hl with rfl | hl
  · exact h1 hd
  · exact h2 l hl hd

/-- a sequence block: clean up to the next definition line -/
theorem linesClean_block : ∀ (n : Nat) (r : Bytes), r.length < n →
    Noodles.IO.wfSeq Noodles.IO.LF r = true → LinesClean (Noodles.IO.specSeq r).2 →
    LinesClean r := by
  intro n
  induction n with
  | zero => intro r h; omega
  | succ n ih =>
    intro r hl hw hc
    cases hlast : isLastSeqLine r with
    | true =>
      cases r with
      | nil => exact LinesClean.nil
      | cons b x =>
        have hb : b = Noodles.IO.GT := by
          have : b = GT := by simpa [isLastSeqLine] using hlast
          exact this
        subst hb
        rw [Noodles.IO.specSeq_gt] at hc
        exact hc
    | false =>
      obtain ⟨hne, hh⟩ := isLast_false hlast
      obtain ⟨s1, s2⟩ := specSeq_line r Noodles.IO.LF hw hh
      have hlen := nextLine_snd_length_lt hne
      have hc' : LinesClean (Noodles.IO.specSeq (nextLine r).2).2 := by
        rw [s1] at hc; exact hc
      have hR := ih (nextLine r).2 (by omega) s2 hc'
      refine LinesClean.cons hne (fun _ => ?_) hR
      intro b hb
      apply specSeq_fst_clean r b
      rw [s1]
      exact List.mem_append_left _ hb

theorem linesClean_of_wfFastaF : ∀ (fuel : Nat) (xs : Bytes),
    Noodles.IO.wfFastaF fuel xs = true → xs.length < fuel →
    (xs = [] ∨ xs.head? = some GT) → LinesClean xs := by
  intro fuel
  induction fuel with
  | zero => intro xs _ hl; omega
  | succ fuel ih =>
    intro xs hwf hl h0
    by_cases hne : xs = []
    · subst hne; exact LinesClean.nil
    · have hhd : xs.head? = some GT := by
        rcases h0 with h | h
        · exact absurd h hne
        · exact h
      unfold Noodles.IO.wfFastaF at hwf
      rw [specUntil_eq_nextLine] at hwf
      simp only [] at hwf
      have hz : ¬ (nextLine xs).1.length = 0 := by
        have := List.length_pos_iff.mpr (nextLine_fst_ne_nil hne)
        omega
      rw [if_neg hz] at hwf
      obtain ⟨w1, w2⟩ := (Bool.and_eq_true _ _).mp hwf
      have hlen1 := specSeq_snd_length (nextLine xs).2
      have hlen2 := nextLine_snd_length_lt hne
      have hrest := ih _ w2 (by omega) (specSeq_snd_head _)
      have hblk := linesClean_block _ _ (Nat.lt_succ_self _) w1 hrest
      refine LinesClean.cons hne (fun hd => ?_) hblk
      have : isDef (nextLine xs).1 = true := by
        simp [isDef, nextLine_fst_head, hhd]
      rw [this] at hd
      cases hd

theorem linesClean_of_wfFasta (f : Bytes) (hwf : Noodles.IO.wfFasta f = true)
    (h0 : f = [] ∨ f.head? = some GT) : LinesClean f :=
  linesClean_of_wfFastaF (f.length + 1) f hwf (Nat.lt_succ_self _) h0

end Noodles.Fasta
