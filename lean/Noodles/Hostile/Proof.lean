import Noodles.Hostile.Basic
import Noodles.Hostile.Num
import Noodles.Hostile.BgzfFrame
import Noodles.Hostile.BamRecord
/-! Helper lemmas for `Noodles/Props/C15.lean`: integer readers, BGZF frame, BAM record. -/
namespace Noodles.Hostile
open Res

/-! ## integer readers -/
namespace Num

theorem readBE_ne_panic (n : Nat) (s : Bytes) : readBE n s ≠ .panic := by
  unfold readBE; split <;> simp

theorem bind_ok_ne_panic {α β : Type} {x : Res α} (hx : x ≠ .panic) (g : α → β) :
    (x >>= fun a => Res.ok (g a)) ≠ .panic :=
  bind_ne_panic hx (by intros; simp)

theorem readItf8_ne_panic (s : Bytes) : readItf8 s ≠ .panic := by
  unfold readItf8
  refine bind_ne_panic (readBE_ne_panic 1 s) ?_
  rintro ⟨b0, r⟩ _
  dsimp only
  repeat' split
  all_goals first
    | (refine bind_ne_panic (readBE_ne_panic _ _) ?_; intro a _; simp; done)
    | (simp; done)

theorem readLtf8_ne_panic (s : Bytes) : readLtf8 s ≠ .panic := by
  unfold readLtf8
  refine bind_ne_panic (readBE_ne_panic 1 s) ?_
  rintro ⟨b0, r⟩ _
  dsimp only
  repeat' split
  all_goals first
    | (refine bind_ne_panic (readBE_ne_panic _ _) ?_; intro a _; simp; done)
    | (simp; done)

theorem readUint7Loop_ne_panic : ∀ (s : Bytes) (n len : Nat), readUint7Loop s n len ≠ .panic
  | [], _, _ => by simp [readUint7Loop]
  | b :: r, n, len => by
    unfold readUint7Loop
    split
    · simp
    · dsimp only
      split
      · simp
      · exact readUint7Loop_ne_panic r _ _

end Num
end Noodles.Hostile

namespace Noodles.Hostile
open Res

@[simp] theorem unwrap_some {α : Type} (a : α) : unwrap (some a) = .ok a := rfl
theorem uadd_ok {a b : Nat} (h : a + b < USIZE) : uadd a b = .ok (a + b) := by simp [uadd, h]
theorem usub_ok {a b : Nat} (h : b ≤ a) : usub a b = .ok (a - b) := by simp [usub, h]
theorem umul_ok {a b : Nat} (h : a * b < USIZE) : umul a b = .ok (a * b) := by simp [umul, h]
theorem slice_ok {s : Bytes} {a b : Nat} (h : a ≤ b ∧ b ≤ s.length) :
    slice s a b = .ok ((s.drop a).take (b - a)) := by simp [slice, h]
theorem sliceFrom_ok {s : Bytes} {a : Nat} (h : a ≤ s.length) : sliceFrom s a = .ok (s.drop a) := by
  simp [sliceFrom, h]
theorem sliceTo_ok {s : Bytes} {b : Nat} (h : b ≤ s.length) : sliceTo s b = .ok (s.take b) := by
  simp [sliceTo, h]
theorem index_ok {s : Bytes} {i : Nat} (h : i < s.length) : index s i = .ok s[i] := by
  simp [index, List.getElem?_eq_getElem h]
theorem assert_true : assert true = .ok () := rfl

/-- what a successful sub-decoder guarantees, as a predicate on the three-valued outcome -/
def Sat {α : Type} (x : Res α) (P : α → Prop) : Prop :=
  match x with
  | .panic => False
  | .err _ => True
  | .ok a => P a

theorem Sat.ne_panic {α : Type} {x : Res α} {P : α → Prop} (h : Sat x P) : x ≠ .panic := by
  cases x <;> simp_all [Sat]

theorem Sat.of_ok {α : Type} {x : Res α} {P : α → Prop} {a : α} (h : Sat x P) (e : x = .ok a) : P a := by
  subst e; exact h

theorem Sat.bind {α β : Type} {x : Res α} {f : α → Res β} {P : α → Prop} {Q : β → Prop}
    (hx : Sat x P) (hf : ∀ a, P a → Sat (f a) Q) : Sat (x >>= f) Q := by
  cases x with
  | ok a => exact hf a hx
  | err e => trivial
  | panic => exact hx

/-! ## BGZF frame -/
namespace Frame
open Noodles.Bgzf (Deflater HEADER_SIZE TRAILER_SIZE MAX_ISIZE MIN_FRAME)

theorem readFrameInto_ne_panic (s : Bytes) : readFrameInto s ≠ .panic := by
  unfold readFrameInto
  split
  · simp
  · rename_i h
    have hlen : (s.take HEADER_SIZE).length = 18 := by
      simp only [List.length_take, HEADER_SIZE] at *; omega
    have h2 : 2 ≤ (s.take HEADER_SIZE).length := by omega
    simp only [h2, if_true, unwrap_some, bind_ok]
    have hl : leVal ((s.take HEADER_SIZE).drop ((s.take HEADER_SIZE).length - 2)) < 256 ^ 2 := by
      have := leVal_lt ((s.take HEADER_SIZE).drop ((s.take HEADER_SIZE).length - 2))
      simp only [List.length_drop] at this
      have e : (s.take HEADER_SIZE).length - ((s.take HEADER_SIZE).length - 2) = 2 := by omega
      rw [e] at this; exact this
    rw [uadd_ok (by simp only [USIZE]; omega)]
    simp only [bind_ok]
    split
    · simp
    · rename_i hb
      rw [sliceFrom_ok (by simp only [List.length_replicate, MIN_FRAME, HEADER_SIZE, TRAILER_SIZE] at *; omega)]
      simp only [bind_ok]
      split <;> simp

theorem readFrameInto_frame_len {s buf rest : Bytes} (h : readFrameInto s = .ok (some (buf, rest))) :
    MIN_FRAME ≤ buf.length ∧ rest.length < s.length := by
  unfold readFrameInto at h
  split at h
  · cases h
  · rename_i hs
    have hlen : (s.take HEADER_SIZE).length = 18 := by
      simp only [List.length_take, HEADER_SIZE] at *; omega
    have h2 : 2 ≤ (s.take HEADER_SIZE).length := by omega
    simp only [h2, if_true, unwrap_some, bind_ok] at h
    have hl : leVal ((s.take HEADER_SIZE).drop ((s.take HEADER_SIZE).length - 2)) < 256 ^ 2 := by
      have := leVal_lt ((s.take HEADER_SIZE).drop ((s.take HEADER_SIZE).length - 2))
      simp only [List.length_drop] at this
      have e : (s.take HEADER_SIZE).length - ((s.take HEADER_SIZE).length - 2) = 2 := by omega
      rw [e] at this; exact this
    rw [uadd_ok (by simp only [USIZE]; omega)] at h
    simp only [bind_ok] at h
    split at h
    · cases h
    · rename_i hb
      rw [sliceFrom_ok (by simp only [List.length_replicate, MIN_FRAME, HEADER_SIZE, TRAILER_SIZE] at *; omega)] at h
      simp only [bind_ok] at h
      split at h
      · cases h
      · rename_i hl2
        simp only [pure_eq, Res.ok.injEq, Option.some.injEq, Prod.mk.injEq] at h
        obtain ⟨rfl, rfl⟩ := h
        simp only [List.length_take, List.length_drop, MIN_FRAME, HEADER_SIZE, TRAILER_SIZE] at *
        omega

theorem splitFrame_ne_panic (buf : Bytes) : splitFrame buf ≠ .panic := by
  unfold splitFrame
  split
  · simp
  · rename_i h
    simp only [MIN_FRAME, HEADER_SIZE, TRAILER_SIZE] at h
    have h18 : HEADER_SIZE ≤ buf.length := by simp only [HEADER_SIZE]; omega
    have h8 : TRAILER_SIZE ≤ buf.length := by simp only [TRAILER_SIZE]; omega
    simp only [h18, h8, if_true, unwrap_some, bind_ok]
    rw [usub_ok h8]
    simp only [bind_ok]
    rw [slice_ok (by simp only [HEADER_SIZE, TRAILER_SIZE]; omega)]
    simp

theorem splitFrame_ok_lens {buf h c t : Bytes} (hs : splitFrame buf = .ok (h, c, t)) :
    h.length = 18 ∧ t.length = 8 := by
  unfold splitFrame at hs
  split at hs
  · cases hs
  · rename_i hb
    simp only [MIN_FRAME, HEADER_SIZE, TRAILER_SIZE] at hb
    have h18 : HEADER_SIZE ≤ buf.length := by simp only [HEADER_SIZE]; omega
    have h8 : TRAILER_SIZE ≤ buf.length := by simp only [TRAILER_SIZE]; omega
    simp only [h18, h8, if_true, unwrap_some, bind_ok] at hs
    rw [usub_ok h8] at hs
    simp only [bind_ok] at hs
    rw [slice_ok (by simp only [HEADER_SIZE, TRAILER_SIZE]; omega)] at hs
    simp only [bind_ok, pure_eq, Res.ok.injEq, Prod.mk.injEq] at hs
    obtain ⟨rfl, _, rfl⟩ := hs
    simp only [List.length_take, List.length_drop, HEADER_SIZE, TRAILER_SIZE]
    omega

theorem isValidHeader_ne_panic {h : Bytes} (hl : h.length = 18) : isValidHeader h ≠ .panic := by
  unfold isValidHeader
  rw [slice_ok (by omega), index_ok (by omega), index_ok (by omega), slice_ok (by omega),
    slice_ok (by omega), slice_ok (by omega)]
  simp

theorem parseTrailer_ne_panic {t : Bytes} (hl : t.length = 8) : parseTrailer t ≠ .panic := by
  unfold parseTrailer
  rw [sliceTo_ok (by omega), sliceFrom_ok (by omega)]
  simp only [bind_ok, List.length_take, List.length_drop, hl]
  simp only [show (min 4 8 == 4) = true from rfl, show (8 - 4 == 4) = true from rfl, assert_true, bind_ok]
  split <;> simp

theorem parseTrailer_isize {t : Bytes} {c i : Nat} (h : parseTrailer t = .ok (c, i)) : i ≤ MAX_ISIZE := by
  unfold parseTrailer at h
  cases h1 : sliceTo t 4 with
  | panic => simp [h1] at h
  | err e => simp [h1] at h
  | ok a =>
    simp only [h1, bind_ok] at h
    cases h2 : assert (a.length == 4) with
    | panic => simp [h2] at h
    | err e => simp [h2] at h
    | ok u =>
      simp only [h2, bind_ok] at h
      cases h3 : sliceFrom t 4 with
      | panic => simp [h3] at h
      | err e => simp [h3] at h
      | ok b =>
        simp only [h3, bind_ok] at h
        cases h4 : assert (b.length == 4) with
        | panic => simp [h4] at h
        | err e => simp [h4] at h
        | ok u =>
          simp only [h4, bind_ok] at h
          split at h
          · rename_i hle
            simp only [pure_eq, Res.ok.injEq, Prod.mk.injEq] at h
            omega
          · cases h

theorem dataAsMut_ne_panic {i : Nat} (h : i ≤ MAX_ISIZE) : dataAsMut i ≠ .panic := by
  unfold dataAsMut
  rw [slice_ok (by simp only [List.length_replicate]; omega)]
  simp

theorem parseBlock_ne_panic (D : Deflater) (src : Bytes) : parseBlock D src ≠ .panic := by
  unfold parseBlock
  refine bind_ne_panic (splitFrame_ne_panic src) ?_
  rintro ⟨h, c, t⟩ hs
  obtain ⟨hh, ht⟩ := splitFrame_ok_lens hs
  refine bind_ne_panic (isValidHeader_ne_panic hh) ?_
  intro valid _
  split
  · simp
  · refine bind_ne_panic (parseTrailer_ne_panic ht) ?_
    rintro ⟨crc, isize⟩ hp
    refine bind_ne_panic (dataAsMut_ne_panic (parseTrailer_isize hp)) ?_
    intro _ _
    split
    · simp
    · split <;> simp

theorem readFrame_ne_panic (D : Deflater) (s : Bytes) : readFrame D s ≠ .panic := by
  unfold readFrame
  refine bind_ne_panic (readFrameInto_ne_panic s) ?_
  intro o _
  split
  · simp
  · refine bind_ne_panic (parseBlock_ne_panic D _) ?_
    rintro ⟨bs, data⟩ _
    simp

theorem readAll_ne_panic (D : Deflater) : ∀ (fuel : Nat) (s : Bytes), readAll D fuel s ≠ .panic
  | 0, _ => by simp [readAll]
  | fuel+1, s => by
    unfold readAll
    refine bind_ne_panic (readFrame_ne_panic D s) ?_
    intro o _
    split
    · simp
    · refine bind_ne_panic (readAll_ne_panic D fuel _) ?_
      intro more _
      simp

end Frame
end Noodles.Hostile

namespace Noodles.Hostile
open Res

theorem take_index {s : Bytes} {i k : Nat} (hi : i < k) (hk : k ≤ s.length) :
    index (s.take k) i = index s i := by
  unfold index
  rw [List.getElem?_take_of_lt hi]

theorem take_slice {s : Bytes} {a b k : Nat} (hb : b ≤ k) (hk : k ≤ s.length) :
    slice (s.take k) a b = slice s a b := by
  unfold slice
  have h1 : (s.take k).length = k := by simp only [List.length_take]; omega
  by_cases hab : a ≤ b
  · have c1 : a ≤ b ∧ b ≤ (s.take k).length := ⟨hab, by omega⟩
    have c2 : a ≤ b ∧ b ≤ s.length := ⟨hab, by omega⟩
    rw [if_pos c1, if_pos c2, List.drop_take, List.take_take]
    congr 2
    omega
  · have c1 : ¬(a ≤ b ∧ b ≤ (s.take k).length) := fun h => hab h.1
    have c2 : ¬(a ≤ b ∧ b ≤ s.length) := fun h => hab h.1
    rw [if_neg c1, if_neg c2]

/-! ## BAM record -/
namespace Bam

/-- the three length fields as total functions of the buffer -/
def fN (src : Bytes) : Nat := (src.getD 8 0).toNat
def fC (src : Bytes) : Nat := leVal ((src.drop 12).take 2)
def fL (src : Bytes) : Nat := leVal ((src.drop 16).take 4)

theorem fN_lt (src : Bytes) : fN src < 256 := (src.getD 8 0).toNat_lt
theorem fC_lt (src : Bytes) : fC src < 65536 := by
  have := leVal_lt ((src.drop 12).take 2)
  have h : ((src.drop 12).take 2).length ≤ 2 := by simp only [List.length_take]; omega
  have : 256 ^ ((src.drop 12).take 2).length ≤ 256 ^ 2 := Nat.pow_le_pow_right (by omega) h
  unfold fC; omega
theorem fL_lt (src : Bytes) : fL src < 4294967296 := by
  have := leVal_lt ((src.drop 16).take 4)
  have h : ((src.drop 16).take 4).length ≤ 4 := by simp only [List.length_take]; omega
  have : 256 ^ ((src.drop 16).take 4).length ≤ 256 ^ 4 := Nat.pow_le_pow_right (by omega) h
  unfold fL; omega

theorem nameLen_eq {src : Bytes} (h : 8 < src.length) : nameLen src = .ok (fN src) := by
  unfold nameLen fN
  rw [index_ok h]
  simp [List.getD_eq_getElem?_getD, List.getElem?_eq_getElem h]

theorem cigarOpCount_eq {src : Bytes} (h : 14 ≤ src.length) : cigarOpCount src = .ok (fC src) := by
  unfold cigarOpCount fC
  rw [slice_ok (by omega)]
  simp

theorem baseCount_eq {src : Bytes} (h : 20 ≤ src.length) : baseCount src = .ok (fL src) := by
  unfold baseCount fL
  rw [slice_ok (by omega)]
  simp

/-- the end of the quality scores, as a plain number -/
def qEnd (src : Bytes) : Nat := 32 + fN src + fC src * 4 + (fL src + 1) / 2 + fL src

theorem qualityScoresEnd_eq (src : Bytes) :
    qualityScoresEnd (fN src) (fC src) (fL src) = .ok (qEnd src) := by
  have h1 := fN_lt src; have h2 := fC_lt src; have h3 := fL_lt src
  unfold qualityScoresEnd qEnd MIN_BUF_LENGTH
  rw [uadd_ok (by simp only [USIZE]; omega)]
  simp only [bind_ok]
  rw [umul_ok (by simp only [USIZE]; omega)]
  simp only [bind_ok]
  rw [uadd_ok (by simp only [USIZE]; omega)]
  simp only [bind_ok]
  rw [uadd_ok (by simp only [USIZE]; omega)]
  simp only [bind_ok]
  rw [uadd_ok (by simp only [USIZE]; omega)]

theorem validate_eq (src : Bytes) :
    validate src = if src.length < 32 then .err .eof
      else if src.length < qEnd src then .err .eof else .ok () := by
  unfold validate MIN_BUF_LENGTH
  split
  · rfl
  · rename_i h
    rw [nameLen_eq (by omega), cigarOpCount_eq (by omega), baseCount_eq (by omega)]
    simp only [bind_ok]
    rw [qualityScoresEnd_eq]
    simp only [bind_ok]
    split <;> rfl

theorem validate_ne_panic (src : Bytes) : validate src ≠ .panic := by
  rw [validate_eq]; repeat' split
  all_goals simp

theorem validate_ok {src : Bytes} (h : validate src = .ok ()) : 32 ≤ src.length ∧ qEnd src ≤ src.length := by
  rw [validate_eq] at h
  split at h
  · cases h
  · split at h
    · cases h
    · omega

theorem split_eq {src : Bytes} (h : 32 ≤ src.length) : split src = .ok (src.take 32, src.drop 32) := by
  simp [split, splitAt, h]

theorem offsets_eq {src : Bytes} (h : 32 ≤ src.length) :
    offsets (src.take 32) =
      .ok ⟨fN src, fN src + fC src * 4, fN src + fC src * 4 + (fL src + 1) / 2,
        fN src + fC src * 4 + (fL src + 1) / 2 + fL src⟩ := by
  have h1 := fN_lt src; have h2 := fC_lt src; have h3 := fL_lt src
  unfold offsets
  have e1 : nameLen (src.take 32) = .ok (fN src) := by
    unfold nameLen; rw [take_index (by omega) h]; exact nameLen_eq (by omega)
  have e2 : cigarOpCount (src.take 32) = .ok (fC src) := by
    unfold cigarOpCount; rw [take_slice (by omega) h]; exact cigarOpCount_eq (by omega)
  have e3 : baseCount (src.take 32) = .ok (fL src) := by
    unfold baseCount; rw [take_slice (by omega) h]; exact baseCount_eq (by omega)
  rw [e1, e2, e3]
  simp only [bind_ok]
  rw [umul_ok (by simp only [USIZE]; omega)]
  simp only [bind_ok]
  rw [uadd_ok (by simp only [USIZE]; omega)]
  simp only [bind_ok]
  rw [uadd_ok (by simp only [USIZE]; omega)]
  simp only [bind_ok]
  rw [uadd_ok (by simp only [USIZE]; omega)]
  rfl

/-- after `validate`, every lazy accessor slices inside the buffer -/
theorem accessors_in_bounds {src : Bytes} (hv : validate src = .ok ()) :
    rawName src ≠ .panic ∧ rawCigar src ≠ .panic ∧ rawSequence src ≠ .panic ∧
    rawQualityScores src ≠ .panic ∧ rawData src ≠ .panic := by
  obtain ⟨h32, hq⟩ := validate_ok hv
  unfold qEnd at hq
  have hr : (src.drop 32).length = src.length - 32 := by simp
  refine ⟨?_, ?_, ?_, ?_, ?_⟩
  · unfold rawName
    rw [split_eq h32]; simp only [bind_ok]; rw [offsets_eq h32]; simp only [bind_ok]
    rw [sliceTo_ok (by omega)]; simp
  · unfold rawCigar
    rw [split_eq h32]; simp only [bind_ok]; rw [offsets_eq h32]; simp only [bind_ok]
    rw [slice_ok (by omega)]; simp
  · unfold rawSequence
    rw [split_eq h32]; simp only [bind_ok]; rw [offsets_eq h32]; simp only [bind_ok]
    rw [slice_ok (by omega)]; simp
  · unfold rawQualityScores
    rw [split_eq h32]; simp only [bind_ok]; rw [offsets_eq h32]; simp only [bind_ok]
    rw [slice_ok (by omega)]; simp
  · unfold rawData
    rw [split_eq h32]; simp only [bind_ok]; rw [offsets_eq h32]; simp only [bind_ok]
    rw [sliceFrom_ok (by omega)]; simp

theorem readAndTouch_ne_panic (src : Bytes) : readAndTouch src ≠ .panic := by
  unfold readAndTouch
  refine bind_ne_panic (validate_ne_panic src) ?_
  intro u hv
  cases u
  obtain ⟨a, b, c, d, e⟩ := accessors_in_bounds hv
  refine bind_ne_panic a ?_; intro _ _
  refine bind_ne_panic b ?_; intro _ _
  refine bind_ne_panic c ?_; intro _ _
  refine bind_ne_panic d ?_; intro _ _
  refine bind_ne_panic e ?_; intro _ _
  simp

end Bam
end Noodles.Hostile
