import Noodles.Hostile.CodecKit
/-!
# rANS 4x8 decoder on arbitrary bytes (C15)

Transcribed from noodles-cram `src/codecs/rans_4x8/decode.rs` (`decode`, `read_states`,
`state_cumulative_frequency`, `state_step`, `state_renormalize`), `decode/header.rs`
(`read_header`, `read_order`, `read_size`), `decode/order_0.rs` (`decode`, `read_frequencies`,
`next_symbol`, `validate_frequencies`, `build_cumulative_frequencies`,
`build_cumulative_frequencies_symbols_table`) and `decode/order_1.rs` (`decode`,
`read_frequencies`, `build_cumulative_frequencies`, `build_cumulative_frequencies_symbols_table`,
`split_chunks`) as they are after the hardening commit 77a595b.

`u8`/`u16`/`u32` values are natural numbers; every index into a table, every `u16`/`u32`
addition, multiplication and subtraction and every slice carries its own check
(`CodecKit.lean`). Tables are lists of 256 entries; the 4096-slot lookup table is an `Array`
(constant-time access, same bounds check).
-/
namespace Noodles.Hostile.R4x8
open Noodles.Hostile Noodles.Hostile.Rd Noodles.Hostile.Codec

/-- `LOWER_BOUND` -/
def LOWER : Nat := 2^23

/-! ## header -/

/-- `read_order`: 0 or 1 -/
def readOrder : Rd Nat := do
  let b ← readU8
  if b = 0 then return 0 else if b = 1 then return 1 else Rd.fail .invalidData

/-- `read_size`: `read_u32_le` + `usize::try_from` (cannot fail on a 64-bit target) -/
def readSize : Rd Nat := readU32

/-! ## order 0: frequency table -/

/-- `read_itf8_as::<_, u16>`: `read_itf8`, then `u16::try_from(i32)` -/
def readItf8U16 : Rd Nat := fun s =>
  match Num.readItf8 s with
  | .ok (v, r) => if 0 ≤ v ∧ v < 65536 then .ok (v.toNat, r) else .err .invalidData
  | .err e => .err e
  | .panic => .panic

/-- `next_symbol`: `sym.checked_add(1)` on `u8`, `InvalidData` past the last symbol -/
def nextSymbol (sym : Nat) : Rd Nat :=
  if sym + 1 < 256 then Rd.pure (sym + 1) else Rd.fail .invalidData

/-- `for _ in 0..len { let f = read_itf8_as(src)?; frequencies[sym] = f; sym = next_symbol(sym)? }`,
generic in the entry reader (order 1 reads a whole order-0 table per entry) -/
def runLoop {α : Type} (entry : Rd α) : Nat → Nat → List α → Rd (Nat × List α)
  | 0, sym, F => Rd.pure (sym, F)
  | len + 1, sym, F => do
    let f ← entry
    let F ← Rd.lift (setN F sym f)
    let sym ← nextSymbol sym
    runLoop entry len sym F

/-- one iteration of the `loop` of `read_frequencies` (order 0 and order 1 have the same shape);
state: `(sym, prev_sym, frequencies)` -/
def freqBody {α : Type} (entry : Rd α) (st : Nat × Nat × List α) :
    Rd ((Nat × Nat × List α) ⊕ List α) := do
  let f ← entry
  let F ← Rd.lift (setN st.2.2 st.1 f)
  let sym ← readU8
  if sym = 0 then
    return .inr F
  else
    -- `sym - 1 == prev_sym` on `u8`
    let d ← Rd.lift (usub sym 1)
    if d = st.2.1 then
      let len ← readU8
      let (sym, F) ← runLoop entry len sym F
      return .inl (sym, sym, F)
    else
      return .inl (sym, sym, F)

/-- the symbol-run framing shared by both orders: `let mut sym = read_u8(src)?; let mut prev_sym =
sym; loop { … }` over a table initialised with `zero` -/
def readRuns {α : Type} (entry : Rd α) (zero : α) : Rd (List α) := do
  let sym ← readU8
  loop (freqBody entry) (sym, sym, List.replicate 256 zero)

/-- `frequencies.iter().copied().map(u32::from).sum()` (overflow-checked `u32` additions) -/
def sum32 : List Nat → Res Nat
  | [] => .ok 0
  | f :: rest => do let s ← sum32 rest; add32 f s

/-- `validate_frequencies`: the total is at most 4096 -/
def validateFrequencies (F : List Nat) : Rd Unit := do
  let sum ← Rd.lift (sum32 F)
  if sum ≤ 4096 then return () else Rd.fail .invalidData

/-- `order_0::read_frequencies` -/
def readFrequencies : Rd (List Nat) := do
  let F ← readRuns readItf8U16 0
  validateFrequencies F
  return F

/-! ## cumulative frequencies and the lookup table -/

/-- the body of `for (next_f, g) in cumulative_frequencies[1..].iter_mut().zip(frequencies)
{ *next_f = f + g; f = *next_f; }` with the running `f`; `add` is the addition of the entry type -/
@[specialize] def cumFrom (add : Nat → Nat → Res Nat) : Nat → List Nat → Res (List Nat)
  | _, [] => .ok []
  | f, g :: rest =>
    match add f g with
    | .ok n =>
      match cumFrom add n rest with
      | .ok tl => .ok (n :: tl)
      | .err e => .err e
      | .panic => .panic
    | .err e => .err e
    | .panic => .panic

/-- `build_cumulative_frequencies`: `C[0] = 0`, `C[i+1] = C[i] + F[i]` for the 255 slots of
`cumulative_frequencies[1..]` (the zip stops there: `F[255]` is not added) -/
def buildCum (add : Nat → Nat → Res Nat) (F : List Nat) : Res (List Nat) := do
  let tl ← cumFrom add 0 (F.take 255)
  pure (0 :: tl)

/-- `while sym < u8::MAX && f >= cumulative_freqs[usize::from(sym + 1)] { sym += 1; }`
(fuel 256: `sym` can advance 255 times) -/
def advance (C : Array Nat) (f : Nat) : Nat → Nat → Res Nat
  | 0, _ => .panic
  | fuel + 1, sym =>
    if sym < 255 then do
      let c ← idxA C (sym + 1)
      if f ≥ c then advance C f fuel (sym + 1) else pure sym
    else pure sym

/-- `for (f, g) in (0u16..).zip(&mut table) { while … ; *g = sym; }`: `k` slots from `f` on, `sym`
carried from slot to slot, `t` the slots filled so far -/
def tableLoop (C : Array Nat) : Nat → Nat → Nat → Array Nat → Res (Array Nat)
  | 0, _, _, t => .ok t
  | k + 1, f, sym, t =>
    match advance C f 256 sym with
    | .ok sym => tableLoop C k (f + 1) sym (t.push sym)
    | .err e => .err e
    | .panic => .panic

/-- `build_cumulative_frequencies_symbols_table`: 4096 slots -/
def buildTable (C : List Nat) : Res (Array Nat) :=
  tableLoop C.toArray 4096 0 0 (Array.mkEmpty 4096)

/-! ## the state machine -/

/-- `read_states`: four `u32` -/
def readStates : Rd (List Nat) := Rd.many readU32 4

/-- `state_cumulative_frequency` -/
def stateCumFreq (s : Nat) : Nat := s &&& 0x0fff

/-- `state_step`: `u32::from(f) * (s >> 12) + (s & 0x0fff) - u32::from(g)` -/
def stateStep (s f g : Nat) : Res Nat := do
  let a ← mul32 f (s >>> 12)
  let b ← add32 a (s &&& 0x0fff)
  usub b g

/-- one round of `while s < LOWER_BOUND { let b = read_u8(src)?; s = (s << 8) | b; }` -/
def renormBody (s : Nat) : Rd (Nat ⊕ Nat) :=
  if s < LOWER then do
    let b ← readU8
    return .inl (((s <<< 8) % P32) ||| b)
  else
    return .inr s

/-- `state_renormalize` -/
def renormalize (s : Nat) : Rd Nat := loop renormBody s

/-- the body shared by all symbol loops: look the symbol up, advance the state, renormalise.
`T`, `F`, `C` are the tables of the current context. Returns `(symbol, new state)`. -/
def decodeSym (F C : List Nat) (T : Array Nat) (s : Nat) : Rd (Nat × Nat) := do
  let sym ← Rd.lift (idxA T (stateCumFreq s))
  let f ← Rd.lift (idxN F sym)
  let g ← Rd.lift (idxN C sym)
  let s ← Rd.lift (stateStep s f g)
  let s ← renormalize s
  return (sym, s)

/-! ## order 0 -/

/-- `for chunk in dst.chunks_mut(states.len()) { for (d, state) in chunk.iter_mut().zip(
states.iter_mut()) { … } }`: output byte `i` is decoded with state `i % 4`. State of the loop:
the states and the output so far (reversed). -/
def step0 (F C : List Nat) (T : Array Nat) (i : Nat) (st : List Nat × List Nat) :
    Rd (List Nat × List Nat) := do
  let j := i % 4
  let s ← Rd.lift (idxN st.1 j)
  let (sym, s) ← decodeSym F C T s
  let states ← Rd.lift (setN st.1 j s)
  return (states, sym :: st.2)

/-- `order_0::decode` into a destination of `n` bytes -/
def decode0 (n : Nat) : Rd (List Nat) := do
  let F ← readFrequencies
  let C ← Rd.lift (buildCum add16 F)
  let T ← Rd.lift (buildTable C)
  let states ← readStates
  let (_, out) ← forN (step0 F C T) n 0 (states, [])
  return out.reverse

/-! ## order 1 -/

/-- `order_1::read_frequencies`: a table of order-0 tables under the same symbol-run framing -/
def readFrequencies1 : Rd (List (List Nat)) := readRuns readFrequencies (List.replicate 256 0)

/-- `Iterator::collect` of a fallible map over the rows -/
def mapRows {α β : Type} (f : α → Res β) : List α → Res (List β)
  | [] => .ok []
  | a :: rest => do
    let b ← f a
    let tl ← mapRows f rest
    pure (b :: tl)

/-- one symbol with context `prev`: `tables[i][f]`, `frequencies[i][j]`,
`cumulative_frequencies[i][j]` -/
def decodeSym1 (Fs Cs : List (List Nat)) (Ts : List (Array Nat)) (prev s : Nat) : Rd (Nat × Nat) := do
  let F ← Rd.lift (idxN Fs prev)
  let C ← Rd.lift (idxN Cs prev)
  let T ← Rd.lift (idxN Ts prev)
  decodeSym F C T s

/-- the inner `for (state, (prev_sym, d)) in states.iter_mut().zip(prev_syms.iter_mut().zip(dsts))`
for lane `j`; loop state: states, previous symbols, the four output chunks (reversed) -/
def lane1 (Fs Cs : List (List Nat)) (Ts : List (Array Nat)) (j : Nat)
    (st : List Nat × List Nat × List (List Nat)) : Rd (List Nat × List Nat × List (List Nat)) := do
  let s ← Rd.lift (idxN st.1 j)
  let p ← Rd.lift (idxN st.2.1 j)
  let (sym, s) ← decodeSym1 Fs Cs Ts p s
  let states ← Rd.lift (setN st.1 j s)
  let prevs ← Rd.lift (setN st.2.1 j sym)
  let out ← Rd.lift (idxN st.2.2 j)
  let outs ← Rd.lift (setN st.2.2 j (sym :: out))
  return (states, prevs, outs)

/-- the loop over `chunk_4` with `states[3]` and `prev_syms[3]`; loop state `(state, prev, out)` -/
def tail1 (Fs Cs : List (List Nat)) (Ts : List (Array Nat)) (_i : Nat)
    (st : Nat × Nat × List Nat) : Rd (Nat × Nat × List Nat) := do
  let (sym, s) ← decodeSym1 Fs Cs Ts st.2.1 st.1
  return (s, sym, sym :: st.2.2)

/-- `order_1::decode` into a destination of `n` bytes. `split_chunks`: `chunk_size = n / 4`; the
`split_at_mut` calls at `2 * chunk_size`, `chunk_size` (three times) are within the slices they
split (`4 * (n / 4) ≤ n`), checked here as `usub`s of the lengths that remain. -/
def decode1 (n : Nat) : Rd (List Nat) := do
  let Fs ← readFrequencies1
  let Cs ← Rd.lift (mapRows (buildCum add16) Fs)
  let Ts ← Rd.lift (mapRows buildTable Cs)
  let states ← readStates
  let q := n / 4
  -- split_chunks
  let q2 ← Rd.lift (umul 2 q)                 -- `2 * chunk_size`
  let right ← Rd.lift (usub n q2)             -- `dst.split_at_mut(2 * chunk_size)`
  let _ ← Rd.lift (usub q2 q)                 -- `left_chunk.split_at_mut(chunk_size)`
  let c34 ← Rd.lift (usub right q)            -- `right_chunk.split_at_mut(chunk_size)`
  let last ← Rd.lift (usub c34 q)             -- `chunk_3_4.split_at_mut(chunk_size)`
  let (states, prevs, outs) ←
    forN (fun _ st => forN (lane1 Fs Cs Ts) 4 0 st) q 0 (states, [0, 0, 0, 0], [[], [], [], []])
  let s3 ← Rd.lift (idxN states 3)
  let p3 ← Rd.lift (idxN prevs 3)
  let (_, _, tl) ← forN (tail1 Fs Cs Ts) last 0 (s3, p3, [])
  return (outs.map List.reverse).flatten ++ tl.reverse

/-! ## `decode` -/

/-- `rans_4x8::decode`: header, `alloc_zeroed(uncompressed_size)`, empty output for size 0,
otherwise the order-0 or order-1 decoder on what follows the header -/
def decode (alloc : Nat → Bool) : Rd Bytes := do
  let order ← readOrder
  let _ ← readSize
  let n ← readSize
  let _ ← Rd.lift (allocZeroed alloc n)
  if n = 0 then
    return []
  else if order = 0 then
    let out ← decode0 n
    return toBytes out
  else
    let out ← decode1 n
    return toBytes out

/-- the decoder as a function of the byte string -/
def decodeBytes (alloc : Nat → Bool) (src : Bytes) : Res Bytes := onBuf (decode alloc) src

end Noodles.Hostile.R4x8
