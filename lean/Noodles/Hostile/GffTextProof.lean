import Noodles.Hostile.GffText
import Noodles.Hostile.TextKitProof
/-! Helper lemmas for `Noodles/Props/C15Text.lean`: GFF3 / GTF lines (`GffText.lean`). -/
namespace Noodles.Hostile.GffText
open Noodles.Hostile Noodles.Hostile.Text Res

theorem readField_sat (src : Bytes) (hl : src.length < 2 ^ 63) :
    Sat (readField src) (fun r => r.1 + r.2.2.length = src.length ∧ (r.2.1 = false → 1 ≤ r.1)) := by
  unfold readField
  split
  · rename_i i hi
    have hlt := findIdx_lt hi
    rw [uadd_ok (by simp only [USIZE]; omega)]
    simp only [bind_ok]
    rw [sliceFrom_ok (by omega)]
    simp only [bind_ok, Sat, List.length_drop]
    exact ⟨by omega, fun _ => by omega⟩
  · simp only [bind_ok]
    rw [sliceFrom_ok (Nat.le_refl _)]
    simp only [bind_ok, Sat, List.length_drop]
    exact ⟨by omega, fun h => by cases h⟩

/-- the ends `Bounds::index` records: strictly increasing, each at least 1 (it counts the TAB) and
inside the line -/
structure GEnds (ends : List Nat) (bound : Nat) : Prop where
  sorted : ends.Pairwise (· < ·)
  pos : ∀ e ∈ ends, 1 ≤ e
  le : ∀ e ∈ ends, e ≤ bound

theorem indexFrom_sat (L : Nat) (hL : L < 2 ^ 63) :
    ∀ (k : Nat) (src : Bytes) (len : Nat) (ends : List Nat),
      len + src.length = L → GEnds ends len →
      Sat (indexFrom k src len ends) (fun r => GEnds r L ∧ r.length = ends.length + k)
  | 0, src, len, ends, hlen, he => by
    simp only [indexFrom, Sat]
    exact ⟨⟨he.sorted, he.pos, fun e h => by have := he.le e h; omega⟩, by omega⟩
  | k + 1, src, len, ends, hlen, he => by
    unfold indexFrom
    refine Sat.bind (readField_sat src (by omega)) ?_
    rintro ⟨n, eol, rest⟩ ⟨h1, h2⟩
    replace h1 : n + rest.length = src.length := h1
    replace h2 : eol = false → 1 ≤ n := h2
    show Sat (if eol = true then err Err.eof else _) _
    split
    · trivial
    · rename_i hne
      have hn := h2 (by simpa using hne)
      rw [uadd_ok (by simp only [USIZE]; omega)]
      simp only [bind_ok]
      have he' : GEnds (ends ++ [len + n]) (len + n) := by
        refine ⟨?_, ?_, ?_⟩
        · rw [List.pairwise_append]
          refine ⟨he.sorted, List.pairwise_singleton _ _, ?_⟩
          intro a ha b hb
          simp only [List.mem_singleton] at hb
          have := he.le a ha
          omega
        · intro e h
          rcases List.mem_append.mp h with h | h
          · exact he.pos e h
          · simp only [List.mem_singleton] at h; omega
        · intro e h
          rcases List.mem_append.mp h with h | h
          · have := he.le e h; omega
          · simp only [List.mem_singleton] at h; omega
      have := indexFrom_sat L hL k rest (len + n) (ends ++ [len + n]) (by omega) he'
      cases hr : indexFrom k rest (len + n) (ends ++ [len + n]) with
      | panic => rw [hr] at this; exact this
      | err e => trivial
      | ok r =>
        rw [hr] at this
        refine ⟨this.1, ?_⟩
        have := this.2
        simp only [List.length_append, List.length_singleton] at this
        omega

theorem index_sat (line : Bytes) (hl : line.length < 2 ^ 63) :
    Sat (index line) (fun ends => GEnds ends line.length ∧ ends.length = 8) := by
  have := indexFrom_sat line.length hl 8 line 0 [] (by omega) ⟨List.Pairwise.nil, by simp, by simp⟩
  unfold index
  cases hr : indexFrom 8 line 0 [] with
  | panic => rw [hr] at this; exact this
  | err e => trivial
  | ok r => rw [hr] at this; exact ⟨this.1, by simpa using this.2⟩

theorem field_ne_panic {src : Bytes} {ends : List Nat} (h : GEnds ends src.length) {k : Nat}
    (hk : k < ends.length) : field src ends k ≠ .panic := by
  unfold field sansDelimiter
  have hk' : ends.getD k 0 = ends[k] := by simp [List.getD, List.getElem?_eq_getElem hk]
  rw [hk']
  have hmem : ends[k] ∈ ends := List.getElem_mem hk
  have hp := h.pos _ hmem
  have hle := h.le _ hmem
  rw [usub_ok hp]
  simp only [bind_ok]
  rw [slice_ne_panic_iff]
  refine ⟨?_, by omega⟩
  unfold fieldStart
  split
  · omega
  · have hk1 : k - 1 < ends.length := by omega
    have : ends.getD (k - 1) 0 = ends[k - 1] := by simp [List.getD, List.getElem?_eq_getElem hk1]
    rw [this]
    have := (List.pairwise_iff_getElem.mp h.sorted) (k - 1) k hk1 hk (by omega)
    omega

theorem attributes_ne_panic {src : Bytes} {ends : List Nat} (h : GEnds ends src.length)
    (hn : ends.length = 8) : attributes src ends ≠ .panic := by
  unfold attributes
  rw [sliceFrom_ne_panic_iff]
  have hk : 7 < ends.length := by omega
  have : ends.getD 7 0 = ends[7] := by simp [List.getD, List.getElem?_eq_getElem hk]
  rw [this]
  exact h.le _ (List.getElem_mem hk)

theorem fieldsFrom_ne_panic {src : Bytes} {ends : List Nat} (h : GEnds ends src.length) :
    ∀ (m k : Nat), k + m ≤ ends.length → fieldsFrom src ends m k ≠ .panic
  | 0, _, _ => by simp [fieldsFrom]
  | m + 1, k, hk => by
    unfold fieldsFrom
    refine bind_ne_panic (field_ne_panic h (by omega)) fun _ _ => ?_
    refine bind_ne_panic (fieldsFrom_ne_panic h m (k + 1) (by omega)) fun _ _ => ?_
    simp

theorem recordAndTouch_ne_panic (line : Bytes) (hl : line.length < 2 ^ 63) :
    recordAndTouch line ≠ .panic := by
  unfold recordAndTouch
  have hs := index_sat line hl
  refine bind_ne_panic hs.ne_panic ?_
  intro ends he
  obtain ⟨h1, h2⟩ := hs.of_ok he
  refine bind_ne_panic (fieldsFrom_ne_panic h1 8 0 (by omega)) fun _ _ => ?_
  refine bind_ne_panic (attributes_ne_panic h1 h2) fun _ _ => ?_
  simp

theorem kind_directive_len {line : Bytes} (h : kind line = .directive) : 2 ≤ line.length := by
  unfold kind at h
  split at h
  · simp
  · cases h
  · cases h

theorem kind_comment_len {line : Bytes} (h : kind line = .comment) : 1 ≤ line.length := by
  unfold kind at h
  split at h
  · cases h
  · simp
  · cases h

theorem directive_ne_panic {line : Bytes} (h2 : 2 ≤ line.length) (hl : line.length < 2 ^ 63) :
    directive line ≠ .panic := by
  unfold directive
  rw [sliceFrom_ok h2]
  simp only [bind_ok]
  have hmid : (findIdx isAsciiWhitespace (List.drop 2 line)).getD (List.drop 2 line).length
      ≤ (List.drop 2 line).length := by
    cases h : findIdx isAsciiWhitespace (List.drop 2 line) with
    | none => simp
    | some i => simpa using Nat.le_of_lt (findIdx_lt h)
  rw [sliceTo_ok hmid]
  simp only [bind_ok]
  rw [uadd_ok (by simp only [USIZE, List.length_drop] at hmid ⊢; omega)]
  simp

theorem touchGff_ne_panic (line : Bytes) (hl : line.length < 2 ^ 63) : touchGff line ≠ .panic := by
  unfold touchGff
  split
  · rename_i hk
    refine bind_ne_panic (directive_ne_panic (kind_directive_len hk) hl) ?_
    rintro ⟨k, v⟩ _
    simp
  · rename_i hk
    unfold comment
    rw [sliceFrom_ok (kind_comment_len hk)]
    simp
  · have := recordAndTouch_ne_panic line hl
    split
    · rename_i h; exact absurd h this
    · simp

theorem touchGtf_ne_panic (line : Bytes) (hl : line.length < 2 ^ 63) : touchGtf line ≠ .panic := by
  unfold touchGtf
  split
  · unfold comment
    rw [sliceFrom_ok (by simp)]
    simp
  · have := recordAndTouch_ne_panic line hl
    split
    · rename_i h; exact absurd h this
    · simp

end Noodles.Hostile.GffText
