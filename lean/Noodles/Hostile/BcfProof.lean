import Noodles.Hostile.Proof
import Noodles.Hostile.BcfSite
/-! Helper lemmas for the BCF part of `Noodles/Props/C15.lean`. -/
namespace Noodles.Hostile.Bcf
open Noodles.Hostile Res

theorem kindSize_le (k : Kind) : kindSize k ≤ 4 := by cases k <;> simp [kindSize]
theorem kindSize_pos (k : Kind) : 1 ≤ kindSize k := by cases k <;> simp [kindSize]

theorem splitTo_sat (src : Bytes) (n : Nat) :
    Sat (splitTo src n) (fun p => p.1.length = n ∧ p.2.length + n = src.length) := by
  unfold splitTo
  split
  · trivial
  · simp only [Sat, List.length_take, List.length_drop]; omega

/-- `readLen`: a length below 2^31 and a strict suffix -/
theorem readLen_sat (src : Bytes) :
    Sat (readLen src) (fun p => p.1 < 2^31 ∧ p.2.length < src.length) := by
  unfold readLen
  split
  · trivial
  · rename_i d r
    dsimp only
    split
    · trivial
    · trivial
    · rename_i k _
      split
      · trivial
      · have hs := splitTo_sat r (kindSize k * (d.toNat >>> 4))
        revert hs
        cases splitTo r (kindSize k * (d.toNat >>> 4)) with
        | panic => intro hs; exact hs
        | err e => intro _; trivial
        | ok p =>
          intro hs
          obtain ⟨v, rest⟩ := p
          dsimp only
          split
          · rename_i hc
            simp only [Sat] at hs ⊢
            obtain ⟨_, _, hv⟩ := hc
            have hk := kindSize_le k
            have : 2 ^ (8 * kindSize k - 1) ≤ 2 ^ 31 := Nat.pow_le_pow_right (by omega) (by omega)
            simp only [List.length_cons]
            omega
          · trivial

/-- `readType`: never a panic; the rest is a strict suffix; any element count is below 2^31 -/
theorem readType_sat (src : Bytes) :
    Sat (readType src) (fun p => p.2.length < src.length ∧ ∀ k n, p.1 = some (k, n) → n < 2^31) := by
  unfold readType
  split
  · trivial
  · rename_i enc r
    dsimp only
    have hcont : ∀ (len : Nat) (rest : Bytes), len < 2^31 → rest.length ≤ r.length →
        Sat (match kindOf (enc.toNat &&& 0x0f) with
          | none => (Res.err Err.invalidData : Res (Ty × Bytes))
          | some none => .ok (none, rest)
          | some (some k) => .ok (some (k, len), rest))
          (fun p => p.2.length < (enc :: r).length ∧ ∀ k n, p.1 = some (k, n) → n < 2^31) := by
      intro len rest hl hr
      split
      · trivial
      · simp only [Sat, List.length_cons]; refine ⟨by omega, ?_⟩; intro k n h; cases h
      · simp only [Sat, List.length_cons]; refine ⟨by omega, ?_⟩
        intro k n h; cases h; exact hl
    split
    · split
      · rename_i d r'
        split
        · trivial
        · have hs := readLen_sat (d :: r')
          revert hs
          cases readLen (d :: r') with
          | panic => intro hs; exact hs
          | err e => intro _; trivial
          | ok p =>
            intro hs
            obtain ⟨len, rest⟩ := p
            simp only [Sat] at hs
            exact hcont len rest hs.1 (by omega)
      · trivial
    · rename_i hne
      refine hcont _ r ?_ (Nat.le_refl _)
      have : enc.toNat < 256 := enc.toNat_lt
      have : enc.toNat >>> 4 < 16 := by
        rw [Nat.shiftRight_eq_div_pow]; omega
      omega

/-- the position invariant of `consume_string`: `offset + |buf| = L` is kept, the field lies
inside the site buffer -/
theorem consumeString_sat (buf : Bytes) (offset L : Nat) (hL : L < 2^63) (hinv : offset + buf.length = L) :
    Sat (consumeString true buf offset)
      (fun p => offset ≤ p.1 ∧ p.1 ≤ p.2.1 ∧ p.2.1 + p.2.2.length = L) := by
  unfold consumeString
  refine Sat.bind (readType_sat buf) ?_
  rintro ⟨ty, rest⟩ ⟨hlt, hn⟩
  dsimp only at hlt hn ⊢
  split
  · rename_i len
    have hlen := hn _ _ rfl
    rw [usub_ok (by omega)]
    simp only [bind_ok]
    rw [uadd_ok (by simp only [USIZE]; omega)]
    simp only [bind_ok]
    rw [uadd_ok (by simp only [USIZE]; omega)]
    simp only [bind_ok, if_true]
    split
    · simp only [bind_ok, pure_eq, Sat, List.length_drop]; omega
    · trivial
  · trivial

theorem consumeIntegers_sat (buf : Bytes) (offset L : Nat) (hL : L < 2^63) (hinv : offset + buf.length = L) :
    Sat (consumeIntegers true buf offset) (fun p => offset ≤ p.1 ∧ p.1 + p.2.length = L) := by
  unfold consumeIntegers
  refine Sat.bind (readType_sat buf) ?_
  rintro ⟨ty, rest⟩ ⟨hlt, hn⟩
  dsimp only at hlt hn ⊢
  have key : ∀ len : Nat, len < 2^33 →
      Sat (do
        let consumed ← usub buf.length rest.length
        let start ← uadd offset consumed
        let end_ ← uadd start len
        let rest' ← if true = true then
            (if len ≤ rest.length then Res.ok (rest.drop len) else .err .eof)
          else sliceFrom rest len
        pure (end_, rest')) (fun p => offset ≤ p.1 ∧ p.1 + p.2.length = L) := by
    intro len hlen
    rw [usub_ok (by omega)]
    simp only [bind_ok]
    rw [uadd_ok (by simp only [USIZE]; omega)]
    simp only [bind_ok]
    rw [uadd_ok (by simp only [USIZE]; omega)]
    simp only [bind_ok, if_true]
    split
    · simp only [bind_ok, pure_eq, Sat, List.length_drop]; omega
    · trivial
  split
  · simp only [bind_ok]; exact key 0 (by omega)
  · rename_i n
    have := hn _ _ rfl
    rw [umul_ok (by simp only [USIZE]; omega)]; simp only [bind_ok]; exact key _ (by omega)
  · rename_i n
    have := hn _ _ rfl
    rw [umul_ok (by simp only [USIZE]; omega)]; simp only [bind_ok]; exact key _ (by omega)
  · rename_i n
    have := hn _ _ rfl
    rw [umul_ok (by simp only [USIZE]; omega)]; simp only [bind_ok]; exact key _ (by omega)
  · trivial

theorem consumeAlts_sat (L : Nat) (hL : L < 2^63) :
    ∀ (n : Nat) (buf : Bytes) (i : Nat), i + buf.length = L →
      Sat (consumeAlts true n buf i) (fun p => i ≤ p.1 ∧ p.1 + p.2.length = L)
  | 0, buf, i, h => by simp only [consumeAlts, Sat]; omega
  | n+1, buf, i, h => by
    unfold consumeAlts
    refine Sat.bind (consumeString_sat buf i L hL h) ?_
    rintro ⟨s, e, rest⟩ ⟨h1, h2, h3⟩
    dsimp only at h1 h2 h3 ⊢
    have := consumeAlts_sat L hL n rest e h3
    revert this
    cases consumeAlts true n rest e with
    | panic => intro h; exact h
    | err e => intro _; trivial
    | ok p => intro hp; simp only [Sat] at hp ⊢; omega

/-- `index` (fixed code): no panic, and the stored bounds are nested inside the site buffer -/
theorem index_sat (site : Bytes) (hL : site.length < 2^63) :
    Sat (index site) (fun b => b.idsStart ≤ b.idsEnd ∧ b.idsEnd ≤ site.length ∧
      b.refStart ≤ b.refEnd ∧ b.refEnd ≤ b.altEnd ∧ b.altEnd ≤ b.filtersEnd ∧
      b.filtersEnd ≤ site.length) := by
  unfold index indexWith
  split
  · trivial
  · rename_i h24
    simp only [IDS_START_INDEX] at h24 ⊢
    rw [slice_ok (by omega)]
    simp only [bind_ok]
    rw [sliceFrom_ok (by omega)]
    simp only [bind_ok]
    refine Sat.bind (consumeString_sat _ 24 site.length hL (by simp only [List.length_drop]; omega)) ?_
    rintro ⟨s0, e0, buf0⟩ ⟨a1, a2, a3⟩
    dsimp only at a1 a2 a3 ⊢
    have hids : Sat (checkIds true site s0 e0) (fun _ => True) := by
      unfold checkIds
      simp only [if_true]
      rw [slice_ok (by omega)]
      simp only [bind_ok]
      split <;> trivial
    refine Sat.bind hids ?_
    intro _ _
    refine Sat.bind (consumeString_sat buf0 e0 site.length hL a3) ?_
    rintro ⟨s1, e1, buf1⟩ ⟨b1, b2, b3⟩
    dsimp only at b1 b2 b3 ⊢
    have halt : Sat (altCountOf true (leVal ((site.drop 18).take (20 - 18)))) (fun _ => True) := by
      unfold altCountOf; simp only [if_true]; split <;> trivial
    refine Sat.bind halt ?_
    intro altCount _
    refine Sat.bind (consumeAlts_sat site.length hL altCount buf1 e1 b3) ?_
    rintro ⟨i, buf2⟩ ⟨c1, c2⟩
    dsimp only at c1 c2 ⊢
    refine Sat.bind (consumeIntegers_sat buf2 i site.length hL c2) ?_
    rintro ⟨fe, buf3⟩ ⟨d1, d2⟩
    dsimp only at d1 d2 ⊢
    simp only [pure_eq, Sat]
    omega

theorem fieldSlices_ne_panic {site : Bytes} {b : Bounds}
    (h : b.idsStart ≤ b.idsEnd ∧ b.idsEnd ≤ site.length ∧
      b.refStart ≤ b.refEnd ∧ b.refEnd ≤ b.altEnd ∧ b.altEnd ≤ b.filtersEnd ∧
      b.filtersEnd ≤ site.length) : fieldSlices site b ≠ .panic := by
  unfold fieldSlices
  rw [slice_ok (by omega)]; simp only [bind_ok]
  rw [slice_ok (by omega)]; simp only [bind_ok]
  rw [slice_ok (by omega)]; simp only [bind_ok]
  rw [slice_ok (by omega)]; simp

end Noodles.Hostile.Bcf
