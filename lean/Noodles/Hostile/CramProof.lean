import Noodles.Hostile.StreamProof
import Noodles.Hostile.Proof
import Noodles.Hostile.FramingProof
import Noodles.Hostile.CramFraming
/-!
# CRAM framing never panics and stays inside its input

Helper lemmas for `Noodles/Props/C15Bin.lean`.
-/
namespace Noodles.Hostile.Num
open Noodles.Hostile

theorem readBE_ok {n : Nat} {s r : Bytes} {v : Nat} (h : readBE n s = .ok (v, r)) : r = s.drop n := by
  unfold readBE at h
  split at h
  · cases h
  · cases h; rfl

theorem asI32_range (n : Nat) : -(2^31 : Int) ≤ asI32 n ∧ asI32 n < 2^31 := by
  unfold asI32
  have : n % 2^32 < 2^32 := Nat.mod_lt _ (by decide)
  split <;> omega

theorem asI64_range (n : Nat) : -(2^63 : Int) ≤ asI64 n ∧ asI64 n < 2^63 := by
  unfold asI64
  have : n % 2^64 < 2^64 := Nat.mod_lt _ (by decide)
  split <;> omega

/-- what `read_itf8` leaves is a suffix of its input, and its value is an `i32` -/
theorem readItf8_ok {s r : Bytes} {v : Int} (h : readItf8 s = .ok (v, r)) :
    r <:+ s ∧ -(2^31 : Int) ≤ v ∧ v < 2^31 := by
  unfold readItf8 at h
  cases h0 : readBE 1 s with
  | ok p =>
    obtain ⟨b0, r0⟩ := p
    rw [h0] at h
    have hr0 := readBE_ok h0
    simp only [Res.bind_ok] at h
    have hsuf0 : r0 <:+ s := hr0 ▸ List.drop_suffix _ _
    repeat' split at h
    all_goals first
      | (simp only [Res.pure_eq, Res.ok.injEq, Prod.mk.injEq] at h
         obtain ⟨hv, hr⟩ := h
         subst hv; subst hr
         exact ⟨hsuf0, asI32_range _⟩)
      | (rename_i k
         cases h1 : readBE _ r0 with
         | ok q =>
           obtain ⟨b1, r1⟩ := q
           rw [h1] at h
           simp only [Res.bind_ok, Res.pure_eq, Res.ok.injEq, Prod.mk.injEq] at h
           obtain ⟨hv, hr⟩ := h
           subst hv; subst hr
           have hr1 := readBE_ok h1
           exact ⟨(hr1 ▸ List.drop_suffix _ _ : r1 <:+ r0).trans hsuf0, asI32_range _⟩
         | err e => rw [h1] at h; simp at h
         | panic => rw [h1] at h; simp at h)
  | err e => rw [h0] at h; simp at h
  | panic => rw [h0] at h; simp at h

/-- what `read_ltf8` leaves is a suffix of its input, and its value is an `i64` -/
theorem readLtf8_ok {s r : Bytes} {v : Int} (h : readLtf8 s = .ok (v, r)) :
    r <:+ s ∧ -(2^63 : Int) ≤ v ∧ v < 2^63 := by
  unfold readLtf8 at h
  cases h0 : readBE 1 s with
  | ok p =>
    obtain ⟨b0, r0⟩ := p
    rw [h0] at h
    have hr0 := readBE_ok h0
    simp only [Res.bind_ok] at h
    have hsuf0 : r0 <:+ s := hr0 ▸ List.drop_suffix _ _
    repeat' split at h
    all_goals first
      | (simp only [Res.pure_eq, Res.ok.injEq, Prod.mk.injEq] at h
         obtain ⟨hv, hr⟩ := h
         subst hv; subst hr
         exact ⟨hsuf0, asI64_range _⟩)
      | (cases h1 : readBE _ r0 with
         | ok q =>
           obtain ⟨b1, r1⟩ := q
           rw [h1] at h
           simp only [Res.bind_ok, Res.pure_eq, Res.ok.injEq, Prod.mk.injEq] at h
           obtain ⟨hv, hr⟩ := h
           subst hv; subst hr
           have hr1 := readBE_ok h1
           exact ⟨(hr1 ▸ List.drop_suffix _ _ : r1 <:+ r0).trans hsuf0, asI64_range _⟩
         | err e => rw [h1] at h; simp at h
         | panic => rw [h1] at h; simp at h)
  | err e => rw [h0] at h; simp at h
  | panic => rw [h0] at h; simp at h

end Noodles.Hostile.Num

namespace Noodles.Hostile.Cram
open Noodles.Hostile Rd

theorem safe_itf8 : Safe itf8 where
  ne_panic s := Num.readItf8_ne_panic s
  suffix h := (Num.readItf8_ok h).1

theorem safe_ltf8 : Safe ltf8 where
  ne_panic s := Num.readLtf8_ne_panic s
  suffix h := (Num.readLtf8_ok h).1

theorem post_itf8 : Post itf8 fun v => -(2^31 : Int) ≤ v ∧ v < 2^31 :=
  fun _ _ _ h => (Num.readItf8_ok h).2

theorem safe_itf8Nat : Safe itf8Nat := by unfold itf8Nat; safe_auto; exact safe_itf8
theorem safe_ltf8Nat : Safe ltf8Nat := by unfold ltf8Nat; safe_auto; exact safe_ltf8

theorem post_itf8Nat : Post itf8Nat fun n => n < 2^31 := by
  unfold itf8Nat
  refine post_bind post_itf8 fun v hv => ?_
  unfold natOfInt
  refine post_ite (fun h0 => ?_) (fun _ => post_fail)
  exact post_pure (a := v.toNat) (by omega)

/-! ### file definition -/

theorem safe_readFileDefinition : Safe readFileDefinition := by
  unfold readFileDefinition
  refine safe_bind (safe_readMagic _) fun _ => ?_
  refine safe_bind_of (safe_readExact 2) fun s v r hv => ?_
  have hl := (readExact_ok hv).1
  refine safe_bind (safe_lift ((index_ne_panic_iff v 0).mpr (by omega))) fun _ => ?_
  refine safe_bind (safe_lift ((index_ne_panic_iff v 1).mpr (by omega))) fun _ => ?_
  safe_auto

/-! ### reference sequence context -/

/-- a context is well formed when its accessor `alignment_span` cannot overflow -/
def RefCtx.WF : RefCtx → Prop
  | .some _ start end_ => start ≤ end_ ∧ end_ - start + 1 < USIZE
  | _ => True

theorem refCtxOf_ne_panic (id start span : Int) : refCtxOf id start span ≠ .panic := by
  unfold refCtxOf
  repeat' split
  all_goals first
    | (simp; done)
    | (rename_i h1 h2 h3 h4 h5
       have : 1 ≤ span.toNat := by omega
       rw [usub_ok this]
       simp only [Res.bind_ok]
       split <;> simp)

theorem refCtxOf_wf {id start span : Int} {c : RefCtx} (h : refCtxOf id start span = .ok c) :
    RefCtx.WF c := by
  unfold refCtxOf at h
  repeat' split at h
  all_goals first
    | (cases h; trivial)
    | (cases h; done)
    | (rename_i h1 h2 h3 h4 h5
       have : 1 ≤ span.toNat := by omega
       rw [usub_ok this] at h
       simp only [Res.bind_ok] at h
       split at h
       · rename_i hlt
         simp only [Res.pure_eq, Res.ok.injEq] at h
         subst h
         have : 1 ≤ start.toNat := by omega
         exact ⟨by omega, by omega⟩
       · cases h)

theorem alignmentSpan_ne_panic {c : RefCtx} (h : RefCtx.WF c) : alignmentSpan c ≠ .panic := by
  cases c with
  | some id st en =>
    obtain ⟨h1, h2⟩ := h
    show (usub en st >>= fun d => uadd d 1) ≠ .panic
    rw [usub_ok h1]
    simp only [Res.bind_ok]
    rw [uadd_ok h2]; simp
  | none => simp [alignmentSpan]
  | many => simp [alignmentSpan]

/-! ### data container header -/

theorem safe_readLandmarks : Safe readLandmarks := by
  unfold readLandmarks; safe_auto <;> exact safe_itf8Nat

theorem post_readLandmarks : Post readLandmarks fun l => l.length < 2^31 := by
  unfold readLandmarks
  refine post_bind post_itf8Nat fun n hn => ?_
  exact post_mono (post_many n) fun l hl => by omega

/-- what a container header that was accepted satisfies -/
def ContainerHeader.WF (h : ContainerHeader) : Prop := RefCtx.WF h.ctx ∧ h.landmarks.length < 2^31

theorem safe_readContainerFields : Safe readContainerFields := by
  unfold readContainerFields
  safe_auto
  all_goals first
    | exact safe_itf8 | exact safe_itf8Nat | exact safe_ltf8Nat | exact safe_readLandmarks
    | exact safe_lift (refCtxOf_ne_panic _ _ _)

theorem post_readContainerFields : Post readContainerFields fun p => p.2.2.2.WF := by
  unfold readContainerFields
  refine post_bind_right fun len => post_bind_right fun rid => post_bind_right fun st =>
    post_bind_right fun sp => ?_
  refine post_bind (post_lift (P := RefCtx.WF) fun c hc => refCtxOf_wf hc) fun ctx hctx => ?_
  refine post_bind_right fun _ => post_bind_right fun _ => post_bind_right fun _ =>
    post_bind_right fun _ => ?_
  refine post_bind post_readLandmarks fun lm hlm => post_pure ⟨hctx, hlm⟩

theorem safe_readContainerHeaderFrom (crc : Bytes → Nat) (orig : Bytes) :
    Safe (readContainerHeaderFrom crc orig) := by
  unfold readContainerHeaderFrom
  refine safe_bind safe_readContainerFields fun p => ?_
  obtain ⟨len, rid, start, h⟩ := p
  dsimp only
  safe_auto

theorem safe_readContainerHeader (crc : Bytes → Nat) : Safe (readContainerHeader crc) :=
  ⟨fun s => (safe_readContainerHeaderFrom crc s).ne_panic s,
   fun {s _ _} e => (safe_readContainerHeaderFrom crc s).suffix e⟩

theorem post_readContainerHeaderFrom (crc : Bytes → Nat) (orig : Bytes) :
    Post (readContainerHeaderFrom crc orig) fun p => p.2.WF := by
  unfold readContainerHeaderFrom
  refine post_bind post_readContainerFields fun p hp => ?_
  obtain ⟨len, rid, start, h⟩ := p
  dsimp only
  refine post_bind_right fun _ => post_bind_right fun _ => ?_
  refine post_ite (fun _ => post_fail) fun _ => ?_
  exact post_ite (fun _ => post_pure hp) (fun _ => post_pure hp)

theorem post_readContainerHeader (crc : Bytes → Nat) :
    Post (readContainerHeader crc) fun p => p.2.WF :=
  fun s a r e => post_readContainerHeaderFrom crc s s a r e

def ContainerOK : Option (ContainerHeader × Bytes) → Prop
  | none => True
  | some (h, _) => h.WF

theorem safe_readContainer (crc : Bytes → Nat) : Safe (readContainer crc) := by
  unfold readContainer
  refine safe_bind (safe_readContainerHeader crc) fun p => ?_
  obtain ⟨len, h⟩ := p
  dsimp only
  safe_auto

theorem post_readContainer (crc : Bytes → Nat) : Post (readContainer crc) ContainerOK := by
  unfold readContainer
  refine post_bind (post_readContainerHeader crc) fun p hp => ?_
  obtain ⟨len, h⟩ := p
  dsimp only
  refine post_ite (fun _ => post_pure trivial) fun _ => ?_
  exact post_bind_right fun src => post_pure hp

/-! ### blocks -/

theorem safe_readMethod : Safe readMethod := by unfold readMethod; safe_auto
theorem safe_readContentType : Safe readContentType := by unfold readContentType; safe_auto

theorem safe_readBlockHead : Safe readBlockHead := by
  unfold readBlockHead; safe_auto
  all_goals first
    | exact safe_readMethod | exact safe_readContentType | exact safe_itf8 | exact safe_itf8Nat

/-- the block's bytes (`src.split_off(..compressed_size)`) are a contiguous piece of the slice the
head of `read_block` was given -/
theorem readBlockHead_src_infix {s r : Bytes} {b : Block} (h : readBlockHead s = .ok (b, r)) :
    b.src <:+: s := by
  unfold readBlockHead at h
  obtain ⟨m, r1, h1, h⟩ := bind_ok_inv h
  obtain ⟨ct, r2, h2, h⟩ := bind_ok_inv h
  obtain ⟨cid, r3, h3, h⟩ := bind_ok_inv h
  obtain ⟨cs, r4, h4, h⟩ := bind_ok_inv h
  obtain ⟨us, r5, h5, h⟩ := bind_ok_inv h
  obtain ⟨data, r6, h6, h⟩ := bind_ok_inv h
  simp only [pure_apply, Res.ok.injEq, Prod.mk.injEq] at h
  have hb : b.src = data := by rw [← h.1]
  have hsuf : r5 <:+ s :=
    (safe_itf8Nat.suffix h5).trans ((safe_itf8Nat.suffix h4).trans ((safe_itf8.suffix h3).trans
      ((safe_readContentType.suffix h2).trans (safe_readMethod.suffix h1))))
  have hpre : data <+: r5 := by rw [(readExact_ok h6).2.1]; exact List.take_prefix _ _
  rw [hb]
  exact hpre.isInfix.trans hsuf.isInfix

/-- `original_src.len() - src.len()` and `&original_src[..end]` are in range because `src` is what
the head of `read_block` left of `original_src` -/
theorem safe_readBlockTail (crc : Bytes → Nat) (orig : Bytes) (b : Block) {r : Bytes}
    (hr : r.length ≤ orig.length) :
    readBlockTail crc orig b r ≠ .panic ∧ ∀ b' r', readBlockTail crc orig b r = .ok (b', r') → r' <:+ r := by
  have hu : usub orig.length r.length = .ok (orig.length - r.length) := usub_ok hr
  have hs : sliceTo orig (orig.length - r.length) = .ok (orig.take (orig.length - r.length)) :=
    sliceTo_ok (by omega)
  have hsafe : Safe (do
      let expected ← readU32
      if crc (orig.take (orig.length - r.length)) ≠ expected then Rd.fail .invalidData else
      return (if b.uncompressedSize = 0 then { b with method := 0 } else b) : Rd Block) := by
    safe_auto
  have heq : readBlockTail crc orig b r = (do
      let expected ← readU32
      if crc (orig.take (orig.length - r.length)) ≠ expected then Rd.fail .invalidData else
      return (if b.uncompressedSize = 0 then { b with method := 0 } else b) : Rd Block) r := by
    unfold readBlockTail
    simp only [bind_apply, Rd.rest, Rd.lift, hu, hs]
  rw [heq]
  exact ⟨hsafe.ne_panic r, fun b' r' e => hsafe.suffix e⟩

theorem safe_readBlock (crc : Bytes → Nat) : Safe (readBlock crc) where
  ne_panic s := by
    unfold readBlock
    rw [bind_apply]
    cases h : readBlockHead s with
    | ok p =>
      obtain ⟨b, r⟩ := p
      exact (safe_readBlockTail crc s b (safe_readBlockHead.length_le h)).1
    | err e => simp
    | panic => exact absurd h (safe_readBlockHead.ne_panic s)
  suffix := by
    intro s b' r' e
    unfold readBlock at e
    obtain ⟨b, r, h1, h2⟩ := bind_ok_inv e
    exact ((safe_readBlockTail crc s b (safe_readBlockHead.length_le h1)).2 b' r' h2).trans
      (safe_readBlockHead.suffix h1)

theorem readBlockTail_src {crc : Bytes → Nat} {orig r r' : Bytes} {b b' : Block}
    (hr : r.length ≤ orig.length) (h : readBlockTail crc orig b r = .ok (b', r')) : b'.src = b.src := by
  have hu : usub orig.length r.length = .ok (orig.length - r.length) := usub_ok hr
  have hs : sliceTo orig (orig.length - r.length) = .ok (orig.take (orig.length - r.length)) :=
    sliceTo_ok (by omega)
  unfold readBlockTail at h
  simp only [bind_apply, Rd.rest, Rd.lift, hu, hs] at h
  cases hx : readU32 r with
  | ok p =>
    obtain ⟨e, r2⟩ := p
    rw [hx] at h
    simp only at h
    split at h
    · simp [Rd.fail] at h
    · simp only [pure_apply, Res.ok.injEq, Prod.mk.injEq] at h
      rw [← h.1]; split <;> rfl
  | err e => rw [hx] at h; cases h
  | panic => rw [hx] at h; cases h

theorem readBlock_src_infix {crc : Bytes → Nat} {s r : Bytes} {b : Block}
    (h : readBlock crc s = .ok (b, r)) : b.src <:+: s := by
  unfold readBlock at h
  obtain ⟨b0, r0, h1, h2⟩ := bind_ok_inv h
  rw [readBlockTail_src (safe_readBlockHead.length_le h1) h2]
  exact readBlockHead_src_infix h1

theorem safe_readBlockAs (crc : Bytes → Nat) (ty : Nat) : Safe (readBlockAs crc ty) := by
  unfold readBlockAs; safe_auto; exact safe_readBlock crc

/-- the hypothesis on the codec parameter: a codec answers bytes or an error -/
def CodecTotal (D : Codec) : Prop := ∀ m src n, D m src n ≠ .panic

theorem decodeBlock_ne_panic {D : Codec} (hD : CodecTotal D) (b : Block) : decodeBlock D b ≠ .panic := by
  unfold decodeBlock; split
  · simp
  · exact hD _ _ _

/-! ### slice header -/

theorem safe_readMd5 : Safe readMd5 := by unfold readMd5; safe_auto

theorem safe_readTags : Safe readTags where
  ne_panic s := by simp [readTags, splitAt]
  suffix := by
    intro s a r e
    simp only [readTags, splitAt, Nat.le_refl, if_true, Res.ok.injEq, Prod.mk.injEq] at e
    rw [← e.2]; exact List.drop_suffix _ _

theorem safe_readSliceHeaderInner : Safe readSliceHeaderInner := by
  unfold readSliceHeaderInner
  safe_auto
  all_goals first
    | exact safe_itf8 | exact safe_itf8Nat | exact safe_ltf8Nat | exact safe_readMd5 | exact safe_readTags
    | exact safe_lift (refCtxOf_ne_panic _ _ _)

theorem post_readSliceHeaderInner : Post readSliceHeaderInner fun h => RefCtx.WF h.ctx := by
  unfold readSliceHeaderInner
  refine post_bind_right fun rid => post_bind_right fun st => post_bind_right fun sp => ?_
  refine post_bind (post_lift (P := RefCtx.WF) fun c hc => refCtxOf_wf hc) fun ctx hctx => ?_
  refine post_bind_right fun _ => post_bind_right fun _ => post_bind_right fun _ =>
    post_bind_right fun _ => post_bind_right fun _ => post_bind_right fun _ =>
    post_bind_right fun _ => post_bind_right fun _ => post_pure hctx

theorem safe_readSliceHeader (crc : Bytes → Nat) {D : Codec} (hD : CodecTotal D) :
    Safe (readSliceHeader crc D) := by
  unfold readSliceHeader
  refine safe_bind (safe_readBlockAs crc _) fun b => ?_
  refine safe_bind (safe_lift (decodeBlock_ne_panic hD b)) fun buf => ?_
  refine safe_bind (safe_lift (safe_readSliceHeaderInner.ne_panic buf)) fun p => ?_
  obtain ⟨h, r⟩ := p
  exact safe_pure _

theorem post_readSliceHeader (crc : Bytes → Nat) (D : Codec) :
    Post (readSliceHeader crc D) fun h => RefCtx.WF h.ctx := by
  unfold readSliceHeader
  refine post_bind_right fun b => post_bind_right fun buf => ?_
  refine post_bind (post_lift (P := fun p => RefCtx.WF p.1.ctx) fun p hp => ?_) fun p hp => ?_
  · obtain ⟨h, r⟩ := p
    exact post_readSliceHeaderInner buf h r hp
  · obtain ⟨h, r⟩ := p
    exact post_pure hp

theorem safe_readDecoded (crc : Bytes → Nat) {D : Codec} (hD : CodecTotal D) (ty : Nat) :
    Safe (readDecoded crc D ty) := by
  unfold readDecoded
  refine safe_bind (safe_readBlockAs crc _) fun b => ?_
  refine safe_bind (safe_lift (decodeBlock_ne_panic hD b)) fun d => safe_pure _

theorem safe_decodeBlocks (crc : Bytes → Nat) {D : Codec} (hD : CodecTotal D) (h : SliceHeader) :
    Safe (decodeBlocks crc D h) := by
  unfold decodeBlocks
  refine safe_bind (safe_readDecoded crc hD _) fun p => ?_
  obtain ⟨id, core⟩ := p
  dsimp only
  safe_auto
  exact safe_readDecoded crc hD _

/-! ### `Container::slices` -/

theorem catchErr_ne_panic {α : Type} {x : Res α} (h : x ≠ .panic) : catchErr x ≠ .panic := by
  cases x <;> simp_all [catchErr]

theorem sliceItem_ne_panic (crc : Bytes → Nat) {D : Codec} (hD : CodecTotal D)
    (landmarks : List Nat) (src : Bytes) {i : Nat} (hi : i < landmarks.length)
    (hlen : landmarks.length < 2^63) : sliceItem crc D landmarks src i ≠ .panic := by
  unfold sliceItem
  have h1 : landmarks[i]? = some landmarks[i] := List.getElem?_eq_getElem hi
  rw [h1]
  simp only [unwrap_some, Res.bind_ok]
  rw [uadd_ok (by unfold USIZE; omega)]
  simp only [Res.bind_ok]
  apply catchErr_ne_panic
  have main : ∀ s : Bytes, (do
      let (h, rest) ← readSlice crc D s
      let blocks ← catchErr (do
        let (r, _) ← decodeBlocks crc D h rest
        return r)
      return (h, blocks) : Res (SliceHeader × Except Err (Bytes × List (Int × Bytes)))) ≠ .panic := by
    intro s
    refine Res.bind_ne_panic ((safe_readSliceHeader crc hD).ne_panic s) fun p hp => ?_
    obtain ⟨h, rest⟩ := p
    refine Res.bind_ne_panic (catchErr_ne_panic ?_) fun _ _ => by simp
    refine Res.bind_ne_panic ((safe_decodeBlocks crc hD h).ne_panic rest) fun q _ => ?_
    obtain ⟨r, _⟩ := q
    simp
  split
  · rename_i hc
    rw [slice_ok hc]
    exact main _
  · simp

theorem slicesFrom_ne_panic (crc : Bytes → Nat) {D : Codec} (hD : CodecTotal D)
    (landmarks : List Nat) (src : Bytes) (hlen : landmarks.length < 2^63) :
    ∀ (fuel i : Nat), slicesFrom crc D landmarks src fuel i ≠ .panic
  | 0, _ => by simp [slicesFrom]
  | fuel+1, i => by
    unfold slicesFrom
    split
    · rename_i hi
      refine Res.bind_ne_panic (sliceItem_ne_panic crc hD landmarks src hi hlen) fun _ _ => ?_
      refine Res.bind_ne_panic (slicesFrom_ne_panic crc hD landmarks src hlen fuel (i + 1)) fun _ _ => ?_
      simp
    · simp

/-- the fuel of `slicesFrom` is exactly the number of rounds: every landmark gets its item -/
theorem slicesFrom_length (crc : Bytes → Nat) (D : Codec) (landmarks : List Nat) (src : Bytes) :
    ∀ (fuel i : Nat) (l : List SliceItem), i + fuel = landmarks.length →
      slicesFrom crc D landmarks src fuel i = .ok l → l.length = fuel
  | 0, _, l, _, h => by simp [slicesFrom] at h; rw [h]; rfl
  | fuel+1, i, l, hif, h => by
    unfold slicesFrom at h
    have hi : i < landmarks.length := by omega
    simp only [hi, if_true] at h
    cases h1 : sliceItem crc D landmarks src i with
    | ok it =>
      rw [h1] at h
      simp only [Res.bind_ok] at h
      cases h2 : slicesFrom crc D landmarks src fuel (i + 1) with
      | ok rest =>
        rw [h2] at h
        simp only [Res.bind_ok, Res.pure_eq, Res.ok.injEq] at h
        have := slicesFrom_length crc D landmarks src fuel (i + 1) rest (by omega) h2
        rw [← h]; simp [this]
      | err e => rw [h2] at h; simp at h
      | panic => rw [h2] at h; simp at h
    | err e => rw [h1] at h; simp at h
    | panic => rw [h1] at h; simp at h

theorem slices_ne_panic (crc : Bytes → Nat) {D : Codec} (hD : CodecTotal D) (h : ContainerHeader)
    (src : Bytes) (hlen : h.landmarks.length < 2^63) : slices crc D h src ≠ .panic :=
  slicesFrom_ne_panic crc hD _ _ hlen _ _

theorem safe_readContainerAndSlices (crc : Bytes → Nat) {D : Codec} (hD : CodecTotal D) :
    Safe (readContainerAndSlices crc D) := by
  unfold readContainerAndSlices
  refine safe_bind_of (safe_readContainer crc) fun s o r ho => ?_
  have hpost := post_readContainer crc s o r ho
  cases o with
  | none => exact safe_pure _
  | some p =>
    obtain ⟨h, src⟩ := p
    obtain ⟨hctx, hlm⟩ := hpost
    dsimp only
    refine safe_bind (safe_lift (slices_ne_panic crc hD h src (by omega))) fun _ => safe_pure _

/-! ### the file header container -/

theorem safe_readHeaderContainerFields : Safe readHeaderContainerFields := by
  unfold readHeaderContainerFields
  safe_auto
  all_goals first | exact safe_itf8 | exact safe_ltf8 | exact safe_itf8Nat

theorem safe_readHeaderContainerHeaderFrom (crc : Bytes → Nat) (orig : Bytes) :
    Safe (readHeaderContainerHeaderFrom crc orig) := by
  unfold readHeaderContainerHeaderFrom; safe_auto; exact safe_readHeaderContainerFields

theorem safe_readHeaderContainerHeader (crc : Bytes → Nat) : Safe (readHeaderContainerHeader crc) :=
  ⟨fun s => (safe_readHeaderContainerHeaderFrom crc s).ne_panic s,
   fun {s _ _} e => (safe_readHeaderContainerHeaderFrom crc s).suffix e⟩

theorem safe_rawText : Safe rawText := by unfold rawText; safe_auto

theorem gzText_ne_panic (g : GzRun) : gzText g ≠ .panic := by
  unfold gzText
  repeat' split
  all_goals simp

theorem safe_readHeaderBlock : Safe readHeaderBlock := by
  unfold readHeaderBlock
  safe_auto
  all_goals first
    | exact safe_readMethod | exact safe_readContentType | exact safe_itf8 | exact safe_itf8Nat

theorem sourceText_ne_panic (G : Bytes → GzRun) (src : Source) : sourceText G src ≠ .panic := by
  cases src with
  | raw d =>
    unfold sourceText
    have := safe_rawText.ne_panic d
    cases h : rawText d with
    | ok p => obtain ⟨t, r⟩ := p; simp [h]
    | err e => simp [h]
    | panic => exact absurd h this
  | gzip w => exact gzText_ne_panic _

theorem safe_readFileHeader (crc : Bytes → Nat) (G : Bytes → GzRun)
    (P : List Bytes → Option BamHdr.Refs) : Safe (readFileHeader crc G P) := by
  unfold readFileHeader
  refine safe_bind (safe_readHeaderContainerHeader crc) fun len => ?_
  refine safe_bind (safe_window len) fun w => ?_
  refine safe_bind (safe_lift (safe_readHeaderBlock.ne_panic w)) fun p => ?_
  obtain ⟨src, r⟩ := p
  dsimp only
  refine safe_bind (safe_lift (sourceText_ne_panic G src)) fun q => ?_
  obtain ⟨lines, stop⟩ := q
  dsimp only
  split
  · exact safe_fail _
  · split
    · exact safe_fail _
    · exact safe_pure _

theorem safe_readFileHeaderParts (crc : Bytes → Nat) (G : Bytes → GzRun) :
    Safe (readFileHeaderParts crc G) := by
  unfold readFileHeaderParts
  refine safe_bind (safe_readHeaderContainerHeader crc) fun len => ?_
  refine safe_bind (safe_window len) fun w => ?_
  refine safe_bind (safe_lift (safe_readHeaderBlock.ne_panic w)) fun p => ?_
  obtain ⟨src, r⟩ := p
  dsimp only
  refine safe_bind (safe_lift (sourceText_ne_panic G src)) fun q => ?_
  obtain ⟨lines, stop⟩ := q
  dsimp only
  split
  · exact safe_fail _
  · exact safe_pure _

end Noodles.Hostile.Cram
