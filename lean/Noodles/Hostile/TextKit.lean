import Noodles.Hostile.Basic
import Noodles.Hostile.BcfSite
/-!
# Shared pieces of the hostile-TEXT models (C15, text side)

The lazy text records of noodles (`sam::Record`, `vcf::Record`, `bed::Record<N>`) keep ONE flat
buffer of all field bytes (delimiters removed) plus the list of field ends; an accessor slices
`buf[ends[i-1] .. ends[i]]`. The pieces shared by the three readers are transcribed here with the
panic-carrying primitives of `Hostile/Basic.lean`:

* `findIdx`            — `memchr::memchr{,2,3}` / `Iterator::position`
* `readField`          — `read_field` of noodles-sam / noodles-bed `io/reader/record.rs` (the
                          noodles-vcf one is the same plus a UTF-8 validation, `VcfText.lean`)
                          run on a slice reader (`&[u8]` as `BufRead`: one `fill_buf` window)
* `readLineInto`       — `read_line` of noodles-sam / noodles-vcf `io/reader.rs`
                          (`read_until(b'\n')`, pop LF, pop one CR)
* `str` slicing        — `&s[a..b]`, `s.split_at(i)` on a `str`: besides the range check these
                          panic when an index is not on a `char` boundary (`is_char_boundary`:
                          the byte at the index is not `0b10xx_xxxx`)

## The carriage-return defect and the parameter `fixed`

`read_field` strips the CR of a CRLF line ending with `dst.ends_with(b"\r")` / `dst.pop()` on the
WHOLE record buffer, and `read_line` does the same after `read_until` appended to that buffer. When
the field that ends at the LF is EMPTY the popped CR belongs to the PREVIOUS field, whose end was
already recorded: `…<TAB>A<CR><TAB><LF>` leaves `sequence_end = len + 1`, and `sequence()`,
`quality_scores()` panic (slice end out of range / start > end). Reproduced on the real code for
SAM, VCF and BED (`Props/C15Text.lean`, witnesses). `fixed = false` transcribes the code as it is,
`fixed = true` the code after `fixes/text-record-cr.diff`, which looks for the CR only among the
bytes the call itself appended (`dst[start..].ends_with(b"\r")`, and `n > 1` in `read_line`).
-/
namespace Noodles.Hostile.Text
open Noodles.Hostile

def TAB : UInt8 := 9
def LF : UInt8 := 10
def CR : UInt8 := 13

/-- `memchr` / `memchr2` / `memchr3` / `iter().position(p)`: index of the first byte with `p` -/
def findIdx (p : UInt8 → Bool) : Bytes → Option Nat
  | [] => none
  | b :: r => if p b then some 0 else (findIdx p r).map (· + 1)

/-- `v.ends_with(&[b])` -/
def endsWith (v : Bytes) (b : UInt8) : Bool := v.getLast? == some b

/-- `if v.ends_with(&[b]) { v.pop(); }` -/
def popIf (v : Bytes) (b : UInt8) : Bytes := if endsWith v b then v.dropLast else v

/-! ## `read_field` -/

/-- what one `read_field` call leaves: the record buffer, the number of input bytes consumed,
whether the field ended at a line feed, the unread input -/
structure FieldRead where
  dst : Bytes
  n : Nat
  eol : Bool
  rest : Bytes
  deriving Repr, DecidableEq

/-- `read_field` (noodles-sam and noodles-bed `io/reader/record.rs`) over a slice reader.

```text
loop { let src = reader.fill_buf()?;
       if match.is_some() || src.is_empty() { break; }
       let (buf, n) = match memchr2(b'\t', b'\n', src) {
           Some(i) => { match = Some(src[i]); (&src[..i], i + 1) }
           None => (src, src.len()) };
       dst.extend(buf); len += n; reader.consume(n); }
let is_eol = matches!(match, Some(b'\n'));
if is_eol && dst.ends_with(b"\r") { dst.pop(); }          // fixed: dst[start..].ends_with(b"\r")
```
`fill_buf` of `&[u8]` is the whole remaining slice, `consume(n)` is `&self[n..]`; after a window
without a delimiter the next window is empty and the loop ends. -/
def readField (fixed : Bool) (src dst : Bytes) : Res FieldRead :=
  if src.isEmpty then .ok ⟨dst, 0, false, []⟩
  else
    match findIdx (fun b => b == TAB || b == LF) src with
    | some i => do
      let m ← index src i
      let buf ← sliceTo src i
      let n ← uadd i 1
      let rest ← sliceFrom src n
      let dst' := dst ++ buf
      let eol := m == LF
      if fixed then do
        -- `dst[start..]` with `start` = the length of `dst` on entry
        let own ← sliceFrom dst' dst.length
        .ok ⟨if eol && endsWith own CR then dst'.dropLast else dst', n, eol, rest⟩
      else
        .ok ⟨if eol && endsWith dst' CR then dst'.dropLast else dst', n, eol, rest⟩
    | none => do
      let rest ← sliceFrom src src.length
      .ok ⟨dst ++ src, src.length, false, rest⟩

/-! ## `read_line` onto the record buffer -/

/-- `read_line` (noodles-sam / noodles-vcf `io/reader.rs`) appending to `buf`:
`read_until(b'\n', buf)` (std, total), then `if buf.ends_with(LF) { buf.pop(); if
buf.ends_with(CR) { buf.pop(); } }` — fixed: the CR is popped only when it was read by this call
(`n > 1`). Returns the buffer, the count and the unread input. -/
def readLineInto (fixed : Bool) (src buf : Bytes) : Bytes × Nat × Bytes :=
  match findIdx (fun b => b == LF) src with
  | some i =>
    let buf' := buf ++ src.take i
    let n := i + 1
    ((if fixed then (if n > 1 then popIf buf' CR else buf') else popIf buf' CR), n, src.drop n)
  | none => (buf ++ src, src.length, [])

/-! ## the flat buffer and its field ends -/

/-- start of field `k`: the end of the previous field -/
def fieldStart (ends : List Nat) (k : Nat) : Nat := if k = 0 then 0 else ends.getD (k - 1) 0

/-- `&self.buf[self.bounds.<field k>_range()]` -/
def fieldSlice (buf : Bytes) (ends : List Nat) (k : Nat) : Res Bytes :=
  slice buf (fieldStart ends k) (ends.getD k 0)

/-- `&self.buf[self.bounds.<last>_end..]` (`data_range`, `samples_range`) -/
def tailSlice (buf : Bytes) (ends : List Nat) (k : Nat) : Res Bytes :=
  sliceFrom buf (ends.getD k 0)

/-- the `k` leading `read_required_field`s over the field reader `rf` (`readField fixed` for SAM
and BED, `VcfText.readFieldV fixed` for VCF): an LF is "unexpected EOL" (`InvalidData`);
`len += n` is `usize` arithmetic -/
def readRequired (rf : Bytes → Bytes → Res FieldRead) :
    Nat → Bytes → Bytes → List Nat → Nat → Res (Bytes × List Nat × Nat × Bytes)
  | 0, src, dst, ends, len => .ok (dst, ends, len, src)
  | k + 1, src, dst, ends, len => do
    let f ← rf src dst
    if f.eol then .err .invalidData
    else do
      let len' ← uadd len f.n
      readRequired rf k f.rest f.dst (ends ++ [f.dst.length]) len'

/-! ## `str` -/

/-- `str::is_char_boundary` (`core/src/str/mod.rs`): `0`, `len`, or a byte that is not a UTF-8
continuation byte (`(b as i8) >= -0x40`) -/
def isCharBoundary (s : Bytes) (i : Nat) : Bool :=
  if i = 0 then true
  else match s[i]? with
    | some b => !Bcf.isCont b
    | none => i == s.length

/-- `&s[a..b]` on a `str` -/
def strSlice (s : Bytes) (a b : Nat) : Res Bytes :=
  if a ≤ b ∧ b ≤ s.length ∧ isCharBoundary s a ∧ isCharBoundary s b
  then .ok ((s.drop a).take (b - a)) else .panic

/-- `&s[a..]` on a `str` -/
def strSliceFrom (s : Bytes) (a : Nat) : Res Bytes :=
  if a ≤ s.length ∧ isCharBoundary s a then .ok (s.drop a) else .panic

/-- `&s[..b]` on a `str` -/
def strSliceTo (s : Bytes) (b : Nat) : Res Bytes :=
  if b ≤ s.length ∧ isCharBoundary s b then .ok (s.take b) else .panic

/-- `s.split_at(i)` on a `str` -/
def strSplitAt (s : Bytes) (i : Nat) : Res (Bytes × Bytes) :=
  if i ≤ s.length ∧ isCharBoundary s i then .ok (s.take i, s.drop i) else .panic

/-- `s.split(d)` for an ASCII delimiter (std, total): the pieces -/
def splitOn (d : UInt8) : Bytes → List Bytes
  | [] => [[]]
  | b :: r =>
    if b = d then [] :: splitOn d r
    else match splitOn d r with
      | [] => [[b]]
      | p :: ps => (b :: p) :: ps

/-- `s.split_once(d)` for an ASCII delimiter (std, total) -/
def splitOnce (d : UInt8) : Bytes → Option (Bytes × Bytes)
  | [] => none
  | b :: r =>
    if b = d then some ([], r)
    else match splitOnce d r with
      | some (f, rest) => some (b :: f, rest)
      | none => none

end Noodles.Hostile.Text
