import Noodles.Hostile.Stream
import Noodles.Hostile.CsiQuery
import Noodles.Index.Csi
/-!
# BAI, tabix and CSI index readers on ANY byte string

Transcribed, with every arithmetic operation, assertion and conversion explicit, from

* noodles-bam `bai/io/reader/index.rs`, `index/magic_number.rs`, `index/reference_sequences.rs`,
  `index/reference_sequences/{bins,intervals}.rs`;
* noodles-tabix `io/reader/index.rs`, `index/magic_number.rs`, `index/reference_sequences.rs`,
  `index/reference_sequences/{bins,intervals}.rs`;
* noodles-csi `io/reader/index.rs` (`read_index`, `read_magic`, `read_min_shift`, `read_depth`,
  `validate_geometry`, `read_unplaced_unmapped_record_count`), `index/header.rs` (`read_aux`,
  `read_header` and the six field readers), `index/header/reference_sequence_names.rs`
  (`read_reference_sequence_names`, `read_names`, `read_name`), `index/reference_sequences.rs`,
  `index/reference_sequences/bins.rs` (`read_bins`, `read_bin_count`), `…/bins/chunks.rs`,
  `…/metadata.rs`, and `binning_index/index/reference_sequence/bin.rs` (`Bin::metadata_id`,
  `Bin::max_id`, `bin_limit` — `Noodles/Hostile/CsiQuery.lean`).

The values returned are the structures of the C17 model (`Noodles/Index/*.lean`, where the same
readers are `Except`-valued decoders used for the round-trip theorems), so that the driver renders
them with the same code.

NOT modelled: the capacity of the vectors and maps (`Vec::with_capacity(n_ref.min(4096))`, …).
`usize::try_from(u32)` cannot fail on the 64-bit targets the harness runs on and is omitted.
-/
namespace Noodles.Hostile.Idx
open Noodles.Hostile Rd
open Noodles.Index (Chunk Meta Bins RefLin Bai Header Format Tabix RefCsi CsiIndex)

/-! ## chunks, metadata, intervals -/

/-- `read_chunk` -/
def readChunk : Rd Chunk := do
  let b ← readU64
  let e ← readU64
  return ⟨b, e⟩

/-- `read_chunks`: `n_chunk` is an `i32`, negative is `InvalidChunkCount` -/
def readChunks : Rd (List Chunk) := do
  let n ← readCountI32
  many readChunk n

/-- `METADATA_CHUNK_COUNT` -/
def METADATA_CHUNK_COUNT : Nat := 2

/-- `read_metadata`: `n_chunk` (a `u32`) must be 2 -/
def readMetadata : Rd Meta := do
  let n ← readU32
  if n ≠ METADATA_CHUNK_COUNT then Rd.fail .invalidData else
  let refBeg ← readU64
  let refEnd ← readU64
  let nMapped ← readU64
  let nUnmapped ← readU64
  return ⟨refBeg, refEnd, nMapped, nUnmapped⟩

/-- a count field: `read_u32_le` (BAI) or `read_i32_le` + `usize::try_from` (tabix, CSI) -/
def readCount (signed : Bool) : Rd Nat := if signed then readCountI32 else readU32

/-- `read_intervals`: `n_intv`, then the offsets -/
def readIntervals (signed : Bool) : Rd (List Nat) := do
  let n ← readCount signed
  many readU64 n

/-! ## `Bin::metadata_id` -/

/-- `Bin::metadata_id(depth)` = `Self::max_id(depth) + 1`; `max_id` = `bin_limit`, which asserts
`depth <= MAX_DEPTH` and shifts a `u64` -/
def metadataId (depth : Nat) : Res Nat := do
  let m ← Csi.maxId true depth
  uadd m 1

/-- `const METADATA_ID: usize = Bin::metadata_id(DEPTH)` with `DEPTH = 5` in noodles-bam
(`bai::DEPTH`) and noodles-tabix (`index::DEPTH`): evaluated at compile time -/
def METADATA_ID_LINEAR : Nat := 37450

example : metadataId 5 = .ok METADATA_ID_LINEAR := by decide

/-! ## bins with a linear index (BAI, tabix) -/

/-- the `for _ in 0..n_bin` loop of `read_bins` (noodles-bam and noodles-tabix have the same
body): the id, then the metadata payload (errors re-wrapped as `InvalidData`) or the chunk list
(likewise); a second metadata entry or a repeated bin id is `InvalidData`. The bins keep file
order (`IndexMap`). -/
def binsLoop : Nat → Bins → Option Meta → Rd (Bins × Option Meta)
  | 0, bins, md => Rd.pure (bins, md)
  | n+1, bins, md => do
    let id ← readU32
    if id = METADATA_ID_LINEAR then
      let m ← wrapInvalid readMetadata
      if md.isSome then Rd.fail .invalidData else binsLoop n bins (some m)
    else
      let cs ← wrapInvalid readChunks
      if bins.any (fun b => b.1 = id) then Rd.fail .invalidData
      else binsLoop n (bins ++ [(id, cs)]) md

/-- `read_bins` -/
def readBins (signed : Bool) : Rd (Bins × Option Meta) := do
  let n ← readCount signed
  binsLoop n [] none

/-- `read_reference_sequence` / the body of the loop in noodles-bam's `read_reference_sequences` -/
def readRefLin (signed : Bool) : Rd RefLin := do
  let (bins, md) ← readBins signed
  let lin ← readIntervals signed
  return ⟨bins, md, lin⟩

/-! ## BAI -/

/-- `bai::io::Reader::read_index` -/
def readBai : Rd Bai := do
  readMagic Noodles.Index.baiMagic
  let n ← readU32
  let refs ← many (readRefLin false) n
  let u ← readUnplaced
  return ⟨refs, u⟩

/-! ## the tabix header (also the `aux` block of a CSI index) -/

/-- `read_reference_sequence_name_index` / `read_start_position_index`:
`usize::try_from(i).and_then(NonZero::try_from).map(|n| n.get() - 1)` — the subtraction is on a
`usize` with overflow checks -/
def readColumn : Rd Nat := do
  let i ← readI32
  if 0 < i then Rd.lift (usub i.toNat 1) else Rd.fail .invalidData

/-- `read_end_position_index` -/
def readEndColumn (f : Format) (colBeg : Nat) : Rd (Option Nat) :=
  if f.specialized then do
    let n ← readI32
    if n = 0 then return none else Rd.fail .invalidData
  else do
    let i ← readColumn
    if i = colBeg then return none else return some i

/-- `read_names` + `read_name` over the bytes of the `Take`: `read_until(NUL)`; a last name
without its NUL is `ExpectedEof`, a repeated name `DuplicateName`. `cur` is the name being read,
`acc` the set so far (`buf.pop()` runs behind `buf.ends_with(&[NUL])`). -/
def namesGo : Bytes → Bytes → List Bytes → Res (List Bytes)
  | [], cur, acc => if cur = [] then .ok acc else .err .invalidData
  | b :: r, cur, acc =>
    if b = 0 then
      (if cur ∈ acc then .err .invalidData else namesGo r [] (acc ++ [cur]))
    else namesGo r (cur ++ [b]) acc

/-- `read_reference_sequence_names`: `l_nm` (`i32` → `u64`), then
`BufReader::new(reader.take(l_nm))` read to its end by `read_names`; after the names
`names_reader.into_inner().limit() > 0` — the stream ended before `l_nm` bytes — is
`UnexpectedEof` (/repo `fix:` 125ecd7; before it the names that were there were accepted) -/
def readNames : Rd (List Bytes) := do
  let l ← readCountI32
  let w ← Rd.window l
  let names ← Rd.lift (namesGo w [] [])
  if w.length < l then Rd.fail .eof else return names

/-- `read_header` (noodles-csi `io/reader/index/header.rs`) -/
def readHeader : Rd Header := do
  let fv ← readExact 4
  match Noodles.Index.decFormat (leVal fv) with
  | none => Rd.fail .invalidData
  | some f =>
    let colSeq ← readColumn
    let colBeg ← readColumn
    let colEnd ← readEndColumn f colBeg
    let m ← readI32                        -- `u8::try_from`
    if ¬ (0 ≤ m ∧ m < 256) then Rd.fail .invalidData else
    let skip ← readCountI32                -- `u32::try_from`
    let names ← readNames
    return ⟨f, colSeq, colBeg, colEnd, m.toNat, skip, names⟩

/-! ## tabix -/

/-- `tabix::io::Reader::read_index` (on the uncompressed payload): `n_ref` comes BEFORE the
header; header errors are re-wrapped as `InvalidData` -/
def readTabix : Rd Tabix := do
  readMagic Noodles.Index.tbiMagic
  let n ← readCountI32
  let h ← wrapInvalid readHeader
  let refs ← many (readRefLin true) n
  let u ← readUnplaced
  return ⟨some h, refs, u⟩

/-! ## CSI -/

/-- `read_min_shift` / `read_depth`: `u8::try_from(read_i32_le)` -/
def readU8FromI32 : Rd Nat := do
  let n ← readI32
  if 0 ≤ n ∧ n < 256 then return n.toNat else Rd.fail .invalidData

/-- `a + b` on `u32` with overflow checks -/
def add32 (a b : Nat) : Res Nat := if a + b < 2^32 then .ok (a + b) else .panic
/-- `a * b` on `u32` with overflow checks -/
def mul32 (a b : Nat) : Res Nat := if a * b < 2^32 then .ok (a * b) else .panic

/-- `validate_geometry(min_shift, depth)`:
`min_shift == 0 || u32::from(min_shift) + 3 * u32::from(depth) >= usize::BITS`, then
`depth > Bin::MAX_DEPTH` -/
def validateGeometry (ms d : Nat) : Res Unit := do
  let t ← mul32 3 d
  let u ← add32 ms t
  if ms = 0 ∨ u ≥ 64 then .err .invalidData
  else if d > Csi.MAX_DEPTH then .err .invalidData
  else return ()

/-- `read_aux`: `l_aux` (`i32` → `u64`); when positive the header is read from
`reader.take(l_aux)`, and what the header reader leaves of those bytes is read and dropped
(`io::copy(&mut aux_reader, &mut io::sink())?`, /repo `fix:` 8288cb5; before it the rest was left in
the stream and read as `n_ref`) -/
def readAux : Rd (Option Header) := do
  let len ← readCountI32
  if len > 0 then do
    let h ← Rd.withTakeDrain len readHeader
    return some h
  else return none

/-- the `for _ in 0..bin_count` loop of the CSI `read_bins` -/
def binsLoopCsi (metaId : Nat) : Nat → RefCsi → Rd RefCsi
  | 0, acc => Rd.pure acc
  | n+1, acc => do
    let id ← readU32
    let loffset ← readU64
    if id = metaId then
      let m ← readMetadata
      if acc.md.isSome then Rd.fail .invalidData
      else binsLoopCsi metaId n { acc with md := some m }
    else
      -- `index.insert(id, loffset)` happens before the chunks are read
      let cs ← readChunks
      if acc.bins.any (fun b => b.1 = id) then Rd.fail .invalidData
      else binsLoopCsi metaId n { acc with bins := acc.bins ++ [(id, cs)], index := acc.index ++ [(id, loffset)] }

/-- `read_bins(reader, depth)` / `read_reference_sequence`: the bin count is read first, then
`Bin::metadata_id(depth)` is computed (once per reference sequence) -/
def readRefCsi (depth : Nat) : Rd RefCsi := do
  let n ← readCountI32
  let metaId ← Rd.lift (metadataId depth)
  binsLoopCsi metaId n ⟨[], [], none⟩

/-- `read_index` of noodles-csi `io/reader/index.rs` -/
def readCsiInner : Rd CsiIndex := do
  readMagic Noodles.Index.csiMagic
  let ms ← readU8FromI32
  let d ← readU8FromI32
  Rd.lift (validateGeometry ms d)
  let h ← readAux
  let n ← readCountI32
  let refs ← many (readRefCsi d) n
  let u ← readUnplaced
  return ⟨ms, d, h, refs, u⟩

/-- `csi::io::Reader::read_index`: `read_index(..).map_err(|e| io::Error::new(InvalidData, e))` -/
def readCsi : Rd CsiIndex := wrapInvalid readCsiInner

/-- the reader as it was before `validate_geometry` was added (the `fix:` commit for finding F9):
a depth above 10 reaches the `assert!` of `bin_limit` as soon as one reference sequence is read -/
def readCsiUnvalidated : Rd CsiIndex := wrapInvalid do
  readMagic Noodles.Index.csiMagic
  let ms ← readU8FromI32
  let d ← readU8FromI32
  let h ← readAux
  let n ← readCountI32
  let refs ← many (readRefCsi d) n
  let u ← readUnplaced
  return ⟨ms, d, h, refs, u⟩

end Noodles.Hostile.Idx
