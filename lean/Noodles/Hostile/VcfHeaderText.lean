import Noodles.Hostile.Basic
import Noodles.Hostile.TextKit
import Noodles.Hostile.BcfSite
import Noodles.Hostile.SamHeaderText
/-!
# The VCF header TEXT parser (C15 / hdrtxt)

Transcription of `noodles-vcf/src/header/parser.rs` and `header/parser/**` into `Res`. Every
`split_at`, `&rest[1..]`, `&buf[..i]`, `&buf[i + 1..]`, `unwrap()` and `unreachable!()` is an explicit
panic-carrying primitive guarded by the Rust condition; `memchr`, `position`, `strip_prefix`,
`split_first`, `first`, `windows`, `str::from_utf8`, `str::split`, `str::parse::<usize>`,
`checked_mul`/`checked_add` are total in std and modelled by total functions. Loops run on fuel
`len + 1`; exhaustion is `panic` (endless loop), so "never panic" includes termination.

Value semantics are abstract where they cannot trap: a map keeps (raw key, value) byte strings; the
reserved-definition table consulted by `validate_info_definition` / `validate_format_definition`
(`record/value/map/{info,format}/definition.rs`, pure table lookups) is the parameter `dm`
("this INFO/FORMAT line mismatches its reserved definition"), any value.
-/
namespace Noodles.Hostile.VcfHdr
open Noodles.Hostile Noodles.Hostile.Text
open Noodles.Hostile.SamHdr (stripPrefix)

abbrev FF := Nat × Nat

/-- `FileFormat < VCF_4_3` (derived lexicographic order) -/
def ltV43 (f : FF) : Bool := f.1 < 4 || (f.1 == 4 && f.2 < 3)

def str (s : String) : Bytes := s.toUTF8.toList

/-- `str::from_utf8(buf)` as an error -/
def utf8 (b : Bytes) : Res Bytes := if Bcf.isUtf8 b then .ok b else .err .invalidData

/-! ## `##key=` -/

/-- `record/key.rs::parse_key` and `map/field/key.rs::parse_key`: `memchr('=')`, `split_at(i)`,
`from_utf8`, `&rest[1..]` -/
def parseKey (src : Bytes) : Res (Bytes × Bytes) :=
  match findIdx (fun b => b == 61) src with
  | none => .err .invalidData
  | some i => do
    let p ← splitAt src i
    let k ← utf8 p.1
    let rest ← sliceFrom p.2 1
    .ok (k, rest)

/-! ## `fileformat` -/

/-- `file_format.rs::parse_u32`: `try_fold` with `checked_sub`, `checked_mul`, `checked_add` -/
def parseU32 : Bytes → Nat → Option Nat
  | [], n => some n
  | b :: r, n =>
    if 48 ≤ b.toNat ∧ b.toNat ≤ 57 then
      let m := n * 10 + (b.toNat - 48)
      if m < 4294967296 then parseU32 r m else none
    else none

/-- `string/file_format.rs::parse_file_format`: `strip_prefix("VCFv")`, `memchr('.')`,
`&buf[..i]`, `&buf[i + 1..]` -/
def parseFileFormat (src : Bytes) : Res FF :=
  match stripPrefix (str "VCFv") src with
  | none => .err .invalidData
  | some src =>
    match findIdx (fun b => b == 46) src with
    | none => .err .invalidData
    | some i => do
      let a ← sliceTo src i
      let j ← uadd i 1
      let b ← sliceFrom src j
      match parseU32 a 0, parseU32 b 0 with
      | some x, some y => .ok (x, y)
      | _, _ => .err .invalidData

/-! ## the field lexer of `##key=<…>` -/

/-- `field/value/string.rs::parse_raw_string`: `position(',' | '>')`, `split_at(i)`, `from_utf8` -/
def parseRawString (src : Bytes) : Res (Bytes × Bytes) :=
  match findIdx (fun b => b == 44 || b == 62) src with
  | none => .err .invalidData
  | some i => do
    let p ← splitAt src i
    let s ← utf8 p.1
    .ok (s, p.2)

/-- the scan of `parse_escaped_string`: `some (offset, has_escape)` = `State::Done`, `none` = the
input ended in `Normal`/`Escape`; an invalid escape is an error. (`State::Done` is left by `break`,
so the `unreachable!()` arm is never entered: no branch for it.) -/
def scanEscaped : Bytes → Nat → Bool → Bool → Res (Option (Nat × Bool))
  | [], _, _, _ => .ok none
  | b :: r, i, esc, has =>
    if esc then
      if b == 92 || b == 34 then scanEscaped r (i + 1) false has else .err .invalidData
    else if b == 92 then scanEscaped r (i + 1) true true
    else if b == 34 then .ok (some (i, has))
    else scanEscaped r (i + 1) false has

/-- `unescape_string` over the bytes of a valid `str` (a backslash is ASCII, so the char walk and the
byte walk agree on where escapes are) -/
def unescape : Bytes → Res Bytes
  | [] => .ok []
  | 92 :: c :: r => if c == 92 || c == 34 then do let t ← unescape r; .ok (c :: t) else .err .invalidData
  | [92] => .ok []
  | b :: r => do let t ← unescape r; .ok (b :: t)

/-- `parse_escaped_string`: scan, `split_at(offset)`, `&rest[1..]`, `from_utf8`, unescape -/
def parseEscapedString (src : Bytes) : Res (Bytes × Bytes) := do
  let st ← scanEscaped src 0 false false
  match st with
  | none => .err .invalidData
  | some (offset, has) => do
    let p ← splitAt src offset
    let rest ← sliceFrom p.2 1
    let s ← utf8 p.1
    if has then do let u ← unescape s; .ok (u, rest) else .ok (s, rest)

/-- `field/value.rs::parse_value`: quoted or raw -/
def parseValue (src : Bytes) : Res (Bytes × Bytes) :=
  match src with
  | 34 :: r => parseEscapedString r
  | _ => parseRawString src

/-- `field.rs::consume_separator`: `Ok(true)` on `,`, `Ok(false)` on another byte, error at the end -/
def consumeSeparator : Bytes → Res (Bool × Bytes)
  | [] => .err .invalidData
  | b :: r => if b == 44 then .ok (true, r) else .ok (false, b :: r)

/-- `field.rs::split_field`: `None` at `>`; else key, value, separator (its answer is dropped) -/
def splitField (src : Bytes) : Res (Option (Bytes × Bytes × Bytes)) :=
  match src with
  | 62 :: _ => .ok none
  | _ => do
    let (k, src) ← parseKey src
    let (v, src) ← parseValue src
    let (_, src) ← consumeSeparator src
    .ok (some (k, v, src))

/-- `map.rs::consume_prefix` / `consume_suffix` -/
def consumeByte (want : UInt8) : Bytes → Res Bytes
  | [] => .err .invalidData
  | b :: r => if b == want then .ok r else .err .invalidData

inductive MapKind | info | filter | format | alt | contig | other
  deriving Repr, DecidableEq

/-- `str::parse::<usize>`: optional `+`, at least one digit, only digits, no overflow -/
def parseUsize (s : Bytes) : Option Nat :=
  let d := match s with | 43 :: r => r | _ => s
  if d.isEmpty then none
  else if d.all SamText.isDigit then
    let v := (SamText.takeDigits d 0).1
    if v < USIZE then some v else none
  else none

/-- `info/number.rs` / `format/number.rs::parse_number` -/
def numberOk (k : MapKind) (s : Bytes) : Bool :=
  if s.isEmpty then false
  else if s = str "A" ∨ s = str "R" ∨ s = str "G" ∨ s = str "." then true
  else if k = .format ∧ (s = str "LA" ∨ s = str "LR" ∨ s = str "LG" ∨ s = str "P" ∨ s = str "M") then true
  else (parseUsize s).isSome

/-- `info/ty.rs` / `format/ty.rs::parse_type` -/
def typeOk (k : MapKind) (s : Bytes) : Bool :=
  s = str "Integer" ∨ s = str "Float" ∨ s = str "Character" ∨ s = str "String" ∨
    (k = .info ∧ s = str "Flag")

/-- the per-tag value check of a map parser (`parse_number`, `parse_type`, `parse_idx`,
`parse_length`); every other tag takes the string as it is -/
def valueOk (k : MapKind) (key v : Bytes) : Bool :=
  if (k = .info ∨ k = .format) ∧ key = str "Number" then numberOk k v
  else if (k = .info ∨ k = .format) ∧ key = str "Type" then typeOk k v
  else if (k = .info ∨ k = .format ∨ k = .filter ∨ k = .contig) ∧ key = str "IDX" then (parseUsize v).isSome
  else if k = .contig ∧ key = str "length" then (parseUsize v).isSome
  else true

/-- `try_replace` / `try_insert`: `Tag::from` is injective on the raw key, and BOTH the standard
slots and `OtherFields` refuse a second value: a duplicate raw key is an error -/
def addField (k : MapKind) (fields : List (Bytes × Bytes)) (key v : Bytes) : Res (List (Bytes × Bytes)) :=
  if !valueOk k key v then .err .invalidData
  else if fields.any (fun f => f.1 == key) then .err .invalidData
  else .ok (fields ++ [(key, v)])

/-- `while let Some((raw_key, raw_value)) = split_field(src)? { … }` -/
def mapLoop (k : MapKind) : Nat → Bytes → List (Bytes × Bytes) → Res (List (Bytes × Bytes) × Bytes)
  | 0, _, _ => .panic
  | fuel + 1, src, fields => do
    let f ← splitField src
    match f with
    | none => .ok (fields, src)
    | some (key, v, rest) => do
      let fields ← addField k fields key v
      mapLoop k fuel rest fields

def lookup (fields : List (Bytes × Bytes)) (key : String) : Option Bytes :=
  (fields.find? (fun f => f.1 == str key)).map (·.2)

/-- the required tags of each map (`ok_or_else(Missing…)`) -/
def required : MapKind → List String
  | .info | .format => ["ID", "Number", "Type", "Description"]
  | .filter | .alt => ["ID", "Description"]
  | .contig | .other => ["ID"]

/-- `parse_info`, `parse_filter`, `parse_format`, `parse_alternative_allele`, `parse_contig`,
`other.rs::parse_other`: `<`, the field loop, `>`, required tags. Answers the ID. -/
def parseMap (k : MapKind) (src : Bytes) : Res (Bytes × List (Bytes × Bytes)) := do
  let src ← consumeByte 60 src
  let (fields, src) ← mapLoop k (src.length + 1) src []
  let _ ← consumeByte 62 src
  if (required k).all (fun t => (lookup fields t).isSome) then
    match lookup fields "ID" with
    | some id => .ok (id, fields)
    | none => .err .invalidData
  else .err .invalidData

/-- `other.rs::parse_values`: `[` … `]` taken verbatim (`split_at(i + 1)`), else a value -/
def parseValues (src : Bytes) : Res (Bytes × Bytes) :=
  match src with
  | 91 :: _ =>
    match findIdx (fun b => b == 93) src with
    | some i => do
      let j ← uadd i 1
      let p ← splitAt src j
      let s ← utf8 p.1
      .ok (s, p.2)
    | none => parseValue src
  | _ => parseValue src

/-- the `loop { … }` of `other.rs::parse_meta` (`isMeta = true`) and `parse_pedigree`: key, value by
tag, `consume_separator`, stop when there was none -/
def metaLoop (isMeta : Bool) (ff : FF) : Nat → Bytes → List (Bytes × Bytes) → Res (List (Bytes × Bytes) × Bytes)
  | 0, _, _ => .panic
  | fuel + 1, src, fields => do
    let (key, src) ← parseKey src
    let idKey := key = str "ID" ∨ (!isMeta ∧ ltV43 ff ∧ (key = str "Child" ∨ key = str "Derived"))
    let (v, src) ← (if isMeta ∧ !ltV43 ff ∧ key = str "Values" then parseValues src else parseValue src)
    let key' := if idKey then str "ID" else key
    let fields ← addField .other fields key' v
    let (has, src) ← consumeSeparator src
    if has then metaLoop isMeta ff fuel src fields else .ok (fields, src)

/-- `parse_meta` / `parse_pedigree` -/
def parseMeta (isMeta : Bool) (ff : FF) (src : Bytes) : Res (Bytes × List (Bytes × Bytes)) := do
  let src ← consumeByte 60 src
  let (fields, src) ← metaLoop isMeta ff (src.length + 1) src []
  let _ ← consumeByte 62 src
  match lookup fields "ID" with
  | some id => .ok (id, fields)
  | none => .err .invalidData

/-- `buf.windows(3).any(|w| w == b"ID=")` -/
def containsId : Bytes → Bool
  | [] => false
  | b :: r => (match b :: r with | 73 :: 68 :: 61 :: _ => true | _ => false) || containsId r

/-- `map.rs::is_map` -/
def isMap (src : Bytes) (ff : FF) : Bool :=
  let hasPrefix := src.head? == some 60
  if ltV43 ff then hasPrefix && containsId src else hasPrefix

/-- `string.rs::parse_string`: `split_at(len)`, `from_utf8` -/
def parseString (src : Bytes) : Res Bytes := do
  let p ← splitAt src src.length
  utf8 p.1

inductive Record
  | fileFormat (f : FF)
  | map (k : MapKind) (id : Bytes)
  | otherMap (key id : Bytes)
  | otherString (key : Bytes)
  deriving Repr, DecidableEq

/-- `record.rs::parse_record` + `value.rs::parse_value`; `dm` = the reserved-definition check of
this line answers "mismatch" -/
def parseRecord (dm : Bool) (src : Bytes) (ff : FF) : Res Record :=
  match stripPrefix [35, 35] src with
  | none => .err .invalidData
  | some src => do
    let (key, src) ← parseKey src
    if key = str "fileformat" then do let f ← parseFileFormat src; .ok (.fileFormat f)
    else if key = str "INFO" then do
      let r ← parseMap .info src
      if dm then .err .invalidData else .ok (.map .info r.1)
    else if key = str "FILTER" then do let r ← parseMap .filter src; .ok (.map .filter r.1)
    else if key = str "FORMAT" then do
      let r ← parseMap .format src
      if dm then .err .invalidData else .ok (.map .format r.1)
    else if key = str "ALT" then do let r ← parseMap .alt src; .ok (.map .alt r.1)
    else if key = str "contig" then do let r ← parseMap .contig src; .ok (.map .contig r.1)
    else if key = str "META" then do let r ← parseMeta true ff src; .ok (.otherMap key r.1)
    else if key = str "PEDIGREE" then do let r ← parseMeta false ff src; .ok (.otherMap key r.1)
    else if isMap src ff then do let r ← parseMap .other src; .ok (.otherMap key r.1)
    else do let _ ← parseString src; .ok (.otherString key)

/-! ## the `#CHROM` line -/

def HEADERS : List String := ["#CHROM", "POS", "ID", "REF", "ALT", "QUAL", "FILTER", "INFO"]

/-- the sample-name loop: `IndexSet::insert` refuses a duplicate -/
def addSamples : List Bytes → List Bytes → Res (List Bytes)
  | acc, [] => .ok acc
  | acc, s :: r => if acc.contains s then .err .invalidData else addSamples (acc ++ [s]) r

/-- `parser.rs::parse_header`: `from_utf8`, `split('\t')`, eight fixed names, `FORMAT`, samples -/
def parseHeaderLine (src : Bytes) (samples : List Bytes) : Res (List Bytes) := do
  let line ← utf8 src
  let fields := splitOn TAB line
  if fields.take 8 = HEADERS.map str then
    match fields.drop 8 with
    | [] => .ok samples
    | f :: names => if f = str "FORMAT" then addSamples samples names else .err .invalidData
  else .err .invalidData

/-! ## `Parser` -/

inductive State | empty | ready | done
  deriving Repr, DecidableEq

structure Parser where
  state : State := .empty
  ff : FF := (4, 5)
  /-- the five typed collections, in one list keyed by kind -/
  maps : List (MapKind × Bytes) := []
  /-- other records: key, structured?, ids (structured) / count placeholder entries -/
  others : List (Bytes × Bool × List Bytes) := []
  samples : List Bytes := []
  deriving Repr, DecidableEq

/-- `insert_other_record` + `Collection::add`: the first value fixes the collection type; a
mismatch or a duplicate structured ID is an error -/
def addOther (key : Bytes) (structured : Bool) (id : Bytes) :
    List (Bytes × Bool × List Bytes) → Res (List (Bytes × Bool × List Bytes))
  | [] => .ok [(key, structured, [id])]
  | (k, s, ids) :: r =>
    if k == key then
      if s != structured then .err .invalidData
      else if structured && ids.contains id then .err .invalidData
      else .ok ((k, s, ids ++ [id]) :: r)
    else do let r' ← addOther key structured id r; .ok ((k, s, ids) :: r')

/-- `Entry::Vacant(entry) => { let i = entry.index(); entry.insert(v); map.get_index(i).unwrap() }`:
the `unwrap` is on the entry at the index just inserted — position `len` of a list that now has
`len + 1` items -/
def insertUnwrap (maps : List (MapKind × Bytes)) (k : MapKind) (id : Bytes) : Res (List (MapKind × Bytes)) := do
  let i := (maps.filter (fun m => m.1 == k)).length
  let maps' := maps ++ [(k, id)]
  let _ ← unwrap ((maps'.filter (fun m => m.1 == k))[i]?)
  .ok maps'

/-- `Parser::parse_partial` (file format option `Auto`) -/
def parsePartial (dm : Bool) (p : Parser) (src : Bytes) : Res Parser :=
  if p.state = .done then .err .invalidData
  else if p.state = .empty then do
    let r ← parseRecord dm src (4, 5)
    match r with
    | .fileFormat f => .ok { p with ff := f, state := .ready }
    | _ => .err .invalidData
  else if (stripPrefix (str "#CHROM") src).isSome then do
    let s ← parseHeaderLine src p.samples
    .ok { p with samples := s, state := .done }
  else do
    let r ← parseRecord dm src p.ff
    match r with
    | .fileFormat _ => .err .invalidData
    | .map k id =>
      if p.maps.any (fun m => m.1 == k && m.2 == id) then .err .invalidData
      else do let m ← insertUnwrap p.maps k id; .ok { p with maps := m }
    | .otherMap key id => do let o ← addOther key true id p.others; .ok { p with others := o }
    | .otherString key => do let o ← addOther key false [] p.others; .ok { p with others := o }

/-- `Parser::finish` -/
def finish (p : Parser) : Res Parser := if p.state = .done then .ok p else .err .invalidData

/-- streaming: `parse_partial` line by line (`dms` = the lines whose definition check fails), then
`finish`; with the index of the failing line (`lines.len()` = `finish`) -/
def parseLines (dms : List Nat) : Parser → Nat → List Bytes → Res Parser × Nat
  | p, k, [] => (finish p, k)
  | p, k, l :: ls =>
    match parsePartial (dms.contains k) p l with
    | .ok p' => parseLines dms p' (k + 1) ls
    | .err e => (.err e, k)
    | .panic => (.panic, k)

/-- `Parser::parse` / `Header::from_str` -/
def parse (dms : List Nat) (s : Bytes) : Res Parser × Nat := parseLines dms {} 0 (SamHdr.lines s)

end Noodles.Hostile.VcfHdr
