import Noodles.Hostile.TextKit
/-!
# The lazy VCF record (`vcf::Record`): reader, field bounds, INFO / samples / genotype parsers

Transcribed from noodles-vcf with every `str` slice explicit. The buffer is a `String`: besides the
range check, `&buf[a..b]`, `split_at(i)` and `&rest[1..]` panic when an index is not on a `char`
boundary (`TextKit.strSlice` …), so the model keeps the UTF-8 validation the reader performs.

* `io/reader/record.rs`  — `read_record` (seven `read_required_field`s, the INFO column through
                            `read_last_required_field`, `read_line` for FORMAT + samples);
                            `read_field` = `TextKit.readField` followed by `String::from_utf8` of
                            the whole buffer
* `record/fields.rs`, `record/fields/bounds.rs` — the nine accessors and their `.` → `""` rules
* `record/{ids,alternate_bases,filters}.rs` — `split` on `;` / `,` (std, total)
* `record/info.rs`, `record/info/field.rs` — `next`, `read_key`, `read_value`
* `record/samples.rs`, `samples/keys.rs`, `samples/sample.rs` — `keys`, `iter`/`parse_sample`,
                            `Keys::iter`/`parse_key`, `Sample::iter` (keys zipped with `split(':')`)
* `record/samples/series/value/genotype.rs` — `Genotype::iter`: `parse_first_allele`,
                            `parse_allele`, `next_allele` (as fixed by d10df78: `char_indices`)

Typed values (`parse_value` against the header's definitions: `str::parse`, percent-decoding) are
C09's subject; they take whole `&str`s and have no index arithmetic.
-/
namespace Noodles.Hostile.VcfText
open Noodles.Hostile Noodles.Hostile.Text

def DOT : Bytes := [46]

/-! ## `read_record` -/

/-- `read_field` of noodles-vcf: the bytes go through `TextKit.readField`, then the WHOLE buffer
is validated (`String::from_utf8(bytes)`), an invalid one is `InvalidData` -/
def readFieldV (fixed : Bool) (src dst : Bytes) : Res FieldRead := do
  let f ← readField fixed src dst
  if Bcf.isUtf8 f.dst then .ok f else .err .invalidData

/-- `read_line` (`io/reader.rs`) onto the `String`: `BufRead::read_line` validates the bytes it
appends (through the LF) and fails with `InvalidData` otherwise; then the LF / CR are popped as in
`TextKit.readLineInto` -/
def readLineIntoV (fixed : Bool) (src buf : Bytes) : Res (Bytes × Nat × Bytes) :=
  let chunk := match findIdx (fun b => b == LF) src with
    | some i => src.take (i + 1)
    | none => src
  if Bcf.isUtf8 chunk then .ok (readLineInto fixed src buf) else .err .invalidData

/-- `Fields`: the buffer and the eight field ends of `Bounds` (reference sequence name, variant
start, ids, reference bases, alternate bases, quality score, filters, info) -/
structure Rec where
  buf : Bytes
  ends : List Nat
  deriving Repr, DecidableEq

/-- `read_record` on a slice reader -/
def readRecord (fixed : Bool) (input : Bytes) : Res (Rec × Nat) := do
  let (dst, ends, len, src) ← readRequired (readFieldV fixed) 7 input [] [] 0
  let f ← readFieldV fixed src dst
  let len ← uadd len f.n
  let ends := ends ++ [f.dst.length]
  if f.eol then .ok (⟨f.dst, ends⟩, len)
  else do
    let (buf, n, _) ← readLineIntoV fixed f.rest f.dst
    let len ← uadd len n
    .ok (⟨buf, ends⟩, len)

/-! ## accessors (`record/fields.rs`) -/

/-- `&self.buf[self.bounds.<column k>_range()]` on the `String` -/
def Rec.field (r : Rec) (k : Nat) : Res Bytes :=
  strSlice r.buf (fieldStart r.ends k) (r.ends.getD k 0)

/-- `&self.buf[self.bounds.samples_range()]` -/
def Rec.tail (r : Rec) : Res Bytes := strSliceFrom r.buf (r.ends.getD 7 0)

/-- `ids`, `alternate_bases`, `filters`, `info`: `.` reads as the empty string -/
def unDot (s : Bytes) : Bytes := if s = DOT then [] else s

/-- `Fields::samples`: empty when the FORMAT column is `.` -/
def samplesText (src : Bytes) : Bytes :=
  if src.isEmpty || (splitOn TAB src).head? == some DOT then [] else src

/-- `Ids::iter`, `AlternateBases::iter`, `filters::iter`: nothing for the empty string, else
`split(d)` -/
def listOf (d : UInt8) (s : Bytes) : List Bytes := if s.isEmpty then [] else splitOn d s

/-! ## INFO (`record/info/field.rs`) -/

/-- the common tail of `read_key` / `read_value` -/
def keyResult (k : Bytes) (m : Option UInt8) (src : Bytes) : Res ((Bytes × Bool) × Bytes) :=
  if src.isEmpty && m == some 59 then .err .invalidData
  else if k.isEmpty then .err .invalidData
  else .ok ((k, m == some 61), src)

/-- `read_key`: up to the first `=` or `;` (`memchr2`, `src.split_at(i)`, `&rest[1..]`, `s[i]`);
the flag says whether a `=` follows -/
def readKey (src : Bytes) : Res ((Bytes × Bool) × Bytes) :=
  match findIdx (fun b => b == 61 || b == 59) src with
  | some i => do
    let (k, rest) ← strSplitAt src i
    let src' ← strSliceFrom rest 1
    let m ← index src i
    keyResult k (some m) src'
  | none => do
    let (k, rest) ← strSplitAt src src.length
    keyResult k none rest

/-- `read_value`: up to the next `;` -/
def readValue (src : Bytes) : Res (Bytes × Bytes) :=
  match findIdx (fun b => b == 59) src with
  | some i => do
    let (v, rest) ← strSplitAt src i
    let src' ← strSliceFrom rest 1
    if src'.isEmpty then .err .invalidData else .ok (v, src')
  | none => do
    let (v, rest) ← strSplitAt src src.length
    .ok (v, rest)

/-- `next` on a non-empty source: the raw `(key, value?)` and the rest -/
def infoNext (src : Bytes) : Res ((Bytes × Option Bytes) × Bytes) := do
  let ((k, sep), src) ← readKey src
  if !sep then .ok ((k, none), src)
  else do
    let (v, src) ← readValue src
    .ok ((k, some v), src)

/-- `Info::iter` up to and including its first error -/
def infoFields : Nat → Bytes → Res (List (Bytes × Option Bytes) × Option Err)
  | 0, _ => .ok ([], none)
  | fuel + 1, src =>
    if src.isEmpty then .ok ([], none)
    else
      match infoNext src with
      | .ok (kv, rest) => do
        let (kvs, e) ← infoFields fuel rest
        .ok (kv :: kvs, e)
      | .err e => .ok ([], some e)
      | .panic => .panic

/-! ## samples (`record/samples.rs`, `samples/keys.rs`, `samples/sample.rs`) -/

/-- `Samples::keys`: `split_once('\t').unwrap_or_default()` — without a TAB (a FORMAT column and
no sample) the keys are EMPTY -/
def keysText (s : Bytes) : Bytes :=
  match splitOnce TAB s with
  | some (k, _) => k
  | none => []

/-- the part `Samples::iter` walks: what follows the first TAB -/
def samplesRest (s : Bytes) : Bytes :=
  match splitOnce TAB s with
  | some (_, r) => r
  | none => []

/-- `keys.rs::parse_key`: `split_once(':')` or `split_at(len)` -/
def parseKey (src : Bytes) : Res (Bytes × Bytes) :=
  match splitOnce 58 src with
  | some p => .ok p
  | none => strSplitAt src src.length

/-- `Keys::iter` -/
def keysIter : Nat → Bytes → Res (List Bytes)
  | 0, _ => .ok []
  | fuel + 1, src =>
    if src.isEmpty then .ok []
    else do
      let (k, rest) ← parseKey src
      let ks ← keysIter fuel rest
      .ok (k :: ks)

/-- `samples.rs::parse_sample`: up to the next TAB (`position`, `split_at(i)`, `&rest[1..]`);
`.` is the empty sample -/
def parseSample (src : Bytes) : Res (Bytes × Bytes) :=
  match findIdx (fun b => b == TAB) src with
  | some i => do
    let (buf, rest) ← strSplitAt src i
    let src' ← strSliceFrom rest 1
    .ok (unDot buf, src')
  | none => do
    let (buf, rest) ← strSplitAt src src.length
    .ok (unDot buf, rest)

/-- `Samples::iter` -/
def samplesIter : Nat → Bytes → Res (List Bytes)
  | 0, _ => .ok []
  | fuel + 1, src =>
    if src.isEmpty then .ok []
    else do
      let (s, rest) ← parseSample src
      let ss ← samplesIter fuel rest
      .ok (s :: ss)

/-- `Sample::iter`: nothing for the empty sample, else the keys zipped with `src.split(':')` -/
def sampleValues (keys : List Bytes) (s : Bytes) : List (Bytes × Bytes) :=
  if s.isEmpty then [] else keys.zip (splitOn 58 s)

/-! ## genotypes (`record/samples/series/value/genotype.rs`) -/

def isPhasing (b : UInt8) : Bool := b == 124 || b == 47

/-- the width of the first `char` of a UTF-8 string (`char_indices().skip(1)` starts after it) -/
def firstCharWidth : Bytes → Nat
  | [] => 0
  | b :: _ => if b.toNat < 0x80 then 1 else if b.toNat < 0xe0 then 2 else if b.toNat < 0xf0 then 3 else 4

/-- `next_allele`: `src.char_indices().skip(1).find(|(_, c)| is_phasing_indicator(*c))`, then
`src.split_at(i)` (`i = src.len()` if there is none). In UTF-8 the bytes `|` and `/` occur only as
whole characters, so after the first character the search is a byte search. -/
def nextAllele (src : Bytes) : Res (Bytes × Bytes) :=
  let w := firstCharWidth src
  let i := match findIdx isPhasing (src.drop w) with
    | some j => w + j
    | none => src.length
  strSplitAt src i

/-- one item of `Genotype::iter`: the text of the allele position and the phasing (`true` =
phased), or an error (`invalid phasing indicator`); the position text goes to `str::parse` -/
inductive Allele
  | ok (pos : Bytes) (phased : Bool)
  | bad
  deriving Repr, DecidableEq

/-- `parse_phasing` on a one-byte string -/
def parsePhasing (s : Bytes) : Option Bool :=
  if s = [124] then some true else if s = [47] then some false else none

/-- `parse_first_allele`: an explicit leading indicator, else unphased iff a `/` occurs in the
rest -/
def parseFirstAllele (src : Bytes) : Res (Allele × Bytes) := do
  let (buf, rest) ← nextAllele src
  match buf with
  | b :: _ =>
    if isPhasing b then do
      let p ← strSliceTo buf 1
      let buf' ← strSliceFrom buf 1
      match parsePhasing p with
      | some ph => .ok (.ok buf' ph, rest)
      | none => .ok (.bad, rest)
    else .ok (.ok buf (!(rest.any fun c => c == 47)), rest)
  | [] => .ok (.ok buf (!(rest.any fun c => c == 47)), rest)

/-- `parse_allele`: `&buf[..1]` is the indicator, `&buf[1..]` the position -/
def parseAllele (src : Bytes) : Res (Allele × Bytes) := do
  let (buf, rest) ← nextAllele src
  let p ← strSliceTo buf 1
  let pos ← strSliceFrom buf 1
  match parsePhasing p with
  | some ph => .ok (.ok pos ph, rest)
  | none => .ok (.bad, rest)

def allelesFrom : Nat → Bytes → Res (List Allele)
  | 0, _ => .ok []
  | fuel + 1, src =>
    if src.isEmpty then .ok []
    else do
      let (a, rest) ← parseAllele src
      let as ← allelesFrom fuel rest
      .ok (a :: as)

/-- `Genotype::iter` collected: the first allele, then `parse_allele` until the text is used up -/
def genotype (src : Bytes) : Res (List Allele) := do
  let (a, rest) ← parseFirstAllele src
  let as ← allelesFrom (rest.length + 1) rest
  .ok (a :: as)

/-- the genotypes of one sample: the values under the key `GT` that are not `.` -/
def sampleGenotypes : List (Bytes × Bytes) → Res (List (List Allele))
  | [] => .ok []
  | (k, v) :: r =>
    if k = [71, 84] ∧ v ≠ DOT then do
      let g ← genotype v
      let gs ← sampleGenotypes r
      .ok (g :: gs)
    else sampleGenotypes r

def allGenotypes (keys : List Bytes) : List Bytes → Res (List (List (List Allele)))
  | [] => .ok []
  | s :: r => do
    let g ← sampleGenotypes (sampleValues keys s)
    let gs ← allGenotypes keys r
    .ok (g :: gs)

/-! ## everything at once -/

structure Touched where
  n : Nat
  /-- the eight columns as sliced (before the `.` rules) -/
  cols : List Bytes
  /-- `samples_range` as sliced -/
  tail : Bytes
  info : List (Bytes × Option Bytes) × Option Err
  keys : List Bytes
  samples : List Bytes
  gts : List (List (List Allele))
  deriving Repr, DecidableEq

def Rec.touch (r : Rec) (n : Nat) : Res Touched := do
  let c0 ← r.field 0
  let c1 ← r.field 1
  let c2 ← r.field 2
  let c3 ← r.field 3
  let c4 ← r.field 4
  let c5 ← r.field 5
  let c6 ← r.field 6
  let c7 ← r.field 7
  let tail ← r.tail
  let info ← infoFields ((unDot c7).length + 1) (unDot c7)
  let st := samplesText tail
  let keys ← keysIter ((keysText st).length + 1) (keysText st)
  let samples ← samplesIter ((samplesRest st).length + 1) (samplesRest st)
  let gts ← allGenotypes keys samples
  .ok ⟨n, [c0, c1, c2, c3, c4, c5, c6, c7], tail, info, keys, samples, gts⟩

/-- `Reader::read_record` (`Record::try_from(&[u8])`) followed by every accessor and iterator -/
def readAndTouch (fixed : Bool) (input : Bytes) : Res Touched := do
  let (r, n) ← readRecord fixed input
  r.touch n

end Noodles.Hostile.VcfText
