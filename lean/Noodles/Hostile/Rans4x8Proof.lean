import Noodles.Hostile.Rans4x8
import Noodles.Hostile.CodecKitProof
/-!
# The rANS 4x8 decoder never panics

Invariants: a frequency table has 256 entries with total ≤ 4096 (`validate_frequencies`), hence
every entry ≤ 4096 and every cumulative frequency fits `u16`; the lookup table has 4096 slots and
maps a slot `f` to a symbol `sym < 256` with `C[sym] ≤ f`; states are below `2^32`. Under these
`state_step` neither overflows nor underflows: `f * (s >> 12) + (s & 0xfff) ≤ 4096 * (2^20 - 1) +
4095 = 2^32 - 1`, and `C[sym] ≤ s & 0xfff`.
-/
namespace Noodles.Hostile.R4x8
open Noodles.Hostile Noodles.Hostile.Rd Noodles.Hostile.Codec

/-! ## frequency table readers -/

theorem readItf8U16_ok {s r : Bytes} {v : Nat} (h : readItf8U16 s = .ok (v, r)) :
    r <:+ s ∧ r.length < s.length ∧ v < 65536 := by
  unfold readItf8U16 at h
  cases hi : Num.readItf8 s with
  | ok p =>
    obtain ⟨i, r'⟩ := p
    rw [hi] at h
    dsimp only at h
    split at h
    · rename_i hc
      simp only [Res.ok.injEq, Prod.mk.injEq] at h
      have := readItf8_ok hi
      rw [← h.2, ← h.1]
      exact ⟨this.1, this.2, by omega⟩
    · cases h
  | err e => rw [hi] at h; cases h
  | panic => rw [hi] at h; cases h

theorem safeP_readItf8U16 : SafeP readItf8U16 fun v => v < 65536 where
  ne_panic s := by
    unfold readItf8U16
    cases hi : Num.readItf8 s with
    | ok p => dsimp only; split <;> simp
    | err e => simp
    | panic => exact absurd hi (Num.readItf8_ne_panic s)
  suffix h := (readItf8U16_ok h).1
  post h := (readItf8U16_ok h).2.2

theorem strict_readItf8U16 : Strict readItf8U16 := fun _ _ _ h => (readItf8U16_ok h).2.1

theorem safeP_nextSymbol (sym : Nat) : SafeP (nextSymbol sym) fun s => s < 256 := by
  unfold nextSymbol
  exact safeP_ite (fun h => safeP_pure' h) (fun _ => safeP_fail _)

/-- a table under construction: 256 entries, each satisfying `P` -/
def Tab {α : Type} (P : α → Prop) (F : List α) : Prop := F.length = 256 ∧ ∀ a ∈ F, P a

theorem Tab.set {α : Type} {P : α → Prop} {F : List α} (h : Tab P F) {v : α} (hv : P v) (i : Nat) :
    Tab P (F.set i v) := ⟨by rw [List.length_set]; exact h.1, mem_set_of h.2 hv⟩

theorem tab_replicate {α : Type} {P : α → Prop} {z : α} (hz : P z) : Tab P (List.replicate 256 z) :=
  ⟨List.length_replicate, fun a ha => by rw [(List.mem_replicate.mp ha).2]; exact hz⟩

theorem safeP_setN {α : Type} {P : α → Prop} {F : List α} (hF : Tab P F) {sym : Nat}
    (hs : sym < 256) {v : α} (hv : P v) : SafeP (Rd.lift (setN F sym v)) (Tab P) :=
  safeP_lift (setN_ne_panic (by rw [hF.1]; exact hs)) fun F' e => by
    rw [(setN_ok e).1]; exact hF.set hv _

theorem safeP_runLoop {α : Type} {entry : Rd α} {P : α → Prop} (he : SafeP entry P) :
    ∀ (len sym : Nat) (F : List α), sym < 256 → Tab P F →
      SafeP (runLoop entry len sym F) fun p => p.1 < 256 ∧ Tab P p.2
  | 0, sym, F, hs, hF => by
    unfold runLoop
    exact safeP_pure' ⟨hs, hF⟩
  | len + 1, sym, F, hs, hF => by
    unfold runLoop
    refine safeP_bind he fun f hf => ?_
    refine safeP_bind (safeP_setN hF hs hf) fun F' hF' => ?_
    refine safeP_bind (safeP_nextSymbol sym) fun sym' hs' => ?_
    exact safeP_runLoop he len sym' F' hs' hF'

/-- the loop invariant of `read_frequencies` -/
def FreqInv {α : Type} (P : α → Prop) (st : Nat × Nat × List α) : Prop := st.1 < 256 ∧ Tab P st.2.2

theorem safeP_freqRest {α : Type} {entry : Rd α} {P : α → Prop} (he : SafeP entry P)
    (prev : Nat) {F : List α} (hF : Tab P F) :
    SafeP (readU8 >>= fun sym =>
        if sym = 0 then (Pure.pure (Sum.inr F) : Rd ((Nat × Nat × List α) ⊕ List α))
        else Rd.lift (usub sym 1) >>= fun d =>
          if d = prev then
            readU8 >>= fun len => runLoop entry len sym F >>= fun p =>
              match p with
              | (sym, F) => (Pure.pure (Sum.inl (sym, sym, F)) : Rd ((Nat × Nat × List α) ⊕ List α))
          else Pure.pure (Sum.inl (sym, sym, F)))
      (Sum.elim (FreqInv P) (Tab P)) := by
  refine safeP_bind safeP_readU8 fun sym hsym => ?_
  refine safeP_ite (fun _ => safeP_pure hF) fun h0 => ?_
  refine safeP_bind (P := fun _ => True)
    (safeP_lift (by unfold usub; rw [if_pos (by omega)]; simp) fun _ _ => trivial) fun d _ => ?_
  refine safeP_ite (fun _ => ?_) fun _ => safeP_pure ⟨hsym, hF⟩
  refine safeP_bind safeP_readU8 fun len _ => ?_
  refine safeP_bind (safeP_runLoop he len sym F hsym hF) fun p hp => ?_
  obtain ⟨sym', F'⟩ := p
  exact safeP_pure ⟨hp.1, hp.2⟩

theorem freqBody_eq {α : Type} (entry : Rd α) (st : Nat × Nat × List α) :
    freqBody entry st = (entry >>= fun f => Rd.lift (setN st.2.2 st.1 f) >>= fun F =>
      readU8 >>= fun sym =>
        if sym = 0 then (Pure.pure (Sum.inr F) : Rd ((Nat × Nat × List α) ⊕ List α))
        else Rd.lift (usub sym 1) >>= fun d =>
          if d = st.2.1 then
            readU8 >>= fun len => runLoop entry len sym F >>= fun p =>
              match p with
              | (sym, F) => (Pure.pure (Sum.inl (sym, sym, F)) : Rd ((Nat × Nat × List α) ⊕ List α))
          else Pure.pure (Sum.inl (sym, sym, F))) := rfl

theorem safeP_freqBody {α : Type} {entry : Rd α} {P : α → Prop} (he : SafeP entry P)
    (st : Nat × Nat × List α) (hst : FreqInv P st) :
    SafeP (freqBody entry st)
      (Sum.elim (FreqInv P) (Tab P)) := by
  rw [freqBody_eq]
  refine safeP_bind he fun f hf => ?_
  refine safeP_bind (safeP_setN hst.2 hst.1 hf) fun F' hF' => ?_
  exact safeP_freqRest he st.2.1 hF'

theorem strict_freqBody {α : Type} {entry : Rd α} {P : α → Prop} (he : SafeP entry P)
    (st : Nat × Nat × List α) (hst : FreqInv P st) : Strict (freqBody entry st) := by
  rw [freqBody_eq]
  refine strict_bind_right he fun f hf => ?_
  refine strict_bind_right (safeP_setN hst.2 hst.1 hf) fun F' hF' => ?_
  have := safeP_freqRest he st.2.1 hF'
  intro s a r h
  obtain ⟨sym, r1, h1, h2⟩ := bind_ok_inv h
  have hlt := strict_readU8 _ _ _ h1
  have hle : r.length ≤ r1.length := by
    -- the continuation after the byte is part of a safe reader: it returns a suffix
    have hs := this.suffix (s := s) (a := a) (r := r) (by rw [bind_apply, h1]; exact h2)
    -- `r` is a suffix of `s`; we need it relative to `r1`: redo with the continuation alone
    clear hs
    by_cases h0 : sym = 0
    · rw [if_pos h0] at h2
      simp only [pure_apply, Res.ok.injEq, Prod.mk.injEq] at h2
      rw [← h2.2]; exact Nat.le_refl _
    · rw [if_neg h0] at h2
      obtain ⟨d, r2, h3, h4⟩ := bind_ok_inv h2
      have e2 : r2 = r1 := by
        unfold usub at h3
        rw [if_pos (by omega)] at h3
        simp only [Rd.lift, Res.ok.injEq, Prod.mk.injEq] at h3
        exact h3.2.symm
      subst e2
      by_cases hd : d = st.2.1
      · rw [if_pos hd] at h4
        obtain ⟨len, r3, h5, h6⟩ := bind_ok_inv h4
        obtain ⟨p, r4, h7, h8⟩ := bind_ok_inv h6
        have hsym : sym < 256 := safeP_readU8.post h1
        have l1 := (safeP_readU8).length_le h5
        have l2 := (safeP_runLoop he len sym F' hsym hF').length_le h7
        obtain ⟨sym', F''⟩ := p
        simp only [pure_apply, Res.ok.injEq, Prod.mk.injEq] at h8
        rw [← h8.2]; omega
      · rw [if_neg hd] at h4
        simp only [pure_apply, Res.ok.injEq, Prod.mk.injEq] at h4
        rw [← h4.2]; exact Nat.le_refl _
  omega

theorem safeP_readRuns {α : Type} {entry : Rd α} {P : α → Prop} (he : SafeP entry P) {zero : α}
    (hz : P zero) : SafeP (readRuns entry zero) (Tab P) := by
  unfold readRuns
  refine safeP_bind safeP_readU8 fun sym hsym => ?_
  exact safeP_loop (I := FreqInv P) (fun a ha => safeP_freqBody he a ha)
    (fun a s a' r ha h => strict_freqBody he a ha s _ r h) ⟨hsym, tab_replicate hz⟩

theorem strict_readRuns {α : Type} {entry : Rd α} {P : α → Prop} (he : SafeP entry P) {zero : α}
    (hz : P zero) : Strict (readRuns entry zero) := by
  unfold readRuns
  refine strict_bind_left (Q := Tab P) strict_readU8 safeP_readU8 fun sym hsym => ?_
  exact safeP_loop (I := FreqInv P) (Q := Tab P) (fun a ha => safeP_freqBody he a ha)
    (fun a s a' r ha h => strict_freqBody he a ha s _ r h) ⟨hsym, tab_replicate hz⟩

/-! ## validation -/

theorem sum32_eq : ∀ (F : List Nat), (∀ f ∈ F, f < 65536) → F.length ≤ 256 →
    sum32 F = .ok F.sum ∧ F.sum ≤ 65535 * F.length
  | [], _, _ => by simp [sum32]
  | f :: rest, h, hl => by
    have ih := sum32_eq rest (fun a ha => h a (List.mem_cons_of_mem _ ha))
      (by simp only [List.length_cons] at hl; omega)
    have hf := h f List.mem_cons_self
    simp only [List.length_cons] at hl
    unfold sum32
    rw [ih.1]
    simp only [Res.bind_ok, List.sum_cons, List.length_cons]
    unfold add32
    rw [if_pos (by omega)]
    exact ⟨rfl, by omega⟩

/-- a validated frequency table: 256 entries, total at most 4096 -/
def Freqs (F : List Nat) : Prop := F.length = 256 ∧ F.sum ≤ 4096

theorem sum_replicate_zero : ∀ n : Nat, (List.replicate n 0).sum = 0
  | 0 => rfl
  | n + 1 => by rw [List.replicate_succ, List.sum_cons, sum_replicate_zero n]

theorem freqs_zero : Freqs (List.replicate 256 0) :=
  ⟨List.length_replicate, by rw [sum_replicate_zero]; omega⟩

theorem safeP_readFrequencies : SafeP readFrequencies Freqs := by
  unfold readFrequencies
  refine safeP_bind (safeP_readRuns safeP_readItf8U16 (zero := 0) (by decide)) fun F hF => ?_
  have hs := sum32_eq F hF.2 (by rw [hF.1]; exact Nat.le_refl _)
  unfold validateFrequencies
  rw [hs.1]
  refine safeP_bind (P := fun _ => F.sum ≤ 4096) ?_ fun _ h => safeP_pure ⟨hF.1, h⟩
  refine safeP_bind (P := fun v => v = F.sum) (safeP_lift (by simp) fun a e => by cases e; rfl)
    fun v hv => ?_
  subst hv
  exact safeP_ite (fun h => safeP_pure h) fun _ => safeP_fail _

theorem strict_readFrequencies : Strict readFrequencies := by
  unfold readFrequencies
  refine strict_bind_left (strict_readRuns safeP_readItf8U16 (zero := 0) (by decide))
    (safeP_readRuns safeP_readItf8U16 (zero := 0) (by decide)) (Q := fun _ => True) fun F hF => ?_
  have hs := sum32_eq F hF.2 (by rw [hF.1]; exact Nat.le_refl _)
  unfold validateFrequencies
  rw [hs.1]
  refine safeP_bind (P := fun _ => True) ?_ fun _ _ => safeP_pure trivial
  refine safeP_bind (P := fun _ => True) (safeP_lift (by simp) fun _ _ => trivial) fun v _ => ?_
  exact safeP_ite (fun _ => safeP_pure trivial) fun _ => safeP_fail _

theorem le_sum_of_mem : ∀ {l : List Nat} {a : Nat}, a ∈ l → a ≤ l.sum
  | b :: rest, a, h => by
    rcases List.mem_cons.mp h with rfl | h
    · simp
    · have := le_sum_of_mem h; simp only [List.sum_cons]; omega

theorem Freqs.entry_le {F : List Nat} (h : Freqs F) {f : Nat} (hf : f ∈ F) : f ≤ 4096 :=
  Nat.le_trans (le_sum_of_mem hf) h.2

/-! ## cumulative frequencies -/

theorem cumFrom_add16 : ∀ (l : List Nat) (f : Nat), f + l.sum < 2^16 →
    ∃ C, cumFrom add16 f l = .ok C ∧ C.length = l.length
  | [], f, _ => ⟨[], rfl, rfl⟩
  | g :: rest, f, h => by
    simp only [List.sum_cons] at h
    obtain ⟨C, hC, hl⟩ := cumFrom_add16 rest (f + g) (by omega)
    refine ⟨(f + g) :: C, ?_, by simp [hl]⟩
    have ha : add16 f g = .ok (f + g) := by unfold add16; rw [if_pos (by omega)]
    unfold cumFrom
    rw [ha]
    dsimp only
    rw [hC]

theorem sum_take_le (l : List Nat) (n : Nat) : (l.take n).sum ≤ l.sum := by
  induction l generalizing n with
  | nil => simp
  | cons a t ih =>
    cases n with
    | zero => simp
    | succ n => simp only [List.take_succ_cons, List.sum_cons]; have := ih n; omega

/-- what the decoder needs of the cumulative table: 256 entries, the first is 0 -/
def Cum (C : List Nat) : Prop := C.length = 256 ∧ C[0]? = some 0

theorem buildCum_add16 {F : List Nat} (h : Freqs F) : ∃ C, buildCum add16 F = .ok C ∧ Cum C := by
  have := sum_take_le F 255
  obtain ⟨C, hC, hl⟩ := cumFrom_add16 (F.take 255) 0 (by have := h.2; omega)
  refine ⟨0 :: C, ?_, ?_, rfl⟩
  · unfold buildCum; rw [hC]; rfl
  · simp only [List.length_cons, hl, List.length_take, h.1]; rfl

/-! ## the lookup table -/

theorem advance_spec (C : Array Nat) (hC : C.size = 256) (f : Nat) :
    ∀ (fuel sym : Nat), 256 ≤ fuel + sym → sym ≤ 255 → (∃ c, C[sym]? = some c ∧ c ≤ f) →
      ∃ v, advance C f fuel sym = .ok v ∧ v ≤ 255 ∧ ∃ c, C[v]? = some c ∧ c ≤ f
  | 0, sym, h, hs, _ => by omega
  | fuel + 1, sym, h, hs, hc => by
    unfold advance
    split
    · rename_i hlt
      have hi : sym + 1 < C.size := by omega
      unfold idxA
      rw [Array.getElem?_eq_getElem hi]
      simp only [Res.bind_ok]
      split
      · rename_i hge
        exact advance_spec C hC f fuel (sym + 1) (by omega) (by omega)
          ⟨C[sym + 1], Array.getElem?_eq_getElem hi, hge⟩
      · exact ⟨sym, rfl, hs, hc⟩
    · exact ⟨sym, rfl, hs, hc⟩

/-- the slots filled so far are good: slot `i` holds a symbol `v ≤ 255` with `C[v] ≤ i` -/
def Slots (C t : Array Nat) : Prop :=
  ∀ (i v : Nat), t[i]? = some v → v ≤ 255 ∧ ∃ c, C[v]? = some c ∧ c ≤ i

theorem tableLoop_spec (C : Array Nat) (hC : C.size = 256) :
    ∀ (k f sym : Nat) (t : Array Nat), sym ≤ 255 → (∃ c, C[sym]? = some c ∧ c ≤ f) →
      t.size = f → Slots C t →
      ∃ T, tableLoop C k f sym t = .ok T ∧ T.size = f + k ∧ Slots C T
  | 0, f, sym, t, _, _, ht, hs => ⟨t, rfl, by omega, hs⟩
  | k + 1, f, sym, t, hs, hc, ht, hsl => by
    obtain ⟨v, hv, hv255, c, hcv, hcf⟩ := advance_spec C hC f 256 sym (by omega) hs hc
    unfold tableLoop
    rw [hv]
    dsimp only
    have hsl' : Slots C (t.push v) := by
      intro i w hw
      rw [Array.getElem?_push] at hw
      split at hw
      · rename_i hi
        cases hw
        exact ⟨hv255, c, hcv, by omega⟩
      · exact hsl i w hw
    obtain ⟨T, hT, hsz, hall⟩ := tableLoop_spec C hC k (f + 1) v (t.push v) hv255
      ⟨c, hcv, by omega⟩ (by simp [ht]) hsl'
    exact ⟨T, hT, by omega, hall⟩

/-- what the decoder needs of a lookup table built from `C`: 4096 slots, slot `f` holds a symbol
`v < 256` with `C[v] ≤ f` -/
def Table (C : List Nat) (T : Array Nat) : Prop :=
  T.size = 4096 ∧ ∀ f v, T[f]? = some v → v < 256 ∧ ∃ c, C[v]? = some c ∧ c ≤ f

theorem buildTable_spec {C : List Nat} (h : Cum C) : ∃ T, buildTable C = .ok T ∧ Table C T := by
  obtain ⟨T, hT, hsz, hall⟩ := tableLoop_spec C.toArray (by simp [h.1]) 4096 0 0
    (Array.mkEmpty 4096) (by omega) ⟨0, by simp [h.2], Nat.le_refl _⟩ (by simp)
    (fun i v hv => by simp at hv)
  refine ⟨T, hT, by omega, ?_⟩
  intro f v hv
  obtain ⟨h1, c, h2, h3⟩ := hall f v hv
  rw [List.getElem?_toArray] at h2
  exact ⟨by omega, c, h2, h3⟩

/-! ## the state machine -/

theorem and_fff_le (s : Nat) : s &&& 0x0fff ≤ 4095 := Nat.and_le_right

theorem stateStep_spec {s f g : Nat} (hs : s < 2^32) (hf : f ≤ 4096) (hg : g ≤ s &&& 0x0fff) :
    ∃ v, stateStep s f g = .ok v ∧ v < 2^32 := by
  have h1 : s >>> 12 ≤ 1048575 := by
    rw [Nat.shiftRight_eq_div_pow]; omega
  have h2 : f * (s >>> 12) ≤ 4096 * 1048575 := Nat.mul_le_mul hf h1
  have h3 := and_fff_le s
  refine ⟨f * (s >>> 12) + (s &&& 0x0fff) - g, ?_, by omega⟩
  unfold stateStep mul32
  rw [if_pos (by omega)]
  simp only [Res.bind_ok]
  unfold add32
  rw [if_pos (by omega)]
  simp only [Res.bind_ok]
  unfold usub
  rw [if_pos (by omega)]

theorem safeP_renormBody (s : Nat) (hs : s < 2^32) :
    SafeP (renormBody s) (Sum.elim (fun a' => a' < 2^32) (fun b => b < 2^32)) := by
  unfold renormBody
  refine safeP_ite (fun _ => ?_) fun _ => safeP_pure hs
  refine safeP_bind safeP_readU8 fun b hb => ?_
  refine safeP_pure ?_
  exact Nat.or_lt_two_pow (Nat.mod_lt _ (by decide)) (by omega)

theorem strict_renormBody (s : Nat) : ∀ t a' r, renormBody s t = .ok (.inl a', r) →
    r.length < t.length := by
  intro t a' r h
  unfold renormBody at h
  split at h
  · obtain ⟨b, r1, h1, h2⟩ := bind_ok_inv h
    simp only [pure_apply, Res.ok.injEq, Prod.mk.injEq] at h2
    rw [← h2.2]; exact strict_readU8 _ _ _ h1
  · simp only [pure_apply, Res.ok.injEq, Prod.mk.injEq] at h
    cases h.1

theorem safeP_renormalize {s : Nat} (hs : s < 2^32) : SafeP (renormalize s) fun v => v < 2^32 :=
  safeP_loop (I := fun a => a < 2^32) (fun a ha => safeP_renormBody a ha)
    (fun a t a' r _ h => strict_renormBody a t a' r h) hs

/-- the tables of one context, as the symbol loop needs them -/
structure Ctx (F C : List Nat) (T : Array Nat) : Prop where
  freqs : Freqs F
  cum : Cum C
  table : Table C T

theorem safeP_decodeSym {F C : List Nat} {T : Array Nat} (h : Ctx F C T) {s : Nat} (hs : s < 2^32) :
    SafeP (decodeSym F C T s) fun p => p.1 < 256 ∧ p.2 < 2^32 := by
  unfold decodeSym
  have hslot : stateCumFreq s < T.size := by
    rw [h.table.1]; have := and_fff_le s; unfold stateCumFreq; omega
  refine safeP_bind (P := fun sym => sym < 256 ∧ ∃ c, C[sym]? = some c ∧ c ≤ stateCumFreq s)
    (safeP_lift (idxA_ne_panic hslot) fun sym e => h.table.2 _ _ (idxA_ok e)) fun sym hsym => ?_
  refine safeP_bind (P := fun f => f ≤ 4096)
    (safeP_lift (idxN_ne_panic (by rw [h.freqs.1]; exact hsym.1)) fun f e =>
      h.freqs.entry_le (idxN_mem e)) fun f hf => ?_
  obtain ⟨c, hc, hcs⟩ := hsym.2
  refine safeP_bind (P := fun g => g ≤ stateCumFreq s)
    (safeP_lift (idxN_ne_panic (by rw [h.cum.1]; exact hsym.1)) fun g e => by
      have := idxN_ok e; rw [hc] at this; cases this; exact hcs) fun g hg => ?_
  obtain ⟨v, hv, hv32⟩ := stateStep_spec hs hf hg
  rw [hv]
  refine safeP_bind (P := fun s' => s' < 2^32) (safeP_lift (by simp) fun a e => by cases e; exact hv32)
    fun s' hs' => ?_
  refine safeP_bind (safeP_renormalize hs') fun s'' hs'' => ?_
  exact safeP_pure ⟨hsym.1, hs''⟩

/-! ## order 0 -/

/-- loop state of the order-0 symbol loop: four states below `2^32` -/
def St0 (st : List Nat × List Nat) : Prop := st.1.length = 4 ∧ ∀ s ∈ st.1, s < 2^32

theorem safeP_step0 {F C : List Nat} {T : Array Nat} (h : Ctx F C T) (i : Nat)
    (st : List Nat × List Nat) (hst : St0 st) : SafeP (step0 F C T i st) St0 := by
  unfold step0
  have hj : i % 4 < st.1.length := by rw [hst.1]; exact Nat.mod_lt _ (by decide)
  refine safeP_bind (P := fun s => s < 2^32)
    (safeP_lift (idxN_ne_panic hj) fun s e => hst.2 s (idxN_mem e)) fun s hs => ?_
  refine safeP_bind (safeP_decodeSym h hs) fun p hp => ?_
  obtain ⟨sym, s'⟩ := p
  dsimp only
  refine safeP_bind (P := fun l => l.length = 4 ∧ ∀ s ∈ l, s < 2^32)
    (safeP_lift (setN_ne_panic hj) fun l e => by
      rw [(setN_ok e).1]; exact ⟨by simp [hst.1], mem_set_of hst.2 hp.2⟩) fun l hl => ?_
  exact safeP_pure hl

/-- one step appends exactly one symbol -/
theorem safeP_step0_len {F C : List Nat} {T : Array Nat} (h : Ctx F C T) (i : Nat)
    (st : List Nat × List Nat) (hst : St0 st) :
    SafeP (step0 F C T i st) fun st' => St0 st' ∧ st'.2.length = st.2.length + 1 := by
  unfold step0
  have hj : i % 4 < st.1.length := by rw [hst.1]; exact Nat.mod_lt _ (by decide)
  refine safeP_bind (P := fun s => s < 2^32)
    (safeP_lift (idxN_ne_panic hj) fun s e => hst.2 s (idxN_mem e)) fun s hs => ?_
  refine safeP_bind (safeP_decodeSym h hs) fun p hp => ?_
  obtain ⟨sym, s'⟩ := p
  dsimp only
  refine safeP_bind (P := fun l => l.length = 4 ∧ ∀ s ∈ l, s < 2^32)
    (safeP_lift (setN_ne_panic hj) fun l e => by
      rw [(setN_ok e).1]; exact ⟨by simp [hst.1], mem_set_of hst.2 hp.2⟩) fun l hl => ?_
  exact safeP_pure ⟨hl, by simp⟩

theorem safeP_readStates : SafeP readStates fun l => l.length = 4 ∧ ∀ s ∈ l, s < 2^32 :=
  safeP_many safeP_readU32 4

theorem safeP_decode0 (n : Nat) : SafeP (decode0 n) fun out => out.length = n := by
  unfold decode0
  refine safeP_bind safeP_readFrequencies fun F hF => ?_
  obtain ⟨C, hC, hcum⟩ := buildCum_add16 hF
  rw [hC]
  refine safeP_bind (P := fun C' => C' = C) (safeP_lift (by simp) fun a e => by cases e; rfl)
    fun C' hC' => ?_
  subst hC'
  obtain ⟨T, hT, htab⟩ := buildTable_spec hcum
  rw [hT]
  refine safeP_bind (P := fun T' => T' = T) (safeP_lift (by simp) fun a e => by cases e; rfl)
    fun T' hT' => ?_
  subst hT'
  refine safeP_bind safeP_readStates fun states hst => ?_
  refine safeP_bind (safeP_forN (I := fun i st => St0 st ∧ st.2.length = i)
    (fun i st h => (safeP_step0_len ⟨hF, hcum, htab⟩ i st h.1).mono fun st' h' =>
      ⟨h'.1, by rw [h'.2, h.2]⟩) n 0 (states, []) ⟨hst, rfl⟩) fun p hp => ?_
  obtain ⟨_, out⟩ := p
  exact safeP_pure (by simpa using hp.2)

/-! ## order 1 -/

theorem safeP_readFrequencies1 : SafeP readFrequencies1 (Tab Freqs) :=
  safeP_readRuns safeP_readFrequencies freqs_zero

theorem mapRows_spec {α β : Type} {f : α → Res β} {P : α → Prop} {Q : α → β → Prop}
    (hf : ∀ a, P a → ∃ b, f a = .ok b ∧ Q a b) :
    ∀ (l : List α), (∀ a ∈ l, P a) →
      ∃ m, mapRows f l = .ok m ∧ m.length = l.length ∧
        ∀ (i : Nat) (a : α) (b : β), l[i]? = some a → m[i]? = some b → Q a b
  | [], _ => ⟨[], rfl, rfl, fun i a b h => by simp at h⟩
  | a :: rest, h => by
    obtain ⟨b, hb, hq⟩ := hf a (h a List.mem_cons_self)
    obtain ⟨m, hm, hl, hall⟩ := mapRows_spec hf rest fun x hx => h x (List.mem_cons_of_mem _ hx)
    refine ⟨b :: m, ?_, by simp [hl], ?_⟩
    · unfold mapRows; rw [hb]; simp only [Res.bind_ok, hm, Res.pure_eq]
    · intro i a' b' ha' hb'
      cases i with
      | zero =>
        simp only [List.getElem?_cons_zero, Option.some.injEq] at ha' hb'
        subst ha' hb'; exact hq
      | succ i =>
        simp only [List.getElem?_cons_succ] at ha' hb'
        exact hall i a' b' ha' hb'

/-- the tables of all 256 contexts -/
structure Ctx1 (Fs Cs : List (List Nat)) (Ts : List (Array Nat)) : Prop where
  lenF : Fs.length = 256
  lenC : Cs.length = 256
  lenT : Ts.length = 256
  row : ∀ (i : Nat) F C T, Fs[i]? = some F → Cs[i]? = some C → Ts[i]? = some T → Ctx F C T

theorem safeP_decodeSym1 {Fs Cs : List (List Nat)} {Ts : List (Array Nat)} (h : Ctx1 Fs Cs Ts)
    {prev s : Nat} (hp : prev < 256) (hs : s < 2^32) :
    SafeP (decodeSym1 Fs Cs Ts prev s) fun p => p.1 < 256 ∧ p.2 < 2^32 := by
  unfold decodeSym1
  refine safeP_bind (P := fun F => Fs[prev]? = some F)
    (safeP_lift (idxN_ne_panic (by rw [h.lenF]; exact hp)) fun F e => idxN_ok e) fun F hF => ?_
  refine safeP_bind (P := fun C => Cs[prev]? = some C)
    (safeP_lift (idxN_ne_panic (by rw [h.lenC]; exact hp)) fun C e => idxN_ok e) fun C hC => ?_
  refine safeP_bind (P := fun T => Ts[prev]? = some T)
    (safeP_lift (idxN_ne_panic (by rw [h.lenT]; exact hp)) fun T e => idxN_ok e) fun T hT => ?_
  exact safeP_decodeSym (h.row prev F C T hF hC hT) hs

/-- loop state of the interleaved order-1 loop -/
def St1 (st : List Nat × List Nat × List (List Nat)) : Prop :=
  (st.1.length = 4 ∧ ∀ s ∈ st.1, s < 2^32) ∧ (st.2.1.length = 4 ∧ ∀ p ∈ st.2.1, p < 256) ∧
    st.2.2.length = 4

theorem safeP_lane1 {Fs Cs : List (List Nat)} {Ts : List (Array Nat)} (h : Ctx1 Fs Cs Ts)
    (j : Nat) (hj : j < 4) (st : List Nat × List Nat × List (List Nat)) (hst : St1 st) :
    SafeP (lane1 Fs Cs Ts j st) St1 := by
  unfold lane1
  obtain ⟨⟨hl1, hs1⟩, ⟨hl2, hs2⟩, hl3⟩ := hst
  refine safeP_bind (P := fun s => s < 2^32)
    (safeP_lift (idxN_ne_panic (by omega)) fun s e => hs1 s (idxN_mem e)) fun s hs => ?_
  refine safeP_bind (P := fun p => p < 256)
    (safeP_lift (idxN_ne_panic (by omega)) fun p e => hs2 p (idxN_mem e)) fun p hp => ?_
  refine safeP_bind (safeP_decodeSym1 h hp hs) fun q hq => ?_
  obtain ⟨sym, s'⟩ := q
  dsimp only
  refine safeP_bind (P := fun l => l.length = 4 ∧ ∀ s ∈ l, s < 2^32)
    (safeP_lift (setN_ne_panic (by omega)) fun l e => by
      rw [(setN_ok e).1]; exact ⟨by simp [hl1], mem_set_of hs1 hq.2⟩) fun l hl => ?_
  refine safeP_bind (P := fun l => l.length = 4 ∧ ∀ s ∈ l, s < 256)
    (safeP_lift (setN_ne_panic (by omega)) fun l e => by
      rw [(setN_ok e).1]; exact ⟨by simp [hl2], mem_set_of hs2 hq.1⟩) fun l' hl' => ?_
  refine safeP_bind (P := fun _ => True)
    (safeP_lift (idxN_ne_panic (by omega)) fun _ _ => trivial) fun out _ => ?_
  refine safeP_bind (P := fun o => o.length = 4)
    (safeP_lift (setN_ne_panic (by omega)) fun o e => by rw [(setN_ok e).1]; simp [hl3])
    fun o ho => ?_
  exact safeP_pure ⟨hl, hl', ho⟩

theorem safeP_lanes1 {Fs Cs : List (List Nat)} {Ts : List (Array Nat)} (h : Ctx1 Fs Cs Ts)
    (st : List Nat × List Nat × List (List Nat)) (hst : St1 st) :
    SafeP (forN (lane1 Fs Cs Ts) 4 0 st) St1 := by
  exact safeP_forN_lt (body := lane1 Fs Cs Ts) (I := fun _ st => St1 st) (N := 4)
    (fun j st hj hst => safeP_lane1 h j hj st hst) 4 0 st (by omega) hst

theorem safeP_tail1 {Fs Cs : List (List Nat)} {Ts : List (Array Nat)} (h : Ctx1 Fs Cs Ts)
    (i : Nat) (st : Nat × Nat × List Nat) (hst : st.1 < 2^32 ∧ st.2.1 < 256) :
    SafeP (tail1 Fs Cs Ts i st) fun st' => st'.1 < 2^32 ∧ st'.2.1 < 256 := by
  unfold tail1
  refine safeP_bind (safeP_decodeSym1 h hst.2 hst.1) fun q hq => ?_
  obtain ⟨sym, s'⟩ := q
  exact safeP_pure ⟨hq.2, hq.1⟩


/-! ### the order-1 loops write each destination byte once -/

def total (outs : List (List Nat)) : Nat := (outs.map List.length).sum

theorem total_set : ∀ {outs : List (List Nat)} {j : Nat} {out : List Nat} (x : Nat),
    outs[j]? = some out → total (outs.set j (x :: out)) = total outs + 1
  | [], _, _, _, h => by simp at h
  | o :: rest, 0, out, x, h => by
    simp only [List.getElem?_cons_zero, Option.some.injEq] at h
    subst h
    simp only [total, List.set_cons_zero, List.map_cons, List.sum_cons, List.length_cons]; omega
  | o :: rest, j + 1, out, x, h => by
    simp only [List.getElem?_cons_succ] at h
    have := total_set x h
    simp only [total, List.set_cons_succ, List.map_cons, List.sum_cons] at this ⊢
    omega

theorem safeP_lane1_len {Fs Cs : List (List Nat)} {Ts : List (Array Nat)} (h : Ctx1 Fs Cs Ts)
    (j : Nat) (hj : j < 4) (st : List Nat × List Nat × List (List Nat)) (hst : St1 st) :
    SafeP (lane1 Fs Cs Ts j st) fun st' => St1 st' ∧ total st'.2.2 = total st.2.2 + 1 := by
  unfold lane1
  obtain ⟨⟨hl1, hs1⟩, ⟨hl2, hs2⟩, hl3⟩ := hst
  refine safeP_bind (P := fun s => s < 2^32)
    (safeP_lift (idxN_ne_panic (by omega)) fun s e => hs1 s (idxN_mem e)) fun s hs => ?_
  refine safeP_bind (P := fun p => p < 256)
    (safeP_lift (idxN_ne_panic (by omega)) fun p e => hs2 p (idxN_mem e)) fun p hp => ?_
  refine safeP_bind (safeP_decodeSym1 h hp hs) fun q hq => ?_
  obtain ⟨sym, s'⟩ := q
  dsimp only
  refine safeP_bind (P := fun l => l.length = 4 ∧ ∀ s ∈ l, s < 2^32)
    (safeP_lift (setN_ne_panic (by omega)) fun l e => by
      rw [(setN_ok e).1]; exact ⟨by simp [hl1], mem_set_of hs1 hq.2⟩) fun l hl => ?_
  refine safeP_bind (P := fun l => l.length = 4 ∧ ∀ s ∈ l, s < 256)
    (safeP_lift (setN_ne_panic (by omega)) fun l e => by
      rw [(setN_ok e).1]; exact ⟨by simp [hl2], mem_set_of hs2 hq.1⟩) fun l' hl' => ?_
  refine safeP_bind (P := fun out => st.2.2[j]? = some out)
    (safeP_lift (idxN_ne_panic (by omega)) fun out e => idxN_ok e) fun out hout => ?_
  refine safeP_bind (P := fun o => o.length = 4 ∧ total o = total st.2.2 + 1)
    (safeP_lift (setN_ne_panic (by omega)) fun o e => by
      rw [(setN_ok e).1]; exact ⟨by simp [hl3], total_set sym hout⟩)
    fun o ho => ?_
  exact safeP_pure ⟨⟨hl, hl', ho.1⟩, ho.2⟩

theorem safeP_lanes1_len {Fs Cs : List (List Nat)} {Ts : List (Array Nat)} (h : Ctx1 Fs Cs Ts)
    (st : List Nat × List Nat × List (List Nat)) (hst : St1 st) :
    SafeP (forN (lane1 Fs Cs Ts) 4 0 st) fun st' => St1 st' ∧ total st'.2.2 = total st.2.2 + 4 := by
  have := safeP_forN_lt (body := lane1 Fs Cs Ts)
    (I := fun j st' => St1 st' ∧ total st'.2.2 = total st.2.2 + j) (N := 4)
    (fun j st' hj hst' => (safeP_lane1_len h j hj st' hst'.1).mono fun st'' h'' =>
      ⟨h''.1, by rw [h''.2, hst'.2]; omega⟩) 4 0 st (by omega) ⟨hst, by omega⟩
  exact this.mono fun a ha => ⟨ha.1, by rw [ha.2]⟩

theorem safeP_tail1_len {Fs Cs : List (List Nat)} {Ts : List (Array Nat)} (h : Ctx1 Fs Cs Ts)
    (i : Nat) (st : Nat × Nat × List Nat) (hst : st.1 < 2^32 ∧ st.2.1 < 256) :
    SafeP (tail1 Fs Cs Ts i st) fun st' =>
      (st'.1 < 2^32 ∧ st'.2.1 < 256) ∧ st'.2.2.length = st.2.2.length + 1 := by
  unfold tail1
  refine safeP_bind (safeP_decodeSym1 h hst.2 hst.1) fun q hq => ?_
  obtain ⟨sym, s'⟩ := q
  exact safeP_pure ⟨⟨hq.2, hq.1⟩, by simp⟩

theorem length_out1 (outs : List (List Nat)) (tl : List Nat) :
    ((outs.map List.reverse).flatten ++ tl.reverse).length = total outs + tl.length := by
  have : List.length ∘ List.reverse = (List.length : List Nat → Nat) := by
    funext l; simp
  simp only [List.length_append, List.length_flatten, List.map_map, List.length_reverse, total, this]

theorem ctx1_of {Fs Cs : List (List Nat)} {Ts : List (Array Nat)} (hF : Tab Freqs Fs)
    (hCl : Cs.length = Fs.length)
    (hC : ∀ (i : Nat) (F C : List Nat), Fs[i]? = some F → Cs[i]? = some C → Cum C)
    (hTl : Ts.length = Cs.length)
    (hT : ∀ (i : Nat) (C : List Nat) (T : Array Nat), Cs[i]? = some C → Ts[i]? = some T → Table C T) :
    Ctx1 Fs Cs Ts where
  lenF := hF.1
  lenC := by rw [hCl, hF.1]
  lenT := by rw [hTl, hCl, hF.1]
  row i F C T h1 h2 h3 := ⟨hF.2 F (List.mem_of_getElem? h1), hC i F C h1 h2, hT i C T h2 h3⟩

theorem usub_eq {a b : Nat} (h : b ≤ a) : usub a b = .ok (a - b) := by unfold usub; rw [if_pos h]

theorem umul_eq {a b : Nat} (h : a * b < 2^64) : umul a b = .ok (a * b) := by
  unfold umul USIZE; rw [if_pos h]

theorem safeP_liftOk {α : Type} (a : α) : SafeP (Rd.lift (.ok a)) fun v => v = a :=
  safeP_lift (by simp) fun v e => by cases e; rfl

theorem safeP_decode1 (n : Nat) (hn : n < 2^32) : SafeP (decode1 n) fun out => out.length = n := by
  unfold decode1
  refine safeP_bind safeP_readFrequencies1 fun Fs hFs => ?_
  obtain ⟨Cs, hCs, hCl, hCall⟩ := mapRows_spec (f := buildCum add16) (P := Freqs)
    (Q := fun _ C => Cum C) (fun F hF => buildCum_add16 hF) Fs hFs.2
  rw [hCs]
  refine safeP_bind (safeP_liftOk Cs) fun Cs' e => ?_
  subst e
  have hCum : ∀ C ∈ Cs', Cum C := by
    intro C hC
    obtain ⟨i, hi, rfl⟩ := List.getElem_of_mem hC
    have hi' : i < Fs.length := by omega
    exact hCall i Fs[i] Cs'[i] (List.getElem?_eq_getElem hi') (List.getElem?_eq_getElem hi)
  obtain ⟨Ts, hTs, hTl, hTall⟩ := mapRows_spec (f := buildTable) (P := Cum)
    (Q := fun C T => Table C T) (fun C hC => buildTable_spec hC) Cs' hCum
  rw [hTs]
  refine safeP_bind (safeP_liftOk Ts) fun Ts' e => ?_
  subst e
  have hctx : Ctx1 Fs Cs' Ts' := ctx1_of hFs hCl (fun i F C h1 h2 => hCall i F C h1 h2) hTl hTall
  refine safeP_bind safeP_readStates fun states hst => ?_
  dsimp only
  rw [umul_eq (by omega)]
  refine safeP_bind (safeP_liftOk _) fun q2 e => ?_
  subst e
  rw [usub_eq (by omega)]
  refine safeP_bind (safeP_liftOk _) fun right e => ?_
  subst e
  rw [usub_eq (by omega)]
  refine safeP_bind (safeP_liftOk _) fun _ _ => ?_
  rw [usub_eq (by omega)]
  refine safeP_bind (safeP_liftOk _) fun c34 e => ?_
  subst e
  rw [usub_eq (by omega)]
  refine safeP_bind (safeP_liftOk _) fun last e => ?_
  subst e
  refine safeP_bind (safeP_forN (I := fun i st => St1 st ∧ total st.2.2 = 4 * i)
    (fun i st h => (safeP_lanes1_len hctx st h.1).mono fun st' h' =>
      ⟨h'.1, by rw [h'.2, h.2]; omega⟩) (n / 4) 0
    (states, [0, 0, 0, 0], [[], [], [], []])
    ⟨⟨hst, ⟨rfl, fun p hp => by simp at hp; omega⟩, rfl⟩, rfl⟩) fun p hp => ?_
  obtain ⟨states', prevs, outs⟩ := p
  obtain ⟨⟨⟨hl1, hs1⟩, ⟨hl2, hs2⟩, _⟩, htot⟩ := hp
  have hl1 : states'.length = 4 := hl1
  have hl2 : prevs.length = 4 := hl2
  have htot : total outs = 4 * (n / 4) := by simpa using htot
  dsimp only
  refine safeP_bind (P := fun s => s < 2^32)
    (safeP_lift (idxN_ne_panic (by omega)) fun s e => hs1 s (idxN_mem e)) fun s3 hs3 => ?_
  refine safeP_bind (P := fun p => p < 256)
    (safeP_lift (idxN_ne_panic (by omega)) fun p e => hs2 p (idxN_mem e)) fun p3 hp3 => ?_
  refine safeP_bind (safeP_forN
    (I := fun i st => (st.1 < 2^32 ∧ st.2.1 < 256) ∧ st.2.2.length = i)
    (fun i st h => (safeP_tail1_len hctx i st h.1).mono fun st' h' =>
      ⟨h'.1, by rw [h'.2, h.2]⟩) _ 0 (s3, p3, []) ⟨⟨hs3, hp3⟩, rfl⟩) fun p hp => ?_
  obtain ⟨_, _, tl⟩ := p
  refine safeP_pure ?_
  have htl : tl.length = n - 2 * (n / 4) - n / 4 - n / 4 := by simpa using hp.2
  rw [length_out1, htot, htl]
  omega

theorem safeP_readOrder : SafeP readOrder fun o => o = 0 ∨ o = 1 := by
  unfold readOrder
  refine safeP_bind safeP_readU8 fun b _ => ?_
  refine safeP_ite (fun _ => safeP_pure (Or.inl rfl)) fun _ => ?_
  exact safeP_ite (fun _ => safeP_pure (Or.inr rfl)) fun _ => safeP_fail _

theorem safeP_decode (alloc : Nat → Bool) : SafeP (decode alloc) fun _ => True := by
  unfold decode
  refine safeP_bind safeP_readOrder fun order _ => ?_
  refine safeP_bind (show SafeP readSize fun n => n < 2^32 from safeP_readU32) fun _ _ => ?_
  refine safeP_bind (show SafeP readSize fun n => n < 2^32 from safeP_readU32) fun n hn => ?_
  refine safeP_bind (P := fun _ => True)
    (safeP_lift (allocZeroed_ne_panic alloc n) fun _ _ => trivial) fun _ _ => ?_
  refine safeP_ite (fun _ => safeP_pure trivial) fun _ => ?_
  refine safeP_ite (fun _ => ?_) fun _ => ?_
  · exact safeP_bind (safeP_decode0 n) fun _ _ => safeP_pure trivial
  · exact safeP_bind (safeP_decode1 n hn) fun _ _ => safeP_pure trivial

/-- the rANS 4x8 decoder, on any byte string and under any allocator behaviour, answers bytes or
an error -/
theorem decodeBytes_ne_panic (alloc : Nat → Bool) (src : Bytes) : decodeBytes alloc src ≠ .panic :=
  onBuf_ne_panic (safeP_decode alloc) src

end Noodles.Hostile.R4x8
