import Noodles.Hostile.BedText
import Noodles.Hostile.TextKitProof
/-! Helper lemmas for `Noodles/Props/C15Text.lean`: the lazy BED record (`BedText.lean`). -/
namespace Noodles.Hostile.BedText
open Noodles.Hostile Noodles.Hostile.Text Res

abbrev NoQ : Bytes → Prop := fun _ => True

theorem skipComments_sat : ∀ (fuel : Nat) (s : Bytes), s.length < 2 ^ 63 →
    Sat (skipComments fuel s) (fun r => r.length ≤ s.length)
  | 0, s, _ => by simp [skipComments, Sat]
  | fuel + 1, s, hl => by
    unfold skipComments
    split
    · split
      · rename_i i hi
        have hlt := findIdx_lt hi
        rw [uadd_ok (by simp only [USIZE]; omega), bind_ok, sliceFrom_ok (by omega), bind_ok]
        have := skipComments_sat fuel (List.drop (i + 1) s) (by simp only [List.length_drop]; omega)
        cases hr : skipComments fuel (List.drop (i + 1) s) with
        | panic => rw [hr] at this; exact this
        | err e => trivial
        | ok r =>
          rw [hr] at this
          simp only [Sat, List.length_drop] at this ⊢
          omega
      · rw [sliceFrom_ok (Nat.le_refl _), bind_ok]
        have := skipComments_sat fuel (List.drop s.length s) (by simp)
        cases hr : skipComments fuel (List.drop s.length s) with
        | panic => rw [hr] at this; exact this
        | err e => trivial
        | ok r =>
          rw [hr] at this
          simp only [Sat, List.length_drop] at this ⊢
          omega
    · simp [Sat]

theorem readOthers_sat (pre : List Nat) :
    ∀ (fuel : Nat) (src dst : Bytes) (ends : List Nat) (len : Nat),
      len + src.length < 2 ^ 63 → EndsOK NoQ (pre ++ ends) dst →
      Sat (readOthers true fuel src dst ends len) (fun r =>
        EndsOK NoQ (pre ++ r.2.1) r.1 ∧ r.2.2 ≤ len + src.length)
  | 0, src, dst, ends, len, _, he => by
    simp only [readOthers, Sat]
    exact ⟨he, by omega⟩
  | fuel + 1, src, dst, ends, len, hl, he => by
    unfold readOthers
    refine Sat.bind (readField_sat true src dst (by omega)) ?_
    intro f hf
    obtain ⟨g, hg⟩ := hf.grows rfl
    have hc := hf.consumed
    split
    · simp only [Sat]
      rw [hg]
      exact ⟨he.grow g, by omega⟩
    · rw [uadd_ok (by simp only [USIZE]; omega)]
      simp only [bind_ok]
      have he' : EndsOK NoQ (pre ++ (ends ++ [f.dst.length])) f.dst := by
        rw [← List.append_assoc, hg]; exact he.snoc trivial
      split
      · simp only [Sat]
        exact ⟨he', by omega⟩
      · have := readOthers_sat pre fuel f.rest f.dst (ends ++ [f.dst.length]) (len + f.n) (by omega) he'
        cases hr : readOthers true fuel f.rest f.dst (ends ++ [f.dst.length]) (len + f.n) with
        | panic => rw [hr] at this; exact this
        | err e => trivial
        | ok r =>
          rw [hr] at this
          exact ⟨this.1, by have := this.2; omega⟩

/-- what `read_record_N` (fixed code) leaves -/
structure RecOK (N : Nat) (p : Rec × Nat) : Prop where
  ends : EndsOK NoQ (p.1.std ++ p.1.other) p.1.buf
  count : p.1.std.length = N - 1 + 1

theorem readRecord_sat (N : Nat) (input : Bytes) (hlen : input.length < 2 ^ 63) :
    Sat (readRecord true N input) (RecOK N) := by
  unfold readRecord
  refine Sat.bind (skipComments_sat (input.length + 1) input hlen) ?_
  intro src0 h0
  refine Sat.bind (readRequired_sat readField_spec (N - 1) src0 [] [] 0 (by omega) (EndsOK.nil _ _)) ?_
  rintro ⟨dst, ends, len, src⟩ ⟨_, he, hn, hc⟩
  replace hc : len + src.length = 0 + src0.length := hc
  replace hn : ends.length = 0 + (N - 1) := hn
  replace he : EndsOK NoQ ends dst := he
  refine Sat.bind (readField_sat true src dst (by omega)) ?_
  intro f hf
  obtain ⟨g, hg⟩ := hf.grows rfl
  have hcons := hf.consumed
  rw [uadd_ok (by simp only [USIZE]; omega)]
  simp only [bind_ok]
  have he' : EndsOK NoQ (ends ++ [f.dst.length]) f.dst := by rw [hg]; exact he.snoc trivial
  have hcount : (ends ++ [f.dst.length]).length = N - 1 + 1 := by
    simp only [List.length_append, List.length_singleton]; omega
  split
  · exact ⟨by simpa using he', hcount⟩
  · have := readOthers_sat (ends ++ [f.dst.length]) (f.rest.length + 1) f.rest f.dst [] 0 (by omega)
      (by simpa using he')
    refine Sat.bind this ?_
    rintro ⟨buf, other, len'⟩ ⟨h1, h2⟩
    replace h2 : len' ≤ 0 + f.rest.length := h2
    rw [uadd_ok (by simp only [USIZE]; omega)]
    simp only [bind_ok, Sat]
    exact ⟨h1, hcount⟩

theorem EndsOK.prefix {Q : Bytes → Prop} {a b : List Nat} {buf : Bytes}
    (h : EndsOK Q (a ++ b) buf) : EndsOK Q a buf :=
  ⟨(List.pairwise_append.mp h.sorted).1, fun e he => h.le e (List.mem_append_left _ he),
   fun e he => h.pre e (List.mem_append_left _ he)⟩

theorem otherField_ne_panic {r : Rec} (h : EndsOK NoQ (r.std ++ r.other) r.buf) (i : Nat) :
    r.otherField i ≠ .panic := by
  unfold Rec.otherField
  split
  · simp
  · rename_i e he
    obtain ⟨hi, rfl⟩ := List.getElem?_eq_some_iff.mp he
    have hmem : r.other[i] ∈ r.other := List.getElem_mem hi
    have hle := h.le r.other[i] (List.mem_append_right _ hmem)
    obtain ⟨_, hso, hcross⟩ := List.pairwise_append.mp h.sorted
    have hstart : (if i = 0 then r.std.getLast?.getD 0 else r.other.getD (i - 1) 0) ≤ r.other[i] := by
      split
      · cases hl : r.std.getLast? with
        | none => simp
        | some a => exact hcross a (List.mem_of_getLast? hl) _ hmem
      · rename_i h0
        have hi1 : i - 1 < r.other.length := by omega
        have : r.other.getD (i - 1) 0 = r.other[i - 1] := by
          simp [List.getD, List.getElem?_eq_getElem hi1]
        rw [this]
        exact (List.pairwise_iff_getElem.mp hso) (i - 1) i hi1 hi (by omega)
    show (slice r.buf (if i = 0 then r.std.getLast?.getD 0 else r.other.getD (i - 1) 0) r.other[i]
      >>= fun s => ok (some s)) ≠ Res.panic
    rw [slice_ok ⟨hstart, hle⟩]
    simp

theorem others_ne_panic {r : Rec} (h : EndsOK NoQ (r.std ++ r.other) r.buf) :
    ∀ (fuel i : Nat), r.others fuel i ≠ .panic
  | 0, _ => by simp [Rec.others]
  | fuel + 1, i => by
    unfold Rec.others
    refine bind_ne_panic (otherField_ne_panic h i) ?_
    intro o _
    split
    · simp
    · refine bind_ne_panic (others_ne_panic h fuel (i + 1)) fun _ _ => ?_
      simp

theorem stdFields_ne_panic {r : Rec} (h : EndsOK NoQ r.std r.buf) :
    ∀ (m k : Nat), k + m ≤ r.std.length → stdFields r m k ≠ .panic
  | 0, _, _ => by simp [stdFields]
  | m + 1, k, hk => by
    unfold stdFields
    refine bind_ne_panic (fieldSlice_ne_panic h (by omega)) fun _ _ => ?_
    refine bind_ne_panic (stdFields_ne_panic h m (k + 1) (by omega)) fun _ _ => ?_
    simp

theorem readAndTouch_ne_panic (N : Nat) (input : Bytes) (hlen : input.length < 2 ^ 63) :
    readAndTouch true N input ≠ .panic := by
  unfold readAndTouch
  have hs := readRecord_sat N input hlen
  refine bind_ne_panic hs.ne_panic ?_
  rintro ⟨r, n⟩ hr
  have hok := hs.of_ok hr
  refine bind_ne_panic (stdFields_ne_panic (EndsOK.prefix hok.ends) N 0 (by have := hok.count; omega)) fun _ _ => ?_
  refine bind_ne_panic (others_ne_panic hok.ends _ 0) fun _ _ => ?_
  simp

/-- without a carriage return in the input the code as it is reads what the fixed code reads -/
theorem readOthers_noCR : ∀ (fuel : Nat) (src dst : Bytes) (ends : List Nat) (len : Nat),
    CR ∉ src → CR ∉ dst → readOthers false fuel src dst ends len = readOthers true fuel src dst ends len
  | 0, _, _, _, _, _, _ => rfl
  | fuel + 1, src, dst, ends, len, hs, hd => by
    unfold readOthers
    obtain ⟨e, hp⟩ := readField_noCR src dst hs hd
    rw [e]
    cases hf : readField true src dst with
    | panic => simp
    | err e => simp
    | ok f =>
      obtain ⟨h1, h2⟩ := hp f hf
      simp only [bind_ok]
      split
      · rfl
      · cases hu : uadd len f.n with
        | panic => simp
        | err e => simp
        | ok l =>
          simp only [bind_ok]
          split
          · rfl
          · exact readOthers_noCR fuel f.rest f.dst _ l h2 h1

theorem skipComments_noCR : ∀ (fuel : Nat) (s : Bytes), CR ∉ s →
    ∀ r, skipComments fuel s = .ok r → CR ∉ r
  | 0, s, h, r, hr => by simp only [skipComments] at hr; cases hr; exact h
  | fuel + 1, s, h, r, hr => by
    unfold skipComments at hr
    split at hr
    · split at hr
      · rename_i i hi
        cases hu : uadd i 1 with
        | panic => rw [hu] at hr; cases hr
        | err e => rw [hu] at hr; cases hr
        | ok n =>
          rw [hu, bind_ok] at hr
          unfold sliceFrom at hr
          split at hr
          · rw [bind_ok] at hr
            exact skipComments_noCR fuel _ (fun hm => h (List.mem_of_mem_drop hm)) r hr
          · cases hr
      · unfold sliceFrom at hr
        split at hr
        · rw [bind_ok] at hr
          exact skipComments_noCR fuel _ (fun hm => h (List.mem_of_mem_drop hm)) r hr
        · cases hr
    · cases hr; exact h

theorem readRecord_noCR (N : Nat) (input : Bytes) (h : CR ∉ input) :
    readRecord false N input = readRecord true N input := by
  unfold readRecord
  cases hs : skipComments (input.length + 1) input with
  | panic => simp
  | err e => simp
  | ok src0 =>
    have h0 := skipComments_noCR _ _ h _ hs
    simp only [bind_ok]
    obtain ⟨e, hp⟩ := readRequired_noCR (N - 1) src0 [] [] 0 h0 (by simp)
    rw [e]
    cases hr : readRequired (readField true) (N - 1) src0 [] [] 0 with
    | panic => simp
    | err e => simp
    | ok r =>
      obtain ⟨dst, ends, len, src⟩ := r
      obtain ⟨h1, h2⟩ := hp _ hr
      simp only [bind_ok]
      obtain ⟨e2, hp2⟩ := readField_noCR src dst h2 h1
      rw [e2]
      cases hf : readField true src dst with
      | panic => simp
      | err e => simp
      | ok f =>
        obtain ⟨h3, h4⟩ := hp2 f hf
        simp only [bind_ok]
        rw [readOthers_noCR _ f.rest f.dst [] 0 h4 h3]


/-! carriage returns only in CRLF line endings -/

theorem readOthers_crlf : ∀ (fuel : Nat) (src dst : Bytes) (ends : List Nat) (len : Nat),
    CRLFOnly src → dst.getLast? ≠ some CR →
    readOthers false fuel src dst ends len = readOthers true fuel src dst ends len
  | 0, _, _, _, _, _, _ => rfl
  | fuel + 1, src, dst, ends, len, hs, hd => by
    unfold readOthers
    obtain ⟨e, hp⟩ := readField_crlf src dst hs hd
    rw [e]
    cases hf : readField true src dst with
    | panic => simp
    | err e => simp
    | ok f =>
      obtain ⟨h1, h2⟩ := hp f hf
      simp only [bind_ok]
      split
      · rfl
      · cases hu : uadd len f.n with
        | panic => simp
        | err e => simp
        | ok l =>
          simp only [bind_ok]
          split
          · rfl
          · rename_i hne
            exact readOthers_crlf fuel f.rest f.dst _ l h1 (h2 (by simpa using hne))

theorem skipComments_crlf : ∀ (fuel : Nat) (s : Bytes), CRLFOnly s →
    ∀ r, skipComments fuel s = .ok r → CRLFOnly r
  | 0, s, h, r, hr => by simp only [skipComments] at hr; cases hr; exact h
  | fuel + 1, s, h, r, hr => by
    unfold skipComments at hr
    split at hr
    · split at hr
      · rename_i i hi
        cases hu : uadd i 1 with
        | panic => rw [hu] at hr; cases hr
        | err e => rw [hu] at hr; cases hr
        | ok n =>
          rw [hu, bind_ok] at hr
          unfold sliceFrom at hr
          split at hr
          · rw [bind_ok] at hr
            exact skipComments_crlf fuel _ (h.drop n) r hr
          · cases hr
      · unfold sliceFrom at hr
        split at hr
        · rw [bind_ok] at hr
          exact skipComments_crlf fuel _ (h.drop _) r hr
        · cases hr
    · cases hr; exact h

theorem readRecord_crlf (N : Nat) (input : Bytes) (h : CRLFOnly input) :
    readRecord false N input = readRecord true N input := by
  unfold readRecord
  cases hs : skipComments (input.length + 1) input with
  | panic => simp
  | err e => simp
  | ok src0 =>
    have h0 := skipComments_crlf _ _ h _ hs
    simp only [bind_ok]
    obtain ⟨e, hp⟩ := readRequired_crlf (N - 1) src0 [] [] 0 h0 (by simp)
    rw [e]
    cases hr : readRequired (readField true) (N - 1) src0 [] [] 0 with
    | panic => simp
    | err e => simp
    | ok r =>
      obtain ⟨dst, ends, len, src⟩ := r
      obtain ⟨h1, h2⟩ := hp _ hr
      simp only [bind_ok]
      obtain ⟨e2, hp2⟩ := readField_crlf src dst h2 h1
      rw [e2]
      cases hf : readField true src dst with
      | panic => simp
      | err e => simp
      | ok f =>
        obtain ⟨h3, h4⟩ := hp2 f hf
        simp only [bind_ok]
        split
        · rfl
        · rename_i hne
          rw [readOthers_crlf _ f.rest f.dst [] 0 h3 (h4 (by simpa using hne))]

end Noodles.Hostile.BedText
