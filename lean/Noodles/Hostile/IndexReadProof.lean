import Noodles.Hostile.IndexRead
import Noodles.Hostile.StreamProof
/-!
# The index readers never panic and consume a prefix

Helper lemmas for `Noodles/Props/C15Bin.lean`.
-/
namespace Noodles.Hostile.Idx
open Noodles.Hostile Rd
open Noodles.Index (Chunk Meta Bins RefLin Bai Header Format Tabix RefCsi CsiIndex)

theorem safe_readChunk : Safe readChunk := by unfold readChunk; safe_auto

theorem safe_readChunks : Safe readChunks := by
  unfold readChunks; safe_auto; exact safe_readChunk

theorem safe_readMetadata : Safe readMetadata := by unfold readMetadata; safe_auto

theorem safe_readCount (signed : Bool) : Safe (readCount signed) := by
  unfold readCount; safe_auto

theorem safe_readIntervals (signed : Bool) : Safe (readIntervals signed) := by
  unfold readIntervals; safe_auto; exact safe_readCount _

theorem safe_binsLoop : ∀ (n : Nat) (bins : Bins) (md : Option Meta), Safe (binsLoop n bins md)
  | 0, _, _ => by unfold binsLoop; safe_auto
  | n+1, bins, md => by
    unfold binsLoop
    have ih := safe_binsLoop n
    safe_auto
    · exact safe_readMetadata
    · exact ih _ _
    · exact safe_readChunks
    · exact ih _ _

theorem safe_readBins (signed : Bool) : Safe (readBins signed) := by
  unfold readBins; safe_auto
  · exact safe_readCount _
  · exact safe_binsLoop _ _ _

theorem safe_readRefLin (signed : Bool) : Safe (readRefLin signed) := by
  unfold readRefLin
  refine safe_bind (safe_readBins _) fun p => ?_
  obtain ⟨bins, md⟩ := p
  safe_auto
  exact safe_readIntervals _

theorem safe_readBai : Safe readBai := by
  unfold readBai; safe_auto; exact safe_readRefLin _

/-! ### the tabix header -/

theorem safe_readColumn : Safe readColumn := by
  unfold readColumn
  refine safe_bind safe_readI32 fun i => ?_
  split
  · rename_i hi
    apply safe_lift
    unfold usub
    have : 1 ≤ i.toNat := by omega
    simp [this]
  · exact safe_fail _

theorem safe_readEndColumn (f : Format) (colBeg : Nat) : Safe (readEndColumn f colBeg) := by
  unfold readEndColumn
  split
  · safe_auto
  · safe_auto; exact safe_readColumn

theorem namesGo_ne_panic : ∀ (w cur : Bytes) (acc : List Bytes), namesGo w cur acc ≠ .panic
  | [], cur, acc => by unfold namesGo; split <;> simp
  | b :: r, cur, acc => by
    unfold namesGo
    split
    · split
      · simp
      · exact namesGo_ne_panic r _ _
    · exact namesGo_ne_panic r _ _

theorem safe_readNames : Safe readNames := by
  unfold readNames; safe_auto
  exact safe_lift (namesGo_ne_panic _ _ _)

theorem safe_readHeader : Safe readHeader := by
  unfold readHeader
  refine safe_bind (safe_readExact 4) fun fv => ?_
  split
  · exact safe_fail _
  · safe_auto
    · exact safe_readColumn
    · exact safe_readColumn
    · exact safe_readEndColumn _ _
    · exact safe_readNames

theorem safe_readTabix : Safe readTabix := by
  unfold readTabix; safe_auto
  · exact safe_readHeader
  · exact safe_readRefLin _

/-! ### CSI -/

theorem metadataId_ne_panic {d : Nat} (hd : d ≤ 10) : metadataId d ≠ .panic := by
  unfold metadataId Csi.maxId Hostile.assert Csi.MAX_DEPTH
  have hpow : 2 ^ ((d + 1) * 3) ≤ 2 ^ 33 := Nat.pow_le_pow_right (by decide) (by omega)
  have : 2 ^ ((d + 1) * 3) / 7 + 1 < USIZE := by
    unfold USIZE
    have : 2 ^ ((d + 1) * 3) / 7 ≤ 2 ^ 33 := Nat.le_trans (Nat.div_le_self _ _) hpow
    omega
  simp [hd, uadd, this]

theorem safe_readU8FromI32 : Safe readU8FromI32 := by unfold readU8FromI32; safe_auto

theorem readU8FromI32_lt {s r : Bytes} {n : Nat} (h : readU8FromI32 s = .ok (n, r)) : n < 256 := by
  unfold readU8FromI32 at h
  rw [bind_apply] at h
  cases hb : readI32 s with
  | ok p =>
    obtain ⟨i, r'⟩ := p
    rw [hb] at h
    simp only at h
    split at h
    · rename_i hi
      simp only [pure_apply, Res.ok.injEq, Prod.mk.injEq] at h
      omega
    · cases h
  | err e => rw [hb] at h; cases h
  | panic => rw [hb] at h; cases h

theorem validateGeometry_ne_panic {ms d : Nat} (hms : ms < 256) (hd : d < 256) :
    validateGeometry ms d ≠ .panic := by
  unfold validateGeometry mul32 add32
  have h1 : 3 * d < 2 ^ 32 := by omega
  have h2 : ms + 3 * d < 2 ^ 32 := by omega
  simp only [h1, if_true, Res.bind_ok, h2]
  split
  · simp
  · split <;> simp

theorem validateGeometry_ok {ms d : Nat} (h : validateGeometry ms d = .ok ()) :
    0 < ms ∧ ms + 3 * d < 64 ∧ d ≤ 10 := by
  unfold validateGeometry mul32 add32 at h
  by_cases h1 : 3 * d < 2 ^ 32
  · by_cases h2 : ms + 3 * d < 2 ^ 32
    · simp only [h1, if_true, Res.bind_ok, h2] at h
      split at h
      · cases h
      · split at h
        · cases h
        · rename_i ha hb
          unfold Csi.MAX_DEPTH at hb
          omega
    · simp [h1, h2] at h
  · simp [h1] at h

theorem safe_readAux : Safe readAux := by
  unfold readAux; safe_auto; exact safe_readHeader

theorem safe_binsLoopCsi (metaId : Nat) : ∀ (n : Nat) (acc : RefCsi), Safe (binsLoopCsi metaId n acc)
  | 0, _ => by unfold binsLoopCsi; safe_auto
  | n+1, acc => by
    unfold binsLoopCsi
    have ih := safe_binsLoopCsi metaId n
    safe_auto
    · exact safe_readMetadata
    · exact ih _
    · exact safe_readChunks
    · exact ih _

theorem safe_readRefCsi {d : Nat} (hd : d ≤ 10) : Safe (readRefCsi d) := by
  unfold readRefCsi; safe_auto
  · exact safe_lift (metadataId_ne_panic hd)
  · exact safe_binsLoopCsi _ _ _

theorem safe_readCsiInner : Safe readCsiInner := by
  unfold readCsiInner
  refine safe_bind (safe_readMagic _) fun _ => ?_
  refine safe_bind_of safe_readU8FromI32 fun s1 ms r1 hms => ?_
  refine safe_bind_of safe_readU8FromI32 fun s2 d r2 hd => ?_
  have hms' := readU8FromI32_lt hms
  have hd' := readU8FromI32_lt hd
  refine safe_bind_of (safe_lift (validateGeometry_ne_panic hms' hd')) fun s3 u r3 hv => ?_
  have hok : validateGeometry ms d = .ok () := by
    cases hvg : validateGeometry ms d with
    | ok a => rfl
    | err e => rw [hvg] at hv; simp [Rd.lift] at hv
    | panic => rw [hvg] at hv; simp [Rd.lift] at hv
  have hd10 := (validateGeometry_ok hok).2.2
  safe_auto
  · exact safe_readAux
  · exact safe_readRefCsi hd10

theorem safe_readCsi : Safe readCsi := safe_wrapInvalid safe_readCsiInner

theorem post_readCsiInner :
    Post readCsiInner fun ix => 0 < ix.minShift ∧ ix.minShift + 3 * ix.depth < 64 ∧ ix.depth ≤ 10 := by
  unfold readCsiInner
  refine post_bind_right fun _ => post_bind_right fun ms => post_bind_right fun d => ?_
  refine post_bind (post_lift (P := fun _ => validateGeometry ms d = .ok ()) fun a ha => ha) fun _ hv => ?_
  have hg := validateGeometry_ok hv
  exact post_bind_right fun h => post_bind_right fun n => post_bind_right fun refs =>
    post_bind_right fun u => post_pure hg

theorem readCsi_geometry {s r : Bytes} {ix : CsiIndex} (h : readCsi s = .ok (ix, r)) :
    0 < ix.minShift ∧ ix.minShift + 3 * ix.depth < 64 ∧ ix.depth ≤ 10 :=
  post_mapErr _ post_readCsiInner s ix r h

end Noodles.Hostile.Idx
