import Noodles.Hostile.Basic
/-!
# Readers over a byte stream, with the panic outcome explicit (C15, binary headers and indexes)

Every reader of noodles that C15bin transcribes pulls its input through `std::io::Read` off a byte
slice (`&[u8]`, possibly behind `Take`, `BufReader`, `CrcReader`) or advances a `&mut &[u8]`
cursor. `Rd α` is such a reader: it is given what is left of the stream and answers
`ok (value, what is left now)`, `err e`, or `panic` (`Noodles/Hostile/Basic.lean`: `panic` is
produced exactly where the Rust would panic).

* `readExact n` — `Read::read_exact` on a slice: `UnexpectedEof` when fewer than `n` bytes are
  left (the slice implementation does not consume anything in that case that a later read could
  observe: every caller returns the error).
* `withTake n x` — `reader.take(n)` handed to `x`: `x` sees a window of at most `n` bytes; when the
  `Take` is dropped the underlying reader stays where `x` stopped reading.
* `withTakeDrain n x` — the same, and the rest of the `Take` is then read and dropped: the
  underlying reader is `n` bytes on (noodles-csi `read_aux` since /repo `fix:` 8288cb5).
* `window n` — a `Take` that is read to ITS end (`BufReader::new(reader.take(n))` followed by
  `read_until` loops and `discard_to_end`): the window's bytes, the stream continues after them.
  A stream shorter than `n` bytes gives a shorter window and no error.
-/
namespace Noodles.Hostile

def Rd (α : Type) := Bytes → Res (α × Bytes)

namespace Rd
variable {α β : Type}

def pure (a : α) : Rd α := fun s => .ok (a, s)

def bind (x : Rd α) (f : α → Rd β) : Rd β := fun s =>
  match x s with
  | .ok (a, r) => f a r
  | .err e => .err e
  | .panic => .panic

instance : Monad Rd where
  pure := Rd.pure
  bind := Rd.bind

/-- `return Err(e)` -/
def fail (e : Err) : Rd α := fun _ => .err e

/-- a computation that does not touch the stream (arithmetic, conversions, slicing of a buffer
already read) -/
def lift (x : Res α) : Rd α := fun s =>
  match x with
  | .ok a => .ok (a, s)
  | .err e => .err e
  | .panic => .panic

/-- `.map_err(f)` -/
def mapErr (f : Err → Err) (x : Rd α) : Rd α := fun s =>
  match x s with
  | .ok p => .ok p
  | .err e => .err (f e)
  | .panic => .panic

/-- `.map_err(|e| io::Error::new(io::ErrorKind::InvalidData, e))`: every error, `UnexpectedEof`
included, is reported as `InvalidData` -/
def wrapInvalid (x : Rd α) : Rd α := mapErr (fun _ => .invalidData) x

/-- what is left of the stream (the `&[u8]` cursor itself) -/
def rest : Rd Bytes := fun s => .ok (s, s)

/-- `Read::read_exact` of `n` bytes -/
def readExact (n : Nat) : Rd Bytes := fun s =>
  if s.length < n then .err .eof else .ok (s.take n, s.drop n)

/-- `reader.take(n)` handed to `x`; the underlying reader has advanced by what `x` consumed of
the window -/
def withTake (n : Nat) (x : Rd α) : Rd α := fun s =>
  match x (s.take n) with
  | .ok (a, w) => .ok (a, s.drop ((s.take n).length - w.length))
  | .err e => .err e
  | .panic => .panic

/-- `reader.take(n)` handed to `x`, then the rest of the `Take` read and dropped
(`io::copy(&mut take, &mut io::sink())?`): the underlying reader has advanced by all `n` bytes —
by all there is when the stream is shorter, which is not an error of the drain -/
def withTakeDrain (n : Nat) (x : Rd α) : Rd α := fun s =>
  match x (s.take n) with
  | .ok (a, _) => .ok (a, s.drop n)
  | .err e => .err e
  | .panic => .panic

/-- a `Take` of `n` bytes read to its end: its bytes (fewer when the stream is shorter) -/
def window (n : Nat) : Rd Bytes := fun s => .ok (s.take n, s.drop n)

/-- `(0..n).map(|_| x).collect::<Result<Vec<_>, _>>()` / `for _ in 0..n { v.push(x?) }` -/
def many (x : Rd α) : Nat → Rd (List α)
  | 0 => Rd.pure []
  | n+1 => Rd.bind x fun a => Rd.bind (many x n) fun as => Rd.pure (a :: as)

end Rd
open Rd

/-! ## fixed-width integers (`num.rs` of noodles-bam, -csi, -tabix, -bcf, -cram) -/

/-- `read_u8` -/
def readU8 : Rd Nat := do let b ← readExact 1; return leVal b
/-- `read_u16_le` -/
def readU16 : Rd Nat := do let b ← readExact 2; return leVal b
/-- `read_u32_le` -/
def readU32 : Rd Nat := do let b ← readExact 4; return leVal b
/-- `read_u64_le` -/
def readU64 : Rd Nat := do let b ← readExact 8; return leVal b

/-- the value of 32 bits read as `i32` -/
def toI32 (n : Nat) : Int := if n < 2^31 then (n : Int) else (n : Int) - 2^32

/-- `read_i32_le` -/
def readI32 : Rd Int := do let b ← readExact 4; return toI32 (leVal b)

/-- `usize::try_from(i32)` / `u64::try_from(i32)` / `u32::try_from(i32)`: negative is an error -/
def natOfInt (e : Err) (i : Int) : Rd Nat := if 0 ≤ i then Rd.pure i.toNat else Rd.fail e

/-- `read_i32_le(reader).and_then(|n| usize::try_from(n).map_err(..InvalidData..))` -/
def readCountI32 : Rd Nat := do let i ← readI32; natOfInt .invalidData i

/-- `read_magic_number` + `validate`: `read_exact` of `m.len()` bytes, then the comparison -/
def readMagic (m : Bytes) : Rd Unit := do
  let b ← readExact m.length
  if b = m then return () else Rd.fail .invalidData

/-- `read_unplaced_unmapped_record_count` (BAI, tabix, CSI): a trailing `u64`, or nothing when the
stream ends first — `UnexpectedEof` is mapped to `None` -/
def readUnplaced : Rd (Option Nat) := fun s =>
  match readU64 s with
  | .ok (n, r) => .ok (some n, r)
  | .err .eof => .ok (none, [])
  | .err e => .err e
  | .panic => .panic

/-- `read_exact_to_vec(reader, buf, len)` (noodles-bam and noodles-bcf `io/reader.rs`; the body of
`read_container` in noodles-cram has the same shape): `reader.by_ref().take(len).read_to_end(buf)`,
then the length check — `UnexpectedEof` when the stream is shorter; the buffer grows as data is
read. (`u64::try_from(usize)` cannot fail on a 64-bit target.) -/
def readExactToVec (len : Nat) : Rd Bytes := do
  let w ← Rd.window len
  if w.length = len then return w else Rd.fail .eof

/-! ## what the theorems say about a reader -/

/-- a reader is SAFE when, on every stream, it does not panic and what it leaves is a suffix of
what it was given (it consumed a prefix, nothing outside the input) -/
structure Safe {α : Type} (x : Rd α) : Prop where
  ne_panic : ∀ s, x s ≠ .panic
  suffix : ∀ {s a r}, x s = .ok (a, r) → r <:+ s

end Noodles.Hostile
