import Noodles.Hostile.Basic
/-!
# CRAM integer readers on arbitrary bytes: ITF8, LTF8, uint7 (VLQ)

Transcribed from noodles-cram `io/reader/num/itf8.rs`, `ltf8.rs`, `vlq.rs`, `num.rs`
(`read_u8`, `read_u16_be`, `read_u24_be`, `read_u32_be`, `read_u40_be` … over `Read::read_exact`).
The source is a byte slice; a short read is `UnexpectedEof`. All arithmetic is bitwise on
`u32`/`u64` (no overflow-checked operation except `len += 1`, bounded by 6).
-/
namespace Noodles.Hostile.Num
open Noodles.Hostile

/-- `read_exact` of `n` bytes interpreted big-endian -/
def readBE (n : Nat) (s : Bytes) : Res (Nat × Bytes) :=
  if s.length < n then .err .eof else .ok (beVal (s.take n), s.drop n)

/-- `n as i32` -/
def asI32 (n : Nat) : Int := if n % 2^32 < 2^31 then (n % 2^32 : Nat) else (n % 2^32 : Nat) - 2^32
/-- `n as i64` -/
def asI64 (n : Nat) : Int := if n % 2^64 < 2^63 then (n % 2^64 : Nat) else (n % 2^64 : Nat) - 2^64

/-- `read_itf8`: value (as `i32`) and the rest of the input -/
def readItf8 (s : Bytes) : Res (Int × Bytes) := do
  let (b0, r) ← readBE 1 s
  if b0 &&& 0x80 = 0 then
    pure (asI32 b0, r)
  else if b0 &&& 0x40 = 0 then
    let (b1, r) ← readBE 1 r
    pure (asI32 (((b0 &&& 0x7f) <<< 8) ||| b1), r)
  else if b0 &&& 0x20 = 0 then
    let (b12, r) ← readBE 2 r
    pure (asI32 (((b0 &&& 0x3f) <<< 16) ||| b12), r)
  else if b0 &&& 0x10 = 0 then
    let (b13, r) ← readBE 3 r
    pure (asI32 (((b0 &&& 0x1f) <<< 24) ||| b13), r)
  else
    let (b14, r) ← readBE 4 r
    -- `(b0 & 0x0f) << 28 | (b1_4 & 0xffffff0f) >> 4 | b1_4 & 0x0f`
    pure (asI32 (((b0 &&& 0x0f) <<< 28) ||| ((b14 &&& 0xffffff0f) >>> 4) ||| (b14 &&& 0x0f)), r)

/-- `read_ltf8` -/
def readLtf8 (s : Bytes) : Res (Int × Bytes) := do
  let (b0, r) ← readBE 1 s
  if b0 &&& 0x80 = 0 then pure (asI64 b0, r)
  else if b0 &&& 0x40 = 0 then
    let (x, r) ← readBE 1 r; pure (asI64 (((b0 &&& 0x7f) <<< 8) ||| x), r)
  else if b0 &&& 0x20 = 0 then
    let (x, r) ← readBE 2 r; pure (asI64 (((b0 &&& 0x3f) <<< 16) ||| x), r)
  else if b0 &&& 0x10 = 0 then
    let (x, r) ← readBE 3 r; pure (asI64 (((b0 &&& 0x1f) <<< 24) ||| x), r)
  else if b0 &&& 0x08 = 0 then
    let (x, r) ← readBE 4 r; pure (asI64 (((b0 &&& 0x0f) <<< 32) ||| x), r)
  else if b0 &&& 0x04 = 0 then
    let (x, r) ← readBE 5 r; pure (asI64 (((b0 &&& 0x07) <<< 40) ||| x), r)
  else if b0 &&& 0x02 = 0 then
    let (x, r) ← readBE 6 r; pure (asI64 (((b0 &&& 0x03) <<< 48) ||| x), r)
  else if b0 &&& 0x01 = 0 then
    let (x, r) ← readBE 7 r; pure (asI64 x, r)
  else
    let (x, r) ← readBE 8 r; pure (asI64 x, r)

/-- `read_uint7`: the loop, one byte per iteration; `n` is a `u32` (bits shifted out are lost) -/
def readUint7Loop : Bytes → Nat → Nat → Res (Nat × Bytes)
  | [], _, _ => .err .eof
  | b :: r, n, len =>
    if len + 1 > 5 then .err .invalidData else
    let n' := ((n <<< 7) % 2^32) ||| (b.toNat &&& 0x7f)
    if b.toNat &&& 0x80 = 0 then .ok (n', r) else readUint7Loop r n' (len + 1)

def readUint7 (s : Bytes) : Res (Nat × Bytes) := readUint7Loop s 0 0

end Noodles.Hostile.Num
