import Noodles.Hostile.Basic
import Noodles.Hostile.TextKit
import Noodles.Hostile.SamText
/-!
# The SAM header TEXT parser (C15 / hdrtxt)

Transcription of `noodles-sam/src/header/parser.rs` and `header/parser/**` as total functions into
`Res` (`ok | err | panic`). Every Rust `split_at`, `&src[i..]`, `&buf[..i]`, `&buf[i + 1..]` is one
of the panic-carrying primitives of `Hostile/Basic.lean`, guarded by exactly the Rust condition;
`split_off_first`, `split_first_chunk`, `strip_prefix`, `split`, `position`, `find_byte` are total
in std and are modelled by total list functions. Map contents are kept as byte strings.

The `while !src.is_empty()` loops run on FUEL `src.len() + 1`; running out of fuel is reported as
`panic` (it would be an endless loop), so "never `panic`" includes termination.

`lexical_core::parse_partial::<usize>` (the `LN` value) is the parameter `Lexical.pUsize` with the
assumed law `count ≤ input length` (`SamText.Lexical.Lawful`, validated on every run by `c15 tlex`);
`lexical_core::parse::<u32>` (version numbers) is value-only and cannot trap: parameter `pU32c`.
-/
namespace Noodles.Hostile.SamHdr
open Noodles.Hostile Noodles.Hostile.Text

abbrev Tag := UInt8 × UInt8

inductive Kind | hd | sq | rg | pg | co
  deriving Repr, DecidableEq

/-- the external number parsers -/
structure Lex where
  /-- `lexical_core::parse_partial::<usize>`: `some (value, count)` -/
  pUsize : Bytes → Option (Nat × Nat)
  /-- `lexical_core::parse::<u32>` (complete) -/
  pU32c : Bytes → Option Nat

/-- the assumed law of the partial parser -/
def Lex.Lawful (L : Lex) : Prop := ∀ s n i, L.pUsize s = some (n, i) → i ≤ s.length

/-- `record.rs::consume_prefix`, `comment.rs::consume_delimiter`, `field.rs::consume_delimiter`,
`field.rs::consume_separator`: `src.split_off_first()` compared with one byte -/
def consumeByte (want : UInt8) : Bytes → Res Bytes
  | [] => .err .invalidData
  | b :: r => if b == want then .ok r else .err .invalidData

/-- `kind.rs::parse_kind`: `is_empty` / `len() < 2` tests, then `src.split_at(2)` -/
def parseKind (src : Bytes) : Res (Kind × Bytes) :=
  if src.isEmpty then .err .invalidData
  else if src.length < 2 then .err .invalidData
  else do
    let p ← splitAt src 2
    match p.1 with
    | [72, 68] => .ok (.hd, p.2)
    | [83, 81] => .ok (.sq, p.2)
    | [82, 71] => .ok (.rg, p.2)
    | [80, 71] => .ok (.pg, p.2)
    | [67, 79] => .ok (.co, p.2)
    | _ => .err .invalidData

/-- `comment.rs::parse_comment`: delimiter, then `src.split_at(src.len())` -/
def parseComment (src : Bytes) : Res (Bytes × Bytes) := do
  let src ← consumeByte TAB src
  splitAt src src.length

/-- `field/tag.rs::parse_tag`: `split_first_chunk::<2>` (total) -/
def parseTag : Bytes → Res (Tag × Bytes)
  | a :: b :: r => .ok ((a, b), r)
  | _ => .err .invalidData

/-- `field/value.rs::parse_value`: `find_byte(TAB).unwrap_or(len)`, `split_at(i)`, empty = error -/
def parseValue (src : Bytes) : Res (Bytes × Bytes) := do
  let i := (findIdx (fun b => b == TAB) src).getD src.length
  let p ← splitAt src i
  if p.1.isEmpty then .err .invalidData else .ok p

/-- `version.rs::parse_version`: `position('.')`, `&buf[..i]`, `&buf[i + 1..]`, two `u32`s -/
def parseVersion (L : Lex) (src : Bytes) : Res (Nat × Nat) :=
  match findIdx (fun b => b == 46) src with
  | none => .err .invalidData
  | some i => do
    let a ← sliceTo src i
    let j ← uadd i 1
    let b ← sliceFrom src j
    match L.pU32c a with
    | none => .err .invalidData
    | some major =>
      match L.pU32c b with
      | none => .err .invalidData
      | some minor => .ok (major, minor)

/-- `reference_sequence/length.rs::parse_length`: `parse_partial`, `&src[i..]`, `NonZero::new` -/
def parseLength (L : Lex) (src : Bytes) : Res (Nat × Bytes) :=
  match L.pUsize src with
  | none => .err .invalidData
  | some (n, i) => do
    let rest ← sliceFrom src i
    if n = 0 then .err .invalidData else .ok (n, rest)

/-- what a map record accumulates -/
structure MapSt where
  id : Option Bytes := none
  version : Option (Nat × Nat) := none
  length : Option Nat := none
  others : List (Tag × Bytes) := []
  deriving Repr, DecidableEq

/-- `OtherFields::insert` (IndexMap): replace in place; `true` when the tag was present -/
def insertOther (t : Tag) (v : Bytes) : List (Tag × Bytes) → List (Tag × Bytes) × Bool
  | [] => ([(t, v)], false)
  | (k, w) :: r =>
    if k == t then ((k, v) :: r, true)
    else let p := insertOther t v r; ((k, w) :: p.1, p.2)

/-- `try_replace` / `try_insert`: a second value is an error unless duplicates are allowed -/
def dupCheck (allowDup had : Bool) : Res Unit :=
  if had && !allowDup then .err .invalidData else .ok ()

def VN : Tag := (86, 78)
def SN : Tag := (83, 78)
def LN : Tag := (76, 78)
def ID : Tag := (73, 68)

/-- one iteration body of the `while !src.is_empty()` loop of `parse_header`,
`parse_reference_sequence`, `parse_read_group`, `parse_program` -/
def fieldStep (L : Lex) (allowDup : Bool) (kind : Kind) (src : Bytes) (st : MapSt) :
    Res (MapSt × Bytes) := do
  let src ← consumeByte TAB src
  let (tag, src) ← parseTag src
  let src ← consumeByte 58 src
  if kind = .hd ∧ tag = VN then do
    let (buf, src) ← parseValue src
    let v ← parseVersion L buf
    dupCheck allowDup st.version.isSome
    .ok ({ st with version := some v }, src)
  else if kind = .sq ∧ tag = SN ∨ (kind = .rg ∨ kind = .pg) ∧ tag = ID then do
    let (buf, src) ← parseValue src
    dupCheck allowDup st.id.isSome
    .ok ({ st with id := some buf }, src)
  else if kind = .sq ∧ tag = LN then do
    let (n, src) ← parseLength L src
    dupCheck allowDup st.length.isSome
    .ok ({ st with length := some n }, src)
  else do
    let (buf, src) ← parseValue src
    let p := insertOther tag buf st.others
    dupCheck allowDup p.2
    .ok ({ st with others := p.1 }, src)

/-- the loop; fuel exhaustion = endless loop = `panic` -/
def fieldLoop (L : Lex) (allowDup : Bool) (kind : Kind) : Nat → Bytes → MapSt → Res MapSt
  | 0, _, _ => .panic
  | fuel + 1, src, st =>
    if src.isEmpty then .ok st
    else do
      let (st', rest) ← fieldStep L allowDup kind src st
      fieldLoop L allowDup kind fuel rest st'

inductive Record
  | header (version : Nat × Nat) (others : Nat)
  | refSeq (name : Bytes) (length : Nat) (others : Nat)
  | readGroup (id : Bytes) (others : Nat)
  | program (id : Bytes) (others : Nat)
  | comment (text : Bytes)
  deriving Repr, DecidableEq

/-- `value.rs::parse_value` + the required-field checks at the end of each map parser -/
def parseRecordValue (L : Lex) (allowDup : Bool) (kind : Kind) (src : Bytes) : Res Record :=
  match kind with
  | .co => do let p ← parseComment src; .ok (.comment p.1)
  | .hd => do
    let st ← fieldLoop L allowDup .hd (src.length + 1) src {}
    match st.version with
    | none => .err .invalidData
    | some v => .ok (.header v st.others.length)
  | .sq => do
    let st ← fieldLoop L allowDup .sq (src.length + 1) src {}
    match st.id, st.length with
    | some n, some l => .ok (.refSeq n l st.others.length)
    | _, _ => .err .invalidData
  | .rg => do
    let st ← fieldLoop L allowDup .rg (src.length + 1) src {}
    match st.id with
    | some i => .ok (.readGroup i st.others.length)
    | none => .err .invalidData
  | .pg => do
    let st ← fieldLoop L allowDup .pg (src.length + 1) src {}
    match st.id with
    | some i => .ok (.program i st.others.length)
    | none => .err .invalidData

/-- `record.rs::parse_record` -/
def parseRecord (L : Lex) (allowDup : Bool) (src : Bytes) : Res Record := do
  let src ← consumeByte 64 src
  let (kind, src) ← parseKind src
  parseRecordValue L allowDup kind src

/-- `strip_prefix` (total) -/
def stripPrefix : Bytes → Bytes → Option Bytes
  | [], s => some s
  | _ :: _, [] => none
  | p :: ps, b :: r => if p == b then stripPrefix ps r else none

/-- `parser.rs::extract_version`: `@HD\t` prefix, first `VN:` field, `parse_version(..).ok()`.
A panic inside `parse_version` stays a panic. -/
def extractVersion (L : Lex) (src : Bytes) : Res (Option (Nat × Nat)) :=
  match stripPrefix [64, 72, 68, 9] src with
  | none => .ok none
  | some raw =>
    match (splitOn TAB raw).filterMap (stripPrefix [86, 78, 58]) with
    | [] => .ok none
    | s :: _ =>
      match parseVersion L s with
      | .ok v => .ok (some v)
      | .err _ => .ok none
      | .panic => .panic

/-- the streaming parser's state (`Parser`) -/
structure Parser where
  allowDup : Bool := false
  header : Option (Nat × Nat × Nat) := none
  refs : List (Bytes × Nat × Nat) := []
  rgs : List (Bytes × Nat) := []
  pgs : List (Bytes × Nat) := []
  comments : List Bytes := []
  deriving Repr, DecidableEq

def Parser.isEmpty (p : Parser) : Bool :=
  p.header.isNone && p.refs.isEmpty && p.rgs.isEmpty && p.pgs.isEmpty && p.comments.isEmpty

/-- `Version < Version::new(1, 6)` (derived lexicographic order) -/
def allowDupOf (v : Nat × Nat) : Bool := v.1 < 1 || (v.1 == 1 && v.2 < 6)

/-- `Parser::parse_partial` -/
def parsePartial (L : Lex) (p : Parser) (src : Bytes) : Res Parser := do
  let p ← (if p.isEmpty then do
      let v ← extractVersion L src
      match v with
      | some v => .ok { p with allowDup := allowDupOf v }
      | none => .ok p
    else .ok p)
  let r ← parseRecord L p.allowDup src
  match r with
  | .header v n => if p.isEmpty then .ok { p with header := some (v.1, v.2, n) } else .err .invalidData
  | .refSeq name l n =>
    if p.refs.any (fun x => x.1 == name) then .err .invalidData
    else .ok { p with refs := p.refs ++ [(name, l, n)] }
  | .readGroup i n =>
    if p.rgs.any (fun x => x.1 == i) then .err .invalidData
    else .ok { p with rgs := p.rgs ++ [(i, n)] }
  | .program i n =>
    if p.pgs.any (fun x => x.1 == i) then .err .invalidData
    else .ok { p with pgs := p.pgs ++ [(i, n)] }
  | .comment c => .ok { p with comments := p.comments ++ [c] }

/-- the streaming form: `parse_partial` line by line; answers the state or the index of the line
that failed -/
def parseLines (L : Lex) : Parser → Nat → List Bytes → Res Parser × Nat
  | p, k, [] => (.ok p, k)
  | p, k, l :: ls =>
    match parsePartial L p l with
    | .ok p' => parseLines L p' (k + 1) ls
    | .err e => (.err e, k)
    | .panic => (.panic, k)

/-- `str::lines` (`split_inclusive('\n')`, then `strip_suffix('\n')` and only then
`strip_suffix('\r')`): every LF-terminated piece loses one trailing CR; a final piece without LF is
kept as it is (a bare CR stays), an empty one is dropped -/
def lines (s : Bytes) : List Bytes :=
  let ps := Text.splitOn LF s
  let body := ps.dropLast.map fun l => popIf l CR
  match ps.getLast? with
  | none => body
  | some l => if l.isEmpty then body else body ++ [l]

/-- `parser.rs::parse` (`str::parse::<Header>`): every line of `s.lines()` through
`parse_partial`, then `finish` (which moves the fields, total) -/
def parse (L : Lex) (s : Bytes) : Res Parser × Nat := parseLines L {} 0 (lines s)

/-- the `Lex` of the driver: the transcription of lexical-core compared by `c15 tlex` -/
def lex : Lex where
  pUsize s := (SamText.optOf (SamText.lexPartial false 0 18446744073709551615 s)).map
    fun p => (p.1.toNat, p.2)
  pU32c s :=
    match SamText.lexPartial false 0 4294967295 s with
    | .ok (v, i) => if i = s.length then some v.toNat else none
    | .error _ => none

end Noodles.Hostile.SamHdr
