import Noodles.Hostile.Basic
import Noodles.Bgzf.ReaderModel
import Noodles.Bgzf.ReaderProof
/-!
# `Data::as_ref` at every state the BGZF reader can reach

noodles-bgzf `io/block/data.rs`: `impl AsRef<[u8]> for Data { &self.buf[self.pos..self.len] }` on
the boxed 65536-byte buffer; `set_position` stores any value (`Reader::seek` is what keeps it
within the block — after the fix of finding F3). The reader state machine is `Noodles.Bgzf.RM`
(C02): `cur` is `pos`, `data.length` is `len`.
-/
namespace Noodles.Hostile.Data
open Noodles.Hostile Noodles.Bgzf.RM

/-- `&self.buf[pos..len]` with `buf: Box<[u8; 65536]>` -/
def asRefRange (pos len : Nat) : Res Unit :=
  if pos ≤ len ∧ len ≤ 65536 then .ok () else .panic

def dataAsRef {α : Type} (s : R α) : Res Unit := asRefRange s.cur s.data.length

theorem dataAsRef_of_inv {α : Type} (L : Layout α) (hL : WF L) (s : R α) (hi : Inv L s) :
    dataAsRef s ≠ .panic := by
  unfold dataAsRef asRefRange
  have h1 := hi.curLe
  have h2 : s.data.length ≤ 65536 := by
    rcases hi.blk with ⟨k, b, _, hb, _, _, hd⟩ | hd
    · rw [hd]
      have hm : b ∈ L := List.mem_of_getElem? hb
      have := (hL b hm).2
      simpa [MAX_ISIZE] using this
    · rw [hd]; simp
  rw [if_pos ⟨h1, h2⟩]
  simp

end Noodles.Hostile.Data
