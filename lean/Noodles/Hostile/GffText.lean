import Noodles.Hostile.TextKit
/-!
# GFF3 / GTF lines: kind, directive, comment, and the record's field bounds

`noodles-gff/src/record/fields/bounds.rs` and `noodles-gtf/src/record/fields/bounds.rs` are the
same text, as are the accessors of `record/fields.rs`; one transcription serves both. Unlike the
SAM / VCF / BED records the line is kept whole: a bound is the index just AFTER the column's TAB
and the accessor slices `src[prev_end .. end - 1]` (`sans_delimiter`, an unchecked `i - 1`).

* `record/fields/bounds.rs` — `Bounds::index` (eight `read_required_field`s, `len += …`),
                               `read_field` (`find_byte(b'\t')`, `&src[len..]`), the nine ranges
* `record/fields.rs`        — the accessors
* `noodles-gff/src/line.rs` — `kind`, `as_directive` (`&self.0[2..]`), `as_comment` (`&self.0[1..]`)
* `noodles-gff/src/directive.rs` — `Directive::new` (`position(is_ascii_whitespace)`), `key`
                               (`&src[..mid]`), `value` (`src.get(mid + 1..)`)
* `noodles-gtf/src/line.rs` — `kind`, `as_comment`
* `io/reader/line.rs`, `io/reader.rs::read_line` — the line as the readers deliver it (GFF3 skips
                               blank lines)
-/
namespace Noodles.Hostile.GffText
open Noodles.Hostile Noodles.Hostile.Text

/-! ## the line as read -/

/-- `u8::is_ascii_whitespace`: SP, TAB, LF, FF, CR (not VT) -/
def isAsciiWhitespace (b : UInt8) : Bool := b == 32 || b == 9 || b == 10 || b == 12 || b == 13

/-- `io/reader.rs::read_line` into a cleared buffer: the line without LF / CRLF, the byte count,
the rest -/
def readLine (src : Bytes) : Bytes × Nat × Bytes := readLineInto true src []

/-- `noodles-gff/src/io/reader/line.rs::read_line`: lines of ASCII whitespace only are skipped;
the count is the last line's -/
def readLineGff : Nat → Bytes → Bytes × Nat × Bytes
  | 0, src => ([], 0, src)
  | fuel + 1, src =>
    let (line, n, rest) := readLine src
    if n = 0 || !(line.all isAsciiWhitespace) then (line, n, rest) else readLineGff fuel rest

/-! ## field bounds -/

/-- `read_field`: the column length including its TAB, or the rest of the line and `is_eol` -/
def readField (src : Bytes) : Res (Nat × Bool × Bytes) := do
  let (len, eol) ← (match findIdx (fun b => b == TAB) src with
    | some i => do
      let n ← uadd i 1
      .ok (n, false)
    | none => .ok (src.length, true) : Res (Nat × Bool))
  -- `*src = &src[len..]`
  let rest ← sliceFrom src len
  .ok (len, eol, rest)

/-- `Bounds::index`: the ends (TAB included) of the eight leading columns; a missing column is
`UnexpectedEof` -/
def indexFrom : Nat → Bytes → Nat → List Nat → Res (List Nat)
  | 0, _, _, ends => .ok ends
  | k + 1, src, len, ends => do
    let (n, eol, rest) ← readField src
    if eol then .err .eof
    else do
      let len' ← uadd len n
      indexFrom k rest len' (ends ++ [len'])

def index (src : Bytes) : Res (List Nat) := indexFrom 8 src 0 []

/-- `sans_delimiter`: `i - 1` -/
def sansDelimiter (i : Nat) : Res Nat := usub i 1

/-- column `k` of 0..7: `&self.src[prev_end..sans_delimiter(end)]` -/
def field (src : Bytes) (ends : List Nat) (k : Nat) : Res Bytes := do
  let e ← sansDelimiter (ends.getD k 0)
  slice src (fieldStart ends k) e

/-- `attributes_range`: `&self.src[phase_end..]` -/
def attributes (src : Bytes) (ends : List Nat) : Res Bytes := sliceFrom src (ends.getD 7 0)

def fieldsFrom (src : Bytes) (ends : List Nat) : Nat → Nat → Res (List Bytes)
  | 0, _ => .ok []
  | m + 1, k => do
    let s ← field src ends k
    let ss ← fieldsFrom src ends m (k + 1)
    .ok (s :: ss)

/-- `Record::try_new` (bounds only) followed by the nine accessors -/
def recordAndTouch (line : Bytes) : Res (List Bytes × Bytes) := do
  let ends ← index line
  let cols ← fieldsFrom line ends 8 0
  let attrs ← attributes line ends
  .ok (cols, attrs)

/-! ## GFF3 line kinds, directives, comments -/

inductive Kind | directive | comment | record
  deriving Repr, DecidableEq

/-- `Line::kind` -/
def kind : Bytes → Kind
  | 35 :: 35 :: _ => .directive
  | 35 :: _ => .comment
  | _ => .record

/-- `Directive::new` + `key` + `value` over `&line[2..]` -/
def directive (line : Bytes) : Res (Bytes × Option Bytes) := do
  let src ← sliceFrom line 2
  let mid := (findIdx isAsciiWhitespace src).getD src.length
  let key ← sliceTo src mid
  -- `src.get(mid + 1..)`: `None` when the start is beyond the end
  let m1 ← uadd mid 1
  .ok (key, if m1 ≤ src.length then some (src.drop m1) else none)

/-- `Line::as_comment` -/
def comment (line : Bytes) : Res Bytes := sliceFrom line 1

inductive LineView
  | directive (key : Bytes) (value : Option Bytes)
  | comment (text : Bytes)
  | record (r : Res (List Bytes × Bytes))
  deriving Repr, DecidableEq

/-- every view of a GFF3 line: `kind`, then `as_directive` / `as_comment` / `as_record` with all
accessors. A bounds error of `as_record` is a value (`record (.err _)`), a panic anywhere is
`.panic`. -/
def touchGff (line : Bytes) : Res LineView :=
  match kind line with
  | .directive => do
    let (k, v) ← directive line
    .ok (.directive k v)
  | .comment => do
    let c ← comment line
    .ok (.comment c)
  | .record =>
    match recordAndTouch line with
    | .panic => .panic
    | r => .ok (.record r)

/-- the GTF line: `#…` is a comment, anything else a record -/
def touchGtf (line : Bytes) : Res LineView :=
  match line with
  | 35 :: _ => do
    let c ← comment line
    .ok (.comment c)
  | _ =>
    match recordAndTouch line with
    | .panic => .panic
    | r => .ok (.record r)

end Noodles.Hostile.GffText
