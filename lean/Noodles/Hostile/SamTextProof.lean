import Noodles.Hostile.SamText
import Noodles.Hostile.TextKitProof
/-! Helper lemmas for `Noodles/Props/C15Text.lean`: the lazy SAM record (`SamText.lean`). -/
namespace Noodles.Hostile.SamText
open Noodles.Hostile Noodles.Hostile.Text Res

abbrev NoQ : Bytes → Prop := fun _ => True

/-! ## `read_record` -/

/-- what `read_record` (fixed code) leaves: eleven non-decreasing field ends inside the buffer, and
a byte count that does not exceed the input -/
structure RecOK (input : Bytes) (p : Rec × Nat) : Prop where
  ends : EndsOK NoQ p.1.ends p.1.buf
  count : p.1.ends.length = 11
  n_le : p.2 ≤ input.length

theorem readRecord_sat (input : Bytes) (hlen : input.length < 2 ^ 63) :
    Sat (readRecord true input) (RecOK input) := by
  unfold readRecord
  refine Sat.bind (readRequired_sat readField_spec 10 input [] [] 0 (by omega) (EndsOK.nil _ _)) ?_
  rintro ⟨dst, ends, len, src⟩ ⟨_, he, hn, hc⟩
  replace hc : len + src.length = 0 + input.length := hc
  replace hn : ends.length = 0 + 10 := hn
  replace he : EndsOK NoQ ends dst := he
  refine Sat.bind (readField_sat true src dst (by omega)) ?_
  intro f hf
  obtain ⟨g, hg⟩ := hf.grows rfl
  have hcons := hf.consumed
  rw [uadd_ok (by simp only [USIZE]; omega)]
  simp only [bind_ok]
  have he' : EndsOK NoQ (ends ++ [f.dst.length]) f.dst := by rw [hg]; exact he.snoc trivial
  have hcount : (ends ++ [f.dst.length]).length = 11 := by
    simp only [List.length_append, List.length_singleton] at hn ⊢; omega
  split
  · exact ⟨he', hcount, by omega⟩
  · obtain ⟨h1, h2⟩ := readLineInto_sat true f.rest f.dst
    obtain ⟨g2, hg2⟩ := h2 rfl
    generalize readLineInto true f.rest f.dst = rl at h1 hg2 ⊢
    obtain ⟨b, n, r⟩ := rl
    replace h1 : n + r.length = f.rest.length := h1
    replace hg2 : b = f.dst ++ g2 := hg2
    simp only
    rw [uadd_ok (by simp only [USIZE]; omega)]
    simp only [bind_ok, Sat]
    refine ⟨?_, hcount, by omega⟩
    show EndsOK NoQ _ b
    rw [hg2]
    exact he'.grow g2

theorem readRecord_ne_panic (input : Bytes) (hlen : input.length < 2 ^ 63) :
    readRecord true input ≠ .panic := (readRecord_sat input hlen).ne_panic

/-- without a carriage return in the input the code as it is reads what the fixed code reads -/
theorem readRecord_noCR (input : Bytes) (h : CR ∉ input) :
    readRecord false input = readRecord true input := by
  unfold readRecord
  obtain ⟨e, hp⟩ := readRequired_noCR 10 input [] [] 0 h (by simp)
  rw [e]
  cases hr : readRequired (readField true) 10 input [] [] 0 with
  | panic => simp
  | err e => simp
  | ok r =>
    obtain ⟨dst, ends, len, src⟩ := r
    obtain ⟨h1, h2⟩ := hp _ hr
    simp only [bind_ok]
    obtain ⟨e2, hp2⟩ := readField_noCR src dst h2 h1
    rw [e2]
    cases hf : readField true src dst with
    | panic => simp
    | err e => simp
    | ok f =>
      obtain ⟨h3, h4⟩ := hp2 f hf
      simp only [bind_ok]
      rw [readLineInto_noCR f.rest f.dst h4 h3]

/-! ## accessors -/

theorem field_ne_panic {r : Rec} (h : EndsOK NoQ r.ends r.buf) {k : Nat} (hk : k < r.ends.length) :
    r.field k ≠ .panic := fieldSlice_ne_panic h hk

theorem mateName_ne_panic {r : Rec} (h : EndsOK NoQ r.ends r.buf) (hn : r.ends.length = 11) :
    r.mateName ≠ .panic := by
  unfold Rec.mateName
  refine bind_ne_panic (field_ne_panic h (by omega)) ?_
  intro s _
  split
  · exact field_ne_panic h (by omega)
  · simp

theorem data_ne_panic {r : Rec} (h : EndsOK NoQ r.ends r.buf) (hn : r.ends.length = 11) :
    r.data ≠ .panic := tailSlice_ne_panic h (by omega)

theorem touch_ne_panic {r : Rec} (h : EndsOK NoQ r.ends r.buf) (hn : r.ends.length = 11) :
    r.touch ≠ .panic := by
  unfold Rec.touch
  have hf : ∀ k, k < 11 → r.field k ≠ .panic := fun k hk => field_ne_panic h (by omega)
  refine bind_ne_panic (hf 0 (by omega)) fun _ _ => ?_
  refine bind_ne_panic (hf 1 (by omega)) fun _ _ => ?_
  refine bind_ne_panic (hf 2 (by omega)) fun _ _ => ?_
  refine bind_ne_panic (hf 3 (by omega)) fun _ _ => ?_
  refine bind_ne_panic (hf 4 (by omega)) fun _ _ => ?_
  refine bind_ne_panic (hf 5 (by omega)) fun _ _ => ?_
  refine bind_ne_panic (mateName_ne_panic h hn) fun _ _ => ?_
  refine bind_ne_panic (hf 7 (by omega)) fun _ _ => ?_
  refine bind_ne_panic (hf 8 (by omega)) fun _ _ => ?_
  refine bind_ne_panic (hf 9 (by omega)) fun _ _ => ?_
  refine bind_ne_panic (hf 10 (by omega)) fun _ _ => ?_
  refine bind_ne_panic (data_ne_panic h hn) fun _ _ => ?_
  simp

theorem readAndTouch_ne_panic (input : Bytes) (hlen : input.length < 2 ^ 63) :
    readAndTouch true input ≠ .panic := by
  unfold readAndTouch
  have hs := readRecord_sat input hlen
  refine bind_ne_panic hs.ne_panic ?_
  rintro ⟨r, n⟩ hr
  have := hs.of_ok hr
  refine bind_ne_panic (touch_ne_panic this.ends this.count) fun _ _ => ?_
  simp

/-! ## CIGAR -/

theorem parseOp_sat (L : Lexical) (hL : L.Lawful) (src : Bytes) :
    Sat (parseOp L src) (fun p => (p.1.isSome → p.2.length < src.length) ∧ p.2.length ≤ src.length) := by
  unfold parseOp
  split
  · simp [Sat]
  · rename_i len i hp
    have hi := hL.usize_le src len i hp
    rw [sliceFrom_ok hi]
    simp only [bind_ok]
    split
    · simp [Sat]
    · rename_i k rest hd
      have hl : rest.length + 1 + i = src.length := by
        have := congrArg List.length hd
        simp only [List.length_drop, List.length_cons] at this
        omega
      split <;> simp only [Sat, Option.isSome_some, Option.isSome_none] <;> (constructor <;> intros <;> omega)

theorem cigarItems_ne_panic (fused : Bool) (L : Lexical) (hL : L.Lawful) :
    ∀ (fuel : Nat) (src : Bytes), cigarItems fused L fuel src ≠ .panic
  | 0, _ => by simp [cigarItems]
  | fuel + 1, src => by
    unfold cigarItems
    split
    · simp
    · refine bind_ne_panic (parseOp_sat L hL src).ne_panic ?_
      rintro ⟨item, src'⟩ _
      refine bind_ne_panic (cigarItems_ne_panic fused L hL fuel _) ?_
      rintro ⟨items, ended⟩ _
      simp

/-- the iterator as it is now (it stops after an error) ends within `len + 1` calls -/
theorem cigarItems_ends (L : Lexical) (hL : L.Lawful) :
    ∀ (fuel : Nat) (src : Bytes), src.length < fuel →
      ∃ items, cigarItems true L fuel src = .ok (items, true) ∧ items.length ≤ src.length
  | 0, _, h => by omega
  | fuel + 1, src, h => by
    unfold cigarItems
    split
    · exact ⟨[], rfl, by simp⟩
    · rename_i hne
      have hpos : 0 < src.length := by
        cases src with
        | nil => simp at hne
        | cons => simp
      have hs := parseOp_sat L hL src
      cases hp : parseOp L src with
      | panic => rw [hp] at hs; exact absurd hs (by simp [Sat])
      | err e =>
        -- `parseOp` has no error outcome of its own
        exfalso
        unfold parseOp at hp
        split at hp
        · cases hp
        · rename_i len i hq
          rw [sliceFrom_ok (hL.usize_le src len i hq)] at hp
          simp only [bind_ok] at hp
          split at hp
          · cases hp
          · split at hp <;> cases hp
      | ok p =>
        obtain ⟨item, src'⟩ := p
        rw [hp] at hs
        simp only [Sat] at hs
        simp only [bind_ok]
        cases item with
        | none =>
          simp only [Option.isNone_none, Bool.and_self, if_true]
          cases fuel with
          | zero => omega
          | succ f =>
            simp only [cigarItems, List.isEmpty_nil, if_true, bind_ok]
            exact ⟨[none], rfl, by simp; omega⟩
        | some op =>
          have hlt := hs.1 rfl
          simp only [Option.isNone_some, Bool.and_false, Bool.false_eq_true, if_false]
          obtain ⟨items, hi, hlen⟩ := cigarItems_ends L hL fuel src' (by omega)
          rw [hi]
          exact ⟨some op :: items, rfl, by simp; omega⟩

/-! ## optional fields -/

theorem parseString_sat (src : Bytes) :
    Sat (parseString src) (fun p => p.2.length ≤ src.length) := by
  unfold parseString splitAt
  have : (findIdx (fun b => b == TAB) src).getD src.length ≤ src.length := by
    cases h : findIdx (fun b => b == TAB) src with
    | none => simp
    | some i => simpa using Nat.le_of_lt (findIdx_lt h)
  simp only [this, if_true, Sat, List.length_drop]
  omega

theorem sliceFrom_sat (src : Bytes) (i : Nat) (h : i ≤ src.length) :
    ∃ r, sliceFrom src i = .ok r ∧ r.length ≤ src.length :=
  ⟨src.drop i, sliceFrom_ok h, by simp⟩

theorem parseValue_sat (L : Lexical) (hL : L.Lawful) (ty : UInt8) (src : Bytes) :
    Sat (parseValue L ty src) (fun p => p.2.length ≤ src.length) := by
  unfold parseValue
  split
  · split <;> simp [Sat]
  split
  · unfold parseInteger
    split
    · rename_i n i h
      obtain ⟨r, hr, hl⟩ := sliceFrom_sat src i (hL.i32_le src n i h)
      rw [hr]; simpa [Sat] using hl
    · split
      · rename_i n i h
        obtain ⟨r, hr, hl⟩ := sliceFrom_sat src i (hL.u32_le src n i h)
        rw [hr]; simpa [Sat] using hl
      · trivial
    · trivial
  split
  · unfold parseFloat
    split
    · rename_i b i h
      obtain ⟨r, hr, hl⟩ := sliceFrom_sat src i (hL.f32_le src b i h)
      rw [hr]; simpa [Sat] using hl
    · trivial
  split
  · exact Sat.bind (parseString_sat src) (by rintro ⟨s, rest⟩ h; simpa [Sat] using h)
  split
  · exact Sat.bind (parseString_sat src) (by rintro ⟨s, rest⟩ h; simpa [Sat] using h)
  · unfold parseArray
    split
    · trivial
    · rename_i st r
      split
      · trivial
      · refine Sat.bind (parseString_sat r) ?_
        rintro ⟨buf, rest⟩ h
        have h' : rest.length ≤ r.length := h
        cases buf with
        | nil =>
          show rest.length ≤ (st :: r).length
          simp only [List.length_cons]; omega
        | cons c b =>
          show Sat (if c = 44 then ok (Val.array st b, rest) else err Err.invalidData) _
          split
          · show rest.length ≤ (st :: r).length
            simp only [List.length_cons]; omega
          · trivial

theorem parseField_sat (L : Lexical) (hL : L.Lawful) (src : Bytes) :
    Sat (parseField L src) (fun p => p.2.length < src.length) := by
  unfold parseField
  have htag : Sat (parseTag src) (fun p => p.2.length + 2 = src.length) := by
    unfold parseTag; split <;> simp [Sat]
  refine Sat.bind htag ?_
  rintro ⟨⟨t0, t1⟩, s1⟩ h1
  simp only at h1 ⊢
  have hdel : ∀ s, Sat (consumeDelimiter s) (fun r => r.length + 1 = s.length) := by
    intro s; unfold consumeDelimiter; split
    · trivial
    · split <;> simp [Sat]
  refine Sat.bind (hdel s1) ?_
  intro s2 h2
  have hty : Sat (parseType s2) (fun p => p.2.length + 1 = s2.length) := by
    unfold parseType; split
    · trivial
    · split <;> simp [Sat]
  refine Sat.bind hty ?_
  rintro ⟨ty, s3⟩ h3
  simp only at h3 ⊢
  refine Sat.bind (hdel s3) ?_
  intro s4 h4
  refine Sat.bind (parseValue_sat L hL ty s4) ?_
  rintro ⟨v, s5⟩ h5
  simp only at h5 ⊢
  have hterm : Sat (maybeConsumeTerminator s5) (fun r => r.length ≤ s5.length) := by
    unfold maybeConsumeTerminator; split
    · simp [Sat]
    · split <;> simp [Sat]
  refine Sat.bind hterm ?_
  intro s6 h6
  simp only [Sat]
  omega

theorem dataFields_ne_panic (L : Lexical) (hL : L.Lawful) :
    ∀ (fuel : Nat) (src : Bytes), dataFields L fuel src ≠ .panic
  | 0, _ => by simp [dataFields]
  | fuel + 1, src => by
    unfold dataFields
    split
    · simp
    · have := (parseField_sat L hL src).ne_panic
      split
      · rename_i f rest _
        refine bind_ne_panic (dataFields_ne_panic L hL fuel rest) ?_
        rintro ⟨fs, e⟩ _
        simp
      · simp
      · rename_i h; exact absurd h this

/-- more fuel than bytes is enough: the walk does not depend on the fuel -/
theorem dataFields_fuel (L : Lexical) (hL : L.Lawful) :
    ∀ (f1 f2 : Nat) (src : Bytes), src.length < f1 → src.length < f2 →
      dataFields L f1 src = dataFields L f2 src
  | 0, _, _, h, _ => by omega
  | _, 0, _, _, h => by omega
  | f1 + 1, f2 + 1, src, h1, h2 => by
    unfold dataFields
    split
    · rfl
    · have hs := parseField_sat L hL src
      cases hp : parseField L src with
      | panic => rfl
      | err e => rfl
      | ok p =>
        obtain ⟨f, rest⟩ := p
        rw [hp] at hs
        simp only [Sat] at hs
        simp only
        rw [dataFields_fuel L hL f1 f2 rest (by omega) (by omega)]

/-! ## the transcription of lexical-core satisfies the law -/

theorem lexPartial_le (signed : Bool) (lo hi : Int) (s : Bytes) (v : Int) (i : Nat)
    (h : lexPartial signed lo hi s = .ok (v, i)) : i ≤ s.length := by
  simp only [lexPartial] at h
  split at h
  · cases h
  · split at h
    · cases h
    · split at h
      · cases h
      · simp only [Except.ok.injEq, Prod.mk.injEq] at h
        omega

theorem lexical_lawful (f32 : Bytes → Option (Nat × Nat))
    (hf : ∀ s n i, f32 s = some (n, i) → i ≤ s.length) : (lexical f32).Lawful := by
  refine ⟨?_, ?_, ?_, hf⟩
  · intro s n i h
    simp only [lexical] at h
    cases hp : lexPartial false 0 18446744073709551615 s with
    | error e => simp [hp, optOf] at h
    | ok p =>
      obtain ⟨v, j⟩ := p
      simp only [hp, optOf, Option.map_some, Option.some.injEq, Prod.mk.injEq] at h
      rw [← h.2]; exact lexPartial_le _ _ _ _ _ _ hp
  · intro s n i h
    exact lexPartial_le _ _ _ _ _ _ h
  · intro s n i h
    simp only [lexical] at h
    cases hp : lexPartial false 0 4294967295 s with
    | error e => simp [hp, optOf] at h
    | ok p =>
      obtain ⟨v, j⟩ := p
      simp only [hp, optOf, Option.map_some, Option.some.injEq, Prod.mk.injEq] at h
      rw [← h.2]; exact lexPartial_le _ _ _ _ _ _ hp


/-- carriage returns only in CRLF line endings: the code as it is reads what the fixed code reads -/
theorem readRecord_crlf (input : Bytes) (h : CRLFOnly input) :
    readRecord false input = readRecord true input := by
  unfold readRecord
  obtain ⟨e, hp⟩ := readRequired_crlf 10 input [] [] 0 h (by simp)
  rw [e]
  cases hr : readRequired (readField true) 10 input [] [] 0 with
  | panic => simp
  | err e => simp
  | ok r =>
    obtain ⟨dst, ends, len, src⟩ := r
    obtain ⟨h1, h2⟩ := hp _ hr
    simp only [bind_ok]
    obtain ⟨e2, hp2⟩ := readField_crlf src dst h2 h1
    rw [e2]
    cases hf : readField true src dst with
    | panic => simp
    | err e => simp
    | ok f =>
      obtain ⟨h3, h4⟩ := hp2 f hf
      simp only [bind_ok]
      split
      · rfl
      · rename_i hne
        rw [readLineInto_crlf f.rest f.dst (h4 (by simpa using hne))]

end Noodles.Hostile.SamText
