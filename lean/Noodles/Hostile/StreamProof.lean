import Noodles.Hostile.Stream
/-!
# `Safe` is compositional

Lemmas that carry "does not panic, consumes a prefix" through the combinators of
`Noodles/Hostile/Stream.lean`.
-/
namespace Noodles.Hostile
open Rd
variable {α β : Type}

theorem bind_apply (x : Rd α) (f : α → Rd β) (s : Bytes) :
    (x >>= f) s = match x s with
      | .ok (a, r) => f a r
      | .err e => .err e
      | .panic => .panic := rfl

theorem pure_apply (a : α) (s : Bytes) : (Pure.pure a : Rd α) s = .ok (a, s) := rfl

theorem Safe.length_le {x : Rd α} (h : Safe x) {s : Bytes} {a : α} {r : Bytes}
    (e : x s = .ok (a, r)) : r.length ≤ s.length := (h.suffix e).length_le

theorem safe_pure (a : α) : Safe (Pure.pure a : Rd α) where
  ne_panic s := by simp [pure_apply]
  suffix := by
    intro s a' r h
    simp only [pure_apply, Res.ok.injEq, Prod.mk.injEq] at h; rw [← h.2]; exact List.suffix_refl _

theorem safe_pure' (a : α) : Safe (Rd.pure a) := safe_pure a

theorem safe_fail (e : Err) : Safe (Rd.fail e : Rd α) where
  ne_panic s := by simp [Rd.fail]
  suffix := by intro s a r h; simp [Rd.fail] at h

/-- the general form: the continuation only has to be safe on the values the first part can
actually produce -/
theorem safe_bind_of {x : Rd α} {f : α → Rd β} (hx : Safe x)
    (hf : ∀ s a r, x s = .ok (a, r) → Safe (f a)) : Safe (x >>= f) where
  ne_panic s := by
    rw [bind_apply]
    cases hxs : x s with
    | ok p => obtain ⟨a, r⟩ := p; exact (hf s a r hxs).ne_panic r
    | err e => simp
    | panic => exact absurd hxs (hx.ne_panic s)
  suffix := by
    intro s b r' h
    rw [bind_apply] at h
    cases hxs : x s with
    | ok p =>
      obtain ⟨a, r⟩ := p
      rw [hxs] at h
      exact ((hf s a r hxs).suffix h).trans (hx.suffix hxs)
    | err e => rw [hxs] at h; cases h
    | panic => rw [hxs] at h; cases h

theorem safe_bind {x : Rd α} {f : α → Rd β} (hx : Safe x) (hf : ∀ a, Safe (f a)) :
    Safe (x >>= f) := safe_bind_of hx fun _ a _ _ => hf a

theorem safe_bind' {x : Rd α} {f : α → Rd β} (hx : Safe x) (hf : ∀ a, Safe (f a)) :
    Safe (Rd.bind x f) := safe_bind hx hf

theorem safe_lift {x : Res α} (h : x ≠ .panic) : Safe (Rd.lift x) := by
  cases x with
  | ok a =>
    exact ⟨fun s => by simp [Rd.lift], by
      intro s a' r h'
      simp only [Rd.lift, Res.ok.injEq, Prod.mk.injEq] at h'; rw [← h'.2]; exact List.suffix_refl _⟩
  | err e => exact ⟨fun s => by simp [Rd.lift], by intro s a r h'; simp [Rd.lift] at h'⟩
  | panic => exact absurd rfl h

theorem lift_ok {x : Res α} {s r : Bytes} {a : α} (h : Rd.lift x s = .ok (a, r)) : x = .ok a := by
  cases x with
  | ok b => simp only [Rd.lift, Res.ok.injEq, Prod.mk.injEq] at h; rw [h.1]
  | err e => simp [Rd.lift] at h
  | panic => simp [Rd.lift] at h

theorem safe_mapErr (f : Err → Err) {x : Rd α} (hx : Safe x) : Safe (Rd.mapErr f x) where
  ne_panic s := by
    unfold Rd.mapErr
    cases hxs : x s with
    | ok p => simp
    | err e => simp
    | panic => exact absurd hxs (hx.ne_panic s)
  suffix := by
    intro s a r h
    unfold Rd.mapErr at h
    cases hxs : x s with
    | ok p => rw [hxs] at h; cases h; exact hx.suffix hxs
    | err e => rw [hxs] at h; cases h
    | panic => rw [hxs] at h; cases h

theorem safe_wrapInvalid {x : Rd α} (hx : Safe x) : Safe (Rd.wrapInvalid x) := safe_mapErr _ hx

theorem safe_rest : Safe Rd.rest where
  ne_panic s := by simp [Rd.rest]
  suffix := by
    intro s a r h
    simp only [Rd.rest, Res.ok.injEq, Prod.mk.injEq] at h; rw [← h.2]; exact List.suffix_refl _

theorem readExact_ok {n : Nat} {s b r : Bytes} (h : readExact n s = .ok (b, r)) :
    b.length = n ∧ b = s.take n ∧ r = s.drop n ∧ n ≤ s.length := by
  unfold readExact at h
  split at h
  · cases h
  · cases h; rename_i hn
    refine ⟨?_, rfl, rfl, ?_⟩
    · simp only [List.length_take]; omega
    · omega

theorem safe_readExact (n : Nat) : Safe (readExact n) where
  ne_panic s := by unfold readExact; split <;> simp
  suffix := by intro s a r h; rw [(readExact_ok h).2.2.1]; exact List.drop_suffix _ _

theorem safe_window (n : Nat) : Safe (Rd.window n) where
  ne_panic s := by simp [Rd.window]
  suffix := by intro s a r h; cases h; exact List.drop_suffix _ _

theorem safe_withTake (n : Nat) {x : Rd α} (hx : Safe x) : Safe (Rd.withTake n x) where
  ne_panic s := by
    unfold Rd.withTake
    cases hxs : x (s.take n) with
    | ok p => simp
    | err e => simp
    | panic => exact absurd hxs (hx.ne_panic _)
  suffix := by
    intro s a r h
    unfold Rd.withTake at h
    cases hxs : x (s.take n) with
    | ok p => rw [hxs] at h; cases h; exact List.drop_suffix _ _
    | err e => rw [hxs] at h; cases h
    | panic => rw [hxs] at h; cases h

theorem safe_withTakeDrain (n : Nat) {x : Rd α} (hx : Safe x) : Safe (Rd.withTakeDrain n x) where
  ne_panic s := by
    unfold Rd.withTakeDrain
    cases hxs : x (s.take n) with
    | ok p => simp
    | err e => simp
    | panic => exact absurd hxs (hx.ne_panic _)
  suffix := by
    intro s a r h
    unfold Rd.withTakeDrain at h
    cases hxs : x (s.take n) with
    | ok p => rw [hxs] at h; cases h; exact List.drop_suffix _ _
    | err e => rw [hxs] at h; cases h
    | panic => rw [hxs] at h; cases h

theorem safe_many {x : Rd α} (hx : Safe x) : ∀ n, Safe (Rd.many x n)
  | 0 => safe_pure' _
  | n+1 => safe_bind' hx fun _ => safe_bind' (safe_many hx n) fun _ => safe_pure' _

theorem safe_ite {c : Prop} [Decidable c] {x y : Rd α} (hx : Safe x) (hy : Safe y) :
    Safe (if c then x else y) := by split <;> assumption

theorem safe_readU8 : Safe readU8 := safe_bind (safe_readExact 1) fun _ => safe_pure _
theorem safe_readU16 : Safe readU16 := safe_bind (safe_readExact 2) fun _ => safe_pure _
theorem safe_readU32 : Safe readU32 := safe_bind (safe_readExact 4) fun _ => safe_pure _
theorem safe_readU64 : Safe readU64 := safe_bind (safe_readExact 8) fun _ => safe_pure _
theorem safe_readI32 : Safe readI32 := safe_bind (safe_readExact 4) fun _ => safe_pure _

theorem safe_natOfInt (e : Err) (i : Int) : Safe (natOfInt e i) := by
  unfold natOfInt; exact safe_ite (safe_pure' _) (safe_fail _)

theorem safe_readCountI32 : Safe readCountI32 := safe_bind safe_readI32 fun _ => safe_natOfInt _ _

theorem safe_readMagic (m : Bytes) : Safe (readMagic m) :=
  safe_bind (safe_readExact _) fun _ => safe_ite (safe_pure _) (safe_fail _)

theorem safe_readExactToVec (n : Nat) : Safe (readExactToVec n) :=
  safe_bind (safe_window n) fun _ => safe_ite (safe_pure _) (safe_fail _)

theorem safe_readUnplaced : Safe readUnplaced where
  ne_panic s := by
    unfold readUnplaced
    cases h : readU64 s with
    | ok p => simp
    | err e => cases e <;> simp
    | panic => exact absurd h (safe_readU64.ne_panic s)
  suffix := by
    intro s a r h'
    unfold readUnplaced at h'
    cases h : readU64 s with
    | ok p => rw [h] at h'; cases h'; exact safe_readU64.suffix h
    | err e =>
      rw [h] at h'
      cases e <;> cases h'
      exact List.nil_suffix
    | panic => rw [h] at h'; cases h'

/-- the value a reader of `k` little-endian bytes returns is below `256^k` -/
theorem readLe_lt {k : Nat} {s r : Bytes} {n : Nat}
    (h : (readExact k >>= fun b => (Pure.pure (leVal b) : Rd Nat)) s = .ok (n, r)) : n < 256 ^ k := by
  rw [bind_apply] at h
  cases hb : readExact k s with
  | ok p =>
    obtain ⟨b, r'⟩ := p
    rw [hb] at h
    simp only [pure_apply, Res.ok.injEq, Prod.mk.injEq] at h
    have := leVal_lt b
    rw [(readExact_ok hb).1] at this
    omega
  | err e => rw [hb] at h; cases h
  | panic => rw [hb] at h; cases h

theorem readU32_lt {s r : Bytes} {n : Nat} (h : readU32 s = .ok (n, r)) : n < 2^32 := readLe_lt h
theorem readU8_lt {s r : Bytes} {n : Nat} (h : readU8 s = .ok (n, r)) : n < 256 := readLe_lt h

/-! ## what a reader's value satisfies -/

/-- every value the reader returns satisfies `P` -/
def Post {α : Type} (x : Rd α) (P : α → Prop) : Prop := ∀ s a r, x s = .ok (a, r) → P a

theorem bind_ok_inv {x : Rd α} {f : α → Rd β} {s r' : Bytes} {b : β}
    (h : (x >>= f) s = .ok (b, r')) : ∃ a r, x s = .ok (a, r) ∧ f a r = .ok (b, r') := by
  rw [bind_apply] at h
  cases hxs : x s with
  | ok p => obtain ⟨a, r⟩ := p; rw [hxs] at h; exact ⟨a, r, rfl, h⟩
  | err e => rw [hxs] at h; cases h
  | panic => rw [hxs] at h; cases h

theorem post_bind {x : Rd α} {f : α → Rd β} {P : α → Prop} {Q : β → Prop}
    (hx : Post x P) (hf : ∀ a, P a → Post (f a) Q) : Post (x >>= f) Q := by
  intro s b r' h
  obtain ⟨a, r, h1, h2⟩ := bind_ok_inv h
  exact hf a (hx s a r h1) r b r' h2

theorem post_bind_right {x : Rd α} {f : α → Rd β} {Q : β → Prop}
    (hf : ∀ a, Post (f a) Q) : Post (x >>= f) Q :=
  post_bind (P := fun _ => True) (fun _ _ _ _ => trivial) fun a _ => hf a

theorem post_pure {a : α} {P : α → Prop} (h : P a) : Post (Pure.pure a : Rd α) P := by
  intro s a' r e
  simp only [pure_apply, Res.ok.injEq, Prod.mk.injEq] at e
  rw [← e.1]; exact h

theorem post_fail {e : Err} {P : α → Prop} : Post (Rd.fail e : Rd α) P := by
  intro s a r h; simp [Rd.fail] at h

theorem post_ite {c : Prop} [Decidable c] {x y : Rd α} {P : α → Prop}
    (hx : c → Post x P) (hy : ¬ c → Post y P) : Post (if c then x else y) P := by
  split
  · exact hx ‹_›
  · exact hy ‹_›

theorem post_lift {x : Res α} {P : α → Prop} (h : ∀ a, x = .ok a → P a) : Post (Rd.lift x) P := by
  intro s a r e; exact h a (lift_ok e)

theorem post_mono {x : Rd α} {P Q : α → Prop} (h : Post x P) (hpq : ∀ a, P a → Q a) : Post x Q :=
  fun s a r e => hpq a (h s a r e)

theorem post_mapErr (f : Err → Err) {x : Rd α} {P : α → Prop} (h : Post x P) :
    Post (Rd.mapErr f x) P := by
  intro s a r e
  unfold Rd.mapErr at e
  cases hxs : x s with
  | ok p => rw [hxs] at e; cases e; exact h s a r hxs
  | err e' => rw [hxs] at e; cases e
  | panic => rw [hxs] at e; cases e

theorem post_readExact (n : Nat) : Post (readExact n) fun b => b.length = n :=
  fun _ _ _ h => (readExact_ok h).1

theorem post_readExactToVec (n : Nat) : Post (readExactToVec n) fun b => b.length = n := by
  unfold readExactToVec
  refine post_bind_right fun w => ?_
  exact post_ite (fun h => post_pure h) (fun _ => post_fail)

theorem post_readLe (k : Nat) :
    Post (readExact k >>= fun b => (Pure.pure (leVal b) : Rd Nat)) fun n => n < 256 ^ k :=
  fun _ _ _ h => readLe_lt h

theorem post_readU32 : Post readU32 fun n => n < 2^32 := post_readLe 4
theorem post_readU8 : Post readU8 fun n => n < 256 := post_readLe 1

theorem post_many {x : Rd α} : ∀ n, Post (Rd.many x n) fun l => l.length = n
  | 0 => by
    intro s a r e
    simp only [Rd.many, Rd.pure, Res.ok.injEq, Prod.mk.injEq] at e
    rw [← e.1]; rfl
  | n+1 => by
    show Post (x >>= fun a => Rd.many x n >>= fun as => (Pure.pure (a :: as) : Rd (List α))) _
    refine post_bind_right fun a => ?_
    refine post_bind (post_many n) fun as has => ?_
    exact post_pure (by simp [has])

theorem post_many_all {x : Rd α} {P : α → Prop} (hx : Post x P) :
    ∀ n, Post (Rd.many x n) fun l => ∀ a ∈ l, P a
  | 0 => by
    intro s a r e
    simp only [Rd.many, Rd.pure, Res.ok.injEq, Prod.mk.injEq] at e
    rw [← e.1]; simp
  | n+1 => by
    show Post (x >>= fun a => Rd.many x n >>= fun as => (Pure.pure (a :: as) : Rd (List α))) _
    refine post_bind hx fun a ha => ?_
    refine post_bind (post_many_all hx n) fun as has => ?_
    exact post_pure (by
      intro b hb
      rcases List.mem_cons.mp hb with rfl | hb
      · exact ha
      · exact has b hb)

/-- one step of a `Safe` proof: close the goal with a primitive, or peel one combinator -/
macro "safe_step" : tactic => `(tactic| first
  | exact safe_pure _ | exact safe_pure' _ | exact safe_fail _
  | exact safe_readU8 | exact safe_readU16 | exact safe_readU32 | exact safe_readU64
  | exact safe_readI32 | exact safe_readCountI32 | exact safe_readExact _ | exact safe_readExactToVec _
  | exact safe_readMagic _ | exact safe_readUnplaced | exact safe_window _ | exact safe_rest
  | exact safe_natOfInt _ _
  | assumption
  | with_reducible apply safe_bind | with_reducible apply safe_bind'
  | with_reducible apply safe_ite | with_reducible apply safe_wrapInvalid
  | with_reducible apply safe_many | with_reducible apply safe_withTake
  | with_reducible apply safe_withTakeDrain
  | intro _)

/-- peel `Safe` goals as far as the primitives go; what is left are the calls of other readers -/
macro "safe_auto" : tactic => `(tactic| repeat' safe_step)

end Noodles.Hostile
