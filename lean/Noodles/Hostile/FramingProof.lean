import Noodles.Hostile.StreamProof
import Noodles.Hostile.BamHeader
import Noodles.Hostile.BcfFraming
import Noodles.Hostile.BcfProof
/-!
# BAM header, BCF header and BCF record framing never panic and consume a prefix

Helper lemmas for `Noodles/Props/C15Bin.lean`.
-/
namespace Noodles.Hostile.BamHdr
open Noodles.Hostile Rd

theorem findLF_lt : ∀ {src : Bytes} {i : Nat}, findLF src = some i → i < src.length
  | [], i, h => by simp [findLF] at h
  | b :: r, i, h => by
    unfold findLF at h
    split at h
    · cases h; simp
    · cases hr : findLF r with
      | none => rw [hr] at h; simp at h
      | some j =>
        rw [hr] at h
        simp only [Option.map_some, Option.some.injEq] at h
        have := findLF_lt hr
        simp only [List.length_cons]; omega

/-- `&src[..=i]` is in range: `i` is a position `find_byte` found in `src` -/
theorem fillBuf_ne_panic (isEol : Bool) (src : Bytes) : fillBuf isEol src ≠ .panic := by
  unfold fillBuf
  split
  · simp
  · cases h : findLF src with
    | none => simp
    | some i =>
      have := findLF_lt h
      simp only
      rw [sliceTo_ok (by omega)]
      simp

/-- what `fill_buf` hands out is a prefix of what is buffered -/
theorem fillBuf_prefix {isEol e : Bool} {src b : Bytes} (h : fillBuf isEol src = .ok (b, e)) :
    b <+: src := by
  unfold fillBuf at h
  split at h
  · cases h; exact List.nil_prefix
  · cases hf : findLF src with
    | none => rw [hf] at h; cases h; exact List.prefix_refl _
    | some i =>
      rw [hf] at h
      have := findLF_lt hf
      simp only at h
      rw [sliceTo_ok (by omega)] at h
      cases h; exact List.take_prefix _ _

theorem cstr_ne_panic (c : Bytes) : cstr c ≠ .panic := by unfold cstr; split <;> simp

theorem safe_readText : Safe readText := by unfold readText; safe_auto

theorem safe_readSamHeader (P : List Bytes → Option Refs) : Safe (readSamHeader P) := by
  unfold readSamHeader
  refine safe_bind safe_readText fun lines => ?_
  split <;> safe_auto

theorem safe_readName : Safe readName := by
  unfold readName; safe_auto; exact safe_lift (cstr_ne_panic _)

theorem safe_readLength : Safe readLength := by unfold readLength; safe_auto

theorem safe_readReferenceSequence : Safe readReferenceSequence := by
  unfold readReferenceSequence; safe_auto
  · exact safe_readName
  · exact safe_readLength

theorem safe_readReferenceSequences : Safe readReferenceSequences := by
  unfold readReferenceSequences; safe_auto; exact safe_readReferenceSequence

theorem safe_readHeader (P : List Bytes → Option Refs) : Safe (readHeader P) := by
  unfold readHeader; safe_auto
  · exact safe_readSamHeader P
  · exact safe_readReferenceSequences

theorem safe_readHeaderParts : Safe readHeaderParts := by
  unfold readHeaderParts; safe_auto
  · exact safe_readText
  · exact safe_readReferenceSequences

/-! ### what an accepted dictionary looks like -/

theorem cstr_ok {c n : Bytes} (h : cstr c = .ok n) : (0 : UInt8) ∉ n := by
  unfold cstr at h
  split at h
  · rename_i hc; cases h; exact hc.2
  · cases h

theorem post_readReferenceSequence :
    Post readReferenceSequence fun e => (0 : UInt8) ∉ e.1 ∧ 0 < e.2 ∧ e.2 < 2^32 := by
  unfold readReferenceSequence
  refine post_bind (P := fun n => (0 : UInt8) ∉ n) ?_ fun name hn => ?_
  · unfold readName
    refine post_bind_right fun l => post_bind_right fun c => post_lift fun a ha => cstr_ok ha
  · refine post_bind (P := fun l => 0 < l ∧ l < 2^32) ?_ fun len hl => post_pure ⟨hn, hl⟩
    unfold readLength
    refine post_bind post_readU32 fun n hn => ?_
    exact post_ite (fun _ => post_fail) (fun h0 => post_pure ⟨by omega, hn⟩)

end Noodles.Hostile.BamHdr

namespace Noodles.Hostile.BcfFrame
open Noodles.Hostile Rd

theorem safe_readText : Safe readText := by unfold readText; safe_auto

theorem safe_readHeader (P : List Bytes → Parsed) : Safe (readHeader P) := by
  unfold readHeader
  refine safe_bind (safe_readMagic _) fun _ => safe_bind (safe_readExact 2) fun _ => ?_
  refine safe_bind safe_readText fun p => ?_
  obtain ⟨lines, truncated⟩ := p
  dsimp only
  split <;> safe_auto

theorem safe_readHeaderParts : Safe readHeaderParts := by
  unfold readHeaderParts
  refine safe_bind (safe_readMagic _) fun _ => safe_bind (safe_readExact 2) fun _ => ?_
  refine safe_bind safe_readText fun p => ?_
  obtain ⟨lines, truncated⟩ := p
  dsimp only
  safe_auto

theorem readExactOrEof_cases {len : Nat} (hlen : len < USIZE) (s : Bytes) :
    (s = [] ∧ readExactOrEof len s = .ok (List.replicate len 0, s)) ∨
    (len = 0 ∧ readExactOrEof len s = .ok ([], s)) ∨
    (s.length < len ∧ readExactOrEof len s = .err .eof) ∨
    (len ≤ s.length ∧ readExactOrEof len s = .ok (s.take len, s.drop len)) := by
  unfold readExactOrEof
  by_cases h0 : min len s.length = 0
  · simp only [h0, if_true]
    rcases Nat.min_eq_zero_iff.mp h0 with h | h
    · right; left; subst h; exact ⟨rfl, rfl⟩
    · left; exact ⟨List.eq_nil_of_length_eq_zero h, trivial⟩
  · simp only [h0, if_false]
    have hn : min len s.length ≤ len := Nat.min_le_left _ _
    have hs : sliceFrom (List.replicate len (0 : UInt8)) (min len s.length)
        = .ok ((List.replicate len (0 : UInt8)).drop (min len s.length)) :=
      sliceFrom_ok (by simp [hn])
    have hu : uadd 0 (min len s.length) = .ok (min len s.length) := by
      have := uadd_ok (a := 0) (b := min len s.length) (by omega)
      simpa using this
    rw [hs, hu]
    simp only [Res.bind_ok, Res.pure_eq]
    by_cases hl : len ≤ s.length
    · right; right; right
      refine ⟨hl, ?_⟩
      have : min len s.length = len := Nat.min_eq_left hl
      simp [this]
    · right; right; left
      refine ⟨by omega, ?_⟩
      have hm : min len s.length = s.length := Nat.min_eq_right (by omega)
      have hpos : 0 < s.length := by omega
      have : ¬ (List.replicate len (0 : UInt8)).drop (min len s.length) = [] := by
        rw [hm]; intro hc
        have := congrArg List.length hc
        simp at this; omega
      simp [hm, hpos]
      omega

theorem safe_readExactOrEof {len : Nat} (hlen : len < USIZE) : Safe (readExactOrEof len) where
  ne_panic s := by
    rcases readExactOrEof_cases hlen s with h | h | h | h <;> rw [h.2] <;> simp
  suffix := by
    intro s a r e
    rcases readExactOrEof_cases hlen s with h | h | h | h <;> rw [h.2] at e <;> cases e
    · exact List.suffix_refl _
    · exact List.suffix_refl _
    · exact List.drop_suffix _ _

theorem post_readExactOrEof {len : Nat} (hlen : len < USIZE) :
    Post (readExactOrEof len) fun b => b.length = len := by
  intro s a r e
  rcases readExactOrEof_cases hlen s with h | h | h | h <;> rw [h.2] at e <;> cases e
  · simp
  · simp [h.1]
  · simp [h.1]

/-- what `read_record` returns: the site block is shorter than 4 GiB and `bounds` is what `index`
computed on it -/
def RecordOK : Option (Bytes × Bytes × Bcf.Bounds) → Prop
  | none => True
  | some (site, _, bounds) => site.length < 2^32 ∧ Bcf.index site = .ok bounds

theorem leVal4_lt {b : Bytes} (h : b.length = 4) : leVal b < 2^32 := by
  have := leVal_lt b; rw [h] at this; omega

theorem safe_readRecord : Safe readRecord := by
  unfold readRecord
  refine safe_bind_of (safe_readExactOrEof (by decide)) fun s b r hb => ?_
  have hb4 := post_readExactOrEof (by decide) s b r hb
  have hls := leVal4_lt hb4
  refine safe_ite (safe_pure _) ?_
  refine safe_bind_of safe_readU32 fun s2 li r2 hli => ?_
  have hli' := post_readU32 s2 li r2 hli
  refine safe_bind_of (safe_readExactToVec _) fun s3 site r3 hsite => ?_
  have hsl := post_readExactToVec _ s3 site r3 hsite
  refine safe_bind (safe_lift (Bcf.index_sat site (by omega)).ne_panic) fun bounds => ?_
  refine safe_bind (safe_readExactToVec _) fun samples => ?_
  refine safe_bind (safe_lift ?_) fun _ => safe_pure _
  rw [uadd_ok (by unfold USIZE; omega)]; simp

theorem post_readRecord : Post readRecord RecordOK := by
  unfold readRecord
  refine post_bind (post_readExactOrEof (by decide)) fun b hb4 => ?_
  have hls := leVal4_lt hb4
  refine post_ite (fun _ => post_pure trivial) fun _ => ?_
  refine post_bind_right fun li => ?_
  refine post_bind (post_readExactToVec _) fun site hsl => ?_
  refine post_bind (post_lift (P := fun bd => Bcf.index site = .ok bd) fun a ha => ha) fun bounds hbd => ?_
  refine post_bind_right fun samples => post_bind_right fun _ => post_pure ?_
  exact ⟨by omega, hbd⟩

theorem safe_readRecordAndTouch : Safe readRecordAndTouch := by
  unfold readRecordAndTouch
  refine safe_bind_of safe_readRecord fun s o r ho => ?_
  have hpost := post_readRecord s o r ho
  cases o with
  | none => exact safe_pure _
  | some p =>
    obtain ⟨site, samples, bounds⟩ := p
    obtain ⟨hlen, hidx⟩ := hpost
    dsimp only
    refine safe_bind (safe_lift ?_) fun q => ?_
    · exact Bcf.fieldSlices_ne_panic ((Bcf.index_sat site (by omega)).of_ok hidx)
    · obtain ⟨a, r', t, f⟩ := q; exact safe_pure _

end Noodles.Hostile.BcfFrame
