import Noodles.Hostile.TextKit
/-!
# The lazy BED record (`bed::Record<N>`): reader and field bounds

Transcribed from noodles-bed with the slices explicit (`Noodles/Gff/Bed.lean` is the value-level
model of the same code used by C18; this one keeps the `Res` outcomes and shares `readField`
with the SAM and VCF readers):

* `io/reader/record.rs`   — `read_record_3` … `read_record_6` (`N - 1` `read_required_field`s, one
                             `read_field`, `read_other_fields`), `skip_comment_lines`,
                             `discard_line`
* `record/fields.rs`, `record/fields/bounds.rs` — the standard accessors
                             `&self.buf[standard_fields_ends[k-1]..standard_fields_ends[k]]`,
                             `Bounds::get(i)` for the other fields
* `record/other_fields.rs` — `OtherFields::iter`: `get(0)`, `get(1)`, … until `None`
-/
namespace Noodles.Hostile.BedText
open Noodles.Hostile Noodles.Hostile.Text

/-- `skip_comment_lines` + `discard_line` on a slice reader: while the window starts with `#`,
`memchr(b'\n')` and `consume(i + 1)` (or everything) -/
def skipComments : Nat → Bytes → Res Bytes
  | 0, s => .ok s
  | fuel + 1, s =>
    if s.head? == some 35 then
      match findIdx (fun b => b == LF) s with
      | some i => do
        let n ← uadd i 1
        let rest ← sliceFrom s n
        skipComments fuel rest
      | none => do
        let rest ← sliceFrom s s.length
        skipComments fuel rest
    else .ok s

/-- `Fields<N>`: the buffer, `standard_fields_ends: [usize; N]`, `other_fields_ends: Vec<usize>` -/
structure Rec where
  buf : Bytes
  std : List Nat
  other : List Nat
  deriving Repr, DecidableEq

/-- `read_other_fields` -/
def readOthers (fixed : Bool) :
    Nat → Bytes → Bytes → List Nat → Nat → Res (Bytes × List Nat × Nat)
  | 0, _, dst, ends, len => .ok (dst, ends, len)
  | fuel + 1, src, dst, ends, len => do
    let f ← readField fixed src dst
    if f.n = 0 then .ok (f.dst, ends, len)
    else do
      let len' ← uadd len f.n
      let ends' := ends ++ [f.dst.length]
      if f.eol then .ok (f.dst, ends', len')
      else readOthers fixed fuel f.rest f.dst ends' len'

/-- `read_record_N` (`N` = 3..6) on a slice reader: the record and the byte count (the skipped
comment lines are not counted) -/
def readRecord (fixed : Bool) (N : Nat) (input : Bytes) : Res (Rec × Nat) := do
  let src ← skipComments (input.length + 1) input
  let (dst, ends, len, src) ← readRequired (readField fixed) (N - 1) src [] [] 0
  let f ← readField fixed src dst
  let len ← uadd len f.n
  let ends := ends ++ [f.dst.length]
  if f.eol then .ok (⟨f.dst, ends, []⟩, len)
  else do
    let (buf, other, len') ← readOthers fixed (f.rest.length + 1) f.rest f.dst [] 0
    let len ← uadd len len'
    .ok (⟨buf, ends, other⟩, len)

/-- standard field `k` (`k < N`) -/
def Rec.field (r : Rec) (k : Nat) : Res Bytes := fieldSlice r.buf r.std k

/-- `Bounds::get(i)` + `Fields::get(i)`: `None` beyond the last other field; the range starts at
the previous other field's end, or at `standard_fields_ends[N - 1]` -/
def Rec.otherField (r : Rec) (i : Nat) : Res (Option Bytes) :=
  match r.other[i]? with
  | none => .ok none
  | some e => do
    let start := if i = 0 then r.std.getLast?.getD 0 else r.other.getD (i - 1) 0
    let s ← slice r.buf start e
    .ok (some s)

/-- `OtherFields::iter` -/
def Rec.others (r : Rec) : Nat → Nat → Res (List Bytes)
  | 0, _ => .ok []
  | fuel + 1, i => do
    match (← r.otherField i) with
    | none => .ok []
    | some s => do
      let ss ← r.others fuel (i + 1)
      .ok (s :: ss)

def stdFields (r : Rec) : Nat → Nat → Res (List Bytes)
  | 0, _ => .ok []
  | m + 1, k => do
    let s ← r.field k
    let ss ← stdFields r m (k + 1)
    .ok (s :: ss)

/-- `read_record` followed by every standard accessor and the other-field iterator -/
def readAndTouch (fixed : Bool) (N : Nat) (input : Bytes) : Res (Nat × List Bytes × List Bytes) := do
  let (r, n) ← readRecord fixed N input
  let std ← stdFields r N 0
  let oth ← r.others (r.other.length + 1) 0
  .ok (n, std, oth)

end Noodles.Hostile.BedText
