import Noodles.Hostile.CramRec
/-! Helper lemmas for `Noodles/Props/C15Rec.lean`: the no-panic kit, the bit reader, the decoders of
tame encodings, the record decoder and the compression header parser. -/
namespace Noodles.Hostile.CramRec
open Noodles.Cram.Enc

/-! ## kit -/

theorem NP_ok {α : Type} (a : α) : NP (.ok a : Res α) := by simp [NP]
theorem NP_pure {α : Type} (a : α) : NP (pure a : Res α) := by simp [NP, pure, Except.pure]
theorem NP_eof {α : Type} : NP (.error .eof : Res α) := by simp [NP]
theorem NP_invalidData {α : Type} : NP (.error .invalidData : Res α) := by simp [NP]
theorem NP_invalidInput {α : Type} : NP (.error .invalidInput : Res α) := by simp [NP]

theorem NP_bind {α β : Type} {x : Res α} {f : α → Res β} (hx : NP x) (hf : ∀ a, x = .ok a → NP (f a)) :
    NP (x >>= f) := by
  cases x with
  | error e => simpa [NP, bind, Except.bind] using hx
  | ok a => simpa [bind, Except.bind] using hf a rfl

theorem NP_ite {α : Type} {c : Prop} [Decidable c] {x y : Res α} (hx : c → NP x) (hy : ¬ c → NP y) :
    NP (if c then x else y) := by
  split
  · exact hx ‹_›
  · exact hy ‹_›

/-- an error that a callee passes up is not a panic when the callee's outcome is not -/
theorem NP_of_err {α β : Type} {x : Res α} {e : Err} (hx : NP x) (h : x = .error e) : NP (.error e : Res β) := by
  subst h
  intro h2
  apply hx
  simp only [Except.error.injEq] at h2
  rw [h2]

theorem isPanic_iff {α : Type} (x : Res α) : isPanic x = true ↔ x = .error .panic := by
  cases x with
  | ok a => simp [isPanic]
  | error e => cases e <;> simp [isPanic]

/-! ## bit reader -/

theorem readBit_NP (r : BitReader) : NP r.readBit := by
  unfold BitReader.readBit
  split
  · split <;> simp [NP]
  · simp [NP]

theorem readBits_NP : ∀ (k n : Nat) (r : BitReader), NP (BitReader.readBits k n r)
  | 0, n, r => by simp [BitReader.readBits, NP]
  | k + 1, n, r => by
    unfold BitReader.readBits
    split
    · rename_i e h; exact NP_of_err (readBit_NP r) h
    · exact readBits_NP k _ _

theorem readU32_NP (r : BitReader) (len : Nat) : NP (r.readU32 len) := by
  unfold BitReader.readU32
  split
  · exact NP_invalidInput
  · exact readBits_NP _ _ _

/-- a successful `read_bit` uses up one bit -/
theorem readBit_bitsLeft (r : BitReader) (hi : r.i ≤ 8) (b : Nat) (r' : BitReader) (h : r.readBit = .ok (b, r')) :
    bitsLeft r' + 1 = bitsLeft r ∧ r'.i ≤ 8 := by
  unfold BitReader.readBit at h
  split at h
  · split at h
    · simp at h
    · rename_i hge b0 rest hsrc
      simp only [Except.ok.injEq, Prod.mk.injEq] at h
      obtain ⟨_, rfl⟩ := h
      simp only [bitsLeft, hsrc, List.length_cons]
      omega
  · simp only [Except.ok.injEq, Prod.mk.injEq] at h
    obtain ⟨_, rfl⟩ := h
    simp only [bitsLeft]
    omega

/-! ## the Gamma zero-run loop: the count is bounded by the bits left, and the fuel is never used up -/

theorem gammaZeros_le : ∀ (f n : Nat) (r : BitReader), r.i ≤ 8 → ∀ (m : Nat) (r' : BitReader),
    gammaZeros f n r = .ok (m, r') → m + bitsLeft r' + 1 ≤ n + bitsLeft r ∧ r'.i ≤ 8
  | 0, n, r, _, m, r', h => by simp [gammaZeros] at h
  | f + 1, n, r, hi, m, r', h => by
    unfold gammaZeros at h
    split at h
    · simp at h
    · rename_i b r1 hb
      obtain ⟨h1, h2⟩ := readBit_bitsLeft r hi b r1 hb
      split at h
      · obtain ⟨h3, h4⟩ := gammaZeros_le f (n + 1) r1 h2 m r' h
        exact ⟨by omega, h4⟩
      · simp only [Except.ok.injEq, Prod.mk.injEq] at h
        obtain ⟨rfl, rfl⟩ := h
        exact ⟨by omega, h2⟩

/-- the loop ends by itself: with more fuel than bits left, more fuel changes nothing (the
`| 0 => .error .eof` arm of `gammaZeros` is never the reason for an answer) -/
theorem gammaZeros_fuel : ∀ (f n : Nat) (r : BitReader), r.i ≤ 8 → bitsLeft r < f → ∀ k,
    gammaZeros (f + k) n r = gammaZeros f n r
  | 0, _, _, _, h, _ => by omega
  | f + 1, n, r, hi, hf, k => by
    have e : f + 1 + k = (f + k) + 1 := by omega
    rw [e]
    unfold gammaZeros
    split
    · rfl
    · rename_i b r1 hb
      obtain ⟨h1, h2⟩ := readBit_bitsLeft r hi b r1 hb
      split
      · exact gammaZeros_fuel f (n + 1) r1 h2 (by omega) k
      · rfl

theorem gammaZeros_NP : ∀ (f n : Nat) (r : BitReader), NP (gammaZeros f n r)
  | 0, _, _ => by simp [gammaZeros, NP]
  | f + 1, n, r => by
    unfold gammaZeros
    split
    · rename_i e h; exact NP_of_err (readBit_NP r) h
    · split
      · exact gammaZeros_NP f _ _
      · exact NP_ok _

/-! ## Huffman (after the fix: no panicking construct is left) -/

theorem shl32_NP (x : Int) (d : Nat) : NP (shl32 x d) := by
  unfold shl32
  split <;> exact NP_ok _

theorem add32_NP (x y : Int) : NP (add32 x y) := by
  unfold add32
  split <;> exact NP_ok _

theorem assignCodes_NP : ∀ (l : List (Int × Nat)) (code : Int) (prev : Nat), NP (assignCodes code prev l)
  | [], _, _ => by simp [assignCodes, NP]
  | (sym, len) :: rest, code, prev => by
    unfold assignCodes
    split
    · rename_i e he
      refine NP_of_err ?_ he
      split
      · exact shl32_NP _ _
      · exact NP_ok _
    · split
      · rename_i e he; exact NP_of_err (add32_NP _ _) he
      · split
        · rename_i e he; exact NP_of_err (assignCodes_NP rest _ _) he
        · exact NP_ok _

theorem buildCodeBook_NP (alphabet : List Int) (lens : List Nat) : NP (buildCodeBook alphabet lens) := by
  unfold buildCodeBook
  split
  · exact NP_ok _
  · split
    · rename_i e he; exact NP_of_err (assignCodes_NP _ _ _) he
    · exact NP_ok _

theorem huffDecodeGo_NP (book : List Entry) : ∀ (lens : List Nat) (prev : Nat) (input : Int) (r : BitReader),
    NP (huffDecodeGo book lens prev input r)
  | [], _, _, _ => by simp [huffDecodeGo, NP]
  | len :: rest, prev, input, r => by
    unfold huffDecodeGo
    split
    · rename_i e he; exact NP_of_err (shl32_NP input (len - prev)) he
    · split
      · rename_i e he; exact NP_of_err (readU32_NP _ _) he
      · dsimp only
        split
        · exact NP_ok _
        · exact huffDecodeGo_NP book rest _ _ _

theorem huffDecode_NP (alphabet : List Int) (lens : List Nat) (r : BitReader) :
    NP (huffDecode alphabet lens r) := by
  unfold huffDecode
  split
  · rename_i e he; exact NP_of_err (buildCodeBook_NP _ _) he
  · exact huffDecodeGo_NP _ _ _ _ _

theorem huffTake_NP (alphabet : List Int) (lens : List Nat) :
    ∀ (k : Nat) (r : BitReader), NP (huffTake alphabet lens k r)
  | 0, r => by simp [huffTake, NP]
  | k + 1, r => by
    unfold huffTake
    split
    · rename_i e he; exact NP_of_err (huffDecode_NP alphabet lens r) he
    · split
      · rename_i e he; exact NP_of_err (huffTake_NP alphabet lens k _) he
      · exact NP_ok _

/-! ## decoders of tame encodings -/

theorem get_NP (s : RS) (id : Int) : NP (s.get id) := by
  unfold RS.get; split <;> simp [NP]

theorem liftNum_NP {α : Type} (x : Except Noodles.Cram.Num.Err α) : NP (liftNum x) := by
  unfold liftNum; split <;> simp [NP]

theorem readItf8'_NP (src : List Nat) : NP (readItf8' src) := liftNum_NP _

theorem sub32_NP (x y : Int) : NP (sub32 x y) := by
  unfold sub32; split
  · exact NP_ok _
  · exact NP_invalidData

theorem readBits_lt : ∀ (k n : Nat) (r : BitReader) (v : Nat) (r' : BitReader),
    BitReader.readBits k n r = .ok (v, r') → v < (n + 1) * 2 ^ k
  | 0, n, r, v, r', h => by
    simp only [BitReader.readBits, Except.ok.injEq, Prod.mk.injEq] at h
    omega
  | k + 1, n, r, v, r', h => by
    unfold BitReader.readBits at h
    split at h
    · simp at h
    · rename_i b r1 hb
      have hb2 : b < 2 := by
        unfold BitReader.readBit at hb
        split at hb
        · split at hb
          · simp at hb
          · simp only [Except.ok.injEq, Prod.mk.injEq] at hb
            omega
        · simp only [Except.ok.injEq, Prod.mk.injEq] at hb
          omega
      have := readBits_lt k (2 * n + b) r1 v r' h
      have e : (n + 1) * 2 ^ (k + 1) = (2 * n + 2) * 2 ^ k := by
        rw [Nat.pow_succ]
        calc (n + 1) * (2 ^ k * 2) = (n + 1) * (2 * 2 ^ k) := by rw [Nat.mul_comm (2 ^ k) 2]
          _ = ((n + 1) * 2) * 2 ^ k := by rw [Nat.mul_assoc]
          _ = (2 * n + 2) * 2 ^ k := by congr 1; omega
      rw [e]
      calc v < (2 * n + b + 1) * 2 ^ k := this
        _ ≤ (2 * n + 2) * 2 ^ k := Nat.mul_le_mul_right _ (by omega)

end Noodles.Hostile.CramRec

namespace Noodles.Hostile.CramRec
open Noodles.Cram.Enc

theorem NP_of_err' {α β : Type} {x : Res α} {e : Err} (h : x = .error e) (hx : NP x) : NP (.error e : Res β) :=
  NP_of_err hx h

attribute [simp] NP_ok NP_pure NP_eof NP_invalidData NP_invalidInput readBit_NP readBits_NP readU32_NP
  gammaZeros_NP get_NP liftNum_NP readItf8'_NP

theorem NP_bind' {α β : Type} {x : Res α} {f : α → Res β} (hx : NP x) (hf : ∀ a, NP (f a)) : NP (x >>= f) :=
  NP_bind hx (fun a _ => hf a)

/-- closes `NP (callee …)` by a hypothesis or the registered (`simp`) no-panic lemmas -/
macro "np_leaf" : tactic => `(tactic| first | assumption | (simp; done))
macro "np_leafh" : tactic => `(tactic| first | assumption | (simp; done) | (simp [*]; done))

/-- explicit `match … with | .error e => .error e | .ok … => …` chains -/
macro "np_chain" : tactic => `(tactic| repeat' (first
  | exact NP_ok _ | exact NP_eof | exact NP_invalidData | exact NP_invalidInput
  | (refine NP_of_err' (by assumption) ?_; np_leaf)
  | (with_reducible refine NP_ite (fun _ => ?_) (fun _ => ?_))
  | split))

/-- `do` blocks -/
macro "np_do" : tactic => `(tactic| repeat' (first
  | exact NP_ok _ | exact NP_pure _ | exact NP_eof | exact NP_invalidData | exact NP_invalidInput
  | np_leafh
  | (with_reducible refine NP_bind' ?_ (fun _ => ?_))
  | (with_reducible refine NP_ite (fun _ => ?_) (fun _ => ?_))
  | split
  | (dsimp only)))

open Noodles.Cram.Num (ofU toU)

theorem huffTame_of_match (alphabet : List Int) (lens : List Nat)
    (h : (match alphabet with | [_] => true | _ => huffTame alphabet lens) = true)
    (hne : ∀ a, alphabet = [a] → False) : huffTame alphabet lens = true := by
  split at h
  · rename_i a; exact absurd rfl (hne a)
  · exact h

theorem ofU32_range (u : Nat) (h : u < 2 ^ 32) : -2 ^ 31 ≤ ofU 32 u ∧ ofU 32 u < 2 ^ 31 := by
  unfold Noodles.Cram.Num.ofU
  split <;> omega

theorem readU32_ok_le (r : BitReader) (len v : Nat) (r' : BitReader) (h : r.readU32 len = .ok (v, r')) :
    len ≤ 31 ∧ v < 2 ^ len := by
  unfold BitReader.readU32 at h
  split at h
  · simp at h
  · have := readBits_lt len 0 r v r' h
    omega

attribute [simp] sub32_NP huffDecode_NP huffTake_NP

theorem intDecode_NP (e : IntEnc) (s : RS) : NP (e.decode s) := by
  cases e with
  | external id => simp only [IntEnc.decode]; np_chain
  | huffman alphabet lens => simp only [IntEnc.decode]; np_chain
  | beta offset len => simp only [IntEnc.decode]; np_chain
  | gamma offset => simp only [IntEnc.decode]; np_chain
  | golomb _ _ => simp [IntEnc.decode]
  | subexp _ _ => simp [IntEnc.decode]
  | golombRice _ _ => simp [IntEnc.decode]

theorem byteDecode_NP (e : ByteEnc) (s : RS) : NP (e.decode s) := by
  cases e with
  | external id => simp only [ByteEnc.decode]; np_chain
  | huffman alphabet lens => simp only [ByteEnc.decode]; np_chain

theorem byteDecodeTake_NP (e : ByteEnc) (s : RS) (len : Nat) : NP (e.decodeTake s len) := by
  unfold ByteEnc.decodeTake
  split
  · exact NP_ok _
  · cases e with
    | external id => dsimp only; np_chain
    | huffman alphabet lens => dsimp only; np_chain

theorem bytesDecode_NP (e : ByteArrayEnc) (s : RS) : NP (e.decode s) := by
  cases e with
  | len l v =>
    simp only [ByteArrayEnc.decode]
    have := intDecode_NP l s
    split
    · np_chain
    · split
      · exact NP_invalidData
      · exact byteDecodeTake_NP v _ _
  | stop sb id => simp only [ByteArrayEnc.decode]; np_chain

end Noodles.Hostile.CramRec

/-! ## the record decoder -/
namespace Noodles.Hostile.CramRec
open Noodles.Cram.Enc
open Noodles.Cram (Feature)

attribute [simp] intDecode_NP byteDecode_NP byteDecodeTake_NP bytesDecode_NP

@[simp] theorem need_NP {α : Type} (o : Option α) : NP (need o) := by
  unfold need; split <;> simp

@[simp] theorem toI32_NP (n : Nat) (e : Err) (h : e ≠ .panic) : NP (toI32 n e) := by
  unfold toI32; split
  · simp
  · simpa [NP] using h

@[simp] theorem toNatBelow_NP (n : Int) (b : Nat) : NP (toNatBelow n b) := by
  unfold toNatBelow; split <;> simp

@[simp] theorem optOfI32_NP (n : Int) : NP (optOfI32 n) := by
  unfold optOfI32; repeat' split
  all_goals simp

@[simp] theorem getInt_NP (e : Option IntEnc) (s : RS) : NP (getInt e s) := by
  unfold getInt
  cases e with
  | none => simp [need, NP, bind, Except.bind]
  | some e => simp [need, bind, Except.bind]

@[simp] theorem getByte_NP (e : Option ByteEnc) (s : RS) : NP (getByte e s) := by
  unfold getByte
  cases e with
  | none => simp [need, NP, bind, Except.bind]
  | some e => simp [need, bind, Except.bind]

@[simp] theorem getBytes_NP (e : Option ByteArrayEnc) (s : RS) : NP (getBytes e s) := by
  unfold getBytes
  cases e with
  | none => simp [need, NP, bind, Except.bind]
  | some e => simp [need, bind, Except.bind]

@[simp] theorem getTake_NP (e : Option ByteEnc) (s : RS) (n : Nat) :
    NP (getTake e s n) := by
  unfold getTake
  cases e with
  | none => simp [need, NP, bind, Except.bind]
  | some e => simp [need, bind, Except.bind]

theorem dseTame_all (d : DSE) (h : dseTame d = true) :
    optTame intTame d.bf = true ∧ optTame intTame d.cf = true ∧ optTame intTame d.ri = true ∧
    optTame intTame d.rl = true ∧ optTame intTame d.ap = true ∧ optTame intTame d.rg = true ∧
    optTame bytesTame d.rn = true ∧ optTame intTame d.mf = true ∧ optTame intTame d.ns = true ∧
    optTame intTame d.np = true ∧ optTame intTame d.ts = true ∧ optTame intTame d.nf = true ∧
    optTame intTame d.tl = true ∧ optTame intTame d.fn = true ∧ optTame byteTame d.fc = true ∧
    optTame intTame d.fp = true ∧ optTame intTame d.dl = true ∧ optTame bytesTame d.bb = true ∧
    optTame bytesTame d.qq = true ∧ optTame byteTame d.bs = true ∧ optTame bytesTame d.in_ = true ∧
    optTame intTame d.rs = true ∧ optTame intTame d.pd = true ∧ optTame intTame d.hc = true ∧
    optTame bytesTame d.sc = true ∧ optTame intTame d.mq = true ∧ optTame byteTame d.ba = true ∧
    optTame byteTame d.qs = true := by
  simp only [dseTame, Bool.and_eq_true, and_assoc] at h
  exact h

/-- brings the 28 per-series facts into the context -/
macro "tame_facts " h:ident : tactic => `(tactic|
  obtain ⟨hbf, hcf, hri, hrl, hap, hrg, hrn, hmf, hns, hnp, hts, hnf, htl, hfn, hfc, hfp, hdl, hbb, hqq, hbs,
    hin, hrs, hpd, hhc, hsc, hmq, hba, hqs⟩ := dseTame_all _ (And.left $h))

@[simp] theorem readName_NP (ch : CH) (s : RS) : NP (readName ch s) := by
  unfold readName
  np_do

@[simp] theorem readAlignmentStart_NP (ch : CH) (prev : Option Nat) (s : RS) :
    NP (readAlignmentStart ch prev s) := by
  unfold readAlignmentStart
  np_do

@[simp] theorem readPositions_NP (ch : CH) (ctx : RefCtx) (prev : Option Nat) (s : RS) (r : CRec) :
    NP (readPositions ch ctx prev s r) := by
  unfold readPositions
  np_do

@[simp] theorem readMate_NP (ch : CH) (s : RS) (r : CRec) : NP (readMate ch s r) := by
  unfold readMate
  np_do

@[simp] theorem readValue_NP (ty : Nat) (src : List Nat) : NP (readValue ty src) := by
  unfold readValue
  np_chain

@[simp] theorem readTagValues_NP (ch : CH) : ∀ (s : RS) (ks : List Key), NP (readTagValues ch s ks)
  | s, [] => by simp [readTagValues]
  | s, k :: ks => by
    unfold readTagValues
    split
    · exact NP_invalidData
    · rename_i e he
      have := bytesDecode_NP e s
      split
      · np_chain
      · split
        · np_chain
        · have := readTagValues_NP ch ‹RS› ks
          np_chain

@[simp] theorem readData_NP (ch : CH) (s : RS) (r : CRec) : NP (readData ch s r) := by
  unfold readData
  np_do

@[simp] theorem readFeature_NP (ch : CH) (s : RS) (prev : Nat) : NP (readFeature ch s prev) := by
  unfold readFeature
  np_do

@[simp] theorem readFeatures_NP (ch : CH) : ∀ (k prev : Nat) (s : RS), NP (readFeatures ch k prev s)
  | 0, _, _ => by simp [readFeatures]
  | k + 1, prev, s => by
    unfold readFeatures
    have := readFeature_NP ch s prev
    split
    · np_chain
    · have := readFeatures_NP ch k ‹Feature›.pos ‹RS›
      np_chain

@[simp] theorem validateGo_NP : ∀ (fs : List Feature) (rp qp : Nat), NP (validateGo rp qp fs)
  | [], _, _ => by simp [validateGo]
  | f :: fs, rp, qp => by
    unfold validateGo
    dsimp only
    split
    · split
      · exact NP_invalidData
      · exact validateGo_NP fs _ _
    · exact validateGo_NP fs _ _

@[simp] theorem validateFeatures_NP (rl : Nat) (fs : List Feature) : NP (validateFeatures rl fs) := by
  unfold validateFeatures
  np_chain

@[simp] theorem readQualityScores_NP (ch : CH) (s : RS) (n : Nat) : NP (readQualityScores ch s n) := by
  unfold readQualityScores
  np_do

@[simp] theorem readMapped_NP (ch : CH) (s : RS) (r : CRec) : NP (readMapped ch s r) := by
  unfold readMapped
  np_do

@[simp] theorem readUnmapped_NP (ch : CH) (s : RS) (r : CRec) : NP (readUnmapped ch s r) := by
  unfold readUnmapped
  np_do

@[simp] theorem readRecord_NP (ch : CH) (ctx : RefCtx) (st : RS × Option Nat) :
    NP (readRecord ch ctx st) := by
  unfold readRecord
  np_do

theorem readRecordsGo_NP (ch : CH) (ctx : RefCtx) : ∀ (k : Nat) (st : RS × Option Nat),
    NP (readRecordsGo ch ctx k st)
  | 0, _ => by simp [readRecordsGo]
  | k + 1, st => by
    unfold readRecordsGo
    have := readRecord_NP ch ctx st
    split
    · np_chain
    · have := readRecordsGo_NP ch ctx k ‹RS × Option Nat›
      np_chain

end Noodles.Hostile.CramRec

/-! ## the compression header parser (no hypothesis: it has no panicking construct) -/
namespace Noodles.Hostile.CramRec
open Noodles.Cram.Enc

@[simp] theorem readItf8Nat_NP (src : List Nat) : NP (readItf8Nat src) := by
  unfold readItf8Nat; np_chain

@[simp] theorem readArray_NP (src : List Nat) : NP (readArray src) := by
  unfold readArray; np_chain

theorem readN_NP {α : Type} (f : List Nat → Res (α × List Nat)) (hf : ∀ src, NP (f src)) :
    ∀ (n : Nat) (src : List Nat), NP (readN f n src)
  | 0, _ => by simp [readN]
  | n + 1, src => by
    unfold readN
    have := hf src
    split
    · np_chain
    · have := readN_NP f hf n ‹List Nat›
      np_chain

@[simp] theorem readHuffmanArgs_NP (args : List Nat) : NP (readHuffmanArgs args) := by
  unfold readHuffmanArgs
  have h1 := fun n src => readN_NP readItf8' readItf8'_NP n src
  have h2 := fun n src => readN_NP readItf8Nat readItf8Nat_NP n src
  repeat' (first
    | exact NP_ok _
    | (refine NP_of_err' (by assumption) ?_; first | exact h1 _ _ | exact h2 _ _ | np_leaf)
    | split)

@[simp] theorem readTwo_NP (args : List Nat) : NP (readTwo args) := by
  unfold readTwo; np_chain

@[simp] theorem intRead_NP (src : List Nat) : NP (IntEnc.read src) := by
  unfold IntEnc.read; np_chain

@[simp] theorem byteRead_NP (src : List Nat) : NP (ByteEnc.read src) := by
  unfold ByteEnc.read; np_chain

@[simp] theorem bytesRead_NP (src : List Nat) : NP (ByteArrayEnc.read src) := by
  unfold ByteArrayEnc.read; np_chain

@[simp] theorem consumeAnyEncoding_NP (src : List Nat) : NP (consumeAnyEncoding src) := by
  unfold consumeAnyEncoding; np_chain

@[simp] theorem readMap_NP (src : List Nat) : NP (readMap src) := by
  unfold readMap; np_chain

@[simp] theorem readBool_NP (src : List Nat) : NP (readBool src) := by
  unfold readBool; np_chain

@[simp] theorem readSMatrix_NP (src : List Nat) : NP (readSMatrix src) := by
  unfold readSMatrix; np_chain

@[simp] theorem readKeys_NP : ∀ (src : List Nat), NP (readKeys src)
  | [] => by simp [readKeys]
  | [_] => by simp [readKeys]
  | [_, _] => by simp [readKeys]
  | t0 :: t1 :: ty :: rest => by
    unfold readKeys
    have := readKeys_NP rest
    np_chain

@[simp] theorem readTagSetsGo_NP : ∀ (f : Nat) (src : List Nat), NP (readTagSetsGo f src)
  | 0, _ => by simp [readTagSetsGo]
  | f + 1, src => by
    unfold readTagSetsGo
    split
    · exact NP_ok _
    · have := readTagSetsGo_NP f ‹List Nat›
      np_chain

@[simp] theorem readTagSets_NP (src : List Nat) : NP (readTagSets src) := by
  unfold readTagSets; np_chain

@[simp] theorem readPMapGo_NP : ∀ (n : Nat) (acc : PMapAcc) (src : List Nat), NP (readPMapGo n acc src)
  | 0, _, _ => by simp [readPMapGo]
  | n + 1, acc, src => by
    unfold readPMapGo
    have ih := readPMapGo_NP n
    repeat' (first
      | exact NP_ok _ | exact NP_eof | exact NP_invalidData
      | exact ih _ _
      | (refine NP_of_err' (by assumption) ?_; np_leaf)
      | split)

@[simp] theorem readPMap_NP (src : List Nat) : NP (readPMap src) := by
  unfold readPMap; np_chain

@[simp] theorem readSeries_NP (d : DSE) (src : List Nat) : NP (readSeries d src) := by
  unfold readSeries
  split
  · dsimp only
    np_chain
  · exact NP_eof

@[simp] theorem readDSEGo_NP : ∀ (n : Nat) (d : DSE) (src : List Nat), NP (readDSEGo n d src)
  | 0, _, _ => by simp [readDSEGo]
  | n + 1, d, src => by
    unfold readDSEGo
    split
    · np_chain
    · exact readDSEGo_NP n _ _

@[simp] theorem readDSE_NP (src : List Nat) : NP (readDSE src) := by
  unfold readDSE; np_chain

@[simp] theorem readTagEncGo_NP : ∀ (n : Nat) (src : List Nat), NP (readTagEncGo n src)
  | 0, _ => by simp [readTagEncGo]
  | n + 1, src => by
    unfold readTagEncGo
    split
    · np_chain
    · split
      · np_chain
      · have := readTagEncGo_NP n ‹List Nat›
        np_chain

@[simp] theorem readTagEnc_NP (src : List Nat) : NP (readTagEnc src) := by
  unfold readTagEnc; np_chain

theorem readCHdr_NP (src : List Nat) : NP (readCHdr src) := by
  unfold readCHdr; np_chain

/-! ## a tame parsed header gives a tame codec header -/

theorem hdrTame_toCH (h : CHdr) (ht : hdrTame h = true) : CHTame h.toCH := by
  simp only [hdrTame, Bool.and_eq_true, List.all_eq_true] at ht
  refine ⟨ht.1, ?_⟩
  intro id e he
  have he' : lookupTag h.te id = some e := he
  have he2 := he'
  simp only [lookupTag, Option.map_eq_some_iff] at he2
  obtain ⟨p, hp, rfl⟩ := he2
  have hm : p ∈ h.te := by simpa using List.mem_of_find?_eq_some hp
  have hid : p.1 = id := by simpa using List.find?_some hp
  have := ht.2 p hm
  rw [hid, he'] at this
  exact this

/-- a header all of whose encodings are tame is tame -/
theorem hdrTame_of_all (h : CHdr) (h1 : dseTame h.dse = true) (h2 : ∀ p ∈ h.te, bytesTame p.2 = true) :
    hdrTame h = true := by
  simp only [hdrTame, h1, List.all_eq_true, Bool.true_and]
  intro p _
  split
  · rename_i e he
    simp only [lookupTag, Option.map_eq_some_iff] at he
    obtain ⟨q, hq, rfl⟩ := he
    exact h2 q (by simpa using List.mem_of_find?_eq_some hq)
  · rfl

theorem readRecords_NP (ch : CH) (ctx : RefCtx) (count : Nat) (core : List Nat)
    (ext : Int → Option (List Nat)) : NP (readRecords ch ctx count core ext) :=
  readRecordsGo_NP ch ctx count _

theorem decodeSlice_NP (chs : List Nat) (ctx : RefCtx) (count : Nat) (core : List Nat)
    (ext : Int → Option (List Nat)) :
    NP (decodeSlice chs ctx count core ext) := by
  unfold decodeSlice
  have := readCHdr_NP chs
  split
  · np_chain
  · exact readRecords_NP _ _ _ _ _

end Noodles.Hostile.CramRec
