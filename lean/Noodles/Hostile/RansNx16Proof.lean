import Noodles.Hostile.RansNx16
import Noodles.Hostile.Rans4x8Proof
/-!
# The rANS Nx16 decoder never panics

Invariants: a normalised frequency row has 256 entries with total ≤ `2^bits` (`bits ≤ 15`); the
cumulative row has 256 entries starting at 0; `cumulative_frequencies_symbol` returns a symbol
`sym ≤ 255` with `C[sym] ≤ f`; states are below `2^32`. Then `f * (s >> bits) + (s & mask) ≤
2^bits * (s / 2^bits) + s % 2^bits = s < 2^32` and `C[sym] ≤ s & mask`: `state_step` neither
overflows nor underflows. Stripes: chunk `i` of `n` holds `len / n + [i < len % n]` bytes, so
`j * n + i < len` for each of its positions `j`; the nesting is bounded by `MAX_STRIPE_DEPTH`.
-/
namespace Noodles.Hostile.Nx16
open Noodles.Hostile Noodles.Hostile.Rd Noodles.Hostile.Codec
open Noodles.Hostile.R4x8 (Tab safeP_liftOk usub_eq umul_eq le_sum_of_mem sum_take_le
  sum_replicate_zero mapRows_spec)

/-! ## alphabet and frequencies -/

theorem safeP_readAlphabet : SafeP readAlphabet fun A => A.length = 256 :=
  (R4x8.safeP_readRuns (P := fun _ => True) (safeP_pure' trivial) (zero := false) trivial).mono
    fun _ h => h.1

theorem safeP_readFreqsA : ∀ A : List Bool, SafeP (readFreqsA A) fun F => F.length = A.length
  | [] => by unfold readFreqsA; exact safeP_pure' rfl
  | a :: rest => by
    unfold readFreqsA
    refine safeP_bind (P := fun _ => True) ?_ fun f _ => ?_
    · exact safeP_ite (fun _ => safeP_readUint7.mono fun _ _ => trivial) fun _ => safeP_pure' trivial
    · refine safeP_bind (safeP_readFreqsA rest) fun tl h => ?_
      exact safeP_pure (by simp [h])

theorem checkedSum_some : ∀ (F : List Nat) (acc sum : Nat), checkedSum F acc = some sum →
    sum = acc + F.sum
  | [], acc, sum, h => by simp only [checkedSum, Option.some.injEq] at h; simp [h]
  | f :: rest, acc, sum, h => by
    unfold checkedSum at h
    split at h
    · have := checkedSum_some rest _ _ h
      simp only [List.sum_cons]; omega
    · cases h

theorem shl32_eq {a k : Nat} (hk : k < 32) : shl32 a k = .ok ((a <<< k) % 2^32) := by
  unfold shl32 P32; rw [if_pos hk]

theorem one_shl_lt {bits : Nat} (hb : bits < 32) : 2 ^ bits < 2 ^ 32 :=
  Nat.pow_lt_pow_right (by decide) hb

theorem shl32_one {bits : Nat} (hb : bits < 32) : shl32 1 bits = .ok (2 ^ bits) := by
  rw [shl32_eq hb, Nat.one_shiftLeft, Nat.mod_eq_of_lt (one_shl_lt hb)]

theorem shiftLoop_spec (total : Nat) (ht : total ≤ 2^31) :
    ∀ (fuel sum shift : Nat), 0 < fuel → total ≤ sum * 2 ^ (fuel - 1) → shift + fuel ≤ 32 →
      ∃ s' d, shiftLoop total fuel sum shift = .ok (s', shift + d) ∧ s' = sum * 2 ^ d ∧
        shift + d < 32
  | 0, _, _, h, _, _ => by omega
  | fuel + 1, sum, shift, _, hle, hsh => by
    unfold shiftLoop
    split
    · rename_i hlt
      have hf : 0 < fuel := by
        cases fuel with
        | zero => simp at hle; omega
        | succ k => omega
      have hm : mul32 sum 2 = .ok (sum * 2) := by unfold mul32; rw [if_pos (by omega)]
      have ha : add32 shift 1 = .ok (shift + 1) := by unfold add32; rw [if_pos (by omega)]
      rw [hm, ha]
      simp only [Res.bind_ok]
      have hle' : total ≤ sum * 2 * 2 ^ (fuel - 1) := by
        have : fuel + 1 - 1 = (fuel - 1) + 1 := by omega
        rw [this, Nat.pow_succ] at hle
        rw [Nat.mul_assoc, Nat.mul_comm 2]; exact hle
      obtain ⟨s', d, h1, h2, h3⟩ := shiftLoop_spec total ht fuel (sum * 2) (shift + 1) hf hle'
        (by omega)
      refine ⟨s', d + 1, ?_, ?_, by omega⟩
      · rw [h1]; congr 2; omega
      · rw [h2, Nat.pow_succ]; rw [Nat.mul_assoc, Nat.mul_comm 2]
    · exact ⟨sum, 0, rfl, by simp, by omega⟩

theorem shiftAll_spec (shift : Nat) (hs : shift < 32) : ∀ F : List Nat,
    ∃ F', shiftAll shift F = .ok F' ∧ F'.length = F.length ∧ F'.sum ≤ F.sum * 2 ^ shift
  | [] => ⟨[], rfl, rfl, by simp⟩
  | f :: rest => by
    obtain ⟨tl, h1, h2, h3⟩ := shiftAll_spec shift hs rest
    refine ⟨(f <<< shift) % 2^32 :: tl, ?_, by simp [h2], ?_⟩
    · unfold shiftAll; rw [shl32_eq hs]; simp only [Res.bind_ok, h1, Res.pure_eq]
    · simp only [List.sum_cons, Nat.add_mul]
      have : (f <<< shift) % 2^32 ≤ f * 2 ^ shift := by
        rw [Nat.shiftLeft_eq]; exact Nat.mod_le _ _
      omega

/-- a normalised row: 256 entries, total at most `2^bits` -/
def Row (bits : Nat) (F : List Nat) : Prop := F.length = 256 ∧ F.sum ≤ 2 ^ bits

theorem row_zero (bits : Nat) : Row bits (List.replicate 256 0) :=
  ⟨List.length_replicate, by rw [sum_replicate_zero]; exact Nat.zero_le _⟩

theorem normalize_spec (F : List Nat) {bits : Nat} (hb : bits < 32) :
    ∃ r, normalize F bits = .ok r ∧ ∀ F', r = some F' → F'.length = F.length ∧ F'.sum ≤ 2 ^ bits := by
  unfold normalize
  rw [shl32_one hb]
  simp only [Res.bind_ok]
  cases hcs : checkedSum F 0 with
  | none => exact ⟨none, rfl, fun _ h => by cases h⟩
  | some sum =>
    have hsum : sum = F.sum := by have := checkedSum_some F 0 sum hcs; omega
    dsimp only
    split
    · exact ⟨none, rfl, fun _ h => by cases h⟩
    · rename_i hle
      split
      · refine ⟨some F, rfl, fun F' h => ?_⟩
        cases h; exact ⟨rfl, by omega⟩
      · rename_i hne
        have ht : 2 ^ bits ≤ 2 ^ 31 := Nat.pow_le_pow_right (by decide) (by omega)
        have hpos : 0 < sum := by omega
        obtain ⟨s', d, h1, h2, h3⟩ := shiftLoop_spec (2 ^ bits) ht 32 sum 0 (by decide)
          (by
            have : 2 ^ 31 ≤ sum * 2 ^ 31 := Nat.le_mul_of_pos_left _ hpos
            exact Nat.le_trans ht this) (by decide)
        rw [h1]
        simp only [Res.bind_ok, Nat.zero_add]
        split
        · exact ⟨none, rfl, fun _ h => by cases h⟩
        · rename_i heq
          have heq : s' = 2 ^ bits := by
            rcases Nat.lt_or_ge s' (2 ^ bits) with h | h
            · exact absurd (by omega : s' = 2 ^ bits) (by intro e; omega) |> False.elim
            · exact Classical.byContradiction fun hc => heq hc
          obtain ⟨F', g1, g2, g3⟩ := shiftAll_spec d (by omega) F
          rw [g1]
          refine ⟨some F', rfl, fun F'' h => ?_⟩
          cases h
          refine ⟨g2, ?_⟩
          rw [← hsum, ← h2, heq] at g3
          exact g3

theorem safeP_normalizeRd {F : List Nat} (hF : F.length = 256) {bits : Nat} (hb : bits < 32) :
    SafeP (normalizeRd F bits) (Row bits) := by
  unfold normalizeRd
  obtain ⟨r, hr, hpost⟩ := normalize_spec F hb
  rw [hr]
  refine safeP_bind (safeP_liftOk r) fun r' e => ?_
  subst e
  cases r' with
  | none => exact safeP_fail _
  | some F' =>
    have := hpost F' rfl
    exact safeP_pure ⟨by rw [this.1, hF], this.2⟩

theorem safeP_readFrequencies0 : SafeP readFrequencies0 (Row 12) := by
  unfold readFrequencies0
  refine safeP_bind safeP_readAlphabet fun A hA => ?_
  refine safeP_bind (safeP_readFreqsA A) fun F hF => ?_
  exact safeP_normalizeRd (by rw [hF, hA]) (by decide)

/-! ## cumulative frequencies -/

theorem cumFrom_add32 : ∀ (l : List Nat) (f : Nat), f + l.sum < 2^32 →
    ∃ C, R4x8.cumFrom add32 f l = .ok C ∧ C.length = l.length
  | [], f, _ => ⟨[], rfl, rfl⟩
  | g :: rest, f, h => by
    simp only [List.sum_cons] at h
    obtain ⟨C, hC, hl⟩ := cumFrom_add32 rest (f + g) (by omega)
    refine ⟨(f + g) :: C, ?_, by simp [hl]⟩
    have ha : add32 f g = .ok (f + g) := by unfold add32; rw [if_pos (by omega)]
    unfold R4x8.cumFrom
    rw [ha]
    dsimp only
    rw [hC]

/-- what the decoder needs of a cumulative row: 256 entries, the first is 0 -/
def CumA (C : Array Nat) : Prop := C.size = 256 ∧ C[0]? = some 0

theorem buildCum_spec {F : List Nat} {bits : Nat} (hb : bits < 32) (h : Row bits F) :
    ∃ C, buildCum F = .ok C ∧ CumA C := by
  have := sum_take_le F 255
  have := one_shl_lt hb
  obtain ⟨C, hC, hl⟩ := cumFrom_add32 (F.take 255) 0 (by have := h.2; omega)
  refine ⟨(0 :: C).toArray, ?_, ?_, ?_⟩
  · unfold buildCum R4x8.buildCum; rw [hC]; rfl
  · simp only [List.size_toArray, List.length_cons, hl, List.length_take, h.1]; rfl
  · simp

/-! ## the state machine -/

theorem mask_eq {bits : Nat} (hb : bits < 32) : mask bits = .ok (2 ^ bits - 1) := by
  unfold mask
  rw [shl32_one hb]
  simp only [Res.bind_ok]
  exact usub_eq (Nat.one_le_two_pow)

theorem stateCumFreq_eq (s : Nat) {bits : Nat} (hb : bits < 32) :
    stateCumFreq s bits = .ok (s % 2 ^ bits) := by
  unfold stateCumFreq
  rw [mask_eq hb]
  simp only [Res.bind_ok, Res.pure_eq, Nat.and_two_pow_sub_one_eq_mod]

theorem stateStep_spec {s f g bits : Nat} (hs : s < 2^32) (hb : bits < 32) (hf : f ≤ 2 ^ bits)
    (hg : g ≤ s % 2 ^ bits) : ∃ v, stateStep s f g bits = .ok v ∧ v < 2^32 := by
  have h1 : f * (s / 2 ^ bits) ≤ 2 ^ bits * (s / 2 ^ bits) := Nat.mul_le_mul_right _ hf
  have h2 := Nat.div_add_mod s (2 ^ bits)
  refine ⟨f * (s / 2 ^ bits) + s % 2 ^ bits - g, ?_, by omega⟩
  unfold stateStep
  rw [if_pos hb]
  simp only [Res.bind_ok, Nat.shiftRight_eq_div_pow]
  unfold mul32
  rw [if_pos (by omega)]
  simp only [Res.bind_ok]
  rw [mask_eq hb]
  simp only [Res.bind_ok, Nat.and_two_pow_sub_one_eq_mod]
  unfold add32
  rw [if_pos (by omega)]
  simp only [Res.bind_ok]
  exact usub_eq (by omega)

theorem safeP_renormalize {s : Nat} (hs : s < 2^32) : SafeP (renormalize s) fun v => v < 2^32 := by
  unfold renormalize
  refine safeP_ite (fun hlt => ?_) fun _ => safeP_pure hs
  refine safeP_bind (show SafeP readU16le fun n => n < 2^16 from safeP_readU16) fun lo hlo => ?_
  rw [shl32_eq (by decide)]
  refine safeP_bind (safeP_liftOk _) fun hi e => ?_
  subst e
  have hhi : (s <<< 16) % 2^32 ≤ 32767 * 65536 := by
    rw [Nat.shiftLeft_eq]
    have : s * 2 ^ 16 ≤ 32767 * 65536 := Nat.mul_le_mul (by omega) (by decide)
    exact Nat.le_trans (Nat.mod_le _ _) this
  have ha : add32 ((s <<< 16) % 2^32) lo = .ok ((s <<< 16) % 2^32 + lo) := by
    unfold add32; rw [if_pos (by omega)]
  rw [ha]
  exact safeP_lift (by simp) fun a e => by cases e; omega

/-- the tables of one context -/
structure Ctx (bits : Nat) (F : List Nat) (C : Array Nat) : Prop where
  hb : bits < 32
  row : Row bits F
  cum : CumA C

theorem Row.entry_le {bits : Nat} {F : List Nat} (h : Row bits F) {f : Nat} (hf : f ∈ F) :
    f ≤ 2 ^ bits := Nat.le_trans (le_sum_of_mem hf) h.2

theorem safeP_decodeSym {bits : Nat} {F : List Nat} {C : Array Nat} (h : Ctx bits F C) {s : Nat}
    (hs : s < 2^32) :
    SafeP (decodeSym F C bits s) fun p => p.1 < 256 ∧ p.2 < 2^32 := by
  unfold decodeSym
  rw [stateCumFreq_eq s h.hb]
  refine safeP_bind (safeP_liftOk _) fun f e => ?_
  subst e
  obtain ⟨sym, hsym, hle, c, hc, hcf⟩ := R4x8.advance_spec C h.cum.1 (s % 2 ^ bits) 256 0
    (by omega) (by omega) ⟨0, h.cum.2, Nat.zero_le _⟩
  unfold cumSymbol
  rw [hsym]
  refine safeP_bind (safeP_liftOk _) fun sym' e => ?_
  subst e
  refine safeP_bind (P := fun f => f ≤ 2 ^ bits)
    (safeP_lift (idxN_ne_panic (by rw [h.row.1]; omega)) fun f e =>
      h.row.entry_le (idxN_mem e)) fun f hf => ?_
  refine safeP_bind (P := fun g => g ≤ s % 2 ^ bits)
    (safeP_lift (idxA_ne_panic (by rw [h.cum.1]; omega)) fun g e => by
      have := idxA_ok e; rw [hc] at this; cases this; exact hcf) fun g hg => ?_
  obtain ⟨v, hv, hv32⟩ := stateStep_spec hs h.hb hf hg
  rw [hv]
  refine safeP_bind (safeP_liftOk _) fun s' e => ?_
  subst e
  refine safeP_bind (safeP_renormalize hv32) fun s'' hs'' => ?_
  exact safeP_pure ⟨by omega, hs''⟩

/-! ## order 0 -/

/-- loop state of the order-0 symbol loop: `N` states below `2^32` -/
def St0 (N : Nat) (st : List Nat × List Nat) : Prop := st.1.length = N ∧ ∀ s ∈ st.1, s < 2^32

theorem umod_eq {a b : Nat} (h : b ≠ 0) : umod a b = .ok (a % b) := by unfold umod; rw [if_neg h]
theorem udiv_eq {a b : Nat} (h : b ≠ 0) : udiv a b = .ok (a / b) := by unfold udiv; rw [if_neg h]

theorem safeP_step0 {F : List Nat} {C : Array Nat} (h : Ctx 12 F C) {N : Nat} (hN : N ≠ 0) (i : Nat)
    (st : List Nat × List Nat) (hst : St0 N st) : SafeP (step0 F C N i st) (St0 N) := by
  unfold step0
  rw [umod_eq hN]
  refine safeP_bind (safeP_liftOk _) fun j e => ?_
  subst e
  have hj : i % N < st.1.length := by rw [hst.1]; exact Nat.mod_lt _ (by omega)
  refine safeP_bind (P := fun s => s < 2^32)
    (safeP_lift (idxN_ne_panic hj) fun s e => hst.2 s (idxN_mem e)) fun s hs => ?_
  refine safeP_bind (safeP_decodeSym h hs) fun p hp => ?_
  obtain ⟨sym, s'⟩ := p
  dsimp only
  refine safeP_bind (P := fun l => l.length = N ∧ ∀ s ∈ l, s < 2^32)
    (safeP_lift (setN_ne_panic hj) fun l e => by
      rw [(setN_ok e).1]; exact ⟨by rw [List.length_set]; exact hst.1, mem_set_of hst.2 hp.2⟩)
    fun l hl => ?_
  exact safeP_pure hl

theorem safeP_readStates (N : Nat) :
    SafeP (readStates N) fun l => l.length = N ∧ ∀ s ∈ l, s < 2^32 := safeP_many safeP_readU32 N

/-- one step appends exactly one symbol -/
theorem safeP_step0_len {F : List Nat} {C : Array Nat} (h : Ctx 12 F C) {N : Nat} (hN : N ≠ 0)
    (i : Nat) (st : List Nat × List Nat) (hst : St0 N st) :
    SafeP (step0 F C N i st) fun st' => St0 N st' ∧ st'.2.length = st.2.length + 1 := by
  unfold step0
  rw [umod_eq hN]
  refine safeP_bind (safeP_liftOk _) fun j e => ?_
  subst e
  have hj : i % N < st.1.length := by rw [hst.1]; exact Nat.mod_lt _ (by omega)
  refine safeP_bind (P := fun s => s < 2^32)
    (safeP_lift (idxN_ne_panic hj) fun s e => hst.2 s (idxN_mem e)) fun s hs => ?_
  refine safeP_bind (safeP_decodeSym h hs) fun p hp => ?_
  obtain ⟨sym, s'⟩ := p
  dsimp only
  refine safeP_bind (P := fun l => l.length = N ∧ ∀ s ∈ l, s < 2^32)
    (safeP_lift (setN_ne_panic hj) fun l e => by
      rw [(setN_ok e).1]; exact ⟨by rw [List.length_set]; exact hst.1, mem_set_of hst.2 hp.2⟩)
    fun l hl => ?_
  exact safeP_pure ⟨hl, by simp⟩

theorem safeP_decode0 {N : Nat} (hN : N ≠ 0) (n : Nat) :
    SafeP (decode0 N n) fun out => out.length = n := by
  unfold decode0
  refine safeP_bind safeP_readFrequencies0 fun F hF => ?_
  obtain ⟨C, hC, hcum⟩ := buildCum_spec (by decide) hF
  rw [hC]
  refine safeP_bind (safeP_liftOk C) fun C' e => ?_
  subst e
  refine safeP_bind (safeP_readStates N) fun states hst => ?_
  refine safeP_bind (safeP_forN (I := fun i st => St0 N st ∧ st.2.length = i)
    (fun i st h => (safeP_step0_len ⟨by decide, hF, hcum⟩ hN i st h.1).mono fun st' h' =>
      ⟨h'.1, by rw [h'.2, h.2]⟩) n 0 (states, []) ⟨hst, rfl⟩) fun p hp => ?_
  obtain ⟨_, out⟩ := p
  exact safeP_pure (by simpa using hp.2)

/-! ## order 1 -/

theorem safeP_readRow : ∀ (A : List Bool) (skip : Nat),
    SafeP (readRow A skip) fun F => F.length = A.length
  | [], _ => by unfold readRow; exact safeP_pure' rfl
  | false :: rest, skip => by
    unfold readRow
    refine safeP_bind (safeP_readRow rest skip) fun tl h => ?_
    exact safeP_pure (by simp [h])
  | true :: rest, skip + 1 => by
    unfold readRow
    refine safeP_bind (safeP_readRow rest skip) fun tl h => ?_
    exact safeP_pure (by simp [h])
  | true :: rest, 0 => by
    unfold readRow
    refine safeP_bind safeP_readUint7 fun f _ => ?_
    refine safeP_bind (P := fun _ => True)
      (safeP_ite (fun _ => safeP_readU8.mono fun _ _ => trivial) fun _ => safeP_pure' trivial)
      fun skip _ => ?_
    refine safeP_bind (safeP_readRow rest skip) fun tl h => ?_
    exact safeP_pure (by simp [h])

theorem safeP_readRows {A : List Bool} (hA : A.length = 256) {bits : Nat} (hb : bits < 32) :
    ∀ rest : List Bool, SafeP (readRows A bits rest) fun Fs =>
      Fs.length = rest.length ∧ ∀ F ∈ Fs, Row bits F
  | [] => by unfold readRows; exact safeP_pure' ⟨rfl, fun _ h => by cases h⟩
  | false :: rest => by
    unfold readRows
    refine safeP_bind (safeP_readRows hA hb rest) fun tl h => ?_
    refine safeP_pure ⟨by rw [List.length_cons, List.length_cons, h.1], fun F hF => ?_⟩
    rcases List.mem_cons.mp hF with rfl | hF
    · exact row_zero bits
    · exact h.2 F hF
  | true :: rest => by
    unfold readRows
    refine safeP_bind (safeP_readRow A 0) fun r hr => ?_
    refine safeP_bind (safeP_normalizeRd (by rw [hr, hA]) hb) fun r' hr' => ?_
    refine safeP_bind (safeP_readRows hA hb rest) fun tl h => ?_
    refine safeP_pure ⟨by simp [h.1], fun F hF => ?_⟩
    rcases List.mem_cons.mp hF with rfl | hF
    · exact hr'
    · exact h.2 F hF

/-- a table of 256 normalised rows -/
def Rows (bits : Nat) (Fs : List (List Nat)) : Prop := Fs.length = 256 ∧ ∀ F ∈ Fs, Row bits F

theorem safeP_readFrequenciesInner {bits : Nat} (hb : bits < 32) :
    SafeP (readFrequenciesInner bits) (Rows bits) := by
  unfold readFrequenciesInner
  refine safeP_bind safeP_readAlphabet fun A hA => ?_
  exact (safeP_readRows hA hb A).mono fun Fs h => ⟨by rw [h.1, hA], h.2⟩

theorem shr4_lt {n : Nat} (h : n < 256) : n >>> 4 < 32 := by
  rw [Nat.shiftRight_eq_div_pow]; omega

theorem safeP_readFrequencies1 (alloc : Nat → Bool) :
    SafeP (readFrequencies1 alloc) fun p => p.1 < 32 ∧ Rows p.1 p.2 := by
  unfold readFrequencies1
  refine safeP_bind safeP_readU8 fun n hn => ?_
  have hb := shr4_lt hn
  dsimp only
  refine safeP_ite (fun _ => ?_) fun _ => ?_
  · refine safeP_bind safeP_readUint7 fun usize _ => ?_
    refine safeP_bind safeP_readUint7 fun csize _ => ?_
    refine safeP_bind (safeP_splitOff csize) fun comp _ => ?_
    refine safeP_bind (P := fun _ => True)
      (safeP_lift (allocZeroed_ne_panic alloc usize) fun _ _ => trivial) fun _ _ => ?_
    refine safeP_bind (P := fun _ => True)
      (safeP_lift (onBuf_ne_panic (safeP_decode0 (by decide) usize) comp) fun _ _ => trivial)
      fun dst _ => ?_
    refine safeP_bind (P := Rows (n >>> 4))
      (safeP_lift (onBuf_ne_panic (safeP_readFrequenciesInner hb) _) fun Fs e =>
        onBuf_post (safeP_readFrequenciesInner hb) e) fun Fs hFs => ?_
    exact safeP_pure ⟨hb, hFs⟩
  · refine safeP_bind (safeP_readFrequenciesInner hb) fun Fs hFs => ?_
    exact safeP_pure ⟨hb, hFs⟩

/-- the tables of all contexts -/
structure Ctx1 (bits : Nat) (Fs : List (List Nat)) (Cs : List (Array Nat)) : Prop where
  lenF : Fs.length = 256
  lenC : Cs.length = 256
  row : ∀ (i : Nat) F C, Fs[i]? = some F → Cs[i]? = some C → Ctx bits F C

theorem safeP_decodeSym1 {bits : Nat} {Fs : List (List Nat)} {Cs : List (Array Nat)}
    (h : Ctx1 bits Fs Cs)
    {prev s : Nat} (hp : prev < 256) (hs : s < 2^32) :
    SafeP (decodeSym1 Fs Cs bits prev s) fun p => p.1 < 256 ∧ p.2 < 2^32 := by
  unfold decodeSym1
  refine safeP_bind (P := fun F => Fs[prev]? = some F)
    (safeP_lift (idxN_ne_panic (by rw [h.lenF]; exact hp)) fun F e => idxN_ok e) fun F hF => ?_
  refine safeP_bind (P := fun C => Cs[prev]? = some C)
    (safeP_lift (idxN_ne_panic (by rw [h.lenC]; exact hp)) fun C e => idxN_ok e) fun C hC => ?_
  exact safeP_decodeSym (h.row prev F C hF hC) hs

theorem setA_ne_panic {α : Type} {a : Array α} {i : Nat} {v : α} (h : i < a.size) :
    setA a i v ≠ .panic := by unfold setA; simp [h]

theorem setA_ok {α : Type} {a a' : Array α} {i : Nat} {v : α} (h : setA a i v = .ok a') :
    a'.size = a.size := by
  unfold setA at h
  split at h
  · cases h; simp
  · cases h

/-- loop state of the order-1 rounds: `N` states, `N` previous symbols, a destination of `n` -/
def St1 (N n : Nat) (st : List Nat × List Nat × Array Nat) : Prop :=
  (st.1.length = N ∧ ∀ s ∈ st.1, s < 2^32) ∧ (st.2.1.length = N ∧ ∀ p ∈ st.2.1, p < 256) ∧
    st.2.2.size = n

theorem lane_index {N n q i j : Nat} (hq : q = n / N) (hi : i < q) (hj : j < N) :
    j * q + i < n := by
  have h1 : (j + 1) * q ≤ N * q := Nat.mul_le_mul_right _ (by omega)
  have h2 : N * q ≤ n := by rw [hq]; exact Nat.mul_div_le n N
  rw [Nat.succ_mul] at h1
  omega

theorem safeP_lane1 {bits : Nat} {Fs : List (List Nat)} {Cs : List (Array Nat)}
    (h : Ctx1 bits Fs Cs) {N n q i : Nat}
    (hn : n < 2^64) (hq : q = n / N) (hi : i < q) (j : Nat) (hj : j < N)
    (st : List Nat × List Nat × Array Nat) (hst : St1 N n st) :
    SafeP (lane1 Fs Cs bits q i j st) (St1 N n) := by
  unfold lane1
  obtain ⟨⟨hl1, hs1⟩, ⟨hl2, hs2⟩, hl3⟩ := hst
  refine safeP_bind (P := fun s => s < 2^32)
    (safeP_lift (idxN_ne_panic (by omega)) fun s e => hs1 s (idxN_mem e)) fun s hs => ?_
  refine safeP_bind (P := fun p => p < 256)
    (safeP_lift (idxN_ne_panic (by omega)) fun p e => hs2 p (idxN_mem e)) fun p hp => ?_
  refine safeP_bind (safeP_decodeSym1 h hp hs) fun r hr => ?_
  obtain ⟨sym, s'⟩ := r
  dsimp only
  have hidx := lane_index hq hi hj
  rw [umul_eq (by omega)]
  refine safeP_bind (safeP_liftOk _) fun a e => ?_
  subst e
  have hadd : uadd (j * q) i = .ok (j * q + i) := by unfold uadd USIZE; rw [if_pos (by omega)]
  rw [hadd]
  refine safeP_bind (safeP_liftOk _) fun a e => ?_
  subst e
  refine safeP_bind (P := fun d => d.size = n)
    (safeP_lift (setA_ne_panic (by omega)) fun d e => by rw [setA_ok e]; exact hl3) fun d hd => ?_
  refine safeP_bind (P := fun l => l.length = N ∧ ∀ s ∈ l, s < 2^32)
    (safeP_lift (setN_ne_panic (by omega)) fun l e => by
      rw [(setN_ok e).1]; exact ⟨by rw [List.length_set]; exact hl1, mem_set_of hs1 hr.2⟩)
    fun l hl => ?_
  refine safeP_bind (P := fun l => l.length = N ∧ ∀ s ∈ l, s < 256)
    (safeP_lift (setN_ne_panic (by omega)) fun l e => by
      rw [(setN_ok e).1]; exact ⟨by rw [List.length_set]; exact hl2, mem_set_of hs2 hr.1⟩)
    fun l' hl' => ?_
  exact safeP_pure ⟨hl, hl', hd⟩

theorem safeP_tail1 {bits : Nat} {Fs : List (List Nat)} {Cs : List (Array Nat)}
    (h : Ctx1 bits Fs Cs) {n base last : Nat}
    (hlast : base + last ≤ n) (i : Nat) (hi : i < last) (st : Nat × Nat × Array Nat)
    (hst : st.1 < 2^32 ∧ st.2.1 < 256 ∧ st.2.2.size = n) :
    SafeP (tail1 Fs Cs bits base i st) fun st' => st'.1 < 2^32 ∧ st'.2.1 < 256 ∧ st'.2.2.size = n := by
  unfold tail1
  refine safeP_bind (safeP_decodeSym1 h hst.2.1 hst.1) fun r hr => ?_
  obtain ⟨sym, s'⟩ := r
  dsimp only
  refine safeP_bind (P := fun d => d.size = n)
    (safeP_lift (setA_ne_panic (by omega)) fun d e => by rw [setA_ok e]; exact hst.2.2)
    fun d hd => ?_
  exact safeP_pure ⟨hr.2, hr.1, hd⟩

theorem mem_replicate_lt {N p : Nat} (h : p ∈ List.replicate N 0) : p < 256 := by
  rw [(List.mem_replicate.mp h).2]; decide

theorem safeP_decode1 (alloc : Nat → Bool) {N : Nat} (hN : N ≠ 0) {n : Nat} (hn : n < 2^64) :
    SafeP (decode1 alloc N n) fun out => out.length = n := by
  unfold decode1
  refine safeP_bind (safeP_readFrequencies1 alloc) fun p hp => ?_
  obtain ⟨bits, Fs⟩ := p
  obtain ⟨hb, hFs⟩ := hp
  dsimp only at hb hFs ⊢
  obtain ⟨Cs, hCs, hCl, hCall⟩ := mapRows_spec (f := buildCum) (P := Row bits)
    (Q := fun _ C => CumA C) (fun F hF => buildCum_spec hb hF) Fs hFs.2
  rw [hCs]
  refine safeP_bind (safeP_liftOk Cs) fun Cs' e => ?_
  subst e
  have hctx : Ctx1 bits Fs Cs' :=
    ⟨hFs.1, by rw [hCl, hFs.1], fun i F C h1 h2 =>
      ⟨hb, hFs.2 F (List.mem_of_getElem? h1), hCall i F C h1 h2⟩⟩
  refine safeP_bind (safeP_readStates N) fun states hst => ?_
  rw [udiv_eq hN]
  refine safeP_bind (safeP_liftOk _) fun q e => ?_
  subst e
  have hq2 : n / N * N ≤ n := Nat.div_mul_le_self n N
  refine safeP_bind (safeP_forN_lt (I := fun _ st => St1 N n st) (N := n / N)
    (fun i st hi hst' => safeP_forN_lt (I := fun _ st => St1 N n st) (N := N)
      (fun j st hj hst'' => safeP_lane1 hctx hn rfl hi j hj st hst'') N 0 st (by omega) hst')
    (n / N) 0 (states, List.replicate N 0, Array.replicate n 0) (by omega)
    ⟨hst, ⟨List.length_replicate, fun p hp => mem_replicate_lt hp⟩, Array.size_replicate⟩)
    fun p hp => ?_
  obtain ⟨states', prevs, dst⟩ := p
  obtain ⟨⟨hl1, hs1⟩, ⟨hl2, hs2⟩, hl3⟩ := hp
  have hl1 : states'.length = N := hl1
  have hl2 : prevs.length = N := hl2
  have hl3 : dst.size = n := hl3
  dsimp only
  rw [umul_eq (by omega)]
  refine safeP_bind (safeP_liftOk _) fun base e => ?_
  subst e
  rw [usub_eq hq2]
  refine safeP_bind (safeP_liftOk _) fun last e => ?_
  subst e
  have hne1 : states' ≠ [] := by intro e; rw [e] at hl1; exact hN hl1.symm
  have hne2 : prevs ≠ [] := by intro e; rw [e] at hl2; exact hN hl2.symm
  rw [List.getLast?_eq_some_getLast hne1, List.getLast?_eq_some_getLast hne2]
  simp only [unwrap]
  refine safeP_bind (safeP_liftOk _) fun s e => ?_
  subst e
  refine safeP_bind (safeP_liftOk _) fun p e => ?_
  subst e
  refine safeP_bind (safeP_forN_lt (I := fun _ st => st.1 < 2^32 ∧ st.2.1 < 256 ∧ st.2.2.size = n)
    (N := n - n / N * N)
    (fun i st hi hst' => safeP_tail1 hctx (base := n / N * N) (last := n - n / N * N) (by omega)
      i hi st hst') (n - n / N * N) 0 _ (by omega)
    ⟨hs1 _ (List.getLast_mem hne1), hs2 _ (List.getLast_mem hne2), hl3⟩) fun r hr => ?_
  obtain ⟨_, _, d⟩ := r
  exact safeP_pure (by simpa using hr.2.2)

/-! ## bit packing -/

theorem safeP_readPackContext :
    SafeP readPackContext fun c => c.2.1.length = c.1 ∧ c.2.2 < 2^32 := by
  unfold readPackContext
  refine safeP_bind safeP_readU8 fun n _ => ?_
  refine safeP_ite (fun _ => safeP_fail _) fun h0 => ?_
  refine safeP_bind (safeP_splitOff n) fun map hm => ?_
  refine safeP_bind safeP_readUint7 fun len hlen => ?_
  exact safeP_pure ⟨hm, hlen⟩

theorem unpack_ne_panic (src map : Bytes) {per : Nat} (hp : per = 8 ∨ per = 4 ∨ per = 2) (n : Nat) :
    unpack src map per n ≠ .panic := by
  unfold unpack
  rcases hp with rfl | rfl | rfl <;> simp [udiv, shl32, usub, P32]

theorem packDecode_ne_panic (alloc : Nat → Bool) (src : Bytes) (ctx : Nat × Bytes × Nat)
    (h : ctx.2.1.length = ctx.1) : packDecode alloc src ctx ≠ .panic := by
  unfold packDecode
  refine Res.bind_ne_panic (allocZeroed_ne_panic alloc _) fun _ _ => ?_
  refine Res.bind_ne_panic ?_ fun r _ => ?_
  · split
    · rename_i h1
      refine Res.bind_ne_panic ((index_ne_panic_iff _ _).mpr (by omega)) fun _ _ => by simp
    · split
      · exact unpack_ne_panic _ _ (Or.inl rfl) _
      · split
        · exact unpack_ne_panic _ _ (Or.inr (Or.inl rfl)) _
        · split
          · exact unpack_ne_panic _ _ (Or.inr (Or.inr rfl)) _
          · simp
  · cases r <;> simp

/-! ## run lengths -/

theorem safeP_readRleContext (alloc : Nat → Bool) {N : Nat} (hN : N ≠ 0) :
    SafeP (readRleContext alloc N) fun c => c.2 < 2^32 := by
  unfold readRleContext
  refine safeP_bind safeP_readUint7 fun n _ => ?_
  dsimp only
  refine safeP_bind safeP_readUint7 fun len hlen => ?_
  refine safeP_ite (fun _ => ?_) fun _ => ?_
  · refine safeP_bind safeP_readUint7 fun csize _ => ?_
    refine safeP_bind (safeP_splitOff csize) fun buf _ => ?_
    refine safeP_bind (P := fun _ => True)
      (safeP_lift (allocZeroed_ne_panic alloc _) fun _ _ => trivial) fun _ _ => ?_
    refine safeP_bind (P := fun _ => True)
      (safeP_lift (onBuf_ne_panic (safeP_decode0 hN _) buf) fun _ _ => trivial) fun dst _ => ?_
    exact safeP_pure hlen
  · refine safeP_bind (safeP_splitOff _) fun ctx _ => ?_
    exact safeP_pure hlen

theorem safeP_rleAlphaLoop : ∀ (k : Nat) (A : List Bool), A.length = 256 →
    SafeP (rleAlphaLoop k A) fun A' => A'.length = 256
  | 0, A, h => by unfold rleAlphaLoop; exact safeP_pure' h
  | k + 1, A, h => by
    unfold rleAlphaLoop
    refine safeP_bind safeP_readU8 fun sym hsym => ?_
    refine safeP_bind (P := fun A' => A'.length = 256)
      (safeP_lift (setN_ne_panic (by omega)) fun A' e => by
        rw [(setN_ok e).1, List.length_set]; exact h) fun A' h' => ?_
    exact safeP_rleAlphaLoop k A' h'

theorem safeP_readRleAlphabet : SafeP readRleAlphabet fun A => A.length = 256 := by
  unfold readRleAlphabet
  refine safeP_bind safeP_readU8 fun n _ => ?_
  exact safeP_rleAlphaLoop _ _ List.length_replicate

theorem rleLoop_ne_panic (A : List Bool) (hA : A.length = 256) :
    ∀ (fuel k : Nat) (src lens acc : Bytes), k ≤ fuel → rleLoop A fuel k src lens acc ≠ .panic
  | _, 0, _, _, _, _ => by unfold rleLoop; simp
  | 0, k + 1, _, _, _, h => by omega
  | fuel + 1, k + 1, src, lens, acc, h => by
    unfold rleLoop
    cases src with
    | nil => simp
    | cons sym src =>
      dsimp only
      have hi : sym.toNat < A.length := by rw [hA]; exact sym.toNat_lt
      have : idxN A sym.toNat = .ok A[sym.toNat] := by
        unfold idxN; rw [List.getElem?_eq_getElem hi]
      rw [this]
      cases A[sym.toNat] with
      | false => exact rleLoop_ne_panic A hA fuel k src lens _ (by omega)
      | true =>
        dsimp only
        cases hr : readUint7 lens with
        | ok p =>
          obtain ⟨len, lens'⟩ := p
          exact rleLoop_ne_panic A hA fuel _ src lens' _ (by omega)
        | err e => simp
        | panic => exact absurd hr (safeP_readUint7.ne_panic lens)

theorem rleDecode_ne_panic (alloc : Nat → Bool) (src : Bytes) (ctx : Bytes × Nat) :
    rleDecode alloc src ctx ≠ .panic := by
  unfold rleDecode
  cases hr : readRleAlphabet ctx.1 with
  | ok p =>
    obtain ⟨A, lens⟩ := p
    dsimp only
    refine Res.bind_ne_panic (allocZeroed_ne_panic alloc _) fun _ _ => ?_
    exact rleLoop_ne_panic A (safeP_readRleAlphabet.post hr) _ _ _ _ _ (Nat.le_refl _)
  | err e => simp
  | panic => exact absurd hr (safeP_readRleAlphabet.ne_panic _)


/-! ## stripes -/

/-- chunk `i` of `n` holds `len / n` bytes, one more when `i < len % n`: each of its positions `j`
lands inside the destination -/
theorem stripe_index {len n i j : Nat} (hi : i < n)
    (hj : j < len / n + (if len % n > i then 1 else 0)) : j * n + i < len := by
  have hdm := Nat.div_add_mod len n
  rw [Nat.mul_comm] at hdm
  by_cases hjq : j < len / n
  · have h1 : (j + 1) * n ≤ len / n * n := Nat.mul_le_mul_right _ (by omega)
    rw [Nat.succ_mul] at h1
    omega
  · split at hj
    · have : j = len / n := by omega
      subst this; omega
    · omega

theorem buildSizes_eq {len n : Nat} (hn : n ≠ 0) :
    buildSizes len n = .ok ((List.range n).map fun i =>
      if len % n > i then len / n + 1 else len / n) := by
  unfold buildSizes
  rw [udiv_eq hn, umod_eq hn]
  rfl

/-- the chunks decoded for a list of `(compressed_size, uncompressed_size)` pairs have the
declared sizes -/
def Sized : List Bytes → List (Nat × Nat) → Prop
  | [], [] => True
  | c :: cs, p :: ps => c.length = p.2 ∧ Sized cs ps
  | _, _ => False

theorem safeP_stripeChunks {rec : Bytes → Nat → Res Bytes}
    (hrec : ∀ b n, n < 2^64 → rec b n ≠ .panic) :
    ∀ pairs : List (Nat × Nat), (∀ p ∈ pairs, p.2 < 2^64) →
      SafeP (stripeChunks rec pairs) fun chunks => Sized chunks pairs
  | [], _ => by unfold stripeChunks; exact safeP_pure' trivial
  | (csize, usize) :: rest, hp => by
    unfold stripeChunks
    refine safeP_bind (safeP_splitOff csize) fun buf _ => ?_
    refine safeP_bind (P := fun _ => True)
      (safeP_lift (hrec buf usize (hp (csize, usize) List.mem_cons_self)) fun _ _ => trivial)
      fun chunk _ => ?_
    refine safeP_ite (fun hlen => ?_) fun _ => safeP_fail _
    refine safeP_bind (safeP_stripeChunks hrec rest fun p h => hp p (List.mem_cons_of_mem _ h))
      fun tl htl => ?_
    exact safeP_pure ⟨hlen, htl⟩

theorem stripe_size_le {len n i : Nat} (hn : n ≠ 0) :
    (if len % n > i then len / n + 1 else len / n) ≤ len := by
  have hdm := Nat.div_add_mod len n
  have h1 : len / n ≤ n * (len / n) := Nat.le_mul_of_pos_left _ (by omega)
  split <;> omega

theorem sized_length : ∀ {chunks : List Bytes} {pairs : List (Nat × Nat)}, Sized chunks pairs →
    chunks.length = pairs.length
  | [], [], _ => rfl
  | _ :: cs, _ :: ps, h => by simp [sized_length h.2]
  | [], _ :: _, h => h.elim
  | _ :: _, [], h => h.elim

theorem sized_get : ∀ {chunks : List Bytes} {pairs : List (Nat × Nat)}, Sized chunks pairs →
    ∀ (k : Nat) (c : Bytes) (p : Nat × Nat), chunks[k]? = some c → pairs[k]? = some p →
      c.length = p.2
  | [], [], _, k, c, p, hc, _ => by simp at hc
  | c0 :: cs, p0 :: ps, h, 0, c, p, hc, hp => by
    simp only [List.getElem?_cons_zero, Option.some.injEq] at hc hp
    subst hc hp; exact h.1
  | c0 :: cs, p0 :: ps, h, k + 1, c, p, hc, hp => by
    simp only [List.getElem?_cons_succ] at hc hp
    exact sized_get h.2 k c p hc hp
  | [], _ :: _, h, _, _, _, _, _ => h.elim
  | _ :: _, [], h, _, _, _, _, _ => h.elim

theorem transposeChunk_spec {n i len : Nat} (hlen : len < 2^64) :
    ∀ (chunk : Bytes) (j : Nat) (dst : Array UInt8), dst.size = len →
      (∀ j', j ≤ j' → j' < j + chunk.length → j' * n + i < len) →
      ∃ dst', transposeChunk n i chunk j dst = .ok dst' ∧ dst'.size = len
  | [], j, dst, hd, _ => ⟨dst, rfl, hd⟩
  | s :: rest, j, dst, hd, hall => by
    have h0 := hall j (Nat.le_refl _) (by simp)
    unfold transposeChunk
    rw [umul_eq (by omega)]
    simp only [Res.bind_ok]
    have hadd : uadd (j * n) i = .ok (j * n + i) := by unfold uadd USIZE; rw [if_pos (by omega)]
    rw [hadd]
    simp only [Res.bind_ok]
    have hset : setA dst (j * n + i) s = .ok (dst.setIfInBounds (j * n + i) s) := by
      unfold setA; rw [if_pos (by omega)]
    rw [hset]
    simp only [Res.bind_ok]
    exact transposeChunk_spec hlen rest (j + 1) _ (by simp [hd]) fun j' h1 h2 =>
      hall j' (by omega) (by simp only [List.length_cons]; omega)

theorem transposeLoop_spec {n len : Nat} (hlen : len < 2^64) :
    ∀ (chunks : List Bytes) (i : Nat) (dst : Array UInt8), dst.size = len →
      (∀ (k : Nat) (c : Bytes), chunks[k]? = some c → ∀ j, j < c.length → j * n + (i + k) < len) →
      transposeLoop n chunks i dst ≠ .panic
  | [], _, _, _, _ => by unfold transposeLoop; simp
  | c :: rest, i, dst, hd, hall => by
    unfold transposeLoop
    obtain ⟨dst', h1, h2⟩ := transposeChunk_spec (n := n) (i := i) hlen c 0 dst hd
      fun j' _ hj => by have := hall 0 c rfl j' (by omega); simpa using this
    rw [h1]
    simp only [Res.bind_ok]
    exact transposeLoop_spec hlen rest (i + 1) dst' h2 fun k c' hk j hj => by
      have := hall (k + 1) c' (by simpa using hk) j hj
      rwa [show i + (k + 1) = i + 1 + k by omega] at this

theorem safeP_stripeDecode {rec : Bytes → Nat → Res Bytes}
    (hrec : ∀ b n, n < 2^64 → rec b n ≠ .panic) {len : Nat} (hlen : len < 2^64) : SafeP (stripeDecode rec len) fun _ => True := by
  unfold stripeDecode
  refine safeP_bind safeP_readU8 fun n _ => ?_
  refine safeP_ite (fun _ => safeP_fail _) fun hn => ?_
  refine safeP_bind (safeP_many safeP_readUint7 n) fun csizes hcs => ?_
  rw [buildSizes_eq hn]
  refine safeP_bind (safeP_liftOk _) fun usizes e => ?_
  subst e
  refine safeP_bind (safeP_stripeChunks hrec _ fun p hp => ?_) fun chunks hch => ?_
  · have := (List.of_mem_zip hp).2
    obtain ⟨i, _, hi⟩ := List.mem_map.mp this
    rw [← hi]
    have := stripe_size_le (len := len) (i := i) hn
    omega
  refine safeP_lift ?_ fun _ _ => trivial
  have hcl : chunks.length = n := by
    rw [sized_length hch, List.length_zip, hcs.1, List.length_map, List.length_range, Nat.min_self]
  unfold transpose
  refine Res.bind_ne_panic ?_ fun _ _ => by simp
  refine transposeLoop_spec hlen chunks 0 _ Array.size_replicate fun k c hk j hj => ?_
  rw [hcl, Nat.zero_add]
  have hkn : k < n := by
    have := (List.getElem?_eq_some_iff.mp hk).1; omega
  have hp : (csizes.zip ((List.range n).map fun i =>
      if len % n > i then len / n + 1 else len / n))[k]? =
      some (csizes[k]'(by omega), if len % n > k then len / n + 1 else len / n) := by
    rw [List.getElem?_eq_getElem (by simp [hcs.1]; omega)]
    simp
  have hc := sized_get hch k c _ hk hp
  refine stripe_index hkn ?_
  rw [hc] at hj
  dsimp only at hj
  split at hj <;> rename_i hr <;> simp only [hr, if_true, if_false] <;> omega

/-! ## `decode_chunk` -/

theorem stateCount_ne (flags : Nat) : stateCount flags ≠ 0 := by
  unfold stateCount; split <;> decide

theorem safeP_decodeData (alloc : Nat → Bool) (flags : Nat) {len : Nat} (hlen : len < 2^64) :
    SafeP (decodeData alloc flags len) fun _ => True := by
  unfold decodeData
  refine safeP_ite (fun _ => (safeP_splitOff len).mono fun _ _ => trivial) fun _ => ?_
  refine safeP_bind (P := fun _ => True)
    (safeP_lift (allocZeroed_ne_panic alloc _) fun _ _ => trivial) fun _ _ => ?_
  refine safeP_bind (P := fun _ => True) ?_ fun _ _ => safeP_pure trivial
  exact safeP_ite (fun _ => (safeP_decode1 alloc (stateCount_ne flags) hlen).mono fun _ _ => trivial)
    fun _ => (safeP_decode0 (stateCount_ne flags) len).mono fun _ _ => trivial

theorem safeP_decodePlain (alloc : Nat → Bool) (flags : Nat) {len : Nat} (hlen : len < 2^64) :
    SafeP (decodePlain alloc flags len) fun _ => True := by
  unfold decodePlain
  refine safeP_bind
    (P := fun p => (∀ c, p.1 = some c → c.2.1.length = c.1) ∧ p.2 < 2^64) ?_ fun p hp => ?_
  · refine safeP_ite (fun _ => ?_) fun _ => safeP_pure ⟨(fun c h => by cases h), hlen⟩
    refine safeP_bind safeP_readPackContext fun c hc => ?_
    refine safeP_pure ⟨fun c' h => ?_, ?_⟩
    · cases h; exact hc.1
    · have := hc.2; dsimp only; omega
  obtain ⟨pack, len1⟩ := p
  obtain ⟨hpack, hlen1⟩ := hp
  dsimp only at hpack hlen1 ⊢
  refine safeP_bind (P := fun p => p.2 < 2^64) ?_ fun p hp => ?_
  · refine safeP_ite (fun _ => ?_) fun _ => safeP_pure hlen1
    refine safeP_bind (safeP_readRleContext alloc (stateCount_ne flags)) fun c hc => ?_
    refine safeP_pure ?_
    dsimp only; omega
  obtain ⟨rle, len2⟩ := p
  dsimp only at hp ⊢
  refine safeP_bind (safeP_decodeData alloc flags hp) fun dst _ => ?_
  refine safeP_bind (P := fun _ => True) (safeP_lift ?_ fun _ _ => trivial) fun dst' _ => ?_
  · cases rle with
    | none => simp [undoRle]
    | some ctx => exact rleDecode_ne_panic alloc dst ctx
  · refine safeP_lift ?_ fun _ _ => trivial
    cases pack with
    | none => simp [undoPack]
    | some ctx => exact packDecode_ne_panic alloc dst' ctx (hpack ctx rfl)

theorem safeP_chunkBody (alloc : Nat → Bool) (rec : Option (Bytes → Nat → Res Bytes))
    (hrec : ∀ r, rec = some r → ∀ b n, n < 2^64 → r b n ≠ .panic) {len : Nat} (hlen : len < 2^64) :
    SafeP (chunkBody alloc rec len) fun _ => True := by
  unfold chunkBody
  refine safeP_bind safeP_readU8 fun flags _ => ?_
  refine safeP_bind (P := fun l => l < 2^64) ?_ fun len' hlen' => ?_
  · exact safeP_ite (fun _ => safeP_pure' hlen) fun _ => safeP_readUint7.mono fun _ h => by omega
  refine safeP_ite (fun _ => ?_) fun _ => safeP_decodePlain alloc flags hlen'
  cases rec with
  | none => exact safeP_fail _
  | some r => exact safeP_stripeDecode (hrec r rfl) hlen'

theorem decodeChunk_ne_panic (alloc : Nat → Bool) : ∀ (rem : Nat) (src : Bytes) (len : Nat),
    len < 2^64 → decodeChunk alloc rem src len ≠ .panic
  | 0, src, len, hlen => by
    unfold decodeChunk
    exact onBuf_ne_panic (safeP_chunkBody alloc none (fun _ h => by cases h) hlen) src
  | rem + 1, src, len, hlen => by
    unfold decodeChunk
    refine onBuf_ne_panic (safeP_chunkBody alloc _ (fun r h => ?_) hlen) src
    cases h
    exact fun b n hn => decodeChunk_ne_panic alloc rem b n hn

/-- `rans_nx16::decode`, on any byte string, for any declared size that is a `usize` and under any
allocator behaviour, answers bytes or an error -/
theorem decode_ne_panic (alloc : Nat → Bool) (src : Bytes) (len : Nat) (hlen : len < 2^64) :
    decode alloc src len ≠ .panic := decodeChunk_ne_panic alloc _ src len hlen

end Noodles.Hostile.Nx16
