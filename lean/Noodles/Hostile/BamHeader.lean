import Noodles.Hostile.Stream
/-!
# The BAM header reader on ANY byte string

Transcribed from noodles-bam `io/reader/header.rs` (`read_header`, `read_header_inner`,
`read_sam_header`, `read_line`, `reference_sequences_eq`, `Reader::raw_sam_header_reader`),
`header/magic_number.rs`, `header/sam_header.rs` (the `BufRead` over `BufReader<Take<R>>` that
delivers the header text line by line and ends it at a line that starts with NUL),
`header/reference_sequences.rs`, `header/reference_sequences/reference_sequence.rs`
(`read_name`, `read_length`) and `io/reader.rs` (`bytes_with_nul_to_bstring`).

The SAM header PARSER (`noodles_sam::header::Parser`) is a parameter `P`: any function from the
lines it is fed to `none` (some line was rejected: `InvalidData`) or the reference sequence
dictionary of the parsed header. Its own behaviour on hostile text belongs to the text half of C15.

NOT modelled: capacities (`ReferenceSequences::with_capacity(n_ref.min(4096))`). `usize::try_from(u32)` cannot fail on a 64-bit target.
-/
namespace Noodles.Hostile.BamHdr
open Noodles.Hostile Rd

/-- `MAGIC_NUMBER` = `BAM\x01` -/
def MAGIC : Bytes := [0x42, 0x41, 0x4d, 0x01]

def LF : UInt8 := 0x0a
def CR : UInt8 := 0x0d

/-- reference sequence dictionary: name and length, in map order -/
abbrev Refs := List (Bytes × Nat)

/-- `read_line`: `dst.pop()` of a trailing `\r` once the `\n` has been removed -/
def stripCR (l : Bytes) : Bytes := if l.getLast? = some CR then l.dropLast else l

/-- `find_byte(b'\n')` / `memchr`: position of the first `\n` -/
def findLF : Bytes → Option Nat
  | [] => none
  | b :: r => if b = LF then some 0 else (findLF r).map (· + 1)

/-- `<sam_header::Reader as BufRead>::fill_buf` on the bytes `src` the inner `BufReader` holds
(the same function is in noodles-cram `io/reader/header/container/sam_header.rs` and noodles-bcf
`io/reader/header/vcf_header.rs`): the buffer handed out and the new `is_eol`. The only slice
expression is `&src[..=i]`. -/
def fillBuf (isEol : Bool) (src : Bytes) : Res (Bytes × Bool) :=
  if isEol ∧ (src.head?.map (· == 0)).getD true then .ok ([], isEol)
  else
    match findLF src with
    | some i => do
      let b ← sliceTo src (i + 1)
      return (b, true)
    | none => .ok (src, false)

/-- What `read_line` over `sam_header::Reader` delivers for the bytes of the `Take`.

`fill_buf`: at a line start (`is_eol`), an exhausted source or a first byte NUL is the end of the
text (`&[]`); otherwise the bytes up to and including the next `\n` (`&src[..=i]`, `i` being the
position `find_byte` returned, so the slice is in range), or everything buffered when there is
none. `read_until(b'\n')` glues these together; `read_line` then strips `\n` and one `\r`.
The buffering (8 KiB `BufReader` chunks) does not show: `is_eol` is true exactly after a `\n`.

`cur = none`: at a line start. Result: the complete lines and, if the bytes ended inside a line,
that unterminated rest (delivered as a last line when the source ends cleanly). -/
def linesGo : Bytes → Option Bytes → List Bytes × Option Bytes
  | [], cur => ([], cur)
  | b :: r, none =>
    if b = 0 then ([], none)
    else if b = LF then
      let (ls, p) := linesGo r none
      ([] :: ls, p)
    else linesGo r (some [b])
  | b :: r, some cur =>
    if b = LF then
      let (ls, p) := linesGo r none
      (stripCR cur :: ls, p)
    else linesGo r (some (cur ++ [b]))

/-- the lines of a header text whose source ends cleanly -/
def textLines (text : Bytes) : List Bytes :=
  let (ls, p) := linesGo text none
  ls ++ p.toList

/-- `raw_sam_header_reader` + the `read_line` loop + `discard_to_end`: `l_text`, then the `Take`
of `l_text` bytes read to its end. A stream that ends before `l_text` bytes gives a shorter text
and NO error here (the next read fails). -/
def readText : Rd (List Bytes) := do
  let lText ← readU32
  let w ← Rd.window lText
  return textLines w

/-- `read_sam_header`: every line goes to `parse_partial`; a rejected line is `InvalidData` -/
def readSamHeader (P : List Bytes → Option Refs) : Rd Refs := do
  let lines ← readText
  match P lines with
  | none => Rd.fail .invalidData
  | some refs => return refs

/-- `bytes_with_nul_to_bstring` = `CStr::from_bytes_with_nul`: exactly one NUL, at the end -/
def cstr (c : Bytes) : Res Bytes :=
  if c.getLast? = some 0 ∧ (0 : UInt8) ∉ c.dropLast then .ok c.dropLast else .err .invalidData

/-- `read_name`: `l_name`, `l_name` bytes (`read_exact_to_vec`), NUL-terminated -/
def readName : Rd Bytes := do
  let lName ← readU32
  let c ← readExactToVec lName
  Rd.lift (cstr c)

/-- `read_length`: `l_ref` as `NonZero<usize>` -/
def readLength : Rd Nat := do
  let n ← readU32
  if n = 0 then Rd.fail .invalidData else return n

/-- `read_reference_sequence` -/
def readReferenceSequence : Rd (Bytes × Nat) := do
  let name ← readName
  let len ← readLength
  return (name, len)

/-- `IndexMap::insert`: a repeated name keeps its position and takes the new value -/
def insertRef : Refs → Bytes × Nat → Refs
  | [], e => [e]
  | (n, l) :: rest, e => if n = e.1 then (n, e.2) :: rest else (n, l) :: insertRef rest e

/-- `read_reference_sequences`: `n_ref`, then the entries -/
def readReferenceSequences : Rd Refs := do
  let nRef ← readU32
  let es ← many readReferenceSequence nRef
  return es.foldl insertRef []

/-- `read_header_inner`: magic number, text, binary dictionary; the header's own dictionary wins
when it is not empty and then has to agree with the binary one (`reference_sequences_eq`: same
names and lengths in the same order) -/
def readHeader (P : List Bytes → Option Refs) : Rd Refs := do
  readMagic MAGIC
  let hdr ← readSamHeader P
  let bin ← readReferenceSequences
  if hdr = [] then return bin
  else if hdr = bin then return hdr
  else Rd.fail .invalidData

/-- the same through the public pieces (`header_reader()`, `read_magic_number`,
`raw_sam_header_reader`, `discard_to_end`, `read_reference_sequences`): the lines as delivered and
the binary dictionary -/
def readHeaderParts : Rd (List Bytes × Refs) := do
  readMagic MAGIC
  let lines ← readText
  let bin ← readReferenceSequences
  return (lines, bin)

end Noodles.Hostile.BamHdr
