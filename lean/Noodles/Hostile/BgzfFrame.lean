import Noodles.Hostile.Basic
import Noodles.Bgzf.Frame
/-!
# BGZF frame parse with the Rust slicing made explicit

`Noodles.Bgzf.readFrame` (C01) is total by construction. This file restates the same code path —
noodles-bgzf `io/reader/frame.rs`: `read_frame_into`, `split_frame`, `parse_header`
(`is_valid_header`), `parse_trailer`, `parse_frame`, `block_initialize`, `inflate`, and
`io/block/data.rs`: `Data::as_mut` — with every `buf[a..b]`, `buf[i]`, `last_chunk().unwrap()`,
`split_first_chunk().unwrap()`, `len - TRAILER_SIZE` carrying its own bounds check, so that
`≠ panic` is a statement about the checks the Rust code performs BEFORE it slices.

The source is the whole remaining stream (`Read` on a slice; delivery schedules are C12).
DEFLATE and CRC32 are the parameters of `Noodles.Bgzf.Deflater`.
-/
namespace Noodles.Hostile.Frame
open Noodles.Hostile
open Noodles.Bgzf (Deflater HEADER_SIZE TRAILER_SIZE MAX_ISIZE MIN_FRAME)

/-- `read_frame_into`: `none` = fewer than 18 bytes left (clean end). Returns (frame, rest). -/
def readFrameInto (s : Bytes) : Res (Option (Bytes × Bytes)) :=
  -- buf.resize(18); reader.read_exact(buf): UnexpectedEof ⇒ Ok(None)
  if s.length < HEADER_SIZE then .ok none else do
  let buf := s.take HEADER_SIZE
  -- buf.last_chunk::<2>().map(u16::from_le_bytes).unwrap()
  let last2 ← unwrap (if 2 ≤ buf.length then some (buf.drop (buf.length - 2)) else none)
  let blockSize ← uadd (leVal last2) 1
  if blockSize < MIN_FRAME then .err .invalidData else
  -- buf.resize(block_size, 0); reader.read_exact(&mut buf[BGZF_HEADER_SIZE..])
  let _tail ← sliceFrom (List.replicate blockSize (0 : UInt8)) HEADER_SIZE
  if s.length < blockSize then .err .eof else
  return some (s.take blockSize, s.drop blockSize)

/-- `split_frame` -/
def splitFrame (buf : Bytes) : Res (Bytes × Bytes × Bytes) := do
  if buf.length < MIN_FRAME then .err .eof else
  -- buf.split_first_chunk::<18>().unwrap()
  let header ← unwrap (if HEADER_SIZE ≤ buf.length then some (buf.take HEADER_SIZE) else none)
  let end_ ← usub buf.length TRAILER_SIZE
  let cdata ← slice buf HEADER_SIZE end_
  -- buf.split_last_chunk::<8>().unwrap()
  let trailer ← unwrap (if TRAILER_SIZE ≤ buf.length then some (buf.drop (buf.length - TRAILER_SIZE)) else none)
  return (header, cdata, trailer)

/-- `is_valid_header` on the 18-byte header array: every index/range is inside the array -/
def isValidHeader (h : Bytes) : Res Bool := do
  let a ← slice h 0 2
  let b2 ← index h 2
  let b3 ← index h 3
  let c ← slice h 10 12
  let d ← slice h 12 14
  let e ← slice h 14 16
  return a == [0x1f, 0x8b] && b2 == 0x08 && b3 == 0x04 && c == [0x06, 0x00] && d == [0x42, 0x43] && e == [0x02, 0x00]

/-- `parse_trailer` on the 8-byte trailer array: (crc32, isize) -/
def parseTrailer (t : Bytes) : Res (Nat × Nat) := do
  let c ← sliceTo t 4
  -- `src[..4].try_into().unwrap()`: the slice has exactly 4 elements
  let _ ← assert (c.length == 4)
  let i ← sliceFrom t 4
  let _ ← assert (i.length == 4)
  let isize := leVal i
  if isize ≤ MAX_ISIZE then return (leVal c, isize) else .err .invalidData

/-- `Data::as_mut` after `set_position(0); resize(isize)`: `&mut self.buf[0..isize]` on the
65536-byte block buffer -/
def dataAsMut (isize : Nat) : Res Unit := do
  let _ ← slice (List.replicate MAX_ISIZE (0 : UInt8)) 0 isize
  return ()

/-- `parse_block`: (block_size, data) -/
def parseBlock (D : Deflater) (src : Bytes) : Res (Nat × Bytes) := do
  let (header, cdata, trailer) ← splitFrame src
  let valid ← isValidHeader header
  if !valid then .err .invalidData else
  let (crc, isize) ← parseTrailer trailer
  dataAsMut isize
  match D.inflate cdata isize with
  | none => .err .invalidData
  | some data => if D.crc data = crc then return (src.length, data) else .err .invalidData

/-- one frame off the stream: `read_frame_into` then `parse_block` -/
def readFrame (D : Deflater) (s : Bytes) : Res (Option (Nat × Bytes × Bytes)) := do
  match ← readFrameInto s with
  | none => return none
  | some (buf, rest) =>
    let (bs, data) ← parseBlock D buf
    return some (bs, data, rest)

/-- `read_to_end`: all frames until the clean end; fuel = stream length + 1 -/
def readAll (D : Deflater) : Nat → Bytes → Res Bytes
  | 0, _ => .ok []
  | fuel+1, s => do
    match ← readFrame D s with
    | none => return []
    | some (_, data, rest) =>
      let more ← readAll D fuel rest
      return data ++ more

def readToEnd (D : Deflater) (s : Bytes) : Res Bytes := readAll D (s.length + 1) s

end Noodles.Hostile.Frame
