import Noodles.Hostile.FastxText
import Noodles.Hostile.TextKitProof
/-! Helper lemmas for `Noodles/Props/C15Text.lean`: FASTQ / FASTA readers (`FastxText.lean`). -/
namespace Noodles.Hostile.FastxText
open Noodles.Hostile Noodles.Hostile.Text Res

theorem readLine_count (src : Bytes) : (readLine src).2.1 + (readLine src).2.2.length = src.length :=
  (readLineInto_sat true src []).1

/-! ## FASTQ -/

theorem readDefinitionBody_sat (src : Bytes) (hl : src.length < 2 ^ 63) :
    Sat (readDefinitionBody src) (fun r => r.2.2.1 + r.2.2.2.length = src.length) := by
  unfold readDefinitionBody
  split
  · rename_i he
    have : src = [] := by simpa using he
    subst this; simp [Sat]
  · split
    · rename_i i hi
      obtain ⟨hlt, hp⟩ := findIdx_some hi
      rw [index_ok hlt, sliceTo_ok (Nat.le_of_lt hlt)]
      simp only [bind_ok]
      have ha : assert (src[i] == 32 || src[i] == 9 || src[i] == 10) = .ok () := by
        simp only [assert]; simp only [hp, if_true]
      rw [ha, bind_ok, uadd_ok (by simp only [USIZE]; omega), bind_ok, sliceFrom_ok (by omega), bind_ok]
      split
      · simp only [Sat, List.length_drop]; omega
      · have hc := readLine_count (List.drop (i + 1) src)
        generalize readLine (List.drop (i + 1) src) = rl at hc ⊢
        obtain ⟨d, k, rest'⟩ := rl
        replace hc : k + rest'.length = (List.drop (i + 1) src).length := hc
        simp only [List.length_drop] at hc
        simp only
        rw [uadd_ok (by simp only [USIZE]; omega)]
        simp only [bind_ok, Sat]
        omega
    · rw [sliceFrom_ok (Nat.le_refl _)]
      simp [Sat]

theorem readFastq_ne_panic (src : Bytes) (hl : src.length < 2 ^ 63) : readFastq src ≠ .panic := by
  unfold readFastq
  split
  · simp
  · rename_i p src1
    split
    · simp
    · have hl1 : src1.length < 2 ^ 63 := by simp only [List.length_cons] at hl; omega
      have hs := readDefinitionBody_sat src1 hl1
      refine bind_ne_panic hs.ne_panic ?_
      rintro ⟨name, desc, n, src2⟩ hd
      have h2 : n + src2.length = src1.length := hs.of_ok hd
      simp only
      rw [uadd_ok (by simp only [USIZE]; omega), bind_ok]
      have hc := readLine_count src2
      generalize readLine src2 = rl at hc ⊢
      obtain ⟨sq, k, src3⟩ := rl
      replace hc : k + src3.length = src2.length := hc
      simp only
      rw [uadd_ok (by simp only [USIZE]; omega), bind_ok]
      split
      · simp
      · rename_i q src4
        simp only [List.length_cons] at hc
        split
        · simp
        · have hk : Sat (match findIdx (fun b => b == LF) src4 with
              | some i => uadd i 1
              | none => (Res.ok src4.length : Res Nat)) (fun k => k ≤ src4.length) := by
            split
            · rename_i i hi
              have := findIdx_lt hi
              rw [uadd_ok (by simp only [USIZE]; omega)]
              simp only [Sat]; omega
            · simp [Sat]
          refine bind_ne_panic hk.ne_panic ?_
          intro k2 hk2
          have hk2' : k2 ≤ src4.length := hk.of_ok hk2
          rw [sliceFrom_ok hk2', bind_ok, uadd_ok (by simp only [USIZE]; omega), bind_ok,
            uadd_ok (by simp only [USIZE]; omega), bind_ok]
          have hc5 := readLine_count (List.drop k2 src4)
          generalize readLine (List.drop k2 src4) = rl5 at hc5 ⊢
          obtain ⟨qual, k5, src6⟩ := rl5
          replace hc5 : k5 + src6.length = (List.drop k2 src4).length := hc5
          simp only [List.length_drop] at hc5
          simp only
          rw [uadd_ok (by simp only [USIZE]; omega)]
          simp

/-! ## FASTA -/

theorem parseDefinition_ne_panic (src : Bytes) : parseDefinition src ≠ .panic := by
  unfold parseDefinition
  split
  · simp
  · rename_i p src1
    split
    · simp
    · have hi : (findIdx isAsciiWhitespace src1).getD src1.length ≤ src1.length := by
        cases h : findIdx isAsciiWhitespace src1 with
        | none => simp
        | some i => simpa using Nat.le_of_lt (findIdx_lt h)
      simp only [hi, if_true, unwrap_some, bind_ok]
      split <;> simp

theorem readDefinition_ne_panic (src : Bytes) : readDefinition src ≠ .panic := by
  unfold readDefinition
  generalize readLine src = rl
  obtain ⟨line, n, rest⟩ := rl
  simp only
  split
  · simp
  · refine bind_ne_panic (parseDefinition_ne_panic line) fun _ _ => ?_
    simp

theorem dropIf_le (b : UInt8) (s : Bytes) : (dropIf b s).length ≤ s.length := by
  unfold dropIf; split <;> simp

theorem consumeEmptyLines_le : ∀ (fuel : Nat) (s : Bytes), (consumeEmptyLines fuel s).length ≤ s.length
  | 0, s => by simp [consumeEmptyLines]
  | fuel + 1, s => by
    unfold consumeEmptyLines
    simp only
    split
    · omega
    · have h1 := dropIf_le 13 s
      have h2 := dropIf_le 10 (dropIf 13 s)
      have := consumeEmptyLines_le fuel (dropIf 10 (dropIf 13 s))
      omega

/-- one `fill_buf` + `consume`: no panic, and a non-empty piece shortens the input -/
theorem fillBuf_sat (src : Bytes) :
    Sat (fillBuf src) (fun r => r.2.length ≤ src.length ∧ (r.1 ≠ [] → r.2.length < src.length)) := by
  unfold fillBuf
  have hle := consumeEmptyLines_le (src.length + 1) src
  generalize consumeEmptyLines (src.length + 1) src = s at hle ⊢
  simp only
  split
  · exact ⟨hle, fun h => absurd rfl h⟩
  · rename_i hne
    have hpos : 0 < s.length := by
      cases s with
      | nil => simp at hne
      | cons => simp
    rw [index_ok hpos, bind_ok]
    split
    · exact ⟨hle, fun h => absurd rfl h⟩
    · have hline : Sat (match findIdx (fun b => b == LF) s with
          | some i => sliceTo s i
          | none => (Res.ok s : Res Bytes)) (fun line => line.length ≤ s.length) := by
        split
        · rename_i i hi
          have := findIdx_lt hi
          rw [sliceTo_ok (by omega)]
          simp only [Sat, List.length_take]; omega
        · simp [Sat]
      refine Sat.bind hline ?_
      intro line hll
      split
      · rename_i hcr
        have hne : line ≠ [] := endsWith_ne_nil hcr
        have hlpos : 1 ≤ line.length := by
          cases line with
          | nil => exact absurd rfl hne
          | cons => simp
        rw [usub_ok hlpos, bind_ok, sliceTo_ok (by omega), bind_ok,
          sliceFrom_ok (by simp only [List.length_take]; omega), bind_ok]
        simp only [Sat, List.length_drop, List.length_take, ne_eq]
        refine ⟨by omega, fun hp => ?_⟩
        have : 0 < min (line.length - 1) line.length := by
          rcases Nat.eq_zero_or_pos (min (line.length - 1) line.length) with h0 | h0
          · exfalso; apply hp
            apply List.eq_nil_of_length_eq_zero
            simp only [List.length_take]; exact h0
          · exact h0
        omega
      · rw [sliceFrom_ok hll, bind_ok]
        simp only [Sat, List.length_drop, ne_eq]
        refine ⟨by omega, fun hp => ?_⟩
        have : 0 < line.length := by
          cases line with
          | nil => exact absurd rfl hp
          | cons => simp
        omega

theorem readSequence_ne_panic : ∀ (fuel : Nat) (src : Bytes), readSequence fuel src ≠ .panic
  | 0, _ => by simp [readSequence]
  | fuel + 1, src => by
    unfold readSequence
    refine bind_ne_panic (fillBuf_sat src).ne_panic ?_
    rintro ⟨piece, rest⟩ _
    simp only
    split
    · simp
    · refine bind_ne_panic (readSequence_ne_panic fuel rest) ?_
      rintro ⟨sq, rest'⟩ _
      simp

theorem readFasta_ne_panic (src : Bytes) : readFasta src ≠ .panic := by
  unfold readFasta
  refine bind_ne_panic (readDefinition_ne_panic src) ?_
  intro d _
  split
  · simp
  · refine bind_ne_panic (readSequence_ne_panic _ _) ?_
    rintro ⟨sq, r⟩ _
    simp

end Noodles.Hostile.FastxText
