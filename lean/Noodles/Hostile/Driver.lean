import Noodles.Basic.Wire
import Noodles.Basic.Crc32
import Noodles.Bgzf.Driver
import Noodles.Bgzf.DriverC02
import Noodles.Hostile.Num
import Noodles.Hostile.BgzfFrame
import Noodles.Hostile.BgzfData
import Noodles.Hostile.BamRecord
import Noodles.Hostile.BcfSite
import Noodles.Hostile.CsiQuery
import Noodles.Hostile.DriverC15Text
import Noodles.Hostile.DriverC15Bin
import Noodles.Hostile.DriverC15Codec
import Noodles.Hostile.DriverC15Rec
import Noodles.Hostile.DriverC15HdrTxt
/-! Line-protocol handler for the hostile-input suites (`c15 …`). -/
namespace Noodles.Hostile
open Noodles.Wire hiding Bytes

def errStr : Err → String
  | .eof => "err:eof"
  | .invalidData => "err:invalid-data"
  | .invalidInput => "err:invalid-input"

def fmtRes {α : Type} (f : α → String) : Res α → String
  | .ok a => f a
  | .err e => errStr e
  | .panic => "panic"

def optNat (s : String) : Option (Option Nat) :=
  if s = "-" then some none else s.toNat?.map some

def fmtIds (l : List Nat) : String :=
  if l.isEmpty then "-" else ",".intercalate (l.map toString)

/-- `RecordRef::name`: `*\0` is no name, one trailing NUL is stripped (canonicalisation of the
harness's observation, not part of the bounds model) -/
def fmtName (raw : Bytes) : String :=
  if raw = [0x2a, 0x00] then "none"
  else if raw.getLast? = some 0x00 then hex raw.dropLast else hex raw

/-- `raw_quality_scores`: all `0xff` reads as missing -/
def fmtQual (raw : Bytes) : String := if raw.all (· == 0xff) then "-" else hex raw

/-- `cigar()`: two operations `kS mN` with `k = l_seq` send the accessor to the `CG` tag; the
harness reports `cg` for that shape instead of the resolved operations -/
def fmtCigar (src raw : Bytes) : String :=
  let lseq := leVal ((src.drop 16).take 4)
  let op1 := leVal (raw.take 4)
  let op2 := leVal ((raw.drop 4).take 4)
  if raw.length = 8 ∧ op1 % 16 = 4 ∧ op1 / 16 = lseq ∧ op2 % 16 = 3 then "cg" else hex raw

def handleC15 : List String → String
  | ["itf8", h] =>
    match unhex h with
    | some s => fmtRes (fun (p : Int × Bytes) => s!"ok:{p.1}:{s.length - p.2.length}") (Num.readItf8 s)
    | none => "bad-op"
  | ["ltf8", h] =>
    match unhex h with
    | some s => fmtRes (fun (p : Int × Bytes) => s!"ok:{p.1}:{s.length - p.2.length}") (Num.readLtf8 s)
    | none => "bad-op"
  | ["uint7", h] =>
    match unhex h with
    | some s => fmtRes (fun (p : Nat × Bytes) => s!"ok:{p.1}:{s.length - p.2.length}") (Num.readUint7 s)
    | none => "bad-op"
  | ["frame", h, table] =>
    match unhex h, Noodles.Bgzf.parseInfTable table with
    | some s, some it =>
      fmtRes (fun (d : Bytes) => s!"ok:{d.length}:{Noodles.Crc32.crc32 d}")
        (Frame.readToEnd (Noodles.Bgzf.tableDeflater [] it) s)
    | _, _ => "bad-op"
  | ["asref", layout, ops] =>
    match Noodles.Bgzf.RM.parseLayout layout,
        (if ops = "-" then some [] else (ops.splitOn ",").mapM Noodles.Bgzf.RM.parseOp) with
    | some L, some ops => fmtRes (fun _ => "ok") (Data.dataAsRef (Noodles.Bgzf.RM.runOps L ops))
    | _, _ => "bad-op"
  | ["bamrec", h] =>
    match unhex h with
    | some s =>
      fmtRes (fun (p : Bytes × Bytes × Bytes × Bytes × Bytes) =>
        s!"ok name={fmtName p.1} cigar={fmtCigar s p.2.1} seq={hex p.2.2.1} qual={fmtQual p.2.2.2.1} data={hex p.2.2.2.2}")
        (Bam.readAndTouch s)
    | none => "bad-op"
  | ["bcfsite", h] =>
    match unhex h with
    | some s =>
      fmtRes (fun (p : Bytes × Bytes × Bytes × Bytes) =>
        s!"ok ids={hex p.1} ref={hex p.2.1} alt={hex p.2.2.1} flt={hex p.2.2.2}")
        (Bcf.readAndTouch s)
    | none => "bad-op"
  | ["query", ms, d, ids, st, en] =>
    match ms.toNat?, d.toNat?, nats ids, optNat st, optNat en with
    | some ms, some d, some ids, some st, some en =>
      fmtRes (fun (l : List Nat) => s!"ok:{fmtIds l}") (Csi.query true ms d ids st en)
    | _, _, _, _, _ => "bad-op"
  | "rec" :: ws => (RecDriver.handle? ("rec" :: ws)).getD "bad-op"
  | "hdrtxt" :: ws => HdrTxtDriver.handle ws
  | ws => (Bin.handleC15Bin ws <|> CodecDriver.handle? ws).getD (TextDriver.handleC15Text ws)

end Noodles.Hostile
