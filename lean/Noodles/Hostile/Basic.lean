/-!
# Three-valued decoder outcomes for C15 (hostile input is an error, never a panic)

A decoder of the model returns `ok v`, `err e` or `panic`. `panic` is produced EXACTLY where the
Rust code would panic: an index or slice out of range, `unwrap`/`expect` on `None`/`Err`, an
`assert!`, `todo!()`/`unreachable!()`, and (the harness is built with overflow checks ON)
`usize`/`u32`/`i32` arithmetic that overflows. Every primitive below carries that check
explicitly, so that "the decoder never answers `panic`" is a theorem about the transcribed control
flow and not an artefact of using total list functions.
-/
namespace Noodles.Hostile

abbrev Bytes := List UInt8

inductive Err | eof | invalidData | invalidInput
  deriving Repr, DecidableEq

inductive Res (α : Type)
  | ok (a : α)
  | err (e : Err)
  | panic
  deriving Repr, DecidableEq

namespace Res
variable {α β : Type}

def bind : Res α → (α → Res β) → Res β
  | ok a, f => f a
  | err e, _ => err e
  | panic, _ => panic

instance : Monad Res where
  pure := ok
  bind := bind

def isPanic : Res α → Bool
  | panic => true
  | _ => false

@[simp] theorem bind_ok (a : α) (f : α → Res β) : (ok a >>= f) = f a := rfl
@[simp] theorem bind_err (e : Err) (f : α → Res β) : (err e >>= f) = err e := rfl
@[simp] theorem bind_panic (f : α → Res β) : ((panic : Res α) >>= f) = panic := rfl
@[simp] theorem pure_eq (a : α) : (pure a : Res α) = ok a := rfl

/-- the key composition lemma: a bind panics only if the first part does, or the continuation does
on the value the first part produced -/
theorem bind_ne_panic {x : Res α} {f : α → Res β}
    (hx : x ≠ panic) (hf : ∀ a, x = ok a → f a ≠ panic) : (x >>= f) ≠ panic := by
  cases x with
  | ok a => exact hf a rfl
  | err e => simp
  | panic => exact absurd rfl hx

end Res
open Res

/-! ## Rust primitives with their panic conditions -/

/-- `usize::MAX + 1` on the 64-bit targets the harness runs on -/
def USIZE : Nat := 2^64

/-- `a + b` on `usize` with overflow checks -/
def uadd (a b : Nat) : Res Nat := if a + b < USIZE then .ok (a + b) else .panic
/-- `a - b` on an unsigned type with overflow checks -/
def usub (a b : Nat) : Res Nat := if b ≤ a then .ok (a - b) else .panic
/-- `a * b` on `usize` with overflow checks -/
def umul (a b : Nat) : Res Nat := if a * b < USIZE then .ok (a * b) else .panic

/-- `s[i]` -/
def index (s : Bytes) (i : Nat) : Res UInt8 :=
  match s[i]? with
  | some b => .ok b
  | none => .panic

/-- `&s[a..b]`: panics unless `a ≤ b ≤ s.len()` -/
def slice (s : Bytes) (a b : Nat) : Res Bytes :=
  if a ≤ b ∧ b ≤ s.length then .ok ((s.drop a).take (b - a)) else .panic

/-- `&s[a..]`: panics unless `a ≤ s.len()` -/
def sliceFrom (s : Bytes) (a : Nat) : Res Bytes :=
  if a ≤ s.length then .ok (s.drop a) else .panic

/-- `&s[..b]`: panics unless `b ≤ s.len()` -/
def sliceTo (s : Bytes) (b : Nat) : Res Bytes :=
  if b ≤ s.length then .ok (s.take b) else .panic

/-- `s.split_at(i)`: panics unless `i ≤ s.len()` -/
def splitAt (s : Bytes) (i : Nat) : Res (Bytes × Bytes) :=
  if i ≤ s.length then .ok (s.take i, s.drop i) else .panic

/-- `opt.unwrap()` / `opt.expect(..)` -/
def unwrap {α : Type} : Option α → Res α
  | some a => .ok a
  | none => .panic

/-- `assert!(c)` -/
def assert (c : Bool) : Res Unit := if c then .ok () else .panic

/-- little-endian value of a byte string -/
def leVal : Bytes → Nat
  | [] => 0
  | b :: r => b.toNat + 256 * leVal r

/-- big-endian value of a byte string -/
def beVal (s : Bytes) : Nat := s.foldl (fun acc b => acc * 256 + b.toNat) 0

theorem leVal_lt : ∀ s : Bytes, leVal s < 256 ^ s.length
  | [] => by simp [leVal]
  | b :: r => by
    have := leVal_lt r
    have hb := b.toNat_lt
    simp only [leVal, List.length_cons, Nat.pow_succ]
    omega

@[simp] theorem slice_ne_panic_iff (s : Bytes) (a b : Nat) :
    slice s a b ≠ .panic ↔ (a ≤ b ∧ b ≤ s.length) := by
  unfold slice; split <;> simp_all

theorem slice_ok_length {s r : Bytes} {a b : Nat} (h : slice s a b = .ok r) : r.length = b - a := by
  unfold slice at h
  split at h
  · rename_i hc
    cases h
    simp only [List.length_take, List.length_drop]; omega
  · cases h

theorem sliceFrom_ne_panic_iff (s : Bytes) (a : Nat) : sliceFrom s a ≠ .panic ↔ a ≤ s.length := by
  unfold sliceFrom; split <;> simp_all

theorem sliceTo_ne_panic_iff (s : Bytes) (b : Nat) : sliceTo s b ≠ .panic ↔ b ≤ s.length := by
  unfold sliceTo; split <;> simp_all

theorem index_ne_panic_iff (s : Bytes) (i : Nat) : index s i ≠ .panic ↔ i < s.length := by
  unfold index
  cases h : s[i]? with
  | some b => simp; exact (List.getElem?_eq_some_iff.mp h).1
  | none => simp; exact List.getElem?_eq_none_iff.mp h

end Noodles.Hostile
