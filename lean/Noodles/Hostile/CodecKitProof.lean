import Noodles.Hostile.CodecKit
import Noodles.Hostile.StreamProof
import Noodles.Hostile.Proof
/-!
# Proof kit for the codec decoders: `SafeP x P`

`SafeP x P`: the cursor reader `x` never panics, leaves a suffix of what it was given, and every
value it returns satisfies `P` (a Hoare triple with precondition `True`). It composes through
`>>=` with the continuation only having to be safe on values that satisfy `P`, which is how the
table invariants (256 entries, totals, value ranges) reach the arithmetic they protect.
-/
namespace Noodles.Hostile.Codec
open Noodles.Hostile Noodles.Hostile.Rd
variable {α β σ : Type}

structure SafeP (x : Rd α) (P : α → Prop) : Prop where
  ne_panic : ∀ s, x s ≠ .panic
  suffix : ∀ {s a r}, x s = .ok (a, r) → r <:+ s
  post : ∀ {s a r}, x s = .ok (a, r) → P a

theorem SafeP.safe {x : Rd α} {P : α → Prop} (h : SafeP x P) : Safe x := ⟨h.ne_panic, h.suffix⟩

theorem SafeP.of {x : Rd α} {P : α → Prop} (h : Safe x) (hp : Post x P) : SafeP x P :=
  ⟨h.ne_panic, h.suffix, fun e => hp _ _ _ e⟩

theorem SafeP.triv {x : Rd α} (h : Safe x) : SafeP x fun _ => True :=
  ⟨h.ne_panic, h.suffix, fun _ => trivial⟩

theorem SafeP.mono {x : Rd α} {P Q : α → Prop} (h : SafeP x P) (hpq : ∀ a, P a → Q a) : SafeP x Q :=
  ⟨h.ne_panic, h.suffix, fun e => hpq _ (h.post e)⟩

theorem SafeP.and {x : Rd α} {P Q : α → Prop} (h : SafeP x P) (h' : SafeP x Q) :
    SafeP x fun a => P a ∧ Q a :=
  ⟨h.ne_panic, h.suffix, fun e => ⟨h.post e, h'.post e⟩⟩

theorem SafeP.length_le {x : Rd α} {P : α → Prop} (h : SafeP x P) {s : Bytes} {a : α} {r : Bytes}
    (e : x s = .ok (a, r)) : r.length ≤ s.length := (h.suffix e).length_le

theorem safeP_pure {a : α} {P : α → Prop} (h : P a) : SafeP (Pure.pure a : Rd α) P :=
  SafeP.of (safe_pure a) (post_pure h)

theorem safeP_pure' {a : α} {P : α → Prop} (h : P a) : SafeP (Rd.pure a) P := safeP_pure h

theorem safeP_fail (e : Err) {P : α → Prop} : SafeP (Rd.fail e : Rd α) P :=
  SafeP.of (safe_fail e) post_fail

theorem safeP_bind {x : Rd α} {f : α → Rd β} {P : α → Prop} {Q : β → Prop}
    (hx : SafeP x P) (hf : ∀ a, P a → SafeP (f a) Q) : SafeP (x >>= f) Q where
  ne_panic s := by
    rw [bind_apply]
    cases hxs : x s with
    | ok p => obtain ⟨a, r⟩ := p; exact (hf a (hx.post hxs)).ne_panic r
    | err e => simp
    | panic => exact absurd hxs (hx.ne_panic s)
  suffix := by
    intro s b r' h
    obtain ⟨a, r, h1, h2⟩ := bind_ok_inv h
    exact ((hf a (hx.post h1)).suffix h2).trans (hx.suffix h1)
  post := by
    intro s b r' h
    obtain ⟨a, r, h1, h2⟩ := bind_ok_inv h
    exact (hf a (hx.post h1)).post h2

theorem safeP_bind' {x : Rd α} {f : α → Rd β} {P : α → Prop} {Q : β → Prop}
    (hx : SafeP x P) (hf : ∀ a, P a → SafeP (f a) Q) : SafeP (Rd.bind x f) Q := safeP_bind hx hf

theorem safeP_lift {x : Res α} {P : α → Prop} (h : x ≠ .panic) (hp : ∀ a, x = .ok a → P a) :
    SafeP (Rd.lift x) P := SafeP.of (safe_lift h) (post_lift hp)

theorem safeP_ite {c : Prop} [Decidable c] {x y : Rd α} {P : α → Prop}
    (hx : c → SafeP x P) (hy : ¬ c → SafeP y P) : SafeP (if c then x else y) P := by
  split
  · exact hx ‹_›
  · exact hy ‹_›

theorem safeP_readU8 : SafeP readU8 fun n => n < 256 := SafeP.of safe_readU8 post_readU8
theorem safeP_readU32 : SafeP readU32 fun n => n < 2^32 := SafeP.of safe_readU32 post_readU32
theorem safeP_readU16 : SafeP readU16 fun n => n < 2^16 := SafeP.of safe_readU16 (post_readLe 2)

theorem safeP_readExact (n : Nat) : SafeP (readExact n) fun b => b.length = n :=
  SafeP.of (safe_readExact n) (post_readExact n)

theorem safeP_splitOff (n : Nat) : SafeP (splitOff n) fun b => b.length = n := safeP_readExact n

theorem safeP_many {x : Rd α} {P : α → Prop} (hx : SafeP x P) (n : Nat) :
    SafeP (Rd.many x n) fun l => l.length = n ∧ ∀ a ∈ l, P a :=
  SafeP.and (SafeP.of (safe_many hx.safe n) (post_many n))
    (SafeP.of (safe_many hx.safe n) (post_many_all (fun _ _ _ e => hx.post e) n))

/-! ## readers that consume at least one byte when they succeed -/

def Strict (x : Rd α) : Prop := ∀ s a r, x s = .ok (a, r) → r.length < s.length

theorem strict_readExact {n : Nat} (hn : 0 < n) : Strict (readExact n) := by
  intro s a r h
  obtain ⟨_, _, h3, h4⟩ := readExact_ok h
  rw [h3, List.length_drop]; omega

theorem strict_readLe {n : Nat} (hn : 0 < n) :
    Strict (readExact n >>= fun b => (Pure.pure (leVal b) : Rd Nat)) := by
  intro s a r h
  obtain ⟨b, r', h1, h2⟩ := bind_ok_inv h
  simp only [pure_apply, Res.ok.injEq, Prod.mk.injEq] at h2
  rw [← h2.2]; exact strict_readExact hn _ _ _ h1

theorem strict_readU8 : Strict readU8 := strict_readLe (by decide)
theorem strict_readU32 : Strict readU32 := strict_readLe (by decide)

/-- the first part consumes, the continuation does not give anything back -/
theorem strict_bind_left {x : Rd α} {f : α → Rd β} {P : α → Prop} {Q : β → Prop}
    (hs : Strict x) (hx : SafeP x P) (hf : ∀ a, P a → SafeP (f a) Q) : Strict (x >>= f) := by
  intro s b r' h
  obtain ⟨a, r, h1, h2⟩ := bind_ok_inv h
  have := (hf a (hx.post h1)).length_le h2
  have := hs _ _ _ h1
  omega

/-- the continuation consumes -/
theorem strict_bind_right {x : Rd α} {f : α → Rd β} {P : α → Prop}
    (hx : SafeP x P) (hf : ∀ a, P a → Strict (f a)) : Strict (x >>= f) := by
  intro s b r' h
  obtain ⟨a, r, h1, h2⟩ := bind_ok_inv h
  have := hf a (hx.post h1) _ _ _ h2
  have := hx.length_le h1
  omega

/-! ## loops -/

theorem loopFuel_safeP {body : σ → Rd (σ ⊕ β)} {I : σ → Prop} {Q : β → Prop}
    (hb : ∀ a, I a → SafeP (body a) (Sum.elim I Q))
    (hc : ∀ a s a' r, I a → body a s = .ok (.inl a', r) → r.length < s.length) :
    ∀ fuel a s, I a → s.length < fuel →
      loopFuel body fuel a s ≠ .panic ∧
      ∀ b r, loopFuel body fuel a s = .ok (b, r) → r <:+ s ∧ Q b
  | 0, _, _, _, h => by omega
  | fuel + 1, a, s, ha, hfuel => by
    unfold loopFuel
    cases hbs : body a s with
    | ok p =>
      obtain ⟨v, r⟩ := p
      cases v with
      | inl a' =>
        have hI : I a' := (hb a ha).post hbs
        have hlt := hc a s a' r ha hbs
        have ih := loopFuel_safeP hb hc fuel a' r hI (by omega)
        refine ⟨ih.1, fun b r' e => ?_⟩
        have := ih.2 b r' e
        exact ⟨this.1.trans ((hb a ha).suffix hbs), this.2⟩
      | inr b =>
        refine ⟨by simp, fun b' r' e => ?_⟩
        simp only [Res.ok.injEq, Prod.mk.injEq] at e
        have hQ : Q b := (hb a ha).post hbs
        rw [← e.1, ← e.2]
        exact ⟨(hb a ha).suffix hbs, hQ⟩
    | err e => exact ⟨by simp, fun b r e' => by cases e'⟩
    | panic => exact absurd hbs ((hb a ha).ne_panic s)

/-- a `loop` with invariant `I` whose continuing iterations consume input never runs out of
fuel, does not panic, and ends in a state satisfying `Q` -/
theorem safeP_loop {body : σ → Rd (σ ⊕ β)} {I : σ → Prop} {Q : β → Prop}
    (hb : ∀ a, I a → SafeP (body a) (Sum.elim I Q))
    (hc : ∀ a s a' r, I a → body a s = .ok (.inl a', r) → r.length < s.length)
    {a : σ} (ha : I a) : SafeP (loop body a) Q where
  ne_panic s := (loopFuel_safeP hb hc (s.length + 1) a s ha (by omega)).1
  suffix := by
    intro s b r h
    exact ((loopFuel_safeP hb hc (s.length + 1) a s ha (by omega)).2 b r h).1
  post := by
    intro s b r h
    exact ((loopFuel_safeP hb hc (s.length + 1) a s ha (by omega)).2 b r h).2

/-- a counted loop with an invariant that may depend on the index -/
theorem safeP_forN {body : Nat → σ → Rd σ} {I : Nat → σ → Prop}
    (hb : ∀ i st, I i st → SafeP (body i st) (I (i + 1))) :
    ∀ n i st, I i st → SafeP (forN body n i st) (I (i + n))
  | 0, i, st, h => by
    unfold forN
    exact safeP_pure' (by simpa using h)
  | n + 1, i, st, h => by
    unfold forN
    refine safeP_bind' (hb i st h) fun st' h' => ?_
    have := safeP_forN hb n (i + 1) st' h'
    rwa [show i + 1 + n = i + (n + 1) by omega] at this

/-- a counted loop whose body is only known to be safe for indices below `N` -/
theorem safeP_forN_lt {body : Nat → σ → Rd σ} {I : Nat → σ → Prop} {N : Nat}
    (hb : ∀ i st, i < N → I i st → SafeP (body i st) (I (i + 1))) :
    ∀ n i st, i + n ≤ N → I i st → SafeP (forN body n i st) (I (i + n))
  | 0, i, st, _, h => by
    unfold forN
    exact safeP_pure' (by simpa using h)
  | n + 1, i, st, hN, h => by
    unfold forN
    refine safeP_bind' (hb i st (by omega) h) fun st' h' => ?_
    have := safeP_forN_lt hb n (i + 1) st' (by omega) h'
    rwa [show i + 1 + n = i + (n + 1) by omega] at this

/-- the same for an invariant that does not mention the index -/
theorem safeP_forN' {body : Nat → σ → Rd σ} {I : σ → Prop}
    (hb : ∀ i st, I st → SafeP (body i st) I) (n i : Nat) {st : σ} (h : I st) :
    SafeP (forN body n i st) I :=
  safeP_forN (I := fun _ => I) hb n i st h

theorem forR_inv {body : Nat → σ → Res σ} {I : Nat → σ → Prop}
    (hb : ∀ i st, I i st → body i st ≠ .panic ∧ ∀ st', body i st = .ok st' → I (i + 1) st') :
    ∀ n i st, I i st →
      forR body n i st ≠ .panic ∧ ∀ st', forR body n i st = .ok st' → I (i + n) st'
  | 0, i, st, h => by
    unfold forR
    exact ⟨by simp, fun st' e => by cases e; simpa using h⟩
  | n + 1, i, st, h => by
    unfold forR
    cases hbs : body i st with
    | ok st1 =>
      have h1 := (hb i st h).2 st1 hbs
      have ih := forR_inv hb n (i + 1) st1 h1
      rw [show i + 1 + n = i + (n + 1) by omega] at ih
      simpa using ih
    | err e => exact ⟨by simp, fun st' e' => by cases e'⟩
    | panic => exact absurd hbs (hb i st h).1

/-! ## `onBuf` -/

theorem onBuf_ne_panic {x : Rd α} {P : α → Prop} (h : SafeP x P) (buf : Bytes) :
    onBuf x buf ≠ .panic := by
  unfold onBuf
  cases hx : x buf with
  | ok p => simp
  | err e => simp
  | panic => exact absurd hx (h.ne_panic buf)

theorem onBuf_post {x : Rd α} {P : α → Prop} (h : SafeP x P) {buf : Bytes} {a : α}
    (e : onBuf x buf = .ok a) : P a := by
  unfold onBuf at e
  cases hx : x buf with
  | ok p => obtain ⟨a', r⟩ := p; rw [hx] at e; cases e; exact h.post hx
  | err e' => rw [hx] at e; cases e
  | panic => rw [hx] at e; cases e

/-! ## primitives -/

theorem idxN_ne_panic {l : List α} {i : Nat} (h : i < l.length) : idxN l i ≠ .panic := by
  unfold idxN; rw [List.getElem?_eq_getElem h]; simp

theorem idxN_ok {l : List α} {i : Nat} {v : α} (h : idxN l i = .ok v) : l[i]? = some v := by
  unfold idxN at h
  cases hl : l[i]? with
  | some w => rw [hl] at h; cases h; rfl
  | none => rw [hl] at h; cases h

theorem idxN_mem {l : List α} {i : Nat} {v : α} (h : idxN l i = .ok v) : v ∈ l :=
  List.mem_of_getElem? (idxN_ok h)

theorem setN_ne_panic {l : List α} {i : Nat} {v : α} (h : i < l.length) : setN l i v ≠ .panic := by
  unfold setN; simp [h]

theorem setN_ok {l l' : List α} {i : Nat} {v : α} (h : setN l i v = .ok l') :
    l' = l.set i v ∧ i < l.length := by
  unfold setN at h
  split at h
  · cases h; exact ⟨rfl, ‹_›⟩
  · cases h

theorem idxA_ne_panic {a : Array α} {i : Nat} (h : i < a.size) : idxA a i ≠ .panic := by
  unfold idxA; rw [Array.getElem?_eq_getElem h]; simp

theorem idxA_ok {a : Array α} {i : Nat} {v : α} (h : idxA a i = .ok v) : a[i]? = some v := by
  unfold idxA at h
  cases hl : a[i]? with
  | some w => rw [hl] at h; cases h; rfl
  | none => rw [hl] at h; cases h

theorem mem_set_of {l : List α} {i : Nat} {v : α} {P : α → Prop}
    (hl : ∀ a ∈ l, P a) (hv : P v) : ∀ a ∈ l.set i v, P a := by
  intro a ha
  rcases List.mem_or_eq_of_mem_set ha with h | h
  · exact hl a h
  · rw [h]; exact hv

theorem allocZeroed_ne_panic (alloc : Nat → Bool) (n : Nat) : allocZeroed alloc n ≠ .panic := by
  unfold allocZeroed; split <;> simp

theorem allocZeroed_ok {alloc : Nat → Bool} {n : Nat} {l : List Nat}
    (h : allocZeroed alloc n = .ok l) : l = List.replicate n 0 := by
  unfold allocZeroed at h
  split at h
  · cases h; rfl
  · cases h

/-! ## the variable-length integers as cursor readers -/

theorem res_bind_ok_inv {x : Res α} {f : α → Res β} {b : β} (h : (x >>= f) = .ok b) :
    ∃ a, x = .ok a ∧ f a = .ok b := by
  cases x with
  | ok a => exact ⟨a, rfl, h⟩
  | err e => cases h
  | panic => cases h

theorem readBE_ok {n : Nat} {s r : Bytes} {v : Nat} (h : Num.readBE n s = .ok (v, r)) :
    r = s.drop n ∧ n ≤ s.length := by
  unfold Num.readBE at h
  split at h
  · cases h
  · simp only [Res.ok.injEq, Prod.mk.injEq] at h
    exact ⟨h.2.symm, by omega⟩

theorem readItf8_ok {s r : Bytes} {v : Int} (h : Num.readItf8 s = .ok (v, r)) :
    r <:+ s ∧ r.length < s.length := by
  unfold Num.readItf8 at h
  obtain ⟨⟨b0, r0⟩, h0, h⟩ := res_bind_ok_inv h
  obtain ⟨hr0, hl0⟩ := readBE_ok h0
  have base : r0 <:+ s ∧ r0.length < s.length := by
    rw [hr0]; exact ⟨List.drop_suffix _ _, by rw [List.length_drop]; omega⟩
  dsimp only at h
  have fin : ∀ r', r' <:+ r0 → r' <:+ s ∧ r'.length < s.length := fun r' h' =>
    ⟨h'.trans base.1, by have := h'.length_le; omega⟩
  repeat' split at h
  all_goals first
    | (simp only [Res.pure_eq, Res.ok.injEq, Prod.mk.injEq] at h
       rw [← h.2]; exact base)
    | (obtain ⟨⟨x, r1⟩, h1, h⟩ := res_bind_ok_inv h
       simp only [Res.pure_eq, Res.ok.injEq, Prod.mk.injEq] at h
       rw [← h.2, (readBE_ok h1).1]; exact fin _ (List.drop_suffix _ _))

theorem readUint7Loop_ok : ∀ (s : Bytes) (n len : Nat) {v : Nat} {r : Bytes},
    Num.readUint7Loop s n len = .ok (v, r) → r <:+ s ∧ r.length < s.length ∧ v < 2^32
  | [], _, _, _, _, h => by simp [Num.readUint7Loop] at h
  | b :: t, n, len, v, r, h => by
    unfold Num.readUint7Loop at h
    split at h
    · cases h
    · dsimp only at h
      split at h
      · simp only [Res.ok.injEq, Prod.mk.injEq] at h
        refine ⟨?_, ?_, ?_⟩
        · rw [← h.2]; exact List.suffix_cons _ _
        · rw [← h.2]; simp
        · rw [← h.1]
          refine Nat.or_lt_two_pow (Nat.mod_lt _ (by decide)) ?_
          exact Nat.lt_of_le_of_lt Nat.and_le_right (by decide)
      · have ih := readUint7Loop_ok t _ _ h
        exact ⟨ih.1.trans (List.suffix_cons _ _), by simp; omega, ih.2.2⟩

theorem safeP_readUint7 : SafeP readUint7 fun n => n < 2^32 where
  ne_panic s := Num.readUint7Loop_ne_panic s 0 0
  suffix h := (readUint7Loop_ok _ _ _ h).1
  post h := (readUint7Loop_ok _ _ _ h).2.2

theorem strict_readUint7 : Strict readUint7 := fun _ _ _ h => (readUint7Loop_ok _ _ _ h).2.1

end Noodles.Hostile.Codec
