import Noodles.Hostile.NameTok
import Noodles.Hostile.CodecKitProof
/-!
# The name tokenizer decoder never panics

For ANY stream decompressor that does not panic itself. Invariant of the name loop: before name
`i` there are `i` names and `i` token lists; `decode_single_name` works on index `n = i` of lists
of length `i + 1` and on `m = n - dist ≤ n`.
-/
namespace Noodles.Hostile.Tok
open Noodles.Hostile Noodles.Hostile.Rd Noodles.Hostile.Codec

/-! ## `Sat` helpers (three-valued Hoare triples, `Noodles/Hostile/Proof.lean`) -/

theorem sat_ok {α : Type} {a : α} {P : α → Prop} (h : P a) : Sat (.ok a) P := h
theorem sat_pure {α : Type} {a : α} {P : α → Prop} (h : P a) : Sat (pure a : Res α) P := h
theorem sat_err {α : Type} {e : Err} {P : α → Prop} : Sat (.err e : Res α) P := trivial

theorem sat_of {α : Type} {x : Res α} {P : α → Prop} (h : x ≠ .panic) (hp : ∀ a, x = .ok a → P a) :
    Sat x P := by
  cases x with
  | ok a => exact hp a rfl
  | err e => trivial
  | panic => exact absurd rfl h

theorem sat_ite {α : Type} {c : Prop} [Decidable c] {x y : Res α} {P : α → Prop}
    (hx : c → Sat x P) (hy : ¬ c → Sat y P) : Sat (if c then x else y) P := by
  split
  · exact hx ‹_›
  · exact hy ‹_›

theorem sat_idxN {α : Type} {l : List α} {i : Nat} (h : i < l.length) :
    Sat (idxN l i) fun _ => True := sat_of (idxN_ne_panic h) fun _ _ => trivial

theorem sat_setN {α : Type} {l : List α} {i : Nat} {v : α} (h : i < l.length) :
    Sat (setN l i v) fun l' => l'.length = l.length :=
  sat_of (setN_ne_panic h) fun l' e => by rw [(setN_ok e).1, List.length_set]

/-! ## readers -/

theorem onSlot_sat {α : Type} {x : Rd α} {P : α → Prop} (hx : SafeP x P) (r : Reader) (ty : Nat) :
    Sat (onSlot x r ty) fun p => P p.1 := by
  unfold onSlot
  cases h : x (r.getD ty []) with
  | ok p => obtain ⟨a, rest⟩ := p; exact hx.post h
  | err e => trivial
  | panic => exact absurd h (hx.ne_panic _)

theorem typeRes_sat (n : Nat) : Sat (typeRes n) fun _ => True := by
  unfold typeRes; split <;> trivial

theorem readType_sat (r : Reader) : Sat (readType r) fun _ => True := by
  unfold readType
  refine Sat.bind (onSlot_sat safeP_readU8 r 0) fun p _ => ?_
  obtain ⟨n, r'⟩ := p
  exact Sat.bind (typeRes_sat n) fun ty _ => sat_pure trivial

theorem readDistance_sat (r : Reader) (ty : Nat) : Sat (readDistance r ty) fun _ => True := by
  unfold readDistance
  exact sat_ite (fun _ => (onSlot_sat safeP_readU32 r ty).ne_panic |> fun h =>
    sat_of h fun _ _ => trivial) fun _ => sat_err

theorem checkedAdd32_sat (n d : Nat) : Sat (checkedAdd32 n d) fun _ => True := by
  unfold checkedAdd32; split <;> trivial

theorem readToken_sat (r : Reader) (prev : Option Token) :
    Sat (readToken r prev) fun _ => True := by
  unfold readToken
  refine Sat.bind (readType_sat r) fun p _ => ?_
  obtain ⟨ty, r⟩ := p
  dsimp only
  repeat' first
    | exact sat_pure trivial
    | exact sat_err
    | refine sat_ite (fun _ => ?_) (fun _ => ?_)
  · exact Sat.bind (onSlot_sat safeP_readU8 r 2) fun _ _ => sat_pure trivial
  · refine Sat.bind (onSlot_sat safeP_readU32 r 7) fun _ _ => sat_pure trivial
  · refine Sat.bind (onSlot_sat safeP_readU32 r 3) fun p _ => ?_
    exact Sat.bind (onSlot_sat safeP_readU8 p.2 4) fun _ _ => sat_pure trivial
  · refine Sat.bind (onSlot_sat safeP_readU8 r 8) fun p _ => ?_
    obtain ⟨delta, r'⟩ := p
    dsimp only
    split
    · exact Sat.bind (checkedAdd32_sat _ _) fun _ _ => sat_pure trivial
    · exact sat_err
  · refine Sat.bind (onSlot_sat safeP_readU8 r 9) fun p _ => ?_
    obtain ⟨delta, r'⟩ := p
    dsimp only
    split
    · exact Sat.bind (checkedAdd32_sat _ _) fun _ _ => sat_pure trivial
    · exact sat_err

/-! ## the container -/

theorem readerGet_ne_panic (r : Reader) (ty : Nat) : r.get ty ≠ .panic := by
  unfold Reader.get; split <;> simp

theorem readerPut_ne_panic (r : Reader) (ty : Nat) (buf : Bytes) : r.put ty buf ≠ .panic := by
  unfold Reader.put; split <;> simp

theorem safeP_liftT {α : Type} {x : Res α} (h : x ≠ .panic) : SafeP (Rd.lift x) fun _ => True :=
  safeP_lift h fun _ _ => trivial

theorem safeP_streamsRest (inner : Nat → Bytes → Res Bytes)
    (hinner : ∀ m b, inner m b ≠ .panic) (alloc : Nat → Bool) (method nNames ttype : Nat) (b : List Reader) :
    SafeP (Rd.lift (typeRes ttype) >>= fun ty =>
      (if ttype &&& 0x80 ≠ 0 then
        if b.length ≥ MAX_TOKEN_COUNT then Rd.fail .invalidData
        else if ty ≠ 0 then
          Rd.lift (allocZeroed alloc nNames) >>= fun _ =>
          Rd.lift (Reader.put Reader.empty 0 (impliedTypes ty nNames)) >>= fun reader =>
          Rd.pure (b ++ [reader])
        else Rd.pure (b ++ [Reader.empty])
      else Rd.pure b : Rd (List Reader)) >>= fun b =>
      (if ttype &&& 0x40 ≠ 0 then
        readU8 >>= fun dupPos => readU8 >>= fun dt => Rd.lift (typeRes dt) >>= fun dupType =>
        match b[dupPos]? with
        | none => Rd.fail .invalidData
        | some reader => Rd.lift (reader.get dupType)
      else
        readUint7 >>= fun csize => splitOff csize >>= fun comp =>
        Rd.lift (inner method comp) : Rd Bytes) >>= fun buf =>
      match b.getLast? with
      | none => Rd.fail .invalidData
      | some reader =>
        Rd.lift (reader.put ty buf) >>= fun reader => Rd.pure (b.dropLast ++ [reader]))
      fun _ => True := by
  refine safeP_bind (safeP_liftT (typeRes_sat ttype).ne_panic) fun ty _ => ?_
  refine safeP_bind (P := fun _ => True) ?_ fun b' _ => ?_
  · refine safeP_ite (fun _ => ?_) fun _ => safeP_pure' trivial
    refine safeP_ite (fun _ => safeP_fail _) fun _ => ?_
    refine safeP_ite (fun _ => ?_) fun _ => safeP_pure' trivial
    refine safeP_bind (safeP_liftT (allocZeroed_ne_panic alloc nNames)) fun _ _ => ?_
    refine safeP_bind (safeP_liftT (readerPut_ne_panic _ _ _)) fun _ _ => ?_
    exact safeP_pure' trivial
  refine safeP_bind (P := fun _ => True) ?_ fun buf _ => ?_
  · refine safeP_ite (fun _ => ?_) fun _ => ?_
    · refine safeP_bind safeP_readU8 fun dupPos _ => ?_
      refine safeP_bind safeP_readU8 fun dt _ => ?_
      refine safeP_bind (safeP_liftT (typeRes_sat dt).ne_panic) fun dupType _ => ?_
      cases b'[dupPos]? with
      | none => exact safeP_fail _
      | some reader => exact safeP_liftT (readerGet_ne_panic _ _)
    · refine safeP_bind safeP_readUint7 fun csize _ => ?_
      refine safeP_bind (safeP_splitOff csize) fun comp _ => ?_
      exact safeP_liftT (hinner method comp)
  cases b'.getLast? with
  | none => exact safeP_fail _
  | some reader =>
    refine safeP_bind (safeP_liftT (readerPut_ne_panic _ _ _)) fun _ _ => ?_
    exact safeP_pure' trivial

theorem streamsStep_eq (inner : Nat → Bytes → Res Bytes) (alloc : Nat → Bool)
    (method nNames : Nat) (b : List Reader) :
    streamsStep inner alloc method nNames b = (readU8 >>= fun ttype =>
      Rd.lift (typeRes ttype) >>= fun ty =>
      (if ttype &&& 0x80 ≠ 0 then
        if b.length ≥ MAX_TOKEN_COUNT then Rd.fail .invalidData
        else if ty ≠ 0 then
          Rd.lift (allocZeroed alloc nNames) >>= fun _ =>
          Rd.lift (Reader.put Reader.empty 0 (impliedTypes ty nNames)) >>= fun reader =>
          Rd.pure (b ++ [reader])
        else Rd.pure (b ++ [Reader.empty])
      else Rd.pure b : Rd (List Reader)) >>= fun b =>
      (if ttype &&& 0x40 ≠ 0 then
        readU8 >>= fun dupPos => readU8 >>= fun dt => Rd.lift (typeRes dt) >>= fun dupType =>
        match b[dupPos]? with
        | none => Rd.fail .invalidData
        | some reader => Rd.lift (reader.get dupType)
      else
        readUint7 >>= fun csize => splitOff csize >>= fun comp =>
        Rd.lift (inner method comp) : Rd Bytes) >>= fun buf =>
      match b.getLast? with
      | none => Rd.fail .invalidData
      | some reader =>
        Rd.lift (reader.put ty buf) >>= fun reader => Rd.pure (b.dropLast ++ [reader])) := rfl

theorem safeP_streamsStep (inner : Nat → Bytes → Res Bytes) (hinner : ∀ m b, inner m b ≠ .panic)
    (alloc : Nat → Bool) (method nNames : Nat) (b : List Reader) :
    SafeP (streamsStep inner alloc method nNames b) fun _ => True := by
  rw [streamsStep_eq]
  exact safeP_bind safeP_readU8 fun ttype _ =>
    safeP_streamsRest inner hinner alloc method nNames ttype b

theorem strict_streamsStep (inner : Nat → Bytes → Res Bytes) (hinner : ∀ m b, inner m b ≠ .panic)
    (alloc : Nat → Bool) (method nNames : Nat) (b : List Reader) :
    Strict (streamsStep inner alloc method nNames b) := by
  rw [streamsStep_eq]
  exact strict_bind_left strict_readU8 safeP_readU8 fun ttype _ =>
    safeP_streamsRest inner hinner alloc method nNames ttype b

theorem safeP_streamsBody (inner : Nat → Bytes → Res Bytes) (hinner : ∀ m b, inner m b ≠ .panic)
    (alloc : Nat → Bool) (method nNames : Nat) (b : List Reader) :
    SafeP (streamsBody inner alloc method nNames b) (Sum.elim (fun _ => True) (fun _ => True)) := by
  unfold streamsBody
  refine safeP_bind (SafeP.triv safe_rest) fun rest _ => ?_
  refine safeP_ite (fun _ => safeP_pure trivial) fun _ => ?_
  refine safeP_bind (safeP_streamsStep inner hinner alloc method nNames b) fun b' _ => ?_
  exact safeP_pure trivial

theorem strict_streamsBody (inner : Nat → Bytes → Res Bytes) (hinner : ∀ m b, inner m b ≠ .panic)
    (alloc : Nat → Bool) (method nNames : Nat) (b : List Reader) (s : Bytes) (b' : List Reader)
    (r : Bytes) (h : streamsBody inner alloc method nNames b s = .ok (.inl b', r)) :
    r.length < s.length := by
  unfold streamsBody at h
  obtain ⟨rest, s1, h1, h2⟩ := bind_ok_inv h
  have hs1 : s1 = s := by
    simp only [Rd.rest, Res.ok.injEq, Prod.mk.injEq] at h1; exact h1.2.symm
  subst hs1
  split at h2
  · simp only [pure_apply, Res.ok.injEq, Prod.mk.injEq] at h2
    cases h2.1
  · obtain ⟨b2, s2, h3, h4⟩ := bind_ok_inv h2
    simp only [pure_apply, Res.ok.injEq, Prod.mk.injEq] at h4
    rw [← h4.2]
    exact strict_streamsStep inner hinner alloc method nNames b _ _ _ h3

/-! ## names -/

/-- the lists of names and token lists have `len` entries -/
def Lens (len : Nat) (st : St) : Prop := st.names.length = len ∧ st.tokens.length = len

theorem tokenLoop_sat {n m len : Nat} (hn : n < len) (hm : m ≤ n) :
    ∀ (k t : Nat) (st : St), Lens len st → Sat (tokenLoop n m k t st) (Lens len)
  | 0, _, _, _ => by unfold tokenLoop; exact sat_err
  | k + 1, t, st, hst => by
    unfold tokenLoop
    refine Sat.bind (sat_idxN (by rw [hst.2]; omega)) fun prevs _ => ?_
    dsimp only
    cases st.b[t]? with
    | none => exact sat_err
    | some reader =>
      dsimp only
      refine Sat.bind (readToken_sat reader _) fun p _ => ?_
      obtain ⟨tok, reader'⟩ := p
      dsimp only
      cases tok with
      | none => exact sat_pure hst
      | some token =>
        dsimp only
        refine Sat.bind (sat_idxN (by rw [hst.1]; exact hn)) fun name _ => ?_
        refine Sat.bind (sat_setN (by rw [hst.1]; exact hn)) fun names hnames => ?_
        refine Sat.bind (sat_idxN (by rw [hst.2]; exact hn)) fun toks _ => ?_
        refine Sat.bind (sat_setN (by rw [hst.2]; exact hn)) fun tokens htokens => ?_
        exact tokenLoop_sat hn hm k (t + 1) _ ⟨by rw [hnames]; exact hst.1, by rw [htokens]; exact hst.2⟩

theorem decodeSingleName_sat {n len : Nat} (hn : n < len) (st : St) (hst : Lens len st) :
    Sat (decodeSingleName st n) fun p => Lens len p.1 := by
  unfold decodeSingleName
  cases hb : st.b with
  | nil => exact sat_err
  | cons reader rest =>
    dsimp only
    refine Sat.bind (readType_sat reader) fun p _ => ?_
    obtain ⟨ty, reader1⟩ := p
    dsimp only
    refine Sat.bind (readDistance_sat reader1 ty) fun p _ => ?_
    obtain ⟨dist, reader2⟩ := p
    dsimp only
    refine sat_ite (fun _ => sat_err) fun hd => ?_
    refine sat_ite (fun _ => ?_) fun _ => ?_
    · refine Sat.bind (sat_idxN (by rw [hst.1]; omega)) fun name _ => ?_
      refine Sat.bind (sat_setN (by rw [hst.1]; exact hn)) fun names hnames => ?_
      refine Sat.bind (sat_idxN (by rw [hst.2]; omega)) fun toks _ => ?_
      refine Sat.bind (sat_setN (by rw [hst.2]; exact hn)) fun tokens htokens => ?_
      refine Sat.bind (sat_idxN (by rw [hnames, hst.1]; exact hn)) fun name' _ => ?_
      exact sat_pure ⟨by rw [hnames]; exact hst.1, by rw [htokens]; exact hst.2⟩
    · refine Sat.bind (tokenLoop_sat hn (Nat.sub_le n dist) _ 1 _ ⟨hst.1, hst.2⟩) fun _ hst' => ?_
      refine Sat.bind (sat_idxN (by rw [hst'.1]; exact hn)) fun name _ => ?_
      exact sat_pure hst'

theorem nameStep_sat (i : Nat) (p : St × List Bytes) (hp : Lens i p.1) :
    Sat (nameStep i p) fun p' => Lens (i + 1) p'.1 := by
  unfold nameStep
  dsimp only
  refine Sat.bind (decodeSingleName_sat (n := i) (len := i + 1) (by omega) _
    ⟨by simp [hp.1], by simp [hp.2]⟩) fun q hq => ?_
  exact sat_pure hq

theorem names_ne_panic (nNames : Nat) (b : List Reader) :
    forR nameStep nNames 0 ({ b := b, names := [], tokens := [] }, []) ≠ .panic :=
  (forR_inv (I := fun i p => Lens i p.1) (fun i st h =>
    ⟨(nameStep_sat i st h).ne_panic, fun _ e => (nameStep_sat i st h).of_ok e⟩)
    nNames 0 _ ⟨rfl, rfl⟩).1

/-! ## `decode` -/

theorem safeP_decodeRd (inner : Nat → Bytes → Res Bytes) (hinner : ∀ m b, inner m b ≠ .panic)
    (alloc : Nat → Bool) : SafeP (decodeRd inner alloc) fun _ => True := by
  unfold decodeRd
  refine safeP_bind safeP_readU32 fun usize _ => ?_
  refine safeP_bind safeP_readU32 fun nNames _ => ?_
  refine safeP_bind safeP_readU8 fun m _ => ?_
  dsimp only
  refine safeP_bind (P := fun _ => True) (safeP_loop (I := fun _ => True) (Q := fun _ => True)
    (fun b _ => safeP_streamsBody inner hinner alloc _ nNames b)
    (fun b s b' r _ h => strict_streamsBody inner hinner alloc _ nNames b s b' r h) trivial)
    fun b _ => ?_
  refine safeP_bind (safeP_liftT (allocZeroed_ne_panic alloc usize)) fun _ _ => ?_
  refine safeP_bind (safeP_liftT (names_ne_panic nNames b)) fun r _ => ?_
  exact safeP_pure trivial

/-- `name_tokenizer::decode`, on any byte string, with any stream decompressor that does not
itself panic and under any allocator behaviour, answers bytes or an error -/
theorem decode_ne_panic (inner : Nat → Bytes → Res Bytes) (hinner : ∀ m b, inner m b ≠ .panic)
    (alloc : Nat → Bool) (src : Bytes) : decode inner alloc src ≠ .panic :=
  onBuf_ne_panic (safeP_decodeRd inner hinner alloc) src

end Noodles.Hostile.Tok
