import Noodles.Hostile.CodecKit
/-!
# Name tokenizer decoder on arbitrary bytes (C15)

Transcribed from noodles-cram `src/codecs/name_tokenizer/decode.rs` (`decode`,
`TokenReader::{get, get_mut, set, read_type, read_distance, read_token}`,
`decode_token_byte_streams`, `decode_single_name`, `split_off`), `decode/header.rs`
(`read_header`) and `name_tokenizer.rs` (`Type::try_from`), as they are after the hardening
commit b8ecbd9.

The decompressor of a token byte stream (`rans_nx16::decode(buf, 0)` / `aac::decode(buf, 0)`) is
the parameter `inner : method → compressed bytes → Res Bytes`; the theorems assume only that it
does not panic (it may return any bytes or any error). For method 0 the rANS Nx16 model of
`RansNx16.lean` is such a function (`Props.C15.name_tokenizer_rans_decode_total_no_panic`).

A `TokenReader` is ten `Cursor<Vec<u8>>`; while the container is parsed nothing has been read,
so a cursor is its buffer, and while names are decoded only what is left of each buffer matters:
a reader is the list of the ten remaining byte strings, indexed by the type code. The struct is
accessed through `match`es on the type (no indexing in the Rust), hence the total `getD`/`set`
here; `Match`, `Nop`, `End` have no stream (`invalid_byte_stream_type`).
-/
namespace Noodles.Hostile.Tok
open Noodles.Hostile Noodles.Hostile.Rd Noodles.Hostile.Codec

/-- `MAX_TOKEN_COUNT` -/
def MAX_TOKEN_COUNT : Nat := 128

/-! ## types and readers -/

/-- `Type::try_from(n)`: the code `n & 0x3f`, at most 12 -/
def typeOf (n : Nat) : Option Nat := if n &&& 0x3f ≤ 12 then some (n &&& 0x3f) else none

/-- `Type::try_from(n).map_err(InvalidData)` -/
def typeRes (n : Nat) : Res Nat :=
  match typeOf n with
  | some t => .ok t
  | none => .err .invalidData

abbrev Reader := List Bytes

/-- `TokenReader::default()` -/
def Reader.empty : Reader := List.replicate 10 []

/-- `TokenReader::get(ty)`: the stream of a type; `Match` (10), `Nop` (11), `End` (12) have none -/
def Reader.get (r : Reader) (ty : Nat) : Res Bytes :=
  if ty < 10 then .ok (r.getD ty []) else .err .invalidData

/-- `TokenReader::set(ty, buf)` -/
def Reader.put (r : Reader) (ty : Nat) (buf : Bytes) : Res Reader :=
  if ty < 10 then .ok (r.set ty buf) else .err .invalidData

/-- run a cursor reader on the stream of type `ty` of a token reader (`ty < 10`) -/
def onSlot {α : Type} (x : Rd α) (r : Reader) (ty : Nat) : Res (α × Reader) :=
  match x (r.getD ty []) with
  | .ok (a, rest) => .ok (a, r.set ty rest)
  | .err e => .err e
  | .panic => .panic

/-- `TokenReader::read_type`: a byte of the type stream, as a type -/
def readType (r : Reader) : Res (Nat × Reader) := do
  let (n, r) ← onSlot readU8 r 0
  let ty ← typeRes n
  pure (ty, r)

/-- `TokenReader::read_distance(ty)`: only for `Dup` (5) and `Diff` (6); a `u32` of that stream -/
def readDistance (r : Reader) (ty : Nat) : Res (Nat × Reader) :=
  if ty = 5 ∨ ty = 6 then onSlot readU32 r ty else .err .invalidData

/-! ## tokens -/

inductive Token
  | char (c : UInt8)
  | str (s : Bytes)
  | digits (d : Nat)
  | padded (d w : Nat)
  | nop
  deriving Repr, DecidableEq

/-- `BufRead::read_until(0x00, &mut buf)` on a cursor: the bytes up to and including the first
NUL, or everything when there is none -/
def readUntilNul : Bytes → Bytes × Bytes
  | [] => ([], [])
  | b :: rest =>
    if b = 0 then ([b], rest)
    else let p := readUntilNul rest; (b :: p.1, p.2)

/-- `n.checked_add(delta)` on `u32`, `invalid_delta` on overflow -/
def checkedAdd32 (n d : Nat) : Res Nat :=
  if n + d ≤ 4294967295 then .ok (n + d) else .err .invalidData

/-- `TokenReader::read_token(prev_token)`: `Ok(None)` ends the name -/
def readToken (r : Reader) (prev : Option Token) : Res (Option Token × Reader) := do
  let (ty, r) ← readType r
  if ty = 2 then                                               -- Char
    let (c, r) ← onSlot readU8 r 2
    pure (some (.char (UInt8.ofNat c)), r)
  else if ty = 1 then                                          -- String
    let p := readUntilNul (r.getD 1 [])
    -- `buf.pop()`: the NUL, or the last byte of an unterminated string, or nothing
    pure (some (.str p.1.dropLast), r.set 1 p.2)
  else if ty = 7 then                                          -- Digits
    let (d, r) ← onSlot readU32 r 7
    pure (some (.digits d), r)
  else if ty = 3 then                                          -- Digits0
    let (d, r) ← onSlot readU32 r 3
    let (l, r) ← onSlot readU8 r 4
    pure (some (.padded d l), r)
  else if ty = 8 then                                          -- Delta
    let (delta, r) ← onSlot readU8 r 8
    match prev with
    | some (.digits n) => do
      let m ← checkedAdd32 n delta
      pure (some (.digits m), r)
    | _ => .err .invalidData
  else if ty = 9 then                                          -- Delta0
    let (delta, r) ← onSlot readU8 r 9
    match prev with
    | some (.padded n w) => do
      let m ← checkedAdd32 n delta
      pure (some (.padded m w), r)
    | _ => .err .invalidData
  else if ty = 10 then pure (prev, r)                          -- Match: `prev_token.cloned()`
  else if ty = 12 then pure (none, r)                          -- End
  else pure (some .nop, r)                                     -- Type, DZLen, Dup, Diff, Nop

/-- decimal digits of a `u32` (`write!(name, "{d}")`) -/
def decimal (d : Nat) : Bytes := (Nat.toDigits 10 d).map fun c => UInt8.ofNat c.toNat

/-- what a token appends to the name; `{:0width$}` pads with zeros on the left, never truncates -/
def render : Token → Bytes
  | .char c => [c]
  | .str s => s
  | .digits d => decimal d
  | .padded d w => List.replicate (w - (decimal d).length) 0x30 ++ decimal d
  | .nop => []

/-! ## the container: `decode_token_byte_streams` -/

/-- the type stream made up for a new token whose first stream is not `Type`:
`alloc_zeroed(n_names)`, `fill(Match)`, first byte = the type -/
def impliedTypes (ty nNames : Nat) : Bytes :=
  match List.replicate nNames (10 : UInt8) with
  | [] => []
  | _ :: t => UInt8.ofNat ty :: t

/-- the body of `while !src.is_empty() { … }`: one token byte stream is read and stored -/
def streamsStep (inner : Nat → Bytes → Res Bytes) (alloc : Nat → Bool) (method nNames : Nat)
    (b : List Reader) : Rd (List Reader) := do
  let ttype ← readU8
  let ty ← Rd.lift (typeRes ttype)
  let b ←
    (if ttype &&& 0x80 ≠ 0 then
      if b.length ≥ MAX_TOKEN_COUNT then Rd.fail .invalidData
      else if ty ≠ 0 then do
        let _ ← Rd.lift (allocZeroed alloc nNames)
        let reader ← Rd.lift (Reader.put Reader.empty 0 (impliedTypes ty nNames))
        Rd.pure (b ++ [reader])
      else Rd.pure (b ++ [Reader.empty])
    else Rd.pure b : Rd (List Reader))
  let buf ←
    (if ttype &&& 0x40 ≠ 0 then do
      let dupPos ← readU8
      let dt ← readU8
      let dupType ← Rd.lift (typeRes dt)
      match b[dupPos]? with
      | none => Rd.fail .invalidData
      | some reader => Rd.lift (reader.get dupType)
    else do
      let csize ← readUint7
      let comp ← splitOff csize
      Rd.lift (inner method comp) : Rd Bytes)
  -- `b.last_mut().ok_or("missing new token flag")?` then `reader.set(ty, buf)?`
  match b.getLast? with
  | none => Rd.fail .invalidData
  | some reader => do
    let reader ← Rd.lift (reader.put ty buf)
    Rd.pure (b.dropLast ++ [reader])

/-- one iteration of the `while`, with its test; `inl` = next iteration, `inr` = done -/
def streamsBody (inner : Nat → Bytes → Res Bytes) (alloc : Nat → Bool) (method nNames : Nat)
    (b : List Reader) : Rd (List Reader ⊕ List Reader) := do
  let rest ← Rd.rest
  if rest.isEmpty then
    return .inr b
  else
    let b ← streamsStep inner alloc method nNames b
    return .inl b

/-! ## names: `decode_single_name` -/

/-- the state while names are decoded: token readers, names so far, their tokens -/
structure St where
  b : List Reader
  names : List Bytes
  tokens : List (List (Option Token))

/-- the token loop of `decode_single_name` with `k = MAX_TOKEN_COUNT - t` iterations left before
`too_many_tokens` -/
def tokenLoop (n m : Nat) : Nat → Nat → St → Res St
  | 0, _, _ => .err .invalidData                               -- `t >= MAX_TOKEN_COUNT`
  | k + 1, t, st => do
    let prevs ← idxN st.tokens m                               -- `tokens[m]`
    let prev := (prevs[t]?).join                               -- `.get(t).and_then(|t| t.as_ref())`
    match st.b[t]? with                                        -- `b.get_mut(t).ok_or(..)?`
    | none => .err .invalidData
    | some reader => do
      let (tok, reader) ← readToken reader prev
      let st := { st with b := st.b.set t reader }
      match tok with
      | none => pure st
      | some token => do
        let name ← idxN st.names n                             -- `names[n]`
        let names ← setN st.names n (name ++ render token)
        let toks ← idxN st.tokens n                            -- `tokens[n].push(Some(token))`
        let tokens ← setN st.tokens n (toks ++ [some token])
        tokenLoop n m k (t + 1) { st with names := names, tokens := tokens }

/-- `decode_single_name(b, names, tokens, n)`: the new state and the name -/
def decodeSingleName (st : St) (n : Nat) : Res (St × Bytes) :=
  match st.b with
  | [] => .err .invalidData                                    -- `b.first_mut().ok_or(..)?`
  | reader :: rest => do
    let (ty, reader) ← readType reader
    let (dist, reader) ← readDistance reader ty
    let st := { st with b := reader :: rest }
    if dist > n then .err .invalidData                         -- `n.checked_sub(dist)`
    else
      let m := n - dist
      if ty = 5 then do                                        -- Dup
        let name ← idxN st.names m
        let names ← setN st.names n name
        let toks ← idxN st.tokens m
        let tokens ← setN st.tokens n toks
        let name ← idxN names n
        pure ({ st with names := names, tokens := tokens }, name)
      else do
        let st ← tokenLoop n m (MAX_TOKEN_COUNT - 1) 1 st
        let name ← idxN st.names n
        pure (st, name)

/-- one round of `for i in 0..name_count`: push an empty name and `vec![None]`, decode the name,
append it and a NUL to the output (kept as a reversed list of pieces) -/
def nameStep (i : Nat) (p : St × List Bytes) : Res (St × List Bytes) := do
  let st := { p.1 with names := p.1.names ++ [[]], tokens := p.1.tokens ++ [[none]] }
  let (st, name) ← decodeSingleName st i
  pure (st, (name ++ [0]) :: p.2)

/-! ## `decode` -/

/-- `name_tokenizer::decode`. `read_header`: uncompressed size and name count (`u32`), the
compression method byte (0 = rANS Nx16, anything else = adaptive arithmetic coder). The output
buffer is `try_reserve_exact(uncompressed_size)`d, an error when refused. -/
def decodeRd (inner : Nat → Bytes → Res Bytes) (alloc : Nat → Bool) : Rd Bytes := do
  let usize ← readU32
  let nNames ← readU32
  let m ← readU8
  let method := if m = 0 then 0 else 1
  let b ← loop (streamsBody inner alloc method nNames) []
  let _ ← Rd.lift (allocZeroed alloc usize)
  let r ← Rd.lift (forR nameStep nNames 0 ({ b := b, names := [], tokens := [] }, []))
  return r.2.reverse.flatten

def decode (inner : Nat → Bytes → Res Bytes) (alloc : Nat → Bool) (src : Bytes) : Res Bytes :=
  onBuf (decodeRd inner alloc) src

end Noodles.Hostile.Tok
