import Noodles.Hostile.TextKit
/-!
# FASTQ records and FASTA definitions / sequences, with the indexing explicit

* noodles-fastq `io/reader/record.rs` — `read_record`, `read_line`, `consume_plus_line`,
  `consume_line`, `read_u8`; `io/reader/record/definition.rs` — `read_definition`
  (`memchr3(b' ', b'\t', b'\n')`, `src[i]`, `&src[..i]`, the `unreachable!()` arm)
* noodles-fasta `io/reader/definition.rs` — `parse_definition` (`split_off_first`,
  `position(is_ascii_whitespace)`, `split_off(..i).unwrap()`, `trim_ascii`);
  `io/reader/sequence.rs` — the `BufRead` view of a sequence (`consume_empty_lines`, `src[0]`,
  `memchr(b'\n')`, `&src[..i]`, `line.len() - 1`, `&line[..end]`) and `read_sequence`
  (`read_to_end` over it)

All on a slice reader: `fill_buf` is the whole remaining input.
-/
namespace Noodles.Hostile.FastxText
open Noodles.Hostile Noodles.Hostile.Text

/-- `read_line` into an empty buffer: the line without LF / CRLF, the byte count, the rest -/
def readLine (src : Bytes) : Bytes × Nat × Bytes := readLineInto true src []

/-! ## FASTQ -/

structure Fastq where
  name : Bytes
  description : Bytes
  sequence : Bytes
  quality : Bytes
  deriving Repr, DecidableEq

/-- `read_definition` after the `@`: `some` = (name, description, count, rest) -/
def readDefinitionBody (src : Bytes) : Res (Bytes × Bytes × Nat × Bytes) :=
  if src.isEmpty then .ok ([], [], 0, [])
  else
    match findIdx (fun b => b == 32 || b == 9 || b == 10) src with
    | some i => do
      let m ← index src i
      let nameSrc ← sliceTo src i
      -- `match src[i] { SPACE | HORIZONTAL_TAB => …, LINE_FEED => …, _ => unreachable!() }`
      assert (m == 32 || m == 9 || m == 10)
      let n ← uadd i 1
      let rest ← sliceFrom src n
      if m == 10 then .ok (popIf nameSrc CR, [], n, rest)
      else
        let (d, k, rest') := readLine rest
        do
          let n' ← uadd n k
          .ok (nameSrc, d, n', rest')
    | none => do
      -- the name runs to the end of the input; `read_line` then reads nothing
      let rest ← sliceFrom src src.length
      .ok (src, [], src.length, rest)

/-- `read_record`: `none` = end of input (`Ok(0)`) -/
def readFastq (src : Bytes) : Res (Option (Fastq × Nat)) :=
  match src with
  | [] => .ok none
  | p :: src =>
    if p ≠ 64 then .err .invalidData
    else do
      let (name, desc, n, src) ← readDefinitionBody src
      let len ← uadd 1 n
      let (sq, k, src) := readLine src
      let len ← uadd len k
      -- `consume_plus_line`
      match src with
      | [] => .err .eof
      | q :: src =>
        if q ≠ 43 then .err .invalidData
        else do
          let k ← (match findIdx (fun b => b == LF) src with
            | some i => uadd i 1
            | none => .ok src.length : Res Nat)
          let src ← sliceFrom src k
          let k1 ← uadd k 1
          let len ← uadd len k1
          let (qual, k, _) := readLine src
          let len ← uadd len k
          .ok (some (⟨name, desc, sq, qual⟩, len))

/-! ## FASTA -/

def isAsciiWhitespace (b : UInt8) : Bool := b == 32 || b == 9 || b == 10 || b == 12 || b == 13

/-- `<[u8]>::trim_ascii` -/
def trimAscii (s : Bytes) : Bytes :=
  ((s.dropWhile isAsciiWhitespace).reverse.dropWhile isAsciiWhitespace).reverse

/-- `parse_definition` on the definition line: (name, description) -/
def parseDefinition (src : Bytes) : Res (Bytes × Bytes) :=
  match src with
  | [] => .err .invalidData
  | p :: src =>
    if p ≠ 62 then .err .invalidData
    else do
      let i := (findIdx isAsciiWhitespace src).getD src.length
      -- `src.split_off(..i).unwrap()`: `None` when `i > src.len()`
      let (name, rest) ← unwrap (if i ≤ src.length then some (src.take i, src.drop i) else none)
      if name.isEmpty then .err .invalidData else .ok (name, trimAscii rest)

/-- `read_definition`: `none` = end of input -/
def readDefinition (src : Bytes) : Res (Option ((Bytes × Bytes) × Nat × Bytes)) :=
  let (line, n, rest) := readLine src
  if n = 0 then .ok none
  else do
    let d ← parseDefinition line
    .ok (some (d, n, rest))

/-- `if src.starts_with(&[b]) { consume(1) }` -/
def dropIf (b : UInt8) (s : Bytes) : Bytes := if s.head? == some b then s.tail else s

/-- `consume_empty_lines`: leading CR / LF bytes are dropped (one CR, then one LF, repeatedly) -/
def consumeEmptyLines : Nat → Bytes → Bytes
  | 0, s => s
  | fuel + 1, s =>
    let s2 := dropIf 10 (dropIf 13 s)
    if s2.length = s.length then s else consumeEmptyLines fuel s2

/-- one `fill_buf` of the sequence view: the next piece of sequence (empty at the end of the
input or before a `>`), and the input it leaves after `consume(piece.len())` -/
def fillBuf (src : Bytes) : Res (Bytes × Bytes) :=
  let src := consumeEmptyLines (src.length + 1) src
  if src.isEmpty then .ok ([], src)
  else do
    -- `src[0] == DEFINITION_PREFIX`
    let b ← index src 0
    if b == 62 then .ok ([], src)
    else do
      let line ← (match findIdx (fun b => b == LF) src with
        | some i => sliceTo src i
        | none => .ok src : Res Bytes)
      if endsWith line CR then do
        let e ← usub line.length 1
        let piece ← sliceTo line e
        let rest ← sliceFrom src piece.length
        .ok (piece, rest)
      else do
        let rest ← sliceFrom src line.length
        .ok (line, rest)

/-- the view driven piece by piece — `fill_buf()`, `consume(piece.len())` until an empty piece —
through the public `Reader::sequence_reader()`. `read_sequence` is `read_to_end` over the same
view; std consumes a piece in chunks of its own buffer size, which gives the same bytes on
well-formed lines and is window-dependent on a `>` or a bare CR inside a line (known finding of
C12; covered by the oracle only). -/
def readSequence : Nat → Bytes → Res (Bytes × Bytes)
  | 0, src => .ok ([], src)
  | fuel + 1, src => do
    let (piece, rest) ← fillBuf src
    if piece.isEmpty then .ok ([], rest)
    else do
      let (sq, rest') ← readSequence fuel rest
      .ok (piece ++ sq, rest')

/-- `read_definition`, then the sequence view to its end -/
def readFasta (src : Bytes) : Res (Option ((Bytes × Bytes) × Bytes)) := do
  match (← readDefinition src) with
  | none => .ok none
  | some (d, _, rest) => do
    let (sq, _) ← readSequence (rest.length + 1) rest
    .ok (some (d, sq))

end Noodles.Hostile.FastxText
