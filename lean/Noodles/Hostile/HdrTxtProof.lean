import Noodles.Hostile.Proof
import Noodles.Hostile.TextKitProof
import Noodles.Hostile.SamHeaderText
import Noodles.Hostile.VcfHeaderText
/-! Helper lemmas for `Noodles/Props/C15HdrTxt.lean`: the SAM and VCF header text parsers. Every
lemma has the shape `Sat (f src) (fun out => rest of out is no longer than src)`: no panic, and the
measure the enclosing loop's fuel argument needs. -/
namespace Noodles.Hostile
open Res Noodles.Hostile.Text

theorem splitAt_ok' {s : Bytes} {i : Nat} (h : i ≤ s.length) : splitAt s i = .ok (s.take i, s.drop i) := by
  simp [splitAt, h]

theorem Sat.mono {α : Type} {x : Res α} {P Q : α → Prop} (h : Sat x P) (hpq : ∀ a, P a → Q a) : Sat x Q := by
  cases x with
  | ok a => exact hpq a h
  | err e => trivial
  | panic => exact h

theorem Sat.of_ne_panic {α : Type} {x : Res α} (h : x ≠ .panic) : Sat x (fun _ => True) := by
  cases x with
  | ok a => trivial
  | err e => trivial
  | panic => exact h rfl

theorem Sat.err {α : Type} {P : α → Prop} (e : Err) : Sat (Res.err e : Res α) P := trivial
theorem Sat.ok {α : Type} {P : α → Prop} {a : α} (h : P a) : Sat (Res.ok a) P := h

namespace SamHdr

theorem consumeByte_sat (w : UInt8) (src : Bytes) :
    Sat (consumeByte w src) (fun r => r.length < src.length) := by
  cases src with
  | nil => exact Sat.err _
  | cons b r =>
    simp only [consumeByte]
    split
    · exact Sat.ok (by simp)
    · exact Sat.err _

theorem parseKind_sat (src : Bytes) : Sat (parseKind src) (fun p => p.2.length ≤ src.length) := by
  unfold parseKind
  split
  · exact Sat.err _
  · split
    · exact Sat.err _
    · rename_i h
      rw [splitAt_ok' (by omega)]
      simp only [bind_ok]
      split <;> first | exact Sat.err _ | exact Sat.ok (by simp)

theorem parseComment_ne_panic (src : Bytes) : parseComment src ≠ .panic := by
  unfold parseComment
  apply bind_ne_panic (consumeByte_sat _ _).ne_panic
  intro a _
  rw [splitAt_ok' (Nat.le_refl _)]
  simp

theorem parseTag_sat (src : Bytes) : Sat (parseTag src) (fun p => p.2.length ≤ src.length) := by
  unfold parseTag
  split
  · exact Sat.ok (by simp; omega)
  · exact Sat.err _

theorem parseValue_sat (src : Bytes) :
    Sat (parseValue src) (fun p => p.1.length ≤ src.length ∧ p.2.length ≤ src.length) := by
  unfold parseValue
  have hi : (findIdx (fun b => b == TAB) src).getD src.length ≤ src.length := by
    cases h : findIdx (fun b => b == TAB) src with
    | none => simp
    | some i => have := findIdx_lt h; simp; omega
  simp only [splitAt_ok' hi, bind_ok]
  split
  · exact Sat.err _
  · exact Sat.ok (by simp; omega)

theorem parseVersion_ne_panic (L : Lex) (src : Bytes) (hlen : src.length < 2 ^ 63) :
    parseVersion L src ≠ .panic := by
  unfold parseVersion
  split
  · simp
  · rename_i i h
    have hi := findIdx_lt h
    rw [sliceTo_ok (by omega), uadd_ok (by simp only [USIZE]; omega)]
    simp only [bind_ok]
    rw [sliceFrom_ok (by omega)]
    simp only [bind_ok]
    split
    · simp
    · split <;> simp

theorem parseLength_sat (L : Lex) (hL : L.Lawful) (src : Bytes) :
    Sat (parseLength L src) (fun p => p.2.length ≤ src.length) := by
  unfold parseLength
  split
  · exact Sat.err _
  · rename_i n i h
    have := hL _ _ _ h
    rw [sliceFrom_ok this]
    simp only [bind_ok]
    split
    · exact Sat.err _
    · exact Sat.ok (by simp)

theorem dupCheck_ne_panic (a b : Bool) : Sat (dupCheck a b) (fun _ => True) := by
  unfold dupCheck; split
  · exact Sat.err _
  · exact Sat.ok trivial

theorem fieldStep_sat (L : Lex) (hL : L.Lawful) (ad : Bool) (kind : Kind) (src : Bytes) (st : MapSt)
    (hlen : src.length < 2 ^ 63) :
    Sat (fieldStep L ad kind src st) (fun p => p.2.length < src.length) := by
  unfold fieldStep
  apply Sat.bind (consumeByte_sat TAB src); intro s1 h1
  apply Sat.bind (parseTag_sat s1); intro ⟨tag, s2⟩ h2
  apply Sat.bind (consumeByte_sat 58 s2); intro s3 h3
  simp only at h2 h3 ⊢
  split
  · apply Sat.bind (parseValue_sat s3); intro ⟨buf, s4⟩ h4
    simp only at h4 ⊢
    apply Sat.bind (Sat.of_ne_panic (parseVersion_ne_panic L buf (by omega))); intro v _
    apply Sat.bind (dupCheck_ne_panic _ _); intro _ _
    exact Sat.ok (by simp only; omega)
  · split
    · apply Sat.bind (parseValue_sat s3); intro ⟨buf, s4⟩ h4
      simp only at h4 ⊢
      apply Sat.bind (dupCheck_ne_panic _ _); intro _ _
      exact Sat.ok (by simp only; omega)
    · split
      · apply Sat.bind (parseLength_sat L hL s3); intro ⟨n, s4⟩ h4
        simp only at h4 ⊢
        apply Sat.bind (dupCheck_ne_panic _ _); intro _ _
        exact Sat.ok (by simp only; omega)
      · apply Sat.bind (parseValue_sat s3); intro ⟨buf, s4⟩ h4
        simp only at h4 ⊢
        apply Sat.bind (dupCheck_ne_panic _ _); intro _ _
        exact Sat.ok (by simp only; omega)

/-- the loop ends before its fuel does, and never panics -/
theorem fieldLoop_ne_panic (L : Lex) (hL : L.Lawful) (ad : Bool) (kind : Kind) :
    ∀ (fuel : Nat) (src : Bytes) (st : MapSt), src.length < fuel → src.length < 2 ^ 63 →
      fieldLoop L ad kind fuel src st ≠ .panic
  | 0, _, _, h, _ => by omega
  | fuel + 1, src, st, h, hlen => by
    unfold fieldLoop
    split
    · simp
    · apply bind_ne_panic (fieldStep_sat L hL ad kind src st hlen).ne_panic
      intro ⟨st', rest⟩ e
      have := (fieldStep_sat L hL ad kind src st hlen).of_ok e
      simp only at this ⊢
      exact fieldLoop_ne_panic L hL ad kind fuel rest st' (by omega) (by omega)

theorem parseRecordValue_ne_panic (L : Lex) (hL : L.Lawful) (ad : Bool) (kind : Kind) (src : Bytes)
    (hlen : src.length < 2 ^ 63) : parseRecordValue L ad kind src ≠ .panic := by
  have hloop := fun k => fieldLoop_ne_panic L hL ad k (src.length + 1) src {} (by omega) hlen
  cases kind <;> simp only [parseRecordValue]
  · apply bind_ne_panic (hloop _); intro st _; split <;> simp
  · apply bind_ne_panic (hloop _); intro st _; split <;> simp
  · apply bind_ne_panic (hloop _); intro st _; split <;> simp
  · apply bind_ne_panic (hloop _); intro st _; split <;> simp
  · apply bind_ne_panic (parseComment_ne_panic src); intro p _; simp

theorem parseRecord_ne_panic (L : Lex) (hL : L.Lawful) (ad : Bool) (src : Bytes)
    (hlen : src.length < 2 ^ 63) : parseRecord L ad src ≠ .panic := by
  unfold parseRecord
  apply bind_ne_panic (consumeByte_sat 64 src).ne_panic; intro s1 e1
  have h1 := (consumeByte_sat 64 src).of_ok e1
  apply bind_ne_panic (parseKind_sat s1).ne_panic; intro ⟨k, s2⟩ e2
  have h2 := (parseKind_sat s1).of_ok e2
  simp only at h2 ⊢
  exact parseRecordValue_ne_panic L hL ad k s2 (by omega)

theorem stripPrefix_length : ∀ (p s r : Bytes), stripPrefix p s = some r → r.length ≤ s.length
  | [], s, r, h => by simp [stripPrefix] at h; subst h; exact Nat.le_refl _
  | _ :: _, [], r, h => by simp [stripPrefix] at h
  | a :: ps, b :: t, r, h => by
    simp only [stripPrefix] at h
    split at h
    · have := stripPrefix_length ps t r h; simp; omega
    · cases h

theorem splitOn_length_le (d : UInt8) : ∀ (s p : Bytes), p ∈ Text.splitOn d s → p.length ≤ s.length
  | [], p, h => by simp [Text.splitOn] at h; subst h; simp
  | b :: r, p, h => by
    simp only [Text.splitOn] at h
    split at h
    · rcases List.mem_cons.mp h with h | h
      · subst h; simp
      · have := splitOn_length_le d r p h; simp; omega
    · split at h
      · simp at h; subst h; simp
      · rename_i hd tl e
        rcases List.mem_cons.mp h with h | h
        · subst h
          have := splitOn_length_le d r hd (by rw [e]; simp)
          simp; omega
        · have := splitOn_length_le d r p (by rw [e]; simp [h])
          simp; omega

theorem extractVersion_ne_panic (L : Lex) (src : Bytes) (hlen : src.length < 2 ^ 63) :
    extractVersion L src ≠ .panic := by
  unfold extractVersion
  split
  · simp
  · rename_i raw hraw
    have hr := stripPrefix_length _ _ _ hraw
    split
    · simp
    · rename_i s tl e
      have hs : s ∈ (Text.splitOn TAB raw).filterMap (stripPrefix [86, 78, 58]) := by rw [e]; simp
      obtain ⟨piece, hp, hsp⟩ := List.mem_filterMap.mp hs
      have h1 := splitOn_length_le TAB raw piece hp
      have h2 := stripPrefix_length _ _ _ hsp
      have := parseVersion_ne_panic L s (by omega)
      split <;> simp_all

theorem parsePartial_ne_panic (L : Lex) (hL : L.Lawful) (p : Parser) (src : Bytes)
    (hlen : src.length < 2 ^ 63) : parsePartial L p src ≠ .panic := by
  unfold parsePartial
  apply bind_ne_panic
  · split
    · apply bind_ne_panic (extractVersion_ne_panic L src hlen)
      intro v _; split <;> simp
    · simp
  · intro p' _
    apply bind_ne_panic (parseRecord_ne_panic L hL _ src hlen)
    intro r _
    split <;> (try split) <;> simp

theorem parseLines_ne_panic (L : Lex) (hL : L.Lawful) :
    ∀ (ls : List Bytes) (p : Parser) (k : Nat), (∀ l ∈ ls, l.length < 2 ^ 63) →
      (parseLines L p k ls).1 ≠ .panic
  | [], p, k, _ => by simp [parseLines]
  | l :: ls, p, k, h => by
    simp only [parseLines]
    have := parsePartial_ne_panic L hL p l (h l (by simp))
    split
    · exact parseLines_ne_panic L hL ls _ _ (fun x hx => h x (by simp [hx]))
    · simp
    · rename_i e; exact absurd e this

theorem popIf_length_le (v : Bytes) (b : UInt8) : (popIf v b).length ≤ v.length := by
  unfold popIf; split <;> simp

theorem lines_length_le (s l : Bytes) (h : l ∈ lines s) : l.length ≤ s.length := by
  unfold lines at h
  simp only at h
  have hbody : ∀ x ∈ (Text.splitOn LF s).dropLast.map (fun l => popIf l CR), x.length ≤ s.length := by
    intro x hx
    obtain ⟨y, hy, rfl⟩ := List.mem_map.mp hx
    have := splitOn_length_le LF s y (List.dropLast_subset _ hy)
    have := popIf_length_le y CR
    omega
  split at h
  · exact hbody l h
  · rename_i last e
    split at h
    · exact hbody l h
    · rcases List.mem_append.mp h with h | h
      · exact hbody l h
      · simp at h; subst h
        exact splitOn_length_le LF s _ (List.mem_of_getLast? e)

theorem parse_ne_panic (L : Lex) (hL : L.Lawful) (s : Bytes) (hlen : s.length < 2 ^ 63) :
    (parse L s).1 ≠ .panic := by
  unfold parse
  exact parseLines_ne_panic L hL _ _ _ (fun l hl => by have := lines_length_le s l hl; omega)

end SamHdr

namespace VcfHdr
open SamHdr (stripPrefix stripPrefix_length splitOn_length_le)

theorem utf8_sat (b : Bytes) : Sat (utf8 b) (fun r => r = b) := by
  unfold utf8; split
  · exact Sat.ok rfl
  · exact Sat.err _

theorem parseKey_sat (src : Bytes) :
    Sat (parseKey src) (fun p => p.1.length ≤ src.length ∧ p.2.length < src.length) := by
  unfold parseKey
  split
  · exact Sat.err _
  · rename_i i h
    have hi := findIdx_lt h
    rw [splitAt_ok' (by omega)]
    simp only [bind_ok]
    apply Sat.bind (utf8_sat _); intro k hk
    rw [sliceFrom_ok (by simp only [List.length_drop]; omega)]
    simp only [bind_ok]
    subst hk
    exact Sat.ok (by simp only [List.length_take, List.length_drop]; omega)

theorem parseFileFormat_ne_panic (src : Bytes) (hlen : src.length < 2 ^ 63) :
    parseFileFormat src ≠ .panic := by
  unfold parseFileFormat
  split
  · simp
  · rename_i s hs
    have := stripPrefix_length _ _ _ hs
    split
    · simp
    · rename_i i h
      have hi := findIdx_lt h
      rw [sliceTo_ok (by omega), uadd_ok (by simp only [USIZE]; omega)]
      simp only [bind_ok]
      rw [sliceFrom_ok (by omega)]
      simp only [bind_ok]
      split <;> simp

theorem parseRawString_sat (src : Bytes) :
    Sat (parseRawString src) (fun p => p.2.length ≤ src.length) := by
  unfold parseRawString
  split
  · exact Sat.err _
  · rename_i i h
    have hi := findIdx_lt h
    rw [splitAt_ok' (by omega)]
    simp only [bind_ok]
    apply Sat.bind (utf8_sat _); intro k _
    exact Sat.ok (by simp)

theorem scanEscaped_sat : ∀ (s : Bytes) (i : Nat) (esc has : Bool),
    Sat (scanEscaped s i esc has) (fun o => ∀ off h, o = some (off, h) → i ≤ off ∧ off < i + s.length)
  | [], i, esc, has => by simp [scanEscaped, Sat]
  | b :: r, i, esc, has => by
    have ih := fun e h => scanEscaped_sat r (i + 1) e h
    simp only [scanEscaped]
    have step : ∀ e h, Sat (scanEscaped r (i + 1) e h)
        (fun o => ∀ off h', o = some (off, h') → i ≤ off ∧ off < i + (b :: r).length) := by
      intro e h
      apply (ih e h).mono
      intro o ho off h' eo
      have := ho off h' eo
      simp only [List.length_cons]; omega
    split
    · split
      · exact step _ _
      · exact Sat.err _
    · split
      · exact step _ _
      · split
        · apply Sat.ok
          intro off h' e
          simp only [Option.some.injEq, Prod.mk.injEq] at e
          simp only [List.length_cons]; omega
        · exact step _ _

theorem unescape_ne_panic : ∀ (n : Nat) (s : Bytes), s.length ≤ n → unescape s ≠ .panic
  | 0, s, h => by
    have : s = [] := List.eq_nil_of_length_eq_zero (by omega)
    subst this; simp [unescape]
  | n + 1, s, h => by
    unfold unescape
    split
    · simp
    · rename_i c r
      split
      · apply bind_ne_panic (unescape_ne_panic n r (by simp only [List.length_cons] at h; omega))
        intro t _; simp
      · simp
    · simp
    · rename_i b r _ _
      apply bind_ne_panic (unescape_ne_panic n r (by simp only [List.length_cons] at h; omega))
      intro t _; simp

theorem parseEscapedString_sat (src : Bytes) :
    Sat (parseEscapedString src) (fun p => p.2.length ≤ src.length) := by
  unfold parseEscapedString
  apply Sat.bind (scanEscaped_sat src 0 false false); intro st hst
  split
  · exact Sat.err _
  · rename_i offset has
    have := hst offset has rfl
    rw [splitAt_ok' (by omega)]
    simp only [bind_ok]
    rw [sliceFrom_ok (by simp only [List.length_drop]; omega)]
    simp only [bind_ok]
    apply Sat.bind (utf8_sat _); intro k _
    split
    · apply Sat.bind (Sat.of_ne_panic (unescape_ne_panic _ k (Nat.le_refl _))); intro u _
      exact Sat.ok (by simp)
    · exact Sat.ok (by simp)

theorem parseValue_sat (src : Bytes) : Sat (parseValue src) (fun p => p.2.length ≤ src.length) := by
  unfold parseValue
  split
  · rename_i r
    apply (parseEscapedString_sat r).mono
    intro p hp; simp only [List.length_cons]; omega
  · exact parseRawString_sat src

theorem consumeSeparator_sat (src : Bytes) :
    Sat (consumeSeparator src) (fun p => p.2.length ≤ src.length) := by
  unfold consumeSeparator
  split
  · exact Sat.err _
  · split
    · exact Sat.ok (by simp)
    · exact Sat.ok (by simp)

theorem splitField_sat (src : Bytes) :
    Sat (splitField src) (fun o => ∀ k v rest, o = some (k, v, rest) → rest.length < src.length) := by
  unfold splitField
  split
  · exact Sat.ok (by intro k v rest e; cases e)
  · apply Sat.bind (parseKey_sat src); intro ⟨k, s1⟩ h1
    simp only at h1 ⊢
    apply Sat.bind (parseValue_sat s1); intro ⟨v, s2⟩ h2
    simp only at h2 ⊢
    apply Sat.bind (consumeSeparator_sat s2); intro ⟨b, s3⟩ h3
    simp only at h3 ⊢
    apply Sat.ok
    intro k' v' rest e
    simp only [Option.some.injEq, Prod.mk.injEq] at e
    obtain ⟨_, _, rfl⟩ := e
    omega

theorem addField_ne_panic (k : MapKind) (fields : List (Bytes × Bytes)) (key v : Bytes) :
    addField k fields key v ≠ .panic := by
  unfold addField; split
  · simp
  · split <;> simp

theorem mapLoop_ne_panic (k : MapKind) : ∀ (fuel : Nat) (src : Bytes) (fields : List (Bytes × Bytes)),
    src.length < fuel → mapLoop k fuel src fields ≠ .panic
  | 0, _, _, h => by omega
  | fuel + 1, src, fields, h => by
    unfold mapLoop
    apply bind_ne_panic (splitField_sat src).ne_panic
    intro f e
    have hf := (splitField_sat src).of_ok e
    split
    · simp
    · rename_i key v rest
      have := hf key v rest rfl
      apply bind_ne_panic (addField_ne_panic _ _ _ _)
      intro fields' _
      exact mapLoop_ne_panic k fuel rest fields' (by omega)

theorem consumeByte_sat (w : UInt8) (src : Bytes) :
    Sat (consumeByte w src) (fun r => r.length < src.length) := by
  cases src with
  | nil => exact Sat.err _
  | cons b r =>
    simp only [consumeByte]
    split
    · exact Sat.ok (by simp)
    · exact Sat.err _

theorem parseMap_ne_panic (k : MapKind) (src : Bytes) : parseMap k src ≠ .panic := by
  unfold parseMap
  apply bind_ne_panic (consumeByte_sat 60 src).ne_panic; intro s1 _
  apply bind_ne_panic (mapLoop_ne_panic k _ s1 [] (by omega)); intro ⟨fields, s2⟩ _
  simp only
  apply bind_ne_panic (consumeByte_sat 62 s2).ne_panic; intro _ _
  split
  · split <;> simp
  · simp

theorem parseValues_sat (src : Bytes) (hlen : src.length < 2 ^ 63) :
    Sat (parseValues src) (fun p => p.2.length ≤ src.length) := by
  unfold parseValues
  split
  · split
    · rename_i i h
      have hi := findIdx_lt h
      rw [uadd_ok (by simp only [USIZE]; omega)]
      simp only [bind_ok]
      rw [splitAt_ok' (by omega)]
      simp only [bind_ok]
      apply Sat.bind (utf8_sat _); intro k _
      exact Sat.ok (by simp only [List.length_drop, List.length_cons]; omega)
    · exact parseValue_sat _
  · exact parseValue_sat _

theorem metaLoop_ne_panic (isMeta : Bool) (ff : FF) : ∀ (fuel : Nat) (src : Bytes)
    (fields : List (Bytes × Bytes)), src.length < fuel → src.length < 2 ^ 63 →
    metaLoop isMeta ff fuel src fields ≠ .panic
  | 0, _, _, h, _ => by omega
  | fuel + 1, src, fields, h, hlen => by
    unfold metaLoop
    apply bind_ne_panic (parseKey_sat src).ne_panic
    intro ⟨key, s1⟩ e1
    have h1 := (parseKey_sat src).of_ok e1
    simp only at h1 ⊢
    have hv : Sat (if isMeta = true ∧ (!ltV43 ff) = true ∧ key = str "Values" then parseValues s1 else parseValue s1)
        (fun p => p.2.length ≤ s1.length) := by
      split
      · exact parseValues_sat s1 (by omega)
      · exact parseValue_sat s1
    apply bind_ne_panic hv.ne_panic
    intro ⟨v, s2⟩ e2
    have h2 := hv.of_ok e2
    simp only at h2 ⊢
    apply bind_ne_panic (addField_ne_panic _ _ _ _)
    intro fields' _
    apply bind_ne_panic (consumeSeparator_sat s2).ne_panic
    intro ⟨has, s3⟩ e3
    have h3 := (consumeSeparator_sat s2).of_ok e3
    simp only at h3 ⊢
    split
    · exact metaLoop_ne_panic isMeta ff fuel s3 fields' (by omega) (by omega)
    · simp

theorem parseMeta_ne_panic (isMeta : Bool) (ff : FF) (src : Bytes) (hlen : src.length < 2 ^ 63) :
    parseMeta isMeta ff src ≠ .panic := by
  unfold parseMeta
  apply bind_ne_panic (consumeByte_sat 60 src).ne_panic; intro s1 e1
  have h1 := (consumeByte_sat 60 src).of_ok e1
  apply bind_ne_panic (metaLoop_ne_panic isMeta ff _ s1 [] (by omega) (by omega)); intro ⟨fields, s2⟩ _
  simp only
  apply bind_ne_panic (consumeByte_sat 62 s2).ne_panic; intro _ _
  split <;> simp

theorem parseString_ne_panic (src : Bytes) : parseString src ≠ .panic := by
  unfold parseString
  rw [splitAt_ok' (Nat.le_refl _)]
  simp only [bind_ok]
  exact (utf8_sat _).ne_panic

theorem parseRecord_ne_panic (dm : Bool) (src : Bytes) (ff : FF) (hlen : src.length < 2 ^ 63) :
    parseRecord dm src ff ≠ .panic := by
  unfold parseRecord
  split
  · simp
  · rename_i s0 hs
    have h0 := stripPrefix_length _ _ _ hs
    apply bind_ne_panic (parseKey_sat s0).ne_panic
    intro ⟨key, s1⟩ e1
    have h1 := (parseKey_sat s0).of_ok e1
    simp only at h1 ⊢
    have hm := fun k => parseMap_ne_panic k s1
    have hmeta := fun b => parseMeta_ne_panic b ff s1 (by omega)
    repeat' split
    all_goals first
      | (apply bind_ne_panic (parseFileFormat_ne_panic s1 (by omega)); intro _ _; simp)
      | (apply bind_ne_panic (hm _); intro _ _; simp)
      | (apply bind_ne_panic (hmeta _); intro _ _; simp)
      | (apply bind_ne_panic (parseString_ne_panic s1); intro _ _; simp)

theorem addSamples_ne_panic : ∀ (names acc : List Bytes), addSamples acc names ≠ .panic
  | [], acc => by simp [addSamples]
  | s :: r, acc => by
    simp only [addSamples]
    split
    · simp
    · exact addSamples_ne_panic r _

theorem parseHeaderLine_ne_panic (src : Bytes) (samples : List Bytes) :
    parseHeaderLine src samples ≠ .panic := by
  unfold parseHeaderLine
  apply bind_ne_panic (utf8_sat src).ne_panic
  intro line _
  simp only
  split
  · split
    · simp
    · split
      · exact addSamples_ne_panic _ _
      · simp
  · simp

theorem addOther_ne_panic (key : Bytes) (st : Bool) (id : Bytes) :
    ∀ (l : List (Bytes × Bool × List Bytes)), addOther key st id l ≠ .panic
  | [] => by simp [addOther]
  | (k, s, ids) :: r => by
    simp only [addOther]
    split
    · split
      · simp
      · split <;> simp
    · apply bind_ne_panic (addOther_ne_panic key st id r); intro _ _; simp

/-- the `get_index(i).unwrap()` after `entry.insert(..)` finds the entry just inserted -/
theorem insertUnwrap_ne_panic (maps : List (MapKind × Bytes)) (k : MapKind) (id : Bytes) :
    insertUnwrap maps k id ≠ .panic := by
  unfold insertUnwrap
  simp only [List.filter_append, List.filter_cons, List.filter_nil, beq_self_eq_true, if_true]
  rw [List.getElem?_append_right (Nat.le_refl _)]
  simp

theorem parsePartial_ne_panic (dm : Bool) (p : Parser) (src : Bytes) (hlen : src.length < 2 ^ 63) :
    parsePartial dm p src ≠ .panic := by
  unfold parsePartial
  split
  · simp
  · split
    · apply bind_ne_panic (parseRecord_ne_panic dm src _ hlen); intro r _
      split <;> simp
    · split
      · apply bind_ne_panic (parseHeaderLine_ne_panic _ _); intro _ _; simp
      · apply bind_ne_panic (parseRecord_ne_panic dm src _ hlen); intro r _
        split
        · simp
        · split
          · simp
          · apply bind_ne_panic (insertUnwrap_ne_panic _ _ _); intro _ _; simp
        · apply bind_ne_panic (addOther_ne_panic _ _ _ _); intro _ _; simp
        · apply bind_ne_panic (addOther_ne_panic _ _ _ _); intro _ _; simp

theorem finish_ne_panic (p : Parser) : finish p ≠ .panic := by
  unfold finish; split <;> simp

theorem parseLines_ne_panic (dms : List Nat) :
    ∀ (ls : List Bytes) (p : Parser) (k : Nat), (∀ l ∈ ls, l.length < 2 ^ 63) →
      (parseLines dms p k ls).1 ≠ .panic
  | [], p, k, _ => by simp only [parseLines]; exact finish_ne_panic p
  | l :: ls, p, k, h => by
    simp only [parseLines]
    have := parsePartial_ne_panic (dms.contains k) p l (h l (by simp))
    split
    · exact parseLines_ne_panic dms ls _ _ (fun x hx => h x (by simp [hx]))
    · simp
    · rename_i e; exact absurd e this

theorem parse_ne_panic (dms : List Nat) (s : Bytes) (hlen : s.length < 2 ^ 63) :
    (parse dms s).1 ≠ .panic := by
  unfold parse
  exact parseLines_ne_panic dms _ _ _ (fun l hl => by have := SamHdr.lines_length_le s l hl; omega)

/-- a caller streaming the header: `parse_partial` over a batch of lines, WITHOUT `finish`
(specification-side definition, used only to state `vcf_header_stream_eq_whole`) -/
def feed (dms : List Nat) : Parser → Nat → List Bytes → Res Parser
  | p, _, [] => .ok p
  | p, k, l :: ls =>
    match parsePartial (dms.contains k) p l with
    | .ok p' => feed dms p' (k + 1) ls
    | .err e => .err e
    | .panic => .panic

theorem parseLines_append (dms : List Nat) : ∀ (a b : List Bytes) (p p' : Parser) (k : Nat),
    feed dms p k a = .ok p' → parseLines dms p k (a ++ b) = parseLines dms p' (k + a.length) b
  | [], b, p, p', k, h => by
    simp only [feed, Res.ok.injEq] at h
    subst h; simp
  | l :: a, b, p, p', k, h => by
    simp only [feed] at h
    simp only [List.cons_append, parseLines, List.length_cons]
    split at h
    · rename_i p1 e
      rw [e]
      simp only
      rw [parseLines_append dms a b p1 p' (k + 1) h]
      congr 1; omega
    · cases h
    · cases h

end VcfHdr
end Noodles.Hostile
