import Noodles.Hostile.Basic
/-!
# BCF typed-value descriptors and the lazy record's site index

Transcribed from noodles-bcf `record/value/ty.rs` (`read_type`), `record/value.rs` (`read_value`,
as far as `read_type` needs it for the length of a long vector) and `record/fields.rs` (`index`,
`consume_string`, `consume_integers`) — the code `bcf::io::Reader::read_record` runs on the shared
(site) block of every record.

The model describes the code AFTER the fix `bcf-record-bounds.diff` (C15 findings): the skip over a
string/integer vector is bounds-checked (`buf.get(len..)`, was `&buf[len..]` — a panic when the
declared length exceeds the block), an allele count of zero is `InvalidData` (was `allele_count - 1`
— an overflow panic), the descriptor of a long vector's length may not itself be in the long form
(bounds the `read_type` ↔ `read_value` recursion, which was as deep as the input is long), and the
ID field is checked to be UTF-8 (`Ids::iter` yields `&str` and unwrapped the conversion).
`indexUnfixed` keeps the three panics of the code as it was, for the witness examples.
-/
namespace Noodles.Hostile.Bcf
open Noodles.Hostile

inductive Kind | int8 | int16 | int32 | float | string
  deriving Repr, DecidableEq

/-- a type descriptor: element kind and element count; `none` = the untyped MISSING descriptor -/
abbrev Ty := Option (Kind × Nat)

def kindSize : Kind → Nat
  | .int8 => 1 | .int16 => 2 | .int32 => 4 | .float => 4 | .string => 1

def kindOf : Nat → Option (Option Kind)
  | 0 => some none
  | 1 => some (some .int8)
  | 2 => some (some .int16)
  | 3 => some (some .int32)
  | 5 => some (some .float)
  | 7 => some (some .string)
  | _ => none

/-- `split_to(src, n)` -/
def splitTo (src : Bytes) (n : Nat) : Res (Bytes × Bytes) :=
  if src.length < n then .err .eof else .ok (src.take n, src.drop n)

/-- the length of a long vector: `read_value(src)?.and_then(|v| v.as_int())`, then
`usize::try_from`. The nested descriptor is known not to be in the long form. Every outcome other
than a non-negative scalar integer is `InvalidData` — unless the value's bytes are missing (`eof`). -/
def readLen (src : Bytes) : Res (Nat × Bytes) :=
  match src with
  | [] => .err .eof
  | d :: r =>
    let len := d.toNat >>> 4
    match kindOf (d.toNat &&& 0x0f) with
    | none => .err .invalidData                      -- "invalid type"
    | some none => .err .invalidData                 -- `Ok(None)`: "invalid length value"
    | some (some k) =>
      if len = 0 then .err .invalidData else         -- `Value::Int8(None)` …: not an integer value
      match splitTo r (kindSize k * len) with
      | .err e => .err e
      | .panic => .panic
      | .ok (v, rest) =>
        if len = 1 ∧ (k = .int8 ∨ k = .int16 ∨ k = .int32) ∧ leVal v < 2 ^ (8 * kindSize k - 1)
        then .ok (leVal v, rest)                     -- `Int8::Value(n)`, `n ≥ 0`
        else .err .invalidData                       -- sentinel, negative, array, float or string

/-- `read_type` -/
def readType (src : Bytes) : Res (Ty × Bytes) :=
  match src with
  | [] => .err .eof
  | enc :: r =>
    let len0 := enc.toNat >>> 4
    let cont (len : Nat) (rest : Bytes) : Res (Ty × Bytes) :=
      match kindOf (enc.toNat &&& 0x0f) with
      | none => .err .invalidData
      | some none => .ok (none, rest)
      | some (some k) => .ok (some (k, len), rest)
    if len0 = 0x0f then
      match r with
      | d :: _ =>
        if d.toNat >>> 4 = 0x0f then .err .invalidData    -- the guard added by the fix
        else match readLen r with
          | .ok (len, rest) => cont len rest
          | .err e => .err e
          | .panic => .panic
      | [] => .err .eof
    else cont len0 r

/-! ### UTF-8 validation (`str::from_utf8`) -/

def isCont (b : UInt8) : Bool := 0x80 ≤ b.toNat && b.toNat ≤ 0xbf

def isUtf8 : Bytes → Bool
  | [] => true
  | b0 :: r =>
    let x := b0.toNat
    if x < 0x80 then isUtf8 r
    else if 0xc2 ≤ x ∧ x ≤ 0xdf then
      match r with
      | b1 :: r' => isCont b1 && isUtf8 r'
      | _ => false
    else if 0xe0 ≤ x ∧ x ≤ 0xef then
      match r with
      | b1 :: b2 :: r' =>
        let y := b1.toNat
        let ok1 := if x = 0xe0 then 0xa0 ≤ y && y ≤ 0xbf
                   else if x = 0xed then 0x80 ≤ y && y ≤ 0x9f
                   else isCont b1
        ok1 && isCont b2 && isUtf8 r'
      | _ => false
    else if 0xf0 ≤ x ∧ x ≤ 0xf4 then
      match r with
      | b1 :: b2 :: b3 :: r' =>
        let y := b1.toNat
        let ok1 := if x = 0xf0 then 0x90 ≤ y && y ≤ 0xbf
                   else if x = 0xf4 then 0x80 ≤ y && y ≤ 0x8f
                   else isCont b1
        ok1 && isCont b2 && isCont b3 && isUtf8 r'
      | _ => false
    else false

/-! ### `index` -/

structure Bounds where
  idsStart : Nat
  idsEnd : Nat
  refStart : Nat
  refEnd : Nat
  altEnd : Nat
  filtersEnd : Nat
  deriving Repr, DecidableEq

/-- `consume_string(buf, offset)`: `(start, end)` in site-buffer coordinates and the rest.
`checked = true` is the fixed code (`buf.get(len..)`), `false` the code as it was (`&buf[len..]`). -/
def consumeString (checked : Bool) (buf : Bytes) (offset : Nat) : Res (Nat × Nat × Bytes) := do
  let prev := buf.length
  let (ty, rest) ← readType buf
  match ty with
  | some (.string, len) =>
    let consumed ← usub prev rest.length
    let start ← uadd offset consumed
    let end_ ← uadd start len
    let rest' ← if checked then
        (if len ≤ rest.length then Res.ok (rest.drop len) else .err .eof)
      else sliceFrom rest len
    return (start, end_, rest')
  | _ => .err .invalidData

/-- `consume_integers(buf, offset)`: the end offset and the rest -/
def consumeIntegers (checked : Bool) (buf : Bytes) (offset : Nat) : Res (Nat × Bytes) := do
  let prev := buf.length
  let (ty, rest) ← readType buf
  let len ← match ty with
    | none => Res.ok 0
    | some (.int8, n) => umul 1 n
    | some (.int16, n) => umul 2 n
    | some (.int32, n) => umul 4 n
    | _ => .err .invalidData
  let consumed ← usub prev rest.length
  let start ← uadd offset consumed
  let end_ ← uadd start len
  let rest' ← if checked then
      (if len ≤ rest.length then Res.ok (rest.drop len) else .err .eof)
    else sliceFrom rest len
  return (end_, rest')

/-- the `for _ in 0..n { consume_string }` loop over the alternate alleles -/
def consumeAlts (checked : Bool) : Nat → Bytes → Nat → Res (Nat × Bytes)
  | 0, buf, i => .ok (i, buf)
  | n+1, buf, i => do
    let (_, e, rest) ← consumeString checked buf i
    consumeAlts checked n rest e

def IDS_START_INDEX : Nat := 24

/-- the UTF-8 check of the ID field added by the fix -/
def checkIds (fixed : Bool) (site : Bytes) (s0 e0 : Nat) : Res Unit :=
  if fixed then do
    let ids ← slice site s0 e0
    if isUtf8 ids then .ok () else .err .invalidData
  else .ok ()

/-- `allele_count.checked_sub(1)` (fixed) / `allele_count - 1` (as it was) -/
def altCountOf (fixed : Bool) (alleleCount : Nat) : Res Nat :=
  if fixed then (if 1 ≤ alleleCount then .ok (alleleCount - 1) else .err .invalidData)
  else usub alleleCount 1

/-- `index(site_buf, bounds)`; `fixed = false` is the code before `bcf-record-bounds.diff` -/
def indexWith (fixed : Bool) (site : Bytes) : Res Bounds :=
  if site.length < IDS_START_INDEX then .err .eof else do
  let ac ← slice site 18 20
  let buf ← sliceFrom site IDS_START_INDEX
  let (s0, e0, buf) ← consumeString fixed buf IDS_START_INDEX
  checkIds fixed site s0 e0
  let (s1, e1, buf) ← consumeString fixed buf e0
  let altCount ← altCountOf fixed (leVal ac)
  let (i, buf) ← consumeAlts fixed altCount buf e1
  let (fe, _) ← consumeIntegers fixed buf i
  return ⟨s0, e0, s1, e1, i, fe⟩

def index (site : Bytes) : Res Bounds := indexWith true site
def indexUnfixed (site : Bytes) : Res Bounds := indexWith false site

/-- the lazy accessors `ids()`, `reference_bases()`, `alternate_bases()`, `filters()`:
`&self.site_buf[range]` with the ranges `index` stored -/
def fieldSlices (site : Bytes) (b : Bounds) : Res (Bytes × Bytes × Bytes × Bytes) := do
  let a ← slice site b.idsStart b.idsEnd
  let r ← slice site b.refStart b.refEnd
  let t ← slice site b.refEnd b.altEnd
  let f ← slice site b.altEnd b.filtersEnd
  return (a, r, t, f)

/-- `read_record` on a site block followed by the four accessors -/
def readAndTouch (site : Bytes) : Res (Bytes × Bytes × Bytes × Bytes) := do
  let b ← index site
  fieldSlices site b

end Noodles.Hostile.Bcf
