import Noodles.Hostile.Basic
/-!
# BAM record: `validate` and the lazy field accessors, with the slicing explicit

Transcribed from noodles-bam `io/reader/record.rs` (`validate`) and `record_ref.rs`
(`RecordRef::new_unchecked`, `name_length`, `cigar_op_count`, `base_count`, `name`, `cigar` (the
field slice; the `CG`-tag indirection is not modelled), `raw_sequence`, `raw_quality_scores`,
`raw_data`). `bam::Record` holds the buffer that `read_record` validated; every accessor
re-derives its offsets from the three length fields and slices `rest = src[32..]`.
-/
namespace Noodles.Hostile.Bam
open Noodles.Hostile

def MIN_BUF_LENGTH : Nat := 32

/-- `src[8]` -/
def nameLen (src : Bytes) : Res Nat := do let b ← index src 8; return b.toNat
/-- `u16::from_le_bytes(src[12..14])` -/
def cigarOpCount (src : Bytes) : Res Nat := do let b ← slice src 12 14; return leVal b
/-- `u32::from_le_bytes(src[16..20])` -/
def baseCount (src : Bytes) : Res Nat := do let b ← slice src 16 20; return leVal b

/-- `32 + name_len + cigar_op_count * 4 + base_count.div_ceil(2) + base_count`, every operation
overflow-checked on `usize` -/
def qualityScoresEnd (nameLen ops bases : Nat) : Res Nat := do
  let a ← uadd MIN_BUF_LENGTH nameLen
  let c ← umul ops 4
  let b ← uadd a c
  let d ← uadd b ((bases + 1) / 2)
  uadd d bases

/-- `validate` -/
def validate (src : Bytes) : Res Unit := do
  if src.length < MIN_BUF_LENGTH then .err .eof else
  let n ← nameLen src
  let c ← cigarOpCount src
  let l ← baseCount src
  let e ← qualityScoresEnd n c l
  if src.length < e then .err .eof else return ()

/-- `RecordRef::new_unchecked`: `src.split_at(32)`, `head.try_into().unwrap()` -/
def split (src : Bytes) : Res (Bytes × Bytes) := splitAt src 32

/-- offsets of the variable-length fields inside `rest` -/
structure Offsets where
  name : Nat
  cigarEnd : Nat
  seqEnd : Nat
  qualEnd : Nat

def offsets (head : Bytes) : Res Offsets := do
  let n ← nameLen head
  let c ← cigarOpCount head
  let l ← baseCount head
  let c4 ← umul c 4
  let ce ← uadd n c4
  let se ← uadd ce ((l + 1) / 2)
  let qe ← uadd se l
  return ⟨n, ce, se, qe⟩

/-- `name()`: `&self.rest[..name_length]` -/
def rawName (src : Bytes) : Res Bytes := do
  let (head, rest) ← split src
  let o ← offsets head
  sliceTo rest o.name

/-- `cigar()`: `&self.rest[start..end]` -/
def rawCigar (src : Bytes) : Res Bytes := do
  let (head, rest) ← split src
  let o ← offsets head
  slice rest o.name o.cigarEnd

/-- `raw_sequence()` -/
def rawSequence (src : Bytes) : Res Bytes := do
  let (head, rest) ← split src
  let o ← offsets head
  slice rest o.cigarEnd o.seqEnd

/-- `raw_quality_scores()` (before the all-`0xff` test) -/
def rawQualityScores (src : Bytes) : Res Bytes := do
  let (head, rest) ← split src
  let o ← offsets head
  slice rest o.seqEnd o.qualEnd

/-- `raw_data()`: `&self.rest[start..]` -/
def rawData (src : Bytes) : Res Bytes := do
  let (head, rest) ← split src
  let o ← offsets head
  sliceFrom rest o.qualEnd

/-- what `Reader::read_record` + touching every variable-length field does on a record body -/
def readAndTouch (src : Bytes) : Res (Bytes × Bytes × Bytes × Bytes × Bytes) := do
  validate src
  let n ← rawName src
  let c ← rawCigar src
  let s ← rawSequence src
  let q ← rawQualityScores src
  let d ← rawData src
  return (n, c, s, q, d)

end Noodles.Hostile.Bam
