import Noodles.Hostile.VcfText
import Noodles.Hostile.TextKitProof
/-! Helper lemmas for `Noodles/Props/C15Text.lean`: the lazy VCF record (`VcfText.lean`) — UTF-8
validity, `char` boundaries, the field bounds, the INFO / samples / genotype walkers. -/
namespace Noodles.Hostile.VcfText
open Noodles.Hostile Noodles.Hostile.Text Res

/-- valid UTF-8 (`str::from_utf8` accepts) -/
abbrev U (s : Bytes) : Prop := Bcf.isUtf8 s = true

/-! ## UTF-8 toolkit -/

theorem isUtf8_ascii {b : UInt8} (hb : b.toNat < 0x80) (r : Bytes) :
    Bcf.isUtf8 (b :: r) = Bcf.isUtf8 r := by
  conv => lhs; unfold Bcf.isUtf8
  simp only [hb, if_true]

theorem U_cons_cases {b : UInt8} {r : Bytes} (h : U (b :: r)) :
    (b.toNat < 0x80 ∧ U r) ∨
    (0xc2 ≤ b.toNat ∧ ∃ c r', r = c ++ r' ∧ c ≠ [] ∧ (∀ x ∈ c, Bcf.isCont x = true) ∧ U r' ∧
      ∀ t, Bcf.isUtf8 (b :: (c ++ t)) = Bcf.isUtf8 t) := by
  unfold U at h
  unfold Bcf.isUtf8 at h
  simp only at h
  split at h
  · left; exact ⟨‹_›, h⟩
  · right
    rename_i h0
    split at h
    · rename_i h1
      split at h
      · rename_i b1 r'
        simp only [Bool.and_eq_true] at h
        refine ⟨by omega, [b1], r', rfl, by simp, by simpa using h.1, h.2, ?_⟩
        intro t
        conv => lhs; unfold Bcf.isUtf8
        simp only [h0, h1, h.1, if_true, if_false, List.cons_append, List.nil_append, Bool.true_and, and_self]
      · cases h
    · rename_i h1
      split at h
      · rename_i h2
        split at h
        · rename_i b1 b2 r'
          simp only [Bool.and_eq_true] at h
          obtain ⟨⟨hok, hc2⟩, hr⟩ := h
          have hc1 : Bcf.isCont b1 = true := by
            revert hok
            simp only [Bcf.isCont, Bool.and_eq_true, decide_eq_true_eq]
            split
            · simp only [Bool.and_eq_true, decide_eq_true_eq]; omega
            · split
              · simp only [Bool.and_eq_true, decide_eq_true_eq]; omega
              · simp only [Bool.and_eq_true, decide_eq_true_eq]; omega
          refine ⟨by omega, [b1, b2], r', rfl, by simp, ?_, hr, ?_⟩
          · intro x hx
            simp only [List.mem_cons, List.not_mem_nil, or_false] at hx
            rcases hx with rfl | rfl <;> assumption
          · intro t
            conv => lhs; unfold Bcf.isUtf8
            simp only [h0, h1, h2, hok, hc2, if_true, if_false, List.cons_append, List.nil_append, Bool.true_and, and_self]
        · cases h
      · rename_i h2
        split at h
        · rename_i h3
          split at h
          · rename_i b1 b2 b3 r'
            simp only [Bool.and_eq_true] at h
            obtain ⟨⟨⟨hok, hc2⟩, hc3⟩, hr⟩ := h
            have hc1 : Bcf.isCont b1 = true := by
              revert hok
              simp only [Bcf.isCont, Bool.and_eq_true, decide_eq_true_eq]
              split
              · simp only [Bool.and_eq_true, decide_eq_true_eq]; omega
              · split
                · simp only [Bool.and_eq_true, decide_eq_true_eq]; omega
                · simp only [Bool.and_eq_true, decide_eq_true_eq]; omega
            refine ⟨by omega, [b1, b2, b3], r', rfl, by simp, ?_, hr, ?_⟩
            · intro x hx
              simp only [List.mem_cons, List.not_mem_nil, or_false] at hx
              rcases hx with rfl | rfl | rfl <;> assumption
            · intro t
              conv => lhs; unfold Bcf.isUtf8
              simp only [h0, h1, h2, h3, hok, hc2, hc3, if_true, if_false, List.cons_append, List.nil_append, Bool.true_and, and_self]
          · cases h
        · cases h

theorem U_nil : U [] := rfl

theorem isCont_of_ascii {b : UInt8} (h : b.toNat < 0x80) : Bcf.isCont b = false := by
  simp only [Bcf.isCont, Bool.and_eq_false_iff, decide_eq_false_iff_not]; omega

/-- (L3) a valid string does not start with a continuation byte -/
theorem U_head {b : UInt8} {r : Bytes} (h : U (b :: r)) : Bcf.isCont b = false := by
  rcases U_cons_cases h with ⟨hb, _⟩ | ⟨hb, _⟩
  all_goals simp only [Bcf.isCont, Bool.and_eq_false_iff, decide_eq_false_iff_not]; omega

/-- (L1) + (LC) -/
theorem isUtf8_append : ∀ (a b : Bytes), U a → Bcf.isUtf8 (a ++ b) = Bcf.isUtf8 b
  | [], b, _ => rfl
  | x :: r, b, h => by
    rcases U_cons_cases h with ⟨hx, hr⟩ | ⟨_, c, r', hrr, _, _, hr', ht⟩
    · rw [List.cons_append, isUtf8_ascii hx, isUtf8_append r b hr]
    · have hl : r'.length ≤ r.length := by rw [hrr, List.length_append]; omega
      rw [hrr, List.cons_append, List.append_assoc, ht, isUtf8_append r' b hr']
termination_by a => a.length
decreasing_by all_goals (simp only [List.length_cons]; omega)

theorem U_append {a b : Bytes} (ha : U a) (hb : U b) : U (a ++ b) := by
  unfold U; rw [isUtf8_append a b ha]; exact hb

theorem U_of_append {a b : Bytes} (ha : U a) (hab : U (a ++ b)) : U b := by
  unfold U at hab; rw [isUtf8_append a b ha] at hab; exact hab

/-- (LA) a valid string splits into valid halves at any index whose byte is not a continuation
byte (and at its length) -/
theorem U_split : ∀ (s : Bytes) (i : Nat), U s → i ≤ s.length →
    (∀ b, s[i]? = some b → Bcf.isCont b = false) → U (s.take i) ∧ U (s.drop i)
  | s, 0, h, _, _ => ⟨rfl, h⟩
  | [], i + 1, _, hi, _ => by simp at hi
  | x :: r, j + 1, h, hi, hb => by
    simp only [List.take_succ_cons, List.drop_succ_cons, List.getElem?_cons_succ, List.length_cons] at *
    rcases U_cons_cases h with ⟨hx, hr⟩ | ⟨_, c, r', hrr, hc0, hcc, hr', ht⟩
    · obtain ⟨h1, h2⟩ := U_split r j hr (by omega) hb
      exact ⟨by unfold U; rw [isUtf8_ascii hx]; exact h1, h2⟩
    · have hl : r'.length ≤ r.length := by rw [hrr, List.length_append]; omega
      rw [hrr] at hb hi ⊢
      by_cases hj : j < c.length
      · exfalso
        have h1 := hb c[j] (by rw [List.getElem?_append_left hj]; exact List.getElem?_eq_getElem hj)
        have h2 := hcc c[j] (List.getElem_mem _)
        rw [h1] at h2; cases h2
      · have e : j = c.length + (j - c.length) := by omega
        generalize j - c.length = m at e
        subst e
        simp only [List.length_append] at hi
        rw [List.getElem?_append_right (by omega)] at hb
        simp only [Nat.add_sub_cancel_left] at hb
        obtain ⟨h1, h2⟩ := U_split r' m hr' (by omega) hb
        rw [List.take_length_add_append, List.drop_length_add_append]
        exact ⟨by unfold U; rw [ht]; exact h1, h2⟩
termination_by s => s.length
decreasing_by all_goals (simp only [List.length_cons]; omega)

/-- split at an ASCII byte -/
theorem U_split_ascii {s : Bytes} {i : Nat} (h : U s) (hi : i < s.length) (hb : s[i].toNat < 0x80) :
    U (s.take i) ∧ U (s.drop i) := by
  refine U_split s i h (Nat.le_of_lt hi) ?_
  intro b hb'
  rw [List.getElem?_eq_getElem hi] at hb'
  cases hb'
  exact isCont_of_ascii hb

theorem U_tail_ascii {b : UInt8} {r : Bytes} (hb : b.toNat < 0x80) (h : U (b :: r)) : U r := by
  unfold U at h; rw [isUtf8_ascii hb] at h; exact h

theorem U_cons_ascii {b : UInt8} {r : Bytes} (hb : b.toNat < 0x80) (h : U r) : U (b :: r) := by
  unfold U; rw [isUtf8_ascii hb]; exact h

/-! ## `char` boundaries -/

theorem boundary_len (s : Bytes) : isCharBoundary s s.length = true := by
  unfold isCharBoundary
  split
  · rfl
  · rw [List.getElem?_eq_none (Nat.le_refl _)]; simp

theorem boundary_of_not_cont {s : Bytes} {i : Nat} (hi : i < s.length) (hb : Bcf.isCont s[i] = false) :
    isCharBoundary s i = true := by
  unfold isCharBoundary
  split
  · rfl
  · rw [List.getElem?_eq_getElem hi]; simp [hb]

/-- (LB) the end of a valid prefix of a valid string is a `char` boundary -/
theorem boundary_of_prefix {s : Bytes} {e : Nat} (hs : U s) (he : e ≤ s.length) (hp : U (s.take e)) :
    isCharBoundary s e = true := by
  have hd : U (s.drop e) := U_of_append hp (by rw [List.take_append_drop]; exact hs)
  rcases Nat.lt_or_ge e s.length with hlt | hge
  · refine boundary_of_not_cont hlt ?_
    rw [List.drop_eq_getElem_cons hlt] at hd
    exact U_head hd
  · have : e = s.length := by omega
    subst this; exact boundary_len s


/-! ## `read_record` -/

theorem readFieldV_spec : FieldSpec U (readFieldV true) := by
  intro src dst h
  unfold readFieldV
  refine Sat.bind (readField_sat true src dst h) ?_
  intro f hf
  split
  · rename_i hu; exact ⟨hf, hu⟩
  · trivial

theorem U_popIf {v : Bytes} {b : UInt8} (hb : b.toNat < 0x80) (h : U v) : U (popIf v b) := by
  unfold popIf
  split
  · rename_i he
    unfold endsWith at he
    have hl : v.getLast? = some b := by simpa using he
    rw [List.getLast?_eq_getElem?] at hl
    obtain ⟨hlt, hv⟩ := List.getElem?_eq_some_iff.mp hl
    rw [List.dropLast_eq_take]
    exact (U_split_ascii h hlt (by rw [hv]; exact hb)).1
  · exact h

theorem readLineIntoV_sat (src buf : Bytes) (hb : U buf) :
    Sat (readLineIntoV true src buf) (fun r => U r.1 ∧ (∃ g, r.1 = buf ++ g) ∧
      r.2.1 + r.2.2.length = src.length) := by
  obtain ⟨h1, h2⟩ := readLineInto_sat true src buf
  unfold readLineIntoV
  cases hi : findIdx (fun b => b == LF) src with
  | none =>
    simp only
    split
    · rename_i hu
      refine ⟨?_, h2 rfl, h1⟩
      unfold readLineInto
      rw [hi]
      exact U_append hb hu
    · trivial
  | some i =>
    simp only
    split
    · rename_i hu
      refine ⟨?_, h2 rfl, h1⟩
      unfold readLineInto
      rw [hi]
      obtain ⟨hlt, hp⟩ := findIdx_some hi
      have hp' : src[i] = LF := by simpa using hp
      have ht : U (src.take i) := by
        have hlt' : i < (src.take (i + 1)).length := by simp only [List.length_take]; omega
        have := (U_split_ascii hu hlt' (by
          rw [List.getElem_take, hp']; decide)).1
        rw [List.take_take] at this
        rwa [Nat.min_eq_left (by omega)] at this
      have hbuf : U (buf ++ src.take i) := U_append hb ht
      simp only [if_true]
      split
      · exact U_popIf (by decide) hbuf
      · exact hbuf
    · trivial


/-- what `read_record` (fixed code) leaves: eight non-decreasing field ends inside the buffer, each
the length of a valid UTF-8 prefix, and a valid buffer -/
structure RecOK (p : Rec × Nat) : Prop where
  ends : EndsOK U p.1.ends p.1.buf
  valid : U p.1.buf
  count : p.1.ends.length = 8

theorem readRecord_sat (input : Bytes) (hlen : input.length < 2 ^ 63) :
    Sat (readRecord true input) RecOK := by
  unfold readRecord
  refine Sat.bind (readRequired_sat readFieldV_spec 7 input [] [] 0 (by omega) (EndsOK.nil _ _)) ?_
  rintro ⟨dst, ends, len, src⟩ ⟨_, he, hn, hc⟩
  replace hc : len + src.length = 0 + input.length := hc
  replace hn : ends.length = 0 + 7 := hn
  replace he : EndsOK U ends dst := he
  refine Sat.bind (readFieldV_spec src dst (by omega)) ?_
  rintro f ⟨hf, hu⟩
  obtain ⟨g, hg⟩ := hf.grows rfl
  have hcons := hf.consumed
  rw [uadd_ok (by simp only [USIZE]; omega)]
  simp only [bind_ok]
  have he' : EndsOK U (ends ++ [f.dst.length]) f.dst := by
    rw [hg]; rw [hg] at hu; exact he.snoc hu
  have hcount : (ends ++ [f.dst.length]).length = 8 := by
    simp only [List.length_append, List.length_singleton] at hn ⊢; omega
  split
  · exact ⟨he', hu, hcount⟩
  · refine Sat.bind (readLineIntoV_sat f.rest f.dst hu) ?_
    rintro ⟨b, n, r⟩ ⟨h1, ⟨g2, hg2⟩, h3⟩
    replace h1 : U b := h1
    replace hg2 : b = f.dst ++ g2 := hg2
    replace h3 : n + r.length = f.rest.length := h3
    simp only
    rw [uadd_ok (by simp only [USIZE]; omega)]
    simp only [bind_ok, Sat]
    refine ⟨?_, h1, hcount⟩
    show EndsOK U _ b
    rw [hg2]
    exact he'.grow g2

theorem readFieldV_noCR (src dst : Bytes) (hs : CR ∉ src) (hd : CR ∉ dst) :
    readFieldV false src dst = readFieldV true src dst ∧
    ∀ f, readFieldV true src dst = .ok f → CR ∉ f.dst ∧ CR ∉ f.rest := by
  obtain ⟨e, hp⟩ := readField_noCR src dst hs hd
  unfold readFieldV
  rw [e]
  refine ⟨rfl, ?_⟩
  intro f hf
  cases hr : readField true src dst with
  | panic => rw [hr] at hf; simp at hf
  | err e => rw [hr] at hf; simp at hf
  | ok f' =>
    rw [hr] at hf
    simp only [bind_ok] at hf
    split at hf
    · cases hf; exact hp _ hr
    · cases hf

theorem readRequiredV_noCR : ∀ (k : Nat) (src dst : Bytes) (ends : List Nat) (len : Nat),
    CR ∉ src → CR ∉ dst →
    readRequired (readFieldV false) k src dst ends len = readRequired (readFieldV true) k src dst ends len ∧
    ∀ r, readRequired (readFieldV true) k src dst ends len = .ok r → CR ∉ r.1 ∧ CR ∉ r.2.2.2
  | 0, src, dst, ends, len, hs, hd => by
    simp only [readRequired]
    exact ⟨trivial, by intro r hr; cases hr; exact ⟨hd, hs⟩⟩
  | k + 1, src, dst, ends, len, hs, hd => by
    unfold readRequired
    obtain ⟨e, hp⟩ := readFieldV_noCR src dst hs hd
    rw [e]
    cases hf : readFieldV true src dst with
    | panic => simp
    | err e => simp
    | ok f =>
      obtain ⟨h1, h2⟩ := hp f hf
      simp only [bind_ok]
      split
      · simp
      · cases hu : uadd len f.n with
        | panic => simp
        | err e => simp
        | ok l =>
          simp only [bind_ok]
          exact readRequiredV_noCR k f.rest f.dst _ l h2 h1

theorem readLineIntoV_noCR (src buf : Bytes) (hs : CR ∉ src) (hb : CR ∉ buf) :
    readLineIntoV false src buf = readLineIntoV true src buf := by
  unfold readLineIntoV
  rw [readLineInto_noCR src buf hs hb]

/-- without a carriage return in the input the code as it is reads what the fixed code reads -/
theorem readRecord_noCR (input : Bytes) (h : CR ∉ input) :
    readRecord false input = readRecord true input := by
  unfold readRecord
  obtain ⟨e, hp⟩ := readRequiredV_noCR 7 input [] [] 0 h (by simp)
  rw [e]
  cases hr : readRequired (readFieldV true) 7 input [] [] 0 with
  | panic => simp
  | err e => simp
  | ok r =>
    obtain ⟨dst, ends, len, src⟩ := r
    obtain ⟨h1, h2⟩ := hp _ hr
    simp only [bind_ok]
    obtain ⟨e2, hp2⟩ := readFieldV_noCR src dst h2 h1
    rw [e2]
    cases hf : readFieldV true src dst with
    | panic => simp
    | err e => simp
    | ok f =>
      obtain ⟨h3, h4⟩ := hp2 f hf
      simp only [bind_ok]
      rw [readLineIntoV_noCR f.rest f.dst h4 h3]


/-! ## accessors -/

theorem strSlice_sat {buf : Bytes} {a b : Nat} (hv : U buf) (hab : a ≤ b) (hb : b ≤ buf.length)
    (ha' : U (buf.take a)) (hb' : U (buf.take b)) :
    ∃ s, strSlice buf a b = .ok s ∧ U s := by
  have h1 := boundary_of_prefix hv (by omega) ha'
  have h2 := boundary_of_prefix hv hb hb'
  refine ⟨(buf.drop a).take (b - a), ?_, ?_⟩
  · unfold strSlice; simp only [hab, hb, h1, h2, and_self, if_true]
  · have e : buf.take b = buf.take a ++ (buf.drop a).take (b - a) := by
      have : b = a + (b - a) := by omega
      conv => lhs; rw [this]
      exact List.take_add
    rw [e] at hb'
    exact U_of_append ha' hb'

theorem getD_mem {ends : List Nat} {k : Nat} (hk : k < ends.length) : ends.getD k 0 ∈ ends := by
  have : ends.getD k 0 = ends[k] := by simp [List.getD, List.getElem?_eq_getElem hk]
  rw [this]; exact List.getElem_mem hk

/-- a column slice is in range, on `char` boundaries, and valid UTF-8 -/
theorem field_sat {r : Rec} (hv : U r.buf) (he : EndsOK U r.ends r.buf) {k : Nat} (hk : k < r.ends.length) :
    ∃ s, r.field k = .ok s ∧ U s := by
  unfold Rec.field
  obtain ⟨h1, h2⟩ := he.start_le hk
  refine strSlice_sat hv h1 h2 ?_ (he.pre _ (getD_mem hk))
  unfold fieldStart
  split
  · exact U_nil
  · exact he.pre _ (getD_mem (by omega))

theorem tail_sat {r : Rec} (hv : U r.buf) (he : EndsOK U r.ends r.buf) (hn : r.ends.length = 8) :
    ∃ s, r.tail = .ok s ∧ U s := by
  unfold Rec.tail
  have hk : 7 < r.ends.length := by omega
  have hle := (he.start_le hk).2
  have hp := he.pre _ (getD_mem hk)
  refine ⟨r.buf.drop (r.ends.getD 7 0), ?_, ?_⟩
  · unfold strSliceFrom
    simp only [hle, boundary_of_prefix hv hle hp, and_self, if_true]
  · exact U_of_append hp (by rw [List.take_append_drop]; exact hv)


/-! ## `str` splitting at ASCII delimiters -/

theorem strSplitAt_len (s : Bytes) : strSplitAt s s.length = .ok (s, []) := by
  unfold strSplitAt
  simp only [Nat.le_refl, boundary_len, and_self, if_true, List.take_length, List.drop_length]

theorem boundary_one {x : UInt8} {r : Bytes} (hx : x.toNat < 0x80) (h : U (x :: r)) :
    isCharBoundary (x :: r) 1 = true := by
  have hr := U_tail_ascii hx h
  cases r with
  | nil => exact boundary_len [x]
  | cons y t => exact boundary_of_not_cont (s := x :: y :: t) (i := 1) (by simp) (U_head hr)

/-- `&rest[1..]` after an ASCII byte -/
theorem strSliceFrom_one {x : UInt8} {r : Bytes} (hx : x.toNat < 0x80) (h : U (x :: r)) :
    strSliceFrom (x :: r) 1 = .ok r := by
  unfold strSliceFrom
  simp [boundary_one hx h]

/-- `&buf[..1]` of a string that starts with an ASCII byte -/
theorem strSliceTo_one {x : UInt8} {r : Bytes} (hx : x.toNat < 0x80) (h : U (x :: r)) :
    strSliceTo (x :: r) 1 = .ok [x] := by
  unfold strSliceTo
  simp [boundary_one hx h]

/-- `src.split_at(i)` and `&rest[1..]` at an index found by a search for ASCII bytes -/
theorem splitAt_ascii {p : UInt8 → Bool} (hp : ∀ b, p b = true → b.toNat < 0x80) {src : Bytes} {i : Nat}
    (hu : U src) (hi : findIdx p src = some i) :
    ∃ _ : i < src.length, strSplitAt src i = .ok (src.take i, src.drop i) ∧ U (src.take i) ∧
      U (src.drop i) ∧ strSliceFrom (src.drop i) 1 = .ok (src.drop (i + 1)) ∧ U (src.drop (i + 1)) := by
  obtain ⟨hlt, hpi⟩ := findIdx_some hi
  have ha := hp _ hpi
  obtain ⟨h1, h2⟩ := U_split_ascii hu hlt ha
  refine ⟨hlt, ?_, h1, h2, ?_, ?_⟩
  · unfold strSplitAt
    simp only [Nat.le_of_lt hlt, boundary_of_not_cont hlt (isCont_of_ascii ha), and_self, if_true]
  · rw [List.drop_eq_getElem_cons hlt] at h2 ⊢
    exact strSliceFrom_one ha h2
  · rw [List.drop_eq_getElem_cons hlt] at h2
    exact U_tail_ascii ha h2

theorem splitOnce_eq {d : UInt8} : ∀ {s k r : Bytes}, splitOnce d s = some (k, r) → s = k ++ d :: r
  | [], k, r, h => by simp [splitOnce] at h
  | b :: t, k, r, h => by
    unfold splitOnce at h
    split at h
    · rename_i hb
      simp only [Option.some.injEq, Prod.mk.injEq] at h
      obtain ⟨rfl, rfl⟩ := h
      simp [hb]
    · split at h
      · rename_i f rest hs
        simp only [Option.some.injEq, Prod.mk.injEq] at h
        obtain ⟨rfl, rfl⟩ := h
        rw [splitOnce_eq hs]; simp
      · cases h

theorem U_splitOnce {d : UInt8} (hd : d.toNat < 0x80) {s k r : Bytes} (hu : U s)
    (h : splitOnce d s = some (k, r)) : U k ∧ U r := by
  have e := splitOnce_eq h
  subst e
  have hlt : k.length < (k ++ d :: r).length := by simp
  have hb : (k ++ d :: r)[k.length] = d := by simp
  obtain ⟨h1, h2⟩ := U_split_ascii hu hlt (by rw [hb]; exact hd)
  simp only [List.take_left', List.drop_left'] at h1 h2
  exact ⟨h1, U_tail_ascii hd h2⟩

theorem splitOn_eq (d : UInt8) : ∀ s : Bytes, splitOn d s =
    match findIdx (fun b => b == d) s with
    | none => [s]
    | some i => s.take i :: splitOn d (s.drop (i + 1))
  | [] => by simp [splitOn, findIdx]
  | b :: r => by
    rw [splitOn, findIdx]
    by_cases hb : b = d
    · simp [hb]
    · have ih := splitOn_eq d r
      simp only [hb, if_false, beq_iff_eq]
      cases hf : findIdx (fun b => b == d) r with
      | none => rw [hf] at ih; simp [ih]
      | some i => rw [hf] at ih; simp [ih]

theorem U_splitOn {d : UInt8} (hd : d.toNat < 0x80) : ∀ s : Bytes, U s → ∀ p ∈ splitOn d s, U p
  | s, hu, p, hp => by
    rw [splitOn_eq] at hp
    have hpd : ∀ b, (fun b => b == d) b = true → b.toNat < 0x80 := by
      intro b hb; simp only [beq_iff_eq] at hb; subst hb; exact hd
    cases hf : findIdx (fun b => b == d) s with
    | none =>
      rw [hf] at hp
      simp only [List.mem_singleton] at hp
      subst hp; exact hu
    | some i =>
      rw [hf] at hp
      obtain ⟨hlt, _, h1, _, _, h2⟩ := splitAt_ascii hpd hu hf
      simp only [List.mem_cons] at hp
      rcases hp with rfl | hp
      · exact h1
      · exact U_splitOn hd (s.drop (i + 1)) h2 p hp
termination_by s => s.length
decreasing_by simp only [List.length_drop]; omega


/-! ## INFO -/

theorem keyResult_sat (k : Bytes) (m : Option UInt8) {src : Bytes} (h : U src) :
    Sat (keyResult k m src) (fun p => U p.2) := by
  unfold keyResult
  split
  · trivial
  · split
    · trivial
    · exact h

theorem readKey_sat {src : Bytes} (hu : U src) : Sat (readKey src) (fun p => U p.2) := by
  unfold readKey
  split
  · rename_i i hi
    have hp : ∀ b : UInt8, (fun b => b == 61 || b == 59) b = true → b.toNat < 0x80 := by
      intro b hb
      simp only [Bool.or_eq_true, beq_iff_eq] at hb
      rcases hb with rfl | rfl <;> decide
    obtain ⟨hlt, h1, _, _, h2, h3⟩ := splitAt_ascii hp hu hi
    rw [h1]
    simp only [bind_ok]
    rw [h2, index_ok hlt]
    simp only [bind_ok]
    exact keyResult_sat _ _ h3
  · rw [strSplitAt_len]
    simp only [bind_ok]
    exact keyResult_sat _ _ U_nil

theorem readValue_sat {src : Bytes} (hu : U src) : Sat (readValue src) (fun p => U p.2) := by
  unfold readValue
  split
  · rename_i i hi
    have hp : ∀ b : UInt8, (fun b => b == 59) b = true → b.toNat < 0x80 := by
      intro b hb
      simp only [beq_iff_eq] at hb
      subst hb; decide
    obtain ⟨hlt, h1, _, _, h2, h3⟩ := splitAt_ascii hp hu hi
    rw [h1]
    simp only [bind_ok]
    rw [h2]
    simp only [bind_ok]
    split
    · trivial
    · exact h3
  · rw [strSplitAt_len]
    simp only [bind_ok]
    exact U_nil

theorem infoNext_sat {src : Bytes} (hu : U src) : Sat (infoNext src) (fun p => U p.2) := by
  unfold infoNext
  refine Sat.bind (readKey_sat hu) ?_
  rintro ⟨⟨k, sep⟩, s⟩ h
  replace h : U s := h
  simp only
  split
  · exact h
  · refine Sat.bind (readValue_sat h) ?_
    rintro ⟨v, s'⟩ h'
    exact h'

theorem infoFields_ne_panic : ∀ (fuel : Nat) (src : Bytes), U src → infoFields fuel src ≠ .panic := by
  intro fuel
  induction fuel with
  | zero => intro src _; simp [infoFields]
  | succ fuel ih =>
    intro src hu
    unfold infoFields
    split
    · simp
    · have hs := infoNext_sat hu
      split
      · rename_i kv rest hn
        refine bind_ne_panic (ih rest (hs.of_ok hn)) ?_
        rintro ⟨kvs, e⟩ _
        simp
      · simp
      · rename_i h; exact absurd h hs.ne_panic

/-! ## samples -/

theorem parseKey_sat {src : Bytes} (hu : U src) : Sat (parseKey src) (fun p => U p.2) := by
  unfold parseKey
  split
  · rename_i p hp
    obtain ⟨k, r⟩ := p
    exact (U_splitOnce (by decide) hu hp).2
  · rw [strSplitAt_len]
    exact U_nil

theorem keysIter_ne_panic : ∀ (fuel : Nat) (src : Bytes), U src → keysIter fuel src ≠ .panic := by
  intro fuel
  induction fuel with
  | zero => intro src _; simp [keysIter]
  | succ fuel ih =>
    intro src hu
    unfold keysIter
    split
    · simp
    · have hs := parseKey_sat hu
      refine bind_ne_panic hs.ne_panic ?_
      rintro ⟨k, rest⟩ hk
      refine bind_ne_panic (ih rest (hs.of_ok hk)) ?_
      intro ks _
      simp

theorem U_unDot {s : Bytes} (h : U s) : U (unDot s) := by
  unfold unDot
  split
  · exact U_nil
  · exact h

theorem parseSample_sat {src : Bytes} (hu : U src) : Sat (parseSample src) (fun p => U p.1 ∧ U p.2) := by
  unfold parseSample
  split
  · rename_i i hi
    have hp : ∀ b : UInt8, (fun b => b == TAB) b = true → b.toNat < 0x80 := by
      intro b hb
      simp only [beq_iff_eq] at hb
      subst hb; decide
    obtain ⟨hlt, h1, h0, _, h2, h3⟩ := splitAt_ascii hp hu hi
    rw [h1]
    simp only [bind_ok]
    rw [h2]
    simp only [bind_ok]
    exact ⟨U_unDot h0, h3⟩
  · rw [strSplitAt_len]
    simp only [bind_ok]
    exact ⟨U_unDot hu, U_nil⟩

theorem samplesIter_sat : ∀ (fuel : Nat) (src : Bytes), U src →
    Sat (samplesIter fuel src) (fun l => ∀ s ∈ l, U s) := by
  intro fuel
  induction fuel with
  | zero => intro src _; simp [samplesIter, Sat]
  | succ fuel ih =>
    intro src hu
    unfold samplesIter
    split
    · simp [Sat]
    · refine Sat.bind (parseSample_sat hu) ?_
      rintro ⟨s, rest⟩ ⟨h1, h2⟩
      refine Sat.bind (ih rest h2) ?_
      intro ss hss
      simp only [Sat, List.mem_cons]
      rintro x (rfl | hx)
      · exact h1
      · exact hss x hx

/-! ## genotypes -/

theorem isPhasing_ascii {b : UInt8} (h : isPhasing b = true) : b.toNat < 0x80 := by
  unfold isPhasing at h
  simp only [Bool.or_eq_true, beq_iff_eq] at h
  rcases h with rfl | rfl <;> decide

/-- what `allelesFrom` walks: a valid string that is empty or starts with a phasing indicator -/
def PhOK (s : Bytes) : Prop := U s ∧ (s = [] ∨ ∃ b r, s = b :: r ∧ isPhasing b = true)

theorem firstCharWidth_pos (b : UInt8) (r : Bytes) : 1 ≤ firstCharWidth (b :: r) := by
  simp only [firstCharWidth]
  split
  · omega
  · split
    · omega
    · split <;> omega

theorem nextAllele_sat {src : Bytes} (hu : U src) :
    ∃ buf rest, nextAllele src = .ok (buf, rest) ∧ U buf ∧ PhOK rest ∧
      (∀ b r, src = b :: r → ∃ t, buf = b :: t) := by
  unfold nextAllele
  simp only
  cases hj : findIdx isPhasing (src.drop (firstCharWidth src)) with
  | none =>
    refine ⟨src, [], strSplitAt_len src, hu, ⟨U_nil, Or.inl rfl⟩, ?_⟩
    intro b r e; exact ⟨r, e⟩
  | some j =>
    obtain ⟨hlt, hp⟩ := findIdx_some hj
    simp only
    have hw : ∀ b r, src = b :: r → 1 ≤ firstCharWidth src := by
      intro b r e; rw [e]; exact firstCharWidth_pos b r
    generalize firstCharWidth src = w at *
    have hlt' : w + j < src.length := by simp only [List.length_drop] at hlt; omega
    have hb : src[w + j] = (src.drop w)[j] := by rw [List.getElem_drop]
    have hph : isPhasing src[w + j] = true := by rw [hb]; exact hp
    have ha := isPhasing_ascii hph
    obtain ⟨h1, h2⟩ := U_split_ascii hu hlt' ha
    refine ⟨src.take (w + j), src.drop (w + j), ?_, h1, ⟨h2, Or.inr ⟨src[w + j], src.drop (w + j + 1), ?_, hph⟩⟩, ?_⟩
    · unfold strSplitAt
      simp only [Nat.le_of_lt hlt', boundary_of_not_cont hlt' (isCont_of_ascii ha), and_self, if_true]
    · exact List.drop_eq_getElem_cons hlt'
    · intro b r e
      have := hw b r e
      obtain ⟨m, hm⟩ : ∃ m, w + j = m + 1 := ⟨w + j - 1, by omega⟩
      rw [hm, e]
      exact ⟨r.take m, rfl⟩


theorem parseAllele_sat {b : UInt8} {r : Bytes} (hu : U (b :: r)) (hb : isPhasing b = true) :
    Sat (parseAllele (b :: r)) (fun p => PhOK p.2) := by
  unfold parseAllele
  obtain ⟨buf, rest, h1, h2, h3, h4⟩ := nextAllele_sat hu
  obtain ⟨t, rfl⟩ := h4 b r rfl
  have ha := isPhasing_ascii hb
  rw [h1]
  simp only [bind_ok]
  rw [strSliceTo_one ha h2, strSliceFrom_one ha h2]
  simp only [bind_ok]
  split <;> exact h3

theorem allelesFrom_ne_panic : ∀ (fuel : Nat) (src : Bytes), PhOK src → allelesFrom fuel src ≠ .panic
  | 0, _, _ => by simp [allelesFrom]
  | fuel + 1, src, ⟨hu, hs⟩ => by
    unfold allelesFrom
    split
    · simp
    · rename_i hne
      rcases hs with rfl | ⟨b, r, rfl, hb⟩
      · simp at hne
      · have hs := parseAllele_sat hu hb
        refine bind_ne_panic hs.ne_panic ?_
        rintro ⟨a, rest⟩ ha
        refine bind_ne_panic (allelesFrom_ne_panic fuel rest (hs.of_ok ha)) ?_
        intro as _
        simp

theorem parseFirstAllele_sat {src : Bytes} (hu : U src) :
    Sat (parseFirstAllele src) (fun p => PhOK p.2) := by
  unfold parseFirstAllele
  obtain ⟨buf, rest, h1, h2, h3, _⟩ := nextAllele_sat hu
  rw [h1]
  simp only [bind_ok]
  split
  · rename_i b t
    split
    · rename_i hb
      have ha := isPhasing_ascii hb
      rw [strSliceTo_one ha h2, strSliceFrom_one ha h2]
      simp only [bind_ok]
      split <;> exact h3
    · exact h3
  · exact h3

theorem genotype_ne_panic (v : Bytes) (hv : U v) : genotype v ≠ .panic := by
  unfold genotype
  have hs := parseFirstAllele_sat hv
  refine bind_ne_panic hs.ne_panic ?_
  rintro ⟨a, rest⟩ ha
  refine bind_ne_panic (allelesFrom_ne_panic _ rest (hs.of_ok ha)) ?_
  intro as _
  simp

theorem sampleGenotypes_ne_panic : ∀ (l : List (Bytes × Bytes)), (∀ p ∈ l, U p.2) →
    sampleGenotypes l ≠ .panic
  | [], _ => by simp [sampleGenotypes]
  | (k, v) :: r, h => by
    unfold sampleGenotypes
    have hr : ∀ p ∈ r, U p.2 := fun p hp => h p (List.mem_cons_of_mem _ hp)
    split
    · refine bind_ne_panic (genotype_ne_panic v (h (k, v) (List.mem_cons_self))) fun _ _ => ?_
      refine bind_ne_panic (sampleGenotypes_ne_panic r hr) fun _ _ => ?_
      simp
    · exact sampleGenotypes_ne_panic r hr

theorem sampleValues_valid (keys : List Bytes) {s : Bytes} (hu : U s) :
    ∀ p ∈ sampleValues keys s, U p.2 := by
  unfold sampleValues
  split
  · simp
  · rintro ⟨k, v⟩ hp
    exact U_splitOn (by decide) s hu v (List.of_mem_zip hp).2

theorem allGenotypes_ne_panic (keys : List Bytes) : ∀ (samples : List Bytes), (∀ s ∈ samples, U s) →
    allGenotypes keys samples ≠ .panic := by
  intro samples
  induction samples with
  | nil => intro _; simp [allGenotypes]
  | cons s r ih =>
    intro h
    unfold allGenotypes
    refine bind_ne_panic (sampleGenotypes_ne_panic _
      (sampleValues_valid keys (h s (List.mem_cons_self)))) fun _ _ => ?_
    refine bind_ne_panic (ih fun x hx => h x (List.mem_cons_of_mem _ hx)) fun _ _ => ?_
    simp

/-! ## everything at once -/

theorem U_samplesText {s : Bytes} (h : U s) : U (samplesText s) := by
  unfold samplesText
  split
  · exact U_nil
  · exact h

theorem U_keysText {s : Bytes} (h : U s) : U (keysText s) := by
  unfold keysText
  split
  · rename_i k r hs
    exact (U_splitOnce (by decide) h hs).1
  · exact U_nil

theorem U_samplesRest {s : Bytes} (h : U s) : U (samplesRest s) := by
  unfold samplesRest
  split
  · rename_i k r hs
    exact (U_splitOnce (by decide) h hs).2
  · exact U_nil

theorem touch_ne_panic {r : Rec} (n : Nat) (h : RecOK (r, n)) : r.touch n ≠ .panic := by
  obtain ⟨he, hv, hn⟩ := h
  replace he : EndsOK U r.ends r.buf := he
  replace hv : U r.buf := hv
  replace hn : r.ends.length = 8 := hn
  unfold Rec.touch
  have hf : ∀ k, k < 8 → ∃ s, r.field k = .ok s ∧ U s := fun k hk => field_sat hv he (by omega)
  obtain ⟨c0, e0, _⟩ := hf 0 (by omega)
  obtain ⟨c1, e1, _⟩ := hf 1 (by omega)
  obtain ⟨c2, e2, _⟩ := hf 2 (by omega)
  obtain ⟨c3, e3, _⟩ := hf 3 (by omega)
  obtain ⟨c4, e4, _⟩ := hf 4 (by omega)
  obtain ⟨c5, e5, _⟩ := hf 5 (by omega)
  obtain ⟨c6, e6, _⟩ := hf 6 (by omega)
  obtain ⟨c7, e7, u7⟩ := hf 7 (by omega)
  obtain ⟨tl, et, ut⟩ := tail_sat hv he hn
  rw [e0, e1, e2, e3, e4, e5, e6, e7, et]
  simp only [bind_ok]
  refine bind_ne_panic (infoFields_ne_panic _ _ (U_unDot u7)) fun _ _ => ?_
  have hst := U_samplesText ut
  refine bind_ne_panic (keysIter_ne_panic _ _ (U_keysText hst)) fun keys _ => ?_
  have hs := samplesIter_sat ((samplesRest (samplesText tl)).length + 1) _ (U_samplesRest hst)
  refine bind_ne_panic hs.ne_panic fun samples hsm => ?_
  refine bind_ne_panic (allGenotypes_ne_panic keys samples (hs.of_ok hsm)) fun _ _ => ?_
  simp

theorem readAndTouch_ne_panic (input : Bytes) (hlen : input.length < 2 ^ 63) :
    readAndTouch true input ≠ .panic := by
  unfold readAndTouch
  have hs := readRecord_sat input hlen
  refine bind_ne_panic hs.ne_panic ?_
  rintro ⟨r, n⟩ hr
  exact touch_ne_panic n (hs.of_ok hr)


/-! carriage returns only in CRLF line endings -/

theorem readFieldV_crlf (src dst : Bytes) (hs : CRLFOnly src) (hd : dst.getLast? ≠ some CR) :
    readFieldV false src dst = readFieldV true src dst ∧
    ∀ f, readFieldV true src dst = .ok f →
      CRLFOnly f.rest ∧ (f.eol = false → f.dst.getLast? ≠ some CR) := by
  obtain ⟨e, hp⟩ := readField_crlf src dst hs hd
  unfold readFieldV
  rw [e]
  refine ⟨rfl, ?_⟩
  intro f hf
  cases hr : readField true src dst with
  | panic => rw [hr] at hf; simp at hf
  | err e => rw [hr] at hf; simp at hf
  | ok f' =>
    rw [hr] at hf
    simp only [bind_ok] at hf
    split at hf
    · cases hf; exact hp _ hr
    · cases hf

theorem readRequiredV_crlf : ∀ (k : Nat) (src dst : Bytes) (ends : List Nat) (len : Nat),
    CRLFOnly src → dst.getLast? ≠ some CR →
    readRequired (readFieldV false) k src dst ends len = readRequired (readFieldV true) k src dst ends len ∧
    ∀ r, readRequired (readFieldV true) k src dst ends len = .ok r →
      r.1.getLast? ≠ some CR ∧ CRLFOnly r.2.2.2
  | 0, src, dst, ends, len, hs, hd => by
    simp only [readRequired]
    exact ⟨trivial, by intro r hr; cases hr; exact ⟨hd, hs⟩⟩
  | k + 1, src, dst, ends, len, hs, hd => by
    unfold readRequired
    obtain ⟨e, hp⟩ := readFieldV_crlf src dst hs hd
    rw [e]
    cases hf : readFieldV true src dst with
    | panic => simp
    | err e => simp
    | ok f =>
      obtain ⟨h1, h2⟩ := hp f hf
      simp only [bind_ok]
      split
      · simp
      · rename_i hne
        cases hu : uadd len f.n with
        | panic => simp
        | err e => simp
        | ok l =>
          simp only [bind_ok]
          exact readRequiredV_crlf k f.rest f.dst _ l h1 (h2 (by simpa using hne))

theorem readRecord_crlf (input : Bytes) (h : CRLFOnly input) :
    readRecord false input = readRecord true input := by
  unfold readRecord
  obtain ⟨e, hp⟩ := readRequiredV_crlf 7 input [] [] 0 h (by simp)
  rw [e]
  cases hr : readRequired (readFieldV true) 7 input [] [] 0 with
  | panic => simp
  | err e => simp
  | ok r =>
    obtain ⟨dst, ends, len, src⟩ := r
    obtain ⟨h1, h2⟩ := hp _ hr
    simp only [bind_ok]
    obtain ⟨e2, hp2⟩ := readFieldV_crlf src dst h2 h1
    rw [e2]
    cases hf : readFieldV true src dst with
    | panic => simp
    | err e => simp
    | ok f =>
      obtain ⟨h3, h4⟩ := hp2 f hf
      simp only [bind_ok]
      split
      · rfl
      · rename_i hne
        unfold readLineIntoV
        rw [readLineInto_crlf f.rest f.dst (h4 (by simpa using hne))]

end Noodles.Hostile.VcfText
