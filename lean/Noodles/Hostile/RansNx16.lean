import Noodles.Hostile.CodecKit
import Noodles.Hostile.Rans4x8
/-!
# rANS Nx16 decoder on arbitrary bytes (C15)

Transcribed from noodles-cram `src/codecs/rans_nx16/decode.rs` (`decode`, `decode_chunk`,
`read_flags`, `read_uncompressed_size`, `read_alphabet`, `read_states`,
`state_cumulative_frequency`, `cumulative_frequencies_symbol`, `state_step`, `state_renormalize`,
`read_u16_le`, `split_off`), `decode/order_0.rs` (`decode`, `normalize_frequencies`,
`read_frequencies`, `build_cumulative_frequencies`), `decode/order_1.rs` (`decode`,
`read_frequencies`, `read_frequencies_inner`, `build_cumulative_frequencies`),
`decode/bit_pack.rs` + `bit_pack/context.rs`, `decode/rle.rs` + `rle/context.rs`,
`decode/stripe.rs` and `flags.rs`, as they are after the hardening commits 25447ea and 1d7a77e.

`u8`/`u32`/`usize` values are natural numbers; every table index, every `u32`/`usize`
`+ - * / % <<` and every slice carries its own check (`CodecKit.lean`). All eight flag bits are
defined, so `Flags::from(u8)` keeps the byte.
-/
namespace Noodles.Hostile.Nx16
open Noodles.Hostile Noodles.Hostile.Rd Noodles.Hostile.Codec

/-- `MAX_STRIPE_DEPTH` -/
def MAX_STRIPE_DEPTH : Nat := 8

/-! ## flags -/

def flagOrder (f : Nat) : Bool := f &&& 0x01 ≠ 0
def flagN32 (f : Nat) : Bool := f &&& 0x04 ≠ 0
def flagStripe (f : Nat) : Bool := f &&& 0x08 ≠ 0
def flagNoSize (f : Nat) : Bool := f &&& 0x10 ≠ 0
def flagCat (f : Nat) : Bool := f &&& 0x20 ≠ 0
def flagRle (f : Nat) : Bool := f &&& 0x40 ≠ 0
def flagPack (f : Nat) : Bool := f &&& 0x80 ≠ 0

/-- `Flags::state_count` -/
def stateCount (f : Nat) : Nat := if flagN32 f then 32 else 4

/-! ## alphabet -/

/-- `read_alphabet`: the symbol-run framing of `rans_4x8`'s `read_frequencies` (the loops are the
same statement for statement: `alphabet[usize::from(sym)] = true` where the frequency table has
`let f = read(src)?; frequencies[usize::from(sym)] = f`, `sym.checked_add(1)` where it has
`next_symbol`), with an entry that reads nothing -/
def readAlphabet : Rd (List Bool) := R4x8.readRuns (Rd.pure true) false

/-! ## frequency tables -/

/-- `frequencies.iter().try_fold(0u32, |sum, &f| sum.checked_add(f))` -/
def checkedSum : List Nat → Nat → Option Nat
  | [], acc => some acc
  | f :: rest, acc => if acc + f ≤ 4294967295 then checkedSum rest (acc + f) else none

/-- `while sum < total { sum *= 2; shift += 1; }` (fuel 32: `total ≤ 2^31`, `sum ≥ 1`) -/
def shiftLoop (total : Nat) : Nat → Nat → Nat → Res (Nat × Nat)
  | 0, _, _ => .panic
  | fuel + 1, sum, shift =>
    if sum < total then do
      let sum ← mul32 sum 2
      let shift ← add32 shift 1
      shiftLoop total fuel sum shift
    else pure (sum, shift)

/-- `for f in frequencies { *f <<= shift; }` -/
def shiftAll (shift : Nat) : List Nat → Res (List Nat)
  | [] => .ok []
  | f :: rest => do
    let v ← shl32 f shift
    let tl ← shiftAll shift rest
    pure (v :: tl)

/-- `normalize_frequencies(frequencies, bits)`: `Ok` with the (possibly scaled) table, or the
`invalid frequency table` error (`none`) -/
def normalize (F : List Nat) (bits : Nat) : Res (Option (List Nat)) := do
  let total ← shl32 1 bits
  match checkedSum F 0 with
  | none => pure none
  | some sum =>
    if sum > total then pure none
    else if sum = 0 ∨ sum = total then pure (some F)
    else
      let (sum, shift) ← shiftLoop total 32 sum 0
      if sum ≠ total then pure none
      else
        let F ← shiftAll shift F
        pure (some F)

/-- `normalize_frequencies(..)?` -/
def normalizeRd (F : List Nat) (bits : Nat) : Rd (List Nat) := do
  let r ← Rd.lift (normalize F bits)
  match r with
  | some F => return F
  | none => Rd.fail .invalidData

/-- `for (i, frequency) in alphabet.iter().zip(&mut frequencies) { if *i { *frequency =
read_uint7(src)?; } }` -/
def readFreqsA : List Bool → Rd (List Nat)
  | [] => Rd.pure []
  | a :: rest => do
    let f ← (if a then readUint7 else Rd.pure 0)
    let tl ← readFreqsA rest
    return f :: tl

/-- `order_0::read_frequencies` (`NORMALIZATION_BITS = 12`) -/
def readFrequencies0 : Rd (List Nat) := do
  let A ← readAlphabet
  let F ← readFreqsA A
  normalizeRd F 12

/-- `build_cumulative_frequencies` on `u32`; the row is then kept as an `Array` (constant-time
access, same bounds check) -/
def buildCum (F : List Nat) : Res (Array Nat) := do
  let C ← R4x8.buildCum add32 F
  pure C.toArray

/-! ## the state machine -/

/-- `read_states`: `state_count` values `u32` -/
def readStates (N : Nat) : Rd (List Nat) := Rd.many readU32 N

/-- `(1 << bits) - 1` on `u32` -/
def mask (bits : Nat) : Res Nat := do
  let t ← shl32 1 bits
  usub t 1

/-- `state_cumulative_frequency`: `s & ((1 << bits) - 1)` -/
def stateCumFreq (s bits : Nat) : Res Nat := do
  let m ← mask bits
  pure (s &&& m)

/-- `cumulative_frequencies_symbol`: `let mut sym = 0; while sym < 255 && frequency >=
cumulative_frequencies[usize::from(sym + 1)] { sym += 1; }` — the loop of the rANS 4x8 table
builder, started at 0 (fuel 256) -/
def cumSymbol (C : Array Nat) (f : Nat) : Res Nat := R4x8.advance C f 256 0

/-- `state_step`: `f * (s >> bits) + (s & ((1 << bits) - 1)) - g`; `s >> bits` panics for
`bits ≥ 32` -/
def stateStep (s f g bits : Nat) : Res Nat := do
  let hi ← (if bits < 32 then .ok (s >>> bits) else .panic : Res Nat)
  let a ← mul32 f hi
  let m ← mask bits
  let b ← add32 a (s &&& m)
  usub b g

/-- `state_renormalize`: `if s < (1 << 15) { s = (s << 16) + read_u16_le(src)? }` -/
def renormalize (s : Nat) : Rd Nat :=
  if s < 2^15 then do
    let lo ← readU16le
    let hi ← Rd.lift (shl32 s 16)
    Rd.lift (add32 hi lo)
  else
    return s

/-- one symbol in the context `(F, C)` with normalisation `bits`: returns `(symbol, new state)` -/
def decodeSym (F : List Nat) (C : Array Nat) (bits s : Nat) : Rd (Nat × Nat) := do
  let f ← Rd.lift (stateCumFreq s bits)
  let sym ← Rd.lift (cumSymbol C f)
  let fr ← Rd.lift (idxN F sym)
  let g ← Rd.lift (idxA C sym)
  let s ← Rd.lift (stateStep s fr g bits)
  let s ← renormalize s
  return (sym, s)

/-! ## order 0 -/

/-- the symbol loop of `order_0::decode`: output byte `i` is decoded with state `i % state_count`
(`dst.chunks_mut(states.len())` panics for a chunk size of 0: the `umod`) -/
def step0 (F : List Nat) (C : Array Nat) (N : Nat) (i : Nat) (st : List Nat × List Nat) :
    Rd (List Nat × List Nat) := do
  let j ← Rd.lift (umod i N)
  let s ← Rd.lift (idxN st.1 j)
  let (sym, s) ← decodeSym F C 12 s
  let states ← Rd.lift (setN st.1 j s)
  return (states, sym :: st.2)

/-- `order_0::decode(src, dst, state_count)` into a destination of `n` bytes -/
def decode0 (N n : Nat) : Rd (List Nat) := do
  let F ← readFrequencies0
  let C ← Rd.lift (buildCum F)
  let states ← readStates N
  let (_, out) ← forN (step0 F C N) n 0 (states, [])
  return out.reverse

/-! ## order 1 -/

/-- one row of `read_frequencies_inner`: `let mut iter = alphabet.iter().zip(fs.iter_mut())
.filter(|(b, _)| **b); while let Some((_, f)) = iter.next() { *f = read_uint7(src)?; if *f == 0
{ let n = read_u8(src)?; for _ in iter.by_ref().take(n) {} } }` — `skip` selected columns are
still to be passed over -/
def readRow : List Bool → Nat → Rd (List Nat)
  | [], _ => Rd.pure []
  | false :: rest, skip => do
    let tl ← readRow rest skip
    return 0 :: tl
  | true :: rest, skip + 1 => do
    let tl ← readRow rest skip
    return 0 :: tl
  | true :: rest, 0 => do
    let f ← readUint7
    let skip ← (if f = 0 then readU8 else Rd.pure 0)
    let tl ← readRow rest skip
    return f :: tl

/-- the rows: `for (_, fs) in alphabet.iter().zip(frequencies).filter(|(a, _)| **a) { …;
normalize_frequencies(fs, bits)?; }`; a row outside the alphabet stays zero -/
def readRows (A : List Bool) (bits : Nat) : List Bool → Rd (List (List Nat))
  | [] => Rd.pure []
  | false :: rest => do
    let tl ← readRows A bits rest
    return List.replicate 256 0 :: tl
  | true :: rest => do
    let r ← readRow A 0
    let r ← normalizeRd r bits
    let tl ← readRows A bits rest
    return r :: tl

/-- `read_frequencies_inner` -/
def readFrequenciesInner (bits : Nat) : Rd (List (List Nat)) := do
  let A ← readAlphabet
  readRows A bits A

/-- `order_1::read_frequencies`: `(bits, table)`; the table may itself be order-0 compressed
with four states -/
def readFrequencies1 (alloc : Nat → Bool) : Rd (Nat × List (List Nat)) := do
  let n ← readU8
  let bits := n >>> 4
  if n &&& 0x01 ≠ 0 then
    let usize ← readUint7
    let csize ← readUint7
    let comp ← splitOff csize
    let _ ← Rd.lift (allocZeroed alloc usize)
    let dst ← Rd.lift (onBuf (decode0 4 usize) comp)
    let Fs ← Rd.lift (onBuf (readFrequenciesInner bits) (toBytes dst))
    return (bits, Fs)
  else
    let Fs ← readFrequenciesInner bits
    return (bits, Fs)

/-- one symbol with context `prev` -/
def decodeSym1 (Fs : List (List Nat)) (Cs : List (Array Nat)) (bits prev s : Nat) :
    Rd (Nat × Nat) := do
  let F ← Rd.lift (idxN Fs prev)
  let C ← Rd.lift (idxN Cs prev)
  decodeSym F C bits s

/-- lane `j` of round `i`: `dst[j * chunk_size + i] = sym`; loop state: states, previous
symbols, destination -/
def lane1 (Fs : List (List Nat)) (Cs : List (Array Nat)) (bits q i : Nat) (j : Nat)
    (st : List Nat × List Nat × Array Nat) : Rd (List Nat × List Nat × Array Nat) := do
  let s ← Rd.lift (idxN st.1 j)
  let p ← Rd.lift (idxN st.2.1 j)
  let (sym, s) ← decodeSym1 Fs Cs bits p s
  let at_ ← Rd.lift (umul j q)
  let at_ ← Rd.lift (uadd at_ i)
  let dst ← Rd.lift (setA st.2.2 at_ sym)
  let states ← Rd.lift (setN st.1 j s)
  let prevs ← Rd.lift (setN st.2.1 j sym)
  return (states, prevs, dst)

/-- the loop over `last_chunk = &mut dst[chunk_size * state_count..]`; loop state
`(state, prev_sym, dst)`, writing at `base + i` -/
def tail1 (Fs : List (List Nat)) (Cs : List (Array Nat)) (bits base : Nat) (i : Nat)
    (st : Nat × Nat × Array Nat) : Rd (Nat × Nat × Array Nat) := do
  let (sym, s) ← decodeSym1 Fs Cs bits st.2.1 st.1
  let dst ← Rd.lift (setA st.2.2 (base + i) sym)
  return (s, sym, dst)

/-- `order_1::decode(src, dst, state_count)` into a destination of `n` bytes -/
def decode1 (alloc : Nat → Bool) (N n : Nat) : Rd (List Nat) := do
  let (bits, Fs) ← readFrequencies1 alloc
  let Cs ← Rd.lift (R4x8.mapRows buildCum Fs)
  let states ← readStates N
  let q ← Rd.lift (udiv n N)                                   -- `dst.len() / state_count`
  let (states, prevs, dst) ←
    forN (fun i st => forN (lane1 Fs Cs bits q i) N 0 st) q 0
      (states, List.replicate N 0, Array.replicate n 0)
  let base ← Rd.lift (umul q N)                                -- `chunk_size * state_count`
  let last ← Rd.lift (usub n base)                             -- `&mut dst[base..]`
  let s ← Rd.lift (unwrap states.getLast?)                     -- `*states.last().unwrap()`
  let p ← Rd.lift (unwrap prevs.getLast?)                      -- `*prev_syms.last().unwrap()`
  let (_, _, dst) ← forN (tail1 Fs Cs bits base) last 0 (s, p, dst)
  return dst.toList

/-! ## bit packing -/

/-- `bit_pack::read_context`: `(symbol_count, mapping_table, len)`; a symbol count of 0 is
`InvalidData` (`NonZero::try_from`) -/
def readPackContext : Rd (Nat × Bytes × Nat) := do
  let n ← readU8
  if n = 0 then Rd.fail .invalidData
  else
    let map ← splitOff n
    let len ← readUint7
    return (n, map, len)

/-- the inner `for d in chunk { *d = *mapping_table.get(usize::from(s & mask))?; s >>= shift; }`
over a chunk of `k` bytes: `none` when a value is not an index of the table -/
def unpackByte (map : Bytes) (shift msk : Nat) : Nat → Nat → Option Bytes
  | 0, _ => some []
  | k + 1, s =>
    match map[s &&& msk]? with
    | none => none
    | some v =>
      match unpackByte map shift msk k (s >>> shift) with
      | none => none
      | some tl => some (v :: tl)

/-- `for (mut s, chunk) in src.iter().copied().zip(dst.chunks_mut(chunk_size))`: `rem` bytes of
the destination are still unwritten; they stay 0 when the source ends first -/
def unpackLoop (map : Bytes) (per shift msk : Nat) : Bytes → Nat → Option Bytes
  | [], rem => some (List.replicate rem 0)
  | s :: rest, rem =>
    if rem = 0 then some []
    else
      let k := min per rem
      match unpackByte map shift msk k s.toNat with
      | none => none
      | some chunk =>
        match unpackLoop map per shift msk rest (rem - k) with
        | none => none
        | some tl => some (chunk ++ tl)

/-- `unpack(src, mapping_table, chunk_size, dst)`: `shift = 8 / chunk_size`,
`mask = (1 << shift) - 1` -/
def unpack (src map : Bytes) (per n : Nat) : Res (Option Bytes) := do
  let shift ← udiv 8 per
  let t ← shl32 1 shift
  let msk ← usub t 1
  pure (unpackLoop map per shift msk src n)

/-- `bit_pack::decode(src, ctx)` with `ctx = (symbol_count, mapping_table, uncompressed_size)` -/
def packDecode (alloc : Nat → Bool) (src : Bytes) (ctx : Nat × Bytes × Nat) : Res Bytes := do
  let _ ← allocZeroed alloc ctx.2.2
  let r ←
    (if ctx.1 = 1 then do
      let v ← index ctx.2.1 0                                  -- `mapping_table[0]`
      pure (some (List.replicate ctx.2.2 v))
    else if ctx.1 = 2 then unpack src ctx.2.1 8 ctx.2.2
    else if ctx.1 ≤ 4 then unpack src ctx.2.1 4 ctx.2.2
    else if ctx.1 ≤ 16 then unpack src ctx.2.1 2 ctx.2.2
    else .err .invalidInput)
  match r with
  | some dst => pure dst
  | none => .err .invalidData

/-! ## run lengths -/

/-- `rle::read_context`: `(context bytes, len)`. `read_header`: `n = read_uint7`,
`context_size = n >> 1`, compressed when the low bit is clear. -/
def readRleContext (alloc : Nat → Bool) (N : Nat) : Rd (Bytes × Nat) := do
  let n ← readUint7
  let ctxSize := n >>> 1
  let len ← readUint7
  if n &&& 0x01 = 0 then
    let csize ← readUint7
    let buf ← splitOff csize
    let _ ← Rd.lift (allocZeroed alloc ctxSize)
    let dst ← Rd.lift (onBuf (decode0 N ctxSize) buf)
    return (toBytes dst, len)
  else
    let ctx ← splitOff ctxSize
    return (ctx, len)

/-- `for _ in 0..symbol_count { let sym = read_u8(src)?; alphabet[usize::from(sym)] = true; }` -/
def rleAlphaLoop : Nat → List Bool → Rd (List Bool)
  | 0, A => Rd.pure A
  | k + 1, A => do
    let sym ← readU8
    let A ← Rd.lift (setN A sym true)
    rleAlphaLoop k A

/-- `read_rle_alphabet`: a count byte (0 means 256), then that many symbols -/
def readRleAlphabet : Rd (List Bool) := do
  let n ← readU8
  rleAlphaLoop (if n = 0 then 256 else n) (List.replicate 256 false)

/-- the `while let Some(d) = iter.next()` loop of `rle::decode`: `k` bytes of the destination
are still to be written (fuel `k`: every iteration writes at least one); `src` is the literal
stream, `lens` the run-length stream; output reversed in `acc` -/
def rleLoop (A : List Bool) : Nat → Nat → Bytes → Bytes → Bytes → Res Bytes
  | _, 0, _, _, acc => .ok acc.reverse
  | 0, _ + 1, _, _, _ => .panic
  | fuel + 1, k + 1, src, lens, acc =>
    match src with
    | [] => .err .eof
    | sym :: src =>
      match idxN A sym.toNat with                              -- `rle_alphabet[usize::from(sym)]`
      | .panic => .panic
      | .err e => .err e
      | .ok false => rleLoop A fuel k src lens (sym :: acc)
      | .ok true =>
        match readUint7 lens with
        | .panic => .panic
        | .err e => .err e
        | .ok (len, lens) =>
          let run := min len k                                 -- `iter.by_ref().take(len)`
          rleLoop A fuel (k - run) src lens (List.replicate run sym ++ sym :: acc)

/-- `rle::decode(src, ctx)` with `ctx = (context bytes, len)` -/
def rleDecode (alloc : Nat → Bool) (src : Bytes) (ctx : Bytes × Nat) : Res Bytes :=
  match readRleAlphabet ctx.1 with
  | .panic => .panic
  | .err e => .err e
  | .ok (A, lens) => do
    let _ ← allocZeroed alloc ctx.2
    rleLoop A ctx.2 ctx.2 src lens []

/-! ## stripes -/

/-- `build_uncompressed_sizes(len, chunk_count)`: `len / n + 1` for the first `len % n` chunks -/
def buildSizes (len n : Nat) : Res (List Nat) := do
  let q ← udiv len n
  let r ← umod len n
  pure ((List.range n).map fun i => if r > i then q + 1 else q)

/-- the chunks of a stripe: for each `(compressed_size, uncompressed_size)`: `split_off`, the
recursive `decode_chunk`, `validate_chunk_size` -/
def stripeChunks (rec : Bytes → Nat → Res Bytes) : List (Nat × Nat) → Rd (List Bytes)
  | [] => Rd.pure []
  | (csize, usize) :: rest => do
    let buf ← splitOff csize
    let chunk ← Rd.lift (rec buf usize)
    if chunk.length = usize then
      let tl ← stripeChunks rec rest
      return chunk :: tl
    else Rd.fail .invalidData

/-- `for (j, s) in chunk.iter().enumerate() { dst[j * chunks.len() + i] = *s; }` -/
def transposeChunk (n i : Nat) : Bytes → Nat → Array UInt8 → Res (Array UInt8)
  | [], _, dst => .ok dst
  | s :: rest, j, dst => do
    let a ← umul j n
    let a ← uadd a i
    let dst ← setA dst a s
    transposeChunk n i rest (j + 1) dst

/-- `for (i, chunk) in chunks.iter().enumerate()` -/
def transposeLoop (n : Nat) : List Bytes → Nat → Array UInt8 → Res (Array UInt8)
  | [], _, dst => .ok dst
  | chunk :: rest, i, dst => do
    let dst ← transposeChunk n i chunk 0 dst
    transposeLoop n rest (i + 1) dst

/-- `transpose(chunks, uncompressed_size)` (`vec![0; uncompressed_size]`: an infallible
allocation, outside the model) -/
def transpose (chunks : List Bytes) (len : Nat) : Res Bytes := do
  let dst ← transposeLoop chunks.length chunks 0 (Array.replicate len 0)
  pure dst.toList

/-- `stripe::decode` after the depth check, with `rec` the decoder of a chunk one level deeper -/
def stripeDecode (rec : Bytes → Nat → Res Bytes) (len : Nat) : Rd Bytes := do
  let n ← readU8
  if n = 0 then Rd.fail .invalidData                           -- `NonZero::try_from`
  else
    let csizes ← Rd.many readUint7 n
    let usizes ← Rd.lift (buildSizes len n)
    let chunks ← stripeChunks rec (csizes.zip usizes)
    Rd.lift (transpose chunks len)

/-! ## `decode_chunk` -/

/-- the entropy-coded (or stored) payload of a chunk -/
def decodeData (alloc : Nat → Bool) (flags len : Nat) : Rd Bytes :=
  if flagCat flags then splitOff len
  else do
    let _ ← Rd.lift (allocZeroed alloc len)
    let out ← (if flagOrder flags then decode1 alloc (stateCount flags) len
      else decode0 (stateCount flags) len)
    return toBytes out

/-- `if let Some(ctx) = rle_context { dst = rle::decode(&dst, &ctx)?; }` -/
def undoRle (alloc : Nat → Bool) (rle : Option (Bytes × Nat)) (dst : Bytes) : Res Bytes :=
  match rle with
  | some ctx => rleDecode alloc dst ctx
  | none => .ok dst

/-- `if let Some(ctx) = bit_pack_context { dst = bit_pack::decode(&dst, &ctx)?; }` -/
def undoPack (alloc : Nat → Bool) (pack : Option (Nat × Bytes × Nat)) (dst : Bytes) : Res Bytes :=
  match pack with
  | some ctx => packDecode alloc dst ctx
  | none => .ok dst

/-- everything of `decode_chunk` after the stripe branch -/
def decodePlain (alloc : Nat → Bool) (flags len : Nat) : Rd Bytes := do
  let (pack, len) ←
    (if flagPack flags then do
      let c ← readPackContext
      return (some (c.1, c.2.1, len), c.2.2)
    else return (none, len) : Rd (Option (Nat × Bytes × Nat) × Nat))
  let (rle, len) ←
    (if flagRle flags then do
      let c ← readRleContext alloc (stateCount flags)
      return (some (c.1, len), c.2)
    else return (none, len) : Rd (Option (Bytes × Nat) × Nat))
  let dst ← decodeData alloc flags len
  let dst ← Rd.lift (undoRle alloc rle dst)
  Rd.lift (undoPack alloc pack dst)

/-- the body of `decode_chunk`; `rec` is the decoder one stripe level deeper, `none` when
`stripe_depth >= MAX_STRIPE_DEPTH` -/
def chunkBody (alloc : Nat → Bool) (rec : Option (Bytes → Nat → Res Bytes)) (len : Nat) :
    Rd Bytes := do
  let flags ← readU8
  let len ← (if flagNoSize flags then Rd.pure len else readUint7)
  if flagStripe flags then
    match rec with
    | none => Rd.fail .invalidData
    | some rec => stripeDecode rec len
  else decodePlain alloc flags len

/-- `decode_chunk(src, uncompressed_size, stripe_depth)` with `rem = MAX_STRIPE_DEPTH -
stripe_depth` levels of striping still allowed -/
def decodeChunk (alloc : Nat → Bool) : Nat → Bytes → Nat → Res Bytes
  | 0, src, len => onBuf (chunkBody alloc none len) src
  | rem + 1, src, len => onBuf (chunkBody alloc (some (decodeChunk alloc rem)) len) src

/-- `rans_nx16::decode(src, uncompressed_size)` -/
def decode (alloc : Nat → Bool) (src : Bytes) (len : Nat) : Res Bytes :=
  decodeChunk alloc MAX_STRIPE_DEPTH src len

end Noodles.Hostile.Nx16
