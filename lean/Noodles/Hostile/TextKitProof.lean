import Noodles.Hostile.TextKit
import Noodles.Hostile.Proof
/-! Helper lemmas for `Noodles/Props/C15Text.lean`: the shared reader pieces of `TextKit.lean`
(`findIdx`, `readField`, `readLineInto`, `readRequired`, the field-end invariant). -/
namespace Noodles.Hostile.Text
open Noodles.Hostile Res

/-! ## `findIdx` -/

theorem findIdx_some {p : UInt8 → Bool} : ∀ {s : Bytes} {i : Nat}, findIdx p s = some i →
    ∃ h : i < s.length, p s[i] = true
  | [], i, h => by simp [findIdx] at h
  | b :: r, i, h => by
    unfold findIdx at h
    split at h
    · rename_i hb
      cases h
      exact ⟨by simp, by simpa using hb⟩
    · cases hr : findIdx p r with
      | none => simp [hr] at h
      | some j =>
        simp only [hr, Option.map_some, Option.some.injEq] at h
        subst h
        obtain ⟨hj, hp⟩ := findIdx_some hr
        exact ⟨by simp; omega, by simpa using hp⟩

theorem findIdx_lt {p : UInt8 → Bool} {s : Bytes} {i : Nat} (h : findIdx p s = some i) :
    i < s.length := (findIdx_some h).1

theorem findIdx_none {p : UInt8 → Bool} : ∀ {s : Bytes}, findIdx p s = none → ∀ b ∈ s, p b = false
  | [], _ => by simp
  | b :: r, h => by
    unfold findIdx at h
    split at h
    · cases h
    · rename_i hb
      cases hr : findIdx p r with
      | some j => simp [hr] at h
      | none =>
        intro c hc
        rcases List.mem_cons.mp hc with rfl | hc
        · simpa using hb
        · exact findIdx_none hr c hc

/-- nothing before the index satisfies the predicate -/
theorem findIdx_before {p : UInt8 → Bool} : ∀ {s : Bytes} {i : Nat}, findIdx p s = some i →
    ∀ b ∈ s.take i, p b = false
  | [], i, h => by simp [findIdx] at h
  | b :: r, i, h => by
    unfold findIdx at h
    split at h
    · cases h; simp
    · rename_i hb
      cases hr : findIdx p r with
      | none => simp [hr] at h
      | some j =>
        simp only [hr, Option.map_some, Option.some.injEq] at h
        subst h
        intro c hc
        simp only [List.take_succ_cons, List.mem_cons] at hc
        rcases hc with rfl | hc
        · simpa using hb
        · exact findIdx_before hr c hc

/-! ## `endsWith` / `popIf` -/

theorem dropLast_append_of_ne_nil (a : Bytes) {b : Bytes} (h : b ≠ []) :
    (a ++ b).dropLast = a ++ b.dropLast := List.dropLast_append_of_ne_nil h

theorem endsWith_ne_nil {v : Bytes} {b : UInt8} (h : endsWith v b = true) : v ≠ [] := by
  intro e; subst e; simp [endsWith] at h


/-! ## `readField` -/

/-- what one field read guarantees: the input is consumed exactly, and (fixed code) the record
buffer only grows — the bytes recorded so far stay where they are -/
structure FieldOK (fixed : Bool) (src dst : Bytes) (f : FieldRead) : Prop where
  consumed : f.n + f.rest.length = src.length
  grows : fixed = true → ∃ g, f.dst = dst ++ g

theorem readField_sat (fixed : Bool) (src dst : Bytes) (hlen : src.length < 2 ^ 63) :
    Sat (readField fixed src dst) (FieldOK fixed src dst) := by
  unfold readField
  split
  · rename_i he
    have : src = [] := by simpa using he
    subst this
    exact ⟨by simp, fun _ => ⟨[], by simp⟩⟩
  · split
    · rename_i i hi
      have hlt := findIdx_lt hi
      rw [index_ok hlt, sliceTo_ok (Nat.le_of_lt hlt), uadd_ok (by simp only [USIZE]; omega)]
      simp only [bind_ok]
      rw [sliceFrom_ok (by omega)]
      simp only [bind_ok]
      cases fixed with
      | true =>
        simp only [if_true]
        rw [sliceFrom_ok (by simp)]
        simp only [bind_ok, Sat]
        refine ⟨by simp only [List.length_drop]; omega, fun _ => ?_⟩
        simp only [List.drop_left']
        split
        · rename_i hc
          simp only [Bool.and_eq_true] at hc
          exact ⟨(src.take i).dropLast, dropLast_append_of_ne_nil dst (endsWith_ne_nil hc.2)⟩
        · exact ⟨src.take i, rfl⟩
      | false =>
        simp only [Bool.false_eq_true, if_false, Sat]
        exact ⟨by simp only [List.length_drop]; omega, by simp⟩
    · rw [sliceFrom_ok (Nat.le_refl _)]
      simp only [bind_ok, Sat]
      exact ⟨by simp, fun _ => ⟨src, rfl⟩⟩

theorem readField_ne_panic (fixed : Bool) (src dst : Bytes) (hlen : src.length < 2 ^ 63) :
    readField fixed src dst ≠ .panic := (readField_sat fixed src dst hlen).ne_panic

/-- without a carriage return in sight the code as it is and the fixed code read the same field -/
theorem readField_noCR (src dst : Bytes) (hs : CR ∉ src) (hd : CR ∉ dst) :
    readField false src dst = readField true src dst ∧
    ∀ f, readField true src dst = .ok f → CR ∉ f.dst ∧ CR ∉ f.rest := by
  unfold readField
  split
  · exact ⟨rfl, by intro f hf; cases hf; exact ⟨hd, by simp⟩⟩
  · split
    · rename_i i hi
      have hlt := findIdx_lt hi
      rw [index_ok hlt, sliceTo_ok (Nat.le_of_lt hlt)]
      simp only [bind_ok]
      cases hu : uadd i 1 with
      | panic => simp
      | err e => simp
      | ok n =>
        simp only [bind_ok]
        cases hr : sliceFrom src n with
        | panic => simp
        | err e => simp
        | ok rest =>
          simp only [bind_ok, if_true, Bool.false_eq_true, if_false]
          rw [sliceFrom_ok (by simp)]
          simp only [bind_ok]
          have hbuf : CR ∉ src.take i := fun h => hs (List.mem_of_mem_take h)
          have hnew : CR ∉ dst ++ src.take i := by
            simp only [List.mem_append, not_or]; exact ⟨hd, hbuf⟩
          have e1 : endsWith (dst ++ src.take i) CR = false := by
            unfold endsWith
            cases hl : (dst ++ src.take i).getLast? with
            | none => simp
            | some c =>
              have := List.mem_of_getLast? hl
              simp only [beq_eq_false_iff_ne, ne_eq, Option.some.injEq]
              intro hc; subst hc; exact hnew this
          have e2 : endsWith (List.drop dst.length (dst ++ src.take i)) CR = false := by
            rw [List.drop_left]
            unfold endsWith
            cases hl : (src.take i).getLast? with
            | none => simp
            | some c =>
              have := List.mem_of_getLast? hl
              simp only [beq_eq_false_iff_ne, ne_eq, Option.some.injEq]
              intro hc; subst hc; exact hbuf this
          simp only [e1, e2, Bool.and_false, Bool.false_eq_true, if_false, true_and]
          intro f hf
          cases hf
          refine ⟨hnew, ?_⟩
          unfold sliceFrom at hr
          split at hr
          · cases hr; exact fun h => hs (List.mem_of_mem_drop h)
          · cases hr
    · refine ⟨rfl, ?_⟩
      intro f hf
      rw [sliceFrom_ok (Nat.le_refl _)] at hf
      simp only [bind_ok] at hf
      cases hf
      simp only [List.mem_append, not_or, List.drop_length, List.not_mem_nil, not_false_eq_true, and_true]
      exact ⟨hd, hs⟩


/-! ## `readLineInto` -/

theorem popIf_of_not_mem {v : Bytes} {b : UInt8} (h : b ∉ v) : popIf v b = v := by
  unfold popIf endsWith
  cases hl : v.getLast? with
  | none => simp
  | some c =>
    have := List.mem_of_getLast? hl
    have : c ≠ b := fun e => h (e ▸ this)
    simp [this]

theorem popIf_append (a : Bytes) {t : Bytes} (b : UInt8) (ht : t ≠ []) :
    ∃ g, popIf (a ++ t) b = a ++ g := by
  unfold popIf
  split
  · exact ⟨t.dropLast, dropLast_append_of_ne_nil a ht⟩
  · exact ⟨t, rfl⟩

theorem readLineInto_sat (fixed : Bool) (src buf : Bytes) :
    (readLineInto fixed src buf).2.1 + (readLineInto fixed src buf).2.2.length = src.length ∧
    (fixed = true → ∃ g, (readLineInto fixed src buf).1 = buf ++ g) := by
  unfold readLineInto
  split
  · rename_i i hi
    have hlt := findIdx_lt hi
    refine ⟨by simp only [List.length_drop]; omega, fun hf => ?_⟩
    subst hf
    simp only [if_true]
    split
    · rename_i hn
      have : src.take i ≠ [] := by
        intro e
        have := congrArg List.length e
        simp only [List.length_take, List.length_nil] at this
        omega
      exact popIf_append buf CR this
    · exact ⟨src.take i, rfl⟩
  · exact ⟨by simp, fun _ => ⟨src, rfl⟩⟩

theorem readLineInto_noCR (src buf : Bytes) (hs : CR ∉ src) (hb : CR ∉ buf) :
    readLineInto false src buf = readLineInto true src buf := by
  unfold readLineInto
  split
  · rename_i i hi
    have hnew : CR ∉ buf ++ src.take i := by
      simp only [List.mem_append, not_or]
      exact ⟨hb, fun h => hs (List.mem_of_mem_take h)⟩
    simp only [Bool.false_eq_true, popIf_of_not_mem hnew, ite_self]
  · rfl

/-! ## field ends -/

/-- the recorded ends are non-decreasing and inside the buffer; `Q` holds of every recorded prefix
(`True` for the byte buffers of SAM and BED, UTF-8 validity for the `String` of VCF) -/
structure EndsOK (Q : Bytes → Prop) (ends : List Nat) (buf : Bytes) : Prop where
  sorted : ends.Pairwise (· ≤ ·)
  le : ∀ e ∈ ends, e ≤ buf.length
  pre : ∀ e ∈ ends, Q (buf.take e)

theorem EndsOK.nil (Q : Bytes → Prop) (buf : Bytes) : EndsOK Q [] buf :=
  ⟨List.Pairwise.nil, by simp, by simp⟩

/-- the buffer grew (its old bytes kept), and its new length is recorded -/
theorem EndsOK.snoc {Q : Bytes → Prop} {ends : List Nat} {buf g : Bytes}
    (h : EndsOK Q ends buf) (hq : Q (buf ++ g)) : EndsOK Q (ends ++ [(buf ++ g).length]) (buf ++ g) := by
  refine ⟨?_, ?_, ?_⟩
  · rw [List.pairwise_append]
    refine ⟨h.sorted, List.pairwise_singleton _ _, ?_⟩
    intro a ha b hb
    simp only [List.mem_singleton] at hb
    subst hb
    have := h.le a ha
    simp only [List.length_append]; omega
  · intro e he
    rcases List.mem_append.mp he with he | he
    · have := h.le e he
      simp only [List.length_append]; omega
    · simp only [List.mem_singleton] at he; omega
  · intro e he
    rcases List.mem_append.mp he with he | he
    · rw [List.take_append_of_le_length (h.le e he)]
      exact h.pre e he
    · simp only [List.mem_singleton] at he
      subst he
      rw [List.take_length]; exact hq

/-- the buffer grew, nothing recorded -/
theorem EndsOK.grow {Q : Bytes → Prop} {ends : List Nat} {buf : Bytes} (g : Bytes)
    (h : EndsOK Q ends buf) : EndsOK Q ends (buf ++ g) := by
  refine ⟨h.sorted, ?_, ?_⟩
  · intro e he
    have := h.le e he
    simp only [List.length_append]; omega
  · intro e he
    rw [List.take_append_of_le_length (h.le e he)]
    exact h.pre e he

theorem EndsOK.start_le {Q : Bytes → Prop} {ends : List Nat} {buf : Bytes} (h : EndsOK Q ends buf)
    {k : Nat} (hk : k < ends.length) :
    fieldStart ends k ≤ ends.getD k 0 ∧ ends.getD k 0 ≤ buf.length := by
  have hk' : ends.getD k 0 = ends[k] := by simp [List.getD, List.getElem?_eq_getElem hk]
  rw [hk']
  refine ⟨?_, h.le _ (List.getElem_mem hk)⟩
  unfold fieldStart
  split
  · omega
  · rename_i h0
    have hk1 : k - 1 < ends.length := by omega
    have : ends.getD (k - 1) 0 = ends[k - 1] := by simp [List.getD, List.getElem?_eq_getElem hk1]
    rw [this]
    exact (List.pairwise_iff_getElem.mp h.sorted) (k - 1) k hk1 hk (by omega)

theorem fieldSlice_ne_panic {Q : Bytes → Prop} {ends : List Nat} {buf : Bytes}
    (h : EndsOK Q ends buf) {k : Nat} (hk : k < ends.length) : fieldSlice buf ends k ≠ .panic := by
  unfold fieldSlice
  rw [slice_ne_panic_iff]
  exact h.start_le hk

theorem tailSlice_ne_panic {Q : Bytes → Prop} {ends : List Nat} {buf : Bytes}
    (h : EndsOK Q ends buf) {k : Nat} (hk : k < ends.length) : tailSlice buf ends k ≠ .panic := by
  unfold tailSlice
  rw [sliceFrom_ne_panic_iff]
  exact (h.start_le hk).2

/-! ## `readRequired` -/

/-- the contract of a (fixed) field reader `rf`, with the buffer property `Q` it establishes -/
def FieldSpec (Q : Bytes → Prop) (rf : Bytes → Bytes → Res FieldRead) : Prop :=
  ∀ src dst, src.length < 2 ^ 63 → Sat (rf src dst) (fun f => FieldOK true src dst f ∧ Q f.dst)

theorem readField_spec : FieldSpec (fun _ => True) (readField true) := by
  intro src dst h
  have := readField_sat true src dst h
  cases hr : readField true src dst with
  | panic => rw [hr] at this; exact this
  | err e => trivial
  | ok f => rw [hr] at this; exact ⟨this, trivial⟩

theorem readRequired_sat {Q : Bytes → Prop} {rf : Bytes → Bytes → Res FieldRead} (hrf : FieldSpec Q rf) :
    ∀ (k : Nat) (src dst : Bytes) (ends : List Nat) (len : Nat),
      len + src.length < 2 ^ 63 → EndsOK Q ends dst →
      Sat (readRequired rf k src dst ends len) (fun r =>
        (∃ g, r.1 = dst ++ g) ∧ EndsOK Q r.2.1 r.1 ∧ r.2.1.length = ends.length + k ∧
        r.2.2.1 + r.2.2.2.length = len + src.length)
  | 0, src, dst, ends, len, _, he => by
    simp only [readRequired, Sat]
    exact ⟨⟨[], by simp⟩, he, by simp, trivial⟩
  | k + 1, src, dst, ends, len, hl, he => by
    unfold readRequired
    refine Sat.bind (hrf src dst (by omega)) ?_
    intro f ⟨hf, hq⟩
    split
    · trivial
    · obtain ⟨g, hg⟩ := hf.grows rfl
      have hc := hf.consumed
      rw [uadd_ok (by simp only [USIZE]; omega)]
      simp only [bind_ok]
      have he' : EndsOK Q (ends ++ [f.dst.length]) f.dst := by
        rw [hg]; rw [hg] at hq; exact he.snoc hq
      have := readRequired_sat hrf k f.rest f.dst (ends ++ [f.dst.length]) (len + f.n) (by omega) he'
      cases hr : readRequired rf k f.rest f.dst (ends ++ [f.dst.length]) (len + f.n) with
      | panic => rw [hr] at this; exact this
      | err e => trivial
      | ok r =>
        rw [hr] at this
        obtain ⟨⟨g2, hg2⟩, h2, h3, h4⟩ := this
        refine ⟨⟨g ++ g2, by rw [hg2, hg, List.append_assoc]⟩, h2, ?_, by omega⟩
        simp only [List.length_append, List.length_singleton] at h3
        omega

/-- without a carriage return the code as it is and the fixed code read the same fields -/
theorem readRequired_noCR : ∀ (k : Nat) (src dst : Bytes) (ends : List Nat) (len : Nat),
    CR ∉ src → CR ∉ dst →
    readRequired (readField false) k src dst ends len = readRequired (readField true) k src dst ends len ∧
    ∀ r, readRequired (readField true) k src dst ends len = .ok r → CR ∉ r.1 ∧ CR ∉ r.2.2.2
  | 0, src, dst, ends, len, hs, hd => by
    simp only [readRequired]
    exact ⟨trivial, by intro r hr; cases hr; exact ⟨hd, hs⟩⟩
  | k + 1, src, dst, ends, len, hs, hd => by
    unfold readRequired
    obtain ⟨e, hp⟩ := readField_noCR src dst hs hd
    rw [e]
    cases hf : readField true src dst with
    | panic => simp
    | err e => simp
    | ok f =>
      obtain ⟨h1, h2⟩ := hp f hf
      simp only [bind_ok]
      split
      · simp
      · cases hu : uadd len f.n with
        | panic => simp
        | err e => simp
        | ok l =>
          simp only [bind_ok]
          exact readRequired_noCR k f.rest f.dst _ l h2 h1


/-! ## carriage returns only in CRLF line endings -/

/-- every carriage return of the input is directly followed by a line feed -/
def CRLFOnly (s : Bytes) : Prop := ∀ i, s[i]? = some CR → s[i + 1]? = some LF

theorem CRLFOnly.drop {s : Bytes} (h : CRLFOnly s) (n : Nat) : CRLFOnly (s.drop n) := by
  intro i hi
  rw [List.getElem?_drop] at hi ⊢
  have := h (n + i) hi
  rw [Nat.add_assoc] at this
  exact this

theorem CRLFOnly.of_not_mem {s : Bytes} (h : CR ∉ s) : CRLFOnly s := by
  intro i hi
  exact absurd (List.mem_of_getElem? hi) h

/-- a decidable form, for concrete lines -/
def crlfOnlyB : Bytes → Bool
  | [] => true
  | [b] => b != CR
  | b :: c :: r => (b != CR || c == LF) && crlfOnlyB (c :: r)

theorem CRLFOnly.of_check : ∀ {s : Bytes}, crlfOnlyB s = true → CRLFOnly s
  | [], _ => by intro i hi; simp at hi
  | [b], h => by
    intro i hi
    cases i with
    | zero =>
      simp only [List.getElem?_cons_zero, Option.some.injEq] at hi
      subst hi; simp [crlfOnlyB] at h
    | succ j => simp at hi
  | b :: c :: r, h => by
    simp only [crlfOnlyB, Bool.and_eq_true, Bool.or_eq_true, bne_iff_ne, ne_eq, beq_iff_eq] at h
    intro i hi
    cases i with
    | zero =>
      simp only [List.getElem?_cons_zero, Option.some.injEq] at hi
      subst hi
      rcases h.1 with h1 | h1
      · exact absurd rfl h1
      · simp [h1]
    | succ j =>
      have := CRLFOnly.of_check h.2 j (by simpa using hi)
      simpa using this

theorem getLast?_take_succ {s : Bytes} {i : Nat} (hi : i + 1 ≤ s.length) :
    (s.take (i + 1)).getLast? = s[i]? := by
  rw [List.getLast?_eq_getElem?, List.length_take, Nat.min_eq_left hi, Nat.add_sub_cancel,
    List.getElem?_take_of_lt (Nat.lt_succ_self i)]

/-- the field before a delimiter other than LF, or before the end of the input, does not end in CR -/
theorem take_getLast_ne_cr {s : Bytes} (h : CRLFOnly s) {i : Nat} (hi : i ≤ s.length)
    (hnext : s[i]? ≠ some LF) : (s.take i).getLast? ≠ some CR := by
  cases i with
  | zero => simp
  | succ j =>
    rw [getLast?_take_succ hi]
    intro hc
    exact hnext (h j hc)

theorem getLast?_append_right (a : Bytes) {b : Bytes} (hb : b ≠ []) : (a ++ b).getLast? = b.getLast? := by
  rw [List.getLast?_append]
  cases h : b.getLast? with
  | none => exact absurd (List.getLast?_eq_none_iff.mp h) hb
  | some x => rfl

theorem endsWith_append_eq (a b : Bytes) (ha : a.getLast? ≠ some CR) :
    endsWith (a ++ b) CR = endsWith b CR := by
  unfold endsWith
  by_cases hb : b = []
  · subst hb
    simp only [List.append_nil, List.getLast?_nil]
    cases h : a.getLast? with
    | none => rfl
    | some c =>
      have : c ≠ CR := fun e => ha (by rw [h, e])
      simp [this]
  · rw [getLast?_append_right a hb]

theorem readField_crlf (src dst : Bytes) (hs : CRLFOnly src) (hd : dst.getLast? ≠ some CR) :
    readField false src dst = readField true src dst ∧
    ∀ f, readField true src dst = .ok f →
      CRLFOnly f.rest ∧ (f.eol = false → f.dst.getLast? ≠ some CR) := by
  unfold readField
  split
  · exact ⟨rfl, by intro f hf; cases hf; exact ⟨by intro i hi; simp at hi, fun _ => hd⟩⟩
  · rename_i hne
    split
    · rename_i i hi
      have hlt := findIdx_lt hi
      rw [index_ok hlt, sliceTo_ok (Nat.le_of_lt hlt)]
      simp only [bind_ok]
      cases hu : uadd i 1 with
      | panic => simp
      | err e => simp
      | ok n =>
        simp only [bind_ok]
        cases hr : sliceFrom src n with
        | panic => simp
        | err e => simp
        | ok rest =>
          simp only [bind_ok, if_true, Bool.false_eq_true, if_false]
          rw [sliceFrom_ok (by simp)]
          simp only [bind_ok, List.drop_left', endsWith_append_eq dst (src.take i) hd, true_and]
          intro f hf
          cases hf
          refine ⟨?_, ?_⟩
          · unfold sliceFrom at hr
            split at hr
            · cases hr; exact hs.drop n
            · cases hr
          · intro heol
            have hm' : (src[i] == LF) = false := heol
            have hm : src[i] ≠ LF := by simpa using hm'
            show List.getLast? (if (src[i] == LF && endsWith (List.take i src) CR) = true
              then List.dropLast (dst ++ List.take i src) else dst ++ List.take i src) ≠ some CR
            simp only [hm', Bool.false_and, Bool.false_eq_true, if_false]
            have hb := take_getLast_ne_cr hs (Nat.le_of_lt hlt)
              (by rw [List.getElem?_eq_getElem hlt]; simpa using hm)
            by_cases hbe : src.take i = []
            · rw [hbe, List.append_nil]; exact hd
            · rw [getLast?_append_right dst hbe]; exact hb
    · refine ⟨rfl, ?_⟩
      intro f hf
      rw [sliceFrom_ok (Nat.le_refl _)] at hf
      simp only [bind_ok] at hf
      cases hf
      refine ⟨by simp only [List.drop_length]; intro i hi; simp at hi, fun _ => ?_⟩
      have hsne : src ≠ [] := by intro e; subst e; simp at hne
      rw [getLast?_append_right dst hsne]
      have := take_getLast_ne_cr hs (Nat.le_refl src.length) (by simp)
      rwa [List.take_length] at this

theorem readRequired_crlf : ∀ (k : Nat) (src dst : Bytes) (ends : List Nat) (len : Nat),
    CRLFOnly src → dst.getLast? ≠ some CR →
    readRequired (readField false) k src dst ends len = readRequired (readField true) k src dst ends len ∧
    ∀ r, readRequired (readField true) k src dst ends len = .ok r →
      r.1.getLast? ≠ some CR ∧ CRLFOnly r.2.2.2
  | 0, src, dst, ends, len, hs, hd => by
    simp only [readRequired]
    exact ⟨trivial, by intro r hr; cases hr; exact ⟨hd, hs⟩⟩
  | k + 1, src, dst, ends, len, hs, hd => by
    unfold readRequired
    obtain ⟨e, hp⟩ := readField_crlf src dst hs hd
    rw [e]
    cases hf : readField true src dst with
    | panic => simp
    | err e => simp
    | ok f =>
      obtain ⟨h1, h2⟩ := hp f hf
      simp only [bind_ok]
      split
      · simp
      · rename_i hne
        cases hu : uadd len f.n with
        | panic => simp
        | err e => simp
        | ok l =>
          simp only [bind_ok]
          exact readRequired_crlf k f.rest f.dst _ l h1 (h2 (by simpa using hne))

theorem readLineInto_crlf (src buf : Bytes) (hb : buf.getLast? ≠ some CR) :
    readLineInto false src buf = readLineInto true src buf := by
  unfold readLineInto
  split
  · rename_i i hi
    simp only [Bool.false_eq_true, if_false, if_true]
    split
    · rfl
    · rename_i hn
      have hi0 : i = 0 := by omega
      subst hi0
      simp only [List.take_zero, List.append_nil]
      unfold popIf endsWith
      cases h : buf.getLast? with
      | none => simp
      | some c =>
        have : c ≠ CR := fun e => hb (by rw [h, e])
        simp [this]
  · rfl

end Noodles.Hostile.Text
