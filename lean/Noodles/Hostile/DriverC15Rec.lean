import Noodles.Cram.DriverC07Enc
import Noodles.Hostile.CramRec
/-! Line-protocol handler of the C15rec extension (`c15 rec hdr|dec|slice …`): the C07 encodings
models on hostile input, with the `tame` verdict of `Noodles/Hostile/CramRec.lean` in the answer. -/
namespace Noodles.Hostile.RecDriver
open Noodles.Cram Noodles.Cram.Enc Noodles.Cram.DrvEnc Noodles.Hostile.CramRec

def tameWord (b : Bool) : String := if b then "tame" else "untame"

def anyTame : AnyEnc → Bool
  | .int e => intTame e
  | .byte e => byteTame e
  | .bytes e => bytesTame e

def handle? : List String → Option String
  | ["rec", "hdr", src] => some <|
    match unhexN src with
    | none => "bad-op"
    | some src =>
      match readCHdr src with
      | .error e => s!"- {errStr e}"
      | .ok (h, _) => s!"{tameWord (hdrTame h)} {fmtCHdr h}"
  | ["rec", "dec", encs, core, ext, ops] => some <|
    match parseEncs encs, unhexN core, parseExt ext with
    | some encs, some core, some ext =>
      let (vals, _) := runDecode encs ⟨BitReader.new core, extFn ext⟩ (listOf ops ",")
      let flags := String.ofList (encs.map fun e => if anyTame e then 't' else 'u')
      s!"{flags} " ++ (if vals.isEmpty then "-" else ",".intercalate vals)
    | _, _, _ => "bad-op"
  | ["rec", "slice", chs, ctx, core, ext, n] => some <|
    match unhexN chs, parseCtx ctx, unhexN core, parseExt ext, n.toNat? with
    | some chs, some ctx, some core, some ext, some n =>
      match readCHdr chs with
      | .error e => s!"- {errStr e}"
      | .ok (h, _) =>
        match decodeSlice chs ctx n core (extFn ext) with
        | .error e => s!"{tameWord (hdrTame h)} {errStr e}"
        | .ok rs => s!"{tameWord (hdrTame h)} " ++ (if rs.isEmpty then "-" else ";".intercalate (rs.map fmtRec))
    | _, _, _, _, _ => "bad-op"
  | _ => none

end Noodles.Hostile.RecDriver
