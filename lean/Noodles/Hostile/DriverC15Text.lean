import Noodles.Basic.Wire
import Noodles.Basic.Pct
import Noodles.Gff.Gtf
import Noodles.Hostile.SamText
import Noodles.Hostile.VcfText
import Noodles.Hostile.BedText
import Noodles.Hostile.GffText
import Noodles.Hostile.FastxText
/-!
Line-protocol handler for the hostile-TEXT suites of C15 (`c15 t…`). The suite word selects the
model; a trailing `0` (`tsam0`, `tvcf0`, `tbed0`) selects the transcription of the code
AS IT IS (`fixed = false`), which the harness requests only in its as-is validation mode.

Everything below the `Res` outcome is canonicalisation of what the harness can observe through the
public accessors (parsed numbers, `*` / `.` / `0` / `255` missing markers, percent-decoded INFO
strings); it is not part of the panic models.
-/
namespace Noodles.Hostile.TextDriver
open Noodles.Wire hiding Bytes
open Noodles.Hostile Noodles.Hostile.Text

def errStr : Err → String
  | .eof => "err:eof"
  | .invalidData => "err:invalid-data"
  | .invalidInput => "err:invalid-input"

def fmtRes {α : Type} (f : α → String) : Res α → String
  | .ok a => f a
  | .err e => errStr e
  | .panic => "panic"

/-- a list of byte strings: `~` when empty, else the hex items joined by `,` -/
def fmtList (l : List Bytes) : String := if l.isEmpty then "~" else ",".intercalate (l.map hex)

/-! ### numbers as the accessors parse them -/

/-- `lexical_core::parse::<T>` / `str::parse::<T>`: the partial parse must consume everything -/
def lexComplete (signed : Bool) (lo hi : Int) (s : Bytes) : Option Int :=
  match SamText.lexPartial signed lo hi s with
  | .ok (v, i) => if i = s.length then some v else none
  | .error _ => none

def USIZE_MAX : Int := 18446744073709551615

def fmtInt (signed : Bool) (lo hi : Int) (s : Bytes) : String :=
  match lexComplete signed lo hi s with
  | some v => s!"ok:{v}"
  | none => "err"

/-- a `Position`: `0` alone is the missing marker, any other zero is an error -/
def fmtPos (s : Bytes) : String :=
  if s = [48] then "none"
  else match lexComplete false 0 USIZE_MAX s with
    | some v => if v = 0 then "err" else s!"ok:{v}"
    | none => "err"

def fmtStar (s : Bytes) : String := if s = [42] then "none" else hex s
def unStar (s : Bytes) : Bytes := if s = [42] then [] else s

/-! ### SAM -/

/-- the harness takes `len + 1` items (`take`); an iterator over `len` bytes that ends yields at
most `len`, so `len + 1` items mean it does not end: the listing then closes with `..` -/
def cigarShown (L : SamText.Lexical) (src : Bytes) : Res String := do
  let (items, ended) ← SamText.cigarItems true L (src.length + 1) src
  let item : Option (Nat × UInt8) → String
    | some (n, k) => s!"{n}{Char.ofNat k.toNat}"
    | none => "!"
  let shown := items.map item ++ (if ended then [] else [".."])
  .ok (if shown.isEmpty then "-" else ",".intercalate shown)

def intTy (sub : UInt8) : Option (Bool × Int × Int) :=
  if sub = 99 then some (true, -128, 127)
  else if sub = 67 then some (false, 0, 255)
  else if sub = 115 then some (true, -32768, 32767)
  else if sub = 83 then some (false, 0, 65535)
  else if sub = 105 then some (true, -2147483648, 2147483647)
  else if sub = 73 then some (false, 0, 4294967295)
  else none

def fmtVal : SamText.Val → String
  | .char b => s!"A:{hex [b]}"
  | .int32 n => s!"i:i{n}"
  | .uint32 n => s!"i:u{n}"
  | .float b => s!"f:{b}"
  | .str s => s!"Z:{hex s}"
  | .hex s => s!"H:{hex s}"
  | .array sub raw =>
    let pieces := if raw.isEmpty then [] else splitOn 44 raw
    let elems := match intTy sub with
      | some (sg, lo, hi) =>
        if pieces.isEmpty then "-" else ";".intercalate (pieces.map fun p =>
          match lexComplete sg lo hi p with
          | some v => s!"{v}"
          | none => "!")
      | none => "~"
    s!"B:{Char.ofNat sub.toNat}/{pieces.length}/{elems}"

def fmtData (p : List SamText.Field × Option Err) : String :=
  let items := p.1.map (fun f => s!"{hex [f.t0, f.t1]}:{fmtVal f.val}") ++
    (match p.2 with
     | some .eof => ["!eof"]
     | some _ => ["!invalid-data"]
     | none => [])
  if items.isEmpty then "-" else ",".intercalate items

/-- `tok:bits:count` / `tok:e` entries, `tok` = hex of the bytes up to the next TAB -/
def parseF32Table (s : String) : Option (List (Bytes × Option (Nat × Nat))) :=
  if s = "-" then some [] else
  (s.splitOn ",").mapM fun e =>
    match e.splitOn ":" with
    | [t, "e"] => do pure ((← unhex t), none)
    | [t, b, c] => do pure ((← unhex t), some ((← b.toNat?), (← c.toNat?)))
    | _ => none

/-- the `f32` partial parser of the run: looked up by the token up to the next TAB (a float
never extends over a TAB). A token the harness did not list reads as a 2^64 bit pattern, which no
real answer can equal. -/
def f32Of (table : List (Bytes × Option (Nat × Nat))) (src : Bytes) : Option (Nat × Nat) :=
  let tok := src.takeWhile (· ≠ TAB)
  match table.find? (·.1 == tok) with
  | some (_, r) => r
  | none => some (18446744073709551616, 0)

def fmtSam (L : SamText.Lexical) (p : Nat × List Bytes) : Res String :=
  match p.2 with
  | [name, flags, rname, pos, mapq, cigar, rnext, pnext, tlen, sq, qual, data] => do
    let c ← cigarShown L (unStar cigar)
    let d ← SamText.dataFields L (data.length + 1) data
    let mq := if mapq = [50, 53, 53] then "none"
      else match lexComplete false 0 255 mapq with
        | some v => if v = 255 then "none" else s!"ok:{v}"
        | none => "err"
    -- `Flags::from(u16)` keeps the twelve defined bits
    let fl := match lexComplete false 0 65535 flags with
      | some v => s!"ok:{v % 4096}"
      | none => "err"
    .ok (s!"ok n={p.1} name={fmtStar name} flags={fl} rname={fmtStar rname} " ++
      s!"pos={fmtPos pos} mapq={mq} cigar={c} rnext={fmtStar rnext} pnext={fmtPos pnext} " ++
      s!"tlen={fmtInt true (-2147483648) 2147483647 tlen} seq={hex (unStar sq)} qual={hex (unStar qual)} data={fmtData d}")
  | _ => .ok "bad-model"

def handleSam (fixed : Bool) (h table : String) : String :=
  match unhex h, parseF32Table table with
  | some s, some t =>
    let L := SamText.lexical (f32Of t)
    fmtRes id (SamText.readAndTouch fixed s >>= fmtSam L)
  | _, _ => "bad-op"

def handleLex (kind h : String) : String :=
  match unhex h with
  | some s =>
    let r := if kind = "usize" then SamText.lexPartial false 0 USIZE_MAX s
      else if kind = "i32" then SamText.lexPartial true (-2147483648) 2147483647 s
      else SamText.lexPartial false 0 4294967295 s
    match r with
    | .ok (v, i) => s!"ok:{v}:{i}"
    | .error true => "err:overflow"
    | .error false => "err:other"
  | none => "bad-op"

/-! ### VCF -/

/-- INFO keys the default header resolves through the reserved definitions all start with an
upper-case letter or a digit; the harness (and this formatter) do not look at the typed values of
such a column -/
def infoHasReservedLooking (info : Bytes) : Bool :=
  if info.isEmpty then false else
  (splitOn 59 info).any fun piece =>
    match piece with
    | b :: _ => (65 ≤ b.toNat && b.toNat ≤ 90) || (48 ≤ b.toNat && b.toNat ≤ 57)
    | [] => false

/-- an undeclared INFO key: no value = flag, `.` = missing, else a percent-decoded `String` -/
def fmtInfo (info : Bytes) (p : List (Bytes × Option Bytes) × Option Err) : String :=
  if infoHasReservedLooking info then "skip" else
  let rec go : List (Bytes × Option Bytes) → List String
    | [] => if p.2.isSome then ["!"] else []
    | (k, none) :: r => hex k :: go r
    | (k, some v) :: r =>
      if v = [46] then s!"{hex k}=." :: go r
      else
        let d := Noodles.Pct.decode v
        if Bcf.isUtf8 d then s!"{hex k}={hex d}" :: go r else ["!"]
  let items := go p.1
  if items.isEmpty then "~" else ",".intercalate items

def fmtAllele : VcfText.Allele → String
  | .bad => "!"
  | .ok pos ph =>
    let p := if pos = [46] then some "." else
      match lexComplete false 0 USIZE_MAX pos with
      | some v => some s!"{v}"
      | none => none
    match p with
    | some t => s!"{t}{if ph then "|" else "/"}"
    | none => "!"

/-- per sample the genotypes joined by `+`, samples joined by `,` -/
def fmtGts (g : List (List (List VcfText.Allele))) : String :=
  if g.isEmpty then "~" else
  ",".intercalate (g.map fun sample =>
    if sample.isEmpty then "-" else
    "+".intercalate (sample.map fun gt => ";".intercalate (gt.map fmtAllele)))

def fmtVcf (t : VcfText.Touched) : String :=
  match t.cols with
  | [chrom, pos, ids, ref, alts, qual, filters, info] =>
    let info' := VcfText.unDot info
    s!"ok n={t.n} chrom={hex chrom} pos={fmtPos pos} ids={fmtList (VcfText.listOf 59 (VcfText.unDot ids))} " ++
    s!"ref={hex ref} alts={fmtList (VcfText.listOf 44 (VcfText.unDot alts))} " ++
    s!"qual={if qual = [46] then "none" else "some"} filters={fmtList (VcfText.listOf 59 (VcfText.unDot filters))} " ++
    s!"info={fmtInfo info' t.info} keys={fmtList t.keys} samples={fmtList t.samples} gt={fmtGts t.gts}"
  | _ => "bad-model"

def handleVcf (fixed : Bool) (h : String) : String :=
  match unhex h with
  | some s => fmtRes fmtVcf (VcfText.readAndTouch fixed s)
  | none => "bad-op"

/-! ### BED -/

def fmtBedStd (k : Nat) (s : Bytes) : String :=
  if k = 0 then hex s
  else if k = 1 then
    match lexComplete false 0 USIZE_MAX s with
    | some v => if v + 1 ≤ USIZE_MAX then s!"ok:{v + 1}" else "err"
    | none => "err"
  else if k = 2 then fmtPos s
  else if k = 3 then (if s = [46] then "none" else hex s)
  else if k = 4 then fmtInt false 0 65535 s
  else if s = [46] then "none" else if s = [43] then "+" else if s = [45] then "-" else "err"

def fmtBed (p : Nat × List Bytes × List Bytes) : String :=
  let std := (List.range p.2.1.length).zip p.2.1 |>.map fun (k, s) => fmtBedStd k s
  s!"ok n={p.1} std={" ".intercalate std} other={fmtList p.2.2}"

def handleBed (fixed : Bool) (n h : String) : String :=
  match n.toNat?, unhex h with
  | some n, some s => fmtRes fmtBed (BedText.readAndTouch fixed n s)
  | _, _ => "bad-op"

/-! ### GFF3 / GTF -/

def fmtStrand (gtf : Bool) (s : Bytes) : String :=
  if s = [46] then "." else if s = [43] then "+" else if s = [45] then "-"
  else if s = [63] ∧ !gtf then "?" else "err"

def fmtPhase (s : Bytes) : String :=
  if s = [46] then "none" else if s = [48] then "0" else if s = [49] then "1" else if s = [50] then "2" else "err"

def fmtCols (gtf : Bool) (cols : List Bytes) : String :=
  match cols with
  | [seqid, source, ty, start, end_, score, strand, phase] =>
    let p (s : Bytes) : String :=
      match lexComplete false 0 USIZE_MAX s with
      | some v => if v = 0 then "err" else s!"ok:{v}"
      | none => "err"
    s!"seqid={hex seqid} source={hex source} type={hex ty} start={p start} end={p end_} " ++
    s!"score={if score = [46] then "none" else "some"} strand={fmtStrand gtf strand} phase={fmtPhase phase}"
  | _ => "bad-model"

def fmtView (gtf : Bool) (n : Nat) : GffText.LineView → String
  | .directive k v => s!"n={n} kind=directive key={hex k} value={match v with | some v => hex v | none => "none"}"
  | .comment c => s!"n={n} kind=comment text={hex c}"
  | .record (.ok (cols, attrs)) =>
    if gtf then
      match Noodles.Gtf.parseAttrs attrs with
      | .ok _ => s!"n={n} kind=record {fmtCols gtf cols}"
      | .error _ => s!"n={n} kind=record err"
    else s!"n={n} kind=record {fmtCols gtf cols} attrs={hex (if attrs = [46] then [] else attrs)}"
  | .record (.err e) => if gtf then s!"n={n} kind=record err" else s!"n={n} kind=record {errStr e}"
  | .record .panic => "panic"

def handleGff (h : String) : String :=
  match unhex h with
  | some s =>
    let (line, n, _) := GffText.readLineGff (s.length + 1) s
    if n = 0 then "eof" else fmtRes (fmtView false n) (GffText.touchGff line)
  | none => "bad-op"

def handleGtf (h : String) : String :=
  match unhex h with
  | some s =>
    let (line, n, _) := GffText.readLine s
    if n = 0 then "eof" else fmtRes (fmtView true n) (GffText.touchGtf line)
  | none => "bad-op"

/-! ### FASTQ / FASTA -/

def handleFastq (h : String) : String :=
  match unhex h with
  | some s =>
    fmtRes (fun (r : Option (FastxText.Fastq × Nat)) =>
      match r with
      | none => "eof"
      | some (q, n) => s!"ok n={n} name={hex q.name} desc={hex q.description} seq={hex q.sequence} qual={hex q.quality}")
      (FastxText.readFastq s)
  | none => "bad-op"

def handleFasta (h : String) : String :=
  match unhex h with
  | some s =>
    fmtRes (fun (r : Option ((Bytes × Bytes) × Bytes)) =>
      match r with
      | none => "eof"
      | some ((name, desc), sq) => s!"ok name={hex name} desc={hex desc} seq={hex sq}")
      (FastxText.readFasta s)
  | none => "bad-op"

/-- the request words of the text suites; anything else is not ours -/
def handleC15Text : List String → String
  | ["tsam", h, t] => handleSam true h t
  | ["tsam0", h, t] => handleSam false h t
  | ["tcigar", h] =>
    match unhex h with
    | some s => fmtRes id (cigarShown (SamText.lexical fun _ => none) s)
    | none => "bad-op"
  | ["tlex", k, h] => handleLex k h
  | ["tvcf", h] => handleVcf true h
  | ["tvcf0", h] => handleVcf false h
  | ["tbed", n, h] => handleBed true n h
  | ["tbed0", n, h] => handleBed false n h
  | ["tgff", h] => handleGff h
  | ["tgtf", h] => handleGtf h
  | ["tfastq", h] => handleFastq h
  | ["tfasta", h] => handleFasta h
  | _ => "bad-op"

end Noodles.Hostile.TextDriver
