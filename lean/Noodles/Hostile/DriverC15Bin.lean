import Noodles.Basic.Wire
import Noodles.Basic.Crc32
import Noodles.Index.Driver
import Noodles.Hostile.IndexRead
import Noodles.Hostile.BamHeader
import Noodles.Hostile.BcfFraming
import Noodles.Hostile.CramFraming
/-!
Line-protocol handler for the binary-header / index-file suites of C15 (`c15 <op> …`):

  `bai <hex>` `tbi <hex>` `csi <hex>` `tbihdr <hex>`   index readers (descriptions as in suite `c17`)
  `bamhdr <hex> <P>`  `bamhdrparts <hex>`               BAM header (`P`: `!` or the parser's dictionary)
  `bcfhdr <hex> <L|F|K>`  `bcfhdrparts <hex>`           BCF header
  `bcfrec <hex>`                                        BCF record framing + site accessors
  `cramdef <hex>`  `cramfh <hex> <P> <G>`  `cramfhparts <hex> <G>`  `cramcont <hex> <D>`

`G` (gzip behaviour on a file header block) is `-` or `<window>=<first4|!class>/<text>/<stop>,…`;
`D` (block codecs) is `-` or `<method>:<uncompressed_size>:<src>=<out|!class>,…`. A `D` entry that
is missing makes the model answer `panic`, a missing `G` entry `table-miss`: both are
disagreements, never silent.
-/
namespace Noodles.Hostile.Bin
open Noodles.Wire hiding Bytes
open Noodles.Hostile

def errStr : Err → String
  | .eof => "err:eof"
  | .invalidData => "err:invalid-data"
  | .invalidInput => "err:invalid-input"

def parseErr : String → Option Err
  | "eof" => some .eof
  | "data" => some .invalidData
  | "input" => some .invalidInput
  | _ => none

/-- `ok <description> rest=<bytes left>` -/
def fmtRd {α : Type} (f : α → String) : Res (α × Bytes) → String
  | .ok (a, r) => s!"ok {f a} rest={r.length}"
  | .err e => errStr e
  | .panic => "panic"

/-- the same without the rest (readers behind a BGZF layer) -/
def fmtRdNoRest {α : Type} (f : α → String) : Res (α × Bytes) → String
  | .ok (a, _) => s!"ok {f a}"
  | .err e => errStr e
  | .panic => "panic"

def fmtName (b : Bytes) : String := if b.isEmpty then "_" else hex b

def fmtList {α : Type} (sep : String) (f : α → String) (l : List α) : String :=
  if l.isEmpty then "-" else sep.intercalate (l.map f)

def fmtRefs (r : BamHdr.Refs) : String := fmtList "," (fun e => s!"{fmtName e.1}:{e.2}") r

def fmtLines (l : List Bytes) : String := fmtList ";" fmtName l

def parseName (s : String) : Option Bytes := if s = "_" then some [] else unhex s

def parseRefs (s : String) : Option BamHdr.Refs :=
  if s = "-" then some [] else
  (s.splitOn ",").mapM fun e =>
    match e.splitOn ":" with
    | [n, l] => do pure ((← parseName n), (← l.toNat?))
    | _ => none

/-- the parser parameter: `!` = some line is rejected, otherwise the dictionary of the header -/
def parseP (s : String) : Option (List Bytes → Option BamHdr.Refs) :=
  if s = "!" then some (fun _ => none) else (parseRefs s).map fun r => fun _ => some r

def parseBcfP : String → Option (List Bytes → BcfFrame.Parsed)
  | "L" => some fun _ => .lineError
  | "F" => some fun _ => .finishError
  | "K" => some fun _ => .ok
  | _ => none

/-! ### CRAM tables -/

def parseGEntry (s : String) : Option (Bytes × Cram.GzRun) :=
  match s.splitOn "=" with
  | [w, v] =>
    match v.splitOn "/" with
    | [f4, text, stop] => do
      let w ← unhex w
      let first4 : Except Err Bytes ←
        if f4.startsWith "!" then (parseErr (f4.drop 1).toString).map Except.error else (unhex f4).map Except.ok
      let text ← unhex text
      let stop : Option Err ← if stop = "-" then some none else (parseErr stop).map some
      pure (w, ⟨first4, text, stop⟩)
    | _ => none
  | _ => none

def parseG (s : String) : Option (List (Bytes × Cram.GzRun)) :=
  if s = "-" then some [] else (s.splitOn ",").mapM parseGEntry

def lookupG (t : List (Bytes × Cram.GzRun)) (w : Bytes) : Option Cram.GzRun :=
  (t.find? fun e => e.1 = w).map (·.2)

def parseDEntry (s : String) : Option ((Nat × Nat × Bytes) × Res Bytes) :=
  match s.splitOn "=" with
  | [k, v] =>
    match k.splitOn ":" with
    | [m, n, src] => do
      let out : Res Bytes ←
        if v.startsWith "!" then (parseErr (v.drop 1).toString).map Res.err else (unhex v).map Res.ok
      pure (((← m.toNat?), (← n.toNat?), (← unhex src)), out)
    | _ => none
  | _ => none

def parseD (s : String) : Option (List ((Nat × Nat × Bytes) × Res Bytes)) :=
  if s = "-" then some [] else (s.splitOn ",").mapM parseDEntry

/-- the codec parameter read off the table; a missing entry is `panic` (a visible disagreement) -/
def tableCodec (t : List ((Nat × Nat × Bytes) × Res Bytes)) : Cram.Codec := fun m src n =>
  match t.find? fun e => e.1 = (m, n, src) with
  | some e => e.2
  | none => .panic

def crc (b : Bytes) : Nat := Noodles.Crc32.crc32 b

def fmtCtx : Cram.RefCtx → String
  | .none => "none"
  | .many => "many"
  | .some id st en => s!"{id}:{st}:{en}"

def fmtInts (l : List Int) : String := fmtList "," toString l

def fmtExt (l : List (Int × Bytes)) : String := fmtList "+" (fun e => s!"{e.1}={hex e.2}") l

def fmtItem : Cram.SliceItem → String
  | .error e => errStr e
  | .ok (_, .error e) => s!"ok/dec={errStr e}"
  | .ok (_, .ok (core, ext)) => s!"ok/core={hex core}/ext={fmtExt ext}"

def fmtContainer : Option (Cram.ContainerHeader × Nat × List Cram.SliceItem) × Bytes → String
  | (none, r) => s!"eof rest={r.length}"
  | (some (h, len, items), r) =>
    s!"ok ctx={fmtCtx h.ctx} rc={h.recordCount} rcn={h.recordCounter} bc={h.baseCount} blk={h.blockCount} lm={fmtList "," toString h.landmarks} len={len} rest={r.length} slices={fmtList ";" fmtItem items}"

/-- is the gzip window the model hands to `G` in the table? -/
def gzMiss (t : List (Bytes × Cram.GzRun)) (s : Bytes) : Bool :=
  match Cram.readHeaderContainerHeader crc s with
  | .ok (len, r) =>
    match Cram.readHeaderBlock (r.take len) with
    | .ok (.gzip w, _) => (lookupG t w).isNone
    | _ => false
  | _ => false

def gOf (t : List (Bytes × Cram.GzRun)) : Bytes → Cram.GzRun := fun w =>
  (lookupG t w).getD ⟨.error .eof, [], none⟩

def fmtSite (p : Bytes × Bytes × Bytes × Bytes × Bytes) : String :=
  s!"ids={hex p.1} ref={hex p.2.1} alt={hex p.2.2.1} flt={hex p.2.2.2.1} smp={hex p.2.2.2.2}"

def handleC15Bin : List String → Option String
  | ["bai", h] => some <| match unhex h with
    | some s => fmtRd Noodles.Index.fmtBai (Idx.readBai s)
    | none => "bad-op"
  | ["tbi", h] => some <| match unhex h with
    | some s => fmtRdNoRest Noodles.Index.fmtTabix (Idx.readTabix s)
    | none => "bad-op"
  | ["csi", h] => some <| match unhex h with
    | some s => fmtRdNoRest Noodles.Index.fmtCsi (Idx.readCsi s)
    | none => "bad-op"
  | ["tbihdr", h] => some <| match unhex h with
    | some s => fmtRd (fun x => Noodles.Index.fmtHeader (some x)) (Idx.readHeader s)
    | none => "bad-op"
  | ["bamhdr", h, p] => some <| match unhex h, parseP p with
    | some s, some P => fmtRd fmtRefs (BamHdr.readHeader P s)
    | _, _ => "bad-op"
  | ["bamhdrparts", h] => some <| match unhex h with
    | some s => fmtRd (fun x => s!"lines={fmtLines x.1} refs={fmtRefs x.2}") (BamHdr.readHeaderParts s)
    | none => "bad-op"
  | ["bcfhdr", h, p] => some <| match unhex h, parseBcfP p with
    | some s, some P => fmtRd (fun _ => "hdr") (BcfFrame.readHeader P s)
    | _, _ => "bad-op"
  | ["bcfhdrparts", h] => some <| match unhex h with
    | some s => fmtRd (fun x => s!"ver={hex x.1} lines={fmtLines x.2}") (BcfFrame.readHeaderParts s)
    | none => "bad-op"
  | ["bcfrec", h] => some <| match unhex h with
    | some s =>
      match BcfFrame.readRecordAndTouch s with
      | .ok (none, r) => s!"eof rest={r.length}"
      | .ok (some p, r) => s!"ok {fmtSite p} rest={r.length}"
      | .err e => errStr e
      | .panic => "panic"
    | none => "bad-op"
  | ["cramdef", h] => some <| match unhex h with
    | some s => fmtRd (fun (d : Cram.FileDefinition) => s!"{d.major}.{d.minor} {hex d.fileId}") (Cram.readFileDefinition s)
    | none => "bad-op"
  | ["cramfh", h, p, g] => some <| match unhex h, parseP p, parseG g with
    | some s, some P, some t =>
      if gzMiss t s then "table-miss" else fmtRd fmtRefs (Cram.readFileHeader crc (gOf t) P s)
    | _, _, _ => "bad-op"
  | ["cramfhparts", h, g] => some <| match unhex h, parseG g with
    | some s, some t =>
      if gzMiss t s then "table-miss" else fmtRd (fun l => s!"lines={fmtLines l}") (Cram.readFileHeaderParts crc (gOf t) s)
    | _, _ => "bad-op"
  | ["cramcont", h, d] => some <| match unhex h, parseD d with
    | some s, some t =>
      match Cram.readContainerAndSlices crc (tableCodec t) s with
      | .ok v => fmtContainer v
      | .err e => errStr e
      | .panic => "panic"
    | _, _ => "bad-op"
  | _ => none

end Noodles.Hostile.Bin
