import Noodles.Cram.CompressionHeader
/-!
# CRAM compression header, data-series decoders and record decoder on hostile input (C15, extension C15rec)

The executable models of this code already exist: `Noodles/Cram/{Bits,Encoding,CompressionHeader,
RecordCodec}.lean` (extension C07enc), tied to the real code by the `c07 enc…` correspondence and —
on hostile input — by the `c15 rec…` correspondence of this extension. They return
`Except Err α` where `Err.panic` is an outcome of its own. This file does NOT re-transcribe them; it
adds what the panic-freedom theorems need:

* the audit below: every panicking construct of the Rust code and where the model carries it;
* `tame`: the (decidable) class of encodings on which no panicking construct can fire;
* `decodeSlice`: compression-header bytes + slice streams → records, the composition the
  correspondence compares;
* `bitsLeft`: the measure that shows the fuel of the Gamma zero-run loop is never exhausted.

## Profile

The harness is built in release mode WITH `overflow-checks = true` and `debug-assertions = true`
(harness/Cargo.toml), the profile of the crate's own test suite: an integer overflow and a shift by
at least the bit width are panics. That is what the models describe (`shl32`, `add32`, `sub32`).
In a plain release build these three wrap / mask instead; the `todo!()` and the index panic below
fire in every profile.

## Audit of panicking constructs (noodles-cram)

STATE: the models now describe the code AFTER the fix `cram-encoding-decoders-panic`. The constructs
marked PANICS below are the record of the code before it; each was replaced by an error or a defined
value (`shl32`, `add32`, `sub32`, `buildCodeBook`, the last arm of `IntEnc.decode`), the theorems of
`Props/C15Rec.lean` no longer need `tame`, and the predicates are kept to label inputs (the harness
still prints the verdict) and to state which headers were affected.

Compression header parser — `io/reader/container/compression_header/**`, `io/reader/collections.rs`:
no arithmetic; `split_off(..len)`, `split_first`, `split_first_chunk`, `split_off_first` return
`Option`s turned into `UnexpectedEof`; `&rest[1..]` in `read_tag_sets_inner` follows
`position(NUL)`, so `rest` starts with that NUL; `chunk[0..2]` are elements of `chunks_exact(3)`;
`substitutions[(codes >> k) & 3]` indexes a `[Base; 4]`; `read_bases[0..3]` are constants;
`(0..n).map(..).collect::<io::Result<_>>()` does not pre-allocate by `n` (the `Result` adapter has
lower size hint 0) and stops at the first error: the model (`readN`, `readTagEncGo`, …) has no panic
outcome in this part and none is needed. Recursion: `ByteArrayLength` nests one integer and one byte
encoding, which cannot nest further.

`io/bit_reader.rs`: `read_u32` refuses `len > 31` (`InvalidInput`) before the loop, so
`(n << 1) | bit` stays below `2^31`; `buf >> (8 - i - 1)` has `i ≤ 7` (`i` is reset to 0 when
`i ≥ 8`); `self.i += 1` is at most 8.

`huffman.rs` (decoder built on EVERY decode call from the header's alphabet and bit lengths):
* `sorted_alphabet[0]` — PANICS on an empty alphabet or empty bit-length list (`zip`): every profile
  (`buildCodeBook … = .error .panic`);
* `code <<= bit_len - prev_bit_len` — PANICS (overflow checks) when two consecutive lengths differ by
  32 or more (`shl32`);
* `code += 1` — PANICS (overflow checks) after the all-ones 31-bit code (`add32`);
* `input_code <<= len - prev_len` in `decode` — PANICS (overflow checks) for a step of 32 or more,
  BEFORE `read_i32` would have refused the length (`shl32` precedes `readU32` in `huffDecodeGo`);
* `self.code_book_by_len[&len]` — `len` is a key of that map: cannot fire.

`codec/integer.rs::decode`:
* `todo!()` for Golomb, Subexp, GolombRice — PANICS in every profile;
* Beta `i - offset`, Gamma `x - offset` — PANIC (overflow checks) when the difference leaves `i32`
  (`sub32`); `(1 << n) + m` cannot overflow (`n ≤ 31` or `read_i32` has failed; `1 << 31` is
  `i32::MIN`, `m < 2^31`);
* Gamma `n += 1` on a `u32` — PANICS (overflow checks) after `2^32` zero bits, i.e. on a core data
  block of at least 512 MiB of zeros. The model counts in `Nat`; `gammaZeros_le` bounds the count by
  the number of bits left, so the model is exact for core data shorter than `2^29 - 1` bytes
  (hypothesis-free in the theorems, stated here as a limit of the model);
* `alphabet[0]` follows `alphabet.len() == 1`.

`codec/byte.rs`, `codec/byte_array.rs`: `split_off(..len)` / `split_first` are `Option`s;
`&rest[1..]` follows `position(stop_byte)`; `usize::try_from(n)` is an error; `vec![value; len]`
and the `collect` of `decode_take` allocate by a length that a zero-bit Huffman code lets the
input choose freely (OBSERVATION: allocation not bounded by the remaining input; out of scope).

`io/reader/container/slice/records.rs`: every `i32 → usize/u8/u16` conversion is a `try_from`
mapped to `InvalidData`; `prev_alignment_start.checked_add`; `prev_position + delta` adds at most
`2^31` numbers below `2^31` in a `usize`; `read_position.max(quality_score_position) - 1` has both
registers `≥ 1`; `saturating_add` elsewhere; `self.id += 1` is a `u64` record counter;
`tag_sets.get(id)` is an `Option`. `for _ in 0..feature_count` / the record count of the slice
header are plain counted loops: they end. OBSERVATION: with zero-bit (one-symbol Huffman) codes for
`FC`, `FP` and the feature's own series a record declares up to `2^31 - 1` features that consume no
input — `record.features` grows by a count not bounded by the remaining input (allocation, out of
scope of the property).

So the record decoder panics exactly through its DECODERS, on headers that name a `todo!()` codec,
a Huffman code that cannot be built or stepped, or a Beta/Gamma offset that can leave `i32`: a
genuine defect (fix: `fixes/cram-encoding-decoders-panic.diff`); `tame` is its complement.
-/
namespace Noodles.Hostile.CramRec
open Noodles.Cram.Enc

/-- the outcome is not a panic -/
def NP {α : Type} (x : Res α) : Prop := x ≠ .error .panic

/-- a `Bool` view of the panic outcome (for `decide`d witnesses) -/
def isPanic {α : Type} : Res α → Bool
  | .error .panic => true
  | _ => false

/-! ## tame encodings -/

/-- the canonical code can be built (`buildCodeBook` does not panic) and no code word is longer than
the 31 bits `read_i32` delivers -/
def huffTame (alphabet : List Int) (lens : List Nat) : Bool :=
  match buildCodeBook alphabet lens with
  | .ok book => (distinctLens book).all (fun l => decide (l ≤ 31))
  | .error _ => false

/-- an integer encoding none of whose panicking constructs can fire -/
def intTame : IntEnc → Bool
  | .external _ => true
  | .huffman alphabet lens =>
    match alphabet with
    | [_] => true
    | _ => huffTame alphabet lens
  /- `i - offset` with `0 ≤ i < 2^len`, `len ≤ 31` (a longer read is `InvalidInput`) -/
  | .beta offset len => decide (offset < 2 ^ 31) && (decide (len > 31) || decide ((2 : Int) ^ len - 1 - offset < 2 ^ 31))
  /- `x` ranges over all of `i32` but 0 (31 zero bits give `1 << 31 = i32::MIN`) -/
  | .gamma offset => decide (offset = 0)
  | .golomb .. | .subexp .. | .golombRice .. => false

def byteTame : ByteEnc → Bool
  | .external _ => true
  | .huffman alphabet lens =>
    match alphabet with
    | [_] => true
    | _ => huffTame alphabet lens

def bytesTame : ByteArrayEnc → Bool
  | .len l v => intTame l && byteTame v
  | .stop .. => true

def optTame {α : Type} (f : α → Bool) : Option α → Bool
  | none => true
  | some e => f e

/-- every present data series has a tame encoding -/
def dseTame (d : DSE) : Bool :=
  optTame intTame d.bf && optTame intTame d.cf && optTame intTame d.ri && optTame intTame d.rl &&
  optTame intTame d.ap && optTame intTame d.rg && optTame bytesTame d.rn && optTame intTame d.mf &&
  optTame intTame d.ns && optTame intTame d.np && optTame intTame d.ts && optTame intTame d.nf &&
  optTame intTame d.tl && optTame intTame d.fn && optTame byteTame d.fc && optTame intTame d.fp &&
  optTame intTame d.dl && optTame bytesTame d.bb && optTame bytesTame d.qq && optTame byteTame d.bs &&
  optTame bytesTame d.in_ && optTame intTame d.rs && optTame intTame d.pd && optTame intTame d.hc &&
  optTame bytesTame d.sc && optTame intTame d.mq && optTame byteTame d.ba && optTame byteTame d.qs

/-- the part of a compression header the record decoder uses is tame -/
def CHTame (ch : CH) : Prop := dseTame ch.dse = true ∧ ∀ id e, ch.tagEnc id = some e → bytesTame e = true

/-- a parsed compression header is tame (decidable: the tag encodings are a list; an entry that a
later entry for the same id replaces in the hash map does not count) -/
def hdrTame (h : CHdr) : Bool :=
  dseTame h.dse && h.te.all (fun p => match lookupTag h.te p.1 with
    | some e => bytesTame e
    | none => true)

/-! ## the composition the correspondence compares -/

/-- `read_compression_header_inner` on the header block's data, then `count` × `read_record` on the
slice's core data and external blocks -/
def decodeSlice (chs : List Nat) (ctx : RefCtx) (count : Nat) (core : List Nat)
    (ext : Int → Option (List Nat)) : Res (List CRec) :=
  match readCHdr chs with
  | .error e => .error e
  | .ok (h, _) => readRecords h.toCH ctx count core ext

/-! ## bits left in a reader -/

/-- the number of bits `read_bit` can still deliver -/
def bitsLeft (r : BitReader) : Nat := 8 * r.src.length + (8 - r.i)

end Noodles.Hostile.CramRec
