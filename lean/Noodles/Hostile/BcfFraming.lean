import Noodles.Hostile.Stream
import Noodles.Hostile.BamHeader
import Noodles.Hostile.BcfSite
/-!
# BCF header framing and record framing on ANY byte string

Transcribed from noodles-bcf `io/reader/header.rs` (`read_header`, `read_header_inner`,
`read_vcf_header`, `read_line`, `Reader::raw_vcf_header_reader`), `header/magic_number.rs`,
`header/format_version.rs`, `header/vcf_header.rs` (same line delivery as the BAM header text —
`BamHdr.linesGo` — plus the truncation check of `discard_to_end`) and `io/reader/record.rs`
(`read_record`, `read_site_length`, `read_exact_or_eof`, `read_samples_length`).

The VCF header parser and the string-map builder are a parameter `P` (three outcomes: a line was
rejected, `finish` failed, or a header). The site block goes through `Bcf.index`
(`Noodles/Hostile/BcfSite.lean`, already part of C15).

`l_shared` / `l_indiv` bytes are read with `read_exact_to_vec` (`Noodles/Hostile/Stream.lean`).
-/
namespace Noodles.Hostile.BcfFrame
open Noodles.Hostile Rd

/-- `MAGIC_NUMBER` = `BCF` -/
def MAGIC : Bytes := [0x42, 0x43, 0x46]

/-- what the header parser (`vcf::header::Parser::parse_partial` + `StringMaps::insert_entry` per
line, then `Parser::finish`) makes of the lines -/
inductive Parsed | lineError | finishError | ok
  deriving Repr, DecidableEq

/-- `raw_vcf_header_reader` + the `read_line` loop + `discard_to_end`: the lines, and whether the
stream ended before `l_text` bytes (`self.inner.get_ref().limit() > 0` at the end of the source) -/
def readText : Rd (List Bytes × Bool) := do
  let lText ← readU32
  let s ← Rd.rest
  let w ← Rd.window lText
  return (BamHdr.textLines w, decide (s.length < lText))

/-- `read_header_inner` + `read_vcf_header`: magic number, two version bytes (`buf[0]`, `buf[1]`
of a `[u8; 2]`), the text. Order of the failures: a rejected line (`InvalidData`), then the
truncation check of `discard_to_end` (`UnexpectedEof`), then `finish` (`InvalidData`). -/
def readHeader (P : List Bytes → Parsed) : Rd Unit := do
  readMagic MAGIC
  let _ ← readExact 2
  let (lines, truncated) ← readText
  match P lines with
  | .lineError => Rd.fail .invalidData
  | r =>
    if truncated then Rd.fail .eof
    else if r = .finishError then Rd.fail .invalidData
    else return ()

/-- the same through the public pieces (`header_reader()`, `read_magic_number`,
`read_format_version`, `raw_vcf_header_reader`, `discard_to_end`) -/
def readHeaderParts : Rd (Bytes × List Bytes) := do
  readMagic MAGIC
  let v ← readExact 2
  let (lines, truncated) ← readText
  if truncated then Rd.fail .eof else return (v, lines)

/-! ## records -/

/-- `read_exact_or_eof(reader, &mut [0; 4])` on a slice source, where one `read` delivers
`min(buf.len(), left)` bytes: `buf = &mut buf[n..]` and `bytes_read += n` are explicit.
Nothing left at all is NOT an error: the zero-filled buffer comes back (`l_shared = 0`). -/
def readExactOrEof (len : Nat) : Rd Bytes := fun s =>
  let n := min len s.length                      -- first `reader.read(buf)`
  if n = 0 then .ok (List.replicate len 0, s)    -- `Ok(0) => break` with `bytes_read = 0`
  else
    match (do
      let buf ← sliceFrom (List.replicate len (0 : UInt8)) n       -- `&mut buf[n..]`
      let bytesRead ← uadd 0 n                                     -- `bytes_read += n`
      return (buf, bytesRead) : Res (Bytes × Nat)) with
    | .ok (buf, bytesRead) =>
      -- a second `read` on the exhausted slice returns 0
      if bytesRead > 0 ∧ ¬ buf.isEmpty then .err .eof else .ok (s.take len, s.drop len)
    | .err e => .err e
    | .panic => .panic

/-- `read_record`: `Ok(0)` (end of stream: `none`) when the source is exhausted OR `l_shared` is
0; otherwise the site block (indexed: `Fields::index`) and the samples block -/
def readRecord : Rd (Option (Bytes × Bytes × Bcf.Bounds)) := do
  let b ← readExactOrEof 4
  let lShared := leVal b
  if lShared = 0 then return none else
  let lIndiv ← readU32
  let site ← readExactToVec lShared
  let bounds ← Rd.lift (Bcf.index site)
  let samples ← readExactToVec lIndiv
  let _ ← Rd.lift (uadd lShared lIndiv)            -- `Ok(l_shared + l_indiv)`
  return some (site, samples, bounds)

/-- `read_record` followed by the four lazy site accessors -/
def readRecordAndTouch : Rd (Option (Bytes × Bytes × Bytes × Bytes × Bytes)) := do
  match ← readRecord with
  | none => return none
  | some (site, samples, bounds) =>
    let (a, r, t, f) ← Rd.lift (Bcf.fieldSlices site bounds)
    return some (a, r, t, f, samples)

end Noodles.Hostile.BcfFrame
