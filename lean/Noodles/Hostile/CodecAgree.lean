import Noodles.Hostile.Rans4x8Proof
import Noodles.Hostile.RansNx16Proof
import Noodles.Cram.Rans4x8
import Noodles.Cram.Nx16
/-!
# The checked state machine agrees with the C08 decoders where it answers

C08's decoder models (`Noodles/Cram/Rans4x8.lean`, `Nx16.lean`, written from the CRAM codecs
specification over `List Nat`) say WHAT is decoded; the `Res`-valued transcriptions of C15 say that
the Rust cannot panic on the way. Their arithmetic cores are the same functions wherever the
checked one answers `ok`: `state_step`, `state_renormalize` (both codecs) and
`cumulative_frequencies_symbol`. (The framing — frequency tables, flags, stripes — is compared
through the two correspondences, which run both models against the same real decoder.)
-/
namespace Noodles.Hostile.Agree
open Noodles.Hostile Noodles.Hostile.Rd Noodles.Hostile.Codec

def nats (b : Bytes) : List Nat := b.map UInt8.toNat

/-! ## `state_step` -/

theorem and_fff (s : Nat) : s &&& 0x0fff = s % 4096 :=
  Nat.and_two_pow_sub_one_eq_mod s 12

theorem r4_stateStep_agrees {s f g v : Nat} (h : R4x8.stateStep s f g = .ok v) :
    v = Noodles.Cram.R4.decStep s f g := by
  unfold R4x8.stateStep mul32 at h
  split at h
  · simp only [Res.bind_ok] at h
    unfold add32 at h
    split at h
    · simp only [Res.bind_ok] at h
      unfold usub at h
      split at h
      · cases h
        unfold Noodles.Cram.R4.decStep
        rw [Nat.shiftRight_eq_div_pow, and_fff]
      · cases h
    · cases h
  · cases h

theorem nx_stateStep_agrees {s f g v : Nat} (h : Nx16.stateStep s f g 12 = .ok v) :
    v = Noodles.Cram.R4.decStep s f g := by
  unfold Nx16.stateStep at h
  rw [if_pos (by decide)] at h
  simp only [Res.bind_ok] at h
  unfold mul32 at h
  split at h
  · simp only [Res.bind_ok] at h
    rw [Nx16.mask_eq (by decide)] at h
    simp only [Res.bind_ok] at h
    unfold add32 at h
    split at h
    · simp only [Res.bind_ok] at h
      unfold usub at h
      split at h
      · cases h
        unfold Noodles.Cram.R4.decStep
        rw [Nat.shiftRight_eq_div_pow, Nat.and_two_pow_sub_one_eq_mod]
      · cases h
    · cases h
  · cases h

/-! ## `state_renormalize` -/

theorem readU8_cons (b : UInt8) (r : Bytes) : readU8 (b :: r) = .ok (b.toNat, r) := by
  simp [readU8, bind_apply, readExact, pure_apply, leVal]

theorem readU8_nil : readU8 [] = .err .eof := by
  simp [readU8, bind_apply, readExact]

theorem shl8_or {s b : Nat} (hs : s < 2^23) (hb : b < 256) :
    ((s <<< 8) % P32) ||| b = s * 256 + b := by
  have h1 : s <<< 8 < 2^32 := by rw [Nat.shiftLeft_eq]; omega
  rw [show P32 = 2^32 from rfl, Nat.mod_eq_of_lt h1,
    ← Nat.shiftLeft_add_eq_or_of_lt (show b < 2^8 from hb), Nat.shiftLeft_eq]

theorem r4_renorm_fuel : ∀ (fuel : Nat) (src : Bytes) (s v : Nat) (rest : Bytes),
    loopFuel R4x8.renormBody fuel s src = .ok (v, rest) →
    Noodles.Cram.R4.renormDec (nats src) s = .ok (v, nats rest)
  | 0, _, _, _, _, h => by simp [loopFuel] at h
  | fuel + 1, src, s, v, rest, h => by
    unfold loopFuel R4x8.renormBody at h
    by_cases hlt : s < R4x8.LOWER
    · rw [if_pos hlt] at h
      cases src with
      | nil => simp [bind_apply, readU8_nil] at h
      | cons b r =>
        simp only [bind_apply, readU8_cons, pure_apply] at h
        have hL : ¬ s ≥ Noodles.Cram.R4.L := by
          unfold Noodles.Cram.R4.L; unfold R4x8.LOWER at hlt; omega
        have ih := r4_renorm_fuel fuel r _ v rest h
        rw [shl8_or (by unfold R4x8.LOWER at hlt; exact hlt) b.toNat_lt] at ih
        simp only [nats, List.map_cons, Noodles.Cram.R4.renormDec, if_neg hL]
        exact ih
    · rw [if_neg hlt] at h
      simp only [pure_apply, Res.ok.injEq, Prod.mk.injEq] at h
      have hL : s ≥ Noodles.Cram.R4.L := by
        unfold Noodles.Cram.R4.L; unfold R4x8.LOWER at hlt; omega
      rw [← h.1, ← h.2]
      cases src with
      | nil => simp [nats, Noodles.Cram.R4.renormDec, hL]
      | cons b r => simp [nats, Noodles.Cram.R4.renormDec, hL]

/-- rANS 4x8 `state_renormalize`: the same state and the same bytes consumed as `RansRenorm` of
the C08 decoder -/
theorem r4_renormalize_agrees {s v : Nat} {src rest : Bytes}
    (h : R4x8.renormalize s src = .ok (v, rest)) :
    Noodles.Cram.R4.renormDec (nats src) s = .ok (v, nats rest) :=
  r4_renorm_fuel _ src s v rest h

theorem readU16_two (lo hi : UInt8) (r : Bytes) :
    readU16le (lo :: hi :: r) = .ok (lo.toNat + 256 * hi.toNat, r) := by
  have : ¬ (r.length + 1 + 1 < 2) := by omega
  simp [readU16le, readU16, bind_apply, readExact, pure_apply, leVal, this]

/-- rANS Nx16 `state_renormalize` agrees with `RansRenorm` of the C08 Nx16 decoder -/
theorem nx_renormalize_agrees {s v : Nat} {src rest : Bytes}
    (h : Nx16.renormalize s src = .ok (v, rest)) :
    Noodles.Cram.Nx.renormDec (nats src) s = .ok (v, nats rest) := by
  unfold Nx16.renormalize at h
  unfold Noodles.Cram.Nx.renormDec Noodles.Cram.Nx.L
  by_cases hlt : s < 2^15
  · rw [if_pos hlt] at h
    rw [if_neg (by omega)]
    match src, h with
    | [], h => simp [bind_apply, readU16le, readU16, readExact] at h
    | [_], h => simp [bind_apply, readU16le, readU16, readExact] at h
    | lo :: hi :: r, h =>
      rw [bind_apply, readU16_two] at h
      dsimp only at h
      rw [Nx16.shl32_eq (by decide), bind_apply] at h
      simp only [Rd.lift] at h
      have h1 : (s <<< 16) % 2^32 = s * 65536 := by
        rw [Nat.shiftLeft_eq, Nat.mod_eq_of_lt (by omega)]
      rw [h1] at h
      unfold add32 at h
      have hlo := lo.toNat_lt
      have hhi := hi.toNat_lt
      rw [if_pos (by omega)] at h
      simp only [Res.ok.injEq, Prod.mk.injEq] at h
      simp only [nats, List.map_cons]
      rw [← h.1, ← h.2]
      congr 2
      omega
  · rw [if_neg hlt] at h
    simp only [pure_apply, Res.ok.injEq, Prod.mk.injEq] at h
    rw [if_pos (by omega), ← h.1, ← h.2]

/-! ## `cumulative_frequencies_symbol` -/

theorem advance_lookupL (C : List Nat) (f : Nat) :
    ∀ (fuel sym : Nat) (tail : List Nat), C.drop (sym + 1) = tail → sym + tail.length = 255 →
      256 ≤ fuel + sym →
      R4x8.advance C.toArray f fuel sym = .ok (Noodles.Cram.R4.lookupL tail f sym)
  | 0, sym, tail, _, hl, hf => by omega
  | fuel + 1, sym, tail, ht, hl, hf => by
    unfold R4x8.advance
    cases tail with
    | nil =>
      have : ¬ sym < 255 := by simp at hl; omega
      rw [if_neg this]; rfl
    | cons c cs =>
      have hlt : sym < 255 := by simp at hl; omega
      rw [if_pos hlt]
      have hc : C[sym + 1]? = some c := by
        have := congrArg (fun l => l[0]?) ht
        simpa using this
      have : idxA C.toArray (sym + 1) = .ok c := by
        unfold idxA; rw [List.getElem?_toArray, hc]
      rw [this]
      simp only [Res.bind_ok, Noodles.Cram.R4.lookupL]
      split
      · refine advance_lookupL C f fuel (sym + 1) cs ?_ (by simp at hl ⊢; omega) (by omega)
        have := congrArg (List.drop 1) ht
        simpa [List.drop_drop, Nat.add_comm] using this
      · rfl

/-- rANS Nx16 `cumulative_frequencies_symbol` on a 256-entry row is `RansGetSymbolFromFreq` of
the C08 decoders -/
theorem nx_cumSymbol_agrees (C : List Nat) (hC : C.length = 256) (f : Nat) :
    Nx16.cumSymbol C.toArray f = .ok (Noodles.Cram.R4.lookup C f) := by
  unfold Nx16.cumSymbol Noodles.Cram.R4.lookup
  exact advance_lookupL C f 256 0 (C.drop 1) rfl (by simp [hC]) (by omega)

end Noodles.Hostile.Agree
