import Noodles.Hostile.Stream
import Noodles.Hostile.Num
import Noodles.Hostile.BamHeader
/-!
# CRAM framing on ANY byte string: file definition, file header container, container header,
# blocks, slice header, `Container::slices`, `Slice::decode_blocks`

Transcribed from noodles-cram

* `io/reader/header.rs` (`read_file_definition`, `read_file_header`, `read_sam_header`,
  `read_line`), `header/{magic_number,format_version,file_id}.rs`, `header/container.rs`
  (`Reader::raw_sam_header_reader`, `discard_to_end`), `header/container/header.rs`
  (`read_header`, `read_landmarks`), `header/container/block.rs` (`read_block`,
  `validate_content_type`), `header/container/sam_header.rs` (the same `BufRead` as the BAM one:
  `BamHdr.linesGo`);
* `io/reader/container.rs` (`read_container`, `Container::slices`), `container/header.rs`
  (`read_header`, `read_landmarks`, `is_eof`), `container/block.rs` (`read_block`,
  `read_block_as`, `validate_content_type`, `Block::decode`), `container/block/{compression_method,
  content_type}.rs`, `container/slice/header.rs` (`read_header`, `read_header_inner` and its
  field readers), `container/slice.rs` (`read_slice`, `Slice::decode_blocks`);
* `container/reference_sequence_context.rs` (`TryFrom<(i32, i32, i32)>`,
  `Context::alignment_span`), `io/reader/num/itf8.rs` / `ltf8.rs` (`read_itf8_as`, `read_ltf8_as`;
  `read_itf8`, `read_ltf8` are `Noodles/Hostile/Num.lean`).

External components are parameters (`Deps`): CRC-32 (`flate2::Crc`, any function), the block
codecs behind `Block::decode` for a method other than `None` (any function that does not panic —
their own panics are the known findings F37-*), the SAM header parser (as in
`Noodles/Hostile/BamHeader.lean`) and, for a gzip-compressed file header block, what
`flate2::read::GzDecoder` delivers under the read pattern of `read_file_header`.

NOT modelled: allocation (`alloc_zeroed(uncompressed_size)` of `Block::decode` is part of the
codec parameter: it may fail with `OutOfMemory`, an error, when the declared size cannot be had).
-/
namespace Noodles.Hostile.Cram
open Noodles.Hostile Rd

/-- `MAGIC_NUMBER` = `CRAM` -/
def MAGIC : Bytes := [0x43, 0x52, 0x41, 0x4d]

/-! ## integers -/

/-- `read_itf8` (`Noodles/Hostile/Num.lean`) -/
def itf8 : Rd Int := Num.readItf8
/-- `read_ltf8` -/
def ltf8 : Rd Int := Num.readLtf8

/-- `read_itf8_as::<usize>` / `::<u64>`: `n.try_into()`, negative is `InvalidData` -/
def itf8Nat : Rd Nat := do let n ← itf8; natOfInt .invalidData n
/-- `read_ltf8_as::<u64>` -/
def ltf8Nat : Rd Nat := do let n ← ltf8; natOfInt .invalidData n

/-! ## file definition -/

structure FileDefinition where
  major : Nat
  minor : Nat
  fileId : Bytes
  deriving Repr, DecidableEq

/-- `read_file_definition`: magic number (validated), `Version::new(buf[0], buf[1])` of a
`[u8; 2]`, 20 bytes of file id -/
def readFileDefinition : Rd FileDefinition := do
  readMagic MAGIC
  let v ← readExact 2
  let major ← Rd.lift (index v 0)
  let minor ← Rd.lift (index v 1)
  let id ← readExact 20
  return ⟨major.toNat, minor.toNat, id⟩

/-! ## reference sequence context -/

inductive RefCtx
  | some (id start end_ : Nat)
  | none
  | many
  deriving Repr, DecidableEq

/-- `ReferenceSequenceContext::try_from((id, start, span))`: `-1` is `None`, `-2` is `Many`,
otherwise `usize::try_from(id)`, `Position::try_from(usize::try_from(start))` (non-zero),
`NonZero::try_from(usize::try_from(span))`, `start.checked_add(usize::from(span) - 1)` -/
def refCtxOf (id start span : Int) : Res RefCtx :=
  if id = -1 then .ok .none
  else if id = -2 then .ok .many
  else if id < 0 then .err .invalidData
  else if start ≤ 0 then .err .invalidData
  else if span ≤ 0 then .err .invalidData
  else do
    let d ← usub span.toNat 1                       -- `usize::from(alignment_span) - 1`
    -- `checked_add`: an overflow is `InvalidData`, not a panic
    if start.toNat + d < USIZE then return .some id.toNat start.toNat (start.toNat + d)
    else .err .invalidData

/-- `Context::alignment_span()`: `usize::from(end) - usize::from(start) + 1`, an accessor of a
value that was returned `Ok` (crate-internal: the type cannot be named from outside, so the
correspondence does not reach it; used when a CRAM index is built) -/
def alignmentSpan : RefCtx → Res Nat
  | .some _ start end_ => do
    let d ← usub end_ start
    uadd d 1
  | _ => .ok 0

/-! ## data container header -/

structure ContainerHeader where
  ctx : RefCtx
  recordCount : Nat
  recordCounter : Nat
  baseCount : Nat
  blockCount : Nat
  landmarks : List Nat
  deriving Repr, DecidableEq

/-- the bytes a `CrcReader` has seen: what was consumed of `orig` when `rest` is left -/
def consumed (orig rest : Bytes) : Bytes := orig.take (orig.length - rest.length)

/-- `read_landmarks`: the count, then the positions, all `read_itf8_as::<usize>` -/
def readLandmarks : Rd (List Nat) := do
  let n ← itf8Nat
  many itf8Nat n

def EOF_LENGTH : Nat := 15
def EOF_ALIGNMENT_START : Int := 4542278
def EOF_CRC32 : Nat := 0x4fd9bd05

/-- the fields `read_header_inner` reads through the `CrcReader` -/
def readContainerFields : Rd (Nat × Int × Int × ContainerHeader) := do
  let len ← readCountI32                     -- `usize::try_from(read_i32_le)`
  let rid ← itf8
  let start ← itf8
  let span ← itf8
  let ctx ← Rd.lift (refCtxOf rid start span)
  let recordCount ← itf8Nat
  let recordCounter ← ltf8Nat
  let baseCount ← ltf8Nat
  let blockCount ← itf8Nat
  let landmarks ← readLandmarks
  return (len, rid, start, ⟨ctx, recordCount, recordCounter, baseCount, blockCount, landmarks⟩)

/-- `container::header::read_header` with the `CrcReader` started at `orig`: the fields, the
CRC-32 of their bytes against the stored one, then the end-of-file test; the result is the body
length, 0 for the EOF container -/
def readContainerHeaderFrom (crc : Bytes → Nat) (orig : Bytes) : Rd (Nat × ContainerHeader) := do
  let (len, rid, start, h) ← readContainerFields
  let r ← Rd.rest
  let actual := crc (consumed orig r)
  let expected ← readU32
  if actual ≠ expected then Rd.fail .invalidData else
  if len = EOF_LENGTH ∧ rid = -1 ∧ start = EOF_ALIGNMENT_START ∧ h.blockCount = 1 ∧ actual = EOF_CRC32
  then return (0, h) else return (len, h)

def readContainerHeader (crc : Bytes → Nat) : Rd (Nat × ContainerHeader) := fun orig =>
  readContainerHeaderFrom crc orig orig

/-- `read_container`: `Ok(0)` (`none`: end of stream — also for a body length of 0) or the header
and the `len` body bytes (`take(len).read_to_end(..) < len` is `UnexpectedEof`) -/
def readContainer (crc : Bytes → Nat) : Rd (Option (ContainerHeader × Bytes)) := do
  let (len, h) ← readContainerHeader crc
  if len = 0 then return none else
  let src ← readExactToVec len
  return some (h, src)

/-! ## blocks -/

structure Block where
  method : Nat
  contentType : Nat
  contentId : Int
  uncompressedSize : Nat
  src : Bytes
  deriving Repr, DecidableEq

/-- `read_compression_method`: `split_off_first` (`UnexpectedEof`), `decode` (0..=8) -/
def readMethod : Rd Nat := do
  let m ← readU8
  if m ≤ 8 then return m else Rd.fail .invalidData

/-- `read_content_type`: `split_off_first`, `decode` (0..=5) -/
def readContentType : Rd Nat := do
  let t ← readU8
  if t ≤ 5 then return t else Rd.fail .invalidData

/-- the part of `read_block` before the checksum: method, content type, content id, the two
sizes, `src.split_off(..compressed_size)` (`UnexpectedEof` when the slice is shorter) -/
def readBlockHead : Rd Block := do
  let method ← readMethod
  let contentType ← readContentType
  let contentId ← itf8
  let compressedSize ← itf8Nat
  let uncompressedSize ← itf8Nat
  let data ← readExact compressedSize
  return ⟨method, contentType, contentId, uncompressedSize, data⟩

/-- the rest of `read_block`, `original_src` in hand:
`let end = original_src.len() - src.len(); crc32(&original_src[..end])`, the stored CRC-32, and
"a raw size of zero is an empty block whatever the method byte says" -/
def readBlockTail (crc : Bytes → Nat) (orig : Bytes) (b : Block) : Rd Block := do
  let src ← Rd.rest
  let e ← Rd.lift (usub orig.length src.length)
  let covered ← Rd.lift (sliceTo orig e)
  let actual := crc covered
  let expected ← readU32
  if actual ≠ expected then Rd.fail .invalidData else
  return (if b.uncompressedSize = 0 then { b with method := 0 } else b)

/-- `read_block` -/
def readBlock (crc : Bytes → Nat) : Rd Block := fun orig =>
  (readBlockHead >>= readBlockTail crc orig) orig

/-- `read_block_as`: `validate_content_type` -/
def readBlockAs (crc : Bytes → Nat) (expected : Nat) : Rd Block := do
  let b ← readBlock crc
  if b.contentType = expected then return b else Rd.fail .invalidData

def FILE_HEADER : Nat := 0
def COMPRESSION_HEADER : Nat := 1
def SLICE_HEADER : Nat := 2
def EXTERNAL_DATA : Nat := 4
def CORE_DATA : Nat := 5

/-- the block codecs: `decode method src uncompressed_size` for a method in `1..=8` -/
abbrev Codec := Nat → Bytes → Nat → Res Bytes

/-- `Block::decode`: `None` borrows the bytes, everything else is a codec -/
def decodeBlock (D : Codec) (b : Block) : Res Bytes :=
  if b.method = 0 then .ok b.src else D b.method b.src b.uncompressedSize

/-! ## slice header -/

structure SliceHeader where
  ctx : RefCtx
  recordCount : Nat
  recordCounter : Nat
  blockCount : Nat
  blockContentIds : List Int
  embeddedRef : Option Int
  md5 : Option Bytes
  tags : Bytes
  deriving Repr, DecidableEq

/-- `read_reference_md5`: `split_first_chunk::<16>` (`UnexpectedEof`), all zero is `None` -/
def readMd5 : Rd (Option Bytes) := do
  let b ← readExact 16
  return (if b.all (· == 0) then none else some b)

/-- `read_optional_tags`: `src.split_at(src.len())` -/
def readTags : Rd Bytes := fun s =>
  match splitAt s s.length with
  | .ok (buf, rest) => .ok (buf, rest)
  | .err e => .err e
  | .panic => .panic

/-- `read_header_inner` on the decoded bytes of the slice header block -/
def readSliceHeaderInner : Rd SliceHeader := do
  let rid ← itf8
  let start ← itf8
  let span ← itf8
  let ctx ← Rd.lift (refCtxOf rid start span)
  let recordCount ← itf8Nat
  let recordCounter ← ltf8Nat
  let blockCount ← itf8Nat
  let n ← itf8Nat
  let ids ← many itf8 n
  let e ← itf8
  let md5 ← readMd5
  let tags ← readTags
  return ⟨ctx, recordCount, recordCounter, blockCount, ids, if e = -1 then none else some e, md5, tags⟩

/-- `slice::header::read_header`: the block (content type `SliceHeader`), `decode`, then
`read_header_inner(&mut &buf[..])` -/
def readSliceHeader (crc : Bytes → Nat) (D : Codec) : Rd SliceHeader := do
  let b ← readBlockAs crc SLICE_HEADER
  let buf ← Rd.lift (decodeBlock D b)
  let (h, _) ← Rd.lift (readSliceHeaderInner buf)
  return h

/-- `read_slice`: the header and the bytes after its block -/
def readSlice (crc : Bytes → Nat) (D : Codec) (src : Bytes) : Res (SliceHeader × Bytes) :=
  readSliceHeader crc D src

/-- one block of `decode_blocks`: `read_block_as(.., ty)` then `decode` -/
def readDecoded (crc : Bytes → Nat) (D : Codec) (ty : Nat) : Rd (Int × Bytes) := do
  let b ← readBlockAs crc ty
  let d ← Rd.lift (decodeBlock D b)
  return (b.contentId, d)

/-- `Slice::decode_blocks`: the core data block, then `block_count - 1` (`checked_sub`) external
blocks -/
def decodeBlocks (crc : Bytes → Nat) (D : Codec) (h : SliceHeader) : Rd (Bytes × List (Int × Bytes)) := do
  let (_, core) ← readDecoded crc D CORE_DATA
  if h.blockCount = 0 then Rd.fail .invalidData else
  let ext ← many (readDecoded crc D EXTERNAL_DATA) (h.blockCount - 1)
  return (core, ext)

/-! ## `Container::slices` -/

/-- what one item of the `slices()` iterator, followed by `decode_blocks()`, gives: the error of
`read_slice`, or the slice header with the error / result of `decode_blocks` -/
abbrev SliceItem := Except Err (SliceHeader × Except Err (Bytes × List (Int × Bytes)))

deriving instance DecidableEq for Except

/-- turn the error of an item into a value; a panic stays a panic -/
def catchErr {α : Type} : Res α → Res (Except Err α)
  | .ok a => .ok (.ok a)
  | .err e => .ok (.error e)
  | .panic => .panic

/-- one round of the closure of `slices()`: `landmarks[i]`, `landmarks.get(i + 1)` or
`src.len()`, `src.get(start..end)` (`None`: "invalid landmark"), `read_slice`; then
`decode_blocks` on what came back `Ok` -/
def sliceItem (crc : Bytes → Nat) (D : Codec) (landmarks : List Nat) (src : Bytes) (i : Nat) :
    Res SliceItem := do
  let start ← unwrap landmarks[i]?                           -- `landmarks[i]`
  let j ← uadd i 1                                           -- `i += 1`
  let end_ := (landmarks[j]?).getD src.length
  catchErr (do
    -- `src.get(start..end)`
    let s ← if start ≤ end_ ∧ end_ ≤ src.length then slice src start end_ else Res.err .invalidData
    let (h, rest) ← readSlice crc D s
    let blocks ← catchErr (do
      let (r, _) ← decodeBlocks crc D h rest
      return r)
    return (h, blocks))

/-- the whole iteration: `i` runs while `i < landmarks.len()` -/
def slicesFrom (crc : Bytes → Nat) (D : Codec) (landmarks : List Nat) (src : Bytes) :
    (fuel i : Nat) → Res (List SliceItem)
  | 0, _ => .ok []
  | fuel+1, i =>
    if i < landmarks.length then do
      let it ← sliceItem crc D landmarks src i
      let rest ← slicesFrom crc D landmarks src fuel (i + 1)
      return it :: rest
    else .ok []

def slices (crc : Bytes → Nat) (D : Codec) (h : ContainerHeader) (src : Bytes) : Res (List SliceItem) :=
  slicesFrom crc D h.landmarks src h.landmarks.length 0

/-- `read_container`, then every slice and its blocks -/
def readContainerAndSlices (crc : Bytes → Nat) (D : Codec) :
    Rd (Option (ContainerHeader × Nat × List SliceItem)) := do
  match ← readContainer crc with
  | none => return none
  | some (h, src) =>
    let items ← Rd.lift (slices crc D h src)
    return some (h, src.length, items)

/-! ## the file header container (`read_file_header`) -/

/-- `header::container::read_header`: the same fields as a data container header, read and
dropped (no `ReferenceSequenceContext`, counts not converted — only the landmark count is),
CRC-32 checked; the result is the body length as a `u64` -/
def readHeaderContainerFields : Rd Nat := do
  let len ← readCountI32                 -- `u64::try_from(read_i32_le)`
  let _ ← itf8
  let _ ← itf8
  let _ ← itf8
  let _ ← itf8
  let _ ← ltf8
  let _ ← ltf8
  let _ ← itf8
  let n ← itf8Nat
  let _ ← many itf8 n
  return len

def readHeaderContainerHeaderFrom (crc : Bytes → Nat) (orig : Bytes) : Rd Nat := do
  let len ← readHeaderContainerFields
  let r ← Rd.rest
  let actual := crc (consumed orig r)
  let expected ← readU32
  if actual ≠ expected then Rd.fail .invalidData else return len

def readHeaderContainerHeader (crc : Bytes → Nat) : Rd Nat := fun orig =>
  readHeaderContainerHeaderFrom crc orig orig

/-- what a `GzDecoder` over the block's `compressed_size` window does under the read pattern of
`read_file_header` (`read_exact` of the 4 bytes of `l_text`, then 8 KiB `BufReader` fills through
`take(l_text)` until the end): the first four bytes or the error of that read; then the text
bytes delivered before the source ended, and the error it ended with (`none`: cleanly) -/
structure GzRun where
  first4 : Except Err Bytes
  text : Bytes
  stop : Option Err

/-- the lines of the header text and the error the text source ended with -/
abbrev TextRun := List Bytes × Option Err

/-- the text out of a block's byte source, for a raw block: `l_text` (`i32` → `u64`), then
`take(l_text)`; the source simply ends -/
def rawText : Rd TextRun := do
  let lText ← readCountI32
  let w ← Rd.window lText
  return (BamHdr.textLines w, none)

/-- the same for a gzip block. A source that fails hands over the complete lines it delivered
before (the unterminated rest is dropped with the error). -/
def gzText (g : GzRun) : Res TextRun :=
  match g.first4 with
  | .error e => .err e
  | .ok b =>
    if toI32 (leVal b) < 0 then .err .invalidData else
    match g.stop with
    | none => .ok (BamHdr.textLines g.text, none)
    | some e => .ok ((BamHdr.linesGo g.text none).1, some e)

/-- the reader `read_block` (stream flavour) builds for the block's bytes:
`reader.take(uncompressed_size)` or `GzDecoder::new(reader.take(compressed_size))` -/
inductive Source
  | raw (data : Bytes)
  | gzip (window : Bytes)
  deriving Repr, DecidableEq

/-- `header::container::block::read_block` on the container's `Take`: method, content type —
which must be `FileHeader` —, content id, the two sizes (the block's CRC-32 is not read), then
the source: `take(uncompressed_size)` for `None`, `GzDecoder::new(take(compressed_size))` for
`Gzip`, `InvalidData` for every other method. Nothing is read after the block (the container's
`Take` is discarded), so the source is given as the bytes inside its `Take`. -/
def readHeaderBlock : Rd Source := do
  let method ← readMethod
  let contentType ← readContentType
  if contentType ≠ FILE_HEADER then Rd.fail .invalidData else
  let _ ← itf8
  let compressedSize ← itf8Nat
  let uncompressedSize ← itf8Nat
  if method = 0 then do
    let d ← Rd.window uncompressedSize
    return .raw d
  else if method = 1 then do
    let w ← Rd.window compressedSize
    return .gzip w
  else Rd.fail .invalidData

/-- `raw_sam_header_reader` after `read_block`, and the `read_line` loop: `l_text` and the text
out of the block's source -/
def sourceText (G : Bytes → GzRun) : Source → Res TextRun
  | .raw d =>
    match rawText d with
    | .ok (t, _) => .ok t
    | .err e => .err e
    | .panic => .panic
  | .gzip w => gzText (G w)

/-- `read_file_header_inner`: the container header, then — inside `take(len)` — the block, the
text lines into the parser (a rejected line is `InvalidData`; an error of the text source comes
after the complete lines before it), both `discard_to_end`s. The container's `Take` is read to
its end, whatever the block said. -/
def readFileHeader (crc : Bytes → Nat) (G : Bytes → GzRun) (P : List Bytes → Option BamHdr.Refs) :
    Rd BamHdr.Refs := do
  let len ← readHeaderContainerHeader crc
  let w ← Rd.window len
  let (src, _) ← Rd.lift (readHeaderBlock w)
  let (lines, stop) ← Rd.lift (sourceText G src)
  match P lines with
  | none => Rd.fail .invalidData
  | some refs =>
    match stop with
    | some e => Rd.fail e
    | none => return refs

/-- the same through the public pieces (`header_reader().container_reader()`,
`raw_sam_header_reader()`, the `read_line` loop, the two `discard_to_end`s): the lines -/
def readFileHeaderParts (crc : Bytes → Nat) (G : Bytes → GzRun) : Rd (List Bytes) := do
  let len ← readHeaderContainerHeader crc
  let w ← Rd.window len
  let (src, _) ← Rd.lift (readHeaderBlock w)
  let (lines, stop) ← Rd.lift (sourceText G src)
  match stop with
  | some e => Rd.fail e
  | none => return lines

end Noodles.Hostile.Cram
