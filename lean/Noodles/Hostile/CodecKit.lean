import Noodles.Hostile.Stream
import Noodles.Hostile.Num
/-!
# Primitives for the CRAM codec decoders on hostile input (C15, extension C15codec)

The rANS 4x8, rANS Nx16 and name tokenizer decoders of noodles-cram work on `u8`/`u16`/`u32`
values, fixed 256-entry tables (`[u16; 256]`, `[u32; 256]`, `[bool; 256]`), a 4096-slot lookup
table, `Vec<u8>` output buffers and `&mut &[u8]` cursors. The harness is built with overflow
checks ON, so every `+ - * <<` on a fixed-width integer panics when the mathematical result does
not fit (for `<<`: when the shift AMOUNT is not below the width; value bits are dropped silently).
Each of these is a primitive below that answers `panic` in exactly that case.

Loops:
* `loop body a` — a `loop { … }` / `while` whose every continuing iteration has consumed input.
  The fuel is the number of bytes left plus one; RUNNING OUT OF FUEL IS REPORTED AS `panic`
  (it would be a decoder that does not terminate), so a `≠ panic` theorem about a model built
  with `loop` includes the termination of that loop.
* `forN body n i st` — `for i in i..i+n` carrying a state.
-/
namespace Noodles.Hostile.Codec
open Noodles.Hostile Noodles.Hostile.Rd

/-! ## fixed-width arithmetic (overflow checks ON) -/

/-- `2^32` as a constant that is computed once: a numeral of this size inside a function body is
rebuilt from its decimal string at every call of the compiled driver. For the same reason the
`u32` overflow tests below are written `≤ 4294967295` (`u32::MAX`) instead of `< 2^32`. -/
def P32 : Nat := 2^32

/-- `a + b` on `u16` -/
def add16 (a b : Nat) : Res Nat := if a + b < 2^16 then .ok (a + b) else .panic
/-- `a + b` on `u32` -/
def add32 (a b : Nat) : Res Nat := if a + b ≤ 4294967295 then .ok (a + b) else .panic
/-- `a * b` on `u32` -/
def mul32 (a b : Nat) : Res Nat := if a * b ≤ 4294967295 then .ok (a * b) else .panic
/-- `a << k` on `u32`: panics when `k ≥ 32`; bits shifted out are lost -/
def shl32 (a k : Nat) : Res Nat := if k < 32 then .ok ((a <<< k) % P32) else .panic
/-- `a / b` on an unsigned type: division by zero panics -/
def udiv (a b : Nat) : Res Nat := if b = 0 then .panic else .ok (a / b)
/-- `a % b` on an unsigned type: division by zero panics -/
def umod (a b : Nat) : Res Nat := if b = 0 then .panic else .ok (a % b)

/-! ## tables and buffers -/

/-- `t[i]` on an array / slice / `Vec` -/
def idxN {α : Type} (l : List α) (i : Nat) : Res α :=
  match l[i]? with
  | some v => .ok v
  | none => .panic

/-- `t[i] = v` -/
def setN {α : Type} (l : List α) (i : Nat) (v : α) : Res (List α) :=
  if i < l.length then .ok (l.set i v) else .panic

/-- `t[i]` on a table kept as an `Array` (constant-time access for the driver; the same check) -/
def idxA {α : Type} (a : Array α) (i : Nat) : Res α :=
  match a[i]? with
  | some v => .ok v
  | none => .panic

/-- `t[i] = v` on a buffer kept as an `Array` -/
def setA {α : Type} (a : Array α) (i : Nat) (v : α) : Res (Array α) :=
  if i < a.size then .ok (a.setIfInBounds i v) else .panic

/-- `alloc_zeroed(len)` (`noodles-cram/src/codecs.rs`): `try_reserve_exact` + `resize`. The
allocator is a parameter (`alloc len = true`: the reservation succeeds); a failed reservation is
`Err(io::ErrorKind::OutOfMemory)`. `Err` has no such class: it is reported as `invalidInput`; the
correspondence never compares it (declared sizes are kept small there). -/
def allocZeroed (alloc : Nat → Bool) (len : Nat) : Res (List Nat) :=
  if alloc len then .ok (List.replicate len 0) else .err .invalidInput

/-! ## cursor readers -/

/-- `read_u16_le` (`split_first_chunk`) -/
def readU16le : Rd Nat := readU16

/-- `split_off(src, len)` of `rans_nx16/decode.rs`, `decode/stripe.rs`, `name_tokenizer/decode.rs`:
`split_at_checked` / `split_off(..len)`, `UnexpectedEof` when fewer than `len` bytes are left -/
def splitOff (len : Nat) : Rd Bytes := readExact len

/-- `read_uint7` as a cursor reader; `read_uint7_as::<_, usize>` cannot fail on a 64-bit target -/
def readUint7 : Rd Nat := Num.readUint7

/-- run a reader on a buffer of its own (`&mut &buf[..]`); what it leaves unread is dropped -/
def onBuf {α : Type} (x : Rd α) (buf : Bytes) : Res α :=
  match x buf with
  | .ok (a, _) => .ok a
  | .err e => .err e
  | .panic => .panic

/-! ## loops -/

/-- `loop body` with explicit fuel -/
def loopFuel {σ β : Type} (body : σ → Rd (σ ⊕ β)) : Nat → σ → Rd β
  | 0, _ => fun _ => .panic
  | fuel + 1, a => fun s =>
    match body a s with
    | .ok (.inl a', r) => loopFuel body fuel a' r
    | .ok (.inr b, r) => .ok (b, r)
    | .err e => .err e
    | .panic => .panic

/-- a `loop { … }` whose continuing iterations consume input: `inl` = next iteration,
`inr` = `break` with a value -/
def loop {σ β : Type} (body : σ → Rd (σ ⊕ β)) (a : σ) : Rd β :=
  fun s => loopFuel body (s.length + 1) a s

/-- `for i in i..i+n { st = body(i, st)? }` -/
def forN {σ : Type} (body : Nat → σ → Rd σ) : Nat → Nat → σ → Rd σ
  | 0, _, st => Rd.pure st
  | n + 1, i, st => Rd.bind (body i st) fun st' => forN body n (i + 1) st'

/-- the same loop without a cursor -/
def forR {σ : Type} (body : Nat → σ → Res σ) : Nat → Nat → σ → Res σ
  | 0, _, st => .ok st
  | n + 1, i, st => body i st >>= fun st' => forR body n (i + 1) st'

/-- `u8` values back to bytes -/
def toBytes (l : List Nat) : Bytes := l.map UInt8.ofNat

end Noodles.Hostile.Codec
