import Noodles.Hostile.Proof
import Noodles.Hostile.CsiQuery
import Noodles.Csi.BinningProof
/-! Helper lemmas for the index-query part of `Noodles/Props/C15.lean`. -/
namespace Noodles.Hostile.Csi
open Noodles.Hostile Res
open Noodles.Csi (lvl seven_lvl)

theorem pow_l3 (l : Nat) : 2 ^ (l * 3) = 8 ^ l := by
  rw [Nat.mul_comm, Nat.pow_mul]

theorem lvl_mono {a b : Nat} (h : a ≤ b) : lvl a ≤ lvl b := by
  induction h with
  | refl => exact Nat.le_refl _
  | step _ ih => exact Nat.le_trans ih (Nat.le_add_right _ _)


theorem maxId_val (d : Nat) : 2 ^ ((d + 1) * 3) / 7 = lvl (d + 1) := by
  rw [pow_l3]; have := seven_lvl (d + 1); omega

/-- `(2^a - 1) >> s = 2^(a-s) - 1` for `s ≤ a`, as an upper bound for anything below `2^a` -/
theorem shr_lt {x a s : Nat} (hx : x < 2 ^ a) (hs : s ≤ a) : x >>> s < 2 ^ (a - s) := by
  rw [Nat.shiftRight_eq_div_pow]
  apply Nat.div_lt_of_lt_mul
  rw [← Nat.pow_add]
  have : s + (a - s) = a := by omega
  rw [this]; exact hx

/-- the loop from level `l` on: no panic, every marked range ends below `lvl (d+1)` -/
theorem reg2binsLoop_ok (beg e ms d : Nat) (hgeo : ms + 3 * d < 64) (he : e < 2 ^ (ms + 3 * d)) :
    ∀ (fuel l : Nat), l + fuel = d + 1 →
      ∃ rs, reg2binsLoop (lvl (d + 1)) beg e fuel l ((ms : Int) + ((d - l : Nat) : Int) * 3) (lvl l) = .ok rs ∧
        ∀ r ∈ rs, r.2 < lvl (d + 1)
  | 0, l, _ => ⟨[], rfl, by simp⟩
  | fuel+1, l, h => by
    have hl : l ≤ d := by omega
    unfold reg2binsLoop
    have hs0 : ¬((ms : Int) + ((d - l : Nat) : Int) * 3 < 0 ∨ (ms : Int) + ((d - l : Nat) : Int) * 3 ≥ 64) := by omega
    rw [if_neg hs0]
    have hsn : ((ms : Int) + ((d - l : Nat) : Int) * 3).toNat = ms + 3 * (d - l) := by omega
    rw [hsn]
    -- the end of the range at this level
    have hbound : lvl l + (e >>> (ms + 3 * (d - l))) < lvl (d + 1) := by
      have h1 : e >>> (ms + 3 * (d - l)) < 2 ^ (ms + 3 * d - (ms + 3 * (d - l))) :=
        shr_lt he (by omega)
      have h2 : ms + 3 * d - (ms + 3 * (d - l)) = l * 3 := by omega
      rw [h2, pow_l3] at h1
      have h3 : lvl (l + 1) ≤ lvl (d + 1) := lvl_mono (by omega)
      have h4 : lvl (l + 1) = lvl l + 8 ^ l := rfl
      omega
    have hset : setRange (lvl (d + 1)) (lvl l + (beg >>> (ms + 3 * (d - l)))) (lvl l + (e >>> (ms + 3 * (d - l)))) = .ok () := by
      unfold setRange
      simp [hbound]
    dsimp only
    rw [hset]
    simp only [bind_ok]
    have hnext : (ms : Int) + ((d - l : Nat) : Int) * 3 - 3 = (ms : Int) + ((d - (l + 1) : Nat) : Int) * 3 ∨ fuel = 0 := by
      by_cases hf : fuel = 0
      · right; exact hf
      · left; omega
    have ht : lvl l + 2 ^ (l * 3) = lvl (l + 1) := by rw [pow_l3]; simp [lvl]
    rw [ht]
    rcases hnext with hn | hf
    · rw [hn]
      obtain ⟨rs, hrs, hall⟩ := reg2binsLoop_ok beg e ms d hgeo he fuel (l + 1) (by omega)
      rw [hrs]
      refine ⟨_ :: rs, rfl, ?_⟩
      intro r hr
      simp only [List.mem_cons] at hr
      rcases hr with rfl | hr
      · exact hbound
      · exact hall r hr
    · subst hf
      refine ⟨[(lvl l + ((beg >>> (ms + 3 * (d - l)))), lvl l + ((e >>> (ms + 3 * (d - l)))))], by simp [reg2binsLoop], ?_⟩
      intro r hr
      simp only [List.mem_singleton] at hr
      subst hr; exact hbound

theorem reg2bins_ok (s e ms d : Nat) (hs : 1 ≤ s) (he1 : 1 ≤ e) (hgeo : ms + 3 * d < 64)
    (he : e ≤ 2 ^ (ms + 3 * d) - 1) :
    ∃ rs, reg2bins (lvl (d + 1)) s e ms d = .ok rs ∧ ∀ r ∈ rs, r.2 < lvl (d + 1) := by
  unfold reg2bins
  rw [usub_ok hs, usub_ok he1]
  simp only [bind_ok]
  have hp : 0 < 2 ^ (ms + 3 * d) := Nat.pow_pos (by omega)
  have := reg2binsLoop_ok (s - 1) (e - 1) ms d hgeo (by omega) (d + 1) 0 (by omega)
  simpa [lvl] using this

theorem filterBins_fixed_ne_panic (n : Nat) (rs : List (Nat × Nat)) :
    ∀ ids : List Nat, filterBins true n rs ids ≠ .panic
  | [] => by simp [filterBins]
  | id :: ids => by
    unfold filterBins
    have ih := filterBins_fixed_ne_panic n rs ids
    split
    · simp only [bind_ok]
      refine bind_ne_panic ih ?_
      intro _ _; simp
    · simp only [if_true, bind_ok]
      refine bind_ne_panic ih ?_
      intro _ _; simp

theorem filterBins_unfixed_ne_panic (n : Nat) (rs : List (Nat × Nat)) :
    ∀ ids : List Nat, (∀ id ∈ ids, id < n) → filterBins false n rs ids ≠ .panic
  | [], _ => by simp [filterBins]
  | id :: ids, h => by
    unfold filterBins
    have ih := filterBins_unfixed_ne_panic n rs ids (fun x hx => h x (List.mem_cons_of_mem _ hx))
    have : id < n := h id (List.mem_cons_self ..)
    rw [if_pos this]
    simp only [bind_ok]
    refine bind_ne_panic ih ?_
    intro _ _; simp

/-- a position argument is a `Position` (a non-zero `usize`) -/
def PosOK (p : Option Nat) : Prop := ∀ x, p = some x → 1 ≤ x

theorem maxPosition_fixed_sat (ms d : Nat) :
    Sat (maxPosition true ms d) (fun m => 0 < ms ∧ d ≤ MAX_DEPTH ∧ ms + 3 * d < 64 ∧ m = 2 ^ (ms + 3 * d) - 1 ∧ 1 ≤ m) := by
  unfold maxPosition
  simp only [if_true]
  by_cases h0 : ms = 0
  · simp [h0, Sat]
  · by_cases hd : d > MAX_DEPTH
    · simp [h0, hd, Sat]
    · by_cases hg : ms + 3 * d ≥ 64
      · simp [h0, hd, hg, Sat]
      · have hp2 : 2 ≤ 2 ^ (ms + 3 * d) := by
          have : 2 ^ 1 ≤ 2 ^ (ms + 3 * d) := Nat.pow_le_pow_right (by omega) (by omega)
          simpa using this
        have hn0 : ¬(2 ^ (ms + 3 * d) - 1 = 0) := by omega
        simp only [h0, hd, hg, if_false, hn0, Sat]
        exact ⟨by omega, by omega, by omega, trivial, by omega⟩

/-- FIXED code: `query` never panics, whatever the geometry, the bin ids and the interval -/
theorem query_fixed_ne_panic (ms d : Nat) (ids : List Nat) (start end_ : Option Nat)
    (hs : PosOK start) (he : PosOK end_) : query true ms d ids start end_ ≠ .panic := by
  unfold query resolveInterval
  have hm := maxPosition_fixed_sat ms d
  revert hm
  cases hmp : maxPosition true ms d with
  | panic => intro h; exact absurd h (by simp [Sat])
  | err e => intro _; simp
  | ok m =>
    intro hm
    simp only [Sat] at hm
    obtain ⟨h0, hd, hgeo, hmv, hm1⟩ := hm
    simp only [bind_ok]
    split
    · simp
    · rename_i hsm
      split
      · simp
      · rename_i hem
        simp only [pure_eq, bind_ok]
        have hda : (decide (d ≤ MAX_DEPTH)) = true := by simpa using hd
        simp only [maxId, hda, assert_true, bind_ok, if_true, pure_eq]
        rw [maxId_val]
        have hs1 : 1 ≤ start.getD 1 := by
          cases start with
          | none => simp
          | some x => simpa using hs x rfl
        have he1 : 1 ≤ end_.getD m := by
          cases end_ with
          | none => simpa using hm1
          | some x => simpa using he x rfl
        obtain ⟨rs, hrs, _⟩ := reg2bins_ok (start.getD 1) (end_.getD m) ms d hs1 he1 hgeo (by omega)
        rw [hrs]
        simp only [bind_ok]
        exact filterBins_fixed_ne_panic _ _ _

/-- code AS IT WAS: no panic under the validity conditions the readers did not establish -/
theorem query_unfixed_ne_panic (ms d : Nat) (ids : List Nat) (start end_ : Option Nat)
    (hs : PosOK start) (he : PosOK end_)
    (h0 : 0 < ms) (hd : d ≤ 9) (hgeo : ms + 3 * d < 64) (hids : ∀ id ∈ ids, id < lvl (d + 1)) :
    query false ms d ids start end_ ≠ .panic := by
  unfold query resolveInterval maxPosition
  have hda : (decide (ms > 0)) = true := by simpa using h0
  have hng : ¬(ms + 3 * d ≥ 64) := by omega
  have hp : 0 < 2 ^ (ms + 3 * d) := Nat.pow_pos (by omega)
  have hp2 : 2 ≤ 2 ^ (ms + 3 * d) := by
    have : 2 ^ 1 ≤ 2 ^ (ms + 3 * d) := Nat.pow_le_pow_right (by omega) (by omega)
    simpa using this
  have hn0 : ¬(2 ^ (ms + 3 * d) - 1 = 0) := by omega
  simp only [Bool.false_eq_true, if_false, hda, assert_true, bind_ok, hng, hn0]
  split
  · simp
  · rename_i hsm
    split
    · simp
    · rename_i hem
      simp only [pure_eq, bind_ok]
      have hdd : (decide (d ≤ MAX_DEPTH)) = true :=
        decide_eq_true (show d ≤ MAX_DEPTH by simp only [MAX_DEPTH]; omega)
      have h32 : ¬((d + 1) * 3 ≥ 32) := by omega
      simp only [maxId, hdd, assert_true, bind_ok, Bool.false_eq_true, if_false, h32, pure_eq]
      rw [maxId_val]
      have hs1 : 1 ≤ start.getD 1 := by
        cases start with
        | none => simp
        | some x => simpa using hs x rfl
      have he1 : 1 ≤ end_.getD (2 ^ (ms + 3 * d) - 1) := by
        cases end_ with
        | none => simp only [Option.getD_none]; omega
        | some x => simpa using he x rfl
      obtain ⟨rs, hrs, _⟩ := reg2bins_ok (start.getD 1) (end_.getD (2 ^ (ms + 3 * d) - 1)) ms d hs1 he1 hgeo (by omega)
      rw [hrs]
      simp only [bind_ok]
      exact filterBins_unfixed_ne_panic _ _ _ hids

end Noodles.Hostile.Csi
