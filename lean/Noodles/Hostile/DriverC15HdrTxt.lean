import Noodles.Basic.Wire
import Noodles.Hostile.SamHeaderText
import Noodles.Hostile.VcfHeaderText
/-!
Line-protocol handler for the header-text suites of C15 (`c15 hdrtxt sam <hex>`,
`c15 hdrtxt vcf <hex> <lines whose reserved-definition check fails>`). The answer is
`ok <digest>`, `err@<line index>` or `panic@<line index>`.
-/
namespace Noodles.Hostile.HdrTxtDriver
open Noodles.Wire hiding Bytes
open Noodles.Hostile

def fmtList (l : List String) : String := if l.isEmpty then "~" else ",".intercalate l

def samDigest (p : SamHdr.Parser) : String :=
  let hd := match p.header with
    | some (a, b, n) => s!"{a}.{b}/{n}"
    | none => "-"
  let sq := fmtList (p.refs.map fun r => s!"{hex r.1}:{r.2.1}:{r.2.2}")
  let rg := fmtList (p.rgs.map fun r => s!"{hex r.1}:{r.2}")
  let pg := fmtList (p.pgs.map fun r => s!"{hex r.1}:{r.2}")
  s!"ok hd={hd} sq={sq} rg={rg} pg={pg} co={fmtList (p.comments.map hex)}"

def fmtOut {α : Type} (f : α → String) (r : Res α × Nat) : String :=
  match r.1 with
  | .ok a => f a
  | .err _ => s!"err@{r.2}"
  | .panic => s!"panic@{r.2}"

def idsOf (p : VcfHdr.Parser) (k : VcfHdr.MapKind) : String :=
  fmtList ((p.maps.filter fun m => m.1 == k).map fun m => hex m.2)

def vcfDigest (p : VcfHdr.Parser) : String :=
  let others := fmtList (p.others.map fun o =>
    s!"{hex o.1}:{if o.2.1 then "s" else "u"}:{if o.2.1 then fmtList (o.2.2.map hex) else toString o.2.2.length}")
  s!"ok ff={p.ff.1}.{p.ff.2} info={idsOf p .info} filter={idsOf p .filter} format={idsOf p .format} alt={idsOf p .alt} contig={idsOf p .contig} other={others} samples={fmtList (p.samples.map hex)}"

def nats (s : String) : Option (List Nat) :=
  if s = "-" then some [] else (s.splitOn ",").mapM String.toNat?

def handle : List String → String
  | ["sam", h] =>
    match unhex h with
    | some s => fmtOut samDigest (SamHdr.parse SamHdr.lex s)
    | none => "bad-op"
  | ["vcf", h, d] =>
    match unhex h, nats d with
    | some s, some dms => fmtOut vcfDigest (VcfHdr.parse dms s)
    | _, _ => "bad-op"
  | _ => "bad-op"

end Noodles.Hostile.HdrTxtDriver
