import Noodles.Basic.Wire
import Noodles.Basic.Crc32
import Noodles.Hostile.Rans4x8
import Noodles.Hostile.RansNx16
import Noodles.Hostile.NameTok
/-!
Line-protocol handler for the CRAM codec decoder suites of C15 (`c15 <op> …`):

  `r4x8 <hex>`              `rans_4x8::decode(src)`
  `nx16 <n> <hex>`          `rans_nx16::decode(src, n)`
  `ntok <hex> <A>`          `name_tokenizer::decode(src)`; the token byte streams of method 0 are
                            decompressed by the rANS Nx16 MODEL, those of the arithmetic coder by
                            the table `A` = `-` or `<compressed hex>=<output hex|!class>,…` (the real
                            `aac::decode(buf, 0)` answers, keyed by content); a missing entry that
                            is reached makes the model answer `panic` (a disagreement, never silent)

Answers: `ok:<hex>` (`ok:<len>:<crc32>` above 256 bytes), `err:<class>`, `panic`.
The allocator of the model refuses more than `2^20` bytes (the harness keeps declared sizes below
that; a refusal shows as `err:invalid-input`, which the real decoder does not return for these
requests except for a bit-pack symbol count above 16).
-/
namespace Noodles.Hostile.CodecDriver
open Noodles.Wire hiding Bytes
open Noodles.Hostile

def errStr : Err → String
  | .eof => "err:eof"
  | .invalidData => "err:invalid-data"
  | .invalidInput => "err:invalid-input"

def fmtBytes (b : Bytes) : String :=
  if b.length ≤ 256 then s!"ok:{hex b}" else s!"ok:{b.length}:{Noodles.Crc32.crc32 b}"

def fmt : Res Bytes → String
  | .ok b => fmtBytes b
  | .err e => errStr e
  | .panic => "panic"

def cap (n : Nat) : Bool := n ≤ 2^20

def parseClass : String → Option Err
  | "eof" => some .eof
  | "invalid-data" => some .invalidData
  | "invalid-input" => some .invalidInput
  | _ => none

/-- one entry of the arithmetic-coder table -/
def parseEntry (s : String) : Option (Bytes × Res Bytes) :=
  match s.splitOn "=" with
  | [k, v] => do
    let k ← unhex k
    if v.startsWith "!" then
      let e ← parseClass (v.drop 1).toString
      pure (k, .err e)
    else
      let v ← unhex v
      pure (k, .ok v)
  | _ => none

def parseTable (s : String) : Option (List (Bytes × Res Bytes)) :=
  if s = "-" then some [] else (s.splitOn ",").mapM parseEntry

/-- `none` = the table has no entry for this stream -/
def lookup (t : List (Bytes × Res Bytes)) (b : Bytes) : Option (Res Bytes) :=
  (t.find? fun e => e.1 = b).map (·.2)

def handle? : List String → Option String
  | ["r4x8", h] => some <| match unhex h with
    | some s => fmt (R4x8.decodeBytes cap s)
    | none => "bad-op"
  | ["nx16", n, h] => some <| match n.toNat?, unhex h with
    | some n, some s => fmt (Nx16.decode cap s n)
    | _, _ => "bad-op"
  | ["ntok", h, a] => some <| match unhex h, parseTable a with
    | some s, some t =>
      let inner : Nat → Bytes → Res Bytes := fun m b =>
        if m = 0 then Nx16.decode cap b 0
        else match lookup t b with
          | some r => r
          | none => .panic                    -- a missing entry: the model answers `panic`
      fmt (Tok.decode inner cap s)
    | _, _ => "bad-op"
  | _ => none

end Noodles.Hostile.CodecDriver
