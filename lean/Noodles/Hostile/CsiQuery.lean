import Noodles.Hostile.Basic
/-!
# Querying a binning index whose contents are arbitrary

Transcribed from noodles-csi `binning_index/index.rs` (`resolve_interval`, `max_position`),
`binning_index/index/reference_sequence.rs` (`ReferenceSequence::query`, `reg2bins`) and
`…/reference_sequence/bin.rs` (`Bin::max_id`, `bin_limit`). The geometry `(min_shift, depth)` is
any pair of `u8` (an index VALUE can be built with any, and the CSI reader stores what the file
says), the bin ids are any `usize`.

`fixed = true` is the code after `csi-index-geometry.diff`: `max_position` reports `min_shift = 0`,
`depth > 10` and a shift of 64 or more as `InvalidInput`; `bin_limit` is computed in 64 bits; bins
whose id is not below `max_id` are ignored (`region_bins.get(id).unwrap_or(false)`).
`fixed = false` is the code as it was (finding F9): `assert!(min_shift > 0)`, `1 << n` on `usize`
with `n ≥ 64`, `assert!(depth <= 10)`, `1 << 33` on `i32` at depth 10, `region_bins[id]`.
-/
namespace Noodles.Hostile.Csi
open Noodles.Hostile

def MAX_DEPTH : Nat := 10

/-- `max_position(min_shift, depth)` -/
def maxPosition (fixed : Bool) (minShift depth : Nat) : Res Nat :=
  if fixed then
    if minShift = 0 then .err .invalidInput
    else if depth > MAX_DEPTH then .err .invalidInput
    else if minShift + 3 * depth ≥ 64 then .err .invalidInput      -- `checked_shl`
    else
      let n := 2 ^ (minShift + 3 * depth) - 1
      if n = 0 then .err .invalidInput else .ok n                  -- `Position::try_from(0)`
  else do
    assert (decide (minShift > 0))
    -- `1 << (min_shift + 3 * depth)` on `usize`: overflow check on the shift amount
    if minShift + 3 * depth ≥ 64 then .panic else
    let n := 2 ^ (minShift + 3 * depth) - 1
    if n = 0 then .err .invalidInput else .ok n

/-- `resolve_interval`: `start`/`end` are 1-based positions; `none` = unbounded -/
def resolveInterval (fixed : Bool) (minShift depth : Nat) (start end_ : Option Nat) : Res (Nat × Nat) := do
  let s := start.getD 1
  let m ← maxPosition fixed minShift depth
  if s > m then .err .invalidInput else
  let e := end_.getD m
  if e > m then .err .invalidInput else return (s, e)

/-- `Bin::max_id(depth)` = `bin_limit(depth)` -/
def maxId (fixed : Bool) (depth : Nat) : Res Nat := do
  assert (decide (depth ≤ MAX_DEPTH))
  if fixed then
    return 2 ^ ((depth + 1) * 3) / 7                               -- computed in `u64`
  else
    -- `(1 << ((depth + 1) * 3)) / 7` on `i32`: the shift amount must be below 32
    if (depth + 1) * 3 ≥ 32 then .panic else return 2 ^ ((depth + 1) * 3) / 7

/-- `bins.set(i, true)` for `i in b..=e` on a bit vector of `n` bits: panics when an index is out
of range; the result is the vector as a membership test -/
def setRange (n b e : Nat) : Res Unit :=
  if b ≤ e then (if e < n then .ok () else .panic) else .ok ()

/-- the `reg2bins` loop: level `l`, shift `s` (an `i32`, may go negative after the last level),
offset `t`; returns the marked ranges -/
def reg2binsLoop (n beg end_ : Nat) : (fuel l : Nat) → (s : Int) → (t : Nat) → Res (List (Nat × Nat))
  | 0, _, _, _ => .ok []
  | fuel+1, l, s, t => do
    -- `beg >> s` with `s: i32`: the shift amount must be in `0..64`
    if s < 0 ∨ s ≥ 64 then .panic else
    let b := t + (beg >>> s.toNat)
    let e := t + (end_ >>> s.toNat)
    setRange n b e
    let rest ← reg2binsLoop n beg end_ fuel (l + 1) (s - 3) (t + 2 ^ (l * 3))
    return (b, e) :: rest

/-- `reg2bins(start, end, min_shift, depth, &mut bins)` with `bins.len() = n` -/
def reg2bins (n start end_ minShift depth : Nat) : Res (List (Nat × Nat)) := do
  let beg ← usub start 1
  let e ← usub end_ 1
  reg2binsLoop n beg e (depth + 1) 0 ((minShift : Int) + (depth : Int) * 3) 0

def inRanges (rs : List (Nat × Nat)) (i : Nat) : Bool := rs.any fun r => r.1 ≤ i && i ≤ r.2

/-- `.filter(|(id, _)| region_bins[**id])` / `region_bins.get(**id).unwrap_or(false)` -/
def filterBins (fixed : Bool) (n : Nat) (rs : List (Nat × Nat)) : List Nat → Res (List Nat)
  | [] => .ok []
  | id :: ids => do
    let keep ← if id < n then Res.ok (inRanges rs id) else (if fixed then Res.ok false else .panic)
    let rest ← filterBins fixed n rs ids
    return if keep then id :: rest else rest

/-- `ReferenceSequence::query(min_shift, depth, interval)`: the ids of the bins returned -/
def query (fixed : Bool) (minShift depth : Nat) (ids : List Nat) (start end_ : Option Nat) : Res (List Nat) := do
  let (s, e) ← resolveInterval fixed minShift depth start end_
  let n ← maxId fixed depth
  let rs ← reg2bins n s e minShift depth
  filterBins fixed n rs ids

end Noodles.Hostile.Csi
