import Noodles.Hostile.TextKit
/-!
# The lazy SAM record (`sam::Record`): reader, field bounds, CIGAR and optional-field parsers

Transcribed from noodles-sam with every slice / index / checked addition explicit:

* `io/reader/record.rs`   — `read_record` (ten `read_required_field`s, `read_last_required_field`,
                             `read_line` for the optional fields), `read_field` (`TextKit.readField`)
* `record/fields.rs`, `record/fields/bounds.rs` — the twelve accessors: `&self.buf[a..b]` over the
                             recorded field ends, `mate_reference_sequence_name` following `=` to
                             `reference_sequence_name`
* `record/cigar.rs` + `io/reader/record_buf/cigar/op.rs`, `op/kind.rs` — `Cigar::iter`:
                             `parse_len` (`lexical_core::parse_partial::<usize>` then `&src[i..]`),
                             `parse_kind` (`split_first`; the byte is consumed also when invalid)
* `record/data.rs`, `record/data/field.rs`, `field/{tag,ty}.rs`, `field/value.rs`,
  `value/integer.rs`, `value/array.rs`, `value/array/subtype.rs` — `Data::iter` / `parse_field`

`lexical-core` is an external component: the model takes its four partial parsers as a parameter
`Lexical` with the law the slicing relies on — the reported count never exceeds the input length.
The driver instantiates the integer parsers with the transcription `lexPartial` (compared with the
real crate on every run, suite `c15 lex`) and the `f32` parser with a table of the real crate's
answers carried on the request line.

`fixed` selects the carriage-return behaviour of the reader (see `TextKit.lean`).

`Cigar::iter` is `iter::from_fn(|| if src.is_empty() { None } else { Some(parse_op(&mut src)) })`.
When `parse_len` fails (`+`, an operation length above `usize::MAX`) nothing is consumed; until
commit 6119650 ("fix: sam record CIGAR iterator did not end after an invalid operation") the
iterator then yielded the same error for ever and `format!("{:?}", record)` never returned. The
code now empties `src` after an error; `cigarItems` takes `fused` (`true` = the code as it is,
`false` = as it was) so that the termination theorem and its former counterexample can both be
stated.
-/
namespace Noodles.Hostile.SamText
open Noodles.Hostile Noodles.Hostile.Text

/-! ## `read_record` -/

/-- `Fields`: the flat buffer and the eleven field ends of `Bounds` (name, flags, reference
sequence name, alignment start, mapping quality, cigar, mate reference sequence name, mate
alignment start, template length, sequence, quality scores) -/
structure Rec where
  buf : Bytes
  ends : List Nat
  deriving Repr, DecidableEq

/-- `read_record` on a slice reader; returns the record and the byte count -/
def readRecord (fixed : Bool) (input : Bytes) : Res (Rec × Nat) := do
  let (dst, ends, len, src) ← readRequired (readField fixed) 10 input [] [] 0
  -- `read_last_required_field`
  let f ← readField fixed src dst
  let len ← uadd len f.n
  let ends := ends ++ [f.dst.length]
  if f.eol then .ok (⟨f.dst, ends⟩, len)
  else do
    let (buf, n, _) := readLineInto fixed f.rest f.dst
    let len ← uadd len n
    .ok (⟨buf, ends⟩, len)

/-! ## accessors (`record/fields.rs`): the raw slices -/

def STAR : Bytes := [42]
def EQ : Bytes := [61]

/-- field `k` of 0..10 -/
def Rec.field (r : Rec) (k : Nat) : Res Bytes := fieldSlice r.buf r.ends k

/-- `mate_reference_sequence_name`: `=` is answered by `reference_sequence_name()` -/
def Rec.mateName (r : Rec) : Res Bytes := do
  let s ← r.field 6
  if s = EQ then r.field 2 else .ok s

/-- `data()`: `&self.buf[quality_scores_end..]` -/
def Rec.data (r : Rec) : Res Bytes := tailSlice r.buf r.ends 10

/-- the raw bytes of every accessor, in column order (12 entries: 11 columns — column 6 through
`mateName` — and the optional fields) -/
def Rec.touch (r : Rec) : Res (List Bytes) := do
  let f0 ← r.field 0
  let f1 ← r.field 1
  let f2 ← r.field 2
  let f3 ← r.field 3
  let f4 ← r.field 4
  let f5 ← r.field 5
  let f6 ← r.mateName
  let f7 ← r.field 7
  let f8 ← r.field 8
  let f9 ← r.field 9
  let f10 ← r.field 10
  let d ← r.data
  .ok [f0, f1, f2, f3, f4, f5, f6, f7, f8, f9, f10, d]

/-- `Reader::read_record` (`Record::try_from(&[u8])`) followed by every accessor -/
def readAndTouch (fixed : Bool) (input : Bytes) : Res (Nat × List Bytes) := do
  let (r, n) ← readRecord fixed input
  let fs ← r.touch
  .ok (n, fs)

/-! ## `lexical-core` as a parameter -/

/-- the partial parsers: `some (value, count)` = `Ok((value, count))`. For `i32` the error is
`true` for `Error::Overflow` (the only error after which `parse_integer_value` retries as `u32`)
and `false` for every other error. -/
structure Lexical where
  pUsize : Bytes → Option (Nat × Nat)
  pI32 : Bytes → Except Bool (Int × Nat)
  pU32 : Bytes → Option (Nat × Nat)
  /-- the value is the bit pattern -/
  pF32 : Bytes → Option (Nat × Nat)

/-- the assumed law: a partial parser reads at most the bytes it was given -/
structure Lexical.Lawful (L : Lexical) : Prop where
  usize_le : ∀ s n i, L.pUsize s = some (n, i) → i ≤ s.length
  i32_le : ∀ s n i, L.pI32 s = .ok (n, i) → i ≤ s.length
  u32_le : ∀ s n i, L.pU32 s = some (n, i) → i ≤ s.length
  f32_le : ∀ s n i, L.pF32 s = some (n, i) → i ≤ s.length

/-! ## CIGAR -/

/-- `op/kind.rs::parse_kind`: the nine operation letters -/
def isKind (b : UInt8) : Bool :=
  b == 77 || b == 73 || b == 68 || b == 78 || b == 83 || b == 72 || b == 80 || b == 61 || b == 88

/-- `parse_op`: `none` is a `ParseError`; the second component is `src` afterwards (untouched when
the length fails, one byte shorter when the kind is invalid) -/
def parseOp (L : Lexical) (src : Bytes) : Res (Option (Nat × UInt8) × Bytes) :=
  match L.pUsize src with
  | none => .ok (none, src)
  | some (len, i) => do
    -- `*src = &src[i..]`
    let src ← sliceFrom src i
    match src with
    | [] => .ok (none, [])
    | k :: rest => if isKind k then .ok (some (len, k), rest) else .ok (none, rest)

/-- `Cigar::iter` driven to its end (what `Debug`, `count`, `collect::<Vec<_>>` do): the items
(`none` = an `Err` item) and whether the iterator ended (`None`) within `fuel` calls. -/
def cigarItems (fused : Bool) (L : Lexical) :
    Nat → Bytes → Res (List (Option (Nat × UInt8)) × Bool)
  | 0, _ => .ok ([], false)
  | fuel + 1, src =>
    if src.isEmpty then .ok ([], true)
    else do
      let (item, src') ← parseOp L src
      let (items, ended) ← cigarItems fused L fuel (if fused && item.isNone then [] else src')
      .ok (item :: items, ended)

/-! ## optional fields -/

inductive Val
  | char (b : UInt8)
  | int32 (n : Int)
  | uint32 (n : Nat)
  | float (bits : Nat)
  | str (s : Bytes)
  | hex (s : Bytes)
  /-- subtype letter and the bytes after the optional leading `,` -/
  | array (sub : UInt8) (raw : Bytes)
  deriving Repr, DecidableEq

structure Field where
  t0 : UInt8
  t1 : UInt8
  val : Val
  deriving Repr, DecidableEq

/-- `tag.rs::parse_tag`: `split_first_chunk::<2>` -/
def parseTag : Bytes → Res ((UInt8 × UInt8) × Bytes)
  | a :: b :: r => .ok ((a, b), r)
  | _ => .err .eof

/-- `field.rs::consume_delimiter` -/
def consumeDelimiter : Bytes → Res Bytes
  | [] => .err .eof
  | b :: r => if b = 58 then .ok r else .err .invalidData

/-- `ty.rs::parse_type`: `A i f Z H B` -/
def parseType : Bytes → Res (UInt8 × Bytes)
  | [] => .err .eof
  | b :: r =>
    if b = 65 ∨ b = 105 ∨ b = 102 ∨ b = 90 ∨ b = 72 ∨ b = 66 then .ok (b, r) else .err .invalidData

/-- `value.rs::parse_string`: `find_byte(b'\t').unwrap_or(src.len())`, `src.split_at(i)` -/
def parseString (src : Bytes) : Res (Bytes × Bytes) :=
  splitAt src ((findIdx (fun b => b == TAB) src).getD src.length)

/-- `integer.rs::parse_integer_value` -/
def parseInteger (L : Lexical) (src : Bytes) : Res (Val × Bytes) :=
  match L.pI32 src with
  | .ok (n, i) => do
    let rest ← sliceFrom src i
    .ok (.int32 n, rest)
  | .error true =>
    match L.pU32 src with
    | some (n, i) => do
      let rest ← sliceFrom src i
      .ok (.uint32 n, rest)
    | none => .err .invalidData
  | .error false => .err .invalidData

/-- `value.rs::parse_float_value` -/
def parseFloat (L : Lexical) (src : Bytes) : Res (Val × Bytes) :=
  match L.pF32 src with
  | some (b, i) => do
    let rest ← sliceFrom src i
    .ok (.float b, rest)
  | none => .err .invalidData

/-- `array/subtype.rs::parse_subtype`: `c C s S i I f` -/
def isSubtype (b : UInt8) : Bool :=
  b == 99 || b == 67 || b == 115 || b == 83 || b == 105 || b == 73 || b == 102

/-- `array.rs::parse_array` (as fixed by 3068e42: the values are split off at the TAB first, the
optional `,` is consumed inside them) -/
def parseArray (src : Bytes) : Res (Val × Bytes) :=
  match src with
  | [] => .err .eof
  | st :: r =>
    if !isSubtype st then .err .invalidData
    else do
      let (buf, rest) ← parseString r
      match buf with
      | [] => .ok (.array st [], rest)
      | c :: b => if c = 44 then .ok (.array st b, rest) else .err .invalidData

/-- `value.rs::parse_value` -/
def parseValue (L : Lexical) (ty : UInt8) (src : Bytes) : Res (Val × Bytes) :=
  if ty = 65 then
    match src with
    | b :: r => .ok (.char b, r)
    | [] => .err .eof
  else if ty = 105 then parseInteger L src
  else if ty = 102 then parseFloat L src
  else if ty = 90 then do
    let (s, rest) ← parseString src
    .ok (.str s, rest)
  else if ty = 72 then do
    let (s, rest) ← parseString src
    .ok (.hex s, rest)
  else parseArray src

/-- `field.rs::maybe_consume_terminator` -/
def maybeConsumeTerminator : Bytes → Res Bytes
  | [] => .ok []
  | b :: r => if b = TAB then .ok r else .err .invalidData

/-- `field.rs::parse_field` -/
def parseField (L : Lexical) (src : Bytes) : Res (Field × Bytes) := do
  let ((t0, t1), src) ← parseTag src
  let src ← consumeDelimiter src
  let (ty, src) ← parseType src
  let src ← consumeDelimiter src
  let (v, src) ← parseValue L ty src
  let src ← maybeConsumeTerminator src
  .ok (⟨t0, t1, v⟩, src)

/-- `Data::iter` up to and including its first error (`Data::get`, `Debug`, the conversions stop
there): the fields, and the error if there was one. `fuel` ≥ the number of fields + 1. -/
def dataFields (L : Lexical) : Nat → Bytes → Res (List Field × Option Err)
  | 0, _ => .ok ([], none)
  | fuel + 1, src =>
    if src.isEmpty then .ok ([], none)
    else
      match parseField L src with
      | .ok (f, rest) => do
        let (fs, e) ← dataFields L fuel rest
        .ok (f :: fs, e)
      | .err e => .ok ([], some e)
      | .panic => .panic

/-! ## the transcription of lexical-core's integer parser used by the driver -/

def isDigit (b : UInt8) : Bool := 48 ≤ b.toNat && b.toNat ≤ 57

/-- the longest run of leading decimal digits: value and rest -/
def takeDigits : Bytes → Nat → Nat × Bytes
  | [], acc => (acc, [])
  | b :: r, acc => if isDigit b then takeDigits r (acc * 10 + (b.toNat - 48)) else (acc, b :: r)

/-- `parse_sign!`: (negative?, rest) — `+` for every type, `-` only for a signed one -/
def lexSign (signed : Bool) (s : Bytes) : Bool × Bytes :=
  match s with
  | 43 :: r => (false, r)
  | 45 :: r => if signed then (true, r) else (false, s)
  | _ => (false, s)

def lexVal (neg : Bool) (d : Nat) : Int := if neg then -(d : Int) else (d : Int)

/-- `lexical_core::parse_partial::<T>` in the standard format for an integer type with range
`[lo, hi]` (`lexical-parse-integer` `algorithm!`): an optional `+` (or `-` for a signed type; for
an unsigned type `-` is not a digit), `Empty` if nothing is left, then the longest run of digits —
possibly none — whose value must fit. Error `true` = `Overflow`, `false` = any other error. -/
def lexPartial (signed : Bool) (lo hi : Int) (s : Bytes) : Except Bool (Int × Nat) :=
  let p := lexSign signed s
  if p.2.isEmpty then .error false
  else
    let d := takeDigits p.2 0
    let v := lexVal p.1 d.1
    if hi < v then .error true
    else if v < lo then .error false
    else .ok (v, s.length - d.2.length)

def optOf {α : Type} : Except Bool α → Option α
  | .ok a => some a
  | .error _ => none

/-- the `Lexical` the driver runs with: `f32` answers come from the request line -/
def lexical (f32 : Bytes → Option (Nat × Nat)) : Lexical where
  pUsize s := (optOf (lexPartial false 0 18446744073709551615 s)).map fun p => (p.1.toNat, p.2)
  pI32 s := lexPartial true (-2147483648) 2147483647 s
  pU32 s := (optOf (lexPartial false 0 4294967295 s)).map fun p => (p.1.toNat, p.2)
  pF32 := f32

end Noodles.Hostile.SamText
